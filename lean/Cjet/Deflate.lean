import Cjet.Basic
import Cjet.Generated.Deflate
/-!
# Cjet.Deflate — the permessage-deflate bookkeeping of `compression.c` and the negotiation of
`websocket.c` (property C19)

zlib itself (`src/zlib`) is NOT modelled: `deflate`/`inflate` appear as parameters and everything
proved about losslessness is relative to stated assumptions about them.

* (a) `reassemble()`: the compressed-fragment buffer.  The first four bytes of the buffer hold its total
  size (`cap`), `strm->avail_in` holds the free space, `avail_in == 0` doubles as "there is no buffer".
  `stepCopy` is one call of `reassemble` with a non-empty fragment; `run` gives, per fragment, the
  `memcpy` range and the capacity at the time of the copy.  The flag `loops` selects the growth statement:
  `false` = `if (avail_in <= length + 4)` (one doubling per fragment, the code before fix F23),
  `true` = `while (…)` (the code now); `Generated.reasmGrowLoops` says which one the source has.
* (b) `private_decompress()` (tail re-appended, output buffer `20 * length`, doubled while full),
  `websocket_compress_bounded()` (output buffer of `dest_size` bytes, -1 unless the flush completed inside it,
  four tail bytes removed), its `length * 2` wrapper `websocket_compress()`, `websocket_compress_bound()`
  and `send_frame()`, over byte lists.  The flags `compressStrict` / `sendChecked` (regenerated from the
  source) say whether the repair of F37 is present; `false` = the code before it.
* (c) `check_websocket_extensions()` / `fill_requested_extension()` / `write_to_response()`: the offer
  parser and the response assembled in the fixed buffer.  The model works on the memory from `start` on
  (`buf`, which may extend past `length`; 0 beyond its end); since the repair of F38 every scan is bounded
  by `length` (`fillReads` lists the indices read, `Props.C19.offer_parse_reads_in_bounds`).

* (d) `ws_handle_frame()` as far as it decides what reaches the decompressor: the RSV check, the
  fragmentation bookkeeping (`is_fragmented`, `is_frag_compressed`, `frag_opcode`), the opcode switch with the
  control frames (ping answered with a pong, pong ignored, close), glued to (a)/(b): the input alphabet is
  whole frames, so control frames BETWEEN the fragments of a compressed message are inputs like any other.
  `Generated.fragFlagClearedByOpcode` says whether the tree clears `is_frag_compressed` anywhere else than
  behind the last fragment.

Sizes are natural numbers: the C code computes in `unsigned int`; `Cjet.Props.C19.reassemble_cap_le`
bounds every value by `6 * total + 16`, so the model is exact for messages below 2^32 / 8 bytes.
-/
namespace Cjet.Deflate
open Cjet.Generated.Deflate

/-! ## (a) fragment reassembly -/

/-- `cap` = the size word stored in the first four bytes of the buffer, `avail` = `strm->avail_in`. -/
structure RState where
  cap : Nat
  avail : Nat
  deriving Repr, DecidableEq, Inhabited

/-- after `alloc_compression` (and after every completely inflated message): `avail_in == 0`. -/
def RState.init : RState := ⟨0, 0⟩

/-- One `memcpy(next_in + off, msg, len)` into a buffer of `cap` bytes. -/
structure Copy where
  off : Nat
  len : Nat
  cap : Nat
  /-- `avail_in` behind the copy -/
  availAfter : Nat
  /-- this fragment `malloc`ed a new buffer -/
  fresh : Bool
  deriving Repr, DecidableEq, Inhabited

def Copy.inBounds (c : Copy) : Bool := decide (c.off + c.len ≤ c.cap)

/-- `memory = length * 3 + 4; avail_in = memory - 4` -/
def alloc (L : Nat) : RState :=
  ⟨L * reasmFactor + reasmHeader, L * reasmFactor + reasmHeader - reasmHeader⟩

/-- `next_size = cap * 2; realloc; avail_in += next_size / 2; cap = next_size` -/
def growStep (s : RState) : RState :=
  ⟨s.cap * reasmGrow, s.avail + s.cap * reasmGrow / reasmGrow⟩

def needsGrow (s : RState) (L : Nat) : Bool := decide (s.avail ≤ L + reasmSlack)

def growOnce (s : RState) (L : Nat) : RState := if needsGrow s L then growStep s else s

def growLoop : Nat → RState → Nat → RState
  | 0, s, _ => s
  | fuel + 1, s, L => if needsGrow s L then growLoop fuel (growStep s) L else s

/-- every turn adds at least one byte of free space (the capacity is never 0), so `L + slack + 1` turns suffice -/
def grow (loops : Bool) (s : RState) (L : Nat) : RState :=
  if loops then growLoop (L + reasmSlack + 1) s L else growOnce s L

/-- `reassemble(s, msg, L)` for `L ≠ 0`: the copy it performs and the state behind it. -/
def stepCopy (loops : Bool) (s : RState) (L : Nat) : Copy × RState :=
  let fresh := s.avail == 0
  let s1 := if fresh then alloc L else s
  let s2 := grow loops s1 L
  (⟨s2.cap - s2.avail, L, s2.cap, s2.avail - L, fresh⟩, ⟨s2.cap, s2.avail - L⟩)

/-- One record per fragment (`none`: an empty fragment, skipped by `if (length != 0)`).  The trace ends
    behind the first copy that leaves its buffer: from there on the C program has no defined behaviour. -/
def run (loops : Bool) : RState → List Nat → List (Option Copy)
  | _, [] => []
  | s, L :: rest =>
    if L = 0 then none :: run loops s rest
    else
      let r := stepCopy loops s L
      if r.1.inBounds then some r.1 :: run loops r.2 rest else [some r.1]

def allInBounds (tr : List (Option Copy)) : Bool :=
  tr.all fun | none => true | some c => c.inBounds

/-- the state behind a list of fragments (meaningful when every copy was in bounds) -/
def stateAfter (loops : Bool) : RState → List Nat → RState
  | s, [] => s
  | s, L :: rest => if L = 0 then stateAfter loops s rest else stateAfter loops (stepCopy loops s L).2 rest

/-- every copy of the trace lands directly behind its predecessors: offset 4 + bytes so far -/
def contiguousFrom : Nat → List (Option Copy) → Bool
  | _, [] => true
  | t, none :: rest => contiguousFrom t rest
  | t, some c :: rest => c.off == reasmHeader + t && contiguousFrom (t + c.len) rest

/-- The exact condition for the single-doubling code: every fragment that finds a buffer is at most
    (free space + capacity) long — that is all one doubling can make room for. -/
def fitsOnce : RState → List Nat → Prop
  | _, [] => True
  | s, L :: rest =>
    if L = 0 then fitsOnce s rest
    else (s.avail = 0 ∨ L ≤ s.avail + s.cap) ∧ fitsOnce (stepCopy false s L).2 rest

/-! ### byte level: the buffer contents -/

/-- the reassembly buffer with its contents; `live` = a buffer exists (`next_in` points to it) -/
structure RBuf where
  st : RState
  mem : Bytes
  live : Bool
  deriving Repr, DecidableEq

def RBuf.init : RBuf := ⟨RState.init, [], false⟩

def writeAt (mem : Bytes) (off : Nat) (d : Bytes) : Bytes :=
  mem.take off ++ d ++ mem.drop (off + d.length)

/-- `reassemble` with the bytes; `none` = the copy left the buffer -/
def reasmBytes (loops : Bool) (b : RBuf) (frag : Bytes) : Option RBuf :=
  if frag.length = 0 then some b
  else
    let r := stepCopy loops b.st frag.length
    let mem0 := if r.1.fresh then List.replicate r.1.cap 0
                else b.mem ++ List.replicate (r.1.cap - b.mem.length) 0
    if r.1.inBounds then some ⟨r.2, writeAt mem0 r.1.off frag, true⟩ else none

/-! ## (b) inflate / deflate bookkeeping -/

/-- state of the output side of `private_decompress` -/
structure OutSt where
  sizeOut : Nat
  availOut : Nat
  nextOut : Nat
  deriving Repr, DecidableEq

/-- one `inflate()` call stored `len` bytes at `off` of an output buffer of `size` bytes -/
structure OutChunk where
  off : Nat
  len : Nat
  size : Nat
  deriving Repr, DecidableEq

/-- The `do { if (avail_out == 0) double; inflate } while (avail_out == 0)` loop for an inflater that
    has `remaining` bytes to deliver and stores as many as fit on every call. -/
def outLoop : Nat → Nat → OutSt → List OutChunk × OutSt
  | 0, _, st => ([], st)
  | fuel + 1, remaining, st =>
    let st1 : OutSt := if st.availOut = 0 then ⟨st.sizeOut * 2, st.availOut + st.sizeOut, st.sizeOut * 2 / 2⟩ else st
    let k := min st1.availOut remaining
    let st2 : OutSt := ⟨st1.sizeOut, st1.availOut - k, st1.nextOut + k⟩
    let ch : OutChunk := ⟨st1.nextOut, k, st1.sizeOut⟩
    if st2.availOut = 0 then
      let r := outLoop fuel (remaining - k) st2
      (ch :: r.1, r.2)
    else ([ch], st2)

/-- `*have = size_out - strm->avail_out` for `total` bytes of inflated data and an initial buffer `s0` -/
def outHave (total s0 : Nat) : Nat :=
  let r := outLoop (total + 2) total ⟨s0, s0, 0⟩
  r.2.sizeOut - r.2.availOut

/-- `private_decompress`: tail re-appended, inflated, the first `have` bytes of the output delivered.
    `none` = `WS_ERROR`: inflate reports an error, or `20 * length = 0` (the doubling `realloc(p, 0)` fails). -/
def privateDecompress (inflate : Bytes → Option Bytes) (msg : Bytes) : Option Bytes :=
  if inflateOutFactor * msg.length = 0 then none
  else match inflate (msg ++ tail) with
    | none => none
    | some out => some (out.take (outHave out.length (inflateOutFactor * msg.length)))

/-- what a receive call does -/
inductive Recv where
  /-- `WS_OK`, nothing delivered yet (non-final fragment) -/
  | pending
  /-- the callback got this payload -/
  | ok (payload : Bytes)
  /-- `WS_ERROR` -/
  | error
  /-- memory-unsafe: a copy past the buffer, or the buffer pointer used while there is no buffer -/
  | wild
  deriving Repr, DecidableEq

/-- `binary_received_comp` / `text_received_comp` on a compressed message -/
def recvMessage (inflate : Bytes → Option Bytes) (msg : Bytes) : Recv :=
  match privateDecompress inflate msg with
  | some p => .ok p
  | none => .error

/-- `binary_frame_received_comp` / `text_frame_received_comp` over the fragments of one compressed message
    (`guard` = the final fragment is refused when `avail_in == 0`, fix F36). -/
def recvFrames (loops guard : Bool) (inflate : Bytes → Option Bytes) : RBuf → List Bytes → Recv
  | _, [] => .pending
  | b, f :: rest =>
    match reasmBytes loops b f with
    | none => .wild
    | some b' =>
      match rest with
      | _ :: _ => recvFrames loops guard inflate b' rest
      | [] =>
        if guard && b'.st.avail == 0 then .error
        else if !b'.live then .wild
        else
          let sumLen := b'.st.cap - b'.st.avail - reasmHeader
          recvMessage inflate ((b'.mem.drop reasmHeader).take sumLen)

/-- the code as it is in the tree (flags regenerated from the source) -/
def recvFramesNow := recvFrames reasmGrowLoops reasmNoBufferGuard

/-- remove / re-append the tail -/
def stripTail (s : Bytes) : Bytes := s.take (s.length - tailStrip)
def endsWithTail (s : Bytes) : Bool := s.drop (s.length - tailStrip) == tail

/-- result of `websocket_compress_bounded` -/
inductive CompRes where
  /-- `-1` -/
  | error
  /-- (code before the repair of F37 only) fewer than four bytes produced: `dest[have - 4]` is read in front of
      (or, after the unsigned wrap, far behind) `dest` -/
  | wild
  /-- `have - 4` bytes returned; `tailOk` = the four bytes removed were the tail -/
  | ok (out : Bytes) (tailOk : Bool)
  deriving Repr, DecidableEq

/-- `websocket_compress_bounded(s, dest, dest_size, src, length)` for a compression level other than 0.
    `zdeflate x` is zlib: everything `deflate()` emits for the message with a sync/full flush when it is given
    enough room (`none`: `deflate()` returns an error, e.g. `Z_BUF_ERROR` when there is nothing to do); only
    `destSize` bytes of it arrive in `dest`.  `strict` = the checks of the repaired code (F37):
    an incomplete flush (`avail_out == 0`), fewer than `tailStrip` bytes, a wrong tail are answered `-1`. -/
def compress (strict : Bool) (zdeflate : Bytes → Option Bytes) (destSize : Nat) (x : Bytes) : CompRes :=
  if destSize = 0 then .error
  else match zdeflate x with
    | none => .error
    | some full =>
      if strict && (full.take destSize).length == destSize then .error
      else if (full.take destSize).length < tailStrip then (if strict then .error else .wild)
      else if strict && !endsWithTail (full.take destSize) then .error
      else .ok (stripTail (full.take destSize)) (endsWithTail (full.take destSize))

/-- … at level 0: the payload is copied (the repaired code refuses a destination that is too small) -/
def compressCopy (strict : Bool) (destSize : Nat) (x : Bytes) : CompRes :=
  if destSize < x.length then (if strict then .error else .wild) else .ok x true

/-- what the call does to `dest`: zlib stores `written` bytes from `dest[0]` on, the tail check reads the
    indices `reads` (integers: before the repair `have - 4` could be negative) -/
structure CompAccess where
  written : Nat
  reads : List Int
  deriving Repr, DecidableEq

def compressAccess (strict : Bool) (zdeflate : Bytes → Option Bytes) (destSize : Nat) (x : Bytes) : CompAccess :=
  if destSize = 0 then ⟨0, []⟩
  else match zdeflate x with
    | none => ⟨0, []⟩
    | some full =>
      if strict && ((full.take destSize).length == destSize || decide ((full.take destSize).length < tailStrip)) then
        ⟨(full.take destSize).length, []⟩
      else
        ⟨(full.take destSize).length,
          (List.range tailStrip).map fun (k : Nat) => Int.ofNat (full.take destSize).length - 1 - Int.ofNat k⟩

/-- `websocket_compress()`: the wrapper with the `length * 2` contract of the existing callers -/
def compressWrapper (strict : Bool) (zdeflate : Bytes → Option Bytes) (x : Bytes) : CompRes :=
  compress strict zdeflate (x.length * deflateOutFactor) x

/-- `websocket_compress_bound()` (level other than 0); `dbound` is zlib's `deflateBound()` -/
def compressBound (dbound : Nat → Nat) (n : Nat) : Nat := dbound n + flushMarkerMax + flushSpare

/-- what `send_frame` does with a data frame on a connection with permessage-deflate -/
inductive SendRes where
  /-- one frame with RSV1 and this payload went to `writev` -/
  | sent (payload : Bytes)
  /-- `-1`, nothing sent -/
  | error
  /-- (code before the repair of F37 only) the result of the compressor was used unchecked: `-1` as the frame
      length, or the out-of-bounds read -/
  | bogus (r : CompRes)
  deriving Repr, DecidableEq

/-- `send_frame`.  `checked` (the repaired code): buffer of `websocket_compress_bound()` bytes, `malloc` and
    the result checked.  Before: buffer of `2 * length` bytes, nothing checked, a wrong tail only logged. -/
def sendFrame (strict checked : Bool) (mallocOk : Bool) (dbound : Nat → Nat) (zdeflate : Bytes → Option Bytes)
    (x : Bytes) : SendRes :=
  if checked then
    if !mallocOk then .error
    else match compress strict zdeflate (compressBound dbound x.length) x with
      | .ok c _ => .sent c
      | _ => .error
  else
    match compress strict zdeflate (x.length * deflateOutFactor) x with
      | .ok c _ => .sent c
      | r => .bogus r

/-- the code as it is in the tree (flags regenerated from the source) -/
def compressNow := compress compressStrict
def sendFrameNow := sendFrame compressStrict sendChecked true

/-- A whole connection: zlib's two streams are state machines (`deflate`/`inflate` with their states —
    that is where window bits and context takeover live); `cut` is any fragmentation of a compressed
    message.  Every message is sent through `send_frame` and received through the frame path. -/
def sessionOk {σd σi : Type} (dbound : Nat → Nat) (deflate : σd → Bytes → Bytes × σd)
    (inflate : σi → Bytes → Option (Bytes × σi)) (cut : Bytes → List Bytes) : σd → σi → List Bytes → Prop
  | _, _, [] => True
  | sd, si, x :: rest =>
    match sendFrameNow dbound (fun y => some (deflate sd y).1) x with
    | .sent c =>
      recvFramesNow (fun s => (inflate si s).map (·.1)) RBuf.init (cut c) = .ok x ∧
      (match inflate si (c ++ tail) with
        | some (_, si') => sessionOk dbound deflate inflate cut (deflate sd x).2 si' rest
        | none => False)
    | _ => False

/-! ## (d) `ws_handle_frame()`: the frame dispatch in front of the decompressor

The connection has permessage-deflate negotiated at a level other than 0 (`extension_compression.accepted`).
What the dispatch does with close frames beyond "answer and close" (status code and UTF-8 validation) is the
subject of C12/C18: here the status code of the answer is a parameter (`closeCode`). -/

/-- one frame as `ws_get_header … ws_get_payload` hand it to `ws_handle_frame` (payload unmasked) -/
structure Frame where
  fin : Bool
  /-- the three RSV bits (`rsvCompressed` = RSV1 alone) -/
  rsv : Nat
  opcode : Nat
  payload : Bytes
  deriving Repr, DecidableEq

/-- `ws_flags.is_fragmented`, `ws_flags.is_frag_compressed`, `ws_flags.frag_opcode` -/
structure WsFlags where
  isFragmented : Bool
  isFragCompressed : Bool
  fragOpcode : Nat
  deriving Repr, DecidableEq

/-- `websocket_init`, and again behind the last fragment of every message -/
def WsFlags.init : WsFlags := ⟨false, false, opContinuation⟩

/-- what survives from one frame to the next: the flags and the reassembly buffer of the inflate stream -/
structure Conn where
  fl : WsFlags
  buf : RBuf
  deriving Repr, DecidableEq

def Conn.init : Conn := ⟨WsFlags.init, RBuf.init⟩

/-- what the application and the peer see of one frame -/
inductive Ev where
  /-- `binary_frame_received` / `text_frame_received` (by `op`) -/
  | frame (op : Nat) (data : Bytes) (last : Bool)
  /-- `binary_message_received` / `text_message_received` -/
  | message (op : Nat) (data : Bytes)
  /-- a pong frame with this payload was sent -/
  | pong (data : Bytes)
  /-- a close frame with this status was sent and the connection closed; `isError` = through `handle_error` -/
  | closed (code : Nat) (isError : Bool)
  /-- memory-unsafe (see `Recv.wild`) -/
  | wild
  deriving Repr, DecidableEq

/-- result of `binary_frame_received_comp` / `text_frame_received_comp` -/
inductive FrameRes where
  | ok (evs : List Ev) (buf : RBuf)
  /-- `WS_ERROR` -/
  | error
  | wild
  deriving Repr, DecidableEq

/-- `binary_frame_received_comp(is_compressed, s, msg, length, is_last_frame, cb)` (and the text variant):
    a compressed fragment goes into the reassembly buffer and only the last one produces a callback (with the
    whole inflated message; the final step is `recvFrames` on that one fragment); an uncompressed fragment is
    handed to the callback as it is. -/
def frameComp (loops guard : Bool) (inflate : Bytes → Option Bytes) (isComp : Bool) (op : Nat) (b : RBuf)
    (data : Bytes) (last : Bool) : FrameRes :=
  if isComp then
    if last then
      match recvFrames loops guard inflate b [data] with
      | .ok p => .ok [.frame op p true] RBuf.init
      | .wild => .wild
      | _ => .error
    else
      match reasmBytes loops b data with
      | none => .wild
      | some b' => .ok [] b'
  else .ok [.frame op data last] b

/-- the RSV check at the top of `ws_handle_frame` (extension accepted): `true` = protocol error -/
def rsvBad (f : Frame) : Bool :=
  f.rsv != 0 && (f.rsv != rsvCompressed || decide (opClose ≤ f.opcode))

/-- the tree clears `is_frag_compressed` for frames picked by their opcode (`clr`; not in the code as committed) -/
def clearFlag (clr : Bool) (fl : WsFlags) (f : Frame) : WsFlags :=
  if clr && f.opcode != opContinuation then { fl with isFragCompressed := false } else fl

/-- the `if (fin == 0) { … }` block: the flags and the opcode the switch goes on with; `none` = protocol error -/
def fragStart (fl : WsFlags) (f : Frame) : Option (WsFlags × Nat) :=
  if f.fin then some (fl, f.opcode)
  else if f.opcode != opContinuation then
    if fl.isFragmented then none
    else some (⟨true, fl.isFragCompressed || f.rsv != 0, f.opcode⟩, opContinuation)
  else if f.rsv != 0 then none
  else if !fl.isFragmented then none
  else some (fl, f.opcode)

/-- `handle_error(s, code); return WS_CLOSED;` (or `WS_ERROR` from the decompressor, which `ws_get_payload`
    turns into `handle_error(s, WS_CLOSE_INTERNAL_ERROR)`) -/
def closeErr (code : Nat) : List Ev × Option Conn := ([.closed code true], none)

/-- the `switch (opcode)` of `ws_handle_frame` with the check in front of it -/
def dispatch (loops guard : Bool) (inflate : Bytes → Option Bytes) (closeCode : Bytes → Nat)
    (fl : WsFlags) (op : Nat) (buf : RBuf) (f : Frame) : List Ev × Option Conn :=
  if fl.isFragmented && (decide (op < opClose) && decide (0 < op)) then closeErr closeProtocolError
  else if op == opContinuation then
    if fl.fragOpcode == opBinary || fl.fragOpcode == opText then
      match frameComp loops guard inflate fl.isFragCompressed fl.fragOpcode buf f.payload f.fin with
      | .ok evs b => (evs, some ⟨if f.fin then WsFlags.init else fl, b⟩)
      | .error => closeErr closeInternalError
      | .wild => ([.wild], none)
    else closeErr closeProtocolError
  else if op == opBinary || op == opText then
    if f.rsv != 0 then
      match recvMessage inflate f.payload with
      | .ok p => ([.message op p], some ⟨fl, RBuf.init⟩)
      | .wild => ([.wild], none)
      | _ => closeErr closeInternalError
    else ([.message op f.payload], some ⟨fl, buf⟩)
  else if op == opPing then
    if wsSmallFrame < f.payload.length then closeErr closeProtocolError
    else ([.pong f.payload], some ⟨fl, buf⟩)
  else if op == opPong then
    if wsSmallFrame < f.payload.length then closeErr closeProtocolError
    else ([], some ⟨fl, buf⟩)
  else if op == opClose then
    ([.closed (closeCode f.payload) (closeCode f.payload != closeNormal)], none)
  else closeErr closeProtocolError

/-- `ws_handle_frame(s, frame, length)`: the events of this frame and the connection behind it (`none` = closed) -/
def handleFrame (clr loops guard : Bool) (inflate : Bytes → Option Bytes) (closeCode : Bytes → Nat)
    (c : Conn) (f : Frame) : List Ev × Option Conn :=
  if rsvBad f then closeErr closeProtocolError
  else if !f.fin && decide (opClose ≤ f.opcode) then closeErr closeProtocolError
  else match fragStart (clearFlag clr c.fl f) f with
    | none => closeErr closeProtocolError
    | some r => dispatch loops guard inflate closeCode r.1 r.2 c.buf f

/-- a sequence of frames on one connection; nothing is read behind the frame that closed it -/
def runFrames (clr loops guard : Bool) (inflate : Bytes → Option Bytes) (closeCode : Bytes → Nat) :
    Conn → List Frame → List Ev × Option Conn
  | c, [] => ([], some c)
  | c, f :: rest =>
    match handleFrame clr loops guard inflate closeCode c f with
    | (evs, none) => (evs, none)
    | (evs, some c') =>
      (evs ++ (runFrames clr loops guard inflate closeCode c' rest).1,
        (runFrames clr loops guard inflate closeCode c' rest).2)

/-- the code as it is in the tree (flags regenerated from the source) -/
def handleFrameNow := handleFrame fragFlagClearedByOpcode reasmGrowLoops reasmNoBufferGuard
def runFramesNow := runFrames fragFlagClearedByOpcode reasmGrowLoops reasmNoBufferGuard

/-! ### every legal presentation of one compressed message (RFC 6455 §5.4, RFC 7692 §6) -/

/-- a control frame that may stand between the fragments of a message -/
inductive Ctl where
  | ping (p : Bytes)
  | pong (p : Bytes)
  deriving Repr, DecidableEq

def Ctl.payload : Ctl → Bytes
  | .ping p => p
  | .pong p => p

def Ctl.frame : Ctl → Frame
  | .ping p => ⟨true, 0, opPing, p⟩
  | .pong p => ⟨true, 0, opPong, p⟩

/-- what the peer must see of it: a ping is answered with a pong carrying the same payload -/
def Ctl.answer : Ctl → List Ev
  | .ping p => [.pong p]
  | .pong _ => []

def ctlAnswers (cs : List Ctl) : List Ev := cs.flatMap Ctl.answer

/-- the continuation frames of a message, each with the control frames in front of it; the last one has FIN -/
def contFrames : List (List Ctl × Bytes) → List Frame
  | [] => []
  | p :: rest => p.1.map Ctl.frame ++ ⟨rest.isEmpty, 0, opContinuation, p.2⟩ :: contFrames rest

/-- One compressed message (`op` = text or binary) on the wire: the first frame carries the opcode and RSV1;
    `rest = []` is the unfragmented message, otherwise `f0` and the `p.2` are the fragments and `p.1` the
    control frames that arrive in front of fragment `p.2`. -/
def present (op : Nat) (f0 : Bytes) (rest : List (List Ctl × Bytes)) : List Frame :=
  ⟨rest.isEmpty, rsvCompressed, op, f0⟩ :: contFrames rest

/-- what has to come out: the answers to the control frames in their order, then the payload once — through
    the message callback for an unfragmented message, through the frame callback (`last`) otherwise -/
def presentEvents (op : Nat) (x : Bytes) (rest : List (List Ctl × Bytes)) : List Ev :=
  rest.flatMap (fun p => ctlAnswers p.1) ++ [if rest.isEmpty then .message op x else .frame op x true]

/-- one message of a session: payload, opcode, control frames in front of it, and how its compressed body is cut
    up and interleaved (a function of the body, which only zlib knows) -/
structure MsgSpec where
  x : Bytes
  op : Nat
  pre : List Ctl
  cut : Bytes → Bytes × List (List Ctl × Bytes)

def MsgSpec.frames (m : MsgSpec) (body : Bytes) : List Frame :=
  m.pre.map Ctl.frame ++ present m.op (m.cut body).1 (m.cut body).2

def MsgSpec.events (m : MsgSpec) (body : Bytes) : List Ev :=
  ctlAnswers m.pre ++ presentEvents m.op m.x (m.cut body).2

/-- a legal presentation: text or binary, control frames of at most 125 bytes, the pieces are the body -/
def MsgSpec.Legal (m : MsgSpec) : Prop :=
  (m.op = opText ∨ m.op = opBinary) ∧ (∀ k ∈ m.pre, k.payload.length ≤ wsSmallFrame) ∧
  ∀ c, (m.cut c).1 ++ ((m.cut c).2.map (·.2)).flatten = c ∧
    ∀ p ∈ (m.cut c).2, ∀ k ∈ p.1, k.payload.length ≤ wsSmallFrame

/-- A whole connection as in `sessionOk`, every message in its own presentation: each one is delivered
    exactly once and unchanged, every ping answered, and the connection is back in its initial state
    (flags clear, no reassembly buffer) before the next message starts. -/
def sessionIlOk {σd σi : Type} (dbound : Nat → Nat) (deflate : σd → Bytes → Bytes × σd)
    (inflate : σi → Bytes → Option (Bytes × σi)) (closeCode : Bytes → Nat) : σd → σi → List MsgSpec → Prop
  | _, _, [] => True
  | sd, si, m :: rest =>
    match sendFrameNow dbound (fun y => some (deflate sd y).1) m.x with
    | .sent c =>
      runFramesNow (fun s => (inflate si s).map (·.1)) closeCode Conn.init (m.frames c) =
          (m.events c, some Conn.init) ∧
      (match inflate si (c ++ tail) with
        | some (_, si') => sessionIlOk dbound deflate inflate closeCode (deflate sd m.x).2 si' rest
        | none => False)
    | _ => False

/-! ## (c) negotiation -/

/-- `start[i]`: the memory from `start` on; 0 beyond what the model knows -/
def rd (buf : Bytes) (i : Nat) : UInt8 := buf.getD i 0

/-- `isspace` in the C locale -/
def isSpace (b : UInt8) : Bool := b == 32 || (9 ≤ b && b ≤ 13)

def chSemicolon : UInt8 := 59
def chComma : UInt8 := 44
def chEq : UInt8 := 61
def chZero : UInt8 := 48
def chOne : UInt8 := 49

/-- `while ((i < length) && isspace(start[i])) i++` (bounded by `length` since the repair of F38) -/
def skipSpaces (buf : Bytes) (length : Nat) : Nat → Nat → Nat
  | 0, i => i
  | fuel + 1, i => if i < length && isSpace (rd buf i) then skipSpaces buf length fuel (i + 1) else i

/-- `memcmp(name, start + p, strlen(name)) == 0` -/
def memEq (buf : Bytes) (p : Nat) (name : Bytes) : Bool :=
  (List.range name.length).all fun k => rd buf (p + k) == name.getD k 0

/-- `parameter[]`, `parameter_length[]`, `parameter_count` -/
structure Split where
  count : Nat
  starts : List Nat
  lens : List Nat
  deriving Repr, DecidableEq

def bump (l : List Nat) (k : Nat) : List Nat := l.set k (l.getD k 0 + 1)

/-- the first loop of `fill_requested_extension`; `none` = `return` (a fifth `;`) -/
def splitLoop (buf : Bytes) (length : Nat) : Nat → Nat → Split → Option Split
  | 0, _, sp => some sp
  | fuel + 1, i, sp =>
    if i < length then
      let c := rd buf i
      let sp1 := if !isSpace c && c != chSemicolon then { sp with lens := bump sp.lens sp.count } else sp
      if c == chSemicolon then
        let cnt := sp1.count + 1
        if cnt == maxParams then none
        else
          let j := skipSpaces buf length (length + 1) (i + 1)
          splitLoop buf length fuel (j + 1) { sp1 with count := cnt, starts := sp1.starts.set cnt j }
      else splitLoop buf length fuel (i + 1) sp1
    else some sp

def Split.init : Split := ⟨0, List.replicate maxParams 0, paramLenInit⟩

/-- `(parameter[i], parameter_length[i])` for `i = 1 .. parameter_count` -/
def Split.params (sp : Split) : List (Nat × Nat) :=
  (List.range sp.count).map fun k => (sp.starts.getD (k + 1) 0, sp.lens.getD (k + 1) 0)

inductive PName where
  | cmw | smw | cnc | snc
  deriving Repr, DecidableEq

def PName.bytes : PName → Bytes
  | .cmw => nameCmw
  | .smw => nameSmw
  | .cnc => nameCnc
  | .snc => nameSnc

/-- one parameter written into the response (`value = 0`: without a value) -/
structure Item where
  name : PName
  value : Nat
  deriving Repr, DecidableEq

/-- ghost: a parameter of the offer that the parser recognised, with its position in `buf` -/
inductive Offer where
  | cmw (p : Nat) (v : Option Nat)
  | smw (p : Nat) (v : Nat)
  | cnc (p : Nat)
  | snc (p : Nat)
  deriving Repr, DecidableEq

/-- `extension_compression` of `struct websocket` plus ghost fields -/
structure Ext where
  level : Nat
  cmw : Nat
  cnc : Bool
  smw : Nat
  snc : Bool
  accepted : Bool
  /-- the bytes written into `response` since it was last restarted (without the final NUL) -/
  resp : Bytes
  /-- ghost: 1 + the highest index of `response` that was ever written -/
  hiWater : Nat
  /-- ghost: the parameters written into `resp` -/
  items : List Item
  /-- ghost: what was recognised in the element being processed -/
  offers : List Offer
  /-- ghost: offset (in the header value) of the element being processed -/
  elemStart : Nat
  deriving Repr, DecidableEq

/-- `websocket_init`: the defaults of the compression level -/
def Ext.init (level : Nat) : Ext :=
  let d := levelDefaults.getD level (0, false, 0, false)
  { level := level, cmw := d.1, cnc := d.2.1, smw := d.2.2.1, snc := d.2.2.2, accepted := false,
    resp := [], hiWater := 0, items := [], offers := [], elemStart := 0 }

def digitByte (d : Nat) : UInt8 := UInt8.ofNat (48 + d % 10)

/-- `=N` as `write_to_response` prints it (nothing for 0; `1` and the last digit for `N ≥ 10`) -/
def renderValue (v : Nat) : Bytes :=
  if v = 0 then [] else if v < 10 then [chEq, digitByte v] else [chEq, chOne, digitByte v]

def renderItem (n : PName) (v : Nat) : Bytes := [chSemicolon, 32] ++ n.bytes ++ renderValue v

def renderItems (l : List Item) : Bytes := (l.map fun it => renderItem it.name it.value).flatten

def writeToResponse (e : Ext) (n : PName) (v : Nat) : Ext :=
  { e with resp := e.resp ++ renderItem n v, items := e.items ++ [⟨n, v⟩],
           hiWater := max e.hiWater (e.resp.length + (renderItem n v).length) }

/-- `tmp = *value_start; tmp -= '0'` in `unsigned int` (`char` is signed): anything that is not in
    `'0' .. 0x7f` becomes a huge number -/
def tmpOf (b : UInt8) : Nat := if 48 ≤ b.toNat ∧ b.toNat < 128 then b.toNat - 48 else 4294967295

/-- `client_offered_*` -/
structure Flags where
  cmw : Bool
  smw : Bool
  cnc : Bool
  snc : Bool
  deriving Repr, DecidableEq

/-- what one turn of the parameter loop decides; `none` = `return` -/
inductive Action where
  | cmw (v : Option Nat)
  | smw (v : Nat)
  | cnc
  | snc
  deriving Repr, DecidableEq

/-- the value part of `client_max_window_bits` (`l` = counted length of the parameter): one digit for
    `l = name + 2`, `1x` for `l = name + 3`, anything else is refused without reading further (F38) -/
def cmwValue (buf : Bytes) (p l : Nat) : Option (Option Nat) :=
  if l > nameCmw.length then
    if rd buf (p + nameCmw.length) != chEq then none
    else if l == nameCmw.length + 2 then
      if tmpOf (rd buf (p + nameCmw.length + 1)) < cmwDigitLo || tmpOf (rd buf (p + nameCmw.length + 1)) > cmwDigitHi
      then none else some (some (tmpOf (rd buf (p + nameCmw.length + 1))))
    else if l == nameCmw.length + 3 then
      if rd buf (p + nameCmw.length + 1) != chOne then none
      else if tmpOf (rd buf (p + nameCmw.length + 2)) > cmwSecondHi then none
      else some (some (10 + tmpOf (rd buf (p + nameCmw.length + 2))))
    else none
  else some none

/-- the value of `server_max_window_bits`, which is required (`l ≤ name`: refused before anything is read, F38) -/
def smwValue (buf : Bytes) (p l : Nat) : Option Nat :=
  if l ≤ nameSmw.length then none
  else if rd buf (p + nameSmw.length) != chEq then none
  else if l == nameSmw.length + 2 then
    if tmpOf (rd buf (p + nameSmw.length + 1)) != smwDigit then none
    else some (tmpOf (rd buf (p + nameSmw.length + 1)))
  else if l == nameSmw.length + 3 then
    if rd buf (p + nameSmw.length + 1) != chOne then none
    else if tmpOf (rd buf (p + nameSmw.length + 2)) > smwSecondHi then none
    else some (10 + tmpOf (rd buf (p + nameSmw.length + 2)))
  else none

def classify (buf : Bytes) (fl : Flags) (p l : Nat) : Option Action :=
  if l < nameCmw.length then none
  else if memEq buf p nameCmw then
    if fl.cmw then none
    else if nameCmw.length + 3 < l then none
    else (cmwValue buf p l).map Action.cmw
  else if memEq buf p nameSmw then
    if fl.smw then none
    else if nameSmw.length + 3 < l then none
    else (smwValue buf p l).map Action.smw
  else if l < nameCnc.length then none
  else if memEq buf p nameCnc then
    if fl.cnc then none else some .cnc
  else if memEq buf p nameSnc then
    if fl.snc then none else some .snc
  else none

def applyAction (e : Ext) (fl : Flags) (p : Nat) : Action → Ext × Flags
  | .cmw ov =>
    let c := match ov with
      | some t => if e.cmw > t then t else e.cmw
      | none => e.cmw
    (writeToResponse { e with cmw := c, offers := e.offers ++ [.cmw p ov] } .cmw c, { fl with cmw := true })
  | .smw t =>
    let c := if e.smw > t then t else e.smw
    (writeToResponse { e with smw := c, offers := e.offers ++ [.smw p t] } .smw c, { fl with smw := true })
  | .cnc =>
    ({ writeToResponse { e with offers := e.offers ++ [.cnc p] } .cnc 0 with cnc := true }, { fl with cnc := true })
  | .snc =>
    ({ writeToResponse { e with offers := e.offers ++ [.snc p] } .snc 0 with snc := true }, { fl with snc := true })

/-- the `for (i = 1; i <= parameter_count; i++)` loop; `none` = `return` from the function, the state
    as it was left -/
def paramLoop (buf : Bytes) : Ext → Flags → List (Nat × Nat) → Ext × Option Flags
  | e, fl, [] => (e, some fl)
  | e, fl, (p, l) :: rest =>
    match classify buf fl p l with
    | none => (e, none)
    | some a =>
      let r := applyAction e fl p a
      paramLoop buf r.1 r.2 rest

/-- `if (!client_offered_c_max_window) client_max_window_bits = 15` -/
def finCmw (e : Ext) (fl : Flags) : Ext := if !fl.cmw then { e with cmw := cmwDefault } else e

/-- the server announces its own window when the client did not ask and it is below 15 -/
def finSmw (e : Ext) (fl : Flags) : Ext :=
  if !fl.smw && decide (e.smw < smwAnnounceBelow) then writeToResponse e .smw e.smw else e

def finCnc (e : Ext) (fl : Flags) : Ext := if !fl.cnc && e.cnc then writeToResponse e .cnc 0 else e

def finSnc (e : Ext) (fl : Flags) : Ext := if !fl.snc && e.snc then writeToResponse e .snc 0 else e

/-- `response[response_length] = 0; accepted = true; alloc_compression(s)` (which replaces a server
    window of 8 bits by 9) -/
def finAccept (e : Ext) : Ext :=
  if e.smw == smwUnsupported then
    { e with hiWater := max e.hiWater (e.resp.length + 1), accepted := true, smw := smwReplacement }
  else { e with hiWater := max e.hiWater (e.resp.length + 1), accepted := true }

/-- behind the loop: defaults, the parameters the server adds by itself, NUL, `alloc_compression` -/
def finalize (e : Ext) (fl : Flags) : Ext :=
  finAccept (finSnc (finCnc (finSmw (finCmw e fl) fl) fl) fl)

/-- `fill_requested_extension(s, start, length)`; `buf` = the memory from `start` on, `at` = ghost offset -/
def fill (e : Ext) (buf : Bytes) (length : Nat) (at_ : Nat := 0) : Ext :=
  if e.accepted || e.level == 0 then e
  else match splitLoop buf length (length + 1) 0 Split.init with
    | none => e
    | some sp =>
      if sp.lens.getD 0 0 == extName.length && memEq buf 0 extName then
        match paramLoop buf { e with resp := extName, items := [], offers := [], elemStart := at_,
                                     hiWater := max e.hiWater extName.length }
            ⟨false, false, false, false⟩ sp.params with
        | (e', none) => e'
        | (e', some fl) => finalize e' fl
      else e

/-- distance from `start` to the next `,` (or to the end) -/
def scanComma (mem : Bytes) (start : Nat) : Nat → Nat
  | 0 => 0
  | n + 1 => if rd mem start == chComma then 0 else scanComma mem (start + 1) n + 1

/-- `check_websocket_extensions(s, at, length)`; `mem` = the memory from `at` on -/
def extLoop (mem : Bytes) : Nat → Nat → Nat → Ext → Ext
  | 0, _, _, e => e
  | fuel + 1, start, length, e =>
    if length = 0 then e
    else
      let c := rd mem start
      if !isSpace c && c != chComma then
        let n := scanComma mem start length
        let e' := fill e (mem.drop start) n start
        if n < length then extLoop mem fuel (start + n) (length - n) e' else e'
      else extLoop mem fuel (start + 1) (length - 1) e

def checkExtensions (e : Ext) (mem : Bytes) (length : Nat) : Ext :=
  extLoop mem (length + 1) 0 length e

/-- the whole header callback for one `Sec-WebSocket-Extensions` value -/
def negotiate (level : Nat) (mem : Bytes) (length : Nat) : Ext :=
  checkExtensions (Ext.init level) mem length

/-! ### the indices of `start[…]` that `fill_requested_extension` reads

The same control flow as `splitLoop` / `classify` / `paramLoop` / `fill`, collecting the index of every
`*(start + i)`, `*value_start` and the ranges handed to `memcmp` (as a whole: ASan checks them as a whole). -/

/-- `memcmp(name, start + p, n)` -/
def memReads (p n : Nat) : List Nat := (List.range n).map (p + ·)

/-- the bounded blank skipping: every index it looks at -/
def skipReads (buf : Bytes) (length : Nat) : Nat → Nat → List Nat
  | 0, _ => []
  | fuel + 1, i => if i < length then i :: (if isSpace (rd buf i) then skipReads buf length fuel (i + 1) else []) else []

def splitReads (buf : Bytes) (length : Nat) : Nat → Nat → Nat → List Nat
  | 0, _, _ => []
  | fuel + 1, i, cnt =>
    if i < length then
      if rd buf i == chSemicolon then
        if cnt + 1 == maxParams then [i]
        else i :: (skipReads buf length (length + 1) (i + 1) ++
                   splitReads buf length fuel (skipSpaces buf length (length + 1) (i + 1) + 1) (cnt + 1))
      else i :: splitReads buf length fuel (i + 1) cnt
    else []

def cmwValueReads (p l : Nat) : List Nat :=
  if l > nameCmw.length then
    (p + nameCmw.length) ::
      (if l == nameCmw.length + 2 then [p + nameCmw.length + 1]
       else if l == nameCmw.length + 3 then [p + nameCmw.length + 1, p + nameCmw.length + 2] else [])
  else []

def smwValueReads (p l : Nat) : List Nat :=
  if l ≤ nameSmw.length then []
  else (p + nameSmw.length) ::
      (if l == nameSmw.length + 2 then [p + nameSmw.length + 1]
       else if l == nameSmw.length + 3 then [p + nameSmw.length + 1, p + nameSmw.length + 2] else [])

def classifyReads (buf : Bytes) (fl : Flags) (p l : Nat) : List Nat :=
  if l < nameCmw.length then []
  else memReads p nameCmw.length ++
    (if memEq buf p nameCmw then
      (if fl.cmw then [] else if nameCmw.length + 3 < l then [] else cmwValueReads p l)
    else memReads p nameSmw.length ++
      (if memEq buf p nameSmw then
        (if fl.smw then [] else if nameSmw.length + 3 < l then [] else smwValueReads p l)
      else if l < nameCnc.length then []
      else memReads p nameCnc.length ++ (if memEq buf p nameCnc then [] else memReads p nameSnc.length)))

def paramLoopReads (buf : Bytes) : Ext → Flags → List (Nat × Nat) → List Nat
  | _, _, [] => []
  | e, fl, (p, l) :: rest =>
    classifyReads buf fl p l ++
      (match classify buf fl p l with
       | none => []
       | some a => paramLoopReads buf (applyAction e fl p a).1 (applyAction e fl p a).2 rest)

/-- every index of `start[…]` read by `fill_requested_extension(s, start, length)` -/
def fillReads (e : Ext) (buf : Bytes) (length : Nat) : List Nat :=
  if e.accepted || e.level == 0 then []
  else splitReads buf length (length + 1) 0 0 ++
    (match splitLoop buf length (length + 1) 0 Split.init with
     | none => []
     | some sp =>
       if sp.lens.getD 0 0 == extName.length then
         memReads 0 extName.length ++
           (if memEq buf 0 extName then
              paramLoopReads buf { e with resp := extName, items := [], offers := [], elemStart := 0,
                                          hiWater := max e.hiWater extName.length }
                ⟨false, false, false, false⟩ sp.params
            else [])
       else [])

/-! ### what "legal" means for a parameter of the response -/

/-- the text at `q` spells `=N` the way the offer parser reads it -/
def spelled (buf : Bytes) (q N : Nat) : Prop :=
  rd buf q = chEq ∧
  ((N < 10 ∧ tmpOf (rd buf (q + 1)) = N) ∨ (10 ≤ N ∧ rd buf (q + 1) = chOne ∧ 10 + tmpOf (rd buf (q + 2)) = N))

/-- RFC 7692 §7.1: `client_max_window_bits` may be answered only when the offer has it, with a value in
    8..15 not above the offered one; `server_max_window_bits` in 8..15, not above an offered value (the
    server may add it on its own); the two `no_context_takeover` parameters carry no value and may always
    be added by the server.  `offers` = the parameters of the accepted offer, by position in `buf`. -/
def Legal (buf : Bytes) (offers : List Offer) (it : Item) : Prop :=
  match it.name with
  | .cmw => 8 ≤ it.value ∧ it.value ≤ 15 ∧
      ∃ p ov, Offer.cmw p ov ∈ offers ∧ memEq buf p nameCmw = true ∧
        ∀ N, ov = some N → it.value ≤ N ∧ spelled buf (p + nameCmw.length) N
  | .smw => 8 ≤ it.value ∧ it.value ≤ 15 ∧
      ∀ p N, Offer.smw p N ∈ offers → it.value ≤ N ∧ memEq buf p nameSmw = true ∧ spelled buf (p + nameSmw.length) N
  | .cnc => it.value = 0
  | .snc => it.value = 0

end Cjet.Deflate
