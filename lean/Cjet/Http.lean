import Cjet.Basic
/-!
# Cjet.Http — lifecycle of ONE connection on the HTTP/WebSocket port, from accept to release

Transcription of the release discipline of

* `linux/linux_io.c`   `handle_http`, `run_jet` (shutdown: `destroy_all_peers`, then
                        `destroy_all_http_connections`),
* `http_connection.c`   `init_http_connection2`, `on_url`, `read_start_line`,
                        `send_http_error_response`, `free_connection`,
* `websocket_peer.c`    `alloc_websocket_peer`, `init_websocket_peer`, `free_websocket_peer*`,
* `websocket.c`         `websocket_read_header_line`, `handle_error`, `websocket_close`,
                        `websocket_upgrade_on_headers_complete`,
* `buffered_socket.c`   `go_reading` / `error_function` (what the two line readers get at end of
                        stream, on a read error and on a line that does not fit the read buffer),
                        `buffered_socket_close`,
* `peer.c`              `init_peer`, `free_peer_resources`.

The model is a ledger over the primitive objects of the connection — the descriptor, the
`buffered_socket`, the `http_connection` (+ its membership in `connection_list`), the
`websocket_peer` (+ its membership in `peer_list`, `number_of_peers`) and the peer's routing table —
plus the two pieces of control state that decide who releases what: the error callback the
buffered socket points to (`free_connection` or `free_websocket_peer_on_error`) and the line
callback it is armed with.  Every C statement that acquires, releases, links, unlinks or reads
through one of these objects is one `Act`; the code paths below are sequences of `Act`s in the
order the C code performs them.  `exec` applies an act to the ledger and records a `Fault` when
the act goes through an object that is already released, releases twice, closes twice, or releases
an object that is still linked into a list.

What the environment decides is an explicit input of each event (what http-parser returned, what
`find_url_handler` found, whether allocations and the 101 write succeeded), so the theorems of
`Cjet.Props.C13` hold for every such behaviour.

`Version` selects historic variants of three statements so that the defects that were repaired
(F17: peer created inside `on_url`; F54: connection left in the list when the event loop
registration fails; F55: the handler's header callbacks installed by `on_url` although the object
they work on is created only after the start line) stay available as counterexamples.
-/
namespace Cjet.Http

/-- The primitive objects of one connection. -/
inductive Obj
  | fd    -- the accepted descriptor
  | bs    -- struct buffered_socket (contains the io_event registered with epoll)
  | conn  -- struct http_connection (contains the http_parser and the connection_list node)
  | peer  -- struct websocket_peer (contains struct peer with the peer_list node, and struct websocket)
  | rt    -- the peer's routing table (HASHTABLE_CREATE in add_routing_table)
  deriving DecidableEq, Repr

/-- Life of one object: currently held, number of acquisitions, number of release calls. -/
structure Cell where
  live : Bool := false
  acq : Nat := 0
  rel : Nat := 0
  deriving DecidableEq, Repr

/-- Entries of the two global lists: this connection's node, or somebody else's. -/
inductive Ref
  | other (n : Nat)
  | mine
  deriving DecidableEq, Repr

/-- `bs->error`: which function the buffered socket calls on a read/write error. -/
inductive Handler
  | conn   -- free_connection(connection)
  | peer   -- free_websocket_peer_on_error(ws_peer)
  deriving DecidableEq, Repr

/-- `bs->read_callback`. -/
inductive Reader
  | none
  | startLine    -- read_until(CRLF, read_start_line)
  | headerLine   -- read_until(CRLF, websocket_read_header_line)
  | frame        -- read_exactly(1, ws_get_header): the WebSocket phase
  deriving DecidableEq, Repr

inductive Phase
  | listening   -- not yet accepted
  | start       -- reading the request line
  | headers     -- the websocket object owns the header lines
  | ws          -- upgraded
  | done        -- the connection has ended
  deriving DecidableEq, Repr

inductive Fault
  | useAfterRelease (o : Obj)    -- read or write through an object that is not live (released, or not created yet)
  | doubleRelease (o : Obj)      -- second cjet_free / HASHTABLE_DELETE
  | doubleClose                  -- close() of the already closed descriptor
  | doubleAcquire (o : Obj)      -- the previous instance is lost
  | releasedWhileListed (o : Obj) -- freed while its node is still in connection_list / peer_list
  deriving DecidableEq, Repr

/-- One primitive statement of the C code. -/
inductive Act
  | acquire (o : Obj)             -- accept() / cjet_malloc / cjet_calloc / HASHTABLE_CREATE
  | touch (o : Obj)               -- a read or write of a field of the object
  | status (code : Nat) (ok : Bool) -- br->writev of a status line: connection -> buffered socket -> descriptor
  | closeFrame                    -- websocket_send_close_frame: peer -> connection -> buffered socket -> descriptor
  | epollAdd                      -- loop->add(&bs->ev)
  | epollDel                      -- loop->remove(&bs->ev)
  | closeFd                       -- close(fd)
  | release (o : Obj)             -- cjet_free / HASHTABLE_DELETE
  | listConn                      -- list_add_tail(&connection->connection_list, &connection_list)
  | unlistConn                    -- list_del(&connection->connection_list)
  | registerPeer                  -- init_peer: list_add_tail(&p->next_peer, &peer_list); ++number_of_peers
  | unregisterPeer                -- free_peer_resources: list_del(&p->next_peer); --number_of_peers
  | setHandler (h : Handler)      -- buffered_socket_init / buffered_socket_set_error
  | setReader (r : Reader)        -- read_until / read_exactly (re-)arm
  | otherPeersClosed              -- destroy_all_peers: p->close(p) of every other peer
  | otherConnsClosed              -- destroy_all_http_connections: the other connections
  deriving DecidableEq, Repr

/-- Historic variants of two statements. -/
structure Version where
  /-- b38244f: the handler's `create` runs in `read_start_line` after the whole start line parsed
      (before: inside `on_url`, result ignored). -/
  createAfterStartLine : Bool
  /-- 10a3299: `init_http_connection2` unlinks the connection when the first `read_until` fails. -/
  unlinkOnAddFailure : Bool
  /-- 9bd242d: the handler's header callbacks are installed together with `create` in
      `read_start_line`; until then `on_url` installs refusing callbacks (before: `on_url` installed
      the handler's callbacks at once). -/
  callbacksWithCreate : Bool
  deriving DecidableEq, Repr

/-- The code as it is. -/
def fixed : Version := ⟨true, true, true⟩
/-- `on_url` as it was before b38244f. -/
def original : Version := ⟨false, true, false⟩
/-- `init_http_connection2` as it was before 10a3299. -/
def beforeF54 : Version := ⟨true, false, true⟩
/-- `on_url` / `read_start_line` as they were between b38244f and 9bd242d. -/
def beforeF55 : Version := ⟨true, true, false⟩

structure St where
  phase : Phase := .listening
  fd : Cell := {}
  bs : Cell := {}
  conn : Cell := {}
  peer : Cell := {}
  rt : Cell := {}
  /-- `connection_list` of http_connection.c -/
  connList : List Ref := []
  /-- `peer_list` of peer.c -/
  peerList : List Ref := []
  /-- `number_of_peers` (a C `int`) -/
  peerCount : Int := 0
  handler : Handler := .conn
  reader : Reader := .none
  /-- `connection->status_code` -/
  statusCode : Nat := 0
  /-- `connection->url_handler != NULL` -/
  urlHandler : Bool := false
  /-- `ws->upgrade_complete` -/
  upgradeComplete : Bool := false
  /-- status lines written: every error status handed to writev, and every 101 whose writev succeeded -/
  sent : List Nat := []
  faults : List Fault := []
  /-- every act performed so far, in order -/
  trace : List Act := []
  deriving DecidableEq, Repr

/-- State before the accept: `o` are the peers, `c` the HTTP connections that exist already. -/
def init (o c : List Ref) : St :=
  { peerList := o, connList := c, peerCount := o.length }

/-- The daemon before the accept: other peers and other HTTP connections, named by number. -/
def before (o c : List Nat) : St := init (o.map .other) (c.map .other)

def St.cell (s : St) : Obj → Cell
  | .fd => s.fd
  | .bs => s.bs
  | .conn => s.conn
  | .peer => s.peer
  | .rt => s.rt

def St.setCell (s : St) (o : Obj) (c : Cell) : St :=
  match o with
  | .fd => { s with fd := c }
  | .bs => { s with bs := c }
  | .conn => { s with conn := c }
  | .peer => { s with peer := c }
  | .rt => { s with rt := c }

def St.fault (s : St) (f : Fault) : St := { s with faults := s.faults ++ [f] }

/-- The act goes through object `o`: a fault when `o` is released. -/
def St.need (s : St) (o : Obj) : St :=
  if (s.cell o).live then s else s.fault (.useAfterRelease o)

/-- Is object `o` still linked into its global list? -/
def St.listed (s : St) : Obj → Bool
  | .conn => s.connList.contains .mine
  | .peer => s.peerList.contains .mine
  | _ => false

def isOther : Ref → Bool
  | .other _ => true
  | .mine => false

/-- Effect of one primitive statement on the ledger (without the trace). -/
def apply (s : St) : Act → St
  | .acquire o =>
    let s := if (s.cell o).live then s.fault (.doubleAcquire o) else s
    s.setCell o { live := true, acq := (s.cell o).acq + 1, rel := (s.cell o).rel }
  | .touch o => s.need o
  | .status code ok =>
    let s := ((s.need .conn).need .bs).need .fd
    if ok then { s with sent := s.sent ++ [code] } else s
  | .closeFrame => (((s.need .peer).need .conn).need .bs).need .fd
  | .epollAdd => (s.need .bs).need .fd
  | .epollDel => (s.need .bs).need .fd
  | .closeFd =>
    let s := if s.fd.live then s else s.fault .doubleClose
    { s with fd := { live := false, acq := s.fd.acq, rel := s.fd.rel + 1 } }
  | .release o =>
    let s := if (s.cell o).live then s else s.fault (.doubleRelease o)
    let s := if s.listed o then s.fault (.releasedWhileListed o) else s
    s.setCell o { live := false, acq := (s.cell o).acq, rel := (s.cell o).rel + 1 }
  | .listConn => let s := s.need .conn; { s with connList := s.connList ++ [.mine] }
  | .unlistConn => let s := s.need .conn; { s with connList := s.connList.erase .mine }
  | .registerPeer =>
    let s := s.need .peer
    { s with peerList := s.peerList ++ [.mine], peerCount := s.peerCount + 1 }
  | .unregisterPeer =>
    let s := s.need .peer
    { s with peerList := s.peerList.erase .mine, peerCount := s.peerCount - 1 }
  | .setHandler h => let s := s.need .bs; { s with handler := h }
  | .setReader r => let s := s.need .bs; { s with reader := r }
  | .otherPeersClosed =>
    { s with peerCount := s.peerCount - ((s.peerList.filter isOther).length : Int),
             peerList := s.peerList.filter (fun r => !isOther r) }
  | .otherConnsClosed => { s with connList := s.connList.filter (fun r => !isOther r) }

/-- Perform one statement: ledger effect + trace entry. -/
def St.exec (s : St) (a : Act) : St :=
  let s := apply s a
  { s with trace := s.trace ++ [a] }

/-! ## the code paths -/

/-- `buffered_socket_close`: loop->remove, socket_close, buffered_socket_release. -/
def bufferedSocketClose (s : St) : St :=
  (((s.exec (.touch .bs)).exec .epollDel).exec .closeFd).exec (.release .bs)

/-- `free_connection`: br->close(br->this_ptr); list_del; cjet_free(connection). -/
def freeConnection (s : St) : St :=
  ((bufferedSocketClose (s.exec (.touch .conn))).exec .unlistConn).exec (.release .conn)

/-- `get_response`. -/
def responseCode (statusCode : Nat) : Nat :=
  if statusCode = 400 then 400 else if statusCode = 404 then 404 else 500

/-- `send_http_error_response` (its result is ignored by every caller). -/
def sendHttpError (s : St) : St := s.exec (.status (responseCode s.statusCode) true)

/-- `free_peer_resources` of a peer that owns nothing yet, then `cjet_free(ws_peer)`. -/
def freeWebsocketPeer (s : St) : St :=
  (((s.exec (.touch .peer)).exec (.release .rt)).exec .unregisterPeer).exec (.release .peer)

/-- `websocket_close`: a close frame only after the upgrade; then `free_connection(ws->connection)`. -/
def websocketClose (s : St) : St :=
  let s := s.exec (.touch .peer)
  let s := if s.upgradeComplete then s.exec .closeFrame else s
  freeConnection s

/-- `handle_error` (= `websocket_close; s->on_error(s)`), `free_websocket_peer_on_error` and
    `peer_close_websocket_peer` are the same two calls. -/
def closeAndFreePeer (s : St) : St := freeWebsocketPeer (websocketClose s)

/-- What the handler's `create` (= `alloc_websocket_peer`) did. -/
inductive Create
  | ok
  | noPeerMem    -- cjet_calloc(ws_peer) failed
  | noTableMem   -- init_peer failed (add_routing_table)
  deriving DecidableEq, Repr

/-- `alloc_websocket_peer` + `init_websocket_peer`; the Bool is `ret == 0`. -/
def allocWebsocketPeer (cr : Create) (s : St) : St × Bool :=
  match cr with
  | .noPeerMem => (s, false)
  | .noTableMem =>
    ((((s.exec (.acquire .peer)).exec (.touch .conn)).exec (.release .peer)), false)
  | .ok =>
    let s := (s.exec (.acquire .peer)).exec (.touch .conn)   -- connection->parser.data = &ws_peer->websocket
    let s := (s.exec (.acquire .rt)).exec .registerPeer      -- init_peer
    let s := { s with upgradeComplete := false }             -- websocket_init
    let s := s.exec (.setHandler .peer)                      -- br->set_error_handler(free_websocket_peer_on_error)
    (s.exec (.setReader .headerLine), true)                  -- br->read_until(CRLF, websocket_read_header_line)

/-- `on_url`.  `urlValid = false`: `http_parser_parse_url` failed or the URL has no path (400) —
    also used for "the parser never reached the URL" (then `status_code` stays 0 in the C code and
    `read_start_line` substitutes 400: the same status).  The Bool is `ret == 0`. -/
def onUrl (v : Version) (handlerFound urlValid : Bool) (cr : Create) (s : St) : St × Bool :=
  if !urlValid then ({ s with statusCode := 400 }, false)
  else if !handlerFound then ({ s with statusCode := 404 }, false)
  else if v.createAfterStartLine then ({ s with urlHandler := true }, true)
  else ((allocWebsocketPeer cr s).1, true)     -- before b38244f: created here, result ignored

def St.ended (s : St) : St := { s with phase := .done }

/-- `read_start_line` with `len > 0`: one complete CRLF-terminated line.  `headerData`: the line
    carries header bytes behind the request line (http-parser accepts a bare LF as line end, the
    reader cuts at CRLF), so the parser calls the installed header callbacks during this
    `http_parser_execute` — the handler's callbacks go through `connection->parser.data`, the
    websocket inside the peer object. -/
def readStartLine (v : Version) (parsedAll handlerFound urlValid headerData : Bool) (cr : Create) (s : St) : St :=
  let s := s.exec (.touch .conn)
  let r := onUrl v handlerFound urlValid cr s           -- inside http_parser_execute
  let s := r.1
  let s := if headerData && r.2 && !v.callbacksWithCreate then s.exec (.touch .peer) else s
  if !parsedAll then
    let s := if s.statusCode = 0 then { s with statusCode := 400 } else s
    (freeConnection (sendHttpError s)).ended
  else if v.createAfterStartLine && s.urlHandler then
    let s := { s with urlHandler := false }
    let r := allocWebsocketPeer cr s
    if r.2 then { r.1 with phase := .headers }
    else (freeConnection (sendHttpError { r.1 with statusCode := 500 })).ended
  else
    -- BS_OK: whoever is armed now gets the next line
    { s with phase := if s.reader = .headerLine then .headers else .start }

/-- `websocket_read_header_line` with `len > 0`.  `send101`: `websocket_upgrade_on_headers_complete`
    reached `send_upgrade_response` during this `http_parser_execute` and its writev returned
    success / failure; `none`: not reached (no end of headers in this line, or refused before). -/
def readHeaderLine (parsedAll upgradeNow : Bool) (send101 : Option Bool) (s : St) : St :=
  let s := (s.exec (.touch .peer)).exec (.touch .conn)
  let s := match send101 with
    | some ok => s.exec (.status 101 ok)
    | none => s
  if !parsedAll then
    (closeAndFreePeer (sendHttpError { s with statusCode := 400 })).ended
  else if upgradeNow then
    { ({ s with upgradeComplete := true }.exec (.setReader .frame)) with phase := .ws }
  else s.exec (.setReader .headerLine)

/-- The armed line callback called with `len == 0` (end of stream). -/
def readerEof (s : St) : St :=
  match s.reader with
  | .startLine => (freeConnection s).ended            -- read_start_line: free_connection
  | .headerLine => (closeAndFreePeer s).ended         -- websocket_read_header_line: handle_error(GOING_AWAY)
  | _ => s

/-- `error_function`: `bs->error(bs->error_context)` — read error, line longer than the read
    buffer, write error, EPOLLERR/EPOLLHUP. -/
def readerError (s : St) : St :=
  match s.handler with
  | .conn => (freeConnection s).ended
  | .peer => (closeAndFreePeer s).ended

/-- What `handle_http` ran into. -/
inductive Accept
  | ok
  | prepareFails   -- prepare_peer_socket
  | noConnMem      -- alloc_http_connection
  | noBsMem        -- buffered_socket_acquire
  | addFails       -- init_http_connection: loop->add (epoll_ctl ADD) failed
  deriving DecidableEq, Repr

/-- `accept_common` got a descriptor and called `handle_http`. -/
def handleHttp (v : Version) (a : Accept) (s : St) : St :=
  let s := s.exec (.acquire .fd)
  match a with
  | .prepareFails => (s.exec .closeFd).ended
  | .noConnMem => (s.exec .closeFd).ended
  | .noBsMem => (((s.exec (.acquire .conn)).exec (.release .conn)).exec .closeFd).ended
  | .ok =>
    let s := ((s.exec (.acquire .conn)).exec (.acquire .bs)).exec (.setHandler .conn)
    let s := { ((s.exec (.touch .conn)).exec .listConn) with statusCode := 0, urlHandler := false }
    { ((s.exec (.setReader .startLine)).exec .epollAdd) with phase := .start }
  | .addFails =>
    let s := ((s.exec (.acquire .conn)).exec (.acquire .bs)).exec (.setHandler .conn)
    let s := { ((s.exec (.touch .conn)).exec .listConn) with statusCode := 0, urlHandler := false }
    let s := (s.exec (.setReader .startLine)).exec .epollAdd
    let s := if v.unlinkOnAddFailure then s.exec .unlistConn else s
    (((s.exec (.release .bs)).exec (.release .conn)).exec .closeFd).ended

/-- SIGTERM: `destroy_all_peers(); destroy_all_http_connections();` — driven by the two lists. -/
def terminate (s : St) : St :=
  let s := s.exec .otherPeersClosed
  let s := if s.peerList.contains .mine then closeAndFreePeer s else s   -- p->close(p)
  let s := s.exec .otherConnsClosed
  let s := if s.connList.contains .mine then freeConnection s else s
  s.ended

inductive Event
  | accept (a : Accept)
  | startLine (parsedAll handlerFound urlValid headerData : Bool) (create : Create)
  | headerLine (parsedAll upgradeNow : Bool) (send101 : Option Bool)
  | eof
  | readError
  | lineTooLong
  | wsEnd
  | term
  deriving DecidableEq, Repr

/-- One event.  An event the current phase cannot produce (a header line before the start line
    was accepted, anything on a connection that has ended, …) leaves the state unchanged, so the
    admissible sequences are exactly those the phases allow and the theorems hold for all lists. -/
def step (v : Version) (s : St) : Event → St
  | .term => terminate s
  | .accept a => match s.phase with
    | .listening => handleHttp v a s
    | _ => s
  | .startLine p h u d c => match s.phase with
    | .start => readStartLine v p h u d c s
    | _ => s
  | .headerLine p u w => match s.phase with
    | .headers => readHeaderLine p u w s
    | _ => s
  | .eof => match s.phase with
    | .start => readerEof s
    | .headers => readerEof s
    | _ => s
  | .readError => match s.phase with
    | .start => readerError s
    | .headers => readerError s
    | _ => s
  | .lineTooLong => match s.phase with
    | .start => readerError s
    | .headers => readerError s
    | _ => s
  | .wsEnd => match s.phase with
    | .ws => (closeAndFreePeer s).ended
    | _ => s

def run (v : Version) (s : St) (evs : List Event) : St := evs.foldl (step v) s

/-- Can the phase produce this event? (documentation of the admissible sequences; `step` ignores
    the others) -/
def enabled (s : St) : Event → Bool
  | .term => true
  | .accept _ => s.phase = .listening
  | .startLine .. => s.phase = .start
  | .headerLine .. => s.phase = .headers
  | .eof | .readError | .lineTooLong => s.phase = .start || s.phase = .headers
  | .wsEnd => s.phase = .ws

/-! ## observations the properties are about -/

/-- A 101 was written. -/
def St.sent101 (s : St) : Bool := s.sent.contains 101

/-- Object `o` is not held, and was released exactly as often as it was acquired (at most once). -/
def St.settled (s : St) (o : Obj) : Prop :=
  (s.cell o).live = false ∧ (s.cell o).rel = (s.cell o).acq ∧ (s.cell o).acq ≤ 1

/-- The empty ledger. -/
def St.allSettled (s : St) : Prop := ∀ o, s.settled o

instance (s : St) (o : Obj) : Decidable (s.settled o) := by unfold St.settled; infer_instance
instance (s : St) : Decidable s.allSettled :=
  decidable_of_iff (s.settled .fd ∧ s.settled .bs ∧ s.settled .conn ∧ s.settled .peer ∧ s.settled .rt)
    ⟨fun h o => by cases o <;> simp [h], fun h => ⟨h _, h _, h _, h _, h _⟩⟩

/-- The peer of this connection is registered. -/
def St.peerRegistered (s : St) : Bool := s.peerList.contains .mine

end Cjet.Http
