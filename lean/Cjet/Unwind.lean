/-
  Cjet.Unwind — acquisition ladders with goto-unwinding, as data, and one interpreter.

  A C function that builds an object step by step (`malloc`, copy, table insert, timer start, …)
  and unwinds by hand (`goto label`, fall-through clean-up chain, explicit frees before a
  `return`) is transcribed as a `Ladder`:

  * `steps`: the acquisitions in program order.  A step that succeeds performs `ok`; a step that
    fails performs `half` (what had already happened inside the step when the failure was
    detected), then `failPre` (what the C code does before it jumps or returns: create the error
    response, undo a table insertion, …), then everything from the label `failTo` to the end of
    the clean-up chain (fall-through), and the function returns;
  * `chain`: the labelled clean-up code in textual order;
  * `done`: what happens after the last step (the success response);
  * `pre`, `preLinks`: objects (and links) that already exist on entry and that the function itself
    releases or relinks (empty for most ladders);
  * `intended`, `intendedLinks`: what a successful run leaves behind (newest first).

  Actions work on an abstract resource state: `held` (allocated objects, armed timers, open
  descriptors, … — by name), `links` (a table / list / subscriber `t` refers to object `r`),
  the number of responses produced for the request, and `bad`: the number of protocol errors
  (acquiring something twice, releasing something that is not held — a double free —, unlinking what
  is not linked, jumping to a label that does not exist).
-/

namespace Cjet.Unwind

inductive Act (R : Type) where
  | acquire (r : R)
  | release (r : R)
  | link (t r : R)
  | unlink (t r : R)
  | respond
  deriving Repr, DecidableEq

structure St (R : Type) where
  held : List R := []
  links : List (R × R) := []
  responses : Nat := 0
  bad : Nat := 0
  deriving Repr

variable {R Lb : Type} [DecidableEq R] [DecidableEq Lb]

def exec1 (s : St R) : Act R → St R
  | .acquire r => if r ∈ s.held then { s with bad := s.bad + 1 } else { s with held := r :: s.held }
  | .release r => if r ∈ s.held then { s with held := s.held.erase r } else { s with bad := s.bad + 1 }
  | .link t r => if (t, r) ∈ s.links then { s with bad := s.bad + 1 } else { s with links := (t, r) :: s.links }
  | .unlink t r =>
    if (t, r) ∈ s.links then { s with links := s.links.erase (t, r) } else { s with bad := s.bad + 1 }
  | .respond => { s with responses := s.responses + 1 }

def exec (s : St R) (as : List (Act R)) : St R := as.foldl exec1 s

structure Step (R Lb : Type) where
  name : String
  ok : List (Act R)
  canFail : Bool := true
  half : List (Act R) := []
  failPre : List (Act R) := []
  failTo : Option Lb := none

structure Ladder (R Lb : Type) where
  steps : List (Step R Lb)
  chain : List (Lb × List (Act R)) := []
  done : List (Act R) := []
  pre : List R := []                     -- objects that exist when the function is entered …
  preLinks : List (R × R) := []          -- … and links between them (only for ladders that touch them)
  intended : List R := []
  intendedLinks : List (R × R) := []

/-- the clean-up code executed after a jump to `l`: that label's actions and all that follow -/
def chainFrom (chain : List (Lb × List (Act R))) : Option Lb → Option (List (Act R))
  | none => some []
  | some l =>
    match chain.dropWhile (fun e => e.1 ≠ l) with
    | [] => none
    | rest => some (rest.flatMap (·.2))

/-- what a failing step executes -/
def failActs (L : Ladder R Lb) (st : Step R Lb) : Option (List (Act R)) :=
  (chainFrom L.chain st.failTo).map (fun c => st.half ++ st.failPre ++ c)

def runFrom (L : Ladder R Lb) (fail : Option Nat) : St R → List (Step R Lb) → Nat → St R
  | s, [], _ => exec s L.done
  | s, st :: rest, i =>
    if fail = some i ∧ st.canFail = true then
      match failActs L st with
      | some as => exec s as
      | none => { s with bad := s.bad + 1 }
    else runFrom L fail (exec s st.ok) rest (i + 1)

/-- run the ladder; `fail = some i`: the `i`-th step fails (if it is a step that can fail) -/
def runLadder (L : Ladder R Lb) (fail : Option Nat) (s : St R) : St R := runFrom L fail s L.steps 0

/-- `fail` names a real failure point of the ladder -/
def failsAt (L : Ladder R Lb) : Option Nat → Bool
  | none => false
  | some i => match L.steps[i]? with
    | some st => st.canFail
    | none => false

/-! ## the finite audit of one ladder (from its entry state) -/

/-- the state on entry: what the ladder declares as pre-existing, nothing else -/
def entry (L : Ladder R Lb) : St R := ⟨L.pre, L.preLinks, 0, 0⟩

def auditOne (L : Ladder R Lb) (fail : Option Nat) : Bool :=
  let s := runLadder L fail (entry L)
  decide (s.bad = 0) && decide (s.responses ≤ 1) &&
  (if failsAt L fail then decide (s.held = L.pre) && decide (s.links = L.preLinks)
   else decide (s.held = L.intended) && decide (s.links = L.intendedLinks) &&
        L.intendedLinks.all (fun p => decide (p.2 ∈ L.intended)))

/-- every failure point and the success path -/
def audit (L : Ladder R Lb) : Bool :=
  auditOne L none && (List.range L.steps.length).all (fun i => auditOne L (some i))

/-! ## names used by a ladder -/

def Act.res : Act R → List R
  | .acquire r => [r]
  | .release r => [r]
  | _ => []

def Act.pairs : Act R → List (R × R)
  | .link t r => [(t, r)]
  | .unlink t r => [(t, r)]
  | _ => []

def Step.acts (st : Step R Lb) : List (Act R) := st.ok ++ st.half ++ st.failPre

def Ladder.acts (L : Ladder R Lb) : List (Act R) :=
  L.steps.flatMap Step.acts ++ L.chain.flatMap (·.2) ++ L.done

/-- the ambient state `(A, K)` shares no object and no link with the ladder -/
def Fresh (L : Ladder R Lb) (A : List R) (K : List (R × R)) : Prop :=
  (∀ a ∈ L.acts, ∀ r ∈ a.res, r ∉ A) ∧ (∀ a ∈ L.acts, ∀ p ∈ a.pairs, p ∉ K)

end Cjet.Unwind
