import Cjet.Basic
import Cjet.Generated.Ws
/-!
# SHA-1 as implemented by src/sha1/sha1.c (RFC 3174 reference code), executable

`SHA1Reset; SHA1Input(all bytes); SHA1Result` for inputs shorter than 2^32 bits (the handshake hashes
60 bytes).  Words are `UInt32`, as `uint32_t` in the C code.
-/
namespace Cjet.Sha1
open Cjet.Generated.Ws

/-- `SHA1CircularShift(bits, word)` -/
def rotl (bits : Nat) (w : UInt32) : UInt32 :=
  (w <<< UInt32.ofNat bits) ||| (w >>> UInt32.ofNat (32 - bits))

structure H where
  a : UInt32
  b : UInt32
  c : UInt32
  d : UInt32
  e : UInt32
  deriving DecidableEq, Repr

def h0 : H :=
  { a := sha1H0.getD 0 0, b := sha1H0.getD 1 0, c := sha1H0.getD 2 0, d := sha1H0.getD 3 0, e := sha1H0.getD 4 0 }

/-- `W[t] = Message_Block[t*4] << 24 | …` -/
def word (b0 b1 b2 b3 : UInt8) : UInt32 :=
  (UInt32.ofNat b0.toNat <<< 24) ||| (UInt32.ofNat b1.toNat <<< 16) ||| (UInt32.ofNat b2.toNat <<< 8)
    ||| UInt32.ofNat b3.toNat

def words16 : Bytes → List UInt32
  | b0 :: b1 :: b2 :: b3 :: rest => word b0 b1 b2 b3 :: words16 rest
  | _ => []

/-- `for (t = 16; t < 80; t++) W[t] = rotl(1, W[t-3] ^ W[t-8] ^ W[t-14] ^ W[t-16])`; `w` holds the
    words so far in reverse order (most recent first) -/
def extend : Nat → List UInt32 → List UInt32
  | 0, w => w
  | n + 1, w =>
    let x := rotl 1 (w.getD 2 0 ^^^ w.getD 7 0 ^^^ w.getD 13 0 ^^^ w.getD 15 0)
    extend n (x :: w)

/-- one of the 80 rounds -/
def round (t : Nat) (wt : UInt32) (s : H) : H :=
  let f : UInt32 :=
    if t < 20 then (s.b &&& s.c) ||| ((~~~s.b) &&& s.d)
    else if t < 40 then s.b ^^^ s.c ^^^ s.d
    else if t < 60 then (s.b &&& s.c) ||| (s.b &&& s.d) ||| (s.c &&& s.d)
    else s.b ^^^ s.c ^^^ s.d
  let k := sha1K.getD (t / 20) 0
  let temp := rotl 5 s.a + f + s.e + wt + k
  { a := temp, b := s.a, c := rotl 30 s.b, d := s.c, e := s.d }

def rounds : Nat → List UInt32 → H → H
  | _, [], s => s
  | t, w :: ws, s => rounds (t + 1) ws (round t w s)

/-- `SHA1ProcessMessageBlock` on one 64 byte block -/
def processBlock (h : H) (block : Bytes) : H :=
  let w := (extend 64 (words16 block).reverse).reverse
  let r := rounds 0 w h
  { a := h.a + r.a, b := h.b + r.b, c := h.c + r.c, d := h.d + r.d, e := h.e + r.e }

def be32 (w : UInt32) : Bytes :=
  [UInt8.ofNat (w >>> 24).toNat, UInt8.ofNat (w >>> 16).toNat, UInt8.ofNat (w >>> 8).toNat, UInt8.ofNat w.toNat]

/-- `SHA1PadMessage`: 0x80, zeros up to 56 mod 64, then the 64 bit message length in bits -/
def padding (len : Nat) : Bytes :=
  let zeros := (55 + 64 - len % 64) % 64
  let bits := len * 8
  (0x80 : UInt8) :: List.replicate zeros 0 ++
    be32 (UInt32.ofNat (bits / 4294967296)) ++ be32 (UInt32.ofNat bits)

def blocks : Nat → H → Bytes → H
  | 0, h, _ => h
  | n + 1, h, bs => blocks n (processBlock h (bs.take 64)) (bs.drop 64)

/-- the 20 byte digest -/
def sha1 (msg : Bytes) : Bytes :=
  let padded := msg ++ padding msg.length
  let h := blocks (padded.length / 64) h0 padded
  be32 h.a ++ be32 h.b ++ be32 h.c ++ be32 h.d ++ be32 h.e

end Cjet.Sha1
