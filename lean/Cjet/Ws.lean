import Cjet.Generated.Consts
import Cjet.Ws.Unmask
import Cjet.Ws.Send
import Cjet.Ws.Dispatch
import Cjet.Ws.Machine
import Cjet.Ws.Handshake
import Cjet.Base64
import Cjet.Sha1
/-! Component `Ws`: model of src/websocket.c (+ websocket_peer.c callback set, base64.c, sha1.c). -/
