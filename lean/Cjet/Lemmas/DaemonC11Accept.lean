/-
  Cjet.Lemmas.DaemonC11Accept — a small model of `accept_common` (src/linux/linux_io.c): the
  listening socket is readable, the daemon calls accept(2) in a loop.

  Input: the results of the successive accept calls (a descriptor, or an errno).  The list is the
  kernel's answers as far as they matter: when it is exhausted the next call finds nothing pending
  (EAGAIN).  Output: what the read handler returns to the event loop (continue / abort) and the
  descriptors handed to the peer function, in order.
-/

namespace Cjet.Daemon.C11.Accept

/-- errno values of accept(2); `other` stands for any value the switch does not name -/
inductive Errno
  | EAGAIN | EBADF | EINVAL | ENOTSOCK | EOPNOTSUPP | EFAULT | ECONNABORTED | EINTR
  | EMFILE | ENFILE | ENOBUFS | ENOMEM | EPROTO | EPERM | other (n : Nat)
  deriving DecidableEq, Repr

inductive Res
  | fd (n : Nat)
  | err (e : Errno)
  deriving DecidableEq, Repr

inductive LoopRet
  | continueLoop
  | abortLoop
  deriving DecidableEq, Repr

/-- `case EBADF: case EINVAL: case ENOTSOCK: case EOPNOTSUPP: case EFAULT:` — the listening
    socket itself is unusable -/
def unusable : Errno → Bool
  | .EBADF | .EINVAL | .ENOTSOCK | .EOPNOTSUPP | .EFAULT => true
  | _ => false

/-- `case ECONNABORTED: case EINTR:` — a single connection attempt failed -/
def retry : Errno → Bool
  | .ECONNABORTED | .EINTR => true
  | _ => false

/-- the repaired accept_common -/
def acceptCommon : List Res → LoopRet × List Nat
  | [] => (.continueLoop, [])
  | .fd n :: rest => ((acceptCommon rest).1, n :: (acceptCommon rest).2)
  | .err e :: rest =>
    if unusable e then (.abortLoop, [])
    else if retry e then acceptCommon rest
    else (.continueLoop, [])

/-- accept_common before the repair: every errno but EAGAIN/EWOULDBLOCK ended the event loop -/
def acceptOriginal : List Res → LoopRet × List Nat
  | [] => (.continueLoop, [])
  | .fd n :: rest => ((acceptOriginal rest).1, n :: (acceptOriginal rest).2)
  | .err e :: _ => if e = .EAGAIN then (.continueLoop, []) else (.abortLoop, [])

/-- the results consumed by the loop: everything up to and including the first errno that is
    not in the retry class -/
def consumed : List Res → List Res
  | [] => []
  | .fd n :: rest => .fd n :: consumed rest
  | .err e :: rest => if retry e then .err e :: consumed rest else [.err e]

/-- the descriptors among some results -/
def fdsOf : List Res → List Nat
  | [] => []
  | .fd n :: rest => n :: fdsOf rest
  | .err _ :: rest => fdsOf rest

theorem accept_fds (rs : List Res) : (acceptCommon rs).2 = fdsOf (consumed rs) := by
  induction rs with
  | nil => rfl
  | cons r rest ih =>
    cases r with
    | fd n => simp [acceptCommon, consumed, fdsOf, ih]
    | err e =>
      unfold acceptCommon consumed
      by_cases hu : unusable e = true
      · have hr : retry e = false := by cases e <;> simp_all [unusable, retry]
        simp [hu, hr, fdsOf]
      · by_cases hr : retry e = true
        · simp [hu, hr, fdsOf, ih]
        · simp [hu, hr, fdsOf]

theorem consumed_fd (n : Nat) (rest : List Res) : consumed (.fd n :: rest) = .fd n :: consumed rest := rfl
theorem consumed_err (e : Errno) (rest : List Res) :
    consumed (.err e :: rest) = if retry e then .err e :: consumed rest else [.err e] := rfl
theorem acceptCommon_fd (n : Nat) (rest : List Res) :
    acceptCommon (.fd n :: rest) = ((acceptCommon rest).1, n :: (acceptCommon rest).2) := rfl
theorem acceptCommon_err (e : Errno) (rest : List Res) :
    acceptCommon (.err e :: rest) =
      if unusable e then (.abortLoop, []) else if retry e then acceptCommon rest else (.continueLoop, []) := rfl

theorem accept_abort_iff (rs : List Res) :
    (acceptCommon rs).1 = .abortLoop ↔ ∃ e, (consumed rs).getLast? = some (.err e) ∧ unusable e = true := by
  induction rs with
  | nil => simp [acceptCommon, consumed]
  | cons r rest ih =>
    cases r with
    | fd n =>
      rw [acceptCommon_fd, consumed_fd, List.getLast?_cons]
      simp only
      rw [ih]
      cases hc : (consumed rest).getLast? with
      | none => simp
      | some b => simp
    | err e =>
      rw [acceptCommon_err, consumed_err]
      by_cases hu : unusable e = true
      · have hr : retry e = false := by cases e <;> simp_all [unusable, retry]
        simp [hu, hr]
      · by_cases hr : retry e = true
        · simp only [hu, hr, if_true, Bool.false_eq_true, if_false]
          rw [ih, List.getLast?_cons]
          cases hc : (consumed rest).getLast? with
          | none =>
            have : unusable e = false := by simpa using hu
            simp [this]
          | some b => simp
        · have hu' : unusable e = false := by simpa using hu
          simp [hu', hr]

/-- a retry-class errno never ends the loop: the rest of the results is processed as if it had
    not been there -/
theorem accept_skips_retry (pre rest : List Res) (e : Errno) (hpre : ∀ r ∈ pre, ∃ n, r = .fd n)
    (hr : retry e = true) :
    acceptCommon (pre ++ .err e :: rest) = acceptCommon (pre ++ rest) := by
  induction pre with
  | nil =>
    have hu : unusable e = false := by cases e <;> simp_all [unusable, retry]
    simp [acceptCommon, hu, hr]
  | cons r pre ih =>
    obtain ⟨n, rfl⟩ := hpre r List.mem_cons_self
    have := ih (fun r hr' => hpre r (List.mem_cons_of_mem _ hr'))
    simp [acceptCommon, this]

end Cjet.Daemon.C11.Accept
