/-
  C04 — definitions: the element abstraction of a daemon state and the well-formedness
  invariant, in the readable form (`WF`) and in the form the proofs work with (`WFI`, a
  predicate on the "image" of the peer list and the path index).
-/
import Cjet.Daemon.Model

namespace Cjet.Daemon.C04

open Cjet Cjet.Json Cjet.Daemon

/-- Everything the property text calls "an element and its value": all fields of an element
    except its subscriber table (the business of C01). -/
structure ElemInfo where
  owner : Nat
  value : Option Json
  fetchOnly : Bool
  timeoutNs : Nat
  fetchGroups : Nat
  setGroups : Nat
  callGroups : Nat

def info (e : Element) : ElemInfo :=
  { owner := e.owner, value := e.value, fetchOnly := e.fetchOnly, timeoutNs := e.timeoutNs,
    fetchGroups := e.fetchGroups, setGroups := e.setGroups, callGroups := e.callGroups }

abbrev Entry := Bytes × ElemInfo

def entry (e : Element) : Entry := (e.path, info e)

/-- the element list of one peer, abstracted -/
def peerAbs (p : Peer) : List Entry := p.elements.map entry

abbrev Image := List (Nat × List Entry)

/-- the peer list, abstracted to connection + abstract element list -/
def image (ps : List Peer) : Image := ps.map (fun p => (p.conn, peerAbs p))

def imElems (im : Image) : List Entry := im.flatMap (·.2)

/-- all elements of the daemon, in peer-list / element-list order -/
def allElems (s : State) : List Element := s.peers.flatMap (·.elements)

/-- THE ABSTRACTION: the association list path ↦ (owner, value/kind, fetchOnly, timeout, groups) -/
def absElems (s : State) : List Entry := (allElems s).map entry

/-- lookup in the abstraction -/
def absGet (s : State) (path : Bytes) : Option ElemInfo :=
  ((absElems s).find? (·.1 == path)).map (·.2)

/-! ## well-formedness, readable form -/

structure WF (s : State) : Prop where
  /-- peer connections are distinct -/
  conns : (s.peers.map (·.conn)).Nodup
  /-- every element's owner field is the connection of the peer whose list contains it -/
  owner : ∀ p ∈ s.peers, ∀ e ∈ p.elements, e.owner = p.conn
  /-- no path occurs twice across all element lists -/
  paths : ((allElems s).map (·.path)).Nodup
  /-- no path occurs twice in the index -/
  idxNodup : (s.index.map (·.1)).Nodup
  /-- the index and the element lists are in sync -/
  sync : ∀ path o, (path, o) ∈ s.index ↔ ∃ p ∈ s.peers, p.conn = o ∧ ∃ e ∈ p.elements, e.path = path

/-! ## well-formedness on the image -/

structure WFI (im : Image) (idx : List (Bytes × Nat)) : Prop where
  conns : (im.map (·.1)).Nodup
  owner : ∀ c l, (c, l) ∈ im → ∀ q i, (q, i) ∈ l → i.owner = c
  paths : ((imElems im).map (·.1)).Nodup
  idxNodup : (idx.map (·.1)).Nodup
  sync : ∀ q o, (q, o) ∈ idx ↔ ∃ l, (o, l) ∈ im ∧ ∃ i, (q, i) ∈ l

/-- the part of a state the element namespace lives in -/
def store (s : State) : Image × List (Bytes × Nat) := (image s.peers, s.index)

theorem absElems_eq_imElems (s : State) : absElems s = imElems (image s.peers) := by
  simp only [absElems, allElems, imElems, image, peerAbs]
  induction s.peers with
  | nil => rfl
  | cons p ps ih => simp only [List.flatMap_cons, List.map_append, List.map_cons, ih]

theorem allElems_paths (s : State) : (allElems s).map (·.path) = (absElems s).map (·.1) := by
  simp only [absElems, List.map_map]
  rfl

theorem wf_iff (s : State) : WF s ↔ WFI (image s.peers) s.index := by
  constructor
  · intro h
    refine ⟨?_, ?_, ?_, h.idxNodup, ?_⟩
    · have : (image s.peers).map (·.1) = s.peers.map (·.conn) := by
        simp only [image, List.map_map]; rfl
      rw [this]; exact h.conns
    · intro c l hcl q i hqi
      simp only [image, List.mem_map] at hcl
      obtain ⟨p, hp, hpe⟩ := hcl
      cases hpe
      simp only [peerAbs, List.mem_map] at hqi
      obtain ⟨e, he, hee⟩ := hqi
      cases hee
      exact h.owner p hp e he
    · rw [← absElems_eq_imElems, ← allElems_paths]; exact h.paths
    · intro q o
      rw [h.sync]
      constructor
      · rintro ⟨p, hp, rfl, e, he, rfl⟩
        exact ⟨peerAbs p, List.mem_map.2 ⟨p, hp, rfl⟩, info e, List.mem_map.2 ⟨e, he, rfl⟩⟩
      · rintro ⟨l, hl, i, hi⟩
        simp only [image, List.mem_map] at hl
        obtain ⟨p, hp, hpe⟩ := hl
        cases hpe
        simp only [peerAbs, List.mem_map] at hi
        obtain ⟨e, he, hee⟩ := hi
        cases hee
        exact ⟨p, hp, rfl, e, he, rfl⟩
  · intro h
    refine ⟨?_, ?_, ?_, h.idxNodup, ?_⟩
    · have : (image s.peers).map (·.1) = s.peers.map (·.conn) := by
        simp only [image, List.map_map]; rfl
      rw [← this]; exact h.conns
    · intro p hp e he
      exact h.owner p.conn (peerAbs p) (List.mem_map.2 ⟨p, hp, rfl⟩) e.path (info e)
        (List.mem_map.2 ⟨e, he, rfl⟩)
    · rw [allElems_paths, absElems_eq_imElems]; exact h.paths
    · intro q o
      rw [h.sync]
      constructor
      · rintro ⟨l, hl, i, hi⟩
        simp only [image, List.mem_map] at hl
        obtain ⟨p, hp, hpe⟩ := hl
        cases hpe
        simp only [peerAbs, List.mem_map] at hi
        obtain ⟨e, he, hee⟩ := hi
        cases hee
        exact ⟨p, hp, rfl, e, he, rfl⟩
      · rintro ⟨p, hp, rfl, e, he, rfl⟩
        exact ⟨peerAbs p, List.mem_map.2 ⟨p, hp, rfl⟩, info e, List.mem_map.2 ⟨e, he, rfl⟩⟩

theorem wf_of_store_eq {s s' : State} (h : store s' = store s) (hwf : WF s) : WF s' := by
  rw [wf_iff] at *
  simp only [store, Prod.mk.injEq] at h
  rw [h.1, h.2]; exact hwf

theorem absElems_of_store_eq {s s' : State} (h : store s' = store s) : absElems s' = absElems s := by
  simp only [store, Prod.mk.injEq] at h
  rw [absElems_eq_imElems, absElems_eq_imElems, h.1]

end Cjet.Daemon.C04
