/-
  C01 — the fetch-side primitives as transitions: dropping fetches (unfetch, disconnect of a
  subscriber), deleting a peer that owns nothing, changing the groups of a peer without fetches,
  installing a fetch.
-/
import Cjet.Lemmas.DaemonC01Elems

namespace Cjet.Daemon.C01

open Cjet Cjet.Json Cjet.Daemon

theorem allElems_eq_of_map_elements {s s' : State}
    (he : s'.peers.map (·.elements) = s.peers.map (·.elements)) : allElems s' = allElems s := by
  unfold allElems
  have h1 : s'.peers.flatMap (·.elements) = (s'.peers.map (·.elements)).flatMap id := by
    rw [List.flatMap_map]; rfl
  have h2 : s.peers.flatMap (·.elements) = (s.peers.map (·.elements)).flatMap id := by
    rw [List.flatMap_map]; rfl
  rw [h1, h2, he]

/-! ## dropping a set of fetches -/

theorem trans_drop {cfg : Config} {s : State} (inv : Inv cfg s) (P : FetchKey → Bool)
    (h : Peer → Peer) (t : Element → Element)
    (hconn : ∀ q, (h q).conn = q.conn) (hgrp : ∀ q, (h q).fetchGroups = q.fetchGroups)
    (hfet : ∀ q, (h q).fetches = q.fetches.filter (fun f => !P ⟨q.conn, f.uid⟩))
    (hel : ∀ q, (h q).elements = q.elements.map t)
    (htk : ∀ e, keys (t e).fetchers = (keys e.fetchers).filter (fun fk => !P fk))
    (htv : ∀ e, eview (t e) = eview e) (hto : ∀ e, (t e).owner = e.owner) :
    TransN cfg s { s with peers := s.peers.map h } [] := by
  have hpath : ∀ e, (t e).path = e.path := fun e => by
    have := htv e; simp only [eview, Prod.mk.injEq] at this; exact this.1
  have hsk : (s.peers.map h).map eskel = s.peers.map eskel := by
    apply map_map_congr
    intro q
    simp only [eskel, hconn, hel, List.map_map, Prod.mk.injEq, true_and]
    apply List.map_congr_left
    intro e _
    simp [hpath, hto]
  have hmemf : ∀ {q : Peer} {f : Fetch}, f ∈ (h q).fetches ↔ f ∈ q.fetches ∧ P ⟨q.conn, f.uid⟩ = false := by
    intro q f
    rw [hfet, List.mem_filter]
    simp
  have hfo : FetchesOK { s with peers := s.peers.map h } := by
    refine ⟨?_, ?_, ?_, ?_, ?_, ?_⟩
    · show ((s.peers.map h).map (·.conn)).Nodup
      rw [map_map_congr (·.conn) _ _ hconn]
      exact inv.fetches.connNodup
    · intro p' hp' f hf
      obtain ⟨p, hp, rfl⟩ := List.mem_map.1 hp'
      exact inv.fetches.uidLt p hp f (hmemf.1 hf).1
    · intro p' hp'
      obtain ⟨p, hp, rfl⟩ := List.mem_map.1 hp'
      rw [hfet]
      exact List.Nodup.sublist (List.filter_sublist.map _) (inv.fetches.uidNodup p hp)
    · intro p' hp' q' hq' f hf g hg hu
      obtain ⟨p, hp, rfl⟩ := List.mem_map.1 hp'
      obtain ⟨q, hq, rfl⟩ := List.mem_map.1 hq'
      rw [hconn, hconn]
      exact inv.fetches.uidGlobal p hp q hq f (hmemf.1 hf).1 g (hmemf.1 hg).1 hu
    · intro p' hp' f hf
      obtain ⟨p, hp, rfl⟩ := List.mem_map.1 hp'
      exact inv.fetches.fidOk p hp f (hmemf.1 hf).1
    · intro p' hp'
      obtain ⟨p, hp, rfl⟩ := List.mem_map.1 hp'
      rw [hfet]
      exact List.Pairwise.sublist List.filter_sublist (inv.fetches.fidDistinct p hp)
  have hall : ∀ e', e' ∈ allElems { s with peers := s.peers.map h } → ∃ e ∈ allElems s, e' = t e := by
    intro e' he'
    obtain ⟨q', hq', hqe⟩ := mem_allElems.1 he'
    obtain ⟨q, hq, rfl⟩ := List.mem_map.1 hq'
    rw [hel] at hqe
    obtain ⟨e, he, rfl⟩ := List.mem_map.1 hqe
    exact ⟨e, mem_allElems.2 ⟨q, hq, he⟩, rfl⟩
  have himg : (allElems { s with peers := s.peers.map h }).map eview = (allElems s).map eview := by
    unfold allElems
    apply allElems_map_eview
    intro q _
    rw [hel, List.map_map]
    apply List.map_congr_left
    intro e _
    exact htv e
  have hinv : Inv cfg { s with peers := s.peers.map h } := by
    refine ⟨inv.elems.congr hsk rfl, hfo, ?_⟩
    intro e' he'
    obtain ⟨e, he, rfl⟩ := hall e' he'
    have ok := inv.tbl e he
    refine ⟨?_, ?_, ?_⟩
    · rw [htk]; exact ok.nodup.filter _
    · intro fk hfk
      rw [htk, List.mem_filter] at hfk
      obtain ⟨p, hp, hc, f, hf, hu⟩ := ok.live fk hfk.1
      refine ⟨h p, List.mem_map_of_mem hp, (hconn p).trans hc, f, ?_, hu⟩
      rw [hmemf]
      refine ⟨hf, ?_⟩
      have : (⟨p.conn, f.uid⟩ : FetchKey) = fk := by cases fk; simp_all
      rw [this]
      simpa using hfk.2
    · intro p' hp' f hf
      obtain ⟨p, hp, rfl⟩ := List.mem_map.1 hp'
      obtain ⟨hf1, hf2⟩ := hmemf.1 hf
      rw [htk, List.mem_filter, hconn, hgrp, visible_congr (htv e)]
      rw [← ok.char p hp f hf1]
      simp [hf2]
  refine ⟨hinv, rfl, ?_, ?_, ?_, ?_⟩
  · rintro c f ⟨p', hp', hc, hf⟩
    obtain ⟨p, hp, rfl⟩ := List.mem_map.1 hp'
    exact ⟨p, hp, (hconn p).symm.trans hc, (hmemf.1 hf).1⟩
  · rintro c pg f ⟨p, hp, hc, hg, _⟩ ⟨p', hp', hc', hf'⟩
    obtain ⟨p2, hp2, rfl⟩ := List.mem_map.1 hp'
    have : p2 = p := eq_of_conn_eq inv.fetches.connNodup hp2 hp (((hconn p2).symm.trans hc').trans hc.symm)
    subst this
    exact ⟨h p2, hp', hc', (hgrp p2).trans hg, hf'⟩
  · intro c pg f _ _
    exact RStep.of_silent rfl (fun a => by rw [imageOf_congr himg])
  · intro cn hcn; cases hcn

/-! ### unfetch -/

/-- `dropFetch` as one map over the peers -/
def dropPeer (fk : FetchKey) (q : Peer) : Peer :=
  if q.conn == fk.peer then
    { q with elements := q.elements.map (fun e => { e with fetchers := removeFetcher e.fetchers fk }),
             fetches := q.fetches.filter (·.uid != fk.uid) }
  else { q with elements := q.elements.map (fun e => { e with fetchers := removeFetcher e.fetchers fk }) }

theorem dropFetch_eq (ps : List Peer) (fk : FetchKey) : dropFetch ps fk = ps.map (dropPeer fk) := by
  unfold dropFetch updatePeer mapElements
  rw [List.map_map]
  apply List.map_congr_left
  intro q _
  simp only [Function.comp, dropPeer]

theorem trans_unfetch {cfg : Config} {s : State} (inv : Inv cfg s) (fk : FetchKey) :
    TransN cfg s { s with peers := dropFetch s.peers fk } [] := by
  rw [dropFetch_eq]
  apply trans_drop inv (fun g => g == fk) (dropPeer fk)
    (fun e => { e with fetchers := removeFetcher e.fetchers fk })
  · intro q; unfold dropPeer; split <;> rfl
  · intro q; unfold dropPeer; split <;> rfl
  · intro q
    unfold dropPeer
    split
    · next hc =>
      have hc' : q.conn = fk.peer := by simpa using hc
      simp only
      apply List.filter_congr
      intro f _
      cases fk
      simp only at hc'
      subst hc'
      simp only [bne, Bool.not_eq_eq_eq_not, Bool.not_not]
      rw [Bool.eq_iff_iff]
      simp
    · next hc =>
      have hc' : q.conn ≠ fk.peer := by simpa using hc
      simp only
      symm
      rw [List.filter_eq_self]
      intro f _
      cases fk
      simp_all
  · intro q; unfold dropPeer; split <;> rfl
  · intro e
    rw [keys_removeFetcher]
    apply List.filter_congr
    intro g _
    simp [bne]
  · intro e; rfl
  · intro e; rfl

/-! ### all fetches of a closing peer -/

def unsubPeer (c : Nat) (q : Peer) : Peer :=
  if q.conn == c then
    { q with elements := q.elements.map (fun e => { e with fetchers := unsubTbl c e.fetchers }), fetches := [] }
  else { q with elements := q.elements.map (fun e => { e with fetchers := unsubTbl c e.fetchers }) }

theorem unsub_eq (ps : List Peer) (c : Nat) :
    updatePeer (mapElements ps (fun e => { e with fetchers := e.fetchers.map (fun s =>
      match s with | some fk => if fk.peer == c then none else some fk | none => none) })) c
      (fun q => { q with fetches := [] }) = ps.map (unsubPeer c) := by
  unfold updatePeer mapElements
  rw [List.map_map]
  apply List.map_congr_left
  intro q _
  simp only [Function.comp, unsubPeer, unsubTbl]
  split <;> rfl

theorem trans_unsub {cfg : Config} {s : State} (inv : Inv cfg s) (c : Nat) :
    TransN cfg s { s with peers := s.peers.map (unsubPeer c) } [] := by
  apply trans_drop inv (fun g => g.peer == c) (unsubPeer c)
    (fun e => { e with fetchers := unsubTbl c e.fetchers })
  · intro q; unfold unsubPeer; split <;> rfl
  · intro q; unfold unsubPeer; split <;> rfl
  · intro q
    unfold unsubPeer
    split
    · next hc =>
      simp only
      symm
      rw [List.filter_eq_nil_iff]
      intro f _
      simpa using hc
    · next hc =>
      simp only
      symm
      rw [List.filter_eq_self]
      intro f _
      simpa using hc
  · intro q; unfold unsubPeer; split <;> rfl
  · intro e
    rw [keys_unsubTbl]
    apply List.filter_congr
    intro g _
    simp [bne]
  · intro e; rfl
  · intro e; rfl

/-! ## deleting a peer that owns nothing and fetches nothing -/

theorem allElems_filter_empty (ps : List Peer) (c : Nat) (h : ∀ q ∈ ps, q.conn = c → q.elements = []) :
    (ps.filter (·.conn != c)).flatMap (·.elements) = ps.flatMap (·.elements) := by
  induction ps with
  | nil => rfl
  | cons q qs ih =>
    have ih' := ih (fun q' hq' => h q' (List.mem_cons_of_mem _ hq'))
    rw [List.filter_cons]
    by_cases hc : q.conn = c
    · have : (q.conn != c) = false := by simp [hc]
      simp only [this, Bool.false_eq_true, if_false, List.flatMap_cons, h q List.mem_cons_self hc,
        List.nil_append]
      exact ih'
    · have : (q.conn != c) = true := by simp [hc]
      simp only [this, if_true, List.flatMap_cons, ih']

theorem trans_delPeer {cfg : Config} {s : State} (inv : Inv cfg s) (c : Nat)
    (hemp : ∀ q ∈ s.peers, q.conn = c → q.elements = [] ∧ q.fetches = []) :
    TransN cfg s { s with peers := s.peers.filter (·.conn != c) } [] := by
  have hsub : ∀ q, q ∈ s.peers.filter (·.conn != c) → q ∈ s.peers := fun q hq => (List.mem_filter.1 hq).1
  have hall : allElems { s with peers := s.peers.filter (·.conn != c) } = allElems s :=
    allElems_filter_empty s.peers c (fun q hq hc => (hemp q hq hc).1)
  have hkeep : ∀ q ∈ s.peers, ∀ f ∈ q.fetches, q ∈ s.peers.filter (·.conn != c) := by
    intro q hq f hf
    rw [List.mem_filter]
    refine ⟨hq, ?_⟩
    have : q.conn ≠ c := by
      intro hc
      rw [(hemp q hq hc).2] at hf
      cases hf
    simpa using this
  have hinv : Inv cfg { s with peers := s.peers.filter (·.conn != c) } := by
    refine ⟨⟨?_, ?_, inv.elems.idxNodup, ?_⟩, ⟨?_, ?_, ?_, ?_, ?_, ?_⟩, ?_⟩
    · intro p hp; exact inv.elems.owner p (hsub p hp)
    · intro p hp; exact inv.elems.pathNodup p (hsub p hp)
    · intro p hp; exact inv.elems.indexed p (hsub p hp)
    · exact List.Nodup.sublist (List.filter_sublist.map _) inv.fetches.connNodup
    · intro p hp; exact inv.fetches.uidLt p (hsub p hp)
    · intro p hp; exact inv.fetches.uidNodup p (hsub p hp)
    · intro p hp q hq; exact inv.fetches.uidGlobal p (hsub p hp) q (hsub q hq)
    · intro p hp; exact inv.fetches.fidOk p (hsub p hp)
    · intro p hp; exact inv.fetches.fidDistinct p (hsub p hp)
    · intro e he
      rw [hall] at he
      have ok := inv.tbl e he
      refine ⟨ok.nodup, ?_, ?_⟩
      · intro fk hfk
        obtain ⟨p, hp, hc, f, hf, hu⟩ := ok.live fk hfk
        exact ⟨p, hkeep p hp f hf, hc, f, hf, hu⟩
      · intro p hp f hf
        exact ok.char p (hsub p hp) f hf
  refine ⟨hinv, rfl, ?_, ?_, ?_, ?_⟩
  · rintro c' f ⟨p, hp, hc, hf⟩
    exact ⟨p, hsub p hp, hc, hf⟩
  · rintro c' pg f ⟨p, hp, hc, hg, hf⟩ _
    exact ⟨p, hkeep p hp f hf, hc, hg, hf⟩
  · intro c' pg f _ _
    apply RStep.of_silent rfl
    intro a
    unfold imageOf
    rw [hall]
  · intro cn hcn; cases hcn

/-! ## changing a peer that has no fetches (authenticate) -/

theorem trans_regroup {cfg : Config} {s : State} (inv : Inv cfg s) {p : Peer} (hp : p ∈ s.peers)
    (hnf : p.fetches = []) (g : Peer → Peer)
    (hconn : ∀ q, (g q).conn = q.conn) (hfet : ∀ q, (g q).fetches = q.fetches)
    (hel : ∀ q, (g q).elements = q.elements) :
    TransN cfg s { s with peers := updatePeer s.peers p.conn g } [] := by
  have hsk : (updatePeer s.peers p.conn g).map eskel = s.peers.map eskel :=
    map_updatePeer_congr eskel _ _ _ (fun q => by simp [eskel, hconn, hel])
  have hels : (updatePeer s.peers p.conn g).map (·.elements) = s.peers.map (·.elements) :=
    map_updatePeer_congr (·.elements) _ _ _ hel
  have hall : allElems { s with peers := updatePeer s.peers p.conn g } = allElems s :=
    allElems_eq_of_map_elements hels
  have hfo : FetchesOK { s with peers := updatePeer s.peers p.conn g } := by
    have key : ∀ p' ∈ updatePeer s.peers p.conn g, ∃ q ∈ s.peers, q.fetches = p'.fetches := by
      intro p' hp'
      obtain ⟨q, hq, rfl⟩ := mem_updatePeer.1 hp'
      refine ⟨q, hq, ?_⟩
      split <;> simp [hfet]
    have key2 : ∀ p' ∈ updatePeer s.peers p.conn g, ∃ q ∈ s.peers, q.fetches = p'.fetches ∧ q.conn = p'.conn := by
      intro p' hp'
      obtain ⟨q, hq, rfl⟩ := mem_updatePeer.1 hp'
      refine ⟨q, hq, ?_⟩
      split <;> simp [hfet, hconn]
    refine ⟨?_, ?_, ?_, ?_, ?_, ?_⟩
    · show ((updatePeer s.peers p.conn g).map (·.conn)).Nodup
      rw [updatePeer_conns _ _ _ hconn]
      exact inv.fetches.connNodup
    · intro p' hp' f hf
      obtain ⟨q, hq, e⟩ := key p' hp'
      exact inv.fetches.uidLt q hq f (e ▸ hf)
    · intro p' hp'
      obtain ⟨q, hq, e⟩ := key p' hp'
      exact e ▸ inv.fetches.uidNodup q hq
    · intro p' hp' q' hq' f hf g' hg hu
      obtain ⟨p1, hp1, e, ec⟩ := key2 p' hp'
      obtain ⟨q1, hq1, e2, ec2⟩ := key2 q' hq'
      rw [← ec, ← ec2]
      exact inv.fetches.uidGlobal p1 hp1 q1 hq1 f (e ▸ hf) g' (e2 ▸ hg) hu
    · intro p' hp' f hf
      obtain ⟨q, hq, e⟩ := key p' hp'
      exact inv.fetches.fidOk q hq f (e ▸ hf)
    · intro p' hp'
      obtain ⟨q, hq, e⟩ := key p' hp'
      exact e ▸ inv.fetches.fidDistinct q hq
  have hkeep : ∀ q ∈ s.peers, ∀ f ∈ q.fetches, q ∈ updatePeer s.peers p.conn g := by
    intro q hq f hf
    refine mem_updatePeer.2 ⟨q, hq, ?_⟩
    have : q.conn ≠ p.conn := by
      intro hc
      have : q = p := eq_of_conn_eq inv.fetches.connNodup hq hp hc
      subst this
      rw [hnf] at hf
      cases hf
    have h2 : (q.conn == p.conn) = false := by simp [this]
    simp [h2]
  have hback : ∀ p' ∈ updatePeer s.peers p.conn g, ∀ f ∈ p'.fetches, p' ∈ s.peers := by
    intro p' hp' f hf
    obtain ⟨q, hq, rfl⟩ := mem_updatePeer.1 hp'
    by_cases hc : q.conn = p.conn
    · have : q = p := eq_of_conn_eq inv.fetches.connNodup hq hp hc
      subst this
      simp only [beq_self_eq_true, if_true, hfet, hnf] at hf
      cases hf
    · have h2 : (q.conn == p.conn) = false := by simp [hc]
      simp only [h2]
      exact hq
  have hinv : Inv cfg { s with peers := updatePeer s.peers p.conn g } := by
    refine ⟨inv.elems.congr hsk rfl, hfo, ?_⟩
    intro e he
    rw [hall] at he
    have ok := inv.tbl e he
    refine ⟨ok.nodup, ?_, ?_⟩
    · intro fk hfk
      obtain ⟨q, hq, hc, f, hf, hu⟩ := ok.live fk hfk
      exact ⟨q, hkeep q hq f hf, hc, f, hf, hu⟩
    · intro p' hp' f hf
      exact ok.char p' (hback p' hp' f hf) f hf
  refine ⟨hinv, rfl, ?_, ?_, ?_, ?_⟩
  · rintro c f ⟨p', hp', hc, hf⟩
    exact ⟨p', hback p' hp' f hf, hc, hf⟩
  · rintro c pg f ⟨q, hq, hc, hg, hf⟩ _
    exact ⟨q, hkeep q hq f hf, hc, hg, hf⟩
  · intro c pg f _ _
    apply RStep.of_silent rfl
    intro a
    unfold imageOf
    rw [hall]
  · intro cn hcn; cases hcn

/-! ## installing a fetch -/

/-- the state after `process_fetch` -/
def fetchPeer (cfg : Config) (c pg : Nat) (f : Fetch) (q : Peer) : Peer :=
  offerPeer cfg c pg f (if q.conn == c then { q with fetches := q.fetches ++ [f] } else q)

def fetchState (cfg : Config) (s : State) (p : Peer) (f : Fetch) : State :=
  { s with nextUid := s.nextUid + 1, peers := s.peers.map (fetchPeer cfg p.conn p.fetchGroups f) }

def fetchNotifs (cfg : Config) (s : State) (p : Peer) (f : Fetch) : List (Nat × Notif) :=
  (allElems s).filterMap (addNotif cfg p.conn p.fetchGroups f)

theorem paths_nodup_aux : ∀ (ps : List Peer), (ps.map (·.conn)).Nodup →
    (∀ q ∈ ps, (q.elements.map (·.path)).Nodup) →
    (∀ q ∈ ps, ∀ q' ∈ ps, ∀ e ∈ q.elements, ∀ e' ∈ q'.elements, e.path = e'.path → q.conn = q'.conn) →
    ((ps.flatMap (·.elements)).map (·.path)).Nodup
  | [], _, _, _ => by simp
  | q :: qs, hn, hp, hx => by
    rw [List.map_cons, List.nodup_cons] at hn
    rw [List.flatMap_cons, List.map_append, List.nodup_append]
    refine ⟨hp q List.mem_cons_self, ?_, ?_⟩
    · exact paths_nodup_aux qs hn.2 (fun q' hq' => hp q' (List.mem_cons_of_mem _ hq'))
        (fun a ha b hb => hx a (List.mem_cons_of_mem _ ha) b (List.mem_cons_of_mem _ hb))
    · intro a ha b hb hab
      subst hab
      obtain ⟨e, he, rfl⟩ := List.mem_map.1 ha
      obtain ⟨e', he', hpe⟩ := List.mem_map.1 hb
      obtain ⟨q', hq', hqe'⟩ := List.mem_flatMap.1 he'
      have := hx q List.mem_cons_self q' (List.mem_cons_of_mem _ hq') e he e' hqe' hpe.symm
      exact hn.1 (this ▸ List.mem_map_of_mem (f := (·.conn)) hq')

theorem allElems_paths_nodup {cfg : Config} {s : State} (inv : Inv cfg s) :
    ((allElems s).map (·.path)).Nodup :=
  paths_nodup_aux s.peers inv.fetches.connNodup inv.elems.pathNodup
    (fun _ hq _ hq' _ he _ he' hp =>
      congrArg (·.conn) (path_unique inv.elems inv.fetches hq he hq' he' hp).1)

theorem replay_adds (fid : Json) : ∀ (l : List Element) (r : Replica),
    (r.map (·.1) ++ l.map (·.path)).Nodup →
    replayFrom r (l.map (fun e => { fid := fid, path := e.path, event := .add, value := e.value })) =
      some (r ++ l.map (fun e => (e.path, e.value)))
  | [], r, _ => by simp
  | e :: t, r, h => by
    have hnp : hasPath r e.path = false := by
      cases hq : hasPath r e.path with
      | false => rfl
      | true =>
        have := hasPath_iff.1 hq
        rw [List.nodup_append] at h
        exact absurd rfl (h.2.2 e.path this e.path (by simp))
    simp only [List.map_cons, replayFrom, applyNotif, hnp, Bool.false_eq_true, if_false, Option.bind_some]
    rw [replay_adds fid t (r ++ [(e.path, e.value)])]
    · simp
    · simpa [List.append_assoc] using h

theorem image_paths_nodup {cfg : Config} {s : State} (inv : Inv cfg s) (pg : Nat) (rule : Rule) :
    ((imageOf cfg s pg rule).map (·.1)).Nodup := by
  unfold imageOf
  rw [List.map_map]
  exact List.Nodup.sublist (List.filter_sublist.map _) (allElems_paths_nodup inv)

structure FetchTrans (cfg : Config) (s : State) (p : Peer) (f : Fetch) : Prop where
  inv : Inv cfg (fetchState cfg s p f)
  keep : ∀ c pg g, Alive s c pg g → Alive (fetchState cfg s p f) c pg g
  fresh : ∀ c g, HasFetch (fetchState cfg s p f) c g → HasFetch s c g ∨ (c = p.conn ∧ g = f)
  installed : Alive (fetchState cfg s p f) p.conn p.fetchGroups f
  rstep : ∀ c pg g, Alive s c pg g →
    RStep cfg s (fetchState cfg s p f) (fetchNotifs cfg s p f) c g.fid pg g.rule
  install : replayFrom [] (pick p.conn f.fid (fetchNotifs cfg s p f)) =
    some (imageOf cfg (fetchState cfg s p f) p.fetchGroups f.rule)
  origin : ∀ cn ∈ fetchNotifs cfg s p f, cn.1 = p.conn ∧ cn.2.fid = f.fid

theorem trans_fetch {cfg : Config} {s : State} (inv : Inv cfg s) {p : Peer} (hp : p ∈ s.peers) {f : Fetch}
    (huid : f.uid = s.nextUid) (hok : idsEqual f.fid f.fid = true)
    (hnew : ∀ g ∈ p.fetches, idsEqual g.fid f.fid = false) : FetchTrans cfg s p f := by
  have hconn : ∀ q, (fetchPeer cfg p.conn p.fetchGroups f q).conn = q.conn := by
    intro q; unfold fetchPeer offerPeer; split <;> rfl
  have hgrp : ∀ q, (fetchPeer cfg p.conn p.fetchGroups f q).fetchGroups = q.fetchGroups := by
    intro q; unfold fetchPeer offerPeer; split <;> rfl
  have hel : ∀ q, (fetchPeer cfg p.conn p.fetchGroups f q).elements =
      q.elements.map (offer1 cfg p.conn p.fetchGroups f) := by
    intro q; unfold fetchPeer offerPeer; split <;> rfl
  have hfet : ∀ q, (fetchPeer cfg p.conn p.fetchGroups f q).fetches =
      if q.conn == p.conn then q.fetches ++ [f] else q.fetches := by
    intro q; unfold fetchPeer offerPeer; split <;> rfl
  have hfetp : (fetchPeer cfg p.conn p.fetchGroups f p).fetches = p.fetches ++ [f] := by
    rw [hfet]; simp
  have hfeto : ∀ q ∈ s.peers, q.conn ≠ p.conn → (fetchPeer cfg p.conn p.fetchGroups f q).fetches = q.fetches := by
    intro q _ hc
    rw [hfet]
    have : (q.conn == p.conn) = false := by simp [hc]
    simp [this]
  have hmemf : ∀ q ∈ s.peers, ∀ g, g ∈ (fetchPeer cfg p.conn p.fetchGroups f q).fetches ↔
      g ∈ q.fetches ∨ (q = p ∧ g = f) := by
    intro q hq g
    by_cases hc : q.conn = p.conn
    · have : q = p := eq_of_conn_eq inv.fetches.connNodup hq hp hc
      subst this
      rw [hfetp]; simp
    · rw [hfeto q hq hc]
      constructor
      · exact Or.inl
      · rintro (h | ⟨rfl, _⟩)
        · exact h
        · exact absurd rfl hc
  have hsk : (s.peers.map (fetchPeer cfg p.conn p.fetchGroups f)).map eskel = s.peers.map eskel := by
    apply map_map_congr
    intro q
    simp only [eskel, hconn, hel, List.map_map, Prod.mk.injEq, true_and]
    apply List.map_congr_left
    intro e _
    simp
  have himg : (allElems (fetchState cfg s p f)).map eview = (allElems s).map eview := by
    unfold allElems fetchState
    apply allElems_map_eview
    intro q _
    rw [hel, List.map_map]
    apply List.map_congr_left
    intro e _
    exact offer1_eview ..
  have hall : ∀ e', e' ∈ allElems (fetchState cfg s p f) →
      ∃ e ∈ allElems s, e' = offer1 cfg p.conn p.fetchGroups f e := by
    intro e' he'
    obtain ⟨q', hq', hqe⟩ := mem_allElems.1 he'
    obtain ⟨q, hq, rfl⟩ := List.mem_map.1 hq'
    rw [hel] at hqe
    obtain ⟨e, he, rfl⟩ := List.mem_map.1 hqe
    exact ⟨e, mem_allElems.2 ⟨q, hq, he⟩, rfl⟩
  have hfo : FetchesOK (fetchState cfg s p f) := by
    refine ⟨?_, ?_, ?_, ?_, ?_, ?_⟩
    · show ((s.peers.map (fetchPeer cfg p.conn p.fetchGroups f)).map (·.conn)).Nodup
      rw [map_map_congr (·.conn) _ _ hconn]
      exact inv.fetches.connNodup
    · intro p' hp' g hg
      obtain ⟨q, hq, rfl⟩ := List.mem_map.1 hp'
      show g.uid < s.nextUid + 1
      rcases (hmemf q hq g).1 hg with h | ⟨_, rfl⟩
      · exact Nat.lt_succ_of_lt (inv.fetches.uidLt q hq g h)
      · rw [huid]; exact Nat.lt_succ_self _
    · intro p' hp'
      obtain ⟨q, hq, rfl⟩ := List.mem_map.1 hp'
      by_cases hc : q.conn = p.conn
      · have : q = p := eq_of_conn_eq inv.fetches.connNodup hq hp hc
        subst this
        rw [hfetp, List.map_append, List.nodup_append]
        refine ⟨inv.fetches.uidNodup q hq, by simp, ?_⟩
        intro a ha b hb
        simp only [List.map_cons, List.map_nil, List.mem_singleton] at hb
        subst hb
        obtain ⟨g, hg, rfl⟩ := List.mem_map.1 ha
        have := inv.fetches.uidLt q hq g hg
        omega
      · rw [hfeto q hq hc]; exact inv.fetches.uidNodup q hq
    · intro p' hp' q' hq' g1 hg1 g2 hg2 hu
      obtain ⟨q1, hq1, rfl⟩ := List.mem_map.1 hp'
      obtain ⟨q2, hq2, rfl⟩ := List.mem_map.1 hq'
      rw [hconn, hconn]
      rcases (hmemf q1 hq1 g1).1 hg1 with h1 | ⟨rfl, rfl⟩
      · rcases (hmemf q2 hq2 g2).1 hg2 with h2 | ⟨rfl, rfl⟩
        · exact inv.fetches.uidGlobal q1 hq1 q2 hq2 g1 h1 g2 h2 hu
        · have := inv.fetches.uidLt q1 hq1 g1 h1
          omega
      · rcases (hmemf q2 hq2 g2).1 hg2 with h2 | ⟨rfl, rfl⟩
        · have := inv.fetches.uidLt q2 hq2 g2 h2
          omega
        · rfl
    · intro p' hp' g hg
      obtain ⟨q, hq, rfl⟩ := List.mem_map.1 hp'
      rcases (hmemf q hq g).1 hg with h | ⟨_, rfl⟩
      · exact inv.fetches.fidOk q hq g h
      · exact hok
    · intro p' hp'
      obtain ⟨q, hq, rfl⟩ := List.mem_map.1 hp'
      by_cases hc : q.conn = p.conn
      · have : q = p := eq_of_conn_eq inv.fetches.connNodup hq hp hc
        subst this
        rw [hfetp, List.pairwise_append]
        refine ⟨inv.fetches.fidDistinct q hq, by simp, ?_⟩
        intro a ha b hb
        simp only [List.mem_singleton] at hb
        subst hb
        exact hnew a ha
      · rw [hfeto q hq hc]; exact inv.fetches.fidDistinct q hq
  have hKnot : ∀ e ∈ allElems s, (⟨p.conn, f.uid⟩ : FetchKey) ∉ keys e.fetchers := by
    intro e he hk
    obtain ⟨q, hq, _, g, hg, hu⟩ := (inv.tbl e he).live _ hk
    have := inv.fetches.uidLt q hq g hg
    simp only at hu
    omega
  have hinv : Inv cfg (fetchState cfg s p f) := by
    refine ⟨inv.elems.congr hsk rfl, hfo, ?_⟩
    intro e' he'
    obtain ⟨e, he, rfl⟩ := hall e' he'
    have ok := inv.tbl e he
    have hperm := keys_offer1 cfg p.conn p.fetchGroups f e
    refine ⟨?_, ?_, ?_⟩
    · rw [hperm.nodup_iff]
      split
      · simp only [List.singleton_append, List.nodup_cons]
        exact ⟨hKnot e he, ok.nodup⟩
      · simpa using ok.nodup
    · intro fk hfk
      rcases mem_keys_offer1.1 hfk with ⟨_, rfl⟩ | h
      · exact ⟨_, List.mem_map_of_mem hp, hconn p, f, (hmemf p hp f).2 (Or.inr ⟨rfl, rfl⟩), rfl⟩
      · obtain ⟨q, hq, hc, g, hg, hu⟩ := ok.live fk h
        exact ⟨_, List.mem_map_of_mem hq, (hconn q).trans hc, g, (hmemf q hq g).2 (Or.inl hg), hu⟩
    · intro p' hp' g hg
      obtain ⟨q, hq, rfl⟩ := List.mem_map.1 hp'
      rw [hconn, hgrp, visible_offer1, mem_keys_offer1]
      rcases (hmemf q hq g).1 hg with h | ⟨rfl, rfl⟩
      · rw [← ok.char q hq g h]
        constructor
        · rintro (⟨_, heq⟩ | h')
          · have := inv.fetches.uidLt q hq g h
            simp only [FetchKey.mk.injEq] at heq
            omega
          · exact h'
        · exact Or.inr
      · constructor
        · rintro (⟨hv, _⟩ | h')
          · exact hv
          · exact absurd h' (hKnot e he)
        · intro hv
          exact Or.inl ⟨hv, rfl⟩
  have horigin : ∀ cn ∈ fetchNotifs cfg s p f, cn.1 = p.conn ∧ cn.2.fid = f.fid := by
    intro cn hcn
    obtain ⟨e, _, h⟩ := List.mem_filterMap.1 hcn
    simp only [addNotif] at h
    split at h
    · simp only [Option.some.injEq] at h
      subst h; exact ⟨rfl, rfl⟩
    · cases h
  refine ⟨hinv, ?_, ?_, ?_, ?_, ?_, horigin⟩
  · rintro c pg g ⟨q, hq, hc, hg, hf⟩
    exact ⟨_, List.mem_map_of_mem hq, (hconn q).trans hc, (hgrp q).trans hg, (hmemf q hq g).2 (Or.inl hf)⟩
  · rintro c g ⟨p', hp', hc, hg⟩
    obtain ⟨q, hq, rfl⟩ := List.mem_map.1 hp'
    rcases (hmemf q hq g).1 hg with h | ⟨rfl, rfl⟩
    · exact Or.inl ⟨q, hq, (hconn q).symm.trans hc, h⟩
    · exact Or.inr ⟨((hconn q).symm.trans hc).symm, rfl⟩
  · exact ⟨_, List.mem_map_of_mem hp, hconn p, hgrp p, (hmemf p hp f).2 (Or.inr ⟨rfl, rfl⟩)⟩
  · rintro c pg g ⟨q, hq, hc, hg, hf⟩
    apply RStep.of_silent
    · unfold pick
      rw [List.filterMap_eq_nil_iff]
      intro cn hcn
      obtain ⟨h1, h2⟩ := horigin cn hcn
      split
      · next hcond =>
        simp only [Bool.and_eq_true, beq_iff_eq] at hcond
        have : q = p := eq_of_conn_eq inv.fetches.connNodup hq hp (hc.trans (hcond.1.symm.trans h1))
        subst this
        have := hnew g hf
        rw [idsEqual_symm, ← h2, hcond.2] at this
        cases this
      · rfl
    · intro a
      rw [imageOf_congr himg]
  · have hpick : pick p.conn f.fid (fetchNotifs cfg s p f) =
        ((allElems s).filter (visible cfg p.fetchGroups f.rule)).map
          (fun e => { fid := f.fid, path := e.path, event := .add, value := e.value }) := by
      unfold pick fetchNotifs
      rw [List.filterMap_filterMap]
      generalize allElems s = l
      induction l with
      | nil => rfl
      | cons e t ih =>
        rw [List.filterMap_cons, List.filter_cons]
        simp only [addNotif]
        simp only [addNotif] at ih
        by_cases hv : visible cfg p.fetchGroups f.rule e = true
        · simpa [hv, hok] using ih
        · simpa [hv] using ih
    rw [hpick, replay_adds f.fid _ []]
    · rw [imageOf_congr himg]
      simp [imageOf]
    · simp only [List.map_nil, List.nil_append]
      exact List.Nodup.sublist (List.filter_sublist.map _) (allElems_paths_nodup inv)

end Cjet.Daemon.C01
