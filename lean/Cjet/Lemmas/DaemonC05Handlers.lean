/-
  Cjet.Lemmas.DaemonC05Handlers — `Ok` for every request handler, for `parseMessage`, and for
  the timer handler.
-/
import Cjet.Lemmas.DaemonC05Struct

namespace Cjet.Daemon.C05

open Cjet Cjet.Json Cjet.Daemon

theorem changeState_ok {x : Ctx} (h : Inv x.st) {p : Peer} (_hp : p ∈ x.st.peers) (req : Json) :
    Ok x (changeState x p req).1 := by
  unfold changeState
  split
  · exact Ok.refl h
  · next params path _ =>
    split
    · exact Ok.refl h
    · next v _ =>
      split
      · exact Ok.refl h
      · next e he =>
        split
        · exact Ok.refl h
        · next hown =>
          split
          · exact Ok.refl h
          · obtain ⟨q, hq, heq, hpath⟩ := findElement_mem he
            have hown : e.owner = p.conn := by simpa using hown
            have hI' : Inv { x.st with peers := updatePeer x.st.peers p.conn (fun q =>
                { q with elements := q.elements.map (fun el => if el.path == path then { e with value := some v } else el) }) } := by
              apply h.updatePeer_elements
              intro q' hq' hq'c el hel
              split
              · next hc =>
                have hc : el.path = path := by simpa using hc
                refine ⟨by simp [hpath, hc], ?_, ?_⟩
                · show e.owner = el.owner
                  rw [hown, h.owner q' hq' el hel, hq'c]
                · intro fk hfk
                  exact Or.inr (h.fetchers q hq e heq fk hfk)
              · exact ⟨rfl, rfl, fun fk hfk => Or.inl hfk⟩
            refine Ok.trans (y := { x with st := _ }) (Ok.of_out_eq hI' ?_ rfl) (notifyFetchers_ok hI' _ _)
            exact conns_updatePeer (fun _ => rfl)

theorem removeElement_ok {x : Ctx} (h : Inv x.st) {p : Peer} (hp : p ∈ x.st.peers) {e : Element}
    (he : e ∈ p.elements) : Ok x (removeElement x e) := by
  unfold removeElement
  have h1 := notifyFetchers_ok h e "remove"
  refine h1.trans (Ok.of_out_eq ?_ ?_ rfl)
  · have := (h1.inv).removeElement (p := p) (by simpa using hp) he
    simpa using this
  · exact conns_updatePeer (fun _ => rfl)

theorem removeElementReq_ok {x : Ctx} (h : Inv x.st) {p : Peer} (hp : p ∈ x.st.peers) (req : Json) :
    Ok x (removeElementReq x p req).1 := by
  unfold removeElementReq
  split
  · exact Ok.refl h
  · split
    · next e he => exact removeElement_ok h hp (List.mem_of_find?_eq_some he)
    · exact Ok.refl h

/-- the part of add_element_to_peer after the parameter checks -/
def addMain (cfg : Config) (x : Ctx) (p : Peer) (req : Json) (params : Json) (path : Bytes) (fetchOnly : Bool)
    (tns : Nat) : Ctx × Option Json :=
  let value := params.getItem (k "value")
  match fillAccess cfg value.isSome (params.getItem (k "access")) with
  | .error reason => (x, errorFromRequest req INVALID_PARAMS "reason" (k reason))
  | .ok (fg, sg, cg) =>
    let e : Element := { path := path, owner := p.conn, value := value, fetchOnly := fetchOnly,
                         timeoutNs := tns, fetchGroups := fg, setGroups := sg, callGroups := cg,
                         fetchers := List.replicate cfg.initFetchTable none }
    let (x, e) := findFetchersForElement cfg x e
    if x.indexFull then
      let x := notifyFetchers x e "remove"
      ({ x with indexFull := false },
       errorFromRequest req INTERNAL_ERROR "reason" (k "element table full"))
    else
      let st := { x.st with
        index := x.st.index ++ [(path, p.conn)],
        peers := updatePeer x.st.peers p.conn (fun q => { q with elements := q.elements ++ [e] }) }
      ({ x with st := st }, successFromRequest req)

theorem addMain_ok (cfg : Config) {x : Ctx} (h : Inv x.st) {p : Peer} (hp : p ∈ x.st.peers) (req params : Json)
    (path : Bytes) (fetchOnly : Bool) (tns : Nat) (hnew : ¬ (lookupIndex x.st.index path).isSome = true) :
    Ok x (addMain cfg x p req params path fetchOnly tns).1 := by
  unfold addMain
  dsimp only
  split
  · exact Ok.refl h
  · next fg sg cg _ =>
    obtain ⟨a1, a2, a3, a4, a5, a6, a7⟩ := findFetchersForElement_spec cfg h
      { path := path, owner := p.conn, value := params.getItem (k "value"),
        fetchOnly := fetchOnly,
        timeoutNs := tns, fetchGroups := fg, setGroups := sg, callGroups := cg,
        fetchers := List.replicate cfg.initFetchTable none }
    split
    · -- refused by the table
      have n1 := notifyFetchers_ok a1.inv (findFetchersForElement cfg x
        { path := path, owner := p.conn, value := params.getItem (k "value"),
          fetchOnly := fetchOnly,
          timeoutNs := tns, fetchGroups := fg, setGroups := sg, callGroups := cg,
          fetchers := List.replicate cfg.initFetchTable none }).2 "remove"
      exact (a1.trans n1).trans (Ok.of_out_eq (by simpa using n1.inv) rfl rfl)
    · refine a1.trans (Ok.of_out_eq ?_ (conns_updatePeer (fun _ => rfl)) rfl)
      have hnone : lookupIndex x.st.index path = none := by
        cases hl : lookupIndex x.st.index path with
        | none => rfl
        | some o => rw [hl] at hnew; simp at hnew
      have := a1.inv.addElement (c := p.conn) (by rw [a2]; exact mem_conns.2 ⟨p, hp, rfl⟩)
        (findFetchersForElement cfg x _).2 (by rw [a6]) (by rw [a2, a5]; exact hnone)
        (by
          intro fk hfk
          rcases a7 fk hfk with h' | h'
          · simp at h'
          · rw [a2]; exact h')
      rw [a5] at this
      exact this

theorem addElement_ok (cfg : Config) {x : Ctx} (h : Inv x.st) {p : Peer} (hp : p ∈ x.st.peers) (req : Json) :
    Ok x (addElement cfg x p req).1 := by
  unfold addElement
  repeat' split
  all_goals first | exact Ok.refl h | (apply addMain_ok cfg h hp <;> assumption)

/-- the part of set_or_call after the checks: alloc_routing_request … send -/
def routeMain (cfg : Config) (x : Ctx) (p : Peer) (req : Json) (params : Json) (path : Bytes) (isState : Bool)
    (e : Element) (originId : Option Json) (value : Option Json) : Ctx × Option Json :=
  let rid := routedId originId x.st.uuid p.addrTok
  let x := { x with st := { x.st with uuid := (x.st.uuid + 1) % 4294967296 } }
  if isState && value.isNone then
    (x, errorFromRequest req INVALID_PARAMS "reason" (k "no value found"))
  else
    match getTimeout cfg (params.getItem (k "timeout")) e.timeoutNs with
    | .err reason => (x, errorFromRequest req INVALID_PARAMS "reason" (k reason))
    | .ns tns =>
      let t := x.st.nextTimer
      let x := { x with st := { x.st with nextTimer := t + 1 } }
      if x.routeFull then
        ({ emit x (.timerDestroy t) with routeFull := false },
         errorFromRequest req INTERNAL_ERROR "reason" (k "routing table full"))
      else
        let r : Route := { rid := rid, requester := p.conn, owner := e.owner, originId := originId, timer := t }
        let st := { x.st with peers := updatePeer x.st.peers e.owner (fun q => { q with routes := q.routes ++ [r] }) }
        let x := emit { x with st := st } (.timerArm t tns)
        let (x, ok) := send x e.owner (routedMessage rid path isState value)
        if ok then (x, none)
        else
          let x := emit { x with st := { x.st with peers := removeRoute x.st.peers e.owner rid } } (.timerDestroy t)
          (x, errorFromRequest req INTERNAL_ERROR "reason" (k "could not send routing information"))

theorem conns_removeRoute (ps : List Peer) (o : Nat) (rid : Bytes) : conns (removeRoute ps o rid) = conns ps := by
  unfold removeRoute
  exact conns_updatePeer (fun _ => rfl)

theorem route_tail_ok {x1 : Ctx} (h2 : Inv x1.st) {o : Nat} (ho : o ∈ conns x1.st.peers) (t tns : Nat)
    (msg : Json) (rid : Bytes) :
    Ok x1 (send (emit x1 (.timerArm t tns)) o msg).1 ∧
    Ok x1 (emit { (send (emit x1 (.timerArm t tns)) o msg).1 with
      st := { (send (emit x1 (.timerArm t tns)) o msg).1.st with
        peers := removeRoute (send (emit x1 (.timerArm t tns)) o msg).1.st.peers o rid } } (.timerDestroy t)) := by
  have e1 : Ok x1 (emit x1 (.timerArm t tns)) := Ok.emit h2 _ trivial
  have e2 : Ok (emit x1 (.timerArm t tns)) (send (emit x1 (.timerArm t tns)) o msg).1 :=
    Ok.send (x := emit x1 (.timerArm t tns)) h2 ho msg
  refine ⟨e1.trans e2, (e1.trans e2).trans ?_⟩
  have h3 : Inv { (send (emit x1 (.timerArm t tns)) o msg).1.st with
        peers := removeRoute (send (emit x1 (.timerArm t tns)) o msg).1.st.peers o rid } :=
    (e1.trans e2).inv.removeRoute o rid
  refine Ok.trans (y := { (send (emit x1 (.timerArm t tns)) o msg).1 with
      st := { (send (emit x1 (.timerArm t tns)) o msg).1.st with
        peers := removeRoute (send (emit x1 (.timerArm t tns)) o msg).1.st.peers o rid } })
    (Ok.of_out_eq h3 (conns_removeRoute _ _ _) rfl) (Ok.emit h3 _ trivial)

theorem routeMain_ok (cfg : Config) {x : Ctx} (h : Inv x.st) {p : Peer} (hp : p ∈ x.st.peers) (req params : Json)
    (path : Bytes) (isState : Bool) {e : Element} (he : e.owner ∈ conns x.st.peers) (originId value : Option Json) :
    Ok x (routeMain cfg x p req params path isState e originId value).1 := by
  unfold routeMain
  dsimp only
  have h0 : Inv { x.st with uuid := (x.st.uuid + 1) % 4294967296 } := h.frame rfl rfl (Nat.le_refl _)
  split
  · exact Ok.of_out_eq h0 rfl rfl
  · split
    · exact Ok.of_out_eq h0 rfl rfl
    · next tns _ =>
      have h1 : Inv { x.st with uuid := (x.st.uuid + 1) % 4294967296, nextTimer := x.st.nextTimer + 1 } :=
        h.frame rfl rfl (Nat.le_succ _)
      split
      · exact Ok.trans (y := { x with st := _ }) (Ok.of_out_eq h1 rfl rfl)
          (Ok.trans (Ok.emit h1 (.timerDestroy x.st.nextTimer) trivial) (Ok.of_out_eq h1 rfl rfl))
      · have h2 := h1.addRoute e.owner
          { rid := routedId originId x.st.uuid p.addrTok, requester := p.conn, owner := e.owner,
            originId := originId, timer := x.st.nextTimer } rfl (mem_conns.2 ⟨p, hp, rfl⟩) (Nat.lt_succ_self _)
        have hc2 : ∀ (ps : List Peer) (r : Route), conns (updatePeer ps e.owner (fun q => { q with routes := q.routes ++ [r] })) = conns ps :=
          fun ps r => conns_updatePeer (fun _ => rfl)
        have hx1 := route_tail_ok (x1 := { x with st := _ }) h2 (by rw [hc2]; exact he) x.st.nextTimer tns
            (routedMessage (routedId originId x.st.uuid p.addrTok) path isState value) (routedId originId x.st.uuid p.addrTok)
        split
        · exact Ok.trans (y := { x with st := _ }) (Ok.of_out_eq h2 (hc2 _ _) rfl) hx1.1
        · exact Ok.trans (y := { x with st := _ }) (Ok.of_out_eq h2 (hc2 _ _) rfl) hx1.2

theorem setOrCall_ok (cfg : Config) {x : Ctx} (h : Inv x.st) {p : Peer} (hp : p ∈ x.st.peers) (req : Json)
    (isState : Bool) : Ok x (setOrCall cfg x p req isState).1 := by
  unfold setOrCall
  split
  · exact Ok.refl h
  · split
    · exact Ok.refl h
    · next e he =>
      have heo : e.owner ∈ conns x.st.peers := by
        obtain ⟨q, hq, hqe, _⟩ := findElement_mem he
        exact mem_conns.2 ⟨q, hq, (h.owner q hq e hqe).symm⟩
      split
      · exact Ok.refl h
      · split
        · exact Ok.refl h
        · split
          all_goals
            split
            · exact Ok.refl h
            · dsimp only
              split
              all_goals first | exact Ok.refl h | exact routeMain_ok cfg h hp req _ _ isState heo _ _

theorem routingResponse_ok {x : Ctx} (h : Inv x.st) {p : Peer} (hp : p ∈ x.st.peers) (msg payload : Json)
    (typ : String) : Ok x (routingResponse x p msg payload typ).1 := by
  unfold routingResponse
  split
  · next rid _ =>
    split
    · exact Ok.refl h
    · next r hr =>
      have hrm : r ∈ p.routes := List.mem_of_find?_eq_some hr
      have hreq := (h.routes p hp r hrm).2.1
      have h1 : Inv { x.st with peers := removeRoute x.st.peers p.conn rid } := h.removeRoute _ _
      have o1 : Ok x (emit { x with st := { x.st with peers := removeRoute x.st.peers p.conn rid } } (.timerDestroy r.timer)) :=
        Ok.trans (y := { x with st := _ }) (Ok.of_out_eq h1 (conns_removeRoute _ _ _) rfl)
          (Ok.emit h1 _ trivial)
      dsimp only
      split
      · exact o1
      · split
        · exact o1.trans (Ok.send' o1.inv (by rw [o1.2.1]; exact hreq) _)
        · exact o1
  · exact Ok.refl h

theorem timeoutFired_ok {x : Ctx} (h : Inv x.st) (t : Nat) : Ok x (timeoutFired x t) := by
  unfold timeoutFired
  split
  · exact Ok.refl h
  · next r hr =>
    have hrm := List.mem_of_find?_eq_some hr
    obtain ⟨q, hq, hrq⟩ := List.mem_flatMap.1 hrm
    have hreq := (h.routes q hq r hrq).2.1
    have h1 : Inv { x.st with peers := removeRoute x.st.peers r.owner r.rid } := h.removeRoute _ _
    have o1 : Ok x ({ x with st := { x.st with peers := removeRoute x.st.peers r.owner r.rid } } : Ctx) :=
      Ok.of_out_eq h1 (conns_removeRoute _ _ _) rfl
    dsimp only
    split
    · exact o1.trans (Ok.emit h1 _ trivial)
    · split
      · next resp _ =>
        have o2 := o1.trans (Ok.send' o1.inv (by rw [o1.2.1]; exact hreq) resp)
        exact o2.trans (Ok.emit o2.inv _ trivial)
      · exact o1.trans (Ok.emit h1 _ trivial)

theorem foldl_ok' {α : Type} (Q : Ctx → Prop) (f : Ctx → α → Ctx) (l : List α) (x : Ctx) (h : Inv x.st) (hq : Q x)
    (hf : ∀ y a, a ∈ l → Inv y.st → Q y → Ok y (f y a) ∧ Q (f y a)) : Ok x (l.foldl f x) ∧ Q (l.foldl f x) := by
  induction l generalizing x with
  | nil => exact ⟨Ok.refl h, hq⟩
  | cons a l ih =>
    have h1 := hf x a List.mem_cons_self h hq
    have h2 := ih _ h1.1.inv h1.2 (fun y b hb hy => hf y b (List.mem_cons_of_mem _ hb) hy)
    exact ⟨h1.1.trans h2.1, h2.2⟩

/-- one iteration of add_fetch_to_states_in_peer -/
def offerStep (cfg : Config) (fp : Peer) (f : Fetch) (owner : Peer) (x : Ctx) (e0 : Element) : Ctx :=
  let e := match (findPeer x.st.peers owner.conn).bind (·.elements.find? (·.path == e0.path)) with
    | some e => e | none => e0
  let (x, e') := offerElement cfg x e fp f
  { x with st := { x.st with peers := updatePeer x.st.peers owner.conn (fun q =>
      { q with elements := q.elements.map (fun el => if el.path == e'.path then e' else el) }) } }

theorem offerStep_ok (cfg : Config) (fp : Peer) (f : Fetch) (owner : Peer) {x : Ctx} (h : Inv x.st) (e0 : Element)
    (hq : fp.conn ∈ conns x.st.peers ∧ (⟨fp.conn, f.uid⟩ : FetchKey) ∈ fetchKeys x.st.peers) :
    Ok x (offerStep cfg fp f owner x e0) ∧
    (fp.conn ∈ conns (offerStep cfg fp f owner x e0).st.peers ∧
      (⟨fp.conn, f.uid⟩ : FetchKey) ∈ fetchKeys (offerStep cfg fp f owner x e0).st.peers) := by
  unfold offerStep
  dsimp only
  generalize he : (match (findPeer x.st.peers owner.conn).bind (·.elements.find? (·.path == e0.path)) with
    | some e => e | none => e0) = e
  obtain ⟨b1, b2, b3, b4, b5, b6, b7⟩ := offerElement_spec cfg h e fp f hq.1
  have hcu : ∀ (ps : List Peer) (hfun : Element → Element),
      conns (updatePeer ps owner.conn (fun q => { q with elements := q.elements.map hfun })) = conns ps :=
    fun ps hfun => conns_updatePeer (fun _ => rfl)
  have hfk : ∀ (ps : List Peer) (hfun : Element → Element),
      fetchKeys (updatePeer ps owner.conn (fun q => { q with elements := q.elements.map hfun })) = fetchKeys ps := by
    intro ps hfun
    rw [updatePeer_eq_map]
    apply fetchKeys_map
    · intro q; split <;> rfl
    · intro q _; split <;> rfl
  have hI' : Inv { (offerElement cfg x e fp f).1.st with
      peers := updatePeer (offerElement cfg x e fp f).1.st.peers owner.conn (fun q =>
        { q with elements := q.elements.map (fun el =>
          if el.path == (offerElement cfg x e fp f).2.path then (offerElement cfg x e fp f).2 else el) }) } := by
    apply b1.inv.updatePeer_elements
    rw [b2]
    intro q hqm hqc el hel
    split
    · next hpe =>
      have hpe : el.path = e.path := by rw [← b5]; simpa using hpe
      -- the element read back is an element of q
      have hfound : e ∈ q.elements := by
        have hfq : findPeer x.st.peers owner.conn = some q := by
          rw [← hqc]; exact findPeer_of_mem h.nodup hqm
        rw [hfq] at he
        simp only [Option.bind_some] at he
        cases hfind : q.elements.find? (·.path == e0.path) with
        | some e1 =>
          rw [hfind] at he
          simp only at he
          subst he
          exact List.mem_of_find?_eq_some hfind
        | none =>
          rw [hfind] at he
          simp only at he
          subst he
          have := List.find?_eq_none.1 hfind el hel
          simp [hpe] at this
      refine ⟨by rw [b5, hpe], ?_, ?_⟩
      · rw [b6, h.owner q hqm e hfound, h.owner q hqm el hel]
      · intro fk hfk'
        right
        rcases b7 fk hfk' with h' | h'
        · exact h.fetchers q hqm e hfound fk h'
        · rw [h']; exact hq.2
    · exact ⟨rfl, rfl, fun fk hfk' => Or.inl hfk'⟩
  refine ⟨b1.trans (Ok.of_out_eq hI' (hcu _ _) rfl), ?_, ?_⟩
  · show fp.conn ∈ conns (updatePeer _ _ _)
    rw [hcu, b2]; exact hq.1
  · show _ ∈ fetchKeys (updatePeer _ _ _)
    rw [hfk, b2]; exact hq.2

theorem offerAllElements_ok (cfg : Config) {x : Ctx} (h : Inv x.st) (fp : Peer) (f : Fetch)
    (hq : fp.conn ∈ conns x.st.peers ∧ (⟨fp.conn, f.uid⟩ : FetchKey) ∈ fetchKeys x.st.peers) :
    Ok x (offerAllElements cfg x fp f) := by
  have : offerAllElements cfg x fp f =
      x.st.peers.foldl (fun x owner => owner.elements.foldl (offerStep cfg fp f owner) x) x := rfl
  rw [this]
  refine (foldl_ok' (fun y => fp.conn ∈ conns y.st.peers ∧ (⟨fp.conn, f.uid⟩ : FetchKey) ∈ fetchKeys y.st.peers)
    _ _ x h hq ?_).1
  intro y owner _ hy hqy
  exact foldl_ok' (fun y => fp.conn ∈ conns y.st.peers ∧ (⟨fp.conn, f.uid⟩ : FetchKey) ∈ fetchKeys y.st.peers)
    _ _ y hy hqy (fun z e0 _ hz hqz => offerStep_ok cfg fp f owner hz e0 hqz)

theorem fp_conn (ps : List Peer) (p : Peer) :
    (match findPeer ps p.conn with | some q => q | none => p).conn = p.conn := by
  split
  · next q hq => exact (findPeer_some hq).2
  · rfl

theorem fetchReq_ok (cfg : Config) {x : Ctx} (h : Inv x.st) {p : Peer} (hp : p ∈ x.st.peers) (req : Json) :
    Ok x (fetchReq cfg x p req).1 := by
  unfold fetchReq
  split
  · exact Ok.refl h
  · next params fid _ =>
    split
    · exact Ok.refl h
    · split
      · exact Ok.refl h
      · next rule _ =>
        dsimp only
        have h1 := h.addFetch p.conn (⟨x.st.nextUid, fid, rule⟩ : Fetch) (x.st.nextUid + 1)
        have hc1 : conns (updatePeer x.st.peers p.conn (fun q => { q with fetches := q.fetches ++ [(⟨x.st.nextUid, fid, rule⟩ : Fetch)] })) = conns x.st.peers :=
          conns_updatePeer (fun _ => rfl)
        refine Ok.trans (y := { x with st := _ }) (Ok.of_out_eq h1 hc1 rfl) (offerAllElements_ok cfg h1 _ _ ?_)
        have hrest : p.conn ∈ conns (updatePeer x.st.peers p.conn (fun q => { q with fetches := q.fetches ++ [(⟨x.st.nextUid, fid, rule⟩ : Fetch)] })) ∧
            (⟨p.conn, x.st.nextUid⟩ : FetchKey) ∈ fetchKeys (updatePeer x.st.peers p.conn (fun q => { q with fetches := q.fetches ++ [(⟨x.st.nextUid, fid, rule⟩ : Fetch)] })) := by
          refine ⟨by rw [hc1]; exact mem_conns.2 ⟨p, hp, rfl⟩, ?_⟩
          rw [mem_fetchKeys]
          refine ⟨_, mem_updatePeer.2 ⟨p, hp, rfl⟩, ?_, (⟨x.st.nextUid, fid, rule⟩ : Fetch), ?_, rfl⟩
          · simp
          · simp
        split
        · next q hq =>
          have hqc := (findPeer_some hq).2
          rw [hqc]; exact hrest
        · exact hrest

theorem unfetchReq_ok {x : Ctx} (h : Inv x.st) (p : Peer) (req : Json) : Ok x (unfetchReq x p req).1 := by
  unfold unfetchReq
  split
  · exact Ok.refl h
  · split
    · exact Ok.refl h
    · refine Ok.of_out_eq (h.dropFetch _) ?_ rfl
      show conns (dropFetch _ _) = _
      unfold dropFetch mapElements
      rw [conns_updatePeer (f := fun q => { q with fetches := q.fetches.filter _ }) (fun _ => rfl)]
      exact conns_map (fun _ => rfl)

theorem getReq_ok (cfg : Config) {x : Ctx} (h : Inv x.st) (p : Peer) (req : Json) : Ok x (getReq cfg x p req).1 := by
  unfold getReq
  split
  · exact Ok.refl h
  · split
    · exact Ok.refl h
    · exact Ok.refl h

theorem configReq_ok {x : Ctx} (h : Inv x.st) (p : Peer) (req : Json) : Ok x (configReq x p req).1 := by
  unfold configReq
  split
  · exact Ok.refl h
  · split
    · exact Ok.refl h
    · next n _ =>
      refine Ok.of_out_eq ?_ (conns_updatePeer (fun _ => rfl)) rfl
      exact h.updatePeer_frame p.conn (fun q => { q with name := some n }) rfl rfl (Nat.le_refl _)
        (fun _ => rfl) (fun _ => rfl) (fun _ => rfl) (fun _ => rfl)
    · exact Ok.refl h

theorem authenticateReq_ok (cfg : Config) {x : Ctx} (h : Inv x.st) (p : Peer) (req : Json) :
    Ok x (authenticateReq cfg x p req).1 := by
  unfold authenticateReq
  split
  · exact Ok.refl h
  · next u pw _ =>
    split
    · exact Ok.refl h
    · split
      · exact Ok.refl h
      · next auth _ =>
        refine Ok.of_out_eq ?_ (conns_updatePeer (fun _ => rfl)) rfl
        exact h.updatePeer_frame p.conn _ rfl rfl (Nat.le_refl _)
          (fun _ => rfl) (fun _ => rfl) (fun _ => rfl) (fun _ => rfl)

theorem passwdReq_ok {x : Ctx} (h : Inv x.st) (p : Peer) (req : Json) : Ok x (passwdReq x p req).1 := by
  unfold passwdReq
  split
  · exact Ok.refl h
  · split
    · exact Ok.refl h
    · split
      · exact Ok.refl h
      · dsimp only
        repeat' split
        all_goals first | exact Ok.refl h | exact Ok.of_out_eq (h.frame rfl rfl (Nat.le_refl _)) rfl rfl

theorem ite_ind {α : Type} {P : α → Prop} (c : Bool) {a b : α} (ha : P a) (hb : P b) :
    P (if c then a else b) := by
  cases c
  · simpa using hb
  · simpa using ha

theorem handleMethod_ok (cfg : Config) {x : Ctx} (h : Inv x.st) {p : Peer} (hp : p ∈ x.st.peers) (req : Json)
    (method : Bytes) : Ok x (handleMethod cfg x p req method).1 := by
  unfold handleMethod
  apply ite_ind (P := fun (r : Ctx × Option Json) => Ok x r.1); exact changeState_ok h hp req
  apply ite_ind (P := fun (r : Ctx × Option Json) => Ok x r.1); exact setOrCall_ok cfg h hp req true
  apply ite_ind (P := fun (r : Ctx × Option Json) => Ok x r.1); exact setOrCall_ok cfg h hp req false
  apply ite_ind (P := fun (r : Ctx × Option Json) => Ok x r.1); exact addElement_ok cfg h hp req
  apply ite_ind (P := fun (r : Ctx × Option Json) => Ok x r.1); exact removeElementReq_ok h hp req
  apply ite_ind (P := fun (r : Ctx × Option Json) => Ok x r.1); exact fetchReq_ok cfg h hp req
  apply ite_ind (P := fun (r : Ctx × Option Json) => Ok x r.1); exact unfetchReq_ok h p req
  apply ite_ind (P := fun (r : Ctx × Option Json) => Ok x r.1); exact getReq_ok cfg h p req
  apply ite_ind (P := fun (r : Ctx × Option Json) => Ok x r.1); exact configReq_ok h p req
  apply ite_ind (P := fun (r : Ctx × Option Json) => Ok x r.1); exact Ok.refl h
  apply ite_ind (P := fun (r : Ctx × Option Json) => Ok x r.1); exact authenticateReq_ok cfg h p req
  apply ite_ind (P := fun (r : Ctx × Option Json) => Ok x r.1); exact passwdReq_ok h p req
  exact Ok.refl h

theorem sendResponse_ok {x : Ctx} (h : Inv x.st) {c : Nat} (hc : c ∈ conns x.st.peers) (resp : Option Json) :
    Ok x (sendResponse x c resp).1 := by
  unfold sendResponse
  split
  · exact Ok.refl h
  · exact Ok.send h hc _

theorem parseJsonRpc_ok (cfg : Config) {x : Ctx} (h : Inv x.st) (c : Nat) (req : Json) :
    Ok x (parseJsonRpc cfg x c req).1 := by
  unfold parseJsonRpc
  split
  · exact Ok.refl h
  · next p hp =>
    have hpm := (findPeer_some hp).1
    have hpc := (findPeer_some hp).2
    have hc : c ∈ conns x.st.peers := mem_conns.2 ⟨p, hpm, hpc⟩
    split
    · next m _ =>
      have h1 := handleMethod_ok cfg h hpm req m
      exact h1.trans (sendResponse_ok h1.inv (by rw [h1.2.1]; exact hc) _)
    · exact sendResponse_ok h hc _
    · split
      · exact routingResponse_ok h hpm _ _ _
      · split
        · exact routingResponse_ok h hpm _ _ _
        · exact sendResponse_ok h hc _

theorem parseJsonArray_ok (cfg : Config) {x : Ctx} (h : Inv x.st) (c : Nat) (l : List Json) :
    Ok x (parseJsonArray cfg x c l).1 := by
  induction l generalizing x with
  | nil => exact Ok.refl h
  | cons j rest ih =>
    unfold parseJsonArray
    split
    · exact Ok.refl h
    · next l' rest' heq =>
      have h1 := parseJsonRpc_ok cfg h c (.obj l')
      cases heq
      dsimp only
      split
      · exact h1.trans (ih h1.inv)
      · exact h1
    · exact Ok.refl h

theorem parseMessage_ok (cfg : Config) {x : Ctx} (h : Inv x.st) (c : Nat) (msg : Option Json) :
    Ok x (parseMessage cfg x c msg).1 := by
  unfold parseMessage
  split
  · exact parseJsonArray_ok cfg h c _
  · exact parseJsonRpc_ok cfg h c _
  · exact Ok.refl h

end Cjet.Daemon.C05
