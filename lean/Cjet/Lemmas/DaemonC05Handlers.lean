/-
  Cjet.Lemmas.DaemonC05Handlers — `Ok` for every request handler, for `parseMessage`, and for
  the timer handler.
-/
import Cjet.Lemmas.DaemonC05Struct

namespace Cjet.Daemon.C05

open Cjet Cjet.Json Cjet.Daemon

theorem changeState_ok {x : Ctx} (h : Inv x.st) {p : Peer} (hp : p ∈ x.st.peers) (req : Json) :
    Ok x (changeState x p req).1 := by
  unfold changeState
  split
  · exact Ok.refl h
  · next params path _ =>
    split
    · exact Ok.refl h
    · next v _ =>
      split
      · exact Ok.refl h
      · next e he =>
        split
        · exact Ok.refl h
        · next hown =>
          split
          · exact Ok.refl h
          · obtain ⟨q, hq, heq, hpath⟩ := findElement_mem he
            have hown : e.owner = p.conn := by simpa using hown
            have hI' : Inv { x.st with peers := updatePeer x.st.peers p.conn (fun q =>
                { q with elements := q.elements.map (fun el => if el.path == path then { e with value := some v } else el) }) } := by
              apply h.updatePeer_elements
              intro q' hq' hq'c el hel
              split
              · next hc =>
                have hc : el.path = path := by simpa using hc
                refine ⟨by simp [hpath, hc], ?_, ?_⟩
                · show e.owner = el.owner
                  rw [hown, h.owner q' hq' el hel, hq'c]
                · intro fk hfk
                  exact Or.inr (h.fetchers q hq e heq fk hfk)
              · exact ⟨rfl, rfl, fun fk hfk => Or.inl hfk⟩
            refine Ok.trans (y := { x with st := _ }) (Ok.of_out_eq hI' ?_ rfl) (notifyFetchers_ok hI' _ _)
            exact conns_updatePeer (fun _ => rfl)

theorem removeElement_ok {x : Ctx} (h : Inv x.st) {p : Peer} (hp : p ∈ x.st.peers) {e : Element}
    (he : e ∈ p.elements) : Ok x (removeElement x e) := by
  unfold removeElement
  have h1 := notifyFetchers_ok h e "remove"
  refine h1.trans (Ok.of_out_eq ?_ ?_ rfl)
  · have := (h1.inv).removeElement (p := p) (by simpa using hp) he
    simpa using this
  · exact conns_updatePeer (fun _ => rfl)

theorem removeElementReq_ok {x : Ctx} (h : Inv x.st) {p : Peer} (hp : p ∈ x.st.peers) (req : Json) :
    Ok x (removeElementReq x p req).1 := by
  unfold removeElementReq
  split
  · exact Ok.refl h
  · split
    · next e he => exact removeElement_ok h hp (List.mem_of_find?_eq_some he)
    · exact Ok.refl h

/-- the part of add_element_to_peer after the parameter checks -/
def addMain (cfg : Config) (x : Ctx) (p : Peer) (req : Json) (params : Json) (path : Bytes) (fetchOnly : Bool)
    (tns : Nat) : Ctx × Option Json :=
  let value := params.getItem (k "value")
  match fillAccess cfg value.isSome (params.getItem (k "access")) with
  | .error reason => (x, errorFromRequest req INVALID_PARAMS "reason" (k reason))
  | .ok (fg, sg, cg) =>
    let e : Element := { path := path, owner := p.conn, value := value, fetchOnly := fetchOnly,
                         timeoutNs := tns, fetchGroups := fg, setGroups := sg, callGroups := cg,
                         fetchers := List.replicate cfg.initFetchTable none }
    let (x, e) := findFetchersForElement cfg x e
    if x.indexFull then
      let x := notifyFetchers x e "remove"
      ({ x with indexFull := false },
       errorFromRequest req INTERNAL_ERROR "reason" (k "element table full"))
    else
      let st := { x.st with
        index := x.st.index ++ [(path, p.conn)],
        peers := updatePeer x.st.peers p.conn (fun q => { q with elements := q.elements ++ [e] }) }
      ({ x with st := st }, successFromRequest req)

theorem addMain_ok (cfg : Config) {x : Ctx} (h : Inv x.st) {p : Peer} (hp : p ∈ x.st.peers) (req params : Json)
    (path : Bytes) (fetchOnly : Bool) (tns : Nat) (hnew : ¬ (lookupIndex x.st.index path).isSome = true) :
    Ok x (addMain cfg x p req params path fetchOnly tns).1 := by
  unfold addMain
  dsimp only
  split
  · exact Ok.refl h
  · next fg sg cg _ =>
    obtain ⟨a1, a2, a3, a4, a5, a6, a7⟩ := findFetchersForElement_spec cfg h
      { path := path, owner := p.conn, value := params.getItem (k "value"),
        fetchOnly := fetchOnly,
        timeoutNs := tns, fetchGroups := fg, setGroups := sg, callGroups := cg,
        fetchers := List.replicate cfg.initFetchTable none }
    split
    · -- refused by the table
      have n1 := notifyFetchers_ok a1.inv (findFetchersForElement cfg x
        { path := path, owner := p.conn, value := params.getItem (k "value"),
          fetchOnly := fetchOnly,
          timeoutNs := tns, fetchGroups := fg, setGroups := sg, callGroups := cg,
          fetchers := List.replicate cfg.initFetchTable none }).2 "remove"
      exact (a1.trans n1).trans (Ok.of_out_eq (by simpa using n1.inv) rfl rfl)
    · refine a1.trans (Ok.of_out_eq ?_ (conns_updatePeer (fun _ => rfl)) rfl)
      have hnone : lookupIndex x.st.index path = none := by
        cases hl : lookupIndex x.st.index path with
        | none => rfl
        | some o => rw [hl] at hnew; simp at hnew
      have := a1.inv.addElement (c := p.conn) (by rw [a2]; exact mem_conns.2 ⟨p, hp, rfl⟩)
        (findFetchersForElement cfg x _).2 (by rw [a6]) (by rw [a2, a5]; exact hnone)
        (by
          intro fk hfk
          rcases a7 fk hfk with h' | h'
          · simp at h'
          · rw [a2]; exact h')
      rw [a5] at this
      exact this

theorem addElement_ok (cfg : Config) {x : Ctx} (h : Inv x.st) {p : Peer} (hp : p ∈ x.st.peers) (req : Json) :
    Ok x (addElement cfg x p req).1 := by
  unfold addElement
  repeat' split
  all_goals first | exact Ok.refl h | (apply addMain_ok cfg h hp <;> assumption)

/-- the part of set_or_call after the checks: alloc_routing_request … send -/
def routeMain (cfg : Config) (x : Ctx) (p : Peer) (req : Json) (params : Json) (path : Bytes) (isState : Bool)
    (e : Element) (originId : Option Json) (value : Option Json) : Ctx × Option Json :=
  let rid := routedId originId x.st.uuid p.addrTok
  let x := { x with st := { x.st with uuid := (x.st.uuid + 1) % 4294967296 } }
  if isState && value.isNone then
    (x, errorFromRequest req INVALID_PARAMS "reason" (k "no value found"))
  else
    match getTimeout cfg (params.getItem (k "timeout")) e.timeoutNs with
    | .err reason => (x, errorFromRequest req INVALID_PARAMS "reason" (k reason))
    | .ns tns =>
      let t := x.st.nextTimer
      let x := { x with st := { x.st with nextTimer := t + 1 } }
      if x.routeFull then
        ({ emit x (.timerDestroy t) with routeFull := false },
         errorFromRequest req INTERNAL_ERROR "reason" (k "routing table full"))
      else
        let r : Route := { rid := rid, requester := p.conn, owner := e.owner, originId := originId, timer := t }
        let st := { x.st with peers := updatePeer x.st.peers e.owner (fun q => { q with routes := q.routes ++ [r] }) }
        let x := emit { x with st := st } (.timerArm t tns)
        let (x, ok) := send x e.owner (routedMessage rid path isState value)
        if ok then (x, none)
        else
          let x := emit { x with st := { x.st with peers := removeRoute x.st.peers e.owner rid } } (.timerDestroy t)
          (x, errorFromRequest req INTERNAL_ERROR "reason" (k "could not send routing information"))

theorem conns_removeRoute (ps : List Peer) (o : Nat) (rid : Bytes) : conns (removeRoute ps o rid) = conns ps := by
  unfold removeRoute
  exact conns_updatePeer (fun _ => rfl)

theorem route_tail_ok {x1 : Ctx} (h2 : Inv x1.st) {o : Nat} (ho : o ∈ conns x1.st.peers) (t tns : Nat)
    (msg : Json) (rid : Bytes) :
    Ok x1 (send (emit x1 (.timerArm t tns)) o msg).1 ∧
    Ok x1 (emit { (send (emit x1 (.timerArm t tns)) o msg).1 with
      st := { (send (emit x1 (.timerArm t tns)) o msg).1.st with
        peers := removeRoute (send (emit x1 (.timerArm t tns)) o msg).1.st.peers o rid } } (.timerDestroy t)) := by
  have e1 : Ok x1 (emit x1 (.timerArm t tns)) := Ok.emit h2 _ (by intro c j b hh; cases hh)
  have e2 : Ok (emit x1 (.timerArm t tns)) (send (emit x1 (.timerArm t tns)) o msg).1 :=
    Ok.send (x := emit x1 (.timerArm t tns)) h2 ho msg
  refine ⟨e1.trans e2, (e1.trans e2).trans ?_⟩
  have h3 : Inv { (send (emit x1 (.timerArm t tns)) o msg).1.st with
        peers := removeRoute (send (emit x1 (.timerArm t tns)) o msg).1.st.peers o rid } :=
    (e1.trans e2).inv.removeRoute o rid
  refine Ok.trans (y := { (send (emit x1 (.timerArm t tns)) o msg).1 with
      st := { (send (emit x1 (.timerArm t tns)) o msg).1.st with
        peers := removeRoute (send (emit x1 (.timerArm t tns)) o msg).1.st.peers o rid } })
    (Ok.of_out_eq h3 (conns_removeRoute _ _ _) rfl) (Ok.emit h3 _ (by intro c j b hh; cases hh))

theorem routeMain_ok (cfg : Config) {x : Ctx} (h : Inv x.st) {p : Peer} (hp : p ∈ x.st.peers) (req params : Json)
    (path : Bytes) (isState : Bool) {e : Element} (he : e.owner ∈ conns x.st.peers) (originId value : Option Json) :
    Ok x (routeMain cfg x p req params path isState e originId value).1 := by
  unfold routeMain
  dsimp only
  have h0 : Inv { x.st with uuid := (x.st.uuid + 1) % 4294967296 } := h.frame rfl rfl (Nat.le_refl _)
  split
  · exact Ok.of_out_eq h0 rfl rfl
  · split
    · exact Ok.of_out_eq h0 rfl rfl
    · next tns _ =>
      have h1 : Inv { x.st with uuid := (x.st.uuid + 1) % 4294967296, nextTimer := x.st.nextTimer + 1 } :=
        h.frame rfl rfl (Nat.le_succ _)
      split
      · refine ⟨h1, rfl, [Obs.timerDestroy x.st.nextTimer], rfl, ?_⟩
        intro c j b hm; simp at hm
      · have h2 := h1.addRoute e.owner
          { rid := routedId originId x.st.uuid p.addrTok, requester := p.conn, owner := e.owner,
            originId := originId, timer := x.st.nextTimer } rfl (mem_conns.2 ⟨p, hp, rfl⟩) (Nat.lt_succ_self _)
        have hc2 : ∀ (ps : List Peer) (r : Route), conns (updatePeer ps e.owner (fun q => { q with routes := q.routes ++ [r] })) = conns ps :=
          fun ps r => conns_updatePeer (fun _ => rfl)
        have hx1 := route_tail_ok (x1 := { x with st := _ }) h2 (by rw [hc2]; exact he) x.st.nextTimer tns
            (routedMessage (routedId originId x.st.uuid p.addrTok) path isState value) (routedId originId x.st.uuid p.addrTok)
        split
        · exact Ok.trans (y := { x with st := _ }) (Ok.of_out_eq h2 (hc2 _ _) rfl) hx1.1
        · exact Ok.trans (y := { x with st := _ }) (Ok.of_out_eq h2 (hc2 _ _) rfl) hx1.2

theorem setOrCall_ok (cfg : Config) {x : Ctx} (h : Inv x.st) {p : Peer} (hp : p ∈ x.st.peers) (req : Json)
    (isState : Bool) : Ok x (setOrCall cfg x p req isState).1 := by
  unfold setOrCall
  split
  · exact Ok.refl h
  · split
    · exact Ok.refl h
    · next e he =>
      have heo : e.owner ∈ conns x.st.peers := by
        obtain ⟨q, hq, hqe, _⟩ := findElement_mem he
        exact mem_conns.2 ⟨q, hq, (h.owner q hq e hqe).symm⟩
      split
      · exact Ok.refl h
      · split
        · exact Ok.refl h
        · split
          · exact Ok.refl h
          · dsimp only
            split
            all_goals first | exact Ok.refl h | exact routeMain_ok cfg h hp req _ _ isState heo _ _

end Cjet.Daemon.C05
