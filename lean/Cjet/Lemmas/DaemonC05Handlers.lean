/-
  Cjet.Lemmas.DaemonC05Handlers — `Ok` for every request handler, for `parseMessage`, and for
  the timer handler.
-/
import Cjet.Lemmas.DaemonC05Struct

namespace Cjet.Daemon.C05

open Cjet Cjet.Json Cjet.Daemon

theorem changeState_ok {x : Ctx} (h : Inv x.st) {p : Peer} (hp : p ∈ x.st.peers) (req : Json) :
    Ok x (changeState x p req).1 := by
  unfold changeState
  split
  · exact Ok.refl h
  · next params path _ =>
    split
    · exact Ok.refl h
    · next v _ =>
      split
      · exact Ok.refl h
      · next e he =>
        split
        · exact Ok.refl h
        · next hown =>
          split
          · exact Ok.refl h
          · obtain ⟨q, hq, heq, hpath⟩ := findElement_mem he
            have hown : e.owner = p.conn := by simpa using hown
            have hI' : Inv { x.st with peers := updatePeer x.st.peers p.conn (fun q =>
                { q with elements := q.elements.map (fun el => if el.path == path then { e with value := some v } else el) }) } := by
              apply h.updatePeer_elements
              intro q' hq' hq'c el hel
              split
              · next hc =>
                have hc : el.path = path := by simpa using hc
                refine ⟨by simp [hpath, hc], ?_, ?_⟩
                · show e.owner = el.owner
                  rw [hown, h.owner q' hq' el hel, hq'c]
                · intro fk hfk
                  exact Or.inr (h.fetchers q hq e heq fk hfk)
              · exact ⟨rfl, rfl, fun fk hfk => Or.inl hfk⟩
            refine Ok.trans (y := { x with st := _ }) (Ok.of_out_eq hI' ?_ rfl) (notifyFetchers_ok hI' _ _)
            exact conns_updatePeer (fun _ => rfl)

theorem removeElement_ok {x : Ctx} (h : Inv x.st) {p : Peer} (hp : p ∈ x.st.peers) {e : Element}
    (he : e ∈ p.elements) : Ok x (removeElement x e) := by
  unfold removeElement
  have h1 := notifyFetchers_ok h e "remove"
  refine h1.trans (Ok.of_out_eq ?_ ?_ rfl)
  · have := (h1.inv).removeElement (p := p) (by simpa using hp) he
    simpa using this
  · exact conns_updatePeer (fun _ => rfl)

theorem removeElementReq_ok {x : Ctx} (h : Inv x.st) {p : Peer} (hp : p ∈ x.st.peers) (req : Json) :
    Ok x (removeElementReq x p req).1 := by
  unfold removeElementReq
  split
  · exact Ok.refl h
  · split
    · next e he => exact removeElement_ok h hp (List.mem_of_find?_eq_some he)
    · exact Ok.refl h

theorem addElement_ok (cfg : Config) {x : Ctx} (h : Inv x.st) {p : Peer} (hp : p ∈ x.st.peers) (req : Json) :
    Ok x (addElement cfg x p req).1 := by
  unfold addElement
  repeat' split
  all_goals try exact Ok.refl h
  all_goals trace_state
  all_goals sorry

end Cjet.Daemon.C05
