import Cjet.Ws.Handshake
/-! Helper lemmas: the upgrade decision over a whole request. -/
namespace Cjet.Ws
open Cjet.Generated.Ws

theorem Hs.run_append (c : Conf) (t : Bytes) (h : Hs) (a b : List HsEvent) :
    Hs.run c t h (a ++ b) = ((Hs.run c t (Hs.run c t h a).1 b).1, (Hs.run c t h a).2 ++ (Hs.run c t (Hs.run c t h a).1 b).2) := by
  induction a generalizing h with
  | nil => simp [Hs.run]
  | cons e es ih => simp [Hs.run, ih, List.append_assoc]

theorem step_field (c : Conf) (t : Bytes) (h : Hs) (hp : h.phase = .headers) (hc : h.current = .unknown) (n : Bytes) :
    Hs.step c t h (.field n) = ({ h with current := hdrKind n }, []) := by
  simp only [Hs.step, hp, ne_eq, not_true_eq_false, if_false, hdrKind]
  split
  · rfl
  · split
    · rfl
    · split
      · rfl
      · split
        · rfl
        · cases h; simp_all

theorem run_hdr (c : Conf) (t : Bytes) (h : Hs) (hp : h.phase = .headers) (hc : h.current = .unknown)
    (x : Bytes × Bytes) (hx : hdrOk x) :
    Hs.run c t h [.line, .field x.1, .value x.2] = (applyHdr h x, []) := by
  simp only [Hs.run, List.append_nil]
  have h1 : Hs.step c t h .line = ({ h with lines := h.lines + 1 }, []) := by
    simp [Hs.step, hp]
  rw [h1]
  simp only [List.nil_append]
  rw [step_field c t { h with lines := h.lines + 1 } hp hc]
  simp only [List.nil_append]
  unfold hdrOk at hx
  unfold applyHdr
  cases hk : hdrKind x.1 <;> simp only [hk] at hx ⊢ <;> simp [Hs.step, hp, hx, hc]

theorem applyHdr_inv (h : Hs) (x : Bytes × Bytes) :
    (applyHdr h x).phase = h.phase ∧ (applyHdr h x).current = h.current ∧ (applyHdr h x).created = h.created ∧
    (applyHdr h x).createdLine = h.createdLine ∧ (applyHdr h x).lines = h.lines + 1 ∧ (applyHdr h x).status = h.status := by
  unfold applyHdr
  cases hdrKind x.1 <;> simp

theorem run_hdrs (c : Conf) (t : Bytes) (h : Hs) (hp : h.phase = .headers) (hc : h.current = .unknown)
    (hdrs : List (Bytes × Bytes)) (hall : ∀ x ∈ hdrs, hdrOk x) :
    Hs.run c t h (hdrEvents hdrs) = (hdrFold h hdrs, []) := by
  induction hdrs generalizing h with
  | nil => simp [hdrEvents, hdrFold, Hs.run]
  | cons x xs ih =>
    have hx := hall x (by simp)
    have hrest : ∀ y ∈ xs, hdrOk y := fun y hy => hall y (by simp [hy])
    have e : hdrEvents (x :: xs) = [.line, .field x.1, .value x.2] ++ hdrEvents xs := by
      simp [hdrEvents]
    obtain ⟨i1, i2, _, _, _, _⟩ := applyHdr_inv h x
    rw [e, Hs.run_append, run_hdr c t h hp hc x hx]
    simp only [List.nil_append]
    rw [ih (applyHdr h x) (by rw [i1, hp]) (by rw [i2, hc]) hrest]
    simp [hdrFold]

theorem hdrFold_inv (h : Hs) (hdrs : List (Bytes × Bytes)) :
    (hdrFold h hdrs).phase = h.phase ∧ (hdrFold h hdrs).current = h.current ∧ (hdrFold h hdrs).created = h.created ∧
    (hdrFold h hdrs).createdLine = h.createdLine ∧ (hdrFold h hdrs).lines = h.lines + hdrs.length := by
  induction hdrs generalizing h with
  | nil => simp [hdrFold]
  | cons x xs ih =>
    obtain ⟨a1, a2, a3, a4, a5, _⟩ := applyHdr_inv h x
    obtain ⟨b1, b2, b3, b4, b5⟩ := ih (applyHdr h x)
    simp only [hdrFold, List.foldl_cons, List.length_cons] at *
    refine ⟨by rw [b1, a1], by rw [b2, a2], by rw [b3, a3], by rw [b4, a4], by rw [b5, a5]; omega⟩


/-- **A valid upgrade is answered with 101 and the accept digest of the key.**  For every request for
    a target the handler is registered for, with any headers in any order and any number — provided
    every `Sec-WebSocket-Key` value has 24 bytes and every `Sec-WebSocket-Version` value is "13" —
    GET, HTTP/1.1 or later, `Upgrade`/`Connection: Upgrade` present (the parser's `upgrade` flag), and
    the sub-protocol list either absent or containing "jet": the only action is writing the 101
    response carrying `base64(sha1(key ++ GUID))` of the last key header, and the connection is upgraded. -/
theorem run_valid_request (c : Conf) (hok : c.sendOk = true) (target path : Bytes)
    (hpre : target.isPrefixOf path = true) (hdrs : List (Bytes × Bytes)) (hall : ∀ x ∈ hdrs, hdrOk x)
    (major minor : Nat) (hver : major > 1 ∨ (major = 1 ∧ minor ≥ 1))
    (hproto : (hdrFold hsAfterRequestLine hdrs).protocolRequested = true → (hdrFold hsAfterRequestLine hdrs).found = true) :
    Hs.run c target {} (reqEvents path hdrs httpGet major minor true) =
      ({ hdrFold hsAfterRequestLine hdrs with lines := (hdrFold hsAfterRequestLine hdrs).lines + 1, phase := .upgraded },
       [Action.write true (upgradeResponse (hdrFold hsAfterRequestLine hdrs).secKey)]) := by
  unfold reqEvents
  rw [Hs.run_append, Hs.run_append]
  have h1 : Hs.run c target {} [HsEvent.line, HsEvent.url false (some path)] = (hsAfterRequestLine, []) := by
    simp [Hs.run, Hs.step, hpre, hsAfterRequestLine]
  rw [h1]
  simp only [List.nil_append]
  rw [run_hdrs c target hsAfterRequestLine rfl rfl hdrs hall]
  simp only [List.nil_append]
  obtain ⟨p1, p2, p3, p4, p5⟩ := hdrFold_inv hsAfterRequestLine hdrs
  generalize hdrFold hsAfterRequestLine hdrs = hf at *
  have hp : hf.phase = .headers := by rw [p1]; rfl
  have hvb : (decide (major > 1) || (decide (major = 1) && decide (minor ≥ 1))) = true := by
    rcases hver with h | ⟨h1, h2⟩
    · simp [h]
    · simp [h1, h2]
  have hpr : (hf.protocolRequested && !hf.found) = false := by
    cases hq : hf.protocolRequested
    · simp
    · simp [hproto hq]
  simp [Hs.run, Hs.step, hp, hvb, hpr, hok, httpGet]

/-- the key the digest is computed from: the value of the last `Sec-WebSocket-Key` header -/
theorem hdrFold_secKey_last (h : Hs) (pre post : List (Bytes × Bytes)) (n v : Bytes) (hk : hdrKind n = .key)
    (hpost : ∀ x ∈ post, hdrKind x.1 ≠ .key) :
    (hdrFold h (pre ++ (n, v) :: post)).secKey = v ++ wsGuid := by
  have hpostinv : ∀ (g : Hs), (hdrFold g post).secKey = g.secKey := by
    induction post with
    | nil => intro g; rfl
    | cons y ys ih =>
      intro g
      have hy := hpost y (by simp)
      have hys : ∀ x ∈ ys, hdrKind x.1 ≠ .key := fun x hx => hpost x (by simp [hx])
      simp only [hdrFold, List.foldl_cons]
      have := ih hys (applyHdr g y)
      simp only [hdrFold] at this
      rw [this]
      unfold applyHdr
      cases hky : hdrKind y.1 <;> simp_all
  simp only [hdrFold, List.foldl_append, List.foldl_cons]
  have := hpostinv (applyHdr (List.foldl applyHdr h pre) (n, v))
  simp only [hdrFold] at this
  rw [this]
  simp [applyHdr, hk]


end Cjet.Ws
