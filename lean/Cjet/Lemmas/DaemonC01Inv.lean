/-
  C01 — tools for the invariant: the projections each part depends on, congruence lemmas,
  membership in `allElems` after an update, composable transitions (`TransN`).
-/
import Cjet.Lemmas.DaemonC01Offer

namespace Cjet.Daemon.C01

open Cjet Cjet.Json Cjet.Daemon

/-! ## projections -/

/-- what the fetch side of a peer is -/
def fcore (p : Peer) : Nat × Nat × List Fetch := (p.conn, p.fetchGroups, p.fetches)

/-- the skeleton of the element side of a peer -/
def eskel (p : Peer) : Nat × List (Bytes × Nat) := (p.conn, p.elements.map (fun e => (e.path, e.owner)))

theorem exists_of_map_eq {α β : Type} {f : α → β} {l l' : List α} (h : l'.map f = l.map f) {a' : α}
    (ha : a' ∈ l') : ∃ a ∈ l, f a = f a' := by
  have : f a' ∈ l.map f := h ▸ List.mem_map_of_mem (f := f) ha
  obtain ⟨a, ha1, ha2⟩ := List.mem_map.1 this
  exact ⟨a, ha1, ha2⟩

theorem map_updatePeer_congr {β : Type} (proj : Peer → β) (ps : List Peer) (c : Nat) (g : Peer → Peer)
    (h : ∀ q, proj (g q) = proj q) : (updatePeer ps c g).map proj = ps.map proj := by
  unfold updatePeer
  rw [List.map_map]
  apply List.map_congr_left
  intro q _
  simp only [Function.comp]
  split <;> simp [h]

theorem map_map_congr {β : Type} (proj : Peer → β) (ps : List Peer) (g : Peer → Peer)
    (h : ∀ q, proj (g q) = proj q) : (ps.map g).map proj = ps.map proj := by
  rw [List.map_map]
  apply List.map_congr_left
  intro q _
  exact h q

theorem conns_of_fcore {ps ps' : List Peer} (h : ps'.map fcore = ps.map fcore) :
    ps'.map (·.conn) = ps.map (·.conn) := by
  have := congrArg (List.map (fun t : Nat × Nat × List Fetch => t.1)) h
  rw [List.map_map, List.map_map] at this
  exact this

theorem FetchesOK.congr {s s' : State} (h : s'.peers.map fcore = s.peers.map fcore)
    (hu : s.nextUid ≤ s'.nextUid) (ok : FetchesOK s) : FetchesOK s' := by
  have key : ∀ p' ∈ s'.peers, ∃ p ∈ s.peers, p.fetches = p'.fetches := by
    intro p' hp'
    obtain ⟨p, hp, e⟩ := exists_of_map_eq h hp'
    simp only [fcore, Prod.mk.injEq] at e
    exact ⟨p, hp, e.2.2⟩
  have key2 : ∀ p' ∈ s'.peers, ∃ p ∈ s.peers, p.fetches = p'.fetches ∧ p.conn = p'.conn := by
    intro p' hp'
    obtain ⟨p, hp, e⟩ := exists_of_map_eq h hp'
    simp only [fcore, Prod.mk.injEq] at e
    exact ⟨p, hp, e.2.2, e.1⟩
  refine ⟨?_, ?_, ?_, ?_, ?_, ?_⟩
  · rw [conns_of_fcore h]; exact ok.connNodup
  · intro p' hp' f hf
    obtain ⟨p, hp, e⟩ := key p' hp'
    exact Nat.lt_of_lt_of_le (ok.uidLt p hp f (e ▸ hf)) hu
  · intro p' hp'
    obtain ⟨p, hp, e⟩ := key p' hp'
    exact e ▸ ok.uidNodup p hp
  · intro p' hp' q' hq' f hf g hg hu
    obtain ⟨p, hp, e, ec⟩ := key2 p' hp'
    obtain ⟨q, hq, e2, ec2⟩ := key2 q' hq'
    rw [← ec, ← ec2]
    exact ok.uidGlobal p hp q hq f (e ▸ hf) g (e2 ▸ hg) hu
  · intro p' hp' f hf
    obtain ⟨p, hp, e⟩ := key p' hp'
    exact ok.fidOk p hp f (e ▸ hf)
  · intro p' hp'
    obtain ⟨p, hp, e⟩ := key p' hp'
    exact e ▸ ok.fidDistinct p hp

theorem ElemsOK.congr {s s' : State} (h : s'.peers.map eskel = s.peers.map eskel)
    (hi : s'.index = s.index) (ok : ElemsOK s) : ElemsOK s' := by
  have key : ∀ p' ∈ s'.peers, ∃ p ∈ s.peers, p.conn = p'.conn ∧
      p.elements.map (fun e => (e.path, e.owner)) = p'.elements.map (fun e => (e.path, e.owner)) := by
    intro p' hp'
    obtain ⟨p, hp, e⟩ := exists_of_map_eq h hp'
    simp only [eskel, Prod.mk.injEq] at e
    exact ⟨p, hp, e⟩
  refine ⟨?_, ?_, ?_, ?_⟩
  · intro p' hp' e' he'
    obtain ⟨p, hp, hc, hel⟩ := key p' hp'
    obtain ⟨e, he, hee⟩ := exists_of_map_eq hel.symm he'
    simp only [Prod.mk.injEq] at hee
    rw [← hee.2, ← hc]
    exact ok.owner p hp e he
  · intro p' hp'
    obtain ⟨p, hp, _, hel⟩ := key p' hp'
    have := congrArg (List.map (fun t : Bytes × Nat => t.1)) hel
    simp only [List.map_map] at this
    have h2 : (p'.elements.map (·.path)) = p.elements.map (·.path) := this.symm
    rw [h2]
    exact ok.pathNodup p hp
  · rw [hi]; exact ok.idxNodup
  · intro p' hp' e' he'
    obtain ⟨p, hp, hc, hel⟩ := key p' hp'
    obtain ⟨e, he, hee⟩ := exists_of_map_eq hel.symm he'
    simp only [Prod.mk.injEq] at hee
    rw [hi, ← hee.1, ← hc]
    exact ok.indexed p hp e he

theorem TblOK.congr_peers {cfg : Config} {ps ps' : List Peer} {e : Element}
    (h : ps'.map fcore = ps.map fcore) (ok : TblOK cfg ps e) : TblOK cfg ps' e := by
  refine ⟨ok.nodup, ?_, ?_⟩
  · intro fk hfk
    obtain ⟨p, hp, hc, f, hf, hu⟩ := ok.live fk hfk
    obtain ⟨p', hp', e'⟩ := exists_of_map_eq h.symm hp
    simp only [fcore, Prod.mk.injEq] at e'
    exact ⟨p', hp', e'.1.trans hc, f, e'.2.2 ▸ hf, hu⟩
  · intro p' hp' f hf
    obtain ⟨p, hp, e'⟩ := exists_of_map_eq h hp'
    simp only [fcore, Prod.mk.injEq] at e'
    rw [← e'.1, ← e'.2.1]
    exact ok.char p hp f (e'.2.2 ▸ hf)

theorem TblOK.congr_elem {cfg : Config} {ps : List Peer} {e e' : Element}
    (hk : (keys e'.fetchers).Perm (keys e.fetchers)) (hv : eview e' = eview e) (ok : TblOK cfg ps e) :
    TblOK cfg ps e' := by
  refine ⟨hk.nodup_iff.2 ok.nodup, ?_, ?_⟩
  · intro fk hfk
    exact ok.live fk (hk.mem_iff.1 hfk)
  · intro p hp f hf
    rw [hk.mem_iff, visible_congr hv]
    exact ok.char p hp f hf

theorem alive_congr {s s' : State} (h : s'.peers.map fcore = s.peers.map fcore) {c pg : Nat} {f : Fetch} :
    Alive s' c pg f ↔ Alive s c pg f := by
  constructor
  · rintro ⟨p', hp', h1, h2, h3⟩
    obtain ⟨p, hp, e⟩ := exists_of_map_eq h hp'
    simp only [fcore, Prod.mk.injEq] at e
    exact ⟨p, hp, e.1.trans h1, e.2.1.trans h2, e.2.2 ▸ h3⟩
  · rintro ⟨p, hp, h1, h2, h3⟩
    obtain ⟨p', hp', e⟩ := exists_of_map_eq h.symm hp
    simp only [fcore, Prod.mk.injEq] at e
    exact ⟨p', hp', e.1.trans h1, e.2.1.trans h2, e.2.2 ▸ h3⟩

theorem hasFetch_congr {s s' : State} (h : s'.peers.map fcore = s.peers.map fcore) {c : Nat} {f : Fetch} :
    HasFetch s' c f ↔ HasFetch s c f := by
  constructor
  · rintro ⟨p', hp', h1, h3⟩
    obtain ⟨p, hp, e⟩ := exists_of_map_eq h hp'
    simp only [fcore, Prod.mk.injEq] at e
    exact ⟨p, hp, e.1.trans h1, e.2.2 ▸ h3⟩
  · rintro ⟨p, hp, h1, h3⟩
    obtain ⟨p', hp', e⟩ := exists_of_map_eq h.symm hp
    simp only [fcore, Prod.mk.injEq] at e
    exact ⟨p', hp', e.1.trans h1, e.2.2 ▸ h3⟩

theorem hasFid_congr {s s' : State} (h : s'.peers.map fcore = s.peers.map fcore) {c : Nat} {fid : Json} :
    HasFid s' c fid ↔ HasFid s c fid := by
  constructor
  · rintro ⟨p', hp', h1, g, hg, h3⟩
    obtain ⟨p, hp, e⟩ := exists_of_map_eq h hp'
    simp only [fcore, Prod.mk.injEq] at e
    exact ⟨p, hp, e.1.trans h1, g, e.2.2 ▸ hg, h3⟩
  · rintro ⟨p, hp, h1, g, hg, h3⟩
    obtain ⟨p', hp', e⟩ := exists_of_map_eq h.symm hp
    simp only [fcore, Prod.mk.injEq] at e
    exact ⟨p', hp', e.1.trans h1, g, e.2.2 ▸ hg, h3⟩

theorem findFetch_congr {ps ps' : List Peer} (h : ps'.map fcore = ps.map fcore) (fk : FetchKey) :
    findFetch ps' fk = findFetch ps fk := by
  induction ps generalizing ps' with
  | nil =>
    have : ps' = [] := by simpa using h
    subst this; rfl
  | cons q qs ih =>
    cases ps' with
    | nil => simp at h
    | cons q' qs' =>
      simp only [List.map_cons, List.cons.injEq] at h
      obtain ⟨hq, hrest⟩ := h
      simp only [fcore, Prod.mk.injEq] at hq
      have := ih hrest
      unfold findFetch findPeer at this ⊢
      simp only [List.find?_cons, hq.1]
      cases hc : (q.conn == fk.peer)
      · exact this
      · simp [hq.2.2]

/-! ## uniqueness of paths, membership in `allElems` -/

theorem path_unique {s : State} (he : ElemsOK s) (hf : FetchesOK s) {q q' : Peer} {e e' : Element}
    (hq : q ∈ s.peers) (hee : e ∈ q.elements) (hq' : q' ∈ s.peers) (hee' : e' ∈ q'.elements)
    (hp : e.path = e'.path) : q = q' ∧ e = e' := by
  have h1 := he.indexed q hq e hee
  have h2 := he.indexed q' hq' e' hee'
  rw [hp] at h1
  have hc : q.conn = q'.conn := by
    have := nodup_map_inj he.idxNodup h1 h2 rfl
    simpa using this
  have hqq : q = q' := eq_of_conn_eq hf.connNodup hq hq' hc
  subst hqq
  exact ⟨rfl, nodup_map_inj (he.pathNodup q hq) hee hee' hp⟩

theorem mem_allElems_updatePeer {ps : List Peer} (hn : (ps.map (·.conn)).Nodup) {p : Peer} (hp : p ∈ ps)
    (F : List Element → List Element) {e : Element} :
    e ∈ (updatePeer ps p.conn (fun q => { q with elements := F q.elements })).flatMap (·.elements) ↔
      e ∈ F p.elements ∨ ∃ q ∈ ps, q.conn ≠ p.conn ∧ e ∈ q.elements := by
  simp only [List.mem_flatMap, mem_updatePeer]
  constructor
  · rintro ⟨q', ⟨q, hq, rfl⟩, he⟩
    by_cases hc : q.conn = p.conn
    · have : q = p := eq_of_conn_eq hn hq hp hc
      subst this
      left; simpa using he
    · right
      have : (q.conn == p.conn) = false := by simp [hc]
      simp only [this] at he
      exact ⟨q, hq, hc, he⟩
  · rintro (he | ⟨q, hq, hc, he⟩)
    · exact ⟨_, ⟨p, hp, rfl⟩, by simpa using he⟩
    · have : (q.conn == p.conn) = false := by simp [hc]
      exact ⟨_, ⟨q, hq, rfl⟩, by simpa [this] using he⟩

/-- the elements of all peers after a map that only touches fetcher tables -/
theorem allElems_map_eview {ps : List Peer} (h : Peer → Peer)
    (hh : ∀ q ∈ ps, (h q).elements.map eview = q.elements.map eview) :
    ((ps.map h).flatMap (·.elements)).map eview = (ps.flatMap (·.elements)).map eview := by
  induction ps with
  | nil => rfl
  | cons q qs ih =>
    simp only [List.map_cons, List.flatMap_cons, List.map_append]
    rw [hh q List.mem_cons_self, ih (fun q' hq' => hh q' (List.mem_cons_of_mem _ hq'))]

/-! ## composable transitions that install no fetch -/

structure TransN (cfg : Config) (s s' : State) (ns : List (Nat × Notif)) : Prop where
  inv : Inv cfg s'
  uid : s'.nextUid = s.nextUid
  noNew : ∀ c f, HasFetch s' c f → HasFetch s c f
  stable : ∀ c pg f, Alive s c pg f → HasFetch s' c f → Alive s' c pg f
  rstep : ∀ c pg f, Alive s c pg f → Alive s' c pg f → RStep cfg s s' ns c f.fid pg f.rule
  origin : ∀ cn ∈ ns, HasFid s cn.1 cn.2.fid

theorem Alive.hasFetch {s : State} {c pg : Nat} {f : Fetch} (h : Alive s c pg f) : HasFetch s c f := by
  obtain ⟨p, hp, h1, _, h3⟩ := h
  exact ⟨p, hp, h1, h3⟩

theorem TransN.trans {cfg : Config} {s s' s'' : State} {a b : List (Nat × Notif)}
    (h1 : TransN cfg s s' a) (h2 : TransN cfg s' s'' b) : TransN cfg s s'' (a ++ b) := by
  refine ⟨h2.inv, h2.uid.trans h1.uid, ?_, ?_, ?_, ?_⟩
  · intro c f h
    exact h1.noNew c f (h2.noNew c f h)
  · intro c pg f ha hf
    exact h2.stable c pg f (h1.stable c pg f ha (h2.noNew c f hf)) hf
  · intro c pg f ha ha''
    have ha' : Alive s' c pg f := h1.stable c pg f ha (h2.noNew c f ha''.hasFetch)
    exact (h1.rstep c pg f ha ha').trans (h2.rstep c pg f ha' ha'')
  · intro cn hcn
    rcases List.mem_append.1 hcn with h | h
    · exact h1.origin cn h
    · obtain ⟨p, hp, hc, g, hg, hi⟩ := h2.origin cn h
      obtain ⟨p0, hp0, hc0, hg0⟩ := h1.noNew cn.1 g ⟨p, hp, hc, hg⟩
      exact ⟨p0, hp0, hc0, g, hg0, hi⟩

/-- a transition that leaves peers' connections, groups, elements and fetches alone -/
theorem TransN.of_sameCore {cfg : Config} {s s' : State} (inv : Inv cfg s)
    (hf : s'.peers.map fcore = s.peers.map fcore)
    (he : s'.peers.map (·.elements) = s.peers.map (·.elements))
    (hi : s'.index = s.index) (hu : s'.nextUid = s.nextUid) : TransN cfg s s' [] := by
  have hall : allElems s' = allElems s := by
    unfold allElems
    have h1 : s'.peers.flatMap (·.elements) = (s'.peers.map (·.elements)).flatMap id := by
      rw [List.flatMap_map]; rfl
    have h2 : s.peers.flatMap (·.elements) = (s.peers.map (·.elements)).flatMap id := by
      rw [List.flatMap_map]; rfl
    rw [h1, h2, he]
  have hsk : s'.peers.map eskel = s.peers.map eskel := by
    have h1 := conns_of_fcore hf
    have : ∀ (l l' : List Peer), l'.map (·.conn) = l.map (·.conn) →
        l'.map (·.elements) = l.map (·.elements) → l'.map eskel = l.map eskel := by
      intro l
      induction l with
      | nil => intro l' h _; have : l' = [] := by simpa using h
               subst this; rfl
      | cons q qs ih =>
        intro l' h h'
        cases l' with
        | nil => simp at h
        | cons q' qs' =>
          simp only [List.map_cons, List.cons.injEq] at h h' ⊢
          exact ⟨by simp [eskel, h.1, h'.1], ih qs' h.2 h'.2⟩
    exact this _ _ h1 he
  refine ⟨⟨inv.elems.congr hsk hi, inv.fetches.congr hf (Nat.le_of_eq hu.symm), ?_⟩, hu, ?_, ?_, ?_, ?_⟩
  · intro e he'
    rw [hall] at he'
    exact (inv.tbl e he').congr_peers hf
  · intro c f h; exact (hasFetch_congr hf).1 h
  · intro c pg f ha _; exact (alive_congr hf).2 ha
  · intro c pg f _ _
    apply RStep.of_silent rfl
    intro a
    unfold imageOf
    rw [hall]
  · intro cn hcn; cases hcn

end Cjet.Daemon.C01
