/-
  C02 helper lemmas, part 5: `clearRoute`, `freePeerResources` (staged reformulation),
  `closePeer`, `timeoutFired`.
-/
import Cjet.Lemmas.DaemonC02Dispatch

namespace Cjet.Daemon.C02

open Cjet Cjet.Json Cjet.Daemon

/-- the error response a requester gets when the owner of a routed request goes away -/
def shutdownAnswer (oid : Json) : Json :=
  .obj [(k "id", oid), (k "error", errorObject INTERNAL_ERROR "reason" (k "peer shuts down"))]

/-- the error response a requester gets when the owner does not reply in time -/
def timeoutAnswer (oid : Json) : Json :=
  .obj [(k "id", oid), (k "error", errorObject INTERNAL_ERROR "reason" (k "timeout for routed request"))]

/-- `o` is the shutdown answer for routing record `r` (owner side `c` leaving) -/
def IsShutdownOf (c : Nat) (r : Route) (o : Obs) : Prop :=
  r.requester ≠ c ∧ ∃ oid b, r.originId = some oid ∧ idOk oid = true ∧ o = .send r.requester (shutdownAnswer oid) b

theorem clearRoute_frame (x : Ctx) (r : Route) (c : Nat) :
    Frame (fun o => IsNotif o ∨ IsShutdownOf c r o) x (clearRoute x r c) := by
  unfold clearRoute
  have h0 : Frame (fun o => IsNotif o ∨ IsShutdownOf c r o) x (emit x (.timerDestroy r.timer)) :=
    Frame.emit _ _ (Or.inl rfl)
  dsimp only
  split
  · exact h0
  · rename_i hne
    split
    · exact h0
    · rename_i oid ho
      split
      · rename_i resp hresp
        obtain ⟨rfl, hok⟩ := errorResponse_eq hresp
        refine h0.trans (Frame.send' _ _ _ (fun b => Or.inr ⟨?_, oid, b, ho, hok, rfl⟩))
        simpa using hne
      · exact h0

theorem clearRoute_frame_mine (x : Ctx) (r : Route) (c : Nat) (h : r.requester = c) :
    Frame IsNotif x (clearRoute x r c) := by
  unfold clearRoute
  simp only [h, beq_self_eq_true, if_true]
  exact Frame.emit _ _ rfl

/-! ## `freePeerResources` in stages -/

def fpr1 (x : Ctx) (p : Peer) (c : Nat) : Ctx := p.routes.foldl (fun x r => clearRoute x r c) x

def fpr2 (x : Ctx) (c : Nat) : Ctx :=
  { x with st := { x.st with peers := updatePeer x.st.peers c (fun q => { q with routes := [] }) } }

def fpr3 (x : Ctx) (c : Nat) : Ctx :=
  (x.st.peers.flatMap (fun q => q.routes.filter (·.requester == c))).foldl (fun x r => clearRoute x r c) x

def fpr4 (x : Ctx) (c : Nat) : Ctx :=
  { x with st := { x.st with peers := x.st.peers.map (fun (q : Peer) =>
      { q with routes := q.routes.filter (·.requester != c) }) } }

def unsub (c : Nat) : Element → Element := fun e => { e with fetchers := e.fetchers.map (fun s =>
  match s with | some fk => if fk.peer == c then none else some fk | none => none) }

def fpr5 (x : Ctx) (c : Nat) : Ctx :=
  let ps := updatePeer (mapElements x.st.peers (unsub c)) c (fun q => { q with fetches := [] })
  { x with st := { x.st with peers := ps } }

def fpr6 (x : Ctx) (p : Peer) (c : Nat) : Ctx :=
  p.elements.foldl (fun x e0 =>
    match (findPeer x.st.peers c).bind (·.elements.find? (·.path == e0.path)) with
    | some e => removeElement x e
    | none => x) x

def fpr7 (x : Ctx) (c : Nat) : Ctx :=
  { x with st := { x.st with peers := x.st.peers.filter (·.conn != c) } }

theorem freePeerResources_eq {x : Ctx} {c : Nat} {p : Peer} (hp : findPeer x.st.peers c = some p) :
    freePeerResources x c = fpr7 (fpr6 (fpr5 (fpr4 (fpr3 (fpr2 (fpr1 x p c) c) c) c) c) p c) c := by
  unfold freePeerResources
  simp only [hp]
  rfl

theorem freePeerResources_none {x : Ctx} {c : Nat} (hp : findPeer x.st.peers c = none) :
    freePeerResources x c = x := by
  unfold freePeerResources
  simp only [hp]

/-- what is sent while peer `p` (connection `c`) is torn down -/
def ShutdownObs (p : Peer) (c : Nat) (o : Obs) : Prop := IsNotif o ∨ ∃ r ∈ p.routes, IsShutdownOf c r o

theorem fpr1_frame (x : Ctx) (p : Peer) (c : Nat) : Frame (ShutdownObs p c) x (fpr1 x p c) := by
  unfold fpr1
  apply Frame.foldl
  intro x r hr
  exact (clearRoute_frame x r c).mono (fun o h => h.elim Or.inl (fun h => Or.inr ⟨r, hr, h⟩))

theorem fpr3_frame (x : Ctx) (c : Nat) : Frame IsNotif x (fpr3 x c) := by
  unfold fpr3
  apply Frame.foldl
  intro y r hr
  apply clearRoute_frame_mine
  obtain ⟨q, _, hq⟩ := List.mem_flatMap.1 hr
  simpa using (List.mem_filter.1 hq).2

theorem fpr6_frame (x : Ctx) (p : Peer) (c : Nat) : Frame IsNotif x (fpr6 x p c) := by
  unfold fpr6
  apply Frame.foldl
  intro y e0 _
  split
  · exact removeElement_frame ..
  · exact Frame.refl _

/-- the routing tables after connection `c` has gone: its own table is dropped, its requests are
    forgotten everywhere -/
def dropConn (c : Nat) (rm : List (Nat × List Route)) : List (Nat × List Route) :=
  (rm.filter (·.1 != c)).map (fun e => (e.1, e.2.filter (·.requester != c)))

theorem routesMap_filter_conn (c : Nat) (ps : List Peer) :
    routesMap (ps.filter (·.conn != c)) = (routesMap ps).filter (·.1 != c) := by
  induction ps with
  | nil => rfl
  | cons p t ih =>
    unfold routesMap at *
    simp only [List.filter_cons, List.map_cons]
    split
    · simp only [List.map_cons, ih]
    · exact ih

theorem routesMap_filter_routes (f : Route → Bool) (ps : List Peer) :
    routesMap (ps.map (fun (q : Peer) => { q with routes := q.routes.filter f })) =
      (routesMap ps).map (fun e => (e.1, e.2.filter f)) := by
  simp [routesMap, List.map_map, Function.comp_def]

def clearConn (c : Nat) (e : Nat × List Route) : Nat × List Route := if e.1 == c then (e.1, []) else e

theorem routesMap_clear (c : Nat) (ps : List Peer) :
    routesMap (updatePeer ps c (fun q => { q with routes := [] })) = (routesMap ps).map (clearConn c) := by
  simp only [routesMap, updatePeer, List.map_map]
  apply List.map_congr_left
  intro p _
  simp only [Function.comp, clearConn]
  split <;> rfl

theorem dropConn_stages (c : Nat) (rm : List (Nat × List Route)) :
    (((rm.map (clearConn c)).map (fun e => (e.1, e.2.filter (·.requester != c)))).filter (·.1 != c)) =
      dropConn c rm := by
  induction rm with
  | nil => rfl
  | cons e t ih =>
    unfold dropConn at *
    simp only [List.map_cons, List.filter_cons, clearConn]
    by_cases h : (e.1 == c) = true
    · have h' : (e.1 != c) = false := by simp [bne, h]
      simp only [h, if_true, h', Bool.false_eq_true, if_false]
      exact ih
    · have h' : (e.1 != c) = true := by simp [bne, h]
      simp only [h, if_false, h', if_true, List.map_cons, Bool.false_eq_true]
      rw [ih]

theorem freePeerResources_spec {x : Ctx} {c : Nat} {p : Peer} (hp : findPeer x.st.peers c = some p) :
    OutExt (ShutdownObs p c) x (freePeerResources x c) ∧
    routesMap (freePeerResources x c).st.peers = dropConn c (routesMap x.st.peers) := by
  rw [freePeerResources_eq hp]
  have h1 := fpr1_frame x p c
  have h3 := fpr3_frame (fpr2 (fpr1 x p c) c) c
  have h6 := fpr6_frame (fpr5 (fpr4 (fpr3 (fpr2 (fpr1 x p c) c) c) c) c) p c
  constructor
  · have e3 : OutExt (ShutdownObs p c) (fpr1 x p c) (fpr3 (fpr2 (fpr1 x p c) c) c) := h3.out.mono (fun _ => Or.inl)
    have e6 : OutExt (ShutdownObs p c) (fpr3 (fpr2 (fpr1 x p c) c) c)
        (fpr6 (fpr5 (fpr4 (fpr3 (fpr2 (fpr1 x p c) c) c) c) c) p c) := h6.out.mono (fun _ => Or.inl)
    exact (h1.out.trans e3).trans e6
  · have r5 : routesMap (fpr5 (fpr4 (fpr3 (fpr2 (fpr1 x p c) c) c) c) c).st.peers =
        routesMap (fpr4 (fpr3 (fpr2 (fpr1 x p c) c) c) c).st.peers := by
      unfold fpr5
      dsimp only
      rw [routesMap_updatePeer _ _ _ (by intro q; exact ⟨rfl, rfl⟩), routesMap_mapElements]
    have r4 : routesMap (fpr4 (fpr3 (fpr2 (fpr1 x p c) c) c) c).st.peers =
        (routesMap (fpr3 (fpr2 (fpr1 x p c) c) c).st.peers).map (fun e => (e.1, e.2.filter (·.requester != c))) :=
      routesMap_filter_routes _ _
    have r2 : routesMap (fpr2 (fpr1 x p c) c).st.peers = (routesMap (fpr1 x p c).st.peers).map (clearConn c) :=
      routesMap_clear _ _
    show routesMap (List.filter (·.conn != c) _) = _
    rw [routesMap_filter_conn, h6.routes, r5, r4, h3.routes, r2, h1.routes, dropConn_stages]

theorem freePeerResources_gone (x : Ctx) (c : Nat) : ∀ q ∈ (freePeerResources x c).st.peers, q.conn ≠ c := by
  cases hp : findPeer x.st.peers c with
  | none =>
    rw [freePeerResources_none hp]
    intro q hq hc
    have := List.find?_eq_none.1 hp q hq
    simp [hc] at this
  | some p =>
    rw [freePeerResources_eq hp]
    intro q hq
    have := (List.mem_filter.1 hq).2
    simpa using this

/-- What `request_timeout_handler` does. -/
theorem timeoutFired_spec (x : Ctx) (t : Nat) :
    (timeoutFired x t = x ∧ (x.st.peers.flatMap (·.routes)).find? (·.timer == t) = none) ∨
    ∃ r, (x.st.peers.flatMap (·.routes)).find? (·.timer == t) = some r ∧
      (timeoutFired x t).st = { x.st with peers := removeRoute x.st.peers r.owner r.rid } ∧
      (((timeoutFired x t).out = .timerDestroy t :: x.out ∧ ∀ oid, r.originId = some oid → idOk oid = false) ∨
       ∃ oid, r.originId = some oid ∧ idOk oid = true ∧
         (timeoutFired x t).out =
           .timerDestroy t :: .send r.requester (timeoutAnswer oid) (x.sends.headD true) :: x.out) := by
  unfold timeoutFired
  split
  · rename_i h; exact Or.inl ⟨rfl, h⟩
  · rename_i r hf
    refine Or.inr ⟨r, hf, ?_⟩
    dsimp only
    split
    · rename_i ho
      exact ⟨rfl, Or.inl ⟨rfl, by simp [ho]⟩⟩
    · rename_i oid ho
      split
      · rename_i resp hresp
        obtain ⟨rfl, hok⟩ := errorResponse_eq hresp
        refine ⟨?_, Or.inr ⟨oid, ho, hok, ?_⟩⟩
        · simp [send', send_eq, emit]
        · simp [send', send_eq, emit, timeoutAnswer]
      · rename_i hresp
        refine ⟨rfl, Or.inl ⟨rfl, ?_⟩⟩
        intro oid' ho'
        rw [ho] at ho'; cases ho'
        cases hok : idOk oid with
        | false => rfl
        | true => simp [errorResponse_of_idOk hok] at hresp

end Cjet.Daemon.C02
