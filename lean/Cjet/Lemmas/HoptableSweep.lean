import Cjet.Lemmas.HoptableFull

/-! Helper lemmas for C17: the iterate-while-removing loop of `router.c`. -/

set_option linter.unusedSectionVars false
set_option linter.unusedVariables false

namespace Cjet.Hoptable

section
variable {K V : Type} [DecidableEq K] [Inhabited V]
variable {N : Nat} {hash : K → Nat}

theorem emptyCount_all_none {t : Table K V} (h : ∀ j, j < N → (slot t j).key = none) :
    emptyCount N t = N := by
  rw [emptyCount_eq_countP]
  have : (List.range N).countP (fun i => (slot t i).key.isNone) = (List.range N).length := by
    rw [List.countP_eq_length]
    intro a ha
    rw [List.mem_range] at ha
    simp [h a ha]
  rw [this, List.length_range]

theorem no_maps_of_all_none {t : Table K V} (wf : WF N hash t) (hN : 0 < N)
    (h : ∀ j, j < N → (slot t j).key = none) (k : K) (v : V) : ¬ Maps N t k v := by
  intro m
  obtain ⟨p, hl, hk, _⟩ := maps_live m
  rw [h p (live_lt hN hl)] at hk; cases hk

theorem sweepFrom_spec (hN : 0 < N) (hhash : ∀ k, hash k < N) :
    ∀ (r i : Nat) (t : Table K V), i + r = N → WFS N hash t →
      (∀ j, j < i → (slot t j).key = none) →
      let s := sweepFrom N hash r i t
      WFS N hash s.2 ∧ (∀ j, j < N → (slot s.2 j).key = none) ∧
        (∀ v, v ∈ s.1 ↔ ∃ k, Maps N t k v) ∧ s.1.length + emptyCount N t = N := by
  intro r
  induction r with
  | zero =>
    intro i t hi wfs hnone
    simp only [sweepFrom]
    have hall : ∀ j, j < N → (slot t j).key = none := fun j hj => hnone j (by omega)
    refine ⟨wfs, hall, fun v => ?_, ?_⟩
    · constructor
      · intro h; cases h
      · rintro ⟨k, m⟩; exact absurd m (no_maps_of_all_none wfs.toWF hN hall k v)
    · simp [emptyCount_all_none hall]
  | succ r ih =>
    intro i t hi wfs hnone
    have hiN : i < N := by omega
    cases hkey : (slot t i).key with
    | none =>
      have : sweepFrom N hash (r + 1) i t = sweepFrom N hash r (i + 1) t := by
        simp only [sweepFrom, hkey]
      rw [this]
      apply ih (i + 1) t (by omega) wfs
      intro j hj
      by_cases e : j = i
      · rw [e]; exact hkey
      · exact hnone j (by omega)
    | some k =>
      have hlive : Live N t i := wfs.nostale i hiN (by rw [hkey]; simp)
      have m0 := maps_of_live hlive hkey
      obtain ⟨r1, r2, r3, r4, r5⟩ := remove_spec_full hN wfs.toWF (hhash k)
      obtain ⟨_, s2⟩ := remove_slots hN wfs.toWF (hhash k)
      have hres : (remove N hash t k).1 = some (slot t i).val := (r3 _).2 m0
      obtain ⟨p, hpN, hpl, hpk, hkeys⟩ := s2 _ hres
      have hpi : p = i := wfs.unique p i k hpl hlive hpk hkey
      subst hpi
      have hrem : remove N hash t k = (some (slot t p).val, (remove N hash t k).2) := by
        rw [← hres]
      have hstep : sweepFrom N hash (r + 1) p t =
          ((slot t p).val :: (sweepFrom N hash r (p + 1) (remove N hash t k).2).1,
           (sweepFrom N hash r (p + 1) (remove N hash t k).2).2) := by
        simp only [sweepFrom, hkey]
        rw [hrem]
      rw [hstep]
      have wfs' : WFS N hash (remove N hash t k).2 := { toWF := r1, nostale := r2 wfs.nostale }
      obtain ⟨i1, i2, i3, i4⟩ := ih (p + 1) (remove N hash t k).2 (by omega) wfs' (by
        intro j hj
        rw [hkeys]
        by_cases e : j = p
        · simp [e]
        · simp only [e, if_false]; exact hnone j (by omega))
      refine ⟨i1, i2, fun v => ?_, ?_⟩
      · simp only [List.mem_cons]
        rw [i3 v]
        constructor
        · rintro (e | ⟨k', m⟩)
          · exact ⟨k, e ▸ m0⟩
          · have hne : k' ≠ k := by
              intro e; subst e; exact r4 v m
            exact ⟨k', (r5 k' hne v).1 m⟩
        · rintro ⟨k', m⟩
          by_cases e : k' = k
          · subst e
            exact Or.inl (wfs.maps_fun m m0)
          · exact Or.inr ⟨k', (r5 k' e v).2 m⟩
      · have hcount : emptyCount N t + 1 = emptyCount N (remove N hash t k).2 := by
          rw [emptyCount_eq_countP, emptyCount_eq_countP]
          apply countP_range_flip _ _ N p hiN
          · intro j hj
            rw [hkeys]; simp [hj]
          · rw [hkeys]; simp
          · simp [hkey]
        simp only [List.length_cons]
        omega

end
end Cjet.Hoptable
