/-
  Cjet.Lemmas.DaemonC11Handlers — every request handler except the routed send of set/call maps
  contexts that differ only in send results to such contexts and returns the same response.
-/
import Cjet.Lemmas.DaemonC11Sim

namespace Cjet.Daemon.C11

open Cjet Cjet.Json Cjet.Daemon Cjet.Daemon.C05

theorem changeState_sim {x y : Ctx} (h : Sim x y) (p : Peer) (req : Json) :
    SimR (changeState x p req) (changeState y p req) := by
  obtain ⟨st, out, sends, iF, rF⟩ := x
  obtain ⟨st', out', sends', iF', rF'⟩ := y
  obtain ⟨h1, h2, h3, h4⟩ := h
  simp only at h1 h2 h3 h4
  subst h1 h2 h3
  have h : Sim ⟨st, out, sends, iF, rF⟩ ⟨st, out', sends', iF, rF⟩ := ⟨rfl, rfl, rfl, h4⟩
  unfold changeState
  dsimp only
  repeat' split
  all_goals first
    | exact ⟨h, rfl⟩
    | exact ⟨notifyFetchers_sim (x := ⟨_, out, sends, iF, rF⟩) (y := ⟨_, out', sends', iF, rF⟩) ⟨rfl, rfl, rfl, h4⟩ _ _, rfl⟩

theorem removeElementReq_sim {x y : Ctx} (h : Sim x y) (p : Peer) (req : Json) :
    SimR (removeElementReq x p req) (removeElementReq y p req) := by
  unfold removeElementReq
  repeat' split
  all_goals first
    | exact ⟨h, rfl⟩
    | exact ⟨removeElement_sim h _, rfl⟩

theorem addMain_sim (cfg : Config) {x y : Ctx} (h : Sim x y) (p : Peer) (req params : Json) (path : Bytes)
    (fetchOnly : Bool) (tns : Nat) :
    SimR (addMain cfg x p req params path fetchOnly tns) (addMain cfg y p req params path fetchOnly tns) := by
  unfold addMain
  dsimp only
  split
  · exact ⟨h, rfl⟩
  · next fg sg cg _ =>
    obtain ⟨hs, he⟩ := findFetchersForElement_sim cfg h
      { path := path, owner := p.conn, value := params.getItem (k "value"), fetchOnly := fetchOnly,
        timeoutNs := tns, fetchGroups := fg, setGroups := sg, callGroups := cg,
        fetchers := List.replicate cfg.initFetchTable none }
    by_cases hif : (findFetchersForElement cfg x
      { path := path, owner := p.conn, value := params.getItem (k "value"), fetchOnly := fetchOnly,
        timeoutNs := tns, fetchGroups := fg, setGroups := sg, callGroups := cg,
        fetchers := List.replicate cfg.initFetchTable none }).1.indexFull = true
    · have hif' := hif
      rw [hs.2.1] at hif'
      rw [if_pos hif, if_pos hif', ← he]
      exact ⟨(notifyFetchers_sim hs _ _).setIndexFull false, rfl⟩
    · have hif' := hif
      rw [hs.2.1] at hif'
      rw [if_neg hif, if_neg hif']
      exact ⟨SimR.setSt ⟨hs, he⟩ (fun st e' => { st with
        index := st.index ++ [(path, p.conn)],
        peers := updatePeer st.peers p.conn (fun q => { q with elements := q.elements ++ [e'] }) }), rfl⟩

theorem addElement_sim (cfg : Config) {x y : Ctx} (h : Sim x y) (p : Peer) (req : Json) :
    SimR (addElement cfg x p req) (addElement cfg y p req) := by
  obtain ⟨st, out, sends, iF, rF⟩ := x
  obtain ⟨st', out', sends', iF', rF'⟩ := y
  obtain ⟨h1, h2, h3, h4⟩ := h
  simp only at h1 h2 h3 h4
  subst h1 h2 h3
  have h : Sim ⟨st, out, sends, iF, rF⟩ ⟨st, out', sends', iF, rF⟩ := ⟨rfl, rfl, rfl, h4⟩
  unfold addElement
  dsimp -zeta only
  repeat' split
  all_goals first
    | exact ⟨h, rfl⟩
    | exact addMain_sim cfg h p req _ _ _ _

theorem fetchReq_sim (cfg : Config) {x y : Ctx} (h : Sim x y) (p : Peer) (req : Json) :
    SimR (fetchReq cfg x p req) (fetchReq cfg y p req) := by
  obtain ⟨st, out, sends, iF, rF⟩ := x
  obtain ⟨st', out', sends', iF', rF'⟩ := y
  obtain ⟨h1, h2, h3, h4⟩ := h
  simp only at h1 h2 h3 h4
  subst h1 h2 h3
  have h : Sim ⟨st, out, sends, iF, rF⟩ ⟨st, out', sends', iF, rF⟩ := ⟨rfl, rfl, rfl, h4⟩
  unfold fetchReq
  dsimp only
  split
  · exact ⟨h, rfl⟩
  · split
    · exact ⟨h, rfl⟩
    · split
      · exact ⟨h, rfl⟩
      · exact ⟨offerAllElements_sim cfg (x := ⟨_, out, sends, iF, rF⟩) (y := ⟨_, out', sends', iF, rF⟩)
          ⟨rfl, rfl, rfl, h4⟩ _ _, rfl⟩

theorem unfetchReq_sim {x y : Ctx} (h : Sim x y) (p : Peer) (req : Json) :
    SimR (unfetchReq x p req) (unfetchReq y p req) := by
  unfold unfetchReq
  repeat' split
  all_goals first
    | exact ⟨h, rfl⟩
    | exact ⟨h.setSt (fun st => { st with peers := dropFetch st.peers _ }), rfl⟩

theorem getReq_sim (cfg : Config) {x y : Ctx} (h : Sim x y) (p : Peer) (req : Json) :
    SimR (getReq cfg x p req) (getReq cfg y p req) := by
  obtain ⟨st, out, sends, iF, rF⟩ := x
  obtain ⟨st', out', sends', iF', rF'⟩ := y
  obtain ⟨h1, h2, h3, h4⟩ := h
  simp only at h1 h2 h3 h4
  subst h1 h2 h3
  have h : Sim ⟨st, out, sends, iF, rF⟩ ⟨st, out', sends', iF, rF⟩ := ⟨rfl, rfl, rfl, h4⟩
  unfold getReq
  dsimp only
  repeat' split
  all_goals exact ⟨h, rfl⟩

theorem configReq_sim {x y : Ctx} (h : Sim x y) (p : Peer) (req : Json) :
    SimR (configReq x p req) (configReq y p req) := by
  unfold configReq
  repeat' split
  all_goals first
    | exact ⟨h, rfl⟩
    | exact ⟨h.setSt (fun st => { st with peers := updatePeer st.peers p.conn _ }), rfl⟩

theorem infoReq_sim (cfg : Config) {x y : Ctx} (h : Sim x y) (req : Json) :
    SimR (infoReq cfg x req) (infoReq cfg y req) := ⟨h, rfl⟩

theorem authenticateReq_sim (cfg : Config) {x y : Ctx} (h : Sim x y) (p : Peer) (req : Json) :
    SimR (authenticateReq cfg x p req) (authenticateReq cfg y p req) := by
  obtain ⟨st, out, sends, iF, rF⟩ := x
  obtain ⟨st', out', sends', iF', rF'⟩ := y
  obtain ⟨h1, h2, h3, h4⟩ := h
  simp only at h1 h2 h3 h4
  subst h1 h2 h3
  have h : Sim ⟨st, out, sends, iF, rF⟩ ⟨st, out', sends', iF, rF⟩ := ⟨rfl, rfl, rfl, h4⟩
  unfold authenticateReq
  dsimp only
  repeat' split
  all_goals first
    | exact ⟨h, rfl⟩
    | exact ⟨⟨rfl, rfl, rfl, h4⟩, rfl⟩

theorem passwdReq_sim {x y : Ctx} (h : Sim x y) (p : Peer) (req : Json) :
    SimR (passwdReq x p req) (passwdReq y p req) := by
  obtain ⟨st, out, sends, iF, rF⟩ := x
  obtain ⟨st', out', sends', iF', rF'⟩ := y
  obtain ⟨h1, h2, h3, h4⟩ := h
  simp only at h1 h2 h3 h4
  subst h1 h2 h3
  have h : Sim ⟨st, out, sends, iF, rF⟩ ⟨st, out', sends', iF, rF⟩ := ⟨rfl, rfl, rfl, h4⟩
  unfold passwdReq
  dsimp only
  repeat' split
  all_goals first
    | exact ⟨h, rfl⟩
    | exact ⟨⟨rfl, rfl, rfl, h4⟩, rfl⟩

end Cjet.Daemon.C11
