/-
  Cjet.Lemmas.DaemonC05Basic — basic facts about the daemon model's helpers
  (findPeer / updatePeer / send / emit / notify…), used by the C05 and C11 proofs.
-/
import Cjet.Daemon.Model

namespace Cjet.Daemon.C05

open Cjet Cjet.Json Cjet.Daemon

/-- connection ids of the peer list, in list order -/
def conns (ps : List Peer) : List Nat := ps.map (·.conn)

@[simp] theorem conns_nil : conns [] = [] := rfl
@[simp] theorem conns_cons (p : Peer) (ps : List Peer) : conns (p :: ps) = p.conn :: conns ps := rfl
@[simp] theorem conns_append (a b : List Peer) : conns (a ++ b) = conns a ++ conns b := by
  simp [conns]

theorem mem_conns {ps : List Peer} {c : Nat} : c ∈ conns ps ↔ ∃ p ∈ ps, p.conn = c := by
  simp [conns]

/-! ## findPeer -/

theorem findPeer_some {ps : List Peer} {c : Nat} {p : Peer} (h : findPeer ps c = some p) :
    p ∈ ps ∧ p.conn = c := by
  unfold findPeer at h
  exact ⟨List.mem_of_find?_eq_some h, by simpa using List.find?_some h⟩

theorem findPeer_isSome {ps : List Peer} {c : Nat} : (findPeer ps c).isSome = true ↔ c ∈ conns ps := by
  unfold findPeer
  rw [List.find?_isSome, mem_conns]
  constructor
  · rintro ⟨p, hp, h⟩; exact ⟨p, hp, by simpa using h⟩
  · rintro ⟨p, hp, h⟩; exact ⟨p, hp, by simpa using h⟩

theorem findPeer_none {ps : List Peer} {c : Nat} : findPeer ps c = none ↔ c ∉ conns ps := by
  rw [← findPeer_isSome]
  cases findPeer ps c <;> simp

theorem findPeer_isNone {ps : List Peer} {c : Nat} : (findPeer ps c).isNone = true ↔ c ∉ conns ps := by
  rw [← findPeer_none]; cases findPeer ps c <;> simp

theorem findPeer_of_mem {ps : List Peer} {p : Peer} (hn : (conns ps).Nodup) (hp : p ∈ ps) :
    findPeer ps p.conn = some p := by
  induction ps with
  | nil => cases hp
  | cons q qs ih =>
    simp only [conns_cons, List.nodup_cons] at hn
    unfold findPeer
    rw [List.find?_cons]
    rcases List.mem_cons.1 hp with rfl | hq
    · simp
    · have hne : q.conn ≠ p.conn := by
        intro he
        exact hn.1 (he ▸ mem_conns.2 ⟨p, hq, rfl⟩)
      have : (q.conn == p.conn) = false := by simpa using hne
      simp only [this]
      exact ih hn.2 hq

theorem findPeer_unique {ps : List Peer} {p q : Peer} (hn : (conns ps).Nodup) (hp : p ∈ ps) (hq : q ∈ ps)
    (h : p.conn = q.conn) : p = q := by
  have h1 := findPeer_of_mem hn hp
  have h2 := findPeer_of_mem hn hq
  rw [h] at h1
  rw [h1] at h2
  exact Option.some.inj h2

/-- map with a conn-preserving function commutes with findPeer -/
theorem findPeer_map {ps : List Peer} {g : Peer → Peer} (hg : ∀ p, (g p).conn = p.conn) (c : Nat) :
    findPeer (ps.map g) c = (findPeer ps c).map g := by
  induction ps with
  | nil => rfl
  | cons q qs ih =>
    unfold findPeer at ih ⊢
    simp only [List.map_cons, List.find?_cons, hg]
    cases h : (q.conn == c) <;> simp [ih]

theorem conns_map {ps : List Peer} {g : Peer → Peer} (hg : ∀ p, (g p).conn = p.conn) :
    conns (ps.map g) = conns ps := by
  simp [conns, List.map_map, Function.comp_def, hg]

/-! ## updatePeer -/

theorem updatePeer_eq_map (ps : List Peer) (c : Nat) (f : Peer → Peer) :
    updatePeer ps c f = ps.map (fun p => if p.conn == c then f p else p) := rfl

theorem conns_updatePeer {ps : List Peer} {c : Nat} {f : Peer → Peer} (hf : ∀ p, (f p).conn = p.conn) :
    conns (updatePeer ps c f) = conns ps := by
  rw [updatePeer_eq_map]
  apply conns_map
  intro p; split <;> simp [hf]

theorem findPeer_updatePeer {ps : List Peer} {c : Nat} {f : Peer → Peer} (hf : ∀ p, (f p).conn = p.conn)
    (d : Nat) : findPeer (updatePeer ps c f) d = (findPeer ps d).map (fun p => if p.conn == c then f p else p) := by
  rw [updatePeer_eq_map]
  apply findPeer_map
  intro p; split <;> simp [hf]

theorem findPeer_updatePeer_self {ps : List Peer} {c : Nat} {f : Peer → Peer} (hf : ∀ p, (f p).conn = p.conn) :
    findPeer (updatePeer ps c f) c = (findPeer ps c).map f := by
  rw [findPeer_updatePeer hf]
  cases h : findPeer ps c with
  | none => rfl
  | some p => simp [(findPeer_some h).2]

theorem findPeer_updatePeer_ne {ps : List Peer} {c d : Nat} {f : Peer → Peer} (hf : ∀ p, (f p).conn = p.conn)
    (hne : d ≠ c) : findPeer (updatePeer ps c f) d = findPeer ps d := by
  rw [findPeer_updatePeer hf]
  cases h : findPeer ps d with
  | none => rfl
  | some p =>
    have := (findPeer_some h).2
    simp [this, hne]

theorem updatePeer_of_not_mem {ps : List Peer} {c : Nat} {f : Peer → Peer} (h : c ∉ conns ps) :
    updatePeer ps c f = ps := by
  rw [updatePeer_eq_map]
  conv => rhs; rw [← List.map_id ps]
  apply List.map_congr_left
  intro p hp
  have : p.conn ≠ c := fun he => h (mem_conns.2 ⟨p, hp, he⟩)
  simp [this]

theorem mem_updatePeer {ps : List Peer} {c : Nat} {f : Peer → Peer} {q : Peer} :
    q ∈ updatePeer ps c f ↔ ∃ p ∈ ps, q = if p.conn == c then f p else p := by
  rw [updatePeer_eq_map, List.mem_map]
  constructor
  · rintro ⟨p, hp, rfl⟩; exact ⟨p, hp, rfl⟩
  · rintro ⟨p, hp, rfl⟩; exact ⟨p, hp, rfl⟩

/-! ## send / emit -/

@[simp] theorem send_st (x : Ctx) (c : Nat) (j : Json) : (send x c j).1.st = x.st := by
  unfold send; split <;> rfl
@[simp] theorem send_indexFull (x : Ctx) (c : Nat) (j : Json) : (send x c j).1.indexFull = x.indexFull := by
  unfold send; split <;> rfl
@[simp] theorem send_routeFull (x : Ctx) (c : Nat) (j : Json) : (send x c j).1.routeFull = x.routeFull := by
  unfold send; split <;> rfl
theorem send_out (x : Ctx) (c : Nat) (j : Json) : (send x c j).1.out = Obs.send c j (send x c j).2 :: x.out := by
  unfold send; split <;> rfl

@[simp] theorem send'_st (x : Ctx) (c : Nat) (j : Json) : (send' x c j).st = x.st := send_st x c j
@[simp] theorem send'_indexFull (x : Ctx) (c : Nat) (j : Json) : (send' x c j).indexFull = x.indexFull :=
  send_indexFull x c j
@[simp] theorem send'_routeFull (x : Ctx) (c : Nat) (j : Json) : (send' x c j).routeFull = x.routeFull :=
  send_routeFull x c j
theorem send'_out (x : Ctx) (c : Nat) (j : Json) : ∃ b, (send' x c j).out = Obs.send c j b :: x.out :=
  ⟨_, send_out x c j⟩

@[simp] theorem emit_st (x : Ctx) (o : Obs) : (emit x o).st = x.st := rfl
@[simp] theorem emit_out (x : Ctx) (o : Obs) : (emit x o).out = o :: x.out := rfl
@[simp] theorem emit_sends (x : Ctx) (o : Obs) : (emit x o).sends = x.sends := rfl
@[simp] theorem emit_indexFull (x : Ctx) (o : Obs) : (emit x o).indexFull = x.indexFull := rfl
@[simp] theorem emit_routeFull (x : Ctx) (o : Obs) : (emit x o).routeFull = x.routeFull := rfl

/-! ## findFetch -/

theorem findFetch_some {ps : List Peer} {fk : FetchKey} {f : Fetch} (h : findFetch ps fk = some f) :
    ∃ p, findPeer ps fk.peer = some p ∧ f ∈ p.fetches ∧ f.uid = fk.uid := by
  unfold findFetch at h
  split at h
  · cases h
  · next p hp =>
    exact ⟨p, hp, List.mem_of_find?_eq_some h, by simpa using List.find?_some h⟩

theorem findFetch_peer_mem {ps : List Peer} {fk : FetchKey} {f : Fetch} (h : findFetch ps fk = some f) :
    fk.peer ∈ conns ps := by
  obtain ⟨p, hp, _⟩ := findFetch_some h
  exact findPeer_isSome.1 (by rw [hp]; rfl)

/-- findFetch only looks at (conn, fetches) of the peers -/
theorem findFetch_map {ps : List Peer} {g : Peer → Peer} (hc : ∀ p, (g p).conn = p.conn)
    (hf : ∀ p, (g p).fetches = p.fetches) (fk : FetchKey) : findFetch (ps.map g) fk = findFetch ps fk := by
  unfold findFetch
  rw [findPeer_map hc]
  cases findPeer ps fk.peer <;> simp [hf]

theorem findFetch_updatePeer {ps : List Peer} {c : Nat} {f : Peer → Peer} (hc : ∀ p, (f p).conn = p.conn)
    (hf : ∀ p, (f p).fetches = p.fetches) (fk : FetchKey) : findFetch (updatePeer ps c f) fk = findFetch ps fk := by
  rw [updatePeer_eq_map]
  apply findFetch_map
  · intro p; split <;> simp [hc]
  · intro p; split <;> simp [hf]

theorem findFetch_updatePeer_ne {ps : List Peer} {c : Nat} {f : Peer → Peer} (hc : ∀ p, (f p).conn = p.conn)
    (fk : FetchKey) (hne : fk.peer ≠ c) : findFetch (updatePeer ps c f) fk = findFetch ps fk := by
  unfold findFetch
  rw [findPeer_updatePeer_ne hc hne]

/-! ## notifications leave the state alone -/

@[simp] theorem notifyOne_st (x : Ctx) (e : Element) (fk : FetchKey) (ev : String) :
    (notifyOne x e fk ev).st = x.st := by
  unfold notifyOne; split <;> simp
@[simp] theorem notifyOne_indexFull (x : Ctx) (e : Element) (fk : FetchKey) (ev : String) :
    (notifyOne x e fk ev).indexFull = x.indexFull := by
  unfold notifyOne; split <;> simp
@[simp] theorem notifyOne_routeFull (x : Ctx) (e : Element) (fk : FetchKey) (ev : String) :
    (notifyOne x e fk ev).routeFull = x.routeFull := by
  unfold notifyOne; split <;> simp

theorem foldl_preserves {α β : Type} (P : β → Prop) (f : β → α → β) (l : List α) (b : β)
    (h0 : P b) (hs : ∀ b a, P b → P (f b a)) : P (l.foldl f b) := by
  induction l generalizing b with
  | nil => exact h0
  | cons a l ih => exact ih _ (hs _ _ h0)

theorem foldl_preserves_mem {α β : Type} (P : β → Prop) (f : β → α → β) (l : List α) (b : β)
    (h0 : P b) (hs : ∀ b a, a ∈ l → P b → P (f b a)) : P (l.foldl f b) := by
  induction l generalizing b with
  | nil => exact h0
  | cons a l ih =>
    exact ih _ (hs _ _ (List.mem_cons_self) h0) (fun b a' ha' => hs b a' (List.mem_cons_of_mem _ ha'))

@[simp] theorem notifyFetchers_st (x : Ctx) (e : Element) (ev : String) : (notifyFetchers x e ev).st = x.st := by
  unfold notifyFetchers
  apply foldl_preserves (fun (y : Ctx) => y.st = x.st)
  · rfl
  · intro b a hb; split <;> simp [hb]
@[simp] theorem notifyFetchers_indexFull (x : Ctx) (e : Element) (ev : String) :
    (notifyFetchers x e ev).indexFull = x.indexFull := by
  unfold notifyFetchers
  apply foldl_preserves (fun (y : Ctx) => y.indexFull = x.indexFull)
  · rfl
  · intro b a hb; split <;> simp [hb]
@[simp] theorem notifyFetchers_routeFull (x : Ctx) (e : Element) (ev : String) :
    (notifyFetchers x e ev).routeFull = x.routeFull := by
  unfold notifyFetchers
  apply foldl_preserves (fun (y : Ctx) => y.routeFull = x.routeFull)
  · rfl
  · intro b a hb; split <;> simp [hb]

/-! ## erasing the send results from an output list -/

/-- an observation with the send result erased (what is sent to whom) -/
def strip : Obs → Obs
  | .send c j _ => .send c j true
  | o => o

@[simp] theorem strip_strip (o : Obs) : strip (strip o) = strip o := by cases o <;> rfl

end Cjet.Daemon.C05
