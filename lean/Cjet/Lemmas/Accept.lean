import Cjet.Accept
/-!
Helper lemmas for `Cjet.Props.Accept`: projections of traces, the shape of the events one
connection produces, the reference monitor over one connection, the errno classes.
-/
namespace Cjet.Accept

open Cjet.Generated.Accept

/-! ## projections distribute over append -/

theorem closes_append (a b : List Ev) : closes (a ++ b) = closes a ++ closes b := by
  induction a with
  | nil => rfl
  | cons e t ih => cases e <;> simp [closes, ih]

theorem owners_append (a b : List Ev) : owners (a ++ b) = owners a ++ owners b := by
  induction a with
  | nil => rfl
  | cons e t ih => cases e <;> simp [owners, ih]

theorem accepted_append (a b : List Ev) : accepted (a ++ b) = accepted a ++ accepted b := by
  induction a with
  | nil => rfl
  | cons e t ih => cases e <;> simp [accepted, ih]

theorem allocs_append (a b : List Ev) : allocs (a ++ b) = allocs a ++ allocs b := by
  induction a with
  | nil => rfl
  | cons e t ih => cases e <;> simp [allocs, ih]

theorem frees_append (a b : List Ev) : frees (a ++ b) = frees a ++ frees b := by
  induction a with
  | nil => rfl
  | cons e t ih => cases e <;> simp [frees, ih]

theorem acceptErrs_append (a b : List Ev) : acceptErrs (a ++ b) = acceptErrs a ++ acceptErrs b := by
  induction a with
  | nil => rfl
  | cons e t ih => cases e <;> simp [acceptErrs, ih]

/-! ## prepare_peer_socket only makes system calls on its descriptor -/

/-- "every event is a system call on `fd`" -/
def OnlySys (fd : Nat) (t : List Ev) : Prop := ∀ e ∈ t, ∃ c ok, e = Ev.sys fd c ok

theorem runSteps_onlySys (fd : Nat) (steps : List (Sys × Bool)) : OnlySys fd (runSteps fd steps).1 := by
  induction steps with
  | nil => intro e he; simp [runSteps] at he
  | cons st rest ih =>
    obtain ⟨c, ok⟩ := st
    intro e he
    unfold runSteps at he
    split at he
    · simp only [List.mem_cons] at he
      rcases he with rfl | he
      · exact ⟨c, true, rfl⟩
      · exact ih e he
    · simp only [List.mem_cons, List.not_mem_nil, or_false] at he
      exact ⟨c, false, he⟩

theorem prepare_onlySys (fd : Nat) (s : Setup) : OnlySys fd (prepare fd s).1 :=
  runSteps_onlySys fd _

theorem OnlySys.closes {fd : Nat} {t : List Ev} (h : OnlySys fd t) : closes t = [] := by
  induction t with
  | nil => rfl
  | cons e t ih =>
    obtain ⟨c, ok, rfl⟩ := h e (List.mem_cons_self)
    simp only [Accept.closes]
    exact ih (fun e he => h e (List.mem_cons_of_mem _ he))

theorem OnlySys.owners {fd : Nat} {t : List Ev} (h : OnlySys fd t) : owners t = [] := by
  induction t with
  | nil => rfl
  | cons e t ih =>
    obtain ⟨c, ok, rfl⟩ := h e (List.mem_cons_self)
    simp only [Accept.owners]
    exact ih (fun e he => h e (List.mem_cons_of_mem _ he))

theorem OnlySys.accepted {fd : Nat} {t : List Ev} (h : OnlySys fd t) : accepted t = [] := by
  induction t with
  | nil => rfl
  | cons e t ih =>
    obtain ⟨c, ok, rfl⟩ := h e (List.mem_cons_self)
    simp only [Accept.accepted]
    exact ih (fun e he => h e (List.mem_cons_of_mem _ he))

theorem OnlySys.allocs {fd : Nat} {t : List Ev} (h : OnlySys fd t) : allocs t = [] := by
  induction t with
  | nil => rfl
  | cons e t ih =>
    obtain ⟨c, ok, rfl⟩ := h e (List.mem_cons_self)
    simp only [Accept.allocs]
    exact ih (fun e he => h e (List.mem_cons_of_mem _ he))

theorem OnlySys.frees {fd : Nat} {t : List Ev} (h : OnlySys fd t) : frees t = [] := by
  induction t with
  | nil => rfl
  | cons e t ih =>
    obtain ⟨c, ok, rfl⟩ := h e (List.mem_cons_self)
    simp only [Accept.frees]
    exact ih (fun e he => h e (List.mem_cons_of_mem _ he))

theorem OnlySys.acceptErrs {fd : Nat} {t : List Ev} (h : OnlySys fd t) : acceptErrs t = [] := by
  induction t with
  | nil => rfl
  | cons e t ih =>
    obtain ⟨c, ok, rfl⟩ := h e (List.mem_cons_self)
    simp only [Accept.acceptErrs]
    exact ih (fun e he => h e (List.mem_cons_of_mem _ he))

/-- The monitor passes over system calls on the descriptor in flight without changing state. -/
theorem OnlySys.mon {fd : Nat} {t : List Ev} (h : OnlySys fd t) (live : List Obj) (rest : List Ev) :
    Mon.run ⟨some fd, live⟩ (t ++ rest) = Mon.run ⟨some fd, live⟩ rest := by
  induction t with
  | nil => rfl
  | cons e t ih =>
    obtain ⟨c, ok, rfl⟩ := h e (List.mem_cons_self)
    simp only [List.cons_append, Mon.run, Mon.step, if_true]
    exact ih (fun e he => h e (List.mem_cons_of_mem _ he))

/-! ## what one connection produces -/

/-- The five ways the set-up of one connection ends (`pre` = the system calls of
    `prepare_peer_socket`, `o` = the owner record of the listener kind). -/
inductive Shape (fd : Nat) (loc : Bool) (k : Kind) (o : Obj) (pre : List Ev) : List Ev → Prop where
  | prepFail : Shape fd loc k o pre (pre ++ [.close fd])
  | ownerFail : Shape fd loc k o pre (pre ++ [.allocFail o, .close fd])
  | bsFail : Shape fd loc k o pre (pre ++ [.alloc o, .allocFail .bs, .free o, .close fd])
  | initFail : Shape fd loc k o pre (pre ++ [.alloc o, .alloc .bs, .initFail, .free .bs, .free o, .close fd])
  | owned : Shape fd loc k o pre (pre ++ [.alloc o, .alloc .bs, .owned fd loc k])

theorem handleJet_shape (fd : Nat) (loc : Bool) (s : Setup) :
    Shape fd loc .jet .peer (prepare fd s).1 (handleJet fd loc s) := by
  unfold handleJet
  split
  · exact .prepFail
  · split
    · exact .ownerFail
    · split
      · exact .bsFail
      · split
        · exact .initFail
        · exact .owned

theorem handleHttp_shape (fd : Nat) (loc : Bool) (s : Setup) :
    Shape fd loc .http .conn (prepare fd s).1 (handleHttp fd loc s) := by
  unfold handleHttp
  split
  · exact .prepFail
  · split
    · exact .ownerFail
    · split
      · exact .bsFail
      · split
        · exact .initFail
        · exact .owned

/-- Summary of one connection's events, for every listener kind. -/
structure BlockFacts (k : Kind) (fd : Nat) (h : List Ev) : Prop where
  accepted : accepted h = []
  acceptErrs : acceptErrs h = []
  resolved : (closes h = [fd] ∧ owners h = [] ∧ frees h = (allocs h).reverse ∧ (allocs h).Nodup) ∨
    (closes h = [] ∧ owners h = [fd] ∧ allocs h = [ownerObj k, .bs] ∧ frees h = [])
  mon : ∀ rest, Mon.run ⟨some fd, []⟩ (h ++ rest) = Mon.run ⟨none, []⟩ rest

theorem Shape.facts {fd : Nat} {loc : Bool} {k : Kind} {o : Obj} {pre h : List Ev}
    (hs : Shape fd loc k o pre h) (hp : OnlySys fd pre) (ho : o = ownerObj k) (hne : o ≠ .bs) :
    BlockFacts k fd h := by
  subst ho
  have hne' : Obj.bs ≠ ownerObj k := fun e => hne e.symm
  cases hs with
  | prepFail =>
    refine ⟨?_, ?_, ?_, ?_⟩
    · simp [accepted_append, hp.accepted, Accept.accepted]
    · simp [acceptErrs_append, hp.acceptErrs, Accept.acceptErrs]
    · left
      simp [closes_append, owners_append, frees_append, allocs_append, hp.closes, hp.owners, hp.frees, hp.allocs,
        closes, owners, frees, allocs]
    · intro rest
      rw [List.append_assoc, hp.mon]
      simp [Mon.run, Mon.step]
  | ownerFail =>
    refine ⟨?_, ?_, ?_, ?_⟩
    · simp [accepted_append, hp.accepted, Accept.accepted]
    · simp [acceptErrs_append, hp.acceptErrs, Accept.acceptErrs]
    · left
      simp [closes_append, owners_append, frees_append, allocs_append, hp.closes, hp.owners, hp.frees, hp.allocs,
        closes, owners, frees, allocs]
    · intro rest
      rw [List.append_assoc, hp.mon]
      simp [Mon.run, Mon.step]
  | bsFail =>
    refine ⟨?_, ?_, ?_, ?_⟩
    · simp [accepted_append, hp.accepted, Accept.accepted]
    · simp [acceptErrs_append, hp.acceptErrs, Accept.acceptErrs]
    · left
      simp [closes_append, owners_append, frees_append, allocs_append, hp.closes, hp.owners, hp.frees, hp.allocs,
        closes, owners, frees, allocs]
    · intro rest
      rw [List.append_assoc, hp.mon]
      simp [Mon.run, Mon.step]
  | initFail =>
    refine ⟨?_, ?_, ?_, ?_⟩
    · simp [accepted_append, hp.accepted, Accept.accepted]
    · simp [acceptErrs_append, hp.acceptErrs, Accept.acceptErrs]
    · left
      simp [closes_append, owners_append, frees_append, allocs_append, hp.closes, hp.owners, hp.frees, hp.allocs,
        closes, owners, frees, allocs, hne]
    · intro rest
      rw [List.append_assoc, hp.mon]
      simp [Mon.run, Mon.step, hne']
  | owned =>
    refine ⟨?_, ?_, ?_, ?_⟩
    · simp [accepted_append, hp.accepted, Accept.accepted]
    · simp [acceptErrs_append, hp.acceptErrs, Accept.acceptErrs]
    · right
      simp [closes_append, owners_append, frees_append, allocs_append, hp.closes, hp.owners, hp.frees, hp.allocs,
        closes, owners, frees, allocs]
    · intro rest
      rw [List.append_assoc, hp.mon]
      simp [Mon.run, Mon.step, hne']

theorem handle_facts (k : Kind) (fd : Nat) (loc : Bool) (s : Setup) : BlockFacts k fd (handle k fd loc s) := by
  cases k with
  | jet => exact (handleJet_shape fd loc s).facts (prepare_onlySys fd s) rfl (by decide)
  | http => exact (handleHttp_shape fd loc s).facts (prepare_onlySys fd s) rfl (by decide)
  | none =>
    refine ⟨rfl, rfl, Or.inl ⟨rfl, rfl, rfl, List.nodup_nil⟩, ?_⟩
    intro rest
    simp [handle, Mon.run, Mon.step]

theorem Shape.noRemove {fd : Nat} {loc : Bool} {k : Kind} {o : Obj} {pre h : List Ev}
    (hs : Shape fd loc k o pre h) (hp : OnlySys fd pre) (l : Nat) : Ev.remove l ∉ h := by
  have hpre : Ev.remove l ∉ pre := by
    intro hm
    obtain ⟨c, ok, hh⟩ := hp _ hm
    cases hh
  cases hs <;> simp [hpre]

theorem handle_noRemove (k : Kind) (fd : Nat) (loc : Bool) (s : Setup) (l : Nat) : Ev.remove l ∉ handle k fd loc s := by
  cases k with
  | jet => exact (handleJet_shape fd loc s).noRemove (prepare_onlySys fd s) l
  | http => exact (handleHttp_shape fd loc s).noRemove (prepare_onlySys fd s) l
  | none => simp [handle]

/-! ## errno classes -/

theorem defaultAct_stop : defaultAct = .stop := by decide

theorem classify_abort_iff (e : Nat) : classify e = .abort ↔ e ∈ fatalErrnos := by
  unfold classify
  split
  · simp [*]
  · rename_i h
    split
    · simp [h]
    · split
      · simp [h]
      · simp [h, defaultAct_stop]

theorem retry_not_fatal : ∀ e ∈ retryErrnos, e ∉ fatalErrnos := by decide

theorem classify_retry_iff (e : Nat) : classify e = .retry ↔ e ∈ retryErrnos := by
  unfold classify
  split
  · rename_i h
    constructor
    · intro h'; cases h'
    · intro h'; exact absurd h (retry_not_fatal e h')
  · split
    · simp [*]
    · rename_i h2
      split
      · simp [h2]
      · simp [h2, defaultAct_stop]

theorem classify_stop_iff (e : Nat) : classify e = .stop ↔ e ∉ fatalErrnos ∧ e ∉ retryErrnos := by
  constructor
  · intro h
    constructor
    · intro hf; rw [(classify_abort_iff e).mpr hf] at h; cases h
    · intro hr; rw [(classify_retry_iff e).mpr hr] at h; cases h
  · intro ⟨hf, hr⟩
    cases hc : classify e with
    | stop => rfl
    | retry => exact absurd ((classify_retry_iff e).mp hc) hr
    | abort => exact absurd ((classify_abort_iff e).mp hc) hf

theorem classify_eagain : classify EAGAIN = .stop := by decide

/-! ## the loop -/

theorem acceptLoop_nil (k : Kind) (l : Nat) :
    acceptLoop k l [] = ⟨[.acceptErr l EAGAIN], .continueLoop, 0⟩ := by
  simp [acceptLoop, classify_eagain]

theorem acceptLoop_conn (k : Kind) (l fd fam : Nat) (sa : List UInt8) (s : Setup) (rest : List Ans) :
    acceptLoop k l (.conn fd fam sa s :: rest) =
      ⟨.acceptFd l fd :: (handle k fd (isLocalhost fam sa) s ++ (acceptLoop k l rest).trace),
       (acceptLoop k l rest).ret, (acceptLoop k l rest).used + 1⟩ := by
  simp [acceptLoop]

theorem acceptLoop_retry (k : Kind) (l e : Nat) (rest : List Ans) (h : classify e = .retry) :
    acceptLoop k l (.err e :: rest) =
      ⟨.acceptErr l e :: (acceptLoop k l rest).trace, (acceptLoop k l rest).ret, (acceptLoop k l rest).used + 1⟩ := by
  simp [acceptLoop, h]

theorem acceptLoop_stop (k : Kind) (l e : Nat) (rest : List Ans) (h : classify e = .stop) :
    acceptLoop k l (.err e :: rest) = ⟨[.acceptErr l e], .continueLoop, 1⟩ := by
  simp [acceptLoop, h]

theorem acceptLoop_abort (k : Kind) (l e : Nat) (rest : List Ans) (h : classify e = .abort) :
    acceptLoop k l (.err e :: rest) = ⟨[.acceptErr l e], .abortLoop, 1⟩ := by
  simp [acceptLoop, h]

/-- Induction principle that follows the loop: empty queue, a connection, and the three errno classes. -/
theorem acceptLoop_induct {motive : List Ans → Prop}
    (nil : motive [])
    (conn : ∀ fd fam sa s rest, motive rest → motive (.conn fd fam sa s :: rest))
    (retry : ∀ e rest, classify e = .retry → motive rest → motive (.err e :: rest))
    (stop : ∀ e rest, classify e = .stop → motive (.err e :: rest))
    (abort : ∀ e rest, classify e = .abort → motive (.err e :: rest)) :
    ∀ script, motive script := by
  intro script
  induction script with
  | nil => exact nil
  | cons a rest ih =>
    cases a with
    | conn fd fam sa s => exact conn fd fam sa s rest ih
    | err e =>
      cases hc : classify e with
      | stop => exact stop e rest hc
      | retry => exact retry e rest hc ih
      | abort => exact abort e rest hc

theorem cut_retry (e : Nat) (rest : List Ans) (h : classify e = .retry) : cut (.err e :: rest) = .err e :: cut rest := by
  simp [cut, h]

theorem cut_noretry (e : Nat) (rest : List Ans) (h : classify e ≠ .retry) : cut (.err e :: rest) = [.err e] := by
  simp [cut, h]

theorem cut_conn (fd fam : Nat) (sa : List UInt8) (s : Setup) (rest : List Ans) :
    cut (.conn fd fam sa s :: rest) = .conn fd fam sa s :: cut rest := by
  simp [cut]

theorem used_eq_cut_length (k : Kind) (l : Nat) : ∀ script, (acceptLoop k l script).used = (cut script).length := by
  apply acceptLoop_induct
  · simp [acceptLoop_nil, cut]
  · intro fd fam sa s rest ih; simp [acceptLoop_conn, cut_conn, ih]
  · intro e rest h ih; simp [acceptLoop_retry _ _ _ _ h, cut_retry _ _ h, ih]
  · intro e rest h; simp [acceptLoop_stop _ _ _ _ h, cut_noretry e rest (by simp [h])]
  · intro e rest h; simp [acceptLoop_abort _ _ _ _ h, cut_noretry e rest (by simp [h])]

theorem cut_prefix : ∀ script, cut script <+: script := by
  intro script
  induction script with
  | nil => simp [cut]
  | cons a rest ih =>
    cases a with
    | conn fd fam sa s => rw [cut_conn]; exact (List.prefix_cons_inj _).mpr ih
    | err e =>
      by_cases h : classify e = .retry
      · rw [cut_retry _ _ h]; exact (List.prefix_cons_inj _).mpr ih
      · rw [cut_noretry _ _ h]; exact ⟨rest, rfl⟩

/-- A prefix of connections and retry-class errnos is consumed entirely. -/
theorem cut_append_of_retry (pre rest : List Ans) (h : ∀ a ∈ pre, a.isConn = true ∨ a.isRetry = true) :
    cut (pre ++ rest) = pre ++ cut rest := by
  induction pre with
  | nil => rfl
  | cons a pre ih =>
    have ih' := ih (fun a ha => h a (List.mem_cons_of_mem _ ha))
    cases a with
    | conn fd fam sa s => simp [cut_conn, ih']
    | err e =>
      have : classify e = .retry := by
        rcases h (.err e) (List.mem_cons_self) with h1 | h1
        · simp [Ans.isConn] at h1
        · simpa [Ans.isRetry] using h1
      simp [cut_retry _ _ this, ih']

/-! ## is_localhost -/

theorem field_length (sa : List UInt8) (off n : Nat) : (field sa off n).length = n := by
  simp [field]

theorem field_getElem (sa : List UInt8) (off n i : Nat) (h : i < (field sa off n).length) :
    (field sa off n)[i] = sa.getD (off + i) 0 := by
  simp [field]

/-- Reading a field that lies completely inside what the kernel stored. -/
theorem field_append (pre a post : List UInt8) : field (pre ++ a ++ post) pre.length a.length = a := by
  apply List.ext_getElem
  · simp [field]
  · intro i h1 h2
    rw [field_getElem]
    simp [List.getD_eq_getElem?_getD, List.getElem?_append_right, List.getElem?_append_left, h2]

/-- Beyond what the kernel stored the zeroed storage reads 0. -/
theorem field_last_zero_of_short (sa : List UInt8) (off n : Nat) (h : sa.length ≤ off + n) :
    (field sa off (n + 1))[n]'(by simp [field]) = 0 := by
  rw [field_getElem]
  simp [List.getD_eq_getElem?_getD, List.getElem?_eq_none h]

/-! ## connFds -/

theorem connFds_err (e : Nat) (t : List Ans) : connFds (.err e :: t) = connFds t := rfl

theorem connFds_conn (fd fam : Nat) (sa : List UInt8) (s : Setup) (t : List Ans) :
    connFds (.conn fd fam sa s :: t) = fd :: connFds t := rfl

theorem connFds_nil : connFds [] = [] := rfl

/-! ## accounting over the loop -/

theorem accepted_eq_connFds_cut (k : Kind) (l : Nat) :
    ∀ script, accepted (acceptLoop k l script).trace = connFds (cut script) := by
  apply acceptLoop_induct
  · simp [acceptLoop_nil, accepted, cut, connFds_nil]
  · intro fd fam sa s rest ih
    simp only [acceptLoop_conn, accepted, accepted_append, (handle_facts k fd _ s).accepted, cut_conn, ih,
      connFds_conn, List.nil_append]
  · intro e rest h ih
    simp only [acceptLoop_retry _ _ _ _ h, accepted, cut_retry _ _ h, ih, connFds_err]
  · intro e rest h
    simp [acceptLoop_stop _ _ _ _ h, accepted, cut_noretry e rest (by simp [h]), connFds_err, connFds_nil]
  · intro e rest h
    simp [acceptLoop_abort _ _ _ _ h, accepted, cut_noretry e rest (by simp [h]), connFds_err, connFds_nil]

theorem fd_count_eq (k : Kind) (l : Nat) (x : Nat) :
    ∀ script, (closes (acceptLoop k l script).trace).count x + (owners (acceptLoop k l script).trace).count x =
      (accepted (acceptLoop k l script).trace).count x := by
  apply acceptLoop_induct
  · simp [acceptLoop_nil, accepted, closes, owners]
  · intro fd fam sa s rest ih
    have hf := handle_facts k fd (isLocalhost fam sa) s
    simp only [acceptLoop_conn, accepted, closes, owners, accepted_append, closes_append, owners_append, hf.accepted,
      List.count_append, List.nil_append, List.count_cons]
    rcases hf.resolved with ⟨hc, ho, _, _⟩ | ⟨hc, ho, _, _⟩
    · rw [hc, ho]; simp only [List.count_cons, List.count_nil]; omega
    · rw [hc, ho]; simp only [List.count_cons, List.count_nil]; omega
  · intro e rest h ih
    simpa [acceptLoop_retry _ _ _ _ h, accepted, closes, owners] using ih
  · intro e rest h; simp [acceptLoop_stop _ _ _ _ h, accepted, closes, owners]
  · intro e rest h; simp [acceptLoop_abort _ _ _ _ h, accepted, closes, owners]

/-! ## the loop over an endless kernel -/

theorem acceptLoopS_conn (k : Kind) (l : Nat) (kern : Nat → Ans) (f i fd fam : Nat) (sa : List UInt8) (s : Setup)
    (h : kern i = .conn fd fam sa s) :
    acceptLoopS k l kern (f + 1) i = (acceptLoopS k l kern f (i + 1)).map
      (fun r => (.acceptFd l fd :: (handle k fd (isLocalhost fam sa) s ++ r.1), r.2)) := by
  rw [acceptLoopS]; simp only [h]

theorem acceptLoopS_retry (k : Kind) (l : Nat) (kern : Nat → Ans) (f i e : Nat)
    (h : kern i = .err e) (hc : classify e = .retry) :
    acceptLoopS k l kern (f + 1) i = (acceptLoopS k l kern f (i + 1)).map (fun r => (.acceptErr l e :: r.1, r.2)) := by
  rw [acceptLoopS]; simp only [h, hc]

theorem acceptLoopS_stop (k : Kind) (l : Nat) (kern : Nat → Ans) (f i e : Nat)
    (h : kern i = .err e) (hc : classify e = .stop) :
    acceptLoopS k l kern (f + 1) i = some ([.acceptErr l e], .continueLoop) := by
  rw [acceptLoopS]; simp only [h, hc]

theorem acceptLoopS_abort (k : Kind) (l : Nat) (kern : Nat → Ans) (f i e : Nat)
    (h : kern i = .err e) (hc : classify e = .abort) :
    acceptLoopS k l kern (f + 1) i = some ([.acceptErr l e], .abortLoop) := by
  rw [acceptLoopS]; simp only [h, hc]

/-- Looking at the kernel from the second call on. -/
theorem acceptLoopS_shift (k : Kind) (l : Nat) (kern : Nat → Ans) :
    ∀ fuel i, acceptLoopS k l kern fuel (i + 1) = acceptLoopS k l (fun j => kern (j + 1)) fuel i := by
  intro fuel
  induction fuel with
  | zero => intro i; rfl
  | succ f ih =>
    intro i
    cases hk : kern (i + 1) with
    | conn fd fam sa s =>
      rw [acceptLoopS_conn _ _ _ _ _ _ _ _ _ hk, acceptLoopS_conn k l (fun j => kern (j + 1)) f i fd fam sa s hk, ih]
    | err e =>
      cases hc : classify e with
      | stop => rw [acceptLoopS_stop _ _ _ _ _ _ hk hc, acceptLoopS_stop k l (fun j => kern (j + 1)) f i e hk hc]
      | abort => rw [acceptLoopS_abort _ _ _ _ _ _ hk hc, acceptLoopS_abort k l (fun j => kern (j + 1)) f i e hk hc]
      | retry => rw [acceptLoopS_retry _ _ _ _ _ _ hk hc, acceptLoopS_retry k l (fun j => kern (j + 1)) f i e hk hc, ih]

theorem kernOf_zero (a : Ans) (rest : List Ans) : kernOf (a :: rest) 0 = a := by simp [kernOf]

theorem kernOf_succ (a : Ans) (rest : List Ans) : (fun j => kernOf (a :: rest) (j + 1)) = kernOf rest := by
  funext j; simp [kernOf]

end Cjet.Accept
