/-
  DaemonC14Elem — a predicate on (owner connection, path, timeout) of elements that is established
  when an element is created by `add` and that no other handler can break: the `timeout` an
  element was added with never changes.  Generic in the predicate `P`; `EO` (DaemonC03Elem) is
  assumed where the owner of a looked-up element has to be known.
-/
import Cjet.Lemmas.DaemonC03Elem
import Cjet.Lemmas.DaemonC03Step

namespace Cjet.Daemon.C14

open Cjet Cjet.Json Cjet.Daemon Cjet.Daemon.C03

/-- every element of `q`'s list satisfies `P q.conn path timeoutNs` -/
def EPp (P : Nat → Bytes → Nat → Prop) (q : Peer) : Prop := ∀ e ∈ q.elements, P q.conn e.path e.timeoutNs

def EP (P : Nat → Bytes → Nat → Prop) (s : State) : Prop := ∀ p ∈ s.peers, EPp P p

variable {P : Nat → Bytes → Nat → Prop}

theorem ep_updatePeer {ps : List Peer} {c : Nat} {f : Peer → Peer} (h : ∀ p ∈ ps, EPp P p)
    (hf : ∀ q ∈ ps, q.conn = c → EPp P q → EPp P (f q)) : ∀ p ∈ updatePeer ps c f, EPp P p := by
  intro p hp
  obtain ⟨q, hq, rfl⟩ := mem_updatePeer.mp hp
  split
  · next hc => exact hf q hq (by simpa using hc) (h q hq)
  · exact h q hq

theorem ep_map {ps : List Peer} {g : Peer → Peer} (h : ∀ p ∈ ps, EPp P p)
    (hg : ∀ q ∈ ps, EPp P q → EPp P (g q)) : ∀ p ∈ ps.map g, EPp P p := by
  intro p hp
  obtain ⟨q, hq, rfl⟩ := List.mem_map.mp hp
  exact hg q hq (h q hq)

theorem ep_mapElements {ps : List Peer} {f : Element → Element} (h : ∀ p ∈ ps, EPp P p)
    (hf : ∀ e, (f e).path = e.path ∧ (f e).timeoutNs = e.timeoutNs) : ∀ p ∈ mapElements ps f, EPp P p := by
  unfold mapElements
  apply ep_map h
  intro q _ hq e he
  obtain ⟨e0, he0, rfl⟩ := List.mem_map.mp he
  rw [(hf e0).1, (hf e0).2]; exact hq e0 he0

/-! ## the element handed back by the offer functions -/

theorem offerElement_sig (cfg : Config) (x : Ctx) (e : Element) (fp : Peer) (f : Fetch) :
    (offerElement cfg x e fp f).2.path = e.path ∧ (offerElement cfg x e fp f).2.timeoutNs = e.timeoutNs := by
  unfold offerElement
  split
  · exact ⟨rfl, rfl⟩
  · split <;> exact ⟨rfl, rfl⟩

theorem findFetchersForElement_sig (cfg : Config) (x : Ctx) (e : Element) :
    (findFetchersForElement cfg x e).2.path = e.path ∧ (findFetchersForElement cfg x e).2.timeoutNs = e.timeoutNs := by
  unfold findFetchersForElement
  apply foldl_inv (fun (acc : Ctx × Element) => acc.2.path = e.path ∧ acc.2.timeoutNs = e.timeoutNs)
  · exact ⟨rfl, rfl⟩
  · intro acc fp _ hacc
    apply foldl_inv (fun (acc : Ctx × Element) => acc.2.path = e.path ∧ acc.2.timeoutNs = e.timeoutNs)
    · exact hacc
    · intro acc' f _ hacc'
      have := offerElement_sig cfg acc'.1 acc'.2 fp f
      exact ⟨this.1.trans hacc'.1, this.2.trans hacc'.2⟩

/-! ## handlers -/

/-- the element the index leads to satisfies `P` for the connection its owner field names -/
theorem findElement_ep {s : State} (heo : EO s) (h : EP P s) {path : Bytes} {e : Element}
    (he : findElement s path = some e) : P e.owner e.path e.timeoutNs := by
  unfold findElement at he
  split at he
  · cases he
  · split at he
    · cases he
    · next q hq =>
      have hmem := List.mem_of_find?_eq_some he
      rw [heo q (findPeer_mem hq) e hmem]
      exact h q (findPeer_mem hq) e hmem

theorem ep_changeState (x : Ctx) (p : Peer) (req : Json) (heo : EO x.st) (h : EP P x.st) :
    EP P (changeState x p req).1.st := by
  unfold changeState
  repeat' (first | split | dsimp only)
  all_goals (first | exact h | skip)
  next hfe hown _ =>
  simp only [notifyFetchers_st]
  apply ep_updatePeer h
  intro q _ hqc hq e' he'
  obtain ⟨el, hel, rfl⟩ := List.mem_map.mp he'
  split
  · have hpe := findElement_ep heo h hfe
    have : ¬ (_ != p.conn) = true := hown
    simp only [bne_iff_ne, ne_eq, Decidable.not_not] at this
    rw [this, ← hqc] at hpe
    exact hpe
  · exact hq el hel

/-- what `add` demands of the predicate: it holds for the new element's path and the timeout the
    add request declares (or the configured default) -/
def AddOk (P : Nat → Bytes → Nat → Prop) (cfg : Config) (c : Nat) (req : Json) : Prop :=
  ∀ params path tns, getParamsAndPath req = .ok params path →
    getTimeout cfg (params.getItem (k "timeout")) cfg.defaultTimeoutNs = .ns tns → P c path tns

theorem ep_addElement (cfg : Config) (x : Ctx) (p : Peer) (req : Json) (h : EP P x.st)
    (hnew : AddOk P cfg p.conn req) : EP P (addElement cfg x p req).1.st := by
  unfold addElement
  repeat' (first | split | dsimp only)
  all_goals (first | exact h | skip)
  all_goals first
    | (simp only [notifyFetchers_st, findFetchersForElement_st]; exact h)
    | (simp only [findFetchersForElement_st]
       apply ep_updatePeer h
       intro q _ hqc hq e' he'
       simp only [List.mem_append, List.mem_singleton] at he'
       rcases he' with he' | rfl
       · exact hq e' he'
       · rw [(findFetchersForElement_sig ..).1, (findFetchersForElement_sig ..).2, hqc]
         exact hnew _ _ _ (by assumption) (by assumption))

theorem ep_removeElement (x : Ctx) (e : Element) (h : EP P x.st) : EP P (removeElement x e).st := by
  unfold removeElement
  simp only [notifyFetchers_st]
  apply ep_updatePeer h
  intro q _ _ hq e' he'
  exact hq e' (List.mem_filter.mp he').1

theorem ep_removeElementReq (x : Ctx) (p : Peer) (req : Json) (h : EP P x.st) :
    EP P (removeElementReq x p req).1.st := by
  unfold removeElementReq
  repeat' (first | split | dsimp only)
  all_goals (first | exact h | exact ep_removeElement _ _ h)

theorem ep_offer_step (cfg : Config) (y : Ctx) (oc : Nat) (e : Element) (fp : Peer) (f : Fetch)
    (hy : EP P y.st) (hpe : P oc e.path e.timeoutNs) :
    EP P ({ (offerElement cfg y e fp f).1 with st := { (offerElement cfg y e fp f).1.st with
      peers := updatePeer (offerElement cfg y e fp f).1.st.peers oc (fun q =>
        { q with elements := q.elements.map (fun el =>
          if el.path == (offerElement cfg y e fp f).2.path then (offerElement cfg y e fp f).2 else el) }) } } : Ctx).st := by
  simp only [offerElement_st]
  apply ep_updatePeer hy
  intro q _ hqc hq e' he'
  obtain ⟨el, hel, rfl⟩ := List.mem_map.mp he'
  have hs := offerElement_sig cfg y e fp f
  by_cases hc : (el.path == (offerElement cfg y e fp f).2.path) = true
  · simp only [hc, ↓reduceIte]
    show P q.conn _ _
    rw [hs.1, hs.2, hqc]; exact hpe
  · simp only [hc, Bool.false_eq_true, ↓reduceIte]
    exact hq el hel

theorem ep_offerAllElements (cfg : Config) (x : Ctx) (fp : Peer) (f : Fetch) (h : EP P x.st) :
    EP P (offerAllElements cfg x fp f).st := by
  unfold offerAllElements
  apply foldl_inv (fun (y : Ctx) => EP P y.st)
  · exact h
  · intro y owner hown hy
    apply foldl_inv (fun (y : Ctx) => EP P y.st)
    · exact hy
    · intro y' e0 he0 hy'
      dsimp only
      apply ep_offer_step cfg y' owner.conn _ fp f hy'
      split
      · next e hfind =>
        obtain ⟨q', hq', hfe⟩ := Option.bind_eq_some_iff.mp hfind
        have := hy' q' (findPeer_mem hq') e (List.mem_of_find?_eq_some hfe)
        rwa [findPeer_conn hq'] at this
      · exact h owner hown e0 he0

theorem ep_fetchReq (cfg : Config) (x : Ctx) (p : Peer) (req : Json) (h : EP P x.st) :
    EP P (fetchReq cfg x p req).1.st := by
  unfold fetchReq
  repeat' (first | split | dsimp only)
  all_goals (first | exact h | skip)
  all_goals
    apply ep_offerAllElements
    exact ep_updatePeer h (fun _ _ _ hq => hq)

theorem ep_unfetchReq (x : Ctx) (p : Peer) (req : Json) (h : EP P x.st) : EP P (unfetchReq x p req).1.st := by
  unfold unfetchReq
  repeat' (first | split | dsimp only)
  all_goals (first | exact h | skip)
  unfold dropFetch
  exact ep_updatePeer (ep_mapElements h (fun _ => ⟨rfl, rfl⟩)) (fun _ _ _ hq => hq)

theorem ep_getReq (cfg : Config) (x : Ctx) (p : Peer) (req : Json) (h : EP P x.st) : EP P (getReq cfg x p req).1.st := by
  unfold getReq
  repeat' (first | split | dsimp only)
  all_goals exact h

theorem ep_configReq (x : Ctx) (p : Peer) (req : Json) (h : EP P x.st) : EP P (configReq x p req).1.st := by
  unfold configReq
  repeat' (first | split | dsimp only)
  all_goals (first | exact h | exact ep_updatePeer h (fun _ _ _ hq => hq))

theorem ep_authenticateReq (cfg : Config) (x : Ctx) (p : Peer) (req : Json) (h : EP P x.st) :
    EP P (authenticateReq cfg x p req).1.st := by
  unfold authenticateReq
  repeat' (first | split | dsimp only)
  all_goals (first | exact h | exact ep_updatePeer h (fun _ _ _ hq => hq))

theorem ep_passwdReq (x : Ctx) (p : Peer) (req : Json) (h : EP P x.st) : EP P (passwdReq x p req).1.st := by
  unfold passwdReq
  repeat' (first | split | dsimp only)
  all_goals exact h

theorem ep_removeRoute {ps : List Peer} {o : Nat} {rid : Bytes} (h : ∀ p ∈ ps, EPp P p) :
    ∀ p ∈ removeRoute ps o rid, EPp P p :=
  ep_updatePeer h (fun _ _ _ hq => hq)

theorem ep_routeCore (cfg : Config) (x : Ctx) (p : Peer) (req : Json) (isState : Bool)
    (params : Json) (path : Bytes) (e : Element) (h : EP P x.st) :
    EP P (routeCore cfg x p req isState params path e).1.st := by
  unfold routeCore
  repeat' (first | split | dsimp only)
  all_goals first
    | exact h
    | (simp only [send_st, stored, emit_st]
       exact ep_updatePeer h (fun _ _ _ hq => hq))
    | (simp only [emit_st, send_st, stored]
       exact ep_removeRoute (ep_updatePeer h (fun _ _ _ hq => hq)))

theorem ep_setOrCall (cfg : Config) (x : Ctx) (p : Peer) (req : Json) (isState : Bool) (h : EP P x.st) :
    EP P (setOrCall cfg x p req isState).1.st := by
  rcases setOrCall_cases cfg x p req isState with h1 | ⟨params, path, e, hc⟩
  · rw [h1]; exact h
  · rw [setOrCall_of_checks hc]; exact ep_routeCore _ _ _ _ _ _ _ _ h

theorem ep_routingResponse (x : Ctx) (p : Peer) (msg payload : Json) (typ : String) (h : EP P x.st) :
    EP P (routingResponse x p msg payload typ).1.st := by
  unfold routingResponse
  repeat' (first | split | dsimp only)
  all_goals (first | exact h | (simp only [send'_st, emit_st]; exact ep_removeRoute h))

theorem ep_timeoutFired (x : Ctx) (t : Nat) (h : EP P x.st) : EP P (timeoutFired x t).st := by
  unfold timeoutFired
  repeat' (first | split | dsimp only)
  all_goals (first | exact h | (simp only [send'_st, emit_st]; exact ep_removeRoute h))

theorem ep_sendResponse (x : Ctx) (c : Nat) (r : Option Json) (h : EP P x.st) : EP P (sendResponse x c r).1.st := by
  unfold sendResponse
  split
  · exact h
  · rw [send_st]; exact h

/-- `add` is the only method that needs the side condition -/
theorem ep_handleMethod (cfg : Config) (x : Ctx) (p : Peer) (req : Json) (m : Bytes) (heo : EO x.st)
    (h : EP P x.st) (hnew : m = k "add" → AddOk P cfg p.conn req) :
    EP P (handleMethod cfg x p req m).1.st := by
  unfold handleMethod
  by_cases h1 : (m == k "change") = true
  · rw [if_pos h1]; exact ep_changeState _ _ _ heo h
  rw [if_neg h1]
  by_cases h2 : (m == k "set") = true
  · rw [if_pos h2]; exact ep_setOrCall _ _ _ _ _ h
  rw [if_neg h2]
  by_cases h3 : (m == k "call") = true
  · rw [if_pos h3]; exact ep_setOrCall _ _ _ _ _ h
  rw [if_neg h3]
  by_cases h4 : (m == k "add") = true
  · rw [if_pos h4]; exact ep_addElement _ _ _ _ h (hnew (by simpa using h4))
  rw [if_neg h4]
  by_cases h5 : (m == k "remove") = true
  · rw [if_pos h5]; exact ep_removeElementReq _ _ _ h
  rw [if_neg h5]
  by_cases h6 : (m == k "fetch") = true
  · rw [if_pos h6]; exact ep_fetchReq _ _ _ _ h
  rw [if_neg h6]
  by_cases h7 : (m == k "unfetch") = true
  · rw [if_pos h7]; exact ep_unfetchReq _ _ _ h
  rw [if_neg h7]
  by_cases h8 : (m == k "get") = true
  · rw [if_pos h8]; exact ep_getReq _ _ _ _ h
  rw [if_neg h8]
  by_cases h9 : (m == k "config") = true
  · rw [if_pos h9]; exact ep_configReq _ _ _ h
  rw [if_neg h9]
  by_cases h10 : (m == k "info") = true
  · rw [if_pos h10]; exact h
  rw [if_neg h10]
  by_cases h11 : (m == k "authenticate") = true
  · rw [if_pos h11]; exact ep_authenticateReq _ _ _ _ h
  rw [if_neg h11]
  by_cases h12 : (m == k "passwd") = true
  · rw [if_pos h12]; exact ep_passwdReq _ _ _ h
  rw [if_neg h12]
  exact h

/-- the side condition for one request object of peer `c` -/
def ReqOk (P : Nat → Bytes → Nat → Prop) (cfg : Config) (c : Nat) (req : Json) : Prop :=
  req.getItem (k "method") = some (.str (k "add")) → AddOk P cfg c req

theorem ep_parseJsonRpc (cfg : Config) (x : Ctx) (c : Nat) (req : Json) (heo : EO x.st) (h : EP P x.st)
    (hnew : ReqOk P cfg c req) : EP P (parseJsonRpc cfg x c req).1.st := by
  unfold parseJsonRpc
  split
  · exact h
  · next p hp =>
    split
    · next m hm =>
      refine ep_sendResponse _ _ _ (ep_handleMethod _ _ _ _ _ heo h ?_)
      intro e
      rw [findPeer_conn hp]
      exact hnew (by rw [hm, e])
    · exact ep_sendResponse _ _ _ h
    · split
      · exact ep_routingResponse _ _ _ _ _ h
      · split
        · exact ep_routingResponse _ _ _ _ _ h
        · exact ep_sendResponse _ _ _ h

theorem ep_parseJsonArray (cfg : Config) (c : Nat) (l : List Json) (x : Ctx) (heo : EO x.st) (h : EP P x.st)
    (hnew : ∀ req ∈ l, ReqOk P cfg c req) : EP P (parseJsonArray cfg x c l).1.st := by
  induction l generalizing x with
  | nil => exact h
  | cons j rest ih =>
    cases j with
    | obj m =>
      unfold parseJsonArray
      dsimp only
      have h1 := ep_parseJsonRpc cfg x c (.obj m) heo h (hnew _ (List.mem_cons_self ..))
      split
      · exact ih _ (eo_parseJsonRpc cfg x c _ heo) h1 (fun r hr => hnew r (List.mem_cons_of_mem _ hr))
      · exact h1
    | null => exact h
    | bool _ => exact h
    | num _ => exact h
    | str _ => exact h
    | arr _ => exact h

/-- the request objects of a message -/
def msgRequests : Option Json → List Json
  | some (.arr l) => l
  | some (.obj m) => [.obj m]
  | _ => []

theorem ep_parseMessage (cfg : Config) (x : Ctx) (c : Nat) (msg : Option Json) (heo : EO x.st) (h : EP P x.st)
    (hnew : ∀ req ∈ msgRequests msg, ReqOk P cfg c req) : EP P (parseMessage cfg x c msg).1.st := by
  unfold parseMessage
  split
  · exact ep_parseJsonArray cfg c _ x heo h hnew
  · exact ep_parseJsonRpc cfg x c _ heo h (hnew _ (List.mem_singleton.mpr rfl))
  · exact h

theorem ep_fprC (x : Ctx) (c : Nat) (p : Peer) (h : EP P x.st) : EP P (fprC x c p).st := by
  unfold fprC
  dsimp only
  apply foldl_inv (fun (y : Ctx) => EP P y.st)
  · exact ep_updatePeer (ep_mapElements h (fun _ => ⟨rfl, rfl⟩)) (fun _ _ _ hq => hq)
  · intro y e0 _ hy
    split
    · exact ep_removeElement _ _ hy
    · exact hy

theorem ep_freePeerResources (x : Ctx) (c : Nat) (h : EP P x.st) : EP P (freePeerResources x c).st := by
  cases hp : findPeer x.st.peers c with
  | none => unfold freePeerResources; rw [hp]; exact h
  | some p =>
    rw [freePeerResources_eq x c p hp]
    have hA : EP P (fprA x c p).st := by
      simp only [fprA, clearAll_st]
      exact ep_updatePeer h (fun _ _ _ hq => hq)
    have hB : EP P (fprB (fprA x c p) c).st := by
      simp only [fprB, clearAll_st]
      exact ep_map hA (fun _ _ hq => hq)
    have hC := ep_fprC _ c p hB
    intro q hq
    exact hC q (List.mem_filter.mp hq).1

theorem ep_closePeer (x : Ctx) (c : Nat) (h : EP P x.st) : EP P (closePeer x c).st :=
  ep_freePeerResources x c h

/-- the side condition for one operation -/
def OpAddOk (P : Nat → Bytes → Nat → Prop) (cfg : Config) : Op → Prop
  | .message c msg _ => ∀ req ∈ msgRequests msg, ReqOk P cfg c req
  | _ => True

/-- Any predicate on (owner, path, timeout) that `add` establishes for its own element is an
    invariant of `step`: no operation changes the path or the timeout of an existing element or
    moves it to another peer. -/
theorem ep_step (cfg : Config) (s : State) (op : Op) (heo : EO s) (h : EP P s) (hnew : OpAddOk P cfg op) :
    EP P (step cfg s op).1 := by
  cases op with
  | connect c ws isLocal addr =>
    rw [step_connect]
    split
    · exact h
    · intro p hp
      rcases List.mem_append.mp hp with hp | hp
      · exact h p hp
      · simp only [List.mem_singleton] at hp
        subst hp
        intro e he
        cases he
  | message c msg o =>
    rw [step_message]
    split
    · exact h
    · dsimp only
      split
      · exact ep_parseMessage cfg _ c msg heo h hnew
      · exact ep_closePeer _ c (ep_parseMessage cfg _ c msg heo h hnew)
  | disconnect c o =>
    rw [step_disconnect]
    split
    · exact h
    · exact ep_closePeer _ c h
  | timerFire t o =>
    exact ep_timeoutFired _ t h

end Cjet.Daemon.C14
