/-
  DaemonC14Elem — a predicate on (owner connection, path, timeout) of elements that is established
  when an element is created by `add` and that no other handler can break: the `timeout` an
  element was added with never changes.  Generic in the predicate `P`; `EO` (DaemonC03Elem) is
  assumed where the owner of a looked-up element has to be known.
-/
import Cjet.Lemmas.DaemonC03Elem

namespace Cjet.Daemon.C14

open Cjet Cjet.Json Cjet.Daemon Cjet.Daemon.C03

/-- every element of `q`'s list satisfies `P q.conn path timeoutNs` -/
def EPp (P : Nat → Bytes → Nat → Prop) (q : Peer) : Prop := ∀ e ∈ q.elements, P q.conn e.path e.timeoutNs

def EP (P : Nat → Bytes → Nat → Prop) (s : State) : Prop := ∀ p ∈ s.peers, EPp P p

variable {P : Nat → Bytes → Nat → Prop}

theorem ep_updatePeer {ps : List Peer} {c : Nat} {f : Peer → Peer} (h : ∀ p ∈ ps, EPp P p)
    (hf : ∀ q ∈ ps, q.conn = c → EPp P q → EPp P (f q)) : ∀ p ∈ updatePeer ps c f, EPp P p := by
  intro p hp
  obtain ⟨q, hq, rfl⟩ := mem_updatePeer.mp hp
  split
  · next hc => exact hf q hq (by simpa using hc) (h q hq)
  · exact h q hq

theorem ep_map {ps : List Peer} {g : Peer → Peer} (h : ∀ p ∈ ps, EPp P p)
    (hg : ∀ q ∈ ps, EPp P q → EPp P (g q)) : ∀ p ∈ ps.map g, EPp P p := by
  intro p hp
  obtain ⟨q, hq, rfl⟩ := List.mem_map.mp hp
  exact hg q hq (h q hq)

theorem ep_mapElements {ps : List Peer} {f : Element → Element} (h : ∀ p ∈ ps, EPp P p)
    (hf : ∀ e, (f e).path = e.path ∧ (f e).timeoutNs = e.timeoutNs) : ∀ p ∈ mapElements ps f, EPp P p := by
  unfold mapElements
  apply ep_map h
  intro q _ hq e he
  obtain ⟨e0, he0, rfl⟩ := List.mem_map.mp he
  rw [(hf e0).1, (hf e0).2]; exact hq e0 he0

/-! ## the element handed back by the offer functions -/

theorem offerElement_sig (cfg : Config) (x : Ctx) (e : Element) (fp : Peer) (f : Fetch) :
    (offerElement cfg x e fp f).2.path = e.path ∧ (offerElement cfg x e fp f).2.timeoutNs = e.timeoutNs := by
  unfold offerElement
  split
  · exact ⟨rfl, rfl⟩
  · split <;> exact ⟨rfl, rfl⟩

theorem findFetchersForElement_sig (cfg : Config) (x : Ctx) (e : Element) :
    (findFetchersForElement cfg x e).2.path = e.path ∧ (findFetchersForElement cfg x e).2.timeoutNs = e.timeoutNs := by
  unfold findFetchersForElement
  apply foldl_inv (fun (acc : Ctx × Element) => acc.2.path = e.path ∧ acc.2.timeoutNs = e.timeoutNs)
  · exact ⟨rfl, rfl⟩
  · intro acc fp _ hacc
    apply foldl_inv (fun (acc : Ctx × Element) => acc.2.path = e.path ∧ acc.2.timeoutNs = e.timeoutNs)
    · exact hacc
    · intro acc' f _ hacc'
      have := offerElement_sig cfg acc'.1 acc'.2 fp f
      exact ⟨this.1.trans hacc'.1, this.2.trans hacc'.2⟩

/-! ## handlers -/

/-- the element the index leads to satisfies `P` for the connection its owner field names -/
theorem findElement_ep {s : State} (heo : EO s) (h : EP P s) {path : Bytes} {e : Element}
    (he : findElement s path = some e) : P e.owner e.path e.timeoutNs := by
  unfold findElement at he
  split at he
  · cases he
  · split at he
    · cases he
    · next q hq =>
      have hmem := List.mem_of_find?_eq_some he
      rw [heo q (findPeer_mem hq) e hmem]
      exact h q (findPeer_mem hq) e hmem

theorem ep_changeState (x : Ctx) (p : Peer) (req : Json) (heo : EO x.st) (h : EP P x.st) :
    EP P (changeState x p req).1.st := by
  unfold changeState
  repeat' (first | split | dsimp only)
  all_goals (first | exact h | skip)
  next hfe hown _ =>
  simp only [notifyFetchers_st]
  apply ep_updatePeer h
  intro q _ hqc hq e' he'
  obtain ⟨el, hel, rfl⟩ := List.mem_map.mp he'
  split
  · have hpe := findElement_ep heo h hfe
    have : ¬ (_ != p.conn) = true := hown
    simp only [bne_iff_ne, ne_eq, Decidable.not_not] at this
    rw [this, ← hqc] at hpe
    exact hpe
  · exact hq el hel

/-- what `add` demands of the predicate: it holds for the new element's path and the timeout the
    add request declares (or the configured default) -/
def AddOk (P : Nat → Bytes → Nat → Prop) (cfg : Config) (c : Nat) (req : Json) : Prop :=
  ∀ params path tns, getParamsAndPath req = .ok params path →
    getTimeout cfg (params.getItem (k "timeout")) cfg.defaultTimeoutNs = .ns tns → P c path tns

theorem ep_addElement (cfg : Config) (x : Ctx) (p : Peer) (req : Json) (h : EP P x.st)
    (hnew : AddOk P cfg p.conn req) : EP P (addElement cfg x p req).1.st := by
  unfold addElement
  repeat' (first | split | dsimp only)
  all_goals (first | exact h | skip)
  all_goals first
    | (simp only [notifyFetchers_st, findFetchersForElement_st]; exact h)
    | (simp only [findFetchersForElement_st]
       apply ep_updatePeer h
       intro q _ hqc hq e' he'
       simp only [List.mem_append, List.mem_singleton] at he'
       rcases he' with he' | rfl
       · exact hq e' he'
       · rw [(findFetchersForElement_sig ..).1, (findFetchersForElement_sig ..).2, hqc]
         exact hnew _ _ _ (by assumption) (by assumption))

end Cjet.Daemon.C14
