/-
  C04 — glue between the model's lookups and the abstraction (`absGet`), dispatch facts, and the
  shape of responses; used by the property theorems.
-/
import Cjet.Lemmas.DaemonC04Run

namespace Cjet.Daemon.C04

open Cjet Cjet.Json Cjet.Daemon

/-! ## lookups -/

theorem WFS.paths {s : State} (h : WFS s) : ((absElems s).map (·.1)).Nodup := by
  rw [absElems_eq_imElems]
  exact (wfi_iff_wfp.2 h).paths

theorem absGet_eq_some_iff {s : State} (h : WFS s) {path : Bytes} {i : ElemInfo} :
    absGet s path = some i ↔ (path, i) ∈ absElems s := by
  simp only [absGet, Option.map_eq_some_iff]
  constructor
  · rintro ⟨x, hx, rfl⟩
    have := (find_key_some h.paths).1 hx
    obtain ⟨q, j⟩ := x
    simp only at this
    rw [← this.2]; exact this.1
  · intro hm
    exact ⟨(path, i), (find_key_some h.paths).2 ⟨hm, rfl⟩, rfl⟩

theorem absGet_eq_none_iff {s : State} {path : Bytes} :
    absGet s path = none ↔ ∀ i, (path, i) ∉ absElems s := by
  simp only [absGet, Option.map_eq_none_iff, find_key_none]
  constructor
  · intro h i hi; exact h (path, i) hi rfl
  · rintro h ⟨q, i⟩ hx rfl; exact h i hx

theorem mem_absElems {s : State} {x : Entry} :
    x ∈ absElems s ↔ ∃ p ∈ s.peers, ∃ e ∈ p.elements, entry e = x := by
  simp only [absElems, allElems, List.mem_map, List.mem_flatMap]
  constructor
  · rintro ⟨e, ⟨p, hp, he⟩, rfl⟩; exact ⟨p, hp, e, he, rfl⟩
  · rintro ⟨p, hp, e, he, rfl⟩; exact ⟨e, ⟨p, hp, he⟩, rfl⟩

theorem lookupIndex_eq_some_iff {idx : List (Bytes × Nat)} (h : (idx.map (·.1)).Nodup) {path : Bytes} {o : Nat} :
    lookupIndex idx path = some o ↔ (path, o) ∈ idx := by
  simp only [lookupIndex, Option.map_eq_some_iff]
  constructor
  · rintro ⟨x, hx, rfl⟩
    have := (find_key_some h).1 hx
    obtain ⟨q, j⟩ := x
    simp only at this
    rw [← this.2]; exact this.1
  · intro hm
    exact ⟨(path, o), (find_key_some h).2 ⟨hm, rfl⟩, rfl⟩

theorem WFS.elem_paths {s : State} (h : WFS s) {q : Peer} (hq : q ∈ s.peers) : (q.elements.map (·.path)).Nodup := by
  have := h.loc hq
  simp only [peerAbs, List.map_map] at this
  exact this

/-- `element_table_get` finds exactly the elements of the peers' lists -/
theorem findElement_eq_some_iff {s : State} (h : WFS s) {path : Bytes} {e : Element} :
    findElement s path = some e ↔ (∃ p ∈ s.peers, e ∈ p.elements) ∧ e.path = path := by
  constructor
  · intro hf
    obtain ⟨o, q, _, hq, he, hp⟩ := findElement_some hf
    exact ⟨⟨q, (mem_image_of_findPeer hq).2.1, he⟩, hp⟩
  · rintro ⟨⟨q, hq, he⟩, rfl⟩
    have hidx : (e.path, q.conn) ∈ s.index :=
      (WFP.sync h e.path q.conn).2 ⟨peerAbs q, List.mem_map.2 ⟨q, hq, rfl⟩, info e, List.mem_map.2 ⟨e, he, rfl⟩⟩
    have h1 : lookupIndex s.index e.path = some q.conn := (lookupIndex_eq_some_iff h.idxNodup).2 hidx
    have h2 : findPeer s.peers q.conn = some q := h.findPeer hq
    have h3 : q.elements.find? (·.path == e.path) = some e := by
      cases hf : q.elements.find? (·.path == e.path) with
      | none =>
        rw [List.find?_eq_none] at hf
        exact absurd (by simp) (hf e he)
      | some e' =>
        have a1 := List.find?_some hf
        have a2 := List.mem_of_find?_eq_some hf
        have : e' = e := nodup_map_inj (h.elem_paths hq) a2 he (by simpa using a1)
        rw [this]
    simp only [findElement, h1, h2, h3]

theorem findElement_map_info {s : State} (h : WFS s) (path : Bytes) :
    (findElement s path).map info = absGet s path := by
  cases hf : findElement s path with
  | some e =>
    obtain ⟨⟨q, hq, he⟩, hp⟩ := (findElement_eq_some_iff h).1 hf
    symm
    simp only [Option.map_some]
    rw [absGet_eq_some_iff h, ← hp]
    exact mem_absElems.2 ⟨q, hq, e, he, rfl⟩
  | none =>
    symm
    simp only [Option.map_none]
    rw [absGet_eq_none_iff]
    intro i hi
    obtain ⟨q, hq, e, he, hent⟩ := mem_absElems.1 hi
    have : findElement s path = some e :=
      (findElement_eq_some_iff h).2 ⟨⟨q, hq, he⟩, congrArg Prod.fst hent⟩
    rw [hf] at this; cases this

/-- free in the index = free in the abstraction -/
theorem lookupIndex_isSome_iff {s : State} (h : WFS s) (path : Bytes) :
    (lookupIndex s.index path).isSome = (absGet s path).isSome := by
  cases ha : absGet s path with
  | none =>
    simp only [Option.isSome_none]
    rw [lookupIndex_none]
    intro o ho
    obtain ⟨l, hl, i, hi⟩ := (WFP.sync h path o).1 ho
    rw [absGet_eq_none_iff] at ha
    refine ha i ?_
    rw [absElems_eq_imElems]
    exact mem_imElems.2 ⟨o, l, hl, hi⟩
  | some i =>
    simp only [Option.isSome_some]
    rw [absGet_eq_some_iff h, absElems_eq_imElems] at ha
    obtain ⟨o, l, hl, hi⟩ := mem_imElems.1 ha
    have := (WFP.sync h path o).2 ⟨l, hl, i, hi⟩
    rw [(lookupIndex_eq_some_iff h.idxNodup).2 this]
    rfl

/-- the requester's own list, seen through the abstraction -/
theorem own_find_some {s : State} (h : WFS s) {c : Nat} {p : Peer} (hp : findPeer s.peers c = some p)
    {path : Bytes} {e : Element} (hf : p.elements.find? (·.path == path) = some e) :
    absGet s path = some (info e) ∧ e.owner = c ∧ e.path = path := by
  obtain ⟨hm, hmem, hc⟩ := mem_image_of_findPeer hp
  have a1 := List.find?_some hf
  have a2 := List.mem_of_find?_eq_some hf
  have hpath : e.path = path := by simpa using a1
  refine ⟨?_, ?_, hpath⟩
  · rw [absGet_eq_some_iff h, ← hpath]
    exact mem_absElems.2 ⟨p, hmem, e, a2, rfl⟩
  · exact WFP.owner h c (peerAbs p) hm e.path (info e) (List.mem_map.2 ⟨e, a2, rfl⟩)

theorem own_find_none {s : State} (h : WFS s) {c : Nat} {p : Peer} (hp : findPeer s.peers c = some p)
    {path : Bytes} (hf : p.elements.find? (·.path == path) = none) {i : ElemInfo}
    (hi : absGet s path = some i) : i.owner ≠ c := by
  obtain ⟨hm, hmem, hc⟩ := mem_image_of_findPeer hp
  rw [absGet_eq_some_iff h] at hi
  obtain ⟨q, hq, e, he, hent⟩ := mem_absElems.1 hi
  intro hown
  have hqc : q.conn = c := by
    have := WFP.owner h q.conn (peerAbs q) (List.mem_map.2 ⟨q, hq, rfl⟩) e.path (info e) (List.mem_map.2 ⟨e, he, rfl⟩)
    have h2 : (info e) = i := congrArg Prod.snd hent
    rw [h2] at this
    rw [← this, hown]
  have hqp : q = p := by
    have := h.findPeer hq
    rw [hqc, hp] at this
    exact (Option.some.inj this).symm
  subst hqp
  rw [List.find?_eq_none] at hf
  have : e.path = path := congrArg Prod.fst hent
  exact absurd (by simpa using this) (hf e he)

/-! ## the new abstraction from a membership characterisation -/

theorem absGet_of_mem_iff {s s' : State} (hwf : WFS s) (hwf' : WFS s') (path : Bytes) (new : Option ElemInfo)
    (h : ∀ x, x ∈ absElems s' ↔ (x ∈ absElems s ∧ x.1 ≠ path) ∨ (x.1 = path ∧ some x.2 = new)) :
    ∀ q, absGet s' q = if q = path then new else absGet s q := by
  intro q
  by_cases hq : q = path
  · subst hq
    simp only [↓reduceIte]
    cases new with
    | none =>
      rw [absGet_eq_none_iff]
      intro i hi
      rcases (h (q, i)).1 hi with ⟨_, h2⟩ | ⟨_, h2⟩
      · exact h2 rfl
      · cases h2
    | some i' =>
      rw [absGet_eq_some_iff hwf']
      exact (h (q, i')).2 (Or.inr ⟨rfl, rfl⟩)
  · simp only [hq, ↓reduceIte]
    apply Option.ext
    intro i
    rw [absGet_eq_some_iff hwf, absGet_eq_some_iff hwf', h]
    constructor
    · rintro (⟨h1, _⟩ | ⟨h1, _⟩)
      · exact h1
      · exact absurd h1 hq
    · intro h1; exact Or.inl ⟨h1, hq⟩

/-! ## dispatch -/

theorem parseJsonRpc_method {cfg : Config} {x : Ctx} {c : Nat} {p : Peer} {req : Json} {m : Bytes}
    (hp : findPeer x.st.peers c = some p) (hm : req.getItem (k "method") = some (.str m)) :
    parseJsonRpc cfg x c req = sendResponse (handleMethod cfg x p req m).1 c (handleMethod cfg x p req m).2 := by
  rw [parseJsonRpc_eq]
  simp only [hp, hm]

theorem handleMethod_change (cfg : Config) (x : Ctx) (p : Peer) (req : Json) :
    handleMethod cfg x p req (k "change") = changeState x p req := by
  simp only [handleMethod, beq_self_eq_true, ↓reduceIte]

theorem handleMethod_set (cfg : Config) (x : Ctx) (p : Peer) (req : Json) :
    handleMethod cfg x p req (k "set") = setOrCall cfg x p req true := by
  have h1 : (k "set" == k "change") = false := by decide +kernel
  simp only [handleMethod, h1, beq_self_eq_true, Bool.false_eq_true, ↓reduceIte]

theorem handleMethod_call (cfg : Config) (x : Ctx) (p : Peer) (req : Json) :
    handleMethod cfg x p req (k "call") = setOrCall cfg x p req false := by
  have h1 : (k "call" == k "change") = false := by decide +kernel
  have h2 : (k "call" == k "set") = false := by decide +kernel
  simp only [handleMethod, h1, h2, beq_self_eq_true, Bool.false_eq_true, ↓reduceIte]

theorem handleMethod_add (cfg : Config) (x : Ctx) (p : Peer) (req : Json) :
    handleMethod cfg x p req (k "add") = addElement cfg x p req := by
  have h1 : (k "add" == k "change") = false := by decide +kernel
  have h2 : (k "add" == k "set") = false := by decide +kernel
  have h3 : (k "add" == k "call") = false := by decide +kernel
  simp only [handleMethod, h1, h2, h3, beq_self_eq_true, Bool.false_eq_true, ↓reduceIte]

theorem handleMethod_remove (cfg : Config) (x : Ctx) (p : Peer) (req : Json) :
    handleMethod cfg x p req (k "remove") = removeElementReq x p req := by
  have h1 : (k "remove" == k "change") = false := by decide +kernel
  have h2 : (k "remove" == k "set") = false := by decide +kernel
  have h3 : (k "remove" == k "call") = false := by decide +kernel
  have h4 : (k "remove" == k "add") = false := by decide +kernel
  simp only [handleMethod, h1, h2, h3, h4, beq_self_eq_true, Bool.false_eq_true, ↓reduceIte]

theorem getParamsAndPath_ok {req params : Json} {path : Bytes}
    (h1 : req.getItem (k "params") = some params) (h2 : params.getItem (k "path") = some (.str path)) :
    getParamsAndPath req = .ok params path := by
  simp only [getParamsAndPath, h1, h2]

/-! ## responses -/

/-- the last thing `x'` emitted is the response `resp` to `c` (nothing is claimed when there is none) -/
def Answered (x' : Ctx) (c : Nat) (resp : Option Json) : Prop :=
  ∀ j, resp = some j → ∃ b, x'.out.head? = some (Obs.send c j b)

theorem answered_sendResponse (y : Ctx) (c : Nat) (resp : Option Json) :
    Answered (sendResponse y c resp).1 c resp := by
  intro j hj
  subst hj
  exact ⟨(send y c j).2, by simp only [sendResponse, send_out, List.head?_cons]⟩

/-- a request whose id `create_common_response` can copy -/
def answerable (req : Json) : Prop :=
  (∃ s, req.getItem (k "id") = some (.str s)) ∨ (∃ n, req.getItem (k "id") = some (.num n))

theorem errorFromRequest_isSome {req : Json} (h : answerable req) (code : Int) (tag : String) (reason : Bytes) :
    ∃ j, errorFromRequest req code tag reason = some j ∧ hasError j := by
  rcases h with ⟨s, hs⟩ | ⟨n, hn⟩
  · have : errorFromRequest req code tag reason =
        some (.obj ([(k "id", .str s)] ++ [(k "error", errorObject code tag reason)])) := by
      simp only [errorFromRequest, hs, errorResponse, commonResponse, Option.map_some]
    exact ⟨_, this, errorFromRequest_hasError this⟩
  · have : errorFromRequest req code tag reason =
        some (.obj ([(k "id", .num n)] ++ [(k "error", errorObject code tag reason)])) := by
      simp only [errorFromRequest, hn, errorResponse, commonResponse, Option.map_some]
    exact ⟨_, this, errorFromRequest_hasError this⟩

theorem successFromRequest_isSome {req : Json} (h : answerable req) :
    ∃ j, successFromRequest req = some j ∧ j.getItem (k "error") = none := by
  rcases h with ⟨s, hs⟩ | ⟨n, hn⟩
  · have : successFromRequest req = some (.obj ([(k "id", .str s)] ++ [(k "result", .bool true)])) := by
      simp only [successFromRequest, resultFromRequest, hs, resultResponse, commonResponse, Option.map_some]
    exact ⟨_, this, successFromRequest_noError this⟩
  · have : successFromRequest req = some (.obj ([(k "id", .num n)] ++ [(k "result", .bool true)])) := by
      simp only [successFromRequest, resultFromRequest, hn, resultResponse, commonResponse, Option.map_some]
    exact ⟨_, this, successFromRequest_noError this⟩

/-- refusal: the whole state is as before and nothing but the response to `c` was emitted -/
def Refused (x : Ctx) (c : Nat) (resp : Option Json) (x' : Ctx) : Prop :=
  x'.st = x.st ∧
  x'.out = (match resp with | some j => [Obs.send c j (send x c j).2] | none => []) ++ x.out

theorem refused_sendResponse (x : Ctx) (c : Nat) (resp : Option Json) :
    Refused x c resp (sendResponse x c resp).1 := ⟨sendResponse_st x c resp, sendResponse_out x c resp⟩

/-! ## change, success path -/

theorem changedState_store {s : State} (hwf : WFS s) {c : Nat} {p : Peer} (hp : findPeer s.peers c = some p)
    {path : Bytes} {e : Element} (hfe : findElement s path = some e) (hown : e.owner = c) (v : Json) :
    store (changedState s c path e v) =
      (updImage (image s.peers) c (changeG path (setValue (info e) v)), s.index) ∧
    (c, peerAbs p) ∈ image s.peers ∧ (path, info e) ∈ peerAbs p := by
  obtain ⟨hm, hmem, hc⟩ := mem_image_of_findPeer hp
  obtain ⟨o, q, ho, hq, heq, hpath⟩ := findElement_some hfe
  obtain ⟨hmq, hmemq, hcq⟩ := mem_image_of_findPeer hq
  have hoc : o = c := by
    have := WFP.owner hwf o (peerAbs q) hmq e.path (info e) (List.mem_map.2 ⟨e, heq, rfl⟩)
    simp only [info] at this
    rw [← this, hown]
  subst hoc
  have hqp : q = p := by rw [hp] at hq; exact (Option.some.inj hq).symm
  subst hqp
  refine ⟨?_, hm, by rw [← hpath]; exact List.mem_map.2 ⟨e, heq, rfl⟩⟩
  simp only [store_def, changedState]
  rw [image_change_element _ _ _ { e with value := some v } hpath]
  rfl

/-! ## close -/

theorem findPeer_gone_of_image {ps ps0 : List Peer} {c : Nat}
    (h : image ps = (image ps0).filter (·.1 != c)) : findPeer ps c = none := by
  rw [findPeer_none_iff, ← image_conns, h]
  intro hm
  obtain ⟨⟨o, l⟩, hol, rfl⟩ := List.mem_map.1 hm
  have := (List.mem_filter.1 hol).2
  simp at this

theorem findPeer_closePeer {x : Ctx} {c : Nat} (hwf : WFS x.st) : findPeer (closePeer x c).st.peers c = none :=
  findPeer_gone_of_image (closePeer_spec hwf).2

end Cjet.Daemon.C04
