/-
  C01 — disconnect (`freePeerResources` / `closePeer`), connect, the guarantee of every atom,
  and the decomposition of `step` / `run` into atoms.
-/
import Cjet.Lemmas.DaemonC01Handlers2

namespace Cjet.Daemon.C01

open Cjet Cjet.Json Cjet.Daemon

/-! ## freePeerResources in pieces -/

def fr2 (x : Ctx) (c : Nat) : Ctx :=
  { x with st := { x.st with peers := updatePeer x.st.peers c (fun q => { q with routes := [] }) } }

def fr3 (x : Ctx) (c : Nat) : Ctx :=
  (x.st.peers.flatMap (fun q => q.routes.filter (·.requester == c))).foldl (fun x r => clearRoute x r c) x

def fr4 (x : Ctx) (c : Nat) : Ctx :=
  { x with st := { x.st with peers := x.st.peers.map (fun (q : Peer) =>
      { q with routes := q.routes.filter (·.requester != c) }) } }

/-- remove_routing_info_from_peer + remove_peer_from_routes -/
def freeRoutes (x : Ctx) (p : Peer) (c : Nat) : Ctx :=
  fr4 (fr3 (fr2 (p.routes.foldl (fun x r => clearRoute x r c) x) c) c) c

/-- remove_all_elements_from_peer -/
def freeElems (x : Ctx) (c : Nat) (es : List Element) : Ctx :=
  es.foldl (fun x e0 =>
    match (findPeer x.st.peers c).bind (·.elements.find? (·.path == e0.path)) with
    | some e => removeElement x e
    | none => x) x

/-- remove_all_fetchers_from_peer -/
def unsubAll (ps : List Peer) (c : Nat) : List Peer :=
  updatePeer (mapElements ps (fun e => { e with fetchers := e.fetchers.map (fun s =>
    match s with | some fk => if fk.peer == c then none else some fk | none => none) })) c
    (fun q => { q with fetches := [] })

theorem unsubAll_eq (ps : List Peer) (c : Nat) : unsubAll ps c = ps.map (unsubPeer c) := by
  unfold unsubAll updatePeer mapElements
  rw [List.map_map]
  apply List.map_congr_left
  intro q _
  simp only [Function.comp, unsubPeer, unsubTbl]
  split <;> rfl

theorem freePeerResources_eq (x : Ctx) (c : Nat) :
    freePeerResources x c =
    match findPeer x.st.peers c with
    | none => x
    | some p =>
      let x := freeRoutes x p c
      let x := { x with st := { x.st with peers := unsubAll x.st.peers c } }
      let x := freeElems x c p.elements
      { x with st := { x.st with peers := x.st.peers.filter (·.conn != c) } } := by
  rfl

theorem quiet_fr2 (x : Ctx) (c : Nat) : Quiet x (fr2 x c) := by
  refine quiet_of_st _ _ ?_ ?_
  · rfl
  · exact CoreEq.of_updatePeer _ _ c (fun q => { q with routes := [] }) rfl rfl rfl (fun _ => ⟨rfl, rfl⟩)

theorem quiet_fr3 (x : Ctx) (c : Nat) : Quiet x (fr3 x c) := quiet_foldl_clearRoute c _ x

theorem quiet_fr4 (x : Ctx) (c : Nat) : Quiet x (fr4 x c) := by
  refine quiet_of_st _ _ ?_ ?_
  · rfl
  · exact CoreEq.of_map _ (fun (q : Peer) => { q with routes := q.routes.filter (·.requester != c) })
      (fun _ => ⟨rfl, rfl⟩) _ rfl rfl rfl

theorem quiet_freeRoutes (x : Ctx) (p : Peer) (c : Nat) : Quiet x (freeRoutes x p c) :=
  (((quiet_foldl_clearRoute c p.routes x).trans (quiet_fr2 _ c)).trans (quiet_fr3 _ c)).trans (quiet_fr4 _ c)

theorem findPeer_coreEq (c : Nat) : ∀ (ps ps' : List Peer), ps'.map fcore = ps.map fcore →
    ps'.map (·.elements) = ps.map (·.elements) → ∀ {p : Peer}, findPeer ps c = some p →
    ∃ p', findPeer ps' c = some p' ∧ p'.elements = p.elements
  | [], _, _, _, _, h => by simp [findPeer] at h
  | q :: qs, [], h, _, _, _ => by simp at h
  | q :: qs, q' :: qs', h1, h2, p, h => by
    simp only [List.map_cons, List.cons.injEq] at h1 h2
    have hc : q'.conn = q.conn := by
      have := h1.1; simp only [fcore, Prod.mk.injEq] at this; exact this.1
    unfold findPeer at h ⊢
    simp only [List.find?_cons, hc] at h ⊢
    cases hq : (q.conn == c)
    · simp only [hq] at h ⊢
      exact findPeer_coreEq c qs qs' h1.2 h2.2 h
    · simp only [hq, Option.some.injEq] at h ⊢
      exact ⟨q', rfl, h ▸ h2.1⟩

theorem findPeer_map {ps : List Peer} {c : Nat} {g : Peer → Peer} (hg : ∀ q, (g q).conn = q.conn)
    {p : Peer} (h : findPeer ps c = some p) : findPeer (ps.map g) c = some (g p) := by
  induction ps with
  | nil => simp [findPeer] at h
  | cons q qs ih =>
    unfold findPeer at *
    simp only [List.map_cons, List.find?_cons, hg] at h ⊢
    cases hq : (q.conn == c)
    · simp only [hq] at h ⊢
      exact ih h
    · simp only [hq, Option.some.injEq] at h ⊢
      rw [h]

theorem freeElems_ok {cfg : Config} (c : Nat) : ∀ (es : List Element) (x : Ctx), Inv cfg x.st →
    ∀ (pc : Peer), findPeer x.st.peers c = some pc → pc.elements.map (·.path) = es.map (·.path) →
    pc.fetches = [] →
    ∃ ns, Emits x (freeElems x c es) ns ∧ TransN cfg x.st (freeElems x c es).st ns ∧
      (∀ q ∈ (freeElems x c es).st.peers, q.conn = c → q.elements = [] ∧ q.fetches = [])
  | [], x, inv, pc, hpc, hpaths, hnf => by
    refine ⟨[], Emits.refl x, TransN.refl inv, ?_⟩
    intro q hq hc
    obtain ⟨hm, hcc⟩ := findPeer_some hpc
    have : q = pc := eq_of_conn_eq inv.fetches.connNodup hq hm (hc.trans hcc.symm)
    subst this
    exact ⟨by simpa using hpaths, hnf⟩
  | e0 :: es, x, inv, pc, hpc, hpaths, hnf => by
    obtain ⟨hm, hcc⟩ := findPeer_some hpc
    cases hel : pc.elements with
    | nil => rw [hel] at hpaths; simp at hpaths
    | cons e1 rest =>
      rw [hel] at hpaths
      simp only [List.map_cons, List.cons.injEq] at hpaths
      obtain ⟨hp1, hprest⟩ := hpaths
      have he1 : e1 ∈ pc.elements := by rw [hel]; exact List.mem_cons_self
      have hstep : freeElems x c (e0 :: es) = freeElems (removeElement x e1) c es := by
        unfold freeElems
        simp only [List.foldl_cons, hpc, Option.bind_some, hel, List.find?_cons, hp1, beq_self_eq_true]
      obtain ⟨s1, s2⟩ := removeElement_spec x e1
      have htr := trans_remove inv hm he1
      have hown : e1.owner = c := (inv.elems.owner pc hm e1 he1).trans hcc
      have hnd := inv.elems.pathNodup pc hm
      rw [hel, List.map_cons, List.nodup_cons] at hnd
      have hfilter : pc.elements.filter (·.path != e1.path) = rest := by
        rw [hel, List.filter_cons]
        simp only [bne_self_eq_false, Bool.false_eq_true, if_false]
        rw [List.filter_eq_self]
        intro a ha
        have : a.path ≠ e1.path := fun h => hnd.1 (h ▸ List.mem_map_of_mem (f := (·.path)) ha)
        simpa using this
      have hpc' : findPeer (removeElement x e1).st.peers c = some { pc with elements := rest } := by
        rw [s1]
        unfold rmState
        simp only [hown]
        rw [findPeer_updatePeer_self (g := fun q => { q with elements := q.elements.filter (·.path != e1.path) })
          (fun _ => rfl) hpc, hfilter]
      have inv1 : Inv cfg (removeElement x e1).st := by rw [s1]; exact htr.inv
      obtain ⟨ns, i1, i2, i3⟩ := freeElems_ok c es (removeElement x e1) inv1 { pc with elements := rest } hpc'
        hprest hnf
      rw [hstep]
      refine ⟨_, s2.trans i1, ?_, i3⟩
      rw [s1] at i2
      exact htr.trans i2

theorem freePeerResources_ok {cfg : Config} {x : Ctx} (inv : Inv cfg x.st) (c : Nat) :
    ∃ ns, Emits x (freePeerResources x c) ns ∧ TransN cfg x.st (freePeerResources x c).st ns := by
  rw [freePeerResources_eq]
  split
  · exact ⟨[], Emits.refl x, TransN.refl inv⟩
  · next p hp =>
    dsimp only
    have q4 := quiet_freeRoutes x p c
    have t4 := q4.transN inv
    -- the peer after the routing part: same elements
    obtain ⟨p4, hp4, hel4⟩ := findPeer_coreEq c x.st.peers (freeRoutes x p c).st.peers q4.core.fc q4.core.el hp
    have hc4 : p4.conn = c := (findPeer_some hp4).2
    rw [unsubAll_eq]
    have t5 := trans_unsub t4.inv c
    generalize hx5 : ({ freeRoutes x p c with st := { (freeRoutes x p c).st with
      peers := (freeRoutes x p c).st.peers.map (unsubPeer c) } } : Ctx) = x5
    have hx5st : x5.st = { (freeRoutes x p c).st with
      peers := (freeRoutes x p c).st.peers.map (unsubPeer c) } := by rw [← hx5]
    have hx5out : x5.out = (freeRoutes x p c).out := by rw [← hx5]
    have hconn5 : ∀ q, (unsubPeer c q).conn = q.conn := by
      intro q; unfold unsubPeer; split <;> rfl
    have hp5 : findPeer x5.st.peers c = some (unsubPeer c p4) := by
      rw [hx5st]; exact findPeer_map hconn5 hp4
    have hel5 : (unsubPeer c p4).elements.map (·.path) = p.elements.map (·.path) := by
      unfold unsubPeer
      split <;> simp [hel4, List.map_map, Function.comp]
    have hnf5 : (unsubPeer c p4).fetches = [] := by
      unfold unsubPeer
      simp [hc4]
    have inv5 : Inv cfg x5.st := by rw [hx5st]; exact t5.inv
    obtain ⟨ns, e6, t6, hemp⟩ := freeElems_ok c p.elements x5 inv5 _ hp5 hel5 hnf5
    have t7 := trans_delPeer t6.inv c hemp
    refine ⟨ns, ?_, ?_⟩
    · have e5 : Emits x x5 [] := q4.emits.of_out_eq hx5out
      have := e5.trans e6
      simp only [List.nil_append] at this
      exact this.of_out_eq rfl
    · rw [hx5st] at t6
      have := ((t4.trans t5).trans t6).trans t7
      simpa using this

theorem closePeer_ok {cfg : Config} {x : Ctx} (inv : Inv cfg x.st) (c : Nat) :
    ∃ ns, Emits x (closePeer x c) ns ∧ TransN cfg x.st (closePeer x c).st ns := by
  obtain ⟨ns, h1, h2⟩ := freePeerResources_ok inv c
  refine ⟨ns, ?_, h2⟩
  have := h1.trans (emits_emit_closed (freePeerResources x c) c)
  rw [List.append_nil] at this
  exact this

/-! ## connect -/

theorem trans_connect {cfg : Config} {s : State} (inv : Inv cfg s) (c : Nat) (ws isLocal : Bool) (addr : Bytes)
    (hfresh : (findPeer s.peers c).isNone = true) :
    TransN cfg s { s with peers := s.peers ++ [{ conn := c, ws := ws, isLocal := isLocal, addrTok := addr }] } [] := by
  have hc : c ∉ s.peers.map (·.conn) := by
    apply findPeer_none_iff.1
    cases h : findPeer s.peers c with
    | none => rfl
    | some p => simp [h] at hfresh
  have hall : allElems { s with peers := s.peers ++ [{ conn := c, ws := ws, isLocal := isLocal, addrTok := addr }] }
      = allElems s := by
    simp [allElems, List.flatMap_append]
  have hmem : ∀ q, q ∈ s.peers ++ [({ conn := c, ws := ws, isLocal := isLocal, addrTok := addr } : Peer)] →
      q ∈ s.peers ∨ (q.elements = [] ∧ q.fetches = []) := by
    intro q hq
    rcases List.mem_append.1 hq with h | h
    · exact Or.inl h
    · simp only [List.mem_singleton] at h
      subst h
      exact Or.inr ⟨rfl, rfl⟩
  have hinv : Inv cfg { s with peers := s.peers ++ [{ conn := c, ws := ws, isLocal := isLocal, addrTok := addr }] } := by
    refine ⟨⟨?_, ?_, inv.elems.idxNodup, ?_⟩, ⟨?_, ?_, ?_, ?_, ?_, ?_⟩, ?_⟩
    · intro q hq e he
      rcases hmem q hq with h | h
      · exact inv.elems.owner q h e he
      · rw [h.1] at he; cases he
    · intro q hq
      rcases hmem q hq with h | h
      · exact inv.elems.pathNodup q h
      · rw [h.1]; simp
    · intro q hq e he
      rcases hmem q hq with h | h
      · exact inv.elems.indexed q h e he
      · rw [h.1] at he; cases he
    · show ((s.peers ++ [({ conn := c, ws := ws, isLocal := isLocal, addrTok := addr } : Peer)]).map
        (·.conn)).Nodup
      rw [List.map_append, List.nodup_append]
      refine ⟨inv.fetches.connNodup, by simp, ?_⟩
      intro a ha b hb
      simp only [List.map_cons, List.map_nil, List.mem_singleton] at hb
      subst hb
      intro hab
      subst hab
      exact hc ha
    · intro q hq f hf
      rcases hmem q hq with h | h
      · exact inv.fetches.uidLt q h f hf
      · rw [h.2] at hf; cases hf
    · intro q hq
      rcases hmem q hq with h | h
      · exact inv.fetches.uidNodup q h
      · rw [h.2]; simp
    · intro q hq q' hq' f hf g hg hu
      rcases hmem q hq with h | h
      · rcases hmem q' hq' with h' | h'
        · exact inv.fetches.uidGlobal q h q' h' f hf g hg hu
        · rw [h'.2] at hg; cases hg
      · rw [h.2] at hf; cases hf
    · intro q hq f hf
      rcases hmem q hq with h | h
      · exact inv.fetches.fidOk q h f hf
      · rw [h.2] at hf; cases hf
    · intro q hq
      rcases hmem q hq with h | h
      · exact inv.fetches.fidDistinct q h
      · rw [h.2]; simp
    · intro e he
      rw [hall] at he
      have ok := inv.tbl e he
      refine ⟨ok.nodup, ?_, ?_⟩
      · intro fk hfk
        obtain ⟨q, hq, h1, h2⟩ := ok.live fk hfk
        exact ⟨q, List.mem_append_left _ hq, h1, h2⟩
      · intro q hq f hf
        rcases hmem q hq with h | h
        · exact ok.char q h f hf
        · rw [h.2] at hf; cases hf
  refine ⟨hinv, rfl, ?_, ?_, ?_, ?_⟩
  · rintro c' f ⟨q, hq, h1, h2⟩
    rcases hmem q hq with h | h
    · exact ⟨q, h, h1, h2⟩
    · rw [h.2] at h2; cases h2
  · rintro c' pg f ⟨q, hq, h1, h2, h3⟩ _
    exact ⟨q, List.mem_append_left _ hq, h1, h2, h3⟩
  · intro c' pg f _ _
    apply RStep.of_silent rfl
    intro a
    unfold imageOf
    rw [hall]
  · intro cn hcn; cases hcn

/-! ## every atom -/

theorem atom_ok {cfg : Config} {s s' : State} {obs : List Obs} (inv : Inv cfg s) (h : Atom cfg s obs s') :
    StepOK cfg s s' (notifs obs) := by
  cases h with
  | connect _ c ws isLocal addr hf => exact (trans_connect inv c ws isLocal addr hf).stepOK
  | request x c req new hnew =>
    obtain ⟨new', resp, hout, hstep, hresp, _⟩ := (parseJsonRpc_ok inv c req).shape
    have : new = resp ++ new' := by
      rw [hnew] at hout
      exact List.append_cancel_right hout
    subst this
    have hr : notifs resp.reverse = [] := by
      rcases hresp with rfl | ⟨j, b, rfl, hj⟩
      · rfl
      · simp [notifs_send, decodeNotif_of_isResp hj]
    rw [List.reverse_append, notifs_append, hr, List.append_nil]
    exact hstep
  | close x c new hnew =>
    obtain ⟨ns, ⟨new', hout, hns⟩, htr⟩ := closePeer_ok inv c
    have : new = new' := by
      rw [hnew] at hout
      exact List.append_cancel_right hout
    subst this
    rw [hns]
    exact htr.stepOK
  | timer x t new hnew =>
    have hq := quiet_timeoutFired x t
    obtain ⟨new', hout, hns⟩ := hq.emits
    have : new = new' := by
      rw [hnew] at hout
      exact List.append_cancel_right hout
    subst this
    rw [hns]
    exact (hq.transN inv).stepOK

/-! ## `step` and `run` as sequences of atoms -/

theorem Exec.append {cfg : Config} {s s1 s2 : State} {a b : List (List Obs × State)}
    (h1 : Exec cfg s a s1) (h2 : Exec cfg s1 b s2) : Exec cfg s (a ++ b) s2 := by
  induction h1 with
  | nil => exact h2
  | cons ha _ ih => exact Exec.cons ha (ih h2)

theorem obsOf_append (a b : List (List Obs × State)) : obsOf (a ++ b) = obsOf a ++ obsOf b := by
  simp [obsOf]

theorem Exec.inv {cfg : Config} {s s' : State} {tr : List (List Obs × State)} (h : Exec cfg s tr s')
    (inv : Inv cfg s) : Inv cfg s' := by
  induction h with
  | nil => exact inv
  | cons ha _ ih => exact ih (atom_ok inv ha).inv

/-- context-level execution: the trace also accounts for the output of the context -/
def CExec (cfg : Config) (x : Ctx) (tr : List (List Obs × State)) (x' : Ctx) : Prop :=
  Exec cfg x.st tr x'.st ∧ x'.out = (obsOf tr).reverse ++ x.out

theorem CExec.refl (cfg : Config) (x : Ctx) : CExec cfg x [] x := ⟨Exec.nil _, rfl⟩

theorem CExec.trans {cfg : Config} {x y z : Ctx} {a b : List (List Obs × State)}
    (h1 : CExec cfg x a y) (h2 : CExec cfg y b z) : CExec cfg x (a ++ b) z :=
  ⟨h1.1.append h2.1, by rw [h2.2, h1.2, obsOf_append, List.reverse_append, List.append_assoc]⟩

theorem cexec_rpc {cfg : Config} {x : Ctx} (inv : Inv cfg x.st) (c : Nat) (req : Json) :
    ∃ o, CExec cfg x [(o, (parseJsonRpc cfg x c req).1.st)] (parseJsonRpc cfg x c req).1 := by
  obtain ⟨new, resp, hout, _, _, _⟩ := (parseJsonRpc_ok inv c req).shape
  refine ⟨(resp ++ new).reverse, Exec.cons (Atom.request x c req (resp ++ new) hout) (Exec.nil _), ?_⟩
  simp [obsOf, hout]

theorem cexec_close {cfg : Config} {x : Ctx} (inv : Inv cfg x.st) (c : Nat) :
    ∃ o, CExec cfg x [(o, (closePeer x c).st)] (closePeer x c) := by
  obtain ⟨ns, ⟨new, hout, _⟩, _⟩ := closePeer_ok inv c
  refine ⟨new.reverse, Exec.cons (Atom.close x c new hout) (Exec.nil _), ?_⟩
  simp [obsOf, hout]

theorem cexec_array {cfg : Config} (c : Nat) : ∀ (l : List Json) (x : Ctx), Inv cfg x.st →
    ∃ tr, CExec cfg x tr (parseJsonArray cfg x c l).1
  | [], x, _ => ⟨[], CExec.refl cfg x⟩
  | .obj m :: rest, x, inv => by
    obtain ⟨o, h1⟩ := cexec_rpc inv c (.obj m)
    unfold parseJsonArray
    split
    next x1 ok heq =>
    have hx1 : (parseJsonRpc cfg x c (.obj m)).1 = x1 := by rw [heq]
    rw [hx1] at h1
    split
    · have inv1 : Inv cfg x1.st := h1.1.inv inv
      obtain ⟨tr, h2⟩ := cexec_array c rest x1 inv1
      exact ⟨_, h1.trans h2⟩
    · exact ⟨_, h1⟩
  | .null :: _, x, _ => ⟨[], by unfold parseJsonArray; exact CExec.refl cfg x⟩
  | .bool _ :: _, x, _ => ⟨[], by unfold parseJsonArray; exact CExec.refl cfg x⟩
  | .num _ :: _, x, _ => ⟨[], by unfold parseJsonArray; exact CExec.refl cfg x⟩
  | .str _ :: _, x, _ => ⟨[], by unfold parseJsonArray; exact CExec.refl cfg x⟩
  | .arr _ :: _, x, _ => ⟨[], by unfold parseJsonArray; exact CExec.refl cfg x⟩

theorem cexec_message {cfg : Config} {x : Ctx} (inv : Inv cfg x.st) (c : Nat) (msg : Option Json) :
    ∃ tr, CExec cfg x tr (parseMessage cfg x c msg).1 := by
  unfold parseMessage
  split
  · exact cexec_array c _ x inv
  · obtain ⟨o, h⟩ := cexec_rpc inv c (.obj _)
    exact ⟨_, h⟩
  · exact ⟨[], CExec.refl cfg x⟩

/-- every `step` is a sequence of atoms with the same final state and the same observations -/
theorem step_exec {cfg : Config} {s : State} (inv : Inv cfg s) (op : Op) :
    ∃ tr, Exec cfg s tr (step cfg s op).1 ∧ obsOf tr = (step cfg s op).2 := by
  cases op with
  | connect c ws isLocal addr =>
    unfold step
    dsimp only
    split
    · exact ⟨[], Exec.nil _, rfl⟩
    · next h =>
      refine ⟨[([], _)], Exec.cons (Atom.connect s c ws isLocal addr ?_) (Exec.nil _), rfl⟩
      cases hh : findPeer s.peers c with
      | none => rfl
      | some p => simp [hh] at h
  | message c msg o =>
    unfold step
    dsimp only
    split
    · exact ⟨[], Exec.nil _, rfl⟩
    · obtain ⟨tr, h1⟩ := cexec_message (x := mkCtx s o) inv c msg
      split
      · refine ⟨tr, h1.1, ?_⟩
        show obsOf tr = (parseMessage cfg (mkCtx s o) c msg).1.out.reverse
        rw [h1.2]
        simp [mkCtx]
      · have inv1 : Inv cfg (parseMessage cfg (mkCtx s o) c msg).1.st := h1.1.inv inv
        obtain ⟨o2, h2⟩ := cexec_close inv1 c
        have h3 := h1.trans h2
        refine ⟨_, h3.1, ?_⟩
        show obsOf _ = (closePeer (parseMessage cfg (mkCtx s o) c msg).1 c).out.reverse
        rw [h3.2]
        simp [mkCtx]
  | disconnect c o =>
    unfold step
    dsimp only
    split
    · exact ⟨[], Exec.nil _, rfl⟩
    · obtain ⟨o2, h2⟩ := cexec_close (x := mkCtx s o) inv c
      refine ⟨_, h2.1, ?_⟩
      rw [h2.2]
      simp [mkCtx]
  | timerFire t o =>
    unfold step
    dsimp only
    obtain ⟨new, hout, _⟩ := (quiet_timeoutFired (mkCtx s o) t).emits
    refine ⟨[(new.reverse, _)], Exec.cons (Atom.timer (mkCtx s o) t new hout) (Exec.nil _), ?_⟩
    rw [hout]
    simp [obsOf, mkCtx]

theorem run_exec {cfg : Config} : ∀ (ops : List Op) {s : State}, Inv cfg s →
    ∃ tr, Exec cfg s tr (run cfg s ops).1 ∧ obsOf tr = (run cfg s ops).2.flatten
  | [], s, _ => ⟨[], Exec.nil _, rfl⟩
  | op :: rest, s, inv => by
    obtain ⟨tr1, h1, o1⟩ := step_exec inv op
    obtain ⟨tr2, h2, o2⟩ := run_exec rest (h1.inv inv)
    refine ⟨tr1 ++ tr2, ?_, ?_⟩
    · unfold run
      exact h1.append h2
    · unfold run
      rw [obsOf_append, o1, o2]
      simp

theorem inv_init (cfg : Config) (us : List User) : Inv cfg { users := us } := by
  refine ⟨⟨?_, ?_, ?_, ?_⟩, ⟨?_, ?_, ?_, ?_, ?_, ?_⟩, ?_⟩
  all_goals first
    | (intro p hp; cases hp)
    | (intro e he; simp [allElems] at he)
    | simp

end Cjet.Daemon.C01
