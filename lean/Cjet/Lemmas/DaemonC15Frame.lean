/-
  DaemonC15Frame — generic facts about `Cjet.Unwind.runLadder`:

  * the frame property: running a ladder in an ambient state that shares no name with it gives the
    result of the run from the empty state, with the ambient objects and links untouched;
  * `audit L = true` covers every `fail : Option Nat` (indices beyond the last step and steps that
    cannot fail behave like the success path).
-/
import Cjet.Unwind

namespace Cjet.Unwind

variable {R Lb : Type} [DecidableEq R] [DecidableEq Lb]

/-- `s` placed into an ambient state -/
def St.frame (s : St R) (A : List R) (K : List (R × R)) (n b : Nat) : St R :=
  ⟨s.held ++ A, s.links ++ K, s.responses + n, s.bad + b⟩

theorem St.frame_empty (A : List R) (K : List (R × R)) (n b : Nat) :
    (({} : St R).frame A K n b) = ⟨A, K, n, b⟩ := by
  simp [St.frame]

theorem exec1_frame (s : St R) (a : Act R) (A : List R) (K : List (R × R)) (n b : Nat)
    (hA : ∀ r ∈ a.res, r ∉ A) (hK : ∀ p ∈ a.pairs, p ∉ K) :
    exec1 (s.frame A K n b) a = (exec1 s a).frame A K n b := by
  cases a with
  | acquire r =>
    have hr : r ∉ A := hA r (by simp [Act.res])
    have hm : r ∈ s.held ++ A ↔ r ∈ s.held := by simp [hr]
    by_cases h : r ∈ s.held
    · simp [exec1, St.frame, h, Nat.add_right_comm]
    · simp [exec1, St.frame, h, hr]
  | release r =>
    have hr : r ∉ A := hA r (by simp [Act.res])
    by_cases h : r ∈ s.held
    · simp [exec1, St.frame, h, List.erase_append_left _ h]
    · simp [exec1, St.frame, h, hr, Nat.add_right_comm]
  | link t r =>
    have hp : (t, r) ∉ K := hK (t, r) (by simp [Act.pairs])
    by_cases h : (t, r) ∈ s.links
    · simp [exec1, St.frame, h, Nat.add_right_comm]
    · simp [exec1, St.frame, h, hp]
  | unlink t r =>
    have hp : (t, r) ∉ K := hK (t, r) (by simp [Act.pairs])
    by_cases h : (t, r) ∈ s.links
    · simp [exec1, St.frame, h, List.erase_append_left _ h]
    · simp [exec1, St.frame, h, hp, Nat.add_right_comm]
  | respond => simp [exec1, St.frame, Nat.add_right_comm]

theorem exec_frame (as : List (Act R)) (s : St R) (A : List R) (K : List (R × R)) (n b : Nat)
    (hA : ∀ a ∈ as, ∀ r ∈ a.res, r ∉ A) (hK : ∀ a ∈ as, ∀ p ∈ a.pairs, p ∉ K) :
    exec (s.frame A K n b) as = (exec s as).frame A K n b := by
  induction as generalizing s with
  | nil => rfl
  | cons a t ih =>
    show exec (exec1 (s.frame A K n b) a) t = (exec (exec1 s a) t).frame A K n b
    rw [exec1_frame s a A K n b (hA a List.mem_cons_self) (hK a List.mem_cons_self)]
    exact ih _ (fun a' h => hA a' (List.mem_cons_of_mem _ h)) (fun a' h => hK a' (List.mem_cons_of_mem _ h))

theorem dropWhile_subset {α : Type} (p : α → Bool) (l : List α) : ∀ x ∈ l.dropWhile p, x ∈ l :=
  fun _ h => (List.dropWhile_sublist p).subset h

theorem chainFrom_subset {chain : List (Lb × List (Act R))} {t : Option Lb} {c : List (Act R)}
    (h : chainFrom chain t = some c) : ∀ a ∈ c, a ∈ chain.flatMap (·.2) := by
  cases t with
  | none => simp [chainFrom] at h; subst h; intro a ha; cases ha
  | some l =>
    simp only [chainFrom] at h
    cases hd : chain.dropWhile (fun e => decide (e.1 ≠ l)) with
    | nil => rw [hd] at h; cases h
    | cons x rest =>
      rw [hd] at h
      cases h
      intro a ha
      obtain ⟨e, he, hae⟩ := List.mem_flatMap.mp ha
      exact List.mem_flatMap.mpr ⟨e, dropWhile_subset _ _ e (hd ▸ he), hae⟩

theorem failActs_subset {L : Ladder R Lb} {st : Step R Lb} (hst : st ∈ L.steps) {as : List (Act R)}
    (h : failActs L st = some as) : ∀ a ∈ as, a ∈ L.acts := by
  unfold failActs at h
  cases hc : chainFrom L.chain st.failTo with
  | none => rw [hc] at h; cases h
  | some c =>
    rw [hc] at h
    cases h
    intro a ha
    unfold Ladder.acts
    rcases List.mem_append.mp ha with ha | ha
    · apply List.mem_append_left
      apply List.mem_append_left
      refine List.mem_flatMap.mpr ⟨st, hst, ?_⟩
      unfold Step.acts
      rcases List.mem_append.mp ha with ha | ha
      · exact List.mem_append_left _ (List.mem_append_right _ ha)
      · exact List.mem_append_right _ ha
    · apply List.mem_append_left
      apply List.mem_append_right
      exact chainFrom_subset hc a ha

theorem ok_subset {L : Ladder R Lb} {st : Step R Lb} (hst : st ∈ L.steps) : ∀ a ∈ st.ok, a ∈ L.acts := by
  intro a ha
  unfold Ladder.acts
  apply List.mem_append_left
  apply List.mem_append_left
  refine List.mem_flatMap.mpr ⟨st, hst, ?_⟩
  unfold Step.acts
  exact List.mem_append_left _ (List.mem_append_left _ ha)

theorem done_subset (L : Ladder R Lb) : ∀ a ∈ L.done, a ∈ L.acts := by
  intro a ha
  unfold Ladder.acts
  exact List.mem_append_right _ ha

theorem runFrom_frame (L : Ladder R Lb) (fail : Option Nat) (A : List R) (K : List (R × R)) (n b : Nat)
    (hf : Fresh L A K) (steps : List (Step R Lb)) (hsub : ∀ st ∈ steps, st ∈ L.steps) (s : St R) (i : Nat) :
    runFrom L fail (s.frame A K n b) steps i = (runFrom L fail s steps i).frame A K n b := by
  induction steps generalizing s i with
  | nil =>
    exact exec_frame L.done s A K n b (fun a ha => hf.1 a (done_subset L a ha)) (fun a ha => hf.2 a (done_subset L a ha))
  | cons st rest ih =>
    have hst := hsub st List.mem_cons_self
    unfold runFrom
    by_cases hc : fail = some i ∧ st.canFail = true
    · simp only [hc, and_self, ↓reduceIte]
      cases hfa : failActs L st with
      | none => simp [St.frame, Nat.add_right_comm]
      | some as =>
        exact exec_frame as s A K n b (fun a ha => hf.1 a (failActs_subset hst hfa a ha))
          (fun a ha => hf.2 a (failActs_subset hst hfa a ha))
    · simp only [hc, ↓reduceIte]
      rw [exec_frame st.ok s A K n b (fun a ha => hf.1 a (ok_subset hst a ha)) (fun a ha => hf.2 a (ok_subset hst a ha))]
      exact ih (fun st' h => hsub st' (List.mem_cons_of_mem _ h)) _ _

/-- the frame property of a ladder run: entered with its own pre-existing objects plus an ambient
    state that shares no name with it, the ladder behaves as from its bare entry state and leaves
    the ambient objects and links untouched -/
theorem runLadder_frame (L : Ladder R Lb) (fail : Option Nat) (A : List R) (K : List (R × R)) (n b : Nat)
    (hf : Fresh L A K) :
    runLadder L fail ⟨L.pre ++ A, L.preLinks ++ K, n, b⟩ = (runLadder L fail (entry L)).frame A K n b := by
  have := runFrom_frame L fail A K n b hf L.steps (fun _ h => h) (entry L) 0
  simpa [St.frame, entry, runLadder] using this

/-! ## `fail` values that are no failure points -/

theorem runFrom_nofail (L : Ladder R Lb) (fail : Option Nat) (steps : List (Step R Lb)) (s : St R) (i : Nat)
    (h : ∀ j, fail = some j → ∀ st, steps[j - i]? = some st → i ≤ j → st.canFail = false) :
    runFrom L fail s steps i = runFrom L none s steps i := by
  induction steps generalizing s i with
  | nil => rfl
  | cons st rest ih =>
    unfold runFrom
    have hno : ¬ (fail = some i ∧ st.canFail = true) := by
      rintro ⟨hf, hc⟩
      have := h i hf st (by simp) (Nat.le_refl _)
      rw [this] at hc; cases hc
    simp only [hno, ↓reduceIte]
    have hno' : ¬ ((none : Option Nat) = some i ∧ st.canFail = true) := by rintro ⟨h1, _⟩; cases h1
    simp only [hno', ↓reduceIte]
    apply ih
    intro j hj st' hst' hij
    apply h j hj st' _ (by omega)
    have : j - i = (j - (i + 1)) + 1 := by omega
    rw [this, List.getElem?_cons_succ]
    exact hst'

theorem run_of_not_failsAt (L : Ladder R Lb) (fail : Option Nat) (h : failsAt L fail = false) (s : St R) :
    runLadder L fail s = runLadder L none s := by
  apply runFrom_nofail
  intro j hj st hst _
  subst hj
  simp only [Nat.sub_zero] at hst
  simp only [failsAt, hst] at h
  exact h

theorem auditOne_of_not_failsAt (L : Ladder R Lb) (fail : Option Nat) (h : failsAt L fail = false) :
    auditOne L fail = auditOne L none := by
  unfold auditOne
  rw [run_of_not_failsAt L fail h, h]
  rfl

theorem audit_all (L : Ladder R Lb) (h : audit L = true) (fail : Option Nat) : auditOne L fail = true := by
  unfold audit at h
  rw [Bool.and_eq_true, List.all_eq_true] at h
  cases hf : failsAt L fail with
  | false => rw [auditOne_of_not_failsAt L fail hf]; exact h.1
  | true =>
    cases fail with
    | none => exact h.1
    | some i =>
      apply h.2 i
      rw [List.mem_range]
      simp only [failsAt] at hf
      cases hs : L.steps[i]? with
      | none => rw [hs] at hf; cases hf
      | some st =>
        exact (List.getElem?_eq_some_iff.mp hs).1

/-- what the audit says about the run from the empty state -/
theorem auditOne_spec {L : Ladder R Lb} {fail : Option Nat} (h : auditOne L fail = true) :
    let s := runLadder L fail (entry L)
    s.bad = 0 ∧ s.responses ≤ 1 ∧
    (failsAt L fail = true → s.held = L.pre ∧ s.links = L.preLinks) ∧
    (failsAt L fail = false → s.held = L.intended ∧ s.links = L.intendedLinks ∧
      ∀ p ∈ L.intendedLinks, p.2 ∈ L.intended) := by
  unfold auditOne at h
  simp only [Bool.and_eq_true, decide_eq_true_eq] at h
  refine ⟨h.1.1, h.1.2, ?_, ?_⟩
  · intro hf
    have h2 := h.2
    rw [hf] at h2
    simpa using h2
  · intro hf
    have h2 := h.2
    rw [hf] at h2
    simp only [Bool.false_eq_true, ↓reduceIte, Bool.and_eq_true, decide_eq_true_eq, List.all_eq_true] at h2
    exact ⟨h2.1.1, h2.1.2, h2.2⟩

end Cjet.Unwind
