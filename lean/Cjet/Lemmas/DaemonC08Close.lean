/-
  DaemonC08Close — routed answers, timer expiry and `free_peer_resources` keep the invariants
  and send only justified values.
-/
import Cjet.Lemmas.DaemonC08Fetch

namespace Cjet.Daemon.C08

open Cjet Cjet.Json Cjet.Daemon

/-! ## clearRoute -/

theorem clearRoute_spec {Q : Obs → Prop} (hQ1 : ∀ t, Q (.timerDestroy t))
    (hQ2 : ∀ c j ok, idFirst j = true → Q (.send c j ok)) (x : Ctx) (r : Route) (c : Nat) :
    (clearRoute x r c).st = x.st ∧ OutExt Q x (clearRoute x r c) := by
  unfold clearRoute
  have he : OutExt Q x (emit x (.timerDestroy r.timer)) := OutExt.emit x _ (hQ1 _)
  simp only
  split
  · exact ⟨rfl, he⟩
  · split
    · exact ⟨rfl, he⟩
    · split
      · rename_i resp hresp
        exact ⟨by simp, he.trans (OutExt.send' _ _ _ (fun ok => hQ2 _ _ ok (idFirst_errorResponse hresp)))⟩
      · exact ⟨rfl, he⟩

theorem foldl_clearRoute_spec {Q : Obs → Prop} (hQ1 : ∀ t, Q (.timerDestroy t))
    (hQ2 : ∀ c j ok, idFirst j = true → Q (.send c j ok)) (rs : List Route) (c : Nat) (x : Ctx) :
    (rs.foldl (fun x r => clearRoute x r c) x).st = x.st ∧ OutExt Q x (rs.foldl (fun x r => clearRoute x r c) x) := by
  induction rs generalizing x with
  | nil => exact ⟨rfl, OutExt.refl _ _⟩
  | cons r rest ih =>
    simp only [List.foldl_cons]
    obtain ⟨a1, a2⟩ := clearRoute_spec hQ1 hQ2 x r c
    obtain ⟨b1, b2⟩ := ih (clearRoute x r c)
    exact ⟨b1.trans a1, a2.trans b2⟩

theorem J_timerDestroy (cfg : Config) (s0 : State) (d : Option (Bytes × Nat)) (t : Nat) : J cfg s0 d (.timerDestroy t) := trivial
theorem J_send_idFirst (cfg : Config) (s0 : State) (d : Option (Bytes × Nat)) (c : Nat) (j : Json) (ok : Bool)
    (h : idFirst j = true) : J cfg s0 d (.send c j ok) := Or.inl h

/-! ## routed answers and timer expiry -/

/-- result of a handler that produces no response value -/
structure Good' (cfg : Config) (d : Option (Bytes × Nat)) (x x' : Ctx) : Prop where
  inv : FInv cfg x'.st
  out : OutExt (J cfg x.st d) x x'
  auth : AuthSame x.st x'.st

theorem Good'.refl {cfg : Config} {d : Option (Bytes × Nat)} {x : Ctx} (h : FInv cfg x.st) : Good' cfg d x x :=
  ⟨h, OutExt.refl _ _, AuthSame.refl _⟩

theorem routingResponse_good {cfg : Config} {d : Option (Bytes × Nat)} {x : Ctx} {p : Peer} {msg payload : Json} {typ : String}
    (h : FInv cfg x.st) : Good' cfg d x (routingResponse x p msg payload typ).1 := by
  unfold routingResponse
  cases hid : msg.getItem (k "id") with
  | none => exact Good'.refl h
  | some id =>
    cases id with
    | str rid =>
      simp only
      cases hf : p.routes.find? (fun r => r.rid == rid) with
      | none => exact Good'.refl h
      | some r =>
        have hinv : FInv cfg ({ x.st with peers := removeRoute x.st.peers p.conn rid } : State) := h.removeRoute p.conn rid rfl
        have hauth : AuthSame x.st ({ x.st with peers := removeRoute x.st.peers p.conn rid } : State) :=
          AuthSame.routes p.conn _ rfl rfl
        have hout : OutExt (J cfg x.st d) x
            (emit { x with st := { x.st with peers := removeRoute x.st.peers p.conn rid } } (.timerDestroy r.timer)) :=
          ⟨[_], rfl, by simp [J]⟩
        simp only
        cases ho : r.originId with
        | none => exact ⟨hinv, hout, hauth⟩
        | some oid =>
          simp only
          cases hresp : resultResponse oid payload typ with
          | none => exact ⟨hinv, hout, hauth⟩
          | some resp =>
            refine ⟨by simpa using hinv, hout.trans (OutExt.send' _ _ _ (fun ok => Or.inl (idFirst_resultResponse hresp))), ?_⟩
            simpa using hauth
    | _ => exact Good'.refl h

theorem timeoutFired_good {cfg : Config} {d : Option (Bytes × Nat)} {x : Ctx} {t : Nat}
    (h : FInv cfg x.st) : Good' cfg d x (timeoutFired x t) := by
  unfold timeoutFired
  cases hf : (x.st.peers.flatMap (fun q => q.routes)).find? (fun r => r.timer == t) with
  | none => exact Good'.refl h
  | some r =>
    have hinv : FInv cfg ({ x.st with peers := removeRoute x.st.peers r.owner r.rid } : State) := h.removeRoute _ _ rfl
    have hauth : AuthSame x.st ({ x.st with peers := removeRoute x.st.peers r.owner r.rid } : State) :=
      AuthSame.routes _ _ rfl rfl
    simp only
    cases ho : r.originId with
    | none => exact ⟨hinv, ⟨[_], rfl, by simp [J]⟩, hauth⟩
    | some oid =>
      simp only
      cases hresp : errorResponse oid INTERNAL_ERROR "reason" (k "timeout for routed request") with
      | none => exact ⟨hinv, ⟨[_], rfl, by simp [J]⟩, hauth⟩
      | some resp =>
        refine ⟨by simpa using hinv, ?_, by simpa using hauth⟩
        refine OutExt.trans (y := send' { x with st := { x.st with peers := removeRoute x.st.peers r.owner r.rid } } r.requester resp) ?_
          ⟨[_], rfl, by simp [J]⟩
        exact (OutExt.send' (Q := J cfg x.st d) { x with st := { x.st with peers := removeRoute x.st.peers r.owner r.rid } }
          r.requester resp (fun ok => Or.inl (idFirst_errorResponse hresp))).congr_left rfl

/-! ## free_peer_resources in stages -/

def fpr1 (x : Ctx) (p : Peer) (c : Nat) : Ctx :=
  let x := p.routes.foldl (fun x r => clearRoute x r c) x
  { x with st := { x.st with peers := updatePeer x.st.peers c (fun q => { q with routes := [] }) } }

def fpr2 (x : Ctx) (c : Nat) : Ctx :=
  let mine := x.st.peers.flatMap (fun q => q.routes.filter (·.requester == c))
  let x := mine.foldl (fun x r => clearRoute x r c) x
  { x with st := { x.st with peers := x.st.peers.map (fun (q : Peer) => { q with routes := q.routes.filter (·.requester != c) }) } }

def unsubE (c : Nat) (e : Element) : Element :=
  { e with fetchers := e.fetchers.map (fun s =>
      match s with | some fk => if fk.peer == c then none else some fk | none => none) }

def fpr3 (x : Ctx) (c : Nat) : Ctx :=
  { x with st := { x.st with peers := updatePeer (mapElements x.st.peers (unsubE c)) c (fun q => { q with fetches := [] }) } }

def fprBody (c : Nat) (x : Ctx) (e0 : Element) : Ctx :=
  match (findPeer x.st.peers c).bind (·.elements.find? (·.path == e0.path)) with
  | some e => removeElement x e
  | none => x

def fpr5 (x : Ctx) (c : Nat) : Ctx :=
  { x with st := { x.st with peers := x.st.peers.filter (·.conn != c) } }

theorem freePeerResources_eq (x : Ctx) (c : Nat) :
    freePeerResources x c = match findPeer x.st.peers c with
      | none => x
      | some p => fpr5 (p.elements.foldl (fprBody c) (fpr3 (fpr2 (fpr1 x p c) c) c)) c := by
  unfold freePeerResources
  cases findPeer x.st.peers c <;> rfl

/-- `g` keeps identity and authentication fields, and the fetch lists of all peers but `c` -/
def KeepsX (c : Nat) (g : Peer → Peer) : Prop := KeepsA g ∧ ∀ q, q.conn ≠ c → (g q).fetches = q.fetches

theorem KeepsX.of_keeps {c : Nat} {g : Peer → Peer} (h : Keeps g) : KeepsX c g := ⟨h.1, fun q _ => h.2 q⟩

theorem KeepsX.comp {c : Nat} {g h : Peer → Peer} (hg : KeepsX c g) (hh : KeepsX c h) : KeepsX c (fun q => h (g q)) := by
  refine ⟨hg.1.comp hh.1, fun q hq => ?_⟩
  rw [hh.2 (g q) (by rw [hg.1.conn]; exact hq), hg.2 q hq]

/-- stage invariant of `free_peer_resources` for the leaving peer `c`, relative to the state
    `s0` in which it started -/
structure CInv (cfg : Config) (c : Nat) (s0 : State) (d : Option (Bytes × Nat)) (P : Element → Prop) (x0 x : Ctx) : Prop where
  g : ∃ g, KeepsX c g ∧ x.st.peers = s0.peers.map g
  elems : ∀ o ∈ x.st.peers, ∀ e ∈ o.elements, P e
  users : x.st.users = s0.users
  out : OutExt (J cfg s0 d) x0 x

theorem CInv.step {cfg : Config} {c : Nat} {s0 : State} {d : Option (Bytes × Nat)} {P P' : Element → Prop} {x0 x x' : Ctx}
    (hI : CInv cfg c s0 d P x0 x) {h : Peer → Peer} (hh : KeepsX c h) (hp : x'.st.peers = x.st.peers.map h)
    (hu : x'.st.users = x.st.users) (ho : OutExt (J cfg s0 d) x x')
    (hel : ∀ q ∈ x.st.peers, ∀ e ∈ (h q).elements, P' e) : CInv cfg c s0 d P' x0 x' := by
  obtain ⟨g, hg, hgp⟩ := hI.g
  refine ⟨⟨fun q => h (g q), hg.comp hh, by rw [hp, hgp, List.map_map]; rfl⟩, ?_, hu.trans hI.users, hI.out.trans ho⟩
  intro o ho' e he
  rw [hp] at ho'
  obtain ⟨q, hq, rfl⟩ := List.mem_map.mp ho'
  exact hel q hq e he

theorem fpr1_step {cfg : Config} {c : Nat} {s0 : State} {d : Option (Bytes × Nat)} {P : Element → Prop} {x0 x : Ctx}
    (hI : CInv cfg c s0 d P x0 x) (p : Peer) : CInv cfg c s0 d P x0 (fpr1 x p c) := by
  obtain ⟨a1, a2⟩ := foldl_clearRoute_spec (Q := J cfg s0 d) (J_timerDestroy cfg s0 d) (J_send_idFirst cfg s0 d) p.routes c x
  refine hI.step (h := fun q => if q.conn == c then { q with routes := [] } else q)
    (KeepsX.of_keeps (keeps_routes_ite c (fun _ => []))) ?_ ?_ (a2.congr_right rfl) ?_
  · show updatePeer _ c _ = _
    rw [a1]; rfl
  · show (List.foldl _ x p.routes).st.users = _
    rw [a1]
  · intro q hq e he
    exact hI.elems q hq e (routes_ite_sub c (fun _ => []) q e he)

theorem fpr2_step {cfg : Config} {c : Nat} {s0 : State} {d : Option (Bytes × Nat)} {P : Element → Prop} {x0 x : Ctx}
    (hI : CInv cfg c s0 d P x0 x) : CInv cfg c s0 d P x0 (fpr2 x c) := by
  obtain ⟨a1, a2⟩ := foldl_clearRoute_spec (Q := J cfg s0 d) (J_timerDestroy cfg s0 d) (J_send_idFirst cfg s0 d)
    (x.st.peers.flatMap (fun q => q.routes.filter (·.requester == c))) c x
  refine hI.step (h := fun q => { q with routes := q.routes.filter (·.requester != c) })
    (KeepsX.of_keeps (keeps_routes _)) ?_ ?_ (a2.congr_right rfl) ?_
  · show List.map _ (List.foldl _ x _).st.peers = _
    rw [a1]
  · show (List.foldl _ x _).st.users = _
    rw [a1]
  · intro q hq e he
    exact hI.elems q hq e he

def unsubG (c : Nat) (q : Peer) : Peer :=
  if q.conn == c then { q with elements := q.elements.map (unsubE c), fetches := [] }
  else { q with elements := q.elements.map (unsubE c) }

theorem fpr3_peers (x : Ctx) (c : Nat) : (fpr3 x c).st.peers = x.st.peers.map (unsubG c) := by
  show updatePeer (mapElements x.st.peers (unsubE c)) c _ = _
  rw [updatePeer_eq_map, mapElements_eq_map, List.map_map]
  apply List.map_congr_left
  intro q _
  simp only [Function.comp, unsubG]

theorem unsubG_keepsX (c : Nat) : KeepsX c (unsubG c) := by
  constructor
  · intro q; unfold unsubG; split <;> exact ⟨rfl, rfl, rfl, rfl, rfl⟩
  · intro q hq
    unfold unsubG
    split
    · rename_i h; exact absurd (by simpa using h) hq
    · rfl

theorem unsubG_elements (c : Nat) (q : Peer) : (unsubG c q).elements = q.elements.map (unsubE c) := by
  unfold unsubG; split <;> rfl

theorem unsubE_mem {c : Nat} {e : Element} {fk : FetchKey} (h : some fk ∈ (unsubE c e).fetchers) :
    some fk ∈ e.fetchers ∧ fk.peer ≠ c := by
  unfold unsubE at h
  obtain ⟨s, hs, he⟩ := List.mem_map.mp h
  split at he
  · split at he
    · cases he
    · rename_i hne
      cases he
      exact ⟨hs, by simpa using hne⟩
  · cases he

/-- what the element loop of `free_peer_resources` relies on -/
def CElem (cfg : Config) (c : Nat) (s0 : State) (e : Element) : Prop :=
  ElemOK cfg s0.peers e ∧ ElemIn s0 e.path e.fetchGroups ∧ ∀ fk, some fk ∈ e.fetchers → fk.peer ≠ c

theorem fpr3_step {cfg : Config} {c : Nat} {s0 : State} {d : Option (Bytes × Nat)} {x0 x : Ctx}
    (hI : CInv cfg c s0 d (fun e => ElemOK cfg s0.peers e ∧ ElemIn s0 e.path e.fetchGroups) x0 x) :
    CInv cfg c s0 d (CElem cfg c s0) x0 (fpr3 x c) := by
  refine hI.step (unsubG_keepsX c) (fpr3_peers x c) rfl (OutExt.refl _ _) ?_
  intro q hq e he
  rw [unsubG_elements] at he
  obtain ⟨e0, he0, rfl⟩ := List.mem_map.mp he
  obtain ⟨h1, h2⟩ := hI.elems q hq e0 he0
  refine ⟨?_, h2, fun fk hfk => (unsubE_mem hfk).2⟩
  exact h1.sub rfl (fun fk hfk => (unsubE_mem hfk).1)

theorem fprBody_step {cfg : Config} {c : Nat} {s0 : State} {d : Option (Bytes × Nat)} {x0 x : Ctx}
    (hI : CInv cfg c s0 d (CElem cfg c s0) x0 x) (e0 : Element) :
    CInv cfg c s0 d (CElem cfg c s0) x0 (fprBody c x e0) := by
  unfold fprBody
  cases hrb : (findPeer x.st.peers c).bind (·.elements.find? (·.path == e0.path)) with
  | none => exact hI
  | some e =>
    simp only
    obtain ⟨q, hq, hfind⟩ := Option.bind_eq_some_iff.mp hrb
    obtain ⟨p1, p2, _⟩ := hI.elems q (findPeer_mem hq) e (List.mem_of_find?_eq_some hfind)
    obtain ⟨r1, r2, r3⟩ := removeElement_spec (cfg := cfg) (s0 := s0) (d := d) x e p1 (Or.inl p2)
    refine hI.step (KeepsX.of_keeps (keeps_filter e.owner e.path)) r2 r3 r1 ?_
    intro q' hq' el hel
    exact hI.elems q' hq' el (filter_sub _ _ q' el hel)

theorem fprLoop {cfg : Config} {c : Nat} {s0 : State} {d : Option (Bytes × Nat)} {x0 : Ctx} (es : List Element) (x : Ctx)
    (hI : CInv cfg c s0 d (CElem cfg c s0) x0 x) :
    CInv cfg c s0 d (CElem cfg c s0) x0 (es.foldl (fprBody c) x) := by
  induction es generalizing x with
  | nil => exact hI
  | cons e rest ih => exact ih _ (fprBody_step hI e)

theorem fpr5_final {cfg : Config} {c : Nat} {s0 : State} {d : Option (Bytes × Nat)} {x0 x : Ctx} (h0 : FInv cfg s0)
    (hI : CInv cfg c s0 d (CElem cfg c s0) x0 x) :
    FInv cfg (fpr5 x c).st ∧ OutExt (J cfg s0 d) x0 (fpr5 x c) ∧ AuthSame s0 (fpr5 x c).st := by
  obtain ⟨g, hg, hgp⟩ := hI.g
  have hpeers : (fpr5 x c).st.peers = (s0.peers.map g).filter (fun q => q.conn != c) := by
    show x.st.peers.filter _ = _
    rw [hgp]
  refine ⟨⟨?_, ?_⟩, hI.out.congr_right rfl, hI.users, ?_⟩
  · rw [hpeers]
    have hsub : (((s0.peers.map g).filter (fun q => q.conn != c)).map (·.conn)).Sublist ((s0.peers.map g).map (·.conn)) :=
      (List.filter_sublist).map _
    refine List.Nodup.sublist hsub ?_
    rw [map_conn_of_keepsA hg.1]; exact h0.nodup
  · intro o ho e he fk hfk
    rw [hpeers] at ho ⊢
    have ho' : o ∈ x.st.peers := by rw [hgp]; exact (List.mem_filter.mp ho).1
    obtain ⟨e1, _, e3⟩ := hI.elems o ho' e he
    have hne : fk.peer ≠ c := e3 fk hfk
    refine (e1 fk hfk).transfer ?_
    intro q hq hu
    refine ⟨g q, ?_, ?_, (hg.1 q).2.2.1⟩
    · rw [findPeer_filter_ne _ _ _ hne, findPeer_map hg.1.conn, hq]; rfl
    · have : q.conn ≠ c := by rw [findPeer_conn hq]; exact hne
      simpa [fuids, hg.2 q this] using hu
  · intro p' hp'
    rw [hpeers] at hp'
    obtain ⟨q, hq, rfl⟩ := List.mem_map.mp (List.mem_filter.mp hp').1
    exact ⟨q, hq, AV_of_keepsA hg.1 q⟩

theorem freePeerResources_good {cfg : Config} {d : Option (Bytes × Nat)} {x : Ctx} {c : Nat}
    (h : FInv cfg x.st) : Good' cfg d x (freePeerResources x c) := by
  rw [freePeerResources_eq]
  cases hp : findPeer x.st.peers c with
  | none => exact Good'.refl h
  | some p =>
    simp only
    have h0 : CInv cfg c x.st d (fun e => ElemOK cfg x.st.peers e ∧ ElemIn x.st e.path e.fetchGroups) x x := by
      refine ⟨⟨fun q => q, ⟨KeepsA.id, fun _ _ => rfl⟩, (List.map_id' _).symm⟩, ?_, rfl, OutExt.refl _ _⟩
      intro o ho e he
      exact ⟨h.fetchers o ho e he, o, ho, e, he, rfl, rfl⟩
    have h3 := fpr3_step (fpr2_step (fpr1_step h0 p))
    obtain ⟨f1, f2, f3⟩ := fpr5_final h (fprLoop p.elements _ h3)
    exact ⟨f1, f2, f3⟩

theorem closePeer_good {cfg : Config} {d : Option (Bytes × Nat)} {x : Ctx} {c : Nat}
    (h : FInv cfg x.st) : Good' cfg d x (closePeer x c) := by
  obtain ⟨f1, f2, f3⟩ := freePeerResources_good (cfg := cfg) (d := d) (c := c) h
  exact ⟨f1, f2.trans (OutExt.emit _ _ trivial), f3⟩

end Cjet.Daemon.C08
