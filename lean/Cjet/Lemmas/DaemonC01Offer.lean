/-
  C01 — `offerAllElements` (add_fetch_to_states): every element of every peer is offered to the
  new fetch exactly once; the result is a plain map over the state.
-/
import Cjet.Lemmas.DaemonC01Notify

namespace Cjet.Daemon.C01

open Cjet Cjet.Json Cjet.Daemon

/-- one iteration of the inner loop of `offerAllElements` -/
def offerStep (cfg : Config) (fp : Peer) (f : Fetch) (oc : Nat) (x : Ctx) (e0 : Element) : Ctx :=
  let e := match (findPeer x.st.peers oc).bind (·.elements.find? (·.path == e0.path)) with
    | some e => e | none => e0
  let (x, e') := offerElement cfg x e fp f
  { x with st := { x.st with peers := updatePeer x.st.peers oc (fun q =>
      { q with elements := q.elements.map (fun el => if el.path == e'.path then e' else el) }) } }

theorem offerAllElements_eq (cfg : Config) (x : Ctx) (fp : Peer) (f : Fetch) :
    offerAllElements cfg x fp f =
      x.st.peers.foldl (fun x owner => owner.elements.foldl (offerStep cfg fp f owner.conn) x) x := rfl

theorem findPeer_append_cons {A B : List Peer} {q : Peer} (hA : ∀ a ∈ A, a.conn ≠ q.conn) :
    findPeer (A ++ q :: B) q.conn = some q := by
  unfold findPeer
  rw [List.find?_append]
  have : A.find? (·.conn == q.conn) = none := by
    rw [List.find?_eq_none]
    intro a ha
    simpa using hA a ha
  rw [this]
  simp

theorem updatePeer_append_cons {A B : List Peer} {q : Peer} {c : Nat} (h : Peer → Peer)
    (hA : ∀ a ∈ A, a.conn ≠ c) (hB : ∀ b ∈ B, b.conn ≠ c) (hq : q.conn = c) :
    updatePeer (A ++ q :: B) c h = A ++ h q :: B := by
  unfold updatePeer
  rw [List.map_append, List.map_cons]
  have h1 : A.map (fun p => if p.conn == c then h p else p) = A := by
    conv => rhs; rw [← List.map_id A]
    apply List.map_congr_left
    intro a ha
    have : (a.conn == c) = false := by simpa using hA a ha
    simp [this]
  have h2 : B.map (fun p => if p.conn == c then h p else p) = B := by
    conv => rhs; rw [← List.map_id B]
    apply List.map_congr_left
    intro a ha
    have : (a.conn == c) = false := by simpa using hB a ha
    simp [this]
  rw [h1, h2]
  simp [hq]

theorem find_path_append_cons {dn es : List Element} {e0 : Element}
    (hd : ∀ d ∈ dn, d.path ≠ e0.path) :
    (dn ++ e0 :: es).find? (·.path == e0.path) = some e0 := by
  rw [List.find?_append]
  have : dn.find? (·.path == e0.path) = none := by
    rw [List.find?_eq_none]
    intro a ha
    simpa using hd a ha
  rw [this]
  simp

theorem map_replace_append_cons {dn es : List Element} {e0 e' : Element} {pth : Bytes}
    (hd : ∀ d ∈ dn, d.path ≠ pth) (hes : ∀ d ∈ es, d.path ≠ pth) (h0 : e0.path = pth) :
    (dn ++ e0 :: es).map (fun el => if el.path == pth then e' else el) = dn ++ e' :: es := by
  rw [List.map_append, List.map_cons]
  have h1 : dn.map (fun el => if el.path == pth then e' else el) = dn := by
    conv => rhs; rw [← List.map_id dn]
    apply List.map_congr_left
    intro a ha
    have : (a.path == pth) = false := by simpa using hd a ha
    simp [this]
  have h2 : es.map (fun el => if el.path == pth then e' else el) = es := by
    conv => rhs; rw [← List.map_id es]
    apply List.map_congr_left
    intro a ha
    have : (a.path == pth) = false := by simpa using hes a ha
    simp [this]
  rw [h1, h2]
  simp [h0]

theorem nodup_paths_split {dn es : List Element} {e0 : Element}
    (h : ((dn ++ e0 :: es).map (·.path)).Nodup) :
    (∀ d ∈ dn, d.path ≠ e0.path) ∧ (∀ d ∈ es, d.path ≠ e0.path) := by
  rw [List.map_append, List.map_cons, List.nodup_append, List.nodup_cons] at h
  obtain ⟨_, ⟨h2, _⟩, h3⟩ := h
  constructor
  · intro d hd
    exact h3 d.path (List.mem_map_of_mem (f := (·.path)) hd) e0.path List.mem_cons_self
  · intro d hd heq
    exact h2 (heq ▸ List.mem_map_of_mem (f := (·.path)) hd)

theorem offerStep_spec (cfg : Config) (fp : Peer) (f : Fetch) (y : Ctx) (q : Peer) (A B : List Peer)
    (dn es : List Element) (e0 : Element)
    (hps : y.st.peers = A ++ q :: B) (hA : ∀ a ∈ A, a.conn ≠ q.conn) (hB : ∀ b ∈ B, b.conn ≠ q.conn)
    (hq : q.elements = dn ++ e0 :: es) (hn : ((dn ++ e0 :: es).map (·.path)).Nodup) :
    (offerStep cfg fp f q.conn y e0).st =
      { y.st with peers := A ++ { q with elements := dn ++ offer1 cfg fp.conn fp.fetchGroups f e0 :: es } :: B } ∧
    Emits y (offerStep cfg fp f q.conn y e0) (addNotif cfg fp.conn fp.fetchGroups f e0).toList := by
  obtain ⟨hd, hes⟩ := nodup_paths_split hn
  have hback : (findPeer y.st.peers q.conn).bind (·.elements.find? (·.path == e0.path)) = some e0 := by
    rw [hps, findPeer_append_cons hA]
    simp only [Option.bind_some, hq]
    exact find_path_append_cons hd
  obtain ⟨h1, h2, h3⟩ := offerElement_spec cfg y e0 fp f
  unfold offerStep
  simp only [hback]
  constructor
  · simp only [h2, h1, offer1_path]
    rw [hps, updatePeer_append_cons _ hA hB rfl]
    simp only [hq]
    rw [map_replace_append_cons hd hes rfl]
  · exact h3.of_out_eq rfl

theorem offerInner_spec (cfg : Config) (fp : Peer) (f : Fetch) :
    ∀ (es dn : List Element) (y : Ctx) (q : Peer) (A B : List Peer),
    y.st.peers = A ++ q :: B → (∀ a ∈ A, a.conn ≠ q.conn) → (∀ b ∈ B, b.conn ≠ q.conn) →
    q.elements = dn ++ es → ((dn ++ es).map (·.path)).Nodup →
    (es.foldl (offerStep cfg fp f q.conn) y).st =
      { y.st with peers := A ++ { q with elements := dn ++ es.map (offer1 cfg fp.conn fp.fetchGroups f) } :: B } ∧
    Emits y (es.foldl (offerStep cfg fp f q.conn) y) (es.filterMap (addNotif cfg fp.conn fp.fetchGroups f))
  | [], dn, y, q, A, B, hps, _, _, hq, _ => by
    refine ⟨?_, Emits.refl y⟩
    simp only [List.foldl_nil, List.map_nil]
    rw [← hq, ← hps]
  | e0 :: es, dn, y, q, A, B, hps, hA, hB, hq, hn => by
    obtain ⟨s1, s2⟩ := offerStep_spec cfg fp f y q A B dn es e0 hps hA hB hq hn
    have hn' : (((dn ++ [offer1 cfg fp.conn fp.fetchGroups f e0]) ++ es).map (·.path)).Nodup := by
      simpa using hn
    have ih := offerInner_spec cfg fp f es (dn ++ [offer1 cfg fp.conn fp.fetchGroups f e0])
      (offerStep cfg fp f q.conn y e0)
      { q with elements := dn ++ offer1 cfg fp.conn fp.fetchGroups f e0 :: es } A B
      (by rw [s1]) hA hB (by simp) hn'
    simp only [List.foldl_cons]
    obtain ⟨i1, i2⟩ := ih
    constructor
    · rw [i1, s1]
      simp
    · have := s2.trans i2
      rw [List.filterMap_cons]
      cases hh : addNotif cfg fp.conn fp.fetchGroups f e0 with
      | none => simpa [hh] using this
      | some n => simpa [hh] using this

/-- every element of the peer offered to the fetch -/
def offerPeer (cfg : Config) (c pg : Nat) (f : Fetch) (q : Peer) : Peer :=
  { q with elements := q.elements.map (offer1 cfg c pg f) }

theorem offerOuter_spec (cfg : Config) (fp : Peer) (f : Fetch) :
    ∀ (suf pre : List Peer) (y : Ctx),
    y.st.peers = pre.map (offerPeer cfg fp.conn fp.fetchGroups f) ++ suf →
    ((pre ++ suf).map (·.conn)).Nodup → (∀ q ∈ suf, (q.elements.map (·.path)).Nodup) →
    (suf.foldl (fun x owner => owner.elements.foldl (offerStep cfg fp f owner.conn) x) y).st =
      { y.st with peers := (pre ++ suf).map (offerPeer cfg fp.conn fp.fetchGroups f) } ∧
    Emits y (suf.foldl (fun x owner => owner.elements.foldl (offerStep cfg fp f owner.conn) x) y)
      (suf.flatMap (fun q => q.elements.filterMap (addNotif cfg fp.conn fp.fetchGroups f)))
  | [], pre, y, hps, _, _ => by
    refine ⟨?_, Emits.refl y⟩
    simp only [List.foldl_nil, List.append_nil] at hps ⊢
    rw [← hps]
  | q :: suf, pre, y, hps, hn, hp => by
    rw [List.map_append, List.map_cons, List.nodup_append, List.nodup_cons] at hn
    obtain ⟨hn1, ⟨hn2, hn3⟩, hn4⟩ := hn
    have hA : ∀ a ∈ pre.map (offerPeer cfg fp.conn fp.fetchGroups f), a.conn ≠ q.conn := by
      intro a ha
      obtain ⟨a0, ha0, rfl⟩ := List.mem_map.1 ha
      exact hn4 a0.conn (List.mem_map_of_mem (f := (·.conn)) ha0) q.conn List.mem_cons_self
    have hB : ∀ b ∈ suf, b.conn ≠ q.conn := by
      intro b hb heq
      exact hn2 (heq ▸ List.mem_map_of_mem (f := (·.conn)) hb)
    obtain ⟨s1, s2⟩ := offerInner_spec cfg fp f q.elements [] y q _ suf hps hA hB (by simp)
      (by simpa using hp q List.mem_cons_self)
    have ih := offerOuter_spec cfg fp f suf (pre ++ [q]) (q.elements.foldl (offerStep cfg fp f q.conn) y)
      (by rw [s1]; simp [offerPeer])
      (by
        rw [List.append_assoc, List.map_append, List.nodup_append]
        simp only [List.singleton_append, List.map_cons, List.nodup_cons]
        exact ⟨hn1, ⟨hn2, hn3⟩, hn4⟩)
      (fun q' hq' => hp q' (List.mem_cons_of_mem _ hq'))
    simp only [List.foldl_cons]
    obtain ⟨i1, i2⟩ := ih
    constructor
    · rw [i1, s1]
      simp
    · have := s2.trans i2
      simpa [List.flatMap_cons] using this

theorem offerAllElements_spec (cfg : Config) (x : Ctx) (fp : Peer) (f : Fetch)
    (hn : (x.st.peers.map (·.conn)).Nodup) (hp : ∀ q ∈ x.st.peers, (q.elements.map (·.path)).Nodup) :
    (offerAllElements cfg x fp f).st =
      { x.st with peers := x.st.peers.map (offerPeer cfg fp.conn fp.fetchGroups f) } ∧
    Emits x (offerAllElements cfg x fp f)
      ((allElems x.st).filterMap (addNotif cfg fp.conn fp.fetchGroups f)) := by
  rw [offerAllElements_eq]
  obtain ⟨h1, h2⟩ := offerOuter_spec cfg fp f x.st.peers [] x (by simp) (by simpa using hn) hp
  refine ⟨by simpa using h1, ?_⟩
  unfold allElems
  rw [List.filterMap_flatMap]
  exact h2

end Cjet.Daemon.C01
