import Cjet.Matcher.Spec

/-! Helper lemmas for C16: the libc loops against `List` prefix / suffix / infix. -/

namespace Cjet.Matcher

open List

/-! ### bytes -/

theorem forall_uint8 {P : UInt8 → Prop} (h : ∀ n : Fin 256, P (UInt8.ofNat n.val)) : ∀ b, P b := by
  intro b
  simpa using h ⟨b.toNat, b.toNat_lt⟩

theorem toLower_ne_zero : ∀ c : UInt8, c ≠ 0 → toLower c ≠ 0 := by
  apply forall_uint8
  decide +kernel

theorem diff_eq_zero {a b : UInt8} : diff a b = 0 ↔ a = b := by
  unfold diff
  constructor
  · intro h
    apply UInt8.toNat_inj.mp
    omega
  · rintro rfl
    omega

theorem diff_zero_left {b : UInt8} (hb : b ≠ 0) : diff 0 b ≠ 0 := by
  intro h
  exact hb (diff_eq_zero.mp h).symm

theorem diff_zero_right {a : UInt8} (ha : a ≠ 0) : diff a 0 ≠ 0 := by
  intro h
  exact ha (diff_eq_zero.mp h)

/-! ### NulFree, cstr, lower -/

@[simp] theorem nulFree_nil : NulFree [] := by simp [NulFree]

@[simp] theorem nulFree_cons {a : UInt8} {s : Bytes} : NulFree (a :: s) ↔ a ≠ 0 ∧ NulFree s := by
  simp [NulFree]

theorem nulFree_cstr : ∀ (b : Bytes), NulFree (cstr b)
  | [] => by simp [cstr]
  | a :: s => by
    have ih := nulFree_cstr s
    unfold cstr at ih ⊢
    by_cases h : a = 0
    · simp [h]
    · simp [h, ih]

theorem cstr_of_nulFree : ∀ {b : Bytes}, NulFree b → cstr b = b
  | [], _ => by simp [cstr]
  | a :: s, h => by
    have ih := cstr_of_nulFree (nulFree_cons.mp h).2
    have ha := (nulFree_cons.mp h).1
    unfold cstr at ih ⊢
    simp [ha, ih]

theorem nulFree_lower {s : Bytes} (h : NulFree s) : NulFree (lower s) := by
  intro x hx
  simp only [lower, List.mem_map] at hx
  obtain ⟨y, hy, rfl⟩ := hx
  exact toLower_ne_zero y (h y hy)

theorem nulFree_drop {s : Bytes} (h : NulFree s) (n : Nat) : NulFree (s.drop n) :=
  fun x hx => h x (List.mem_of_mem_drop hx)

@[simp] theorem lower_nil : lower [] = [] := rfl
@[simp] theorem lower_cons (a : UInt8) (s : Bytes) : lower (a :: s) = toLower a :: lower s := rfl
@[simp] theorem lower_length (s : Bytes) : (lower s).length = s.length := by simp [lower]
theorem lower_drop (s : Bytes) (n : Nat) : lower (s.drop n) = (lower s).drop n := by
  simp [lower, List.map_drop]

/-! ### strcmp family -/

theorem strcmp_eq_zero : ∀ (a b : Bytes), NulFree a → NulFree b → (strcmp a b = 0 ↔ a = b)
  | [], [], _, _ => by simp [strcmp]
  | [], b :: bs, _, hb => by
    have := diff_zero_left (nulFree_cons.mp hb).1
    simp [strcmp, this]
  | a :: as, [], ha, _ => by
    have := diff_zero_right (nulFree_cons.mp ha).1
    simp [strcmp, this]
  | a :: as, b :: bs, ha, hb => by
    have ih := strcmp_eq_zero as bs (nulFree_cons.mp ha).2 (nulFree_cons.mp hb).2
    unfold strcmp
    by_cases h : a = b
    · simp [h, ih]
    · simp [h, diff_eq_zero]

theorem strncmp_eq_zero : ∀ (a b : Bytes) (n : Nat), NulFree a → NulFree b →
    (strncmp a b n = 0 ↔ a.take n = b.take n)
  | _, _, 0, _, _ => by simp [strncmp]
  | [], [], _ + 1, _, _ => by simp [strncmp]
  | [], b :: bs, _ + 1, _, hb => by
    have := diff_zero_left (nulFree_cons.mp hb).1
    simp [strncmp, this]
  | a :: as, [], _ + 1, ha, _ => by
    have := diff_zero_right (nulFree_cons.mp ha).1
    simp [strncmp, this]
  | a :: as, b :: bs, n + 1, ha, hb => by
    have ih := strncmp_eq_zero as bs n (nulFree_cons.mp ha).2 (nulFree_cons.mp hb).2
    unfold strncmp
    by_cases h : a = b
    · simp [h, ih]
    · simp [h, diff_eq_zero]

theorem strcasecmp_eq_strcmp_lower : ∀ (a b : Bytes), strcasecmp a b = strcmp (lower a) (lower b)
  | [], [] => by simp [strcasecmp, strcmp]
  | [], b :: bs => by simp [strcasecmp, strcmp]
  | a :: as, [] => by simp [strcasecmp, strcmp]
  | a :: as, b :: bs => by
    have ih := strcasecmp_eq_strcmp_lower as bs
    simp [strcasecmp, strcmp, ih]

theorem strncasecmp_eq_strncmp_lower : ∀ (a b : Bytes) (n : Nat),
    strncasecmp a b n = strncmp (lower a) (lower b) n
  | _, _, 0 => by simp [strncasecmp, strncmp]
  | [], [], _ + 1 => by simp [strncasecmp, strncmp]
  | [], b :: bs, _ + 1 => by simp [strncasecmp, strncmp]
  | a :: as, [], _ + 1 => by simp [strncasecmp, strncmp]
  | a :: as, b :: bs, n + 1 => by
    have ih := strncasecmp_eq_strncmp_lower as bs n
    simp [strncasecmp, strncmp, ih]

/-- `strncmp(op, path, strlen(op)) == 0` is the prefix test. -/
theorem strncmp_len_eq_zero (a b : Bytes) (ha : NulFree a) (hb : NulFree b) :
    strncmp a b a.length = 0 ↔ a <+: b := by
  rw [strncmp_eq_zero a b _ ha hb, List.take_length, List.prefix_iff_eq_take]

/-- Comparing more bytes than the second string has (terminator included) is `strcmp`. -/
theorem strncmp_long_eq_zero (a b : Bytes) (n : Nat) (ha : NulFree a) (hb : NulFree b)
    (hn : b.length < n) : strncmp a b n = 0 ↔ a = b := by
  rw [strncmp_eq_zero a b n ha hb, List.take_of_length_le (Nat.le_of_lt hn)]
  constructor
  · intro h
    by_cases hl : a.length ≤ n
    · rwa [List.take_of_length_le hl] at h
    · have := congrArg List.length h
      simp only [List.length_take] at this
      omega
  · rintro rfl
    exact List.take_of_length_le (Nat.le_of_lt hn)

/-! ### strstr family -/

theorem startsAt_iff : ∀ (h n : Bytes), startsAt h n = true ↔ n <+: h
  | _, [] => by simp [startsAt]
  | [], _ :: _ => by simp [startsAt]
  | h :: hs, n :: ns => by
    have ih := startsAt_iff hs ns
    rw [List.cons_prefix_cons, ← ih]
    simp only [startsAt, Bool.and_eq_true, beq_iff_eq]
    constructor
    · rintro ⟨rfl, h2⟩
      exact ⟨rfl, h2⟩
    · rintro ⟨rfl, h2⟩
      exact ⟨rfl, h2⟩

theorem startsAtCI_eq : ∀ (h n : Bytes), startsAtCI h n = startsAt (lower h) (lower n)
  | _, [] => by simp [startsAtCI, startsAt]
  | [], _ :: _ => by simp [startsAtCI, startsAt]
  | h :: hs, n :: ns => by
    have ih := startsAtCI_eq hs ns
    simp [startsAtCI, startsAt, ih]

theorem strstrFrom_isSome (needle : Bytes) : ∀ (hay : Bytes) (off : Nat),
    (strstrFrom needle hay off).isSome = true ↔ needle <:+: hay
  | [], off => by
    unfold strstrFrom
    by_cases h : startsAt [] needle = true
    · have := (startsAt_iff [] needle).mp h
      simp [h, this.isInfix]
    · have hn : ¬ needle <+: [] := fun hp => h ((startsAt_iff [] needle).mpr hp)
      simp only [List.prefix_nil] at hn
      simp [h, hn]
  | x :: t, off => by
    have ih := strstrFrom_isSome needle t (off + 1)
    unfold strstrFrom
    by_cases h : startsAt (x :: t) needle = true
    · have := (startsAt_iff (x :: t) needle).mp h
      simp [h, this.isInfix]
    · have hn : ¬ needle <+: x :: t := fun hp => h ((startsAt_iff _ needle).mpr hp)
      simp only [h, Bool.false_eq_true, ↓reduceIte, ih]
      rw [List.infix_cons_iff]
      simp [hn]

theorem strcasestrFrom_eq (needle : Bytes) : ∀ (hay : Bytes) (off : Nat),
    strcasestrFrom needle hay off = strstrFrom (lower needle) (lower hay) off
  | [], off => by simp [strcasestrFrom, strstrFrom, startsAtCI_eq]
  | x :: t, off => by
    have ih := strcasestrFrom_eq needle t (off + 1)
    simp [strcasestrFrom, strstrFrom, startsAtCI_eq, ih]

theorem strstr_isSome (hay needle : Bytes) : (strstr hay needle).isSome = true ↔ needle <:+: hay :=
  strstrFrom_isSome needle hay 0

theorem strcasestr_isSome (hay needle : Bytes) :
    (strcasestr hay needle).isSome = true ↔ lower needle <:+: lower hay := by
  unfold strcasestr
  rw [strcasestrFrom_eq]
  exact strstrFrom_isSome _ _ 0

end Cjet.Matcher
