/-
  DaemonC07Run — the timer ledger lifted to `step` and `run` of the daemon model.

  `tlog os` is the timer log (newest first) of the observation lists `os` a run returned.
  `LedgerU s tl` (unconditional) and `LedgerC s tl` (with distinct routed ids) are invariants of
  (state, log of the whole history).
-/
import Cjet.Lemmas.DaemonC07Sim

namespace Cjet.Daemon.C07

open Cjet Cjet.Json Cjet.Daemon Cjet.Daemon.C03

/-! ## logs -/

/-- timer observations of the per-operation output lists of a run, newest first -/
def tlog (os : List (List Obs)) : List Obs := tobs os.flatten.reverse

@[simp] theorem tlog_nil : tlog [] = [] := rfl

theorem tlog_cons (o : List Obs) (os : List (List Obs)) : tlog (o :: os) = tlog os ++ tobs o.reverse := by
  simp [tlog, tobs_append]

theorem destroyed_tobs (l : List Obs) : destroyed (tobs l) = destroyed l := by
  induction l with
  | nil => rfl
  | cons o t ih =>
    cases o with
    | send c j b => exact ih
    | closed c => exact ih
    | timerArm t' n => exact ih
    | timerDestroy t' => show t' :: destroyed (tobs t) = t' :: destroyed t; rw [ih]

theorem armed_tobs (l : List Obs) : armed (tobs l) = armed l := by
  induction l with
  | nil => rfl
  | cons o t ih =>
    cases o with
    | send c j b => exact ih
    | closed c => exact ih
    | timerDestroy t' => exact ih
    | timerArm t' n => show t' :: armed (tobs t) = t' :: armed t; rw [ih]

theorem destroyed_reverse (l : List Obs) : destroyed l.reverse = (destroyed l).reverse := by
  simp [destroyed, List.filterMap_reverse]

theorem armed_reverse (l : List Obs) : armed l.reverse = (armed l).reverse := by
  simp [armed, List.filterMap_reverse]

theorem destroyed_tlog (os : List (List Obs)) : destroyed (tlog os) = (destroyed os.flatten).reverse := by
  rw [tlog, destroyed_tobs, destroyed_reverse]

theorem armed_tlog (os : List (List Obs)) : armed (tlog os) = (armed os.flatten).reverse := by
  rw [tlog, armed_tobs, armed_reverse]

theorem nodup_of_reverse {l : List Nat} (h : l.reverse.Nodup) : l.Nodup := by
  have := nodup_reverse' h
  rwa [List.reverse_reverse] at this

theorem count_eq_one {l : List Nat} (hn : l.Nodup) {t : Nat} (ht : t ∈ l) : l.count t = 1 := by
  rw [hn.count]; simp [ht]

theorem sum_eq_zero_of_all {l : List Nat} (h : ∀ n ∈ l, n = 0) : l.sum = 0 := by
  induction l with
  | nil => rfl
  | cons a t ih =>
    rw [List.sum_cons, h a List.mem_cons_self, ih (fun n hn => h n (List.mem_cons_of_mem _ hn))]

theorem rsS_addLog (s : State) (a b : List Obs) : (rsS s a).addLog b = rsS s (a ++ b) := rfl

/-! ## the unconditional ledger -/

structure LedgerU (s : State) (tl : List Obs) : Prop where
  wf : RoutesWf s
  d : DInv (rsS s tl)
  a : AInv (rsS s tl)

theorem ledgerU_init (us : List User) : LedgerU { users := us } [] := by
  refine ⟨routesWf_init us, ⟨?_, ?_⟩, ⟨?_, ?_, ?_, ?_⟩⟩ <;> simp [rsS, vRoutes]

theorem ledgerU_step (cfg : Config) (s : State) (op : Op) (tl : List Obs) (h : LedgerU s tl) :
    LedgerU (step cfg s op).1 (tobs (step cfg s op).2.reverse ++ tl) := by
  obtain ⟨ls, _, hs⟩ := sim_step cfg s op h.wf
  have hs' := steps_addLog tl hs
  rw [rsS_addLog, rsS_addLog, List.nil_append] at hs'
  exact ⟨routesWf_step cfg s op h.wf, dinv_steps hs' h.wf h.d, ainv_steps hs' h.a⟩

theorem run_cons' (cfg : Config) (s : State) (op : Op) (rest : List Op) :
    run cfg s (op :: rest) =
      ((run cfg (step cfg s op).1 rest).1, (step cfg s op).2 :: (run cfg (step cfg s op).1 rest).2) := rfl

theorem ledgerU_run (cfg : Config) (ops : List Op) (s : State) (tl : List Obs) (h : LedgerU s tl) :
    LedgerU (run cfg s ops).1 (tlog (run cfg s ops).2 ++ tl) := by
  induction ops generalizing s tl with
  | nil => simpa [run] using h
  | cons op rest ih =>
    rw [run_cons', tlog_cons, List.append_assoc]
    exact ih _ _ (ledgerU_step cfg s op tl h)

/-! ## the ledger with distinct routed ids -/

structure LedgerC (s : State) (tl : List Obs) : Prop where
  u : LedgerU s tl
  eo : EO s
  rids : RidsWf s
  acct : Acct (rsS s tl)

theorem ledgerC_init (us : List User) : LedgerC { users := us } [] :=
  ⟨ledgerU_init us, eo_init us, ridsWf_init us, by intro t ht; simp [rsS] at ht⟩

theorem ledgerC_step (cfg : Config) (s : State) (op : Op) (tl : List Obs) (h : LedgerC s tl)
    (hok : OpOk op) (hb : s.uuid + opWeight op < 4294967296) :
    LedgerC (step cfg s op).1 (tobs (step cfg s op).2.reverse ++ tl) ∧
      (step cfg s op).1.uuid ≤ s.uuid + opWeight op := by
  obtain ⟨ls, hl, hs⟩ := sim7_step cfg s op h.u.wf h.eo
  have ht := opLbls_ticks hl
  have hs' := steps7_addLog tl hs
  rw [rsS_addLog, rsS_addLog, List.nil_append] at hs'
  obtain ⟨h1, h2⟩ := ridsWf_step cfg s op h.u.wf h.rids hok hb
  refine ⟨⟨ledgerU_step cfg s op tl h.u, eo_step cfg s op h.eo, h1, ?_⟩, h2⟩
  exact acct_steps hs' h.u.wf h.rids (by show s.uuid + _ < _; omega) (opLbls_connect hl hok) h.acct

theorem ledgerC_run (cfg : Config) (ops : List Op) (s : State) (tl : List Obs) (h : LedgerC s tl)
    (hok : ∀ op ∈ ops, OpOk op) (hb : s.uuid + runWeight ops < 4294967296) :
    LedgerC (run cfg s ops).1 (tlog (run cfg s ops).2 ++ tl) ∧
      (run cfg s ops).1.uuid ≤ s.uuid + runWeight ops := by
  induction ops generalizing s tl with
  | nil => exact ⟨by simpa [run] using h, by simp [run]⟩
  | cons op rest ih =>
    have hrw : runWeight (op :: rest) = opWeight op + runWeight rest := by simp [runWeight]
    rw [hrw] at hb ⊢
    obtain ⟨h1, h2⟩ := ledgerC_step cfg s op tl h (hok op (List.mem_cons_self ..)) (by omega)
    obtain ⟨h3, h4⟩ := ih _ _ h1 (fun o ho => hok o (List.mem_cons_of_mem _ ho)) (by omega)
    rw [run_cons', tlog_cons, List.append_assoc]
    exact ⟨h3, by simp only at h4 ⊢; omega⟩

/-! ## statements about the history, oldest first -/

/-- timer ids of all stored routing entries, table by table -/
def heldTimers (s : State) : List Nat := (s.peers.flatMap (·.routes)).map (·.timer)

theorem heldTimers_eq (s : State) (tl : List Obs) : heldTimers s = (vRoutes (rsS s tl).V).map (·.timer) := by
  simp [heldTimers, rsS, vRoutes_map_pview]

theorem mem_heldTimers {s : State} {t : Nat} (tl : List Obs) :
    t ∈ heldTimers s ↔ ∃ r ∈ vRoutes (rsS s tl).V, r.timer = t := by
  rw [heldTimers_eq s tl, List.mem_map]

end Cjet.Daemon.C07
