/-
  DaemonC03Refusal — the immediate responses of `set_or_call`, by cause: every refusal in front of
  the routing table is an INVALID_PARAMS error; INTERNAL_ERROR "routing table full" is answered
  exactly when the table (oracle `routeFull`) refuses; INTERNAL_ERROR "could not send routing
  information" exactly when the send to the owner fails.
-/
import Cjet.Lemmas.DaemonC03Exact

namespace Cjet.Daemon.C03

open Cjet Cjet.Json Cjet.Daemon

/-- `code` of an error response -/
def errCode : Json → Option Int
  | .obj [_, (_, .obj [_, (_, .num n), _])] => some n.vint
  | _ => none

/-- (tag, text) of the `data` member of an error response -/
def errReason : Json → Option (Bytes × Bytes)
  | .obj [_, (_, .obj [_, _, (_, .obj [(tag, .str reason)])])] => some (tag, reason)
  | _ => none

theorem errorFromRequest_shape {req : Json} {code : Int} {tag : String} {reason : Bytes} {j : Json}
    (h : errorFromRequest req code tag reason = some j) :
    errCode j = some code ∧ errReason j = some (k tag, reason) := by
  unfold errorFromRequest at h
  split at h
  · next id _ =>
    unfold errorResponse commonResponse at h
    cases id with
    | str s => simp only [Option.map_some, Option.some.injEq] at h; subst h; exact ⟨rfl, rfl⟩
    | num n => simp only [Option.map_some, Option.some.injEq] at h; subst h; exact ⟨rfl, rfl⟩
    | null => simp at h
    | bool _ => simp at h
    | arr _ => simp at h
    | obj _ => simp at h
  · cases h

theorem getParamsAndPath_err {req : Json} {r : Option Json} (h : getParamsAndPath req = .err r) :
    ∃ reason, r = errorFromRequest req INVALID_PARAMS "reason" reason := by
  unfold getParamsAndPath at h
  split at h
  · cases h; exact ⟨_, rfl⟩
  · split at h
    · cases h; exact ⟨_, rfl⟩
    · cases h
    · cases h; exact ⟨_, rfl⟩

/-- the causes of an immediate response of `set_or_call` -/
theorem setOrCall_response (cfg : Config) (x : Ctx) (p : Peer) (req : Json) (isState : Bool) :
    (∃ tag reason, (setOrCall cfg x p req isState).2 = errorFromRequest req INVALID_PARAMS tag reason) ∨
    (x.routeFull = true ∧
      (setOrCall cfg x p req isState).2 = errorFromRequest req INTERNAL_ERROR "reason" (k "routing table full")) ∨
    (x.routeFull = false ∧ nextSend x = true ∧ (setOrCall cfg x p req isState).2 = none) ∨
    (x.routeFull = false ∧ nextSend x = false ∧
      (setOrCall cfg x p req isState).2 =
        errorFromRequest req INTERNAL_ERROR "reason" (k "could not send routing information")) := by
  cases hpp : getParamsAndPath req with
  | err r =>
    left
    obtain ⟨reason, rfl⟩ := getParamsAndPath_err hpp
    exact ⟨"reason", reason, by unfold setOrCall; rw [hpp]⟩
  | ok params path =>
    cases hel : findElement x.st path with
    | none => left; exact ⟨_, _, by unfold setOrCall; simp only [hpp, hel]; rfl⟩
    | some e =>
      cases hfo : e.fetchOnly with
      | true => left; exact ⟨_, _, by unfold setOrCall; simp only [hpp, hel, hfo, ↓reduceIte]; rfl⟩
      | false =>
        cases hk : (isState != e.value.isSome) with
        | true =>
          left
          exact ⟨_, _, by unfold setOrCall; simp only [hpp, hel, hfo, hk, Bool.false_eq_true, ↓reduceIte]; rfl⟩
        | false =>
          cases hacc : (if isState then hasAccess cfg e.setGroups p.setGroups
              else hasAccess cfg e.callGroups p.callGroups) with
          | false =>
            left
            exact ⟨_, _, by
              unfold setOrCall
              simp only [hpp, hel, hfo, hk, hacc, Bool.false_eq_true, ↓reduceIte, Bool.not_false]
              rfl⟩
          | true =>
            cases hid : idOk (req.getItem (k "id")) with
            | false =>
              left
              refine ⟨"request id is neither string nor number", path, ?_⟩
              unfold setOrCall
              simp only [hpp, hel, hfo, hk, hacc, Bool.false_eq_true, ↓reduceIte, Bool.not_true]
              cases hoid : req.getItem (k "id") with
              | none => rw [hoid] at hid; simp [idOk] at hid
              | some j =>
                rw [hoid] at hid
                cases j <;> first | rfl | (simp [idOk] at hid)
            | true =>
              have hc : Checks cfg x.st p req isState params path e :=
                ⟨hpp, hel, hfo, by simpa using hk, hacc, hid⟩
              rw [setOrCall_of_checks hc]
              cases hv : (isState && (reqValue isState params).isNone) with
              | true => left; exact ⟨_, _, by rw [routeCore_noValue hv]⟩
              | false =>
                cases ht : getTimeout cfg (params.getItem (k "timeout")) e.timeoutNs with
                | err reason => left; exact ⟨_, _, by rw [routeCore_badTimeout hv ht]⟩
                | ns tns =>
                  cases hf : x.routeFull with
                  | true => right; left; exact ⟨rfl, by rw [routeCore_full hv ht hf]⟩
                  | false =>
                    cases hs : nextSend x with
                    | true => right; right; left; exact ⟨rfl, rfl, by rw [routeCore_accept hv ht hf hs]⟩
                    | false => right; right; right; exact ⟨rfl, rfl, by rw [routeCore_sendFail hv ht hf hs]⟩

theorem reason_full_ne_send : k "routing table full" ≠ k "could not send routing information" := by
  decide +kernel

end Cjet.Daemon.C03
