/-
  C02 helper lemmas, part 3: how one piece of processing for connection `c` may change the routing
  tables (`RouteStep`), and the specification of set/call (`setOrCall`).
-/
import Cjet.Lemmas.DaemonC02Pending

namespace Cjet.Daemon.C02

open Cjet Cjet.Json Cjet.Daemon

/-- Same peers in the same order; every routing record of the new tables was there before or was
    created on behalf of requester `c`. -/
inductive RouteStep (c : Nat) : List Peer → List Peer → Prop
  | nil : RouteStep c [] []
  | cons {p p' : Peer} {t t' : List Peer} :
      (p'.conn = p.conn ∧ ∀ r ∈ p'.routes, r ∈ p.routes ∨ (r.requester = c ∧ r.owner = p.conn)) →
      RouteStep c t t' →
      RouteStep c (p :: t) (p' :: t')

namespace RouteStep

theorem refl (c : Nat) (ps : List Peer) : RouteStep c ps ps := by
  induction ps with
  | nil => exact .nil
  | cons p t ih => exact .cons ⟨rfl, fun r hr => Or.inl hr⟩ ih

theorem trans {c : Nat} {a b d : List Peer} (h1 : RouteStep c a b) (h2 : RouteStep c b d) : RouteStep c a d := by
  induction h1 generalizing d with
  | nil => cases h2; exact .nil
  | cons hab _ ih =>
    cases h2 with
    | cons hbd t2 =>
      refine .cons ⟨hbd.1.trans hab.1, fun r hr => ?_⟩ (ih t2)
      rcases hbd.2 r hr with h | h
      · exact hab.2 r h
      · exact Or.inr ⟨h.1, h.2.trans hab.1⟩

theorem of_routesMap {c : Nat} {ps ps' : List Peer} (h : routesMap ps' = routesMap ps) : RouteStep c ps ps' := by
  induction ps generalizing ps' with
  | nil => cases ps' with
    | nil => exact .nil
    | cons _ _ => simp [routesMap] at h
  | cons p t ih =>
    cases ps' with
    | nil => simp [routesMap] at h
    | cons p' t' =>
      simp only [routesMap, List.map_cons, List.cons.injEq, Prod.mk.injEq] at h
      exact .cons ⟨h.1.1, fun r hr => Or.inl (h.1.2 ▸ hr)⟩ (ih h.2)

theorem updatePeer {c : Nat} (ps : List Peer) (o : Nat) (f : Peer → Peer)
    (hf : ∀ q, (q.conn == o) = true →
      (f q).conn = q.conn ∧ ∀ r ∈ (f q).routes, r ∈ q.routes ∨ (r.requester = c ∧ r.owner = q.conn)) :
    RouteStep c ps (Daemon.updatePeer ps o f) := by
  induction ps with
  | nil => exact .nil
  | cons p t ih =>
    simp only [Daemon.updatePeer, List.map_cons]
    refine .cons ?_ ih
    split
    · rename_i h; exact hf p h
    · exact ⟨rfl, fun r hr => Or.inl hr⟩

theorem conns {c : Nat} {ps ps' : List Peer} (h : RouteStep c ps ps') : conns ps' = conns ps := by
  induction h with
  | nil => rfl
  | cons hab _ ih => simp only [C02.conns, List.map_cons] at *; rw [hab.1, ih]

/-- the first peer with a given connection number corresponds to the first such peer -/
theorem findPeer {c : Nat} {ps ps' : List Peer} (h : RouteStep c ps ps') (d : Nat) :
    (Daemon.findPeer ps d = none ∧ Daemon.findPeer ps' d = none) ∨
    ∃ p p', Daemon.findPeer ps d = some p ∧ Daemon.findPeer ps' d = some p' ∧
      ∀ r ∈ p'.routes, r ∈ p.routes ∨ (r.requester = c ∧ r.owner = p.conn) := by
  induction h with
  | nil => exact Or.inl ⟨rfl, rfl⟩
  | @cons p p' t t' hab _ ih =>
    simp only [Daemon.findPeer, List.find?_cons, hab.1]
    cases hc : (p.conn == d) with
    | true => exact Or.inr ⟨p, p', rfl, rfl, hab.2⟩
    | false => exact ih

end RouteStep

/-! ## send as an equation -/

theorem send_eq (x : Ctx) (c : Nat) (j : Json) :
    send x c j = ({ x with out := Obs.send c j (x.sends.headD true) :: x.out, sends := x.sends.tail },
      x.sends.headD true) := by
  unfold send
  cases x.sends <;> rfl

/-! ## what `handleMethod` may do -/

/-- a request successfully handed to an element's owner -/
def obsAccepted : Obs → Bool
  | .send _ j true => isRoutedReq j
  | _ => false

/-- Specification of one handler call for a request `req` of connection `c`. -/
structure MethodSpec (c : Nat) (req : Json) (x : Ctx) (res : Ctx × Option Json) : Prop where
  out : ∃ new, res.1.out = new ++ x.out ∧ (∀ o ∈ new, obsMethod o = true) ∧
    (res.2.isSome = true → ∀ o ∈ new, obsAccepted o = false) ∧
    (res.2 = none → Answerable req → ∃ o ∈ new, obsAccepted o = true)
  resp : RespFor req res.2
  routes : RouteStep c x.st.peers res.1.st.peers
  pend : (conns x.st.peers).Nodup →
    pendingA res.1.st.peers + (if res.2.isSome = true then 1 else 0) ≤ pendingA x.st.peers + ansN req

theorem FromReq.pend {req : Json} {r : Option Json} (h : FromReq req r) :
    (if r.isSome = true then 1 else 0) ≤ ansN req := by
  split
  · rename_i hs
    have ha : Answerable req := by
      rcases h.respFor with hn | ⟨id, j, hid, hok, _, _⟩
      · rw [hn] at hs; cases hs
      · exact ⟨id, hid, hok⟩
    simp [ansN, answerableB_iff.2 ha]
  · exact Nat.zero_le _

theorem obsNotif_not_accepted {o : Obs} (h : obsNotif o = true) : obsAccepted o = false := by
  cases o with
  | send d j b =>
    cases b
    · rfl
    · exact isNotification_not_routed h
  | _ => rfl

theorem FromReq.none_absurd {req : Json} {r : Option Json} (h : FromReq req r) (hn : r = none)
    (ha : Answerable req) : False := by
  have := h.isSome ha
  simp [hn] at this

theorem HandlerOK.methodSpec {c : Nat} {req : Json} {x : Ctx} {res : Ctx × Option Json}
    (h : HandlerOK req x res) : MethodSpec c req x res := by
  obtain ⟨⟨⟨new, e, hp⟩, hr⟩, hf⟩ := h
  exact ⟨⟨new, e, fun o ho => obsNotif_obsMethod (hp o ho), fun _ o ho => obsNotif_not_accepted (hp o ho),
    fun hn ha => (hf.none_absurd hn ha).elim⟩, hf.respFor, RouteStep.of_routesMap hr,
    fun _ => by rw [pendingA_of_routesMap hr]; exact Nat.add_le_add_left hf.pend _⟩

/-- a leaf of `setOrCall` that answers the request itself -/
theorem MethodSpec.leaf {c : Nat} {req : Json} {x x' : Ctx} {r : Option Json} (new : List Obs)
    (hout : x'.out = new ++ x.out) (hm : ∀ o ∈ new, obsMethod o = true)
    (hna : ∀ o ∈ new, obsAccepted o = false) (hr : FromReq req r)
    (hrt : RouteStep c x.st.peers x'.st.peers) (hpd : pendingA x'.st.peers ≤ pendingA x.st.peers) :
    MethodSpec c req x (x', r) :=
  ⟨⟨new, hout, hm, fun _ => hna, fun hn ha => (hr.none_absurd hn ha).elim⟩, hr.respFor, hrt,
    fun _ => Nat.add_le_add hpd hr.pend⟩

theorem pendingA_append_remove (ps : List Peer) (o : Nat) (r : Route) :
    pendingA (removeRoute (updatePeer ps o (fun q => { q with routes := q.routes ++ [r] })) o r.rid) ≤ pendingA ps := by
  induction ps with
  | nil => exact Nat.le_refl _
  | cons p t ih =>
    simp only [removeRoute, updatePeer, List.map_cons, pendingA, List.sum_cons, List.map_map] at ih ⊢
    apply Nat.add_le_add _ ih
    by_cases h : (p.conn == o) = true
    · simp only [h, if_true]
      simp only [List.filter_append, List.filter_cons, bne_self_eq_false, Bool.false_eq_true, if_false,
        List.filter_nil, List.append_nil]
      exact countP_filter_le _ _ _
    · simp only [h, Bool.false_eq_true, if_false]
      exact Nat.le_refl _

theorem pendingA_append (ps : List Peer) (o : Nat) (r : Route) (n : Nat) (hn : (conns ps).Nodup)
    (hr : (if routeAnswerable r = true then 1 else 0) ≤ n) :
    pendingA (updatePeer ps o (fun q => { q with routes := q.routes ++ [r] })) ≤ pendingA ps + n := by
  apply pendingA_updatePeer_add ps o _ n hn
  intro q
  simp only [List.countP_append, List.countP_singleton]
  omega

theorem obsMethod_routed (d : Nat) (rid path : Bytes) (isState : Bool) (value : Option Json) (b : Bool) :
    obsMethod (.send d (routedMessage rid path isState value) b) = true :=
  isRoutedReq_hasMethod (routedMessage_isRoutedReq ..)

theorem routeStep_append {c : Nat} (ps : List Peer) (o : Nat) (r : Route) (hr : r.requester = c)
    (ho : r.owner = o) :
    RouteStep c ps (updatePeer ps o (fun q => { q with routes := q.routes ++ [r] })) := by
  apply RouteStep.updatePeer
  intro q hq
  refine ⟨rfl, fun r' hr' => ?_⟩
  rcases List.mem_append.1 hr' with h | h
  · exact Or.inl h
  · simp at h; subst h
    have : q.conn = o := by simpa using hq
    exact Or.inr ⟨hr, ho.trans this.symm⟩

theorem routeStep_removeRoute {c : Nat} (ps : List Peer) (o : Nat) (rid : Bytes) :
    RouteStep c ps (removeRoute ps o rid) := by
  apply RouteStep.updatePeer
  intro q _
  exact ⟨rfl, fun r' hr' => Or.inl (List.mem_filter.1 hr').1⟩

theorem setOrCall_spec (cfg : Config) (x : Ctx) (p : Peer) (req : Json) (isState : Bool) :
    MethodSpec p.conn req x (setOrCall cfg x p req isState) := by
  unfold setOrCall
  simp only [send_eq, emit]
  repeat' (first | exact (HandlerOK.methodSpec (by hok)) | split | dsimp only)
  all_goals first
    | exact HandlerOK.methodSpec ⟨Frame.refl _, getParamsAndPath_err (by assumption)⟩
    | exact MethodSpec.leaf [] rfl (by simp) (by simp) (FromReq.error ..) (RouteStep.refl ..) (Nat.le_refl _)
    | exact MethodSpec.leaf [.timerDestroy _] rfl (by simp [obsMethod]) (by simp [obsAccepted])
        (FromReq.error ..) (RouteStep.refl ..) (Nat.le_refl _)
    | (refine MethodSpec.leaf [.timerDestroy _, .send _ _ _, .timerArm _ _] rfl ?_ ?_ (FromReq.error ..)
        ((routeStep_append _ _ _ (by rfl) (by rfl)).trans (routeStep_removeRoute ..))
        (pendingA_append_remove _ _ ⟨_, _, _, _, _⟩)
       · simp [obsMethod]; exact isRoutedReq_hasMethod (routedMessage_isRoutedReq ..)
       · simp_all [obsAccepted])
    | (refine ⟨⟨[.send _ _ _, .timerArm _ _], rfl, ?_, by simp, ?_⟩, Or.inl rfl,
        routeStep_append _ _ _ (by rfl) (by rfl), fun hn => ?_⟩
       · simp [obsMethod]; exact isRoutedReq_hasMethod (routedMessage_isRoutedReq ..)
       · intro _ _
         refine ⟨_, List.mem_cons_self .., ?_⟩
         simp_all [obsAccepted, routedMessage_isRoutedReq]
       · exact pendingA_append _ _ _ _ hn (by simp_all [routeAnswerable, ansN, answerableB]))

end Cjet.Daemon.C02
