/-
  Cjet.Lemmas.DaemonC05Run — the invariant over `step` / `run`, the shape of a closing step,
  and reachability.
-/
import Cjet.Lemmas.DaemonC05Close

namespace Cjet.Daemon.C05

open Cjet Cjet.Json Cjet.Daemon

/-! ## the state after a teardown satisfies the invariant again -/

theorem mem_afterClose_peers {s : State} {c : Nat} {q' : Peer} (h : q' ∈ (afterClose s c).peers) :
    ∃ q ∈ s.peers, q.conn ≠ c ∧ q' = scrub c q := by
  unfold afterClose at h
  obtain ⟨q, hq, rfl⟩ := List.mem_map.1 h
  obtain ⟨hq1, hq2⟩ := List.mem_filter.1 hq
  exact ⟨q, hq1, by simpa using hq2, rfl⟩

theorem mem_afterClose_of {s : State} {c : Nat} {q : Peer} (hq : q ∈ s.peers) (hne : q.conn ≠ c) :
    scrub c q ∈ (afterClose s c).peers := by
  unfold afterClose
  exact List.mem_map.2 ⟨q, List.mem_filter.2 ⟨hq, by simpa using hne⟩, rfl⟩

theorem conns_afterClose (s : State) (c : Nat) : conns (afterClose s c).peers = (conns s.peers).filter (· != c) := by
  unfold afterClose conns
  simp only [List.map_map, List.filter_map]
  rfl

theorem mem_conns_afterClose {s : State} {c d : Nat} : d ∈ conns (afterClose s c).peers ↔ d ∈ conns s.peers ∧ d ≠ c := by
  rw [conns_afterClose, List.mem_filter]
  simp

theorem inv_afterClose {s : State} (hI : Inv s) (c : Nat) : Inv (afterClose s c) := by
  constructor
  · rw [conns_afterClose]
    exact hI.nodup.sublist List.filter_sublist
  · intro q' hq' e' he'
    obtain ⟨q, hq, _, rfl⟩ := mem_afterClose_peers hq'
    obtain ⟨e, he, rfl⟩ := List.mem_map.1 he'
    exact hI.owner q hq e he
  · intro q' hq' e' he'
    obtain ⟨q, hq, hne, rfl⟩ := mem_afterClose_peers hq'
    obtain ⟨e, he, rfl⟩ := List.mem_map.1 he'
    unfold afterClose
    exact List.mem_filter.2 ⟨hI.inIdx q hq e he, by simpa [scrub] using hne⟩
  · intro q' hq'
    obtain ⟨q, hq, _, rfl⟩ := mem_afterClose_peers hq'
    have : (scrub c q).elements.map (·.path) = q.elements.map (·.path) := by
      simp [scrub, List.map_map, Function.comp_def]
    rw [this]; exact hI.paths q hq
  · unfold afterClose
    exact hI.idxNodup.sublist (List.Sublist.map _ List.filter_sublist)
  · intro pa o hm
    unfold afterClose at hm
    obtain ⟨hm1, hm2⟩ := List.mem_filter.1 hm
    have hoc : o ≠ c := by simpa using hm2
    obtain ⟨q, hq, hqc, e, he, hpa⟩ := hI.idxElem pa o hm1
    exact ⟨scrub c q, mem_afterClose_of hq (by rw [hqc]; exact hoc), hqc, unsub c e,
      List.mem_map.2 ⟨e, he, rfl⟩, hpa⟩
  · intro q' hq' e' he' fk hfk
    obtain ⟨q, hq, _, rfl⟩ := mem_afterClose_peers hq'
    obtain ⟨e, he, rfl⟩ := List.mem_map.1 he'
    obtain ⟨h1, h2⟩ := mem_unsub_fetchers hfk
    have := hI.fetchers q hq e he fk h1
    rw [mem_fetchKeys] at this ⊢
    obtain ⟨q2, hq2, hq2c, f, hf, hu⟩ := this
    exact ⟨scrub c q2, mem_afterClose_of hq2 (by rw [hq2c]; exact h2), hq2c, f, hf, hu⟩
  · intro q' hq' r hr
    obtain ⟨q, hq, _, rfl⟩ := mem_afterClose_peers hq'
    obtain ⟨hr1, hr2⟩ := List.mem_filter.1 (show r ∈ q.routes.filter (·.requester != c) from hr)
    obtain ⟨h1, h2, h3⟩ := hI.routes q hq r hr1
    exact ⟨h1, mem_conns_afterClose.2 ⟨h2, by simpa using hr2⟩, h3⟩

/-! ## closePeer -/

theorem closePeer_eq {x : Ctx} (h : Inv x.st) {c : Nat} {p : Peer} (hp : findPeer x.st.peers c = some p) :
    closePeer x c = emit { play x (closeTrace x.st c) with st := afterClose x.st c } (.closed c) := by
  unfold closePeer
  rw [freePeerResources_eq h hp]

/-- stripped outputs of a closePeer -/
theorem closePeer_out {x : Ctx} (h : Inv x.st) {c : Nat} {p : Peer} (hp : findPeer x.st.peers c = some p) :
    (closePeer x c).out.reverse.map strip =
      x.out.reverse.map strip ++ (closeTrace x.st c).map strip ++ [Obs.closed c] := by
  rw [closePeer_eq h hp]
  simp only [emit_out, List.reverse_cons, List.map_append, List.map_cons, List.map_nil]
  rw [List.map_reverse, play_out]
  simp [strip]

/-! ## the step that tears a connection down -/

theorem step_connect (cfg : Config) (s : State) (c : Nat) (ws l : Bool) (a : Bytes) :
    step cfg s (.connect c ws l a) =
      if (findPeer s.peers c).isSome then (s, [])
      else ({ s with peers := s.peers ++ [{ conn := c, ws := ws, isLocal := l, addrTok := a }] }, []) := rfl

theorem step_message (cfg : Config) (s : State) (c : Nat) (msg : Option Json) (o : Oracle) :
    step cfg s (.message c msg o) =
      if (findPeer s.peers c).isNone then (s, [])
      else
        ((if (parseMessage cfg (mkCtx s o) c msg).2 then (parseMessage cfg (mkCtx s o) c msg).1
          else closePeer (parseMessage cfg (mkCtx s o) c msg).1 c).st,
         (if (parseMessage cfg (mkCtx s o) c msg).2 then (parseMessage cfg (mkCtx s o) c msg).1
          else closePeer (parseMessage cfg (mkCtx s o) c msg).1 c).out.reverse) := rfl

theorem step_disconnect (cfg : Config) (s : State) (c : Nat) (o : Oracle) :
    step cfg s (.disconnect c o) =
      if (findPeer s.peers c).isNone then (s, [])
      else ((closePeer (mkCtx s o) c).st, (closePeer (mkCtx s o) c).out.reverse) := rfl

theorem step_timerFire (cfg : Config) (s : State) (t : Nat) (o : Oracle) :
    step cfg s (.timerFire t o) = ((timeoutFired (mkCtx s o) t).st, (timeoutFired (mkCtx s o) t).out.reverse) := rfl


/-- The operation `op` applied in `s` tears down connection `c`; `x` is the working context at the
    moment the teardown begins: the pre-state itself for a `disconnect`, the state and outputs
    reached by the accepted part of the message for a message the daemon rejects. -/
def Closes (cfg : Config) (s : State) (op : Op) (c : Nat) (x : Ctx) : Prop :=
  c ∈ conns s.peers ∧
  ((∃ o, op = .disconnect c o ∧ x = mkCtx s o) ∨
   (∃ msg o, op = .message c msg o ∧ parseMessage cfg (mkCtx s o) c msg = (x, false)))

theorem mkCtx_ok {s : State} (h : Inv s) (o : Oracle) : Inv (mkCtx s o).st := h

theorem Closes.ok {cfg : Config} {s : State} {op : Op} {c : Nat} {x : Ctx} (hI : Inv s)
    (h : Closes cfg s op c x) : ∃ o, Ok (mkCtx s o) x := by
  obtain ⟨_, h | h⟩ := h
  · obtain ⟨o, _, rfl⟩ := h
    exact ⟨o, Ok.refl hI⟩
  · obtain ⟨msg, o, _, hpm⟩ := h
    refine ⟨o, ?_⟩
    have := parseMessage_ok cfg (x := mkCtx s o) hI c msg
    rw [hpm] at this
    exact this

theorem Closes.inv {cfg : Config} {s : State} {op : Op} {c : Nat} {x : Ctx} (hI : Inv s)
    (h : Closes cfg s op c x) : Inv x.st := by
  obtain ⟨o, ho⟩ := h.ok hI
  exact ho.inv

theorem Closes.conns {cfg : Config} {s : State} {op : Op} {c : Nat} {x : Ctx} (hI : Inv s)
    (h : Closes cfg s op c x) : conns x.st.peers = conns s.peers := by
  obtain ⟨o, ho⟩ := h.ok hI
  exact ho.2.1

theorem Closes.findPeer {cfg : Config} {s : State} {op : Op} {c : Nat} {x : Ctx} (hI : Inv s)
    (h : Closes cfg s op c x) : ∃ p, findPeer x.st.peers c = some p := by
  have : c ∈ C05.conns x.st.peers := by rw [h.conns hI]; exact h.1
  have := findPeer_isSome.2 this
  cases hf : Daemon.findPeer x.st.peers c with
  | none => rw [hf] at this; cases this
  | some p => exact ⟨p, rfl⟩

theorem Closes.step_eq {cfg : Config} {s : State} {op : Op} {c : Nat} {x : Ctx}
    (h : Closes cfg s op c x) : step cfg s op = ((closePeer x c).st, (closePeer x c).out.reverse) := by
  obtain ⟨hc, h | h⟩ := h
  · obtain ⟨o, rfl, rfl⟩ := h
    rw [step_disconnect]
    have : ¬ (Daemon.findPeer s.peers c).isNone = true := by
      rw [findPeer_isNone]; exact fun hn => hn hc
    simp only [this, Bool.false_eq_true, if_false]
  · obtain ⟨msg, o, rfl, hpm⟩ := h
    rw [step_message]
    have : ¬ (Daemon.findPeer s.peers c).isNone = true := by
      rw [findPeer_isNone]; exact fun hn => hn hc
    simp only [this, if_false, hpm, Bool.false_eq_true]

theorem closeTrace_no_closed (s : State) (c d : Nat) : Obs.closed d ∉ closeTrace s c := by
  intro ho'
  unfold closeTrace at ho'
  split at ho'
  · cases ho'
  · simp only [List.mem_append, List.mem_flatMap, List.mem_map] at ho'
    rcases ho' with (⟨r, _, hr⟩ | ⟨r, _, hr⟩) | ⟨e, _, he⟩
    · unfold routeActs at hr
      simp only [List.mem_cons] at hr
      rcases hr with hr | hr
      · cases hr
      · split at hr
        · cases hr
        · split at hr
          · cases hr
          · split at hr
            · simp at hr
            · cases hr
    · cases hr
    · unfold notifyActs at he
      simp only [List.mem_filterMap] at he
      obtain ⟨sl, _, hsl⟩ := he
      split at hsl
      · simp only [Option.map_eq_some_iff] at hsl
        obtain ⟨f, _, hf⟩ := hsl
        cases hf
      · cases hsl

/-- membership in a stripped list of an observation that stripping leaves alone -/
theorem mem_strip_closed {l : List Obs} {c : Nat} (h : Obs.closed c ∈ l.map strip) : Obs.closed c ∈ l := by
  obtain ⟨o', ho', heq⟩ := List.mem_map.1 h
  cases o' <;> simp [strip] at heq
  subst heq; exact ho'

/-- a step reports `closed c` exactly when it tears `c` down -/
theorem closed_iff_closes {cfg : Config} {s : State} (hI : Inv s) (op : Op) (c : Nat) :
    Obs.closed c ∈ (step cfg s op).2 ↔ ∃ x, Closes cfg s op c x := by
  constructor
  · intro hm
    cases op with
    | connect d ws l a =>
      rw [step_connect] at hm
      split at hm <;> cases hm
    | timerFire t o =>
      rw [step_timerFire] at hm
      simp only [List.mem_reverse] at hm
      obtain ⟨_, _, d, hd, hl⟩ := timeoutFired_ok (x := mkCtx s o) hI t
      rw [hd] at hm
      simp only [mkCtx, List.append_nil] at hm
      exact absurd hm (hl.2 c)
    | disconnect d o =>
      rw [step_disconnect] at hm
      split at hm
      · cases hm
      · next hf =>
        have hd : d ∈ conns s.peers := by
          rcases Classical.em (d ∈ conns s.peers) with h | h
          · exact h
          · exact absurd (findPeer_isNone.2 h) hf
        obtain ⟨p, hp⟩ : ∃ p, findPeer (mkCtx s o).st.peers d = some p := by
          have := findPeer_isSome.2 hd
          cases hf2 : findPeer s.peers d with
          | none => rw [hf2] at this; cases this
          | some p => exact ⟨p, hf2⟩
        simp only [List.mem_reverse] at hm
        rw [closePeer_eq (mkCtx_ok hI o) hp] at hm
        simp only [emit_out, List.mem_cons] at hm
        rcases hm with hm | hm
        · cases hm
          exact ⟨_, hd, Or.inl ⟨o, rfl, rfl⟩⟩
        · exfalso
          have h2 := play_out (mkCtx s o) (closeTrace (mkCtx s o).st d)
          have h3 : Obs.closed c ∈ (play (mkCtx s o) (closeTrace (mkCtx s o).st d)).out.map strip :=
            List.mem_map.2 ⟨_, hm, rfl⟩
          rw [h2] at h3
          simp only [mkCtx, List.map_nil, List.append_nil, List.mem_reverse] at h3
          exact closeTrace_no_closed _ _ _ (mem_strip_closed h3)
    | message d msg o =>
      rw [step_message] at hm
      split at hm
      · cases hm
      · next hf =>
        have hd : d ∈ conns s.peers := by
          rcases Classical.em (d ∈ conns s.peers) with h | h
          · exact h
          · exact absurd (findPeer_isNone.2 h) hf
        have hok := parseMessage_ok cfg (x := mkCtx s o) hI d msg
        cases hpm : parseMessage cfg (mkCtx s o) d msg with
        | mk x ok =>
          rw [hpm] at hm hok
          cases ok with
          | true =>
            simp only [if_true, List.mem_reverse] at hm
            obtain ⟨_, _, dd, hd', hl⟩ := hok
            simp only at hd'
            rw [hd'] at hm
            simp only [mkCtx, List.append_nil] at hm
            exact absurd hm (hl.2 c)
          | false =>
            simp only [Bool.false_eq_true, if_false, List.mem_reverse] at hm
            have hx : Closes cfg s (.message d msg o) d x := ⟨hd, Or.inr ⟨msg, o, rfl, hpm⟩⟩
            obtain ⟨p, hp⟩ := hx.findPeer hI
            rw [closePeer_eq (hx.inv hI) hp] at hm
            simp only [emit_out, List.mem_cons] at hm
            rcases hm with hm | hm
            · cases hm; exact ⟨x, hx⟩
            · exfalso
              have h2 := play_out x (closeTrace x.st d)
              have h3 : Obs.closed c ∈ (play x (closeTrace x.st d)).out.map strip :=
                List.mem_map.2 ⟨_, hm, rfl⟩
              rw [h2] at h3
              obtain ⟨_, _, dd, hd', hl⟩ := hok
              simp only at hd'
              simp only [List.mem_append, List.mem_reverse] at h3
              rcases h3 with h3 | h3
              · exact closeTrace_no_closed _ _ _ (mem_strip_closed h3)
              · have := mem_strip_closed h3
                rw [hd'] at this
                simp only [mkCtx, List.append_nil] at this
                exact hl.2 c this
  · rintro ⟨x, hx⟩
    rw [hx.step_eq]
    unfold closePeer
    simp

/-! ## whom a teardown addresses -/

theorem mem_strip_send {l : List Obs} {d : Nat} {j : Json} {b : Bool} (h : Obs.send d j b ∈ l) :
    Obs.send d j true ∈ l.map strip := List.mem_map.2 ⟨_, h, rfl⟩

theorem of_mem_strip_send {l : List Obs} {d : Nat} {j : Json} {b : Bool} (h : Obs.send d j b ∈ l.map strip) :
    ∃ b', Obs.send d j b' ∈ l := by
  obtain ⟨o', ho', heq⟩ := List.mem_map.1 h
  cases o' with
  | send d' j' b' =>
    simp only [strip, Obs.send.injEq] at heq
    obtain ⟨rfl, rfl, _⟩ := heq
    exact ⟨b', ho'⟩
  | closed _ => simp [strip] at heq
  | timerArm _ _ => simp [strip] at heq
  | timerDestroy _ => simp [strip] at heq

/-- every send of a teardown of `c` addresses a live peer other than `c` -/
theorem closeTrace_live {s : State} (hI : Inv s) {c d : Nat} {j : Json} {b : Bool}
    (h : Obs.send d j b ∈ closeTrace s c) : d ∈ conns s.peers ∧ d ≠ c := by
  unfold closeTrace at h
  split at h
  · cases h
  · next p hp =>
    have hpm := (findPeer_some hp).1
    simp only [List.mem_append, List.mem_flatMap, List.mem_map] at h
    rcases h with (⟨r, hr, hr2⟩ | ⟨r, _, hr2⟩) | ⟨e, _, he⟩
    · unfold routeActs at hr2
      simp only [List.mem_cons] at hr2
      rcases hr2 with hr2 | hr2
      · cases hr2
      · split at hr2
        · cases hr2
        · next hne =>
          split at hr2
          · cases hr2
          · split at hr2
            · simp only [List.mem_singleton] at hr2
              cases hr2
              exact ⟨(hI.routes p hpm r hr).2.1, by simpa using hne⟩
            · cases hr2
    · cases hr2
    · unfold notifyActs at he
      simp only [List.mem_filterMap] at he
      obtain ⟨sl, hsl, hsl2⟩ := he
      split at hsl2
      · next fk =>
        simp only [Option.map_eq_some_iff] at hsl2
        obtain ⟨f, hf, hf2⟩ := hsl2
        cases hf2
        exact ⟨findFetch_peer_mem hf, (mem_unsub_fetchers hsl).2⟩
      · cases hsl2

/-- the entries of `closeTrace` carry no send results -/
theorem closeTrace_stripped (s : State) (c : Nat) : ∀ o ∈ closeTrace s c, strip o = o := by
  intro o h
  unfold closeTrace at h
  split at h
  · cases h
  · simp only [List.mem_append, List.mem_flatMap, List.mem_map] at h
    rcases h with (⟨r, _, hr2⟩ | ⟨r, _, hr2⟩) | ⟨e, _, he⟩
    · unfold routeActs at hr2
      simp only [List.mem_cons] at hr2
      rcases hr2 with hr2 | hr2
      · subst hr2; rfl
      · split at hr2
        · cases hr2
        · split at hr2
          · cases hr2
          · split at hr2
            · simp only [List.mem_singleton] at hr2
              subst hr2; rfl
            · cases hr2
    · subst hr2; rfl
    · unfold notifyActs at he
      simp only [List.mem_filterMap] at he
      obtain ⟨sl, _, hsl2⟩ := he
      split at hsl2
      · simp only [Option.map_eq_some_iff] at hsl2
        obtain ⟨f, _, hf2⟩ := hsl2
        subst hf2; rfl
      · cases hsl2

theorem closeTrace_strip (s : State) (c : Nat) : (closeTrace s c).map strip = closeTrace s c := by
  conv => rhs; rw [← List.map_id (closeTrace s c)]
  apply List.map_congr_left
  intro o ho
  exact closeTrace_stripped s c o ho

/-- post-state and outputs of a closing step -/
theorem Closes.st_eq {cfg : Config} {s : State} {op : Op} {c : Nat} {x : Ctx} (hI : Inv s)
    (hx : Closes cfg s op c x) : (step cfg s op).1 = afterClose x.st c := by
  obtain ⟨p, hp⟩ := hx.findPeer hI
  rw [hx.step_eq, closePeer_eq (hx.inv hI) hp]; rfl

theorem Closes.out_eq {cfg : Config} {s : State} {op : Op} {c : Nat} {x : Ctx} (hI : Inv s)
    (hx : Closes cfg s op c x) {p : Peer} (hp : Daemon.findPeer x.st.peers c = some p) :
    (step cfg s op).2.map strip =
      x.out.reverse.map strip ++
      (p.routes.flatMap (routeActs c) ++
       ((x.st.peers.filter (·.conn != c)).flatMap (fun q => q.routes.filter (·.requester == c))).map
         (fun r => Obs.timerDestroy r.timer) ++
       p.elements.flatMap (fun e => notifyActs x.st.peers (unsub c e) "remove")) ++
      [Obs.closed c] := by
  rw [hx.step_eq]
  show (closePeer x c).out.reverse.map strip = _
  rw [closePeer_out (hx.inv hI) hp, closeTrace_strip]
  unfold closeTrace; rw [hp]

/-- the raw outputs of a replay: a block in front of the old outputs whose erasure is the replayed list -/
theorem play_out_raw (x : Ctx) (t : List Obs) :
    ∃ D, (play x t).out = D ++ x.out ∧ D.map strip = (t.map strip).reverse := by
  induction t generalizing x with
  | nil => exact ⟨[], rfl, rfl⟩
  | cons o t ih =>
    rw [play_cons]
    obtain ⟨D, hD, hDs⟩ := ih (match o with | .send c j _ => send' x c j | o => emit x o)
    cases o with
    | send c j b =>
      obtain ⟨b', hb'⟩ := send'_out x c j
      refine ⟨D ++ [Obs.send c j b'], ?_, ?_⟩
      · rw [hD]; simp only [hb', List.append_assoc, List.singleton_append]
      · simp [hDs, strip]
    | closed c =>
      refine ⟨D ++ [Obs.closed c], ?_, ?_⟩
      · rw [hD]; simp
      · simp [hDs, strip]
    | timerArm a b =>
      refine ⟨D ++ [Obs.timerArm a b], ?_, ?_⟩
      · rw [hD]; simp
      · simp [hDs, strip]
    | timerDestroy a =>
      refine ⟨D ++ [Obs.timerDestroy a], ?_, ?_⟩
      · rw [hD]; simp
      · simp [hDs, strip]

/-- the outputs of a closing step: the accepted part of the message, then a tail that never
    addresses the leaving peer -/
theorem Closes.tail {cfg : Config} {s : State} {op : Op} {c : Nat} {x : Ctx} (hI : Inv s)
    (hx : Closes cfg s op c x) :
    ∃ tail, (step cfg s op).2 = x.out.reverse ++ tail ∧
      ∀ d j ok, Obs.send d j ok ∈ tail → d ∈ C05.conns s.peers ∧ d ≠ c := by
  obtain ⟨p, hp⟩ := hx.findPeer hI
  obtain ⟨D, hD, hDs⟩ := play_out_raw x (closeTrace x.st c)
  refine ⟨D.reverse ++ [Obs.closed c], ?_, ?_⟩
  · rw [hx.step_eq, closePeer_eq (hx.inv hI) hp]
    simp only [emit_out, List.reverse_cons, hD, List.reverse_append, List.append_assoc]
  · intro d j ok hm
    simp only [List.mem_append, List.mem_reverse, List.mem_singleton] at hm
    rcases hm with hm | hm
    · have h1 := mem_strip_send hm
      rw [hDs, closeTrace_strip, List.mem_reverse] at h1
      have := closeTrace_live (hx.inv hI) h1
      rw [hx.conns hI] at this
      exact this
    · cases hm

theorem findFetch_of_mem_fetchKeys {ps : List Peer} (hn : (conns ps).Nodup) {fk : FetchKey}
    (h : fk ∈ fetchKeys ps) : ∃ f, findFetch ps fk = some f := by
  obtain ⟨q, hq, hqc, f0, hf0, hu⟩ := mem_fetchKeys.1 h
  unfold findFetch
  rw [← hqc, findPeer_of_mem hn hq]
  simp only
  have : (q.fetches.find? (·.uid == fk.uid)).isSome = true := by
    rw [List.find?_isSome]
    exact ⟨f0, hf0, by simpa using hu⟩
  cases hfi : q.fetches.find? (·.uid == fk.uid) with
  | none => rw [hfi] at this; cases this
  | some f => exact ⟨f, rfl⟩

/-- the "remove" notifications of an element of the leaving peer, slot by slot -/
theorem notifyActs_unsub (ps : List Peer) (c : Nat) (e : Element) (ev : String) :
    notifyActs ps (unsub c e) ev =
      e.fetchers.filterMap (fun sl => match sl with
        | some fk => if fk.peer == c then none
                     else (findFetch ps fk).map (fun f => Obs.send fk.peer (notification e f.fid ev) true)
        | none => none) := by
  unfold notifyActs unsub
  simp only [List.filterMap_map]
  apply filterMap_congr'
  intro sl _
  cases sl with
  | none => rfl
  | some fk =>
    simp only [Function.comp]
    by_cases hc : (fk.peer == c) = true
    · simp [hc]
    · simp only [hc, Bool.false_eq_true, if_false]
      rfl

/-! ## one step -/

theorem step_inv {cfg : Config} {s : State} (hI : Inv s) (op : Op) : Inv (step cfg s op).1 := by
  cases op with
  | connect c ws l a =>
    rw [step_connect]
    split
    · exact hI
    · next hf =>
      exact hI.connect (by
        intro hc
        exact hf (findPeer_isSome.2 hc)) ws l a
  | timerFire t o =>
    rw [step_timerFire]
    exact (timeoutFired_ok (x := mkCtx s o) hI t).inv
  | disconnect c o =>
    rw [step_disconnect]
    split
    · exact hI
    · next hf =>
      have hc : c ∈ conns s.peers := by
        rcases Classical.em (c ∈ conns s.peers) with h | h
        · exact h
        · exact absurd (findPeer_isNone.2 h) hf
      have hx : Closes cfg s (.disconnect c o) c (mkCtx s o) := ⟨hc, Or.inl ⟨o, rfl, rfl⟩⟩
      obtain ⟨p, hp⟩ := hx.findPeer hI
      rw [closePeer_eq (hx.inv hI) hp]
      exact inv_afterClose hI c
  | message c msg o =>
    rw [step_message]
    split
    · exact hI
    · next hf =>
      have hc : c ∈ conns s.peers := by
        rcases Classical.em (c ∈ conns s.peers) with h | h
        · exact h
        · exact absurd (findPeer_isNone.2 h) hf
      have hok := parseMessage_ok cfg (x := mkCtx s o) hI c msg
      cases hpm : parseMessage cfg (mkCtx s o) c msg with
      | mk x ok =>
        rw [hpm] at hok
        cases ok with
        | true => exact hok.inv
        | false =>
          have hx : Closes cfg s (.message c msg o) c x := ⟨hc, Or.inr ⟨msg, o, rfl, hpm⟩⟩
          obtain ⟨p, hp⟩ := hx.findPeer hI
          simp only [Bool.false_eq_true, if_false]
          rw [closePeer_eq (hx.inv hI) hp]
          exact inv_afterClose (hx.inv hI) c

/-- every send of a step addresses a connection that exists in the state the step starts from -/
theorem step_live {cfg : Config} {s : State} (hI : Inv s) (op : Op) {d : Nat} {j : Json} {b : Bool}
    (hm : Obs.send d j b ∈ (step cfg s op).2) : d ∈ conns s.peers := by
  have closing : ∀ (x : Ctx) (c : Nat), Closes cfg s op c x →
      Obs.send d j b ∈ (closePeer x c).out.reverse → d ∈ conns s.peers := by
    intro x c hx hm
    obtain ⟨p, hp⟩ := hx.findPeer hI
    have h1 := mem_strip_send hm
    rw [closePeer_out (hx.inv hI) hp] at h1
    simp only [List.mem_append, List.mem_singleton] at h1
    rcases h1 with (h1 | h1) | h1
    · obtain ⟨b', hb'⟩ := of_mem_strip_send h1
      obtain ⟨o, _, _, dd, hd', hl⟩ := hx.ok hI
      rw [hd'] at hb'
      simp only [mkCtx, List.append_nil, List.mem_reverse] at hb'
      exact hl.1 d j b' hb'
    · obtain ⟨b', hb'⟩ := of_mem_strip_send h1
      rw [← hx.conns hI]
      exact (closeTrace_live (hx.inv hI) hb').1
    · cases h1
  cases op with
  | connect c ws l a =>
    rw [step_connect] at hm
    split at hm <;> cases hm
  | timerFire t o =>
    rw [step_timerFire] at hm
    obtain ⟨_, _, dd, hd', hl⟩ := timeoutFired_ok (x := mkCtx s o) hI t
    simp only [List.mem_reverse] at hm
    rw [hd'] at hm
    simp only [mkCtx, List.append_nil] at hm
    exact hl.1 d j b hm
  | disconnect c o =>
    rw [step_disconnect] at hm
    split at hm
    · cases hm
    · next hf =>
      have hc : c ∈ conns s.peers := by
        rcases Classical.em (c ∈ conns s.peers) with h | h
        · exact h
        · exact absurd (findPeer_isNone.2 h) hf
      exact closing (mkCtx s o) c ⟨hc, Or.inl ⟨o, rfl, rfl⟩⟩ hm
  | message c msg o =>
    rw [step_message] at hm
    split at hm
    · cases hm
    · next hf =>
      have hc : c ∈ conns s.peers := by
        rcases Classical.em (c ∈ conns s.peers) with h | h
        · exact h
        · exact absurd (findPeer_isNone.2 h) hf
      have hok := parseMessage_ok cfg (x := mkCtx s o) hI c msg
      cases hpm : parseMessage cfg (mkCtx s o) c msg with
      | mk x ok =>
        rw [hpm] at hok hm
        cases ok with
        | true =>
          simp only [if_true, List.mem_reverse] at hm
          obtain ⟨_, _, dd, hd', hl⟩ := hok
          simp only at hd'
          rw [hd'] at hm
          simp only [mkCtx, List.append_nil] at hm
          exact hl.1 d j b hm
        | false =>
          simp only [Bool.false_eq_true, if_false] at hm
          exact closing x c ⟨hc, Or.inr ⟨msg, o, rfl, hpm⟩⟩ hm

/-- the connections after a step: those before, minus a closed one, plus a newly connected one -/
theorem step_conns {cfg : Config} {s : State} (hI : Inv s) (op : Op) {d : Nat}
    (hd : d ∈ conns (step cfg s op).1.peers) :
    d ∈ conns s.peers ∨ ∃ ws l a, op = .connect d ws l a := by
  cases op with
  | connect c ws l a =>
    rw [step_connect] at hd
    split at hd
    · exact Or.inl hd
    · simp only [conns_append, List.mem_append, conns_cons, conns_nil, List.mem_singleton] at hd
      rcases hd with hd | hd
      · exact Or.inl hd
      · subst hd; exact Or.inr ⟨ws, l, a, rfl⟩
  | timerFire t o =>
    rw [step_timerFire] at hd
    left
    have := (timeoutFired_ok (x := mkCtx s o) hI t).2.1
    simp only [mkCtx] at this
    rw [← this]; exact hd
  | disconnect c o =>
    rw [step_disconnect] at hd
    split at hd
    · exact Or.inl hd
    · next hf =>
      have hc : c ∈ conns s.peers := by
        rcases Classical.em (c ∈ conns s.peers) with h | h
        · exact h
        · exact absurd (findPeer_isNone.2 h) hf
      have hx : Closes cfg s (.disconnect c o) c (mkCtx s o) := ⟨hc, Or.inl ⟨o, rfl, rfl⟩⟩
      obtain ⟨p, hp⟩ := hx.findPeer hI
      rw [closePeer_eq (hx.inv hI) hp] at hd
      exact Or.inl (mem_conns_afterClose.1 hd).1
  | message c msg o =>
    rw [step_message] at hd
    split at hd
    · exact Or.inl hd
    · next hf =>
      have hc : c ∈ conns s.peers := by
        rcases Classical.em (c ∈ conns s.peers) with h | h
        · exact h
        · exact absurd (findPeer_isNone.2 h) hf
      have hok := parseMessage_ok cfg (x := mkCtx s o) hI c msg
      cases hpm : parseMessage cfg (mkCtx s o) c msg with
      | mk x ok =>
        rw [hpm] at hok hd
        cases ok with
        | true =>
          left
          have := hok.2.1
          simp only [mkCtx] at this
          rw [← this]; exact hd
        | false =>
          have hx : Closes cfg s (.message c msg o) c x := ⟨hc, Or.inr ⟨msg, o, rfl, hpm⟩⟩
          obtain ⟨p, hp⟩ := hx.findPeer hI
          simp only [Bool.false_eq_true, if_false] at hd
          rw [closePeer_eq (hx.inv hI) hp] at hd
          left
          rw [← hx.conns hI]
          exact (mem_conns_afterClose.1 hd).1

/-! ## runs and reachability -/

theorem run_nil (cfg : Config) (s : State) : run cfg s [] = (s, []) := rfl
theorem run_cons (cfg : Config) (s : State) (op : Op) (rest : List Op) :
    run cfg s (op :: rest) =
      ((run cfg (step cfg s op).1 rest).1, (step cfg s op).2 :: (run cfg (step cfg s op).1 rest).2) := rfl

theorem run_append (cfg : Config) (s : State) (a b : List Op) :
    run cfg s (a ++ b) = ((run cfg (run cfg s a).1 b).1, (run cfg s a).2 ++ (run cfg (run cfg s a).1 b).2) := by
  induction a generalizing s with
  | nil => rfl
  | cons op a ih =>
    simp only [List.cons_append, run_cons, ih, List.cons_append]

theorem run_inv {cfg : Config} {s : State} (hI : Inv s) (ops : List Op) : Inv (run cfg s ops).1 := by
  induction ops generalizing s with
  | nil => exact hI
  | cons op rest ih => rw [run_cons]; exact ih (step_inv hI op)

/-- `s` is reached from an initial state (any user table) by some list of operations -/
def Reachable (cfg : Config) (s : State) : Prop :=
  ∃ (us : List User) (ops : List Op), s = (run cfg { users := us } ops).1

theorem Reachable.inv {cfg : Config} {s : State} (h : Reachable cfg s) : Inv s := by
  obtain ⟨us, ops, rfl⟩ := h
  exact run_inv (inv_init us) ops

theorem Reachable.init (cfg : Config) (us : List User) : Reachable cfg { users := us } := ⟨us, [], rfl⟩

theorem Reachable.step {cfg : Config} {s : State} (h : Reachable cfg s) (op : Op) :
    Reachable cfg (step cfg s op).1 := by
  obtain ⟨us, ops, rfl⟩ := h
  refine ⟨us, ops ++ [op], ?_⟩
  rw [run_append, run_cons, run_nil]

theorem Reachable.run {cfg : Config} {s : State} (h : Reachable cfg s) (ops : List Op) :
    Reachable cfg (run cfg s ops).1 := by
  induction ops generalizing s with
  | nil => exact h
  | cons op rest ih => rw [run_cons]; exact ih (h.step op)

end Cjet.Daemon.C05
