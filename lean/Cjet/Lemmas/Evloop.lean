import Cjet.Evloop
/-!
Helper lemmas for `Cjet.Props.Evloop` (the epoll dispatcher).
-/
namespace Cjet.Evloop

/-! ### trace readers over `++` -/

theorem callsOf_append (a b : List TEv) : callsOf (a ++ b) = callsOf a ++ callsOf b := by
  induction a with
  | nil => rfl
  | cons e t ih => cases e <;> simp [callsOf, ih]

theorem removedIn_append (a b : List TEv) : removedIn (a ++ b) = removedIn a ++ removedIn b := by
  induction a with
  | nil => rfl
  | cons e t ih => cases e <;> simp [removedIn, ih]

theorem retsOf_append (a b : List TEv) : retsOf (a ++ b) = retsOf a ++ retsOf b := by
  induction a with
  | nil => rfl
  | cons e t ih => cases e <;> simp [retsOf, ih]

theorem mem_removedIn {x : Nat} {t : List TEv} : x ∈ removedIn t ↔ TEv.removed x ∈ t := by
  induction t with
  | nil => simp [removedIn]
  | cons e t ih => cases e <;> simp [removedIn, ih]

theorem mem_callsOf {x : Nat} {f : Fn} {t : List TEv} : (x, f) ∈ callsOf t ↔ TEv.call x f ∈ t := by
  induction t with
  | nil => simp [callsOf]
  | cons e t ih => cases e <;> simp [callsOf, ih]

theorem mem_retsOf {r : Ret} {t : List TEv} : r ∈ retsOf t ↔ TEv.ret r ∈ t := by
  induction t with
  | nil => simp [retsOf]
  | cons e t ih => cases e <;> simp [retsOf, ih]

theorem statusAfter_append (x : Nat) (s : Status) (a b : List TEv) :
    statusAfter x s (a ++ b) = statusAfter x (statusAfter x s a) b := by
  simp [statusAfter, List.foldl_append]

@[simp] theorem statusAfter_nil (x : Nat) (s : Status) : statusAfter x s [] = s := rfl

@[simp] theorem statusAfter_cons (x : Nat) (s : Status) (e : TEv) (t : List TEv) :
    statusAfter x s (e :: t) = statusAfter x (stepStatus x s e) t := rfl

theorem monX_append (x : Nat) (s : Status) (a b : List TEv) :
    monX x s (a ++ b) ↔ monX x s a ∧ monX x (statusAfter x s a) b := by
  induction a generalizing s with
  | nil => simp [monX]
  | cons e t ih => simp [monX, ih, and_assoc]

/-- Events that are neither calls nor status changes. -/
def Quiet : TEv → Prop
  | .call _ _ => False
  | .removed _ => False
  | .added _ _ => False
  | .harvest _ => False
  | _ => True

theorem stepStatus_quiet {x : Nat} {s : Status} {e : TEv} (h : Quiet e) : stepStatus x s e = s := by
  cases e <;> simp_all [Quiet, stepStatus]

/-! ### the actions of a callback -/

/-- An action trace holds only `removed`, `added`, `stop`. -/
def ActEv : TEv → Prop
  | .removed _ => True
  | .added _ _ => True
  | .stop => True
  | _ => False

theorem runActs_actEv (P : Params) (acts : List Act) (L : Loop) :
    ∀ e ∈ (runActs P acts L).2, ActEv e := by
  induction acts generalizing L with
  | nil => simp [runActs]
  | cons a as ih =>
    cases a <;> simp only [runActs, List.mem_cons, forall_eq_or_imp] <;>
      exact ⟨trivial, ih _⟩

theorem callsOf_of_actEv {t : List TEv} (h : ∀ e ∈ t, ActEv e) : callsOf t = [] := by
  induction t with
  | nil => rfl
  | cons e t ih =>
    have he := h e (by simp)
    have ht := ih (fun e' h' => h e' (by simp [h']))
    cases e <;> simp_all [ActEv, callsOf]

theorem retsOf_of_actEv {t : List TEv} (h : ∀ e ∈ t, ActEv e) : retsOf t = [] := by
  induction t with
  | nil => rfl
  | cons e t ih =>
    have he := h e (by simp)
    have ht := ih (fun e' h' => h e' (by simp [h']))
    cases e <;> simp_all [ActEv, retsOf]

theorem monX_of_actEv {x : Nat} {t : List TEv} (h : ∀ e ∈ t, ActEv e) (s : Status) : monX x s t := by
  induction t generalizing s with
  | nil => trivial
  | cons e t ih =>
    have he := h e (by simp)
    refine ⟨?_, ih (fun e' h' => h e' (by simp [h'])) _⟩
    intro f hf; subst hf; exact he.elim


/-! ### closed form of what callbacks do to the harvested array and to `current_ev` -/

/-- An array entry after the ids `rs` have been removed. -/
def nullBy (nulling : Bool) (rs : List Nat) (e : Entry) : Entry :=
  match e.ev with
  | some x => if nulling && rs.contains x then ⟨none, e.mask⟩ else e
  | none => e

/-- `current_ev` after the ids `rs` have been removed. -/
def curBy (rs : List Nat) : Option Nat → Option Nat
  | some x => if rs.contains x then none else some x
  | none => none

theorem nullBy_nil (b : Bool) (e : Entry) : nullBy b [] e = e := by
  unfold nullBy; cases h : e.ev <;> simp

theorem nullBy_false (rs : List Nat) (e : Entry) : nullBy false rs e = e := by
  unfold nullBy; cases h : e.ev <;> simp

theorem map_nullBy_nil (b : Bool) (es : List Entry) : es.map (nullBy b []) = es := by
  conv => rhs; rw [← List.map_id es]
  exact List.map_congr_left (fun e _ => nullBy_nil b e)

theorem map_nullBy_false (rs : List Nat) (es : List Entry) : es.map (nullBy false rs) = es := by
  conv => rhs; rw [← List.map_id es]
  exact List.map_congr_left (fun e _ => nullBy_false rs e)

theorem curBy_nil (c : Option Nat) : curBy [] c = c := by
  cases c <;> simp [curBy]

theorem nullBy_mask (b : Bool) (rs : List Nat) (e : Entry) : (nullBy b rs e).mask = e.mask := by
  unfold nullBy; split
  · split <;> rfl
  · rfl

theorem nullBy_nullBy (b : Bool) (r1 r2 : List Nat) (e : Entry) :
    nullBy b r2 (nullBy b r1 e) = nullBy b (r1 ++ r2) e := by
  obtain ⟨ev, m⟩ := e
  cases ev with
  | none => simp [nullBy]
  | some x =>
    cases b
    · simp [nullBy]
    · by_cases h1 : x ∈ r1
      · simp [nullBy, h1]
      · by_cases h2 : x ∈ r2 <;> simp [nullBy, h1, h2]

theorem curBy_curBy (r1 r2 : List Nat) (c : Option Nat) : curBy r2 (curBy r1 c) = curBy (r1 ++ r2) c := by
  cases c with
  | none => simp [curBy]
  | some x =>
    by_cases h1 : x ∈ r1
    · simp [curBy, h1]
    · by_cases h2 : x ∈ r2 <;> simp [curBy, h1, h2]

theorem nullify_eq (x : Nat) (es : List Entry) : nullify x es = es.map (nullBy true [x]) := by
  unfold nullify
  apply List.map_congr_left
  intro e _
  obtain ⟨ev, m⟩ := e
  cases ev with
  | none => simp [nullBy]
  | some y => by_cases h : y = x <;> simp [nullBy, h]

theorem removeEv_todo (P : Params) (x : Nat) (L : Loop) :
    (removeEv P x L).todo = L.todo.map (nullBy P.nulling [x]) := by
  unfold removeEv
  cases h : P.nulling
  · simp [map_nullBy_false]
  · simp [nullify_eq]

theorem removeEv_current (P : Params) (x : Nat) (L : Loop) :
    (removeEv P x L).current = curBy [x] L.current := by
  unfold removeEv
  cases hc : L.current with
  | none => simp [curBy]
  | some y => by_cases h : y = x <;> simp [curBy, h]

theorem addEv_todo (x : Nat) (ok : Bool) (L : Loop) : (addEv x ok L).1.todo = L.todo := by
  unfold addEv; split <;> rfl

theorem addEv_current (x : Nat) (ok : Bool) (L : Loop) : (addEv x ok L).1.current = L.current := by
  unfold addEv; split <;> rfl

theorem runActs_todo (P : Params) (acts : List Act) (L : Loop) :
    (runActs P acts L).1.todo = L.todo.map (nullBy P.nulling (removedIn (runActs P acts L).2)) := by
  induction acts generalizing L with
  | nil => simp [runActs, removedIn, map_nullBy_nil]
  | cons a as ih =>
    cases a with
    | remove x =>
      simp only [runActs, removedIn]
      rw [ih, removeEv_todo, List.map_map]
      apply List.map_congr_left
      intro e _
      simp [nullBy_nullBy]
    | add x ok =>
      simp only [runActs, removedIn]
      rw [ih, addEv_todo]
    | stop =>
      simp only [runActs, removedIn]
      rw [ih]

theorem runActs_current (P : Params) (acts : List Act) (L : Loop) :
    (runActs P acts L).1.current = curBy (removedIn (runActs P acts L).2) L.current := by
  induction acts generalizing L with
  | nil => simp [runActs, removedIn, curBy_nil]
  | cons a as ih =>
    cases a with
    | remove x =>
      simp only [runActs, removedIn]
      rw [ih, removeEv_current, curBy_curBy]
      simp
    | add x ok =>
      simp only [runActs, removedIn]
      rw [ih, addEv_current]
    | stop =>
      simp only [runActs, removedIn]
      rw [ih]

/-! ### `callback` -/

theorem callback_trace (P : Params) (x : Nat) (f : Fn) (L : Loop) (sc : List Answer) :
    (callback P x f L sc).trace =
      .call x f :: ((runActs P (nextAnswer sc).1.acts L).2 ++
        [.snap (callback P x f L sc).loop, .ret (callback P x f L sc).ret]) := rfl

theorem callback_calls (P : Params) (x : Nat) (f : Fn) (L : Loop) (sc : List Answer) :
    callsOf (callback P x f L sc).trace = [(x, f)] := by
  rw [callback_trace]
  simp [callsOf, callsOf_append, callsOf_of_actEv (runActs_actEv P _ L)]

theorem callback_rets (P : Params) (x : Nat) (f : Fn) (L : Loop) (sc : List Answer) :
    retsOf (callback P x f L sc).trace = [(callback P x f L sc).ret] := by
  rw [callback_trace]
  simp [retsOf, retsOf_append, retsOf_of_actEv (runActs_actEv P _ L)]

theorem callback_removedIn (P : Params) (x : Nat) (f : Fn) (L : Loop) (sc : List Answer) :
    removedIn (callback P x f L sc).trace = removedIn (runActs P (nextAnswer sc).1.acts L).2 := by
  rw [callback_trace]
  simp [removedIn, removedIn_append]

theorem callback_todo (P : Params) (x : Nat) (f : Fn) (L : Loop) (sc : List Answer) :
    (callback P x f L sc).loop.todo =
      L.todo.map (nullBy P.nulling (removedIn (callback P x f L sc).trace)) := by
  rw [callback_removedIn]
  exact runActs_todo P _ L

theorem callback_current (P : Params) (x : Nat) (f : Fn) (L : Loop) (sc : List Answer) :
    (callback P x f L sc).loop.current = curBy (removedIn (callback P x f L sc).trace) L.current := by
  rw [callback_removedIn]
  exact runActs_current P _ L


/-! ### `writePart`, `entry` -/

theorem writePart_todo (P : Params) (x : Nat) (m : Mask) (L : Loop) (sc : List Answer) :
    (writePart P x m L sc).loop.todo =
      L.todo.map (nullBy P.nulling (removedIn (writePart P x m L sc).seg)) := by
  unfold writePart
  split
  · split
    · exact callback_todo P x .write L sc
    · simp [removedIn, map_nullBy_nil]
  · simp [removedIn, map_nullBy_nil]

theorem writePart_calls (P : Params) (x : Nat) (m : Mask) (L : Loop) (sc : List Answer) :
    callsOf (writePart P x m L sc).seg =
      if L.current.isSome && (isOut m && P.hasWrite x) then [(x, .write)] else [] := by
  unfold writePart
  by_cases h1 : L.current.isSome = true
  · by_cases h2 : (isOut m && P.hasWrite x) = true
    · simp only [h1, h2, if_true, Bool.and_self]; exact callback_calls P x .write L sc
    · simp [h1, h2, callsOf]
  · simp [h1, callsOf]

theorem writePart_rets (P : Params) (x : Nat) (m : Mask) (L : Loop) (sc : List Answer) :
    (retsOf (writePart P x m L sc).seg = [] ∧ (writePart P x m L sc).abort = false) ∨
    (∃ r, retsOf (writePart P x m L sc).seg = [r] ∧ (writePart P x m L sc).abort = (r == .abort)) := by
  unfold writePart
  split
  · split
    · exact Or.inr ⟨_, callback_rets P x .write L sc, rfl⟩
    · exact Or.inl ⟨rfl, rfl⟩
  · exact Or.inl ⟨rfl, rfl⟩

theorem entry_none (P : Params) (e : Entry) (L : Loop) (sc : List Answer) (h : e.ev = none) :
    entry P e L sc = ⟨L, sc, [], false⟩ := by
  unfold entry; simp [h]

theorem entry_todo (P : Params) (e : Entry) (L : Loop) (sc : List Answer) :
    (entry P e L sc).loop.todo = L.todo.map (nullBy P.nulling (removedIn (entry P e L sc).seg)) := by
  unfold entry
  split
  · simp [removedIn, map_nullBy_nil]
  · rename_i x _
    dsimp only
    split
    · exact callback_todo P x .error _ sc
    · split
      · split
        · exact callback_todo P x .read _ sc
        · exact callback_todo P x .read _ sc
        · dsimp only
          rw [writePart_todo, callback_todo, List.map_map, removedIn_append]
          apply List.map_congr_left
          intro e _
          simp [nullBy_nullBy]
      · exact writePart_todo P x e.mask _ sc

/-- The calls of one array entry: what the mask prescribes, cut short after the read function when
    that one did not return "continue" or removed the `io_event` itself. -/
theorem entry_calls (P : Params) (e : Entry) (L : Loop) (sc : List Answer) (x : Nat) (h : e.ev = some x) :
    callsOf (entry P e L sc).seg = prescribed P x e.mask ∨
    (isErr e.mask = false ∧ (isIn e.mask && P.hasRead x) = true ∧ callsOf (entry P e L sc).seg = [(x, .read)] ∧
      ((∃ r ∈ retsOf (entry P e L sc).seg, r ≠ .cont) ∨ x ∈ removedIn (entry P e L sc).seg)) := by
  unfold entry prescribed
  simp only [h]
  cases he : isErr e.mask with
  | true => simp only [if_true]; left; exact callback_calls P x .error _ sc
  | false =>
    simp only [Bool.false_eq_true, if_false]
    cases hr : (isIn e.mask && P.hasRead x) with
    | true =>
      simp only [if_true]
      generalize hc : callback P x Fn.read { L with current := some x } sc = c
      have hcalls : callsOf c.trace = [(x, .read)] := by rw [← hc]; exact callback_calls ..
      have hrets : retsOf c.trace = [c.ret] := by rw [← hc]; exact callback_rets ..
      have hcur : c.loop.current = curBy (removedIn c.trace) (some x) := by rw [← hc]; exact callback_current ..
      cases hret : c.ret with
      | abort =>
        right
        refine ⟨trivial, trivial, hcalls, Or.inl ⟨.abort, ?_, by simp⟩⟩
        simp [hrets, hret]
      | removed =>
        right
        refine ⟨trivial, trivial, hcalls, Or.inl ⟨.removed, ?_, by simp⟩⟩
        simp [hrets, hret]
      | cont =>
        dsimp only
        rw [callsOf_append, hcalls, writePart_calls]
        by_cases hx : x ∈ removedIn c.trace
        · right
          refine ⟨trivial, trivial, ?_, Or.inr ?_⟩
          · simp [hcur, curBy, hx]
          · rw [removedIn_append]; simp [hx]
        · left
          simp [hcur, curBy, hx]
    | false =>
      simp only [Bool.false_eq_true, if_false]
      left
      rw [writePart_calls]
      simp


/-! ### the status invariant: a removed `io_event` is out of reach of the dispatcher -/

/-- `x` is neither in the part of the array still to visit nor `current_ev`. -/
def Safe (x : Nat) (L : Loop) : Prop := (∀ e ∈ L.todo, e.ev ≠ some x) ∧ L.current ≠ some x

def Inv (x : Nat) (s : Status) (L : Loop) : Prop := (s = .dead → x ∉ L.reg) ∧ (s ≠ .ok → Safe x L)

theorem nullBy_ev_ne {x : Nat} {b : Bool} {rs : List Nat} {e : Entry} (h : e.ev ≠ some x) :
    (nullBy b rs e).ev ≠ some x := by
  unfold nullBy
  split
  · split
    · simp
    · exact h
  · exact h

theorem nullBy_ev_removed {x : Nat} {rs : List Nat} {e : Entry} (h : x ∈ rs) :
    (nullBy true rs e).ev ≠ some x := by
  unfold nullBy
  split
  · rename_i y hy
    by_cases hxy : y = x
    · subst hxy; simp [h]
    · split
      · simp
      · rw [hy]; simpa using hxy
  · rename_i hy; rw [hy]; simp

theorem curBy_ne {x : Nat} {rs : List Nat} {c : Option Nat} (h : c ≠ some x) : curBy rs c ≠ some x := by
  cases c with
  | none => simp [curBy]
  | some y =>
    by_cases hy : y ∈ rs
    · simp [curBy, hy]
    · simpa [curBy, hy] using h

theorem curBy_removed {x : Nat} {rs : List Nat} {c : Option Nat} (h : x ∈ rs) : curBy rs c ≠ some x := by
  cases c with
  | none => simp [curBy]
  | some y =>
    by_cases hxy : y = x
    · subst hxy; simp [curBy, h]
    · exact curBy_ne (by simpa using hxy)

theorem curBy_cases (rs : List Nat) (c : Option Nat) : curBy rs c = c ∨ curBy rs c = none := by
  cases c with
  | none => simp [curBy]
  | some y => by_cases hy : y ∈ rs <;> simp [curBy, hy]

theorem removeEv_reg (P : Params) (y : Nat) (L : Loop) : (removeEv P y L).reg = L.reg.filter (· != y) := rfl

theorem removeEv_inv (P : Params) (hn : P.nulling = true) (x y : Nat) (L : Loop) (s : Status)
    (h : Inv x s L) : Inv x (if y = x then .dead else s) (removeEv P y L) := by
  obtain ⟨hreg, hsafe⟩ := h
  by_cases hxy : y = x
  · subst hxy
    simp only [if_true]
    refine ⟨fun _ => ?_, fun _ => ⟨?_, ?_⟩⟩
    · rw [removeEv_reg]; simp
    · rw [removeEv_todo, hn]
      intro e' he'
      obtain ⟨e, _, rfl⟩ := List.mem_map.1 he'
      exact nullBy_ev_removed (by simp)
    · rw [removeEv_current]; exact curBy_removed (by simp)
  · simp only [hxy, if_false]
    refine ⟨fun hd => ?_, fun hs => ⟨?_, ?_⟩⟩
    · rw [removeEv_reg]; intro hm; exact hreg hd (List.mem_filter.1 hm).1
    · rw [removeEv_todo]
      intro e' he'
      obtain ⟨e, he, rfl⟩ := List.mem_map.1 he'
      exact nullBy_ev_ne ((hsafe hs).1 e he)
    · rw [removeEv_current]; exact curBy_ne (hsafe hs).2

theorem addEv_inv (x y : Nat) (ok : Bool) (L : Loop) (s : Status) (h : Inv x s L) :
    Inv x (stepStatus x s (.added y (addEv y ok L).2)) (addEv y ok L).1 := by
  obtain ⟨hreg, hsafe⟩ := h
  unfold addEv
  split
  · -- the kernel accepted
    simp only [stepStatus]
    by_cases hc : y = x ∧ True ∧ s = .dead
    · rw [if_pos hc]
      refine ⟨fun hd => (by cases hd), fun _ => ?_⟩
      exact hsafe (by rw [hc.2.2]; simp)
    · rw [if_neg hc]
      refine ⟨fun hd => ?_, fun hs => hsafe hs⟩
      have hyx : y ≠ x := fun e => hc ⟨e, trivial, hd⟩
      intro hm
      rcases List.mem_append.1 hm with hm | hm
      · exact hreg hd hm
      · simp at hm; exact hyx hm.symm
  · simp only [stepStatus]
    have : ¬ (y = x ∧ false = true ∧ s = .dead) := by simp
    rw [if_neg this]
    exact ⟨hreg, hsafe⟩

theorem runActs_inv (P : Params) (hn : P.nulling = true) (x : Nat) (acts : List Act) (L : Loop) (s : Status)
    (h : Inv x s L) : Inv x (statusAfter x s (runActs P acts L).2) (runActs P acts L).1 := by
  induction acts generalizing L s with
  | nil => simpa [runActs] using h
  | cons a as ih =>
    cases a with
    | remove y =>
      simp only [runActs, statusAfter_cons, stepStatus]
      exact ih _ _ (removeEv_inv P hn x y L s h)
    | add y ok =>
      simp only [runActs, statusAfter_cons]
      exact ih _ _ (addEv_inv x y ok L s h)
    | stop =>
      simp only [runActs, statusAfter_cons, stepStatus]
      exact ih _ _ h

theorem callback_inv (P : Params) (hn : P.nulling = true) (x x' : Nat) (f : Fn) (L : Loop) (sc : List Answer)
    (s : Status) (h : Inv x s L) (hx : x' = x → s = .ok) :
    monX x s (callback P x' f L sc).trace ∧
      Inv x (statusAfter x s (callback P x' f L sc).trace) (callback P x' f L sc).loop := by
  rw [callback_trace]
  have hact := runActs_actEv P (nextAnswer sc).1.acts L
  have hinv := runActs_inv P hn x (nextAnswer sc).1.acts L s h
  constructor
  · refine ⟨?_, ?_⟩
    · intro f' hf; injection hf with h1 _; exact hx h1
    · simp only [stepStatus]
      rw [monX_append]
      refine ⟨monX_of_actEv hact s, ?_⟩
      simp [monX]
  · simp only [statusAfter_cons, stepStatus, statusAfter_append, statusAfter_nil]
    exact hinv

theorem writePart_inv (P : Params) (hn : P.nulling = true) (x x' : Nat) (m : Mask) (L : Loop) (sc : List Answer)
    (s : Status) (h : Inv x s L) (hx : x' = x → L.current.isSome = true → s = .ok) :
    monX x s (writePart P x' m L sc).seg ∧
      Inv x (statusAfter x s (writePart P x' m L sc).seg) (writePart P x' m L sc).loop := by
  unfold writePart
  split
  · rename_i hc
    split
    · exact callback_inv P hn x x' .write L sc s h (fun e => hx e hc)
    · exact ⟨trivial, h⟩
  · exact ⟨trivial, h⟩

theorem entry_inv (P : Params) (hn : P.nulling = true) (x : Nat) (e : Entry) (L : Loop) (sc : List Answer)
    (s : Status) (h : Inv x s L) (hx : e.ev = some x → s = .ok) :
    monX x s (entry P e L sc).seg ∧ Inv x (statusAfter x s (entry P e L sc).seg) (entry P e L sc).loop := by
  unfold entry
  split
  · exact ⟨trivial, h⟩
  · rename_i x' he
    have hx' : x' = x → s = .ok := fun e' => hx (by rw [he, e'])
    have h1 : Inv x s { L with current := some x' } := by
      refine ⟨h.1, fun hs => ⟨(h.2 hs).1, ?_⟩⟩
      intro hc; injection hc with hc; exact hs (hx' hc)
    dsimp only
    split
    · exact callback_inv P hn x x' .error _ sc s h1 hx'
    · split
      · have hc := callback_inv P hn x x' .read { L with current := some x' } sc s h1 hx'
        have hcur := callback_current P x' .read { L with current := some x' } sc
        split
        · exact hc
        · exact hc
        · dsimp only
          rw [monX_append, statusAfter_append]
          have hw := writePart_inv P hn x x' e.mask _ (callback P x' .read { L with current := some x' } sc).script
            _ hc.2 (by
              intro hxx hsome
              apply Classical.byContradiction
              intro hs
              have hsafe := (hc.2.2 hs).2
              rcases curBy_cases (removedIn (callback P x' .read { L with current := some x' } sc).trace) (some x')
                with h2 | h2
              · rw [hcur, h2, hxx] at hsafe; exact hsafe rfl
              · rw [hcur, h2] at hsome; simp at hsome)
          exact ⟨⟨hc.1, hw.1⟩, hw.2⟩
      · exact writePart_inv P hn x x' e.mask _ sc s h1 (fun e' _ => hx' e')

/-! ### `dispatchLoop` -/

theorem dispatchLoop_nil (P : Params) (n : Nat) (L : Loop) (sc : List Answer) (h : L.todo = []) :
    dispatchLoop P n L sc = ⟨L, sc, [], false⟩ := by
  cases n <;> simp [dispatchLoop, h]

theorem dispatchLoop_cons (P : Params) (n : Nat) (L : Loop) (sc : List Answer) (e : Entry) (rest : List Entry)
    (h : L.todo = e :: rest) :
    dispatchLoop P (n + 1) L sc =
      if (entry P e { L with done := L.done ++ [e], todo := rest } sc).abort then
        ⟨(entry P e { L with done := L.done ++ [e], todo := rest } sc).loop,
         (entry P e { L with done := L.done ++ [e], todo := rest } sc).script,
         [(entry P e { L with done := L.done ++ [e], todo := rest } sc).seg], true⟩
      else
        ⟨(dispatchLoop P n (entry P e { L with done := L.done ++ [e], todo := rest } sc).loop
            (entry P e { L with done := L.done ++ [e], todo := rest } sc).script).loop,
         (dispatchLoop P n (entry P e { L with done := L.done ++ [e], todo := rest } sc).loop
            (entry P e { L with done := L.done ++ [e], todo := rest } sc).script).script,
         (entry P e { L with done := L.done ++ [e], todo := rest } sc).seg ::
           (dispatchLoop P n (entry P e { L with done := L.done ++ [e], todo := rest } sc).loop
            (entry P e { L with done := L.done ++ [e], todo := rest } sc).script).segs,
         (dispatchLoop P n (entry P e { L with done := L.done ++ [e], todo := rest } sc).loop
            (entry P e { L with done := L.done ++ [e], todo := rest } sc).script).aborted⟩ := by
  simp only [dispatchLoop, h]

theorem dispatchLoop_inv (P : Params) (hn : P.nulling = true) (x : Nat) (n : Nat) (L : Loop) (sc : List Answer)
    (s : Status) (h : Inv x s L) :
    monX x s (dispatchLoop P n L sc).trace ∧
      Inv x (statusAfter x s (dispatchLoop P n L sc).trace) (dispatchLoop P n L sc).loop := by
  induction n generalizing L sc s with
  | zero => exact ⟨trivial, h⟩
  | succ n ih =>
    cases hL : L.todo with
    | nil => rw [dispatchLoop_nil P _ L sc hL]; exact ⟨trivial, h⟩
    | cons e rest =>
      rw [dispatchLoop_cons P n L sc e rest hL]
      have h1 : Inv x s { L with done := L.done ++ [e], todo := rest } := by
        refine ⟨h.1, fun hs => ⟨fun e' he' => (h.2 hs).1 e' (by rw [hL]; simp [he']), (h.2 hs).2⟩⟩
      have hx : e.ev = some x → s = .ok := by
        intro he
        apply Classical.byContradiction
        intro hs
        exact (h.2 hs).1 e (by rw [hL]; simp) he
      have he := entry_inv P hn x e _ sc s h1 hx
      split
      · simpa [DispRes.trace] using he
      · have hd := ih _ (entry P e { L with done := L.done ++ [e], todo := rest } sc).script _ he.2
        simp only [DispRes.trace, List.flatten_cons] at hd ⊢
        rw [monX_append, statusAfter_append]
        exact ⟨⟨he.1, hd.1⟩, hd.2⟩


theorem dispatch_inv (P : Params) (hn : P.nulling = true) (x : Nat) (L : Loop) (sc : List Answer)
    (s : Status) (h : Inv x s L) :
    monX x s (dispatch P L sc).trace ∧
      Inv x (statusAfter x s (dispatch P L sc).trace) (dispatch P L sc).loop :=
  dispatchLoop_inv P hn x L.todo.length L sc s h

/-! ### `run` -/

theorem handleBatch_trace (P : Params) (b : List (Nat × Mask)) (L : Loop) (sc : List Answer) :
    (handleBatch P b L sc).trace =
      (dispatch P { L with done := [], todo := b.map fun p => ⟨some p.1, p.2⟩ } sc).trace := rfl

theorem handleBatch_aborted (P : Params) (b : List (Nat × Mask)) (L : Loop) (sc : List Answer) :
    (handleBatch P b L sc).aborted =
      (dispatch P { L with done := [], todo := b.map fun p => ⟨some p.1, p.2⟩ } sc).aborted := rfl

theorem mem_harvest {P : Params} {reg : List Nat} {ready : List (Nat × Mask)} {p : Nat × Mask}
    (h : p ∈ harvest P reg ready) : p.1 ∈ reg ∧ p ∈ ready := by
  unfold harvest at h
  have h' := List.mem_filter.1 (List.mem_of_mem_take h)
  exact ⟨by simpa using h'.2, h'.1⟩

theorem handleBatch_inv (P : Params) (hn : P.nulling = true) (x : Nat) (ready : List (Nat × Mask)) (L : Loop)
    (sc : List Answer) (s : Status) (h : Inv x s L) :
    monX x (stepStatus x s (.harvest (harvest P L.reg ready))) (handleBatch P (harvest P L.reg ready) L sc).trace ∧
      Inv x (statusAfter x (stepStatus x s (.harvest (harvest P L.reg ready)))
              (handleBatch P (harvest P L.reg ready) L sc).trace)
        (handleBatch P (harvest P L.reg ready) L sc).loop := by
  have h1 : Inv x (stepStatus x s (.harvest (harvest P L.reg ready)))
      { L with done := [], todo := (harvest P L.reg ready).map fun p => ⟨some p.1, p.2⟩ } := by
    simp only [stepStatus]
    cases s with
    | ok => exact ⟨fun hd => (by cases hd), fun hs => absurd rfl hs⟩
    | stale => exact ⟨fun hd => (by cases hd), fun hs => absurd rfl hs⟩
    | dead =>
      refine ⟨fun _ => h.1 rfl, fun _ => ⟨?_, (h.2 (by simp)).2⟩⟩
      intro e he
      obtain ⟨p, hp, rfl⟩ := List.mem_map.1 he
      intro hc
      injection hc with hc
      exact h.1 rfl (hc ▸ (mem_harvest hp).1)
  have hd := dispatch_inv P hn x _ sc _ h1
  rw [handleBatch_trace]
  refine ⟨hd.1, ?_⟩
  have h2 := hd.2
  unfold handleBatch
  exact ⟨h2.1, fun hs => ⟨by simp, (h2.2 hs).2⟩⟩

theorem run_inv (P : Params) (hn : P.nulling = true) (x : Nat) (ws : List Wait) (L : Loop) (sc : List Answer)
    (s : Status) (h : Inv x s L) : monX x s (run P ws L sc).trace := by
  induction ws generalizing L sc s with
  | nil =>
    unfold run
    split <;> simp [monX]
  | cons w ws ih =>
    unfold run
    split
    · simp [monX]
    · cases w with
      | eintr =>
        refine ⟨by simp, ?_⟩
        exact ih L sc s h
      | err => simp [monX]
      | batch ready =>
        have hb := handleBatch_inv P hn x ready L sc s h
        dsimp only
        split
        · refine ⟨by simp, ?_⟩
          rw [monX_append]
          exact ⟨hb.1, by simp [monX]⟩
        · refine ⟨by simp, ?_⟩
          rw [monX_append]
          exact ⟨hb.1, ih _ _ _ hb.2⟩

/-! ### from the monitor to statements about positions in the trace -/

theorem stepStatus_ne_ok {x : Nat} {s : Status} {e : TEv} (hs : s ≠ .ok) (he : ∀ b, e ≠ .harvest b) :
    stepStatus x s e ≠ .ok := by
  cases e <;> simp only [stepStatus]
  case removed y => split <;> simp [hs]
  case added y ok => split <;> simp [hs]
  case harvest b => exact absurd rfl (he b)
  all_goals exact hs

theorem monX_no_call {x : Nat} {s : Status} {t : List TEv} (hs : s ≠ .ok) (hm : monX x s t)
    (hh : ∀ b, TEv.harvest b ∉ t) (f : Fn) : TEv.call x f ∉ t := by
  induction t generalizing s with
  | nil => simp
  | cons e t ih =>
    intro hmem
    rcases List.mem_cons.1 hmem with he | hmem
    · exact hs (hm.1 f he.symm)
    · exact ih (stepStatus_ne_ok hs (fun b hb => hh b (by simp [hb]))) hm.2
        (fun b hb => hh b (by simp [hb])) hmem

theorem statusAfter_removed (x : Nat) (s : Status) (pre : List TEv) :
    statusAfter x s (pre ++ [.removed x]) = .dead := by
  rw [statusAfter_append]; simp [stepStatus]

/-- From `dead` (or `stale`) the status `ok` is reached only through a successful `add` of `x`
    followed by a new harvest (from `stale`: a harvest). -/
theorem statusAfter_ok_decomp (x : Nat) (t : List TEv) :
    ∀ s, s ≠ .ok → statusAfter x s t = .ok →
      (∃ m b m3, t = m ++ .harvest b :: m3) ∧
      (s = .dead → ∃ m1 m2 b m3, t = m1 ++ .added x true :: (m2 ++ .harvest b :: m3)) := by
  induction t with
  | nil => intro s hs h; exact absurd h hs
  | cons e t ih =>
    intro s hs h
    rw [statusAfter_cons] at h
    by_cases hk : stepStatus x s e = .ok
    · -- the step itself reaches ok: `e` is a harvest and `s = stale`
      cases e <;> simp only [stepStatus] at hk
      case removed y => split at hk <;> simp_all
      case added y ok => split at hk <;> simp_all
      case harvest b =>
        refine ⟨⟨[], b, t, rfl⟩, fun hd => ?_⟩
        subst hd; simp at hk
      all_goals exact absurd hk hs
    · obtain ⟨⟨m, b, m3, ht⟩, hdead⟩ := ih _ hk h
      refine ⟨⟨e :: m, b, m3, by rw [ht]; rfl⟩, fun hd => ?_⟩
      subst hd
      by_cases hd' : stepStatus x .dead e = .dead
      · obtain ⟨m1, m2, b', m3', ht'⟩ := hdead hd'
        exact ⟨e :: m1, m2, b', m3', by rw [ht']; rfl⟩
      · -- dead → stale: `e = added x true`
        cases e <;> simp only [stepStatus] at hd' hk
        case removed y => split at hd' <;> simp_all
        case added y ok =>
          by_cases hc : y = x ∧ ok = true ∧ True
          · obtain ⟨rfl, rfl, _⟩ := hc
            exact ⟨[], m, b, m3, by rw [ht]; rfl⟩
          · rw [if_neg hc] at hd'; exact absurd rfl hd'
        all_goals simp_all


/-! ### which array entry produced which segment -/

theorem entry_todo_length (P : Params) (e : Entry) (L : Loop) (sc : List Answer) :
    (entry P e L sc).loop.todo.length = L.todo.length := by
  rw [entry_todo]; simp

theorem dispatchLoop_segs_entry (P : Params) (n : Nat) (L : Loop) (sc : List Answer) :
    ∀ seg ∈ (dispatchLoop P n L sc).segs, ∃ e L' sc', seg = (entry P e L' sc').seg := by
  induction n generalizing L sc with
  | zero => simp [dispatchLoop]
  | succ n ih =>
    cases hL : L.todo with
    | nil => rw [dispatchLoop_nil P _ L sc hL]; simp
    | cons e rest =>
      rw [dispatchLoop_cons P n L sc e rest hL]
      split
      · intro seg hs
        simp only [List.mem_singleton] at hs
        exact ⟨_, _, _, hs⟩
      · intro seg hs
        rcases List.mem_cons.1 hs with h | h
        · exact ⟨_, _, _, h⟩
        · exact ih _ _ seg h

theorem dispatchLoop_length (P : Params) (n : Nat) (L : Loop) (sc : List Answer) (hn : n = L.todo.length) :
    (dispatchLoop P n L sc).segs.length ≤ n ∧
      ((dispatchLoop P n L sc).aborted = false → (dispatchLoop P n L sc).segs.length = n) := by
  induction n generalizing L sc with
  | zero => simp [dispatchLoop]
  | succ n ih =>
    cases hL : L.todo with
    | nil => rw [hL] at hn; simp at hn
    | cons e rest =>
      rw [dispatchLoop_cons P n L sc e rest hL]
      have hlen : n = (entry P e { L with done := L.done ++ [e], todo := rest } sc).loop.todo.length := by
        rw [entry_todo_length]; rw [hL] at hn; simpa using hn
      split
      · simp
      · have := ih _ (entry P e { L with done := L.done ++ [e], todo := rest } sc).script hlen
        simp only [List.length_cons]
        exact ⟨by omega, fun h => by have := this.2 h; omega⟩

theorem dispatchLoop_none_at (P : Params) (n : Nat) (L : Loop) (sc : List Answer) (i : Nat) (m : Mask)
    (seg : List TEv) (hi : L.todo[i]? = some ⟨none, m⟩) (hs : (dispatchLoop P n L sc).segs[i]? = some seg) :
    seg = [] := by
  induction n generalizing L sc i with
  | zero => simp [dispatchLoop] at hs
  | succ n ih =>
    cases hL : L.todo with
    | nil => rw [hL] at hi; simp at hi
    | cons e rest =>
      rw [dispatchLoop_cons P n L sc e rest hL] at hs
      rw [hL] at hi
      cases i with
      | zero =>
        simp only [List.getElem?_cons_zero, Option.some.injEq] at hi
        subst hi
        split at hs <;> simp only [List.getElem?_cons_zero, Option.some.injEq] at hs <;>
          rw [← hs, entry_none _ _ _ _ rfl]
      | succ i =>
        simp only [List.getElem?_cons_succ] at hi
        split at hs
        · simp at hs
        · simp only [List.getElem?_cons_succ] at hs
          refine ih _ _ i ?_ hs
          rw [entry_todo]
          simp [hi, nullBy]

/-- The segment of array position `i`: nothing if the `io_event` was removed by an earlier
    position (then the entry was nulled), otherwise one run of `entry` on the original entry. -/
theorem dispatchLoop_at (P : Params) (hn : P.nulling = true) (n : Nat) (L : Loop) (sc : List Answer) (i x : Nat)
    (m : Mask) (seg : List TEv) (hi : L.todo[i]? = some ⟨some x, m⟩)
    (hs : (dispatchLoop P n L sc).segs[i]? = some seg) :
    (x ∈ removedIn ((dispatchLoop P n L sc).segs.take i).flatten ∧ seg = []) ∨
      (x ∉ removedIn ((dispatchLoop P n L sc).segs.take i).flatten ∧
        ∃ L' sc', seg = (entry P ⟨some x, m⟩ L' sc').seg) := by
  induction n generalizing L sc i with
  | zero => simp [dispatchLoop] at hs
  | succ n ih =>
    cases hL : L.todo with
    | nil => rw [hL] at hi; simp at hi
    | cons e rest =>
      rw [dispatchLoop_cons P n L sc e rest hL] at hs ⊢
      rw [hL] at hi
      cases i with
      | zero =>
        simp only [List.getElem?_cons_zero, Option.some.injEq] at hi
        subst hi
        right
        refine ⟨by simp [removedIn], ?_⟩
        split at hs <;> simp only [List.getElem?_cons_zero, Option.some.injEq] at hs <;>
          exact ⟨_, _, hs.symm⟩
      | succ i =>
        simp only [List.getElem?_cons_succ] at hi
        split at hs
        · simp at hs
        · rename_i hab
          simp only [hab]
          simp only [List.getElem?_cons_succ] at hs
          simp only [Bool.false_eq_true, if_false, List.take_succ_cons, List.flatten_cons, removedIn_append,
            List.mem_append]
          have htodo := entry_todo P e { L with done := L.done ++ [e], todo := rest } sc
          by_cases hx : x ∈ removedIn (entry P e { L with done := L.done ++ [e], todo := rest } sc).seg
          · left
            refine ⟨Or.inl hx, ?_⟩
            refine dispatchLoop_none_at P n _ _ i m seg ?_ hs
            rw [htodo]
            simp [hi, nullBy, hn, hx]
          · have hkeep : (entry P e { L with done := L.done ++ [e], todo := rest } sc).loop.todo[i]? =
                some ⟨some x, m⟩ := by
              rw [htodo]
              simp [hi, nullBy, hx]
            rcases ih _ _ i hkeep hs with h | h
            · exact Or.inl ⟨Or.inr h.1, h.2⟩
            · exact Or.inr ⟨fun hh => hh.elim hx h.1, h.2⟩


/-! ### `EL_ABORT_LOOP` -/

/-- `a` occurs in `l ++ a :: q'` only at that place when it occurs neither in `l` nor in `q'`. -/
theorem split_unique {α : Type} {a : α} {l q' p q : List α} (hl : a ∉ l) (hq : a ∉ q')
    (h : l ++ a :: q' = p ++ a :: q) : p = l ∧ q = q' := by
  induction l generalizing p with
  | nil =>
    cases p with
    | nil => simp at h; exact ⟨rfl, h.symm⟩
    | cons c p' =>
      simp only [List.nil_append, List.cons_append, List.cons.injEq] at h
      exact absurd (h.2 ▸ (by simp : a ∈ p' ++ a :: q)) hq
  | cons c l' ih =>
    cases p with
    | nil =>
      simp only [List.cons_append, List.nil_append, List.cons.injEq] at h
      exact absurd (by simp [h.1] : a ∈ c :: l') hl
    | cons d p' =>
      simp only [List.cons_append, List.cons.injEq] at h
      have := ih (fun hm => hl (by simp [hm])) h.2
      exact ⟨by rw [h.1, this.1], this.2⟩

theorem callback_ends (P : Params) (x : Nat) (f : Fn) (L : Loop) (sc : List Answer) :
    ∃ pre, (callback P x f L sc).trace = pre ++ [.ret (callback P x f L sc).ret] ∧ retsOf pre = [] := by
  refine ⟨.call x f :: ((runActs P (nextAnswer sc).1.acts L).2 ++ [.snap (callback P x f L sc).loop]), ?_, ?_⟩
  · rw [callback_trace]; simp
  · simp [retsOf, retsOf_append, retsOf_of_actEv (runActs_actEv P _ L)]

/-- A segment either holds no abort, or ends with the one abort it holds. -/
def AbortShape (t : List TEv) (aborted : Bool) : Prop :=
  (aborted = false → Ret.abort ∉ retsOf t) ∧
  (aborted = true → ∃ pre, t = pre ++ [.ret .abort] ∧ Ret.abort ∉ retsOf pre)

theorem callback_abortShape (P : Params) (x : Nat) (f : Fn) (L : Loop) (sc : List Answer) :
    AbortShape (callback P x f L sc).trace ((callback P x f L sc).ret == .abort) := by
  obtain ⟨pre, h1, h2⟩ := callback_ends P x f L sc
  constructor
  · intro hb
    rw [callback_rets]
    have : ¬ (callback P x f L sc).ret = .abort := by simpa using hb
    simp only [List.mem_singleton]
    exact fun h => this h.symm
  · intro hb
    have : (callback P x f L sc).ret = .abort := by simpa using hb
    exact ⟨pre, by rw [h1, this], by simp [h2]⟩

theorem abortShape_nil : AbortShape [] false := ⟨fun _ => by simp [retsOf], fun h => by cases h⟩

theorem abortShape_append {t1 t2 : List TEv} {b : Bool} (h1 : Ret.abort ∉ retsOf t1) (h2 : AbortShape t2 b) :
    AbortShape (t1 ++ t2) b := by
  constructor
  · intro hb; rw [retsOf_append]; simp [h1, h2.1 hb]
  · intro hb
    obtain ⟨pre, hp, hn⟩ := h2.2 hb
    exact ⟨t1 ++ pre, by rw [hp]; simp, by rw [retsOf_append]; simp [h1, hn]⟩

theorem writePart_abortShape (P : Params) (x : Nat) (m : Mask) (L : Loop) (sc : List Answer) :
    AbortShape (writePart P x m L sc).seg (writePart P x m L sc).abort := by
  unfold writePart
  split
  · split
    · exact callback_abortShape P x .write L sc
    · exact abortShape_nil
  · exact abortShape_nil

theorem entry_abortShape (P : Params) (e : Entry) (L : Loop) (sc : List Answer) :
    AbortShape (entry P e L sc).seg (entry P e L sc).abort := by
  unfold entry
  split
  · exact abortShape_nil
  · rename_i x _
    dsimp only
    split
    · exact callback_abortShape P x .error _ sc
    · split
      · have hc := callback_abortShape P x .read { L with current := some x } sc
        have hr := callback_rets P x .read { L with current := some x } sc
        split
        · rename_i hret; rw [hret] at hc; exact hc
        · rename_i hret; rw [hret] at hc; exact hc
        · rename_i hret
          dsimp only
          refine abortShape_append ?_ (writePart_abortShape ..)
          rw [hr, hret]; simp
      · exact writePart_abortShape ..

theorem dispatchLoop_abortShape (P : Params) (n : Nat) (L : Loop) (sc : List Answer) :
    AbortShape (dispatchLoop P n L sc).trace (dispatchLoop P n L sc).aborted := by
  induction n generalizing L sc with
  | zero => exact abortShape_nil
  | succ n ih =>
    cases hL : L.todo with
    | nil => rw [dispatchLoop_nil P _ L sc hL]; exact abortShape_nil
    | cons e rest =>
      rw [dispatchLoop_cons P n L sc e rest hL]
      have he := entry_abortShape P e { L with done := L.done ++ [e], todo := rest } sc
      split
      · rename_i hab
        rw [hab] at he
        simpa [DispRes.trace] using he
      · rename_i hab
        simp only [DispRes.trace, List.flatten_cons]
        exact abortShape_append (he.1 (by simpa using hab)) (ih _ _)

theorem abortShape_last {t : List TEv} {b : Bool} (h : AbortShape t b) (pre post : List TEv)
    (ht : t = pre ++ .ret .abort :: post) : post = [] ∧ b = true := by
  cases b with
  | false =>
    exfalso
    apply h.1 rfl
    rw [mem_retsOf, ht]; simp
  | true =>
    obtain ⟨p, hp, hn⟩ := h.2 rfl
    rw [hp] at ht
    have := split_unique (fun hm => hn (mem_retsOf.2 hm)) (by simp) ht
    exact ⟨this.2, rfl⟩

/-- `run`: either no callback ever answered abort, or the trace ends `…, ret abort, runRet (-1)`. -/
theorem run_abortShape (P : Params) (ws : List Wait) (L : Loop) (sc : List Answer) :
    (Ret.abort ∉ retsOf (run P ws L sc).trace) ∨
    (∃ pre, (run P ws L sc).trace = pre ++ [.ret .abort, .runRet (-1)] ∧ Ret.abort ∉ retsOf pre ∧
      (run P ws L sc).rc = -1) := by
  induction ws generalizing L sc with
  | nil => unfold run; split <;> simp [retsOf]
  | cons w ws ih =>
    unfold run
    split
    · simp [retsOf]
    · cases w with
      | eintr =>
        rcases ih L sc with h | ⟨pre, h1, h2, h3⟩
        · left; simpa [retsOf] using h
        · right; exact ⟨.eintr :: pre, by simp [h1], by simpa [retsOf] using h2, h3⟩
      | err => simp [retsOf]
      | batch ready =>
        dsimp only
        have hd : AbortShape (handleBatch P (harvest P L.reg ready) L sc).trace
            (handleBatch P (harvest P L.reg ready) L sc).aborted := by
          rw [handleBatch_trace, handleBatch_aborted]; exact dispatchLoop_abortShape ..
        split
        · rename_i hab
          right
          obtain ⟨pre, hp, hn⟩ := hd.2 hab
          refine ⟨.harvest (harvest P L.reg ready) :: pre, by simp [hp], by simpa [retsOf] using hn, rfl⟩
        · rename_i hab
          have hno := hd.1 (by simpa using hab)
          rcases ih (handleBatch P (harvest P L.reg ready) L sc).loop
              (handleBatch P (harvest P L.reg ready) L sc).script with h | ⟨pre, h1, h2, h3⟩
          · left; simp [retsOf, retsOf_append, hno, h]
          · right
            refine ⟨.harvest (harvest P L.reg ready) ::
              ((handleBatch P (harvest P L.reg ready) L sc).trace ++ pre), by simp [h1], ?_, h3⟩
            simp [retsOf, retsOf_append, hno, h2]

/-! ### the harvested array is withdrawn after every batch -/

theorem run_pending (P : Params) (ws : List Wait) (L : Loop) (sc : List Answer) (hd : L.done = []) (ht : L.todo = []) :
    (run P ws L sc).loop.done = [] ∧ (run P ws L sc).loop.todo = [] := by
  induction ws generalizing L sc with
  | nil => unfold run; split <;> exact ⟨hd, ht⟩
  | cons w ws ih =>
    unfold run
    split
    · exact ⟨hd, ht⟩
    · cases w with
      | eintr => exact ih L sc hd ht
      | err => exact ⟨hd, ht⟩
      | batch ready =>
        dsimp only
        split
        · exact ⟨rfl, rfl⟩
        · exact ih _ _ rfl rfl


/-! ### shapes of a segment -/

theorem prescribed_shapes (P : Params) (x : Nat) (m : Mask) :
    prescribed P x m ∈ [[], [(x, .error)], [(x, .read)], [(x, .write)], [(x, .read), (x, .write)]] := by
  unfold prescribed
  cases isErr m <;> cases (isIn m && P.hasRead x) <;> cases (isOut m && P.hasWrite x) <;> simp

theorem entry_shapes (P : Params) (e : Entry) (L : Loop) (sc : List Answer) (x : Nat) (h : e.ev = some x) :
    callsOf (entry P e L sc).seg ∈
      [[], [(x, .error)], [(x, .read)], [(x, .write)], [(x, .read), (x, .write)]] := by
  rcases entry_calls P e L sc x h with h1 | ⟨_, _, h1, _⟩
  · rw [h1]; exact prescribed_shapes P x e.mask
  · rw [h1]; simp

theorem entry_shapes' (P : Params) (e : Entry) (L : Loop) (sc : List Answer) :
    ∃ x, callsOf (entry P e L sc).seg ∈
      [[], [(x, .error)], [(x, .read)], [(x, .write)], [(x, .read), (x, .write)]] := by
  cases h : e.ev with
  | none => exact ⟨0, by rw [entry_none _ _ _ _ h]; simp [callsOf]⟩
  | some x => exact ⟨x, entry_shapes P e L sc x h⟩

/-! ### no `harvest` event inside a dispatch -/

theorem dispatchLoop_no_harvest (P : Params) (n : Nat) (L : Loop) (sc : List Answer) (b : List (Nat × Mask)) :
    TEv.harvest b ∉ (dispatchLoop P n L sc).trace := by
  have hcb : ∀ x f L sc, TEv.harvest b ∉ (callback P x f L sc).trace := by
    intro x f L sc
    rw [callback_trace]
    intro hm
    simp only [List.mem_cons, List.mem_append, reduceCtorEq, false_or, or_false, List.not_mem_nil] at hm
    exact runActs_actEv P _ L _ hm
  have hwp : ∀ x m L sc, TEv.harvest b ∉ (writePart P x m L sc).seg := by
    intro x m L sc
    unfold writePart
    split
    · split
      · exact hcb _ _ _ _
      · simp
    · simp
  have hen : ∀ e L sc, TEv.harvest b ∉ (entry P e L sc).seg := by
    intro e L sc
    unfold entry
    split
    · simp
    · dsimp only
      split
      · exact hcb _ _ _ _
      · split
        · split
          · exact hcb _ _ _ _
          · exact hcb _ _ _ _
          · dsimp only
            intro hm
            rcases List.mem_append.1 hm with hm | hm
            · exact hcb _ _ _ _ hm
            · exact hwp _ _ _ _ hm
        · exact hwp _ _ _ _
  induction n generalizing L sc with
  | zero => simp [dispatchLoop, DispRes.trace]
  | succ n ih =>
    cases hL : L.todo with
    | nil => rw [dispatchLoop_nil P _ L sc hL]; simp [DispRes.trace]
    | cons e rest =>
      rw [dispatchLoop_cons P n L sc e rest hL]
      split
      · simpa [DispRes.trace] using hen _ _ _
      · simp only [DispRes.trace, List.flatten_cons, List.mem_append, not_or]
        exact ⟨hen _ _ _, ih _ _⟩

/-! ### the error test, bit by bit -/

theorem errBits_table : ∀ i : Fin 32, (~~~(EPOLLIN ||| EPOLLOUT)).getLsbD i.val = decide (i.val ≠ 0 ∧ i.val ≠ 2) := by
  decide

theorem isErr_iff_bit (m : Mask) : isErr m = true ↔ ∃ i, i < 32 ∧ i ≠ 0 ∧ i ≠ 2 ∧ m.getLsbD i = true := by
  unfold isErr
  constructor
  · intro h
    apply Classical.byContradiction
    intro hne
    have : m &&& ~~~(EPOLLIN ||| EPOLLOUT) = 0#32 := by
      apply BitVec.eq_of_getLsbD_eq
      intro i hi
      rw [BitVec.getLsbD_and]
      have ht := errBits_table ⟨i, hi⟩
      simp only at ht
      rw [ht]
      cases hb : m.getLsbD i with
      | false => simp
      | true =>
        by_cases hc : i ≠ 0 ∧ i ≠ 2
        · exact absurd ⟨i, hi, hc.1, hc.2, hb⟩ hne
        · simp [hc]
    simp [this] at h
  · rintro ⟨i, hi, h0, h2, hb⟩
    have ht := errBits_table ⟨i, hi⟩
    simp only at ht
    have : (m &&& ~~~(EPOLLIN ||| EPOLLOUT)).getLsbD i = true := by
      rw [BitVec.getLsbD_and, ht, hb]; simp [h0, h2]
    simp only [bne_iff_ne, ne_eq]
    intro h0'
    rw [h0'] at this
    simp at this

end Cjet.Evloop
