import Cjet.Evloop
/-!
Helper lemmas for `Cjet.Props.Evloop` (the epoll dispatcher).
-/
namespace Cjet.Evloop

/-! ### trace readers over `++` -/

theorem callsOf_append (a b : List TEv) : callsOf (a ++ b) = callsOf a ++ callsOf b := by
  induction a with
  | nil => rfl
  | cons e t ih => cases e <;> simp [callsOf, ih]

theorem removedIn_append (a b : List TEv) : removedIn (a ++ b) = removedIn a ++ removedIn b := by
  induction a with
  | nil => rfl
  | cons e t ih => cases e <;> simp [removedIn, ih]

theorem retsOf_append (a b : List TEv) : retsOf (a ++ b) = retsOf a ++ retsOf b := by
  induction a with
  | nil => rfl
  | cons e t ih => cases e <;> simp [retsOf, ih]

theorem mem_removedIn {x : Nat} {t : List TEv} : x ∈ removedIn t ↔ TEv.removed x ∈ t := by
  induction t with
  | nil => simp [removedIn]
  | cons e t ih => cases e <;> simp [removedIn, ih]

theorem mem_callsOf {x : Nat} {f : Fn} {t : List TEv} : (x, f) ∈ callsOf t ↔ TEv.call x f ∈ t := by
  induction t with
  | nil => simp [callsOf]
  | cons e t ih => cases e <;> simp [callsOf, ih]

theorem mem_retsOf {r : Ret} {t : List TEv} : r ∈ retsOf t ↔ TEv.ret r ∈ t := by
  induction t with
  | nil => simp [retsOf]
  | cons e t ih => cases e <;> simp [retsOf, ih]

theorem statusAfter_append (x : Nat) (s : Status) (a b : List TEv) :
    statusAfter x s (a ++ b) = statusAfter x (statusAfter x s a) b := by
  simp [statusAfter, List.foldl_append]

@[simp] theorem statusAfter_nil (x : Nat) (s : Status) : statusAfter x s [] = s := rfl

@[simp] theorem statusAfter_cons (x : Nat) (s : Status) (e : TEv) (t : List TEv) :
    statusAfter x s (e :: t) = statusAfter x (stepStatus x s e) t := rfl

theorem monX_append (x : Nat) (s : Status) (a b : List TEv) :
    monX x s (a ++ b) ↔ monX x s a ∧ monX x (statusAfter x s a) b := by
  induction a generalizing s with
  | nil => simp [monX]
  | cons e t ih => simp [monX, ih, and_assoc]

/-- Events that are neither calls nor status changes. -/
def Quiet : TEv → Prop
  | .call _ _ => False
  | .removed _ => False
  | .added _ _ => False
  | .harvest _ => False
  | _ => True

theorem stepStatus_quiet {x : Nat} {s : Status} {e : TEv} (h : Quiet e) : stepStatus x s e = s := by
  cases e <;> simp_all [Quiet, stepStatus]

/-! ### the actions of a callback -/

/-- An action trace holds only `removed`, `added`, `stop`. -/
def ActEv : TEv → Prop
  | .removed _ => True
  | .added _ _ => True
  | .stop => True
  | _ => False

theorem runActs_actEv (P : Params) (acts : List Act) (L : Loop) :
    ∀ e ∈ (runActs P acts L).2, ActEv e := by
  induction acts generalizing L with
  | nil => simp [runActs]
  | cons a as ih =>
    cases a <;> simp only [runActs, List.mem_cons, forall_eq_or_imp] <;>
      exact ⟨trivial, ih _⟩

theorem callsOf_of_actEv {t : List TEv} (h : ∀ e ∈ t, ActEv e) : callsOf t = [] := by
  induction t with
  | nil => rfl
  | cons e t ih =>
    have he := h e (by simp)
    have ht := ih (fun e' h' => h e' (by simp [h']))
    cases e <;> simp_all [ActEv, callsOf]

theorem retsOf_of_actEv {t : List TEv} (h : ∀ e ∈ t, ActEv e) : retsOf t = [] := by
  induction t with
  | nil => rfl
  | cons e t ih =>
    have he := h e (by simp)
    have ht := ih (fun e' h' => h e' (by simp [h']))
    cases e <;> simp_all [ActEv, retsOf]

theorem monX_of_actEv {x : Nat} {t : List TEv} (h : ∀ e ∈ t, ActEv e) (s : Status) : monX x s t := by
  induction t generalizing s with
  | nil => trivial
  | cons e t ih =>
    have he := h e (by simp)
    refine ⟨?_, ih (fun e' h' => h e' (by simp [h'])) _⟩
    intro f hf; subst hf; exact he.elim


/-! ### closed form of what callbacks do to the harvested array and to `current_ev` -/

/-- An array entry after the ids `rs` have been removed. -/
def nullBy (nulling : Bool) (rs : List Nat) (e : Entry) : Entry :=
  match e.ev with
  | some x => if nulling && rs.contains x then ⟨none, e.mask⟩ else e
  | none => e

/-- `current_ev` after the ids `rs` have been removed. -/
def curBy (rs : List Nat) : Option Nat → Option Nat
  | some x => if rs.contains x then none else some x
  | none => none

theorem nullBy_nil (b : Bool) (e : Entry) : nullBy b [] e = e := by
  unfold nullBy; cases h : e.ev <;> simp

theorem nullBy_false (rs : List Nat) (e : Entry) : nullBy false rs e = e := by
  unfold nullBy; cases h : e.ev <;> simp

theorem map_nullBy_nil (b : Bool) (es : List Entry) : es.map (nullBy b []) = es := by
  conv => rhs; rw [← List.map_id es]
  exact List.map_congr_left (fun e _ => nullBy_nil b e)

theorem map_nullBy_false (rs : List Nat) (es : List Entry) : es.map (nullBy false rs) = es := by
  conv => rhs; rw [← List.map_id es]
  exact List.map_congr_left (fun e _ => nullBy_false rs e)

theorem curBy_nil (c : Option Nat) : curBy [] c = c := by
  cases c <;> simp [curBy]

theorem nullBy_mask (b : Bool) (rs : List Nat) (e : Entry) : (nullBy b rs e).mask = e.mask := by
  unfold nullBy; split
  · split <;> rfl
  · rfl

theorem nullBy_nullBy (b : Bool) (r1 r2 : List Nat) (e : Entry) :
    nullBy b r2 (nullBy b r1 e) = nullBy b (r1 ++ r2) e := by
  obtain ⟨ev, m⟩ := e
  cases ev with
  | none => simp [nullBy]
  | some x =>
    cases b
    · simp [nullBy]
    · by_cases h1 : x ∈ r1
      · simp [nullBy, h1]
      · by_cases h2 : x ∈ r2 <;> simp [nullBy, h1, h2]

theorem curBy_curBy (r1 r2 : List Nat) (c : Option Nat) : curBy r2 (curBy r1 c) = curBy (r1 ++ r2) c := by
  cases c with
  | none => simp [curBy]
  | some x =>
    by_cases h1 : x ∈ r1
    · simp [curBy, h1]
    · by_cases h2 : x ∈ r2 <;> simp [curBy, h1, h2]

theorem nullify_eq (x : Nat) (es : List Entry) : nullify x es = es.map (nullBy true [x]) := by
  unfold nullify
  apply List.map_congr_left
  intro e _
  obtain ⟨ev, m⟩ := e
  cases ev with
  | none => simp [nullBy]
  | some y => by_cases h : y = x <;> simp [nullBy, h]

theorem removeEv_todo (P : Params) (x : Nat) (L : Loop) :
    (removeEv P x L).todo = L.todo.map (nullBy P.nulling [x]) := by
  unfold removeEv
  cases h : P.nulling
  · simp [map_nullBy_false]
  · simp [nullify_eq]

theorem removeEv_current (P : Params) (x : Nat) (L : Loop) :
    (removeEv P x L).current = curBy [x] L.current := by
  unfold removeEv
  cases hc : L.current with
  | none => simp [curBy]
  | some y => by_cases h : y = x <;> simp [curBy, h]

theorem addEv_todo (x : Nat) (ok : Bool) (L : Loop) : (addEv x ok L).1.todo = L.todo := by
  unfold addEv; split <;> rfl

theorem addEv_current (x : Nat) (ok : Bool) (L : Loop) : (addEv x ok L).1.current = L.current := by
  unfold addEv; split <;> rfl

theorem runActs_todo (P : Params) (acts : List Act) (L : Loop) :
    (runActs P acts L).1.todo = L.todo.map (nullBy P.nulling (removedIn (runActs P acts L).2)) := by
  induction acts generalizing L with
  | nil => simp [runActs, removedIn, map_nullBy_nil]
  | cons a as ih =>
    cases a with
    | remove x =>
      simp only [runActs, removedIn]
      rw [ih, removeEv_todo, List.map_map]
      apply List.map_congr_left
      intro e _
      simp [nullBy_nullBy]
    | add x ok =>
      simp only [runActs, removedIn]
      rw [ih, addEv_todo]
    | stop =>
      simp only [runActs, removedIn]
      rw [ih]

theorem runActs_current (P : Params) (acts : List Act) (L : Loop) :
    (runActs P acts L).1.current = curBy (removedIn (runActs P acts L).2) L.current := by
  induction acts generalizing L with
  | nil => simp [runActs, removedIn, curBy_nil]
  | cons a as ih =>
    cases a with
    | remove x =>
      simp only [runActs, removedIn]
      rw [ih, removeEv_current, curBy_curBy]
      simp
    | add x ok =>
      simp only [runActs, removedIn]
      rw [ih, addEv_current]
    | stop =>
      simp only [runActs, removedIn]
      rw [ih]

/-! ### `callback` -/

theorem callback_trace (P : Params) (x : Nat) (f : Fn) (L : Loop) (sc : List Answer) :
    (callback P x f L sc).trace =
      .call x f :: ((runActs P (nextAnswer sc).1.acts L).2 ++
        [.snap (callback P x f L sc).loop, .ret (callback P x f L sc).ret]) := rfl

theorem callback_calls (P : Params) (x : Nat) (f : Fn) (L : Loop) (sc : List Answer) :
    callsOf (callback P x f L sc).trace = [(x, f)] := by
  rw [callback_trace]
  simp [callsOf, callsOf_append, callsOf_of_actEv (runActs_actEv P _ L)]

theorem callback_rets (P : Params) (x : Nat) (f : Fn) (L : Loop) (sc : List Answer) :
    retsOf (callback P x f L sc).trace = [(callback P x f L sc).ret] := by
  rw [callback_trace]
  simp [retsOf, retsOf_append, retsOf_of_actEv (runActs_actEv P _ L)]

theorem callback_removedIn (P : Params) (x : Nat) (f : Fn) (L : Loop) (sc : List Answer) :
    removedIn (callback P x f L sc).trace = removedIn (runActs P (nextAnswer sc).1.acts L).2 := by
  rw [callback_trace]
  simp [removedIn, removedIn_append]

theorem callback_todo (P : Params) (x : Nat) (f : Fn) (L : Loop) (sc : List Answer) :
    (callback P x f L sc).loop.todo =
      L.todo.map (nullBy P.nulling (removedIn (callback P x f L sc).trace)) := by
  rw [callback_removedIn]
  exact runActs_todo P _ L

theorem callback_current (P : Params) (x : Nat) (f : Fn) (L : Loop) (sc : List Answer) :
    (callback P x f L sc).loop.current = curBy (removedIn (callback P x f L sc).trace) L.current := by
  rw [callback_removedIn]
  exact runActs_current P _ L


/-! ### `writePart`, `entry` -/

theorem writePart_todo (P : Params) (x : Nat) (m : Mask) (L : Loop) (sc : List Answer) :
    (writePart P x m L sc).loop.todo =
      L.todo.map (nullBy P.nulling (removedIn (writePart P x m L sc).seg)) := by
  unfold writePart
  split
  · split
    · exact callback_todo P x .write L sc
    · simp [removedIn, map_nullBy_nil]
  · simp [removedIn, map_nullBy_nil]

theorem writePart_calls (P : Params) (x : Nat) (m : Mask) (L : Loop) (sc : List Answer) :
    callsOf (writePart P x m L sc).seg =
      if L.current.isSome && (isOut m && P.hasWrite x) then [(x, .write)] else [] := by
  unfold writePart
  by_cases h1 : L.current.isSome = true
  · by_cases h2 : (isOut m && P.hasWrite x) = true
    · simp only [h1, h2, if_true, Bool.and_self]; exact callback_calls P x .write L sc
    · simp [h1, h2, callsOf]
  · simp [h1, callsOf]

theorem writePart_rets (P : Params) (x : Nat) (m : Mask) (L : Loop) (sc : List Answer) :
    (retsOf (writePart P x m L sc).seg = [] ∧ (writePart P x m L sc).abort = false) ∨
    (∃ r, retsOf (writePart P x m L sc).seg = [r] ∧ (writePart P x m L sc).abort = (r == .abort)) := by
  unfold writePart
  split
  · split
    · exact Or.inr ⟨_, callback_rets P x .write L sc, rfl⟩
    · exact Or.inl ⟨rfl, rfl⟩
  · exact Or.inl ⟨rfl, rfl⟩

theorem entry_none (P : Params) (e : Entry) (L : Loop) (sc : List Answer) (h : e.ev = none) :
    entry P e L sc = ⟨L, sc, [], false⟩ := by
  unfold entry; simp [h]

theorem entry_todo (P : Params) (e : Entry) (L : Loop) (sc : List Answer) :
    (entry P e L sc).loop.todo = L.todo.map (nullBy P.nulling (removedIn (entry P e L sc).seg)) := by
  unfold entry
  split
  · simp [removedIn, map_nullBy_nil]
  · rename_i x _
    dsimp only
    split
    · exact callback_todo P x .error _ sc
    · split
      · split
        · exact callback_todo P x .read _ sc
        · exact callback_todo P x .read _ sc
        · dsimp only
          rw [writePart_todo, callback_todo, List.map_map, removedIn_append]
          apply List.map_congr_left
          intro e _
          simp [nullBy_nullBy]
      · exact writePart_todo P x e.mask _ sc

/-- The calls of one array entry: what the mask prescribes, cut short after the read function when
    that one did not return "continue" or removed the `io_event` itself. -/
theorem entry_calls (P : Params) (e : Entry) (L : Loop) (sc : List Answer) (x : Nat) (h : e.ev = some x) :
    callsOf (entry P e L sc).seg = prescribed P x e.mask ∨
    (isErr e.mask = false ∧ (isIn e.mask && P.hasRead x) = true ∧ callsOf (entry P e L sc).seg = [(x, .read)] ∧
      (retsOf (entry P e L sc).seg ≠ [.cont] ∨ x ∈ removedIn (entry P e L sc).seg)) := by
  unfold entry prescribed
  simp only [h]
  cases he : isErr e.mask with
  | true => simp only [if_true]; left; exact callback_calls P x .error _ sc
  | false =>
    simp only [Bool.false_eq_true, if_false]
    cases hr : (isIn e.mask && P.hasRead x) with
    | true =>
      simp only [if_true]
      generalize hc : callback P x Fn.read { L with current := some x } sc = c
      have hcalls : callsOf c.trace = [(x, .read)] := by rw [← hc]; exact callback_calls ..
      have hrets : retsOf c.trace = [c.ret] := by rw [← hc]; exact callback_rets ..
      have hcur : c.loop.current = curBy (removedIn c.trace) (some x) := by rw [← hc]; exact callback_current ..
      cases hret : c.ret with
      | abort =>
        right
        refine ⟨trivial, trivial, hcalls, Or.inl ?_⟩
        simp [hrets, hret]
      | removed =>
        right
        refine ⟨trivial, trivial, hcalls, Or.inl ?_⟩
        simp [hrets, hret]
      | cont =>
        dsimp only
        rw [callsOf_append, hcalls, writePart_calls]
        by_cases hx : x ∈ removedIn c.trace
        · right
          refine ⟨trivial, trivial, ?_, Or.inr ?_⟩
          · simp [hcur, curBy, hx]
          · rw [removedIn_append]; simp [hx]
        · left
          simp [hcur, curBy, hx]
    | false =>
      simp only [Bool.false_eq_true, if_false]
      left
      rw [writePart_calls]
      simp


/-! ### the status invariant: a removed `io_event` is out of reach of the dispatcher -/

/-- `x` is neither in the part of the array still to visit nor `current_ev`. -/
def Safe (x : Nat) (L : Loop) : Prop := (∀ e ∈ L.todo, e.ev ≠ some x) ∧ L.current ≠ some x

def Inv (x : Nat) (s : Status) (L : Loop) : Prop := (s = .dead → x ∉ L.reg) ∧ (s ≠ .ok → Safe x L)

theorem nullBy_ev_ne {x : Nat} {b : Bool} {rs : List Nat} {e : Entry} (h : e.ev ≠ some x) :
    (nullBy b rs e).ev ≠ some x := by
  unfold nullBy
  split
  · split
    · simp
    · exact h
  · exact h

theorem nullBy_ev_removed {x : Nat} {rs : List Nat} {e : Entry} (h : x ∈ rs) :
    (nullBy true rs e).ev ≠ some x := by
  unfold nullBy
  split
  · rename_i y hy
    by_cases hxy : y = x
    · subst hxy; simp [h]
    · split
      · simp
      · rw [hy]; simpa using hxy
  · rename_i hy; rw [hy]; simp

theorem curBy_ne {x : Nat} {rs : List Nat} {c : Option Nat} (h : c ≠ some x) : curBy rs c ≠ some x := by
  cases c with
  | none => simp [curBy]
  | some y =>
    by_cases hy : y ∈ rs
    · simp [curBy, hy]
    · simpa [curBy, hy] using h

theorem curBy_removed {x : Nat} {rs : List Nat} {c : Option Nat} (h : x ∈ rs) : curBy rs c ≠ some x := by
  cases c with
  | none => simp [curBy]
  | some y =>
    by_cases hxy : y = x
    · subst hxy; simp [curBy, h]
    · exact curBy_ne (by simpa using hxy)

theorem curBy_cases (rs : List Nat) (c : Option Nat) : curBy rs c = c ∨ curBy rs c = none := by
  cases c with
  | none => simp [curBy]
  | some y => by_cases hy : y ∈ rs <;> simp [curBy, hy]

theorem removeEv_reg (P : Params) (y : Nat) (L : Loop) : (removeEv P y L).reg = L.reg.filter (· != y) := rfl

theorem removeEv_inv (P : Params) (hn : P.nulling = true) (x y : Nat) (L : Loop) (s : Status)
    (h : Inv x s L) : Inv x (if y = x then .dead else s) (removeEv P y L) := by
  obtain ⟨hreg, hsafe⟩ := h
  by_cases hxy : y = x
  · subst hxy
    simp only [if_true]
    refine ⟨fun _ => ?_, fun _ => ⟨?_, ?_⟩⟩
    · rw [removeEv_reg]; simp
    · rw [removeEv_todo, hn]
      intro e' he'
      obtain ⟨e, _, rfl⟩ := List.mem_map.1 he'
      exact nullBy_ev_removed (by simp)
    · rw [removeEv_current]; exact curBy_removed (by simp)
  · simp only [hxy, if_false]
    refine ⟨fun hd => ?_, fun hs => ⟨?_, ?_⟩⟩
    · rw [removeEv_reg]; intro hm; exact hreg hd (List.mem_filter.1 hm).1
    · rw [removeEv_todo]
      intro e' he'
      obtain ⟨e, he, rfl⟩ := List.mem_map.1 he'
      exact nullBy_ev_ne ((hsafe hs).1 e he)
    · rw [removeEv_current]; exact curBy_ne (hsafe hs).2

theorem addEv_inv (x y : Nat) (ok : Bool) (L : Loop) (s : Status) (h : Inv x s L) :
    Inv x (stepStatus x s (.added y (addEv y ok L).2)) (addEv y ok L).1 := by
  obtain ⟨hreg, hsafe⟩ := h
  unfold addEv
  split
  · -- the kernel accepted
    simp only [stepStatus]
    by_cases hc : y = x ∧ True ∧ s = .dead
    · rw [if_pos hc]
      refine ⟨fun hd => (by cases hd), fun _ => ?_⟩
      exact hsafe (by rw [hc.2.2]; simp)
    · rw [if_neg hc]
      refine ⟨fun hd => ?_, fun hs => hsafe hs⟩
      have hyx : y ≠ x := fun e => hc ⟨e, trivial, hd⟩
      intro hm
      rcases List.mem_append.1 hm with hm | hm
      · exact hreg hd hm
      · simp at hm; exact hyx hm.symm
  · simp only [stepStatus]
    have : ¬ (y = x ∧ false = true ∧ s = .dead) := by simp
    rw [if_neg this]
    exact ⟨hreg, hsafe⟩

theorem runActs_inv (P : Params) (hn : P.nulling = true) (x : Nat) (acts : List Act) (L : Loop) (s : Status)
    (h : Inv x s L) : Inv x (statusAfter x s (runActs P acts L).2) (runActs P acts L).1 := by
  induction acts generalizing L s with
  | nil => simpa [runActs] using h
  | cons a as ih =>
    cases a with
    | remove y =>
      simp only [runActs, statusAfter_cons, stepStatus]
      exact ih _ _ (removeEv_inv P hn x y L s h)
    | add y ok =>
      simp only [runActs, statusAfter_cons]
      exact ih _ _ (addEv_inv x y ok L s h)
    | stop =>
      simp only [runActs, statusAfter_cons, stepStatus]
      exact ih _ _ h

theorem callback_inv (P : Params) (hn : P.nulling = true) (x x' : Nat) (f : Fn) (L : Loop) (sc : List Answer)
    (s : Status) (h : Inv x s L) (hx : x' = x → s = .ok) :
    monX x s (callback P x' f L sc).trace ∧
      Inv x (statusAfter x s (callback P x' f L sc).trace) (callback P x' f L sc).loop := by
  rw [callback_trace]
  have hact := runActs_actEv P (nextAnswer sc).1.acts L
  have hinv := runActs_inv P hn x (nextAnswer sc).1.acts L s h
  constructor
  · refine ⟨?_, ?_⟩
    · intro f' hf; injection hf with h1 _; exact hx h1
    · simp only [stepStatus]
      rw [monX_append]
      refine ⟨monX_of_actEv hact s, ?_⟩
      simp [monX]
  · simp only [statusAfter_cons, stepStatus, statusAfter_append, statusAfter_nil]
    exact hinv

theorem writePart_inv (P : Params) (hn : P.nulling = true) (x x' : Nat) (m : Mask) (L : Loop) (sc : List Answer)
    (s : Status) (h : Inv x s L) (hx : x' = x → L.current.isSome = true → s = .ok) :
    monX x s (writePart P x' m L sc).seg ∧
      Inv x (statusAfter x s (writePart P x' m L sc).seg) (writePart P x' m L sc).loop := by
  unfold writePart
  split
  · rename_i hc
    split
    · exact callback_inv P hn x x' .write L sc s h (fun e => hx e hc)
    · exact ⟨trivial, h⟩
  · exact ⟨trivial, h⟩

theorem entry_inv (P : Params) (hn : P.nulling = true) (x : Nat) (e : Entry) (L : Loop) (sc : List Answer)
    (s : Status) (h : Inv x s L) (hx : e.ev = some x → s = .ok) :
    monX x s (entry P e L sc).seg ∧ Inv x (statusAfter x s (entry P e L sc).seg) (entry P e L sc).loop := by
  unfold entry
  split
  · exact ⟨trivial, h⟩
  · rename_i x' he
    have hx' : x' = x → s = .ok := fun e' => hx (by rw [he, e'])
    have h1 : Inv x s { L with current := some x' } := by
      refine ⟨h.1, fun hs => ⟨(h.2 hs).1, ?_⟩⟩
      intro hc; injection hc with hc; exact hs (hx' hc)
    dsimp only
    split
    · exact callback_inv P hn x x' .error _ sc s h1 hx'
    · split
      · have hc := callback_inv P hn x x' .read { L with current := some x' } sc s h1 hx'
        have hcur := callback_current P x' .read { L with current := some x' } sc
        split
        · exact hc
        · exact hc
        · dsimp only
          rw [monX_append, statusAfter_append]
          have hw := writePart_inv P hn x x' e.mask _ (callback P x' .read { L with current := some x' } sc).script
            _ hc.2 (by
              intro hxx hsome
              apply Classical.byContradiction
              intro hs
              have hsafe := (hc.2.2 hs).2
              rcases curBy_cases (removedIn (callback P x' .read { L with current := some x' } sc).trace) (some x')
                with h2 | h2
              · rw [hcur, h2, hxx] at hsafe; exact hsafe rfl
              · rw [hcur, h2] at hsome; simp at hsome)
          exact ⟨⟨hc.1, hw.1⟩, hw.2⟩
      · exact writePart_inv P hn x x' e.mask _ sc s h1 (fun e' _ => hx' e')

/-! ### `dispatchLoop` -/

theorem dispatchLoop_nil (P : Params) (n : Nat) (L : Loop) (sc : List Answer) (h : L.todo = []) :
    dispatchLoop P n L sc = ⟨L, sc, [], false⟩ := by
  cases n <;> simp [dispatchLoop, h]

theorem dispatchLoop_cons (P : Params) (n : Nat) (L : Loop) (sc : List Answer) (e : Entry) (rest : List Entry)
    (h : L.todo = e :: rest) :
    dispatchLoop P (n + 1) L sc =
      if (entry P e { L with done := L.done ++ [e], todo := rest } sc).abort then
        ⟨(entry P e { L with done := L.done ++ [e], todo := rest } sc).loop,
         (entry P e { L with done := L.done ++ [e], todo := rest } sc).script,
         [(entry P e { L with done := L.done ++ [e], todo := rest } sc).seg], true⟩
      else
        ⟨(dispatchLoop P n (entry P e { L with done := L.done ++ [e], todo := rest } sc).loop
            (entry P e { L with done := L.done ++ [e], todo := rest } sc).script).loop,
         (dispatchLoop P n (entry P e { L with done := L.done ++ [e], todo := rest } sc).loop
            (entry P e { L with done := L.done ++ [e], todo := rest } sc).script).script,
         (entry P e { L with done := L.done ++ [e], todo := rest } sc).seg ::
           (dispatchLoop P n (entry P e { L with done := L.done ++ [e], todo := rest } sc).loop
            (entry P e { L with done := L.done ++ [e], todo := rest } sc).script).segs,
         (dispatchLoop P n (entry P e { L with done := L.done ++ [e], todo := rest } sc).loop
            (entry P e { L with done := L.done ++ [e], todo := rest } sc).script).aborted⟩ := by
  simp only [dispatchLoop, h]

theorem dispatchLoop_inv (P : Params) (hn : P.nulling = true) (x : Nat) (n : Nat) (L : Loop) (sc : List Answer)
    (s : Status) (h : Inv x s L) :
    monX x s (dispatchLoop P n L sc).trace ∧
      Inv x (statusAfter x s (dispatchLoop P n L sc).trace) (dispatchLoop P n L sc).loop := by
  induction n generalizing L sc s with
  | zero => exact ⟨trivial, h⟩
  | succ n ih =>
    cases hL : L.todo with
    | nil => rw [dispatchLoop_nil P _ L sc hL]; exact ⟨trivial, h⟩
    | cons e rest =>
      rw [dispatchLoop_cons P n L sc e rest hL]
      have h1 : Inv x s { L with done := L.done ++ [e], todo := rest } := by
        refine ⟨h.1, fun hs => ⟨fun e' he' => (h.2 hs).1 e' (by rw [hL]; simp [he']), (h.2 hs).2⟩⟩
      have hx : e.ev = some x → s = .ok := by
        intro he
        apply Classical.byContradiction
        intro hs
        exact (h.2 hs).1 e (by rw [hL]; simp) he
      have he := entry_inv P hn x e _ sc s h1 hx
      split
      · simpa [DispRes.trace] using he
      · have hd := ih _ (entry P e { L with done := L.done ++ [e], todo := rest } sc).script _ he.2
        simp only [DispRes.trace, List.flatten_cons] at hd ⊢
        rw [monX_append, statusAfter_append]
        exact ⟨⟨he.1, hd.1⟩, hd.2⟩

end Cjet.Evloop
