import Cjet.Lemmas.HoptableOps

/-! Helper lemmas for C17: sizes derived from the order, the hash functions' ranges, the empty
table, the association-list reference, and the refinement step for operation sequences. -/

set_option linter.unusedSectionVars false
set_option linter.unusedVariables false

namespace Cjet.Hoptable

open Cjet.Generated.Hoptable

/-! ### sizes -/

theorem tableSize_pos (order : Nat) : 0 < tableSize order := by
  unfold tableSize; rw [Nat.shiftLeft_eq, Nat.one_mul]; exact Nat.two_pow_pos _

theorem addRange_le (order : Nat) : addRange order ≤ tableSize order := by
  unfold addRange tableSize
  rw [Nat.shiftLeft_eq, Nat.shiftLeft_eq, Nat.one_mul, Nat.one_mul]
  apply Nat.pow_le_pow_right (by decide)
  have : tableSizeOrderSub ≤ addRangeOrderSub := by decide
  omega

theorem tableSize_eq (order : Nat) : tableSize order = 2 ^ order := by
  unfold tableSize
  have : tableSizeOrderSub = 0 := by decide
  rw [Nat.shiftLeft_eq, Nat.one_mul, this, Nat.sub_zero]

theorem addRange_eq (order : Nat) : addRange order = 2 ^ (order - 1) := by
  unfold addRange
  have : addRangeOrderSub = 1 := by decide
  rw [Nat.shiftLeft_eq, Nat.one_mul, this]

/-! ### ranges of the three hash functions (for `order ≤ 32`) -/

theorem shr_lt (order : Nat) (ho : order ≤ 32) (x : BitVec 32) :
    (x >>> (32 - order)).toNat < 2 ^ order := by
  rw [BitVec.toNat_ushiftRight, Nat.shiftRight_eq_div_pow]
  apply Nat.div_lt_of_lt_mul
  have h : 2 ^ (32 - order) * 2 ^ order = 2 ^ 32 := by
    rw [← Nat.pow_add]; congr 1; omega
  rw [h]
  exact x.isLt

theorem hsHash32_lt (order : Nat) (ho : order ≤ 32) (x : BitVec 32) :
    hsHash32 order x < tableSize order := by
  rw [tableSize_eq]
  unfold hsHash32
  have : h32Width = 32 := by decide
  simp only [this]
  exact shr_lt order ho _

theorem hsHash64_lt (order : Nat) (ho : order ≤ 32) (x : BitVec 64) :
    hsHash64 order x < tableSize order := by
  rw [tableSize_eq]
  unfold hsHash64
  have : h64Width = 32 := by decide
  simp only [this]
  exact shr_lt order ho _

theorem hashU32_lt (order : Nat) (ho : order ≤ 32) (k : Nat) : hashU32 order k < tableSize order :=
  hsHash32_lt order ho _

theorem hashU64_lt (order : Nat) (ho : order ≤ 32) (k : Nat) : hashU64 order k < tableSize order :=
  hsHash64_lt order ho _

theorem hashStr_lt (order : Nat) (ho : order ≤ 32) (k : Bytes) : hashStr order k < tableSize order :=
  hsHash32_lt order ho _

section
variable {K V : Type} [DecidableEq K] [Inhabited V]
variable {N : Nat} {hash : K → Nat}

/-! ### the empty table -/

theorem not_bit_empty (h d : Nat) : ¬ Bit (empty N : Table K V) h d := by
  unfold Bit; rw [slot_empty]; simp [pristine]

theorem wfs_empty : WFS N hash (empty N : Table K V) :=
  { size := size_empty N
    bits := fun h _ d _ hb => absurd hb (not_bit_empty h d)
    unique := fun p _ _ ⟨h, _, d, _, hb, _⟩ => absurd hb (not_bit_empty h d)
    nostale := fun p _ hk => by rw [slot_empty] at hk; simp [pristine] at hk }

theorem not_maps_empty (k : K) (v : V) : ¬ Maps N (empty N : Table K V) k v := by
  rintro ⟨h, _, d, _, hb, _⟩; exact not_bit_empty h d hb

/-! ### the association-list reference -/

theorem amGet_amPut (m : List (K × V)) (k k' : K) (v : V) :
    amGet (amPut m k v) k' = if k = k' then some v else amGet m k' := by
  simp [amPut, amGet]

theorem amGet_amDel (m : List (K × V)) (k k' : K) :
    amGet (amDel m k) k' = if k' = k then none else amGet m k' := by
  induction m with
  | nil => simp [amDel, amGet]
  | cons e m ih =>
    obtain ⟨k0, v0⟩ := e
    unfold amDel at ih ⊢
    simp only [List.filter_cons]
    by_cases h0 : k0 = k
    · subst h0
      simp only [ne_eq, not_true_eq_false, decide_false, Bool.false_eq_true, if_false]
      rw [ih]
      by_cases h1 : k' = k0
      · simp [h1]
      · have : ¬ k0 = k' := fun x => h1 x.symm
        simp [h1, amGet, this]
    · simp only [ne_eq, h0, not_false_eq_true, decide_true, if_true, amGet]
      by_cases h1 : k0 = k'
      · subst h1; simp [h0]
      · simp only [h1, if_false]; exact ih

/-- the table denotes the reference map -/
def Abs (N : Nat) (t : Table K V) (m : List (K × V)) : Prop :=
  ∀ k v, Maps N t k v ↔ amGet m k = some v

theorem abs_empty : Abs N (empty N : Table K V) [] := by
  intro k v
  constructor
  · intro m; exact absurd m (not_maps_empty k v)
  · intro h; simp [amGet] at h

theorem get_eq_of_abs (hN : 0 < N) {t : Table K V} (wf : WF N hash t) {m : List (K × V)}
    (abs : Abs N t m) {k : K} (hk : hash k < N) : get N hash t k = amGet m k := by
  apply Option.ext
  intro v
  rw [get_iff_maps' hN wf hk v, abs k v]

/-- one step of the refinement -/
theorem step_refines (hN : 0 < N) {A : Nat} (hAN : A ≤ N) (clr : Bool) (hhash : ∀ k, hash k < N)
    {t : Table K V} (wf : WF N hash t) {m : List (K × V)} (abs : Abs N t m) (op : Op K V)
    (fulls : List Bool) (ops : List (Op K V)) :
    let s := stepTable N A hash clr t op
    WF N hash s.2 ∧ (clr = true → NoStale N t → NoStale N s.2) ∧
      ∃ m', Abs N s.2 m' ∧
        runAssoc m (op :: ops) (s.1.isFull :: fulls) = s.1 :: runAssoc m' ops fulls := by
  intro s
  cases op with
  | get k =>
    refine ⟨wf, fun _ ns => ns, m, abs, ?_⟩
    simp only [s, stepTable, runAssoc, List.tail_cons]
    rw [get_eq_of_abs hN wf abs (hhash k)]
  | remove k =>
    obtain ⟨h1, h2, h3, h4, h5⟩ := remove_spec_full hN wf (hhash k)
    refine ⟨h1, fun _ => h2, amDel m k, ?_, ?_⟩
    · intro k' v'
      rw [amGet_amDel]
      by_cases e : k' = k
      · subst e
        simp only [if_true]
        constructor
        · intro mp; exact absurd mp (h4 v')
        · intro x; cases x
      · simp only [e, if_false]
        exact (h5 k' e v').trans (abs k' v')
    · simp only [s, stepTable, runAssoc, List.tail_cons]
      congr 2
      apply Option.ext
      intro v
      rw [← abs k v]
      exact (h3 v).symm
  | put k v =>
    obtain ⟨h1, h2, h3, h4, h5⟩ := put_spec hN hAN clr wf (hhash k) v
    have hget := get_eq_of_abs hN wf abs (hhash k)
    cases hrc : (put N A hash clr t k v).rc with
    | ok =>
      have hs : s = (.putOk (put N A hash clr t k v).prev, (put N A hash clr t k v).tab) := by
        simp only [s, stepTable, hrc]
      rw [hs]
      refine ⟨h1, h2, amPut m k v, ?_, ?_⟩
      · intro k' v'
        rw [h3 hrc k' v', amGet_amPut]
        by_cases e : k = k'
        · subst e
          rw [if_pos rfl]
          constructor
          · rintro (⟨_, hv⟩ | ⟨hne, _⟩)
            · rw [hv]
            · exact absurd rfl hne
          · intro e; injection e with e; exact Or.inl ⟨rfl, e.symm⟩
        · have e' : ¬ k' = k := fun x => e x.symm
          simp only [e, if_false]
          constructor
          · rintro (⟨hk, _⟩ | ⟨_, mp⟩)
            · exact absurd hk e'
            · exact (abs k' v').1 mp
          · intro x; exact Or.inr ⟨e', (abs k' v').2 x⟩
      · simp only [runAssoc, Out.isFull, List.headD_cons, Bool.false_and, Bool.false_eq_true, if_false,
          List.tail_cons]
        rw [h5, hget]
    | full =>
      have hs : s = (.putFull, (put N A hash clr t k v).tab) := by
        simp only [s, stepTable, hrc]
      rw [hs]
      obtain ⟨h4a, h4b⟩ := h4 hrc
      refine ⟨h1, h2, m, fun k' v' => (h4a k' v').trans (abs k' v'), ?_⟩
      have hnone : amGet m k = none := by
        cases hg : amGet m k with
        | none => rfl
        | some v0 => exact absurd ((abs k v0).2 hg) (h4b v0)
      simp [runAssoc, Out.isFull, hnone]

/-- any operation sequence: outputs agree with the reference, and the invariants are kept -/
theorem run_refines (hN : 0 < N) {A : Nat} (hAN : A ≤ N) (clr : Bool) (hhash : ∀ k, hash k < N) :
    ∀ (ops : List (Op K V)) (t : Table K V) (m : List (K × V)), WF N hash t → Abs N t m →
      let r := runTable N A hash clr t ops
      r.1 = runAssoc m ops (refusals r.1) ∧ WF N hash r.2 ∧
        (clr = true → NoStale N t → NoStale N r.2) := by
  intro ops
  induction ops with
  | nil => intro t m wf _; exact ⟨by simp [runTable, runAssoc], wf, fun _ ns => ns⟩
  | cons op ops ih =>
    intro t m wf abs
    simp only [runTable]
    obtain ⟨h1, h2, m', h3, h4⟩ := step_refines hN hAN clr hhash wf abs op
      (refusals (runTable N A hash clr (stepTable N A hash clr t op).2 ops).1) ops
    obtain ⟨i1, i2, i3⟩ := ih (stepTable N A hash clr t op).2 m' h1 h3
    refine ⟨?_, i2, fun hc ns => i3 hc (h2 hc ns)⟩
    simp only [refusals, List.map_cons] at h4 ⊢
    rw [h4]
    congr 1

end
end Cjet.Hoptable
