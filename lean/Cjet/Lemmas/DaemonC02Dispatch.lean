/-
  C02 helper lemmas, part 4: the dispatcher — `handleMethod`, `sendResponse`, `routingResponse`,
  `parseJsonRpc`.
-/
import Cjet.Lemmas.DaemonC02Route

namespace Cjet.Daemon.C02

open Cjet Cjet.Json Cjet.Daemon

theorem handleMethod_spec (cfg : Config) (x : Ctx) (p : Peer) (req : Json) (m : Bytes) :
    MethodSpec p.conn req x (handleMethod cfg x p req m) := by
  unfold handleMethod
  by_cases h_change : (m == k "change") = true
  · rw [if_pos h_change]; exact (changeState_ok ..).methodSpec
  rw [if_neg h_change]
  by_cases h_set : (m == k "set") = true
  · rw [if_pos h_set]; exact setOrCall_spec ..
  rw [if_neg h_set]
  by_cases h_call : (m == k "call") = true
  · rw [if_pos h_call]; exact setOrCall_spec ..
  rw [if_neg h_call]
  by_cases h_add : (m == k "add") = true
  · rw [if_pos h_add]; exact (addElement_ok ..).methodSpec
  rw [if_neg h_add]
  by_cases h_remove : (m == k "remove") = true
  · rw [if_pos h_remove]; exact (removeElementReq_ok ..).methodSpec
  rw [if_neg h_remove]
  by_cases h_fetch : (m == k "fetch") = true
  · rw [if_pos h_fetch]; exact (fetchReq_ok ..).methodSpec
  rw [if_neg h_fetch]
  by_cases h_unfetch : (m == k "unfetch") = true
  · rw [if_pos h_unfetch]; exact (unfetchReq_ok ..).methodSpec
  rw [if_neg h_unfetch]
  by_cases h_get : (m == k "get") = true
  · rw [if_pos h_get]; exact (getReq_ok ..).methodSpec
  rw [if_neg h_get]
  by_cases h_config : (m == k "config") = true
  · rw [if_pos h_config]; exact (configReq_ok ..).methodSpec
  rw [if_neg h_config]
  by_cases h_info : (m == k "info") = true
  · rw [if_pos h_info]; exact (infoReq_ok ..).methodSpec
  rw [if_neg h_info]
  by_cases h_authenticate : (m == k "authenticate") = true
  · rw [if_pos h_authenticate]; exact (authenticateReq_ok ..).methodSpec
  rw [if_neg h_authenticate]
  by_cases h_passwd : (m == k "passwd") = true
  · rw [if_pos h_passwd]; exact (passwdReq_ok ..).methodSpec
  rw [if_neg h_passwd]
  exact HandlerOK.methodSpec (by hok)

/-- What processing one request-like object (anything that is not a response object) does:
    `pre` are the observations of the handler, `fin` the response handed to `send_response`. -/
structure RequestSpec (c : Nat) (req : Json) (x : Ctx) (res : Ctx × Bool) : Prop where
  out : ∃ pre fin, res.1.out = fin ++ pre ++ x.out ∧ (∀ o ∈ pre, obsMethod o = true) ∧
    ((fin = [] ∧ res.2 = true ∧ (Answerable req → ∃ o ∈ pre, obsAccepted o = true)) ∨
     (∃ id resp b, fin = [.send c resp b] ∧ res.2 = b ∧ req.getItem (k "id") = some id ∧ idOk id = true ∧
        WellFormed id resp ∧ ∀ o ∈ pre, obsAccepted o = false)) ∧
    ((conns x.st.peers).Nodup →
      respCount (fin ++ pre) + pendingA res.1.st.peers ≤ pendingA x.st.peers + ansN req)
  routes : RouteStep c x.st.peers res.1.st.peers

theorem sendResponse_spec {c : Nat} {req : Json} {x : Ctx} {res : Ctx × Option Json}
    (h : MethodSpec c req x res) : RequestSpec c req x (sendResponse res.1 c res.2) := by
  obtain ⟨⟨pre, hout, hm, hsome, hnone⟩, hresp, hrt, hpend⟩ := h
  have hz := respCount_of_method hm
  cases hr : res.2 with
  | none =>
    simp only [sendResponse]
    refine ⟨⟨pre, [], by simpa using hout, hm, Or.inl ⟨rfl, rfl, hnone hr⟩, fun hn => ?_⟩, hrt⟩
    have := hpend hn
    simp only [hr, Option.isSome_none, Bool.false_eq_true, if_false] at this
    simp only [List.nil_append, hz]
    omega
  | some j =>
    simp only [sendResponse, send_eq]
    rcases hresp with hn | ⟨id, j', hid, hok, hj, hwf⟩
    · rw [hr] at hn; cases hn
    · rw [hr] at hj; cases hj
      refine ⟨⟨pre, [.send c j _], by simp [hout], hm, Or.inr ⟨id, j, _, rfl, rfl, hid, hok, hwf, ?_⟩,
        fun hn => ?_⟩, hrt⟩
      · exact hsome (by simp [hr])
      · have := hpend hn
        simp only [hr, Option.isSome_some, if_true] at this
        simp only [List.cons_append, List.nil_append, respCount, hz, hwf.isResponse, if_true]
        omega

/-- `parseJsonRpc` on an object with a "method" member, or with none of "method", "result", "error" -/
theorem parseJsonRpc_request (cfg : Config) (x : Ctx) (c : Nat) (p : Peer) (req : Json)
    (hp : findPeer x.st.peers c = some p)
    (hm : (req.getItem (k "method")).isSome = true ∨
      (req.getItem (k "result") = none ∧ req.getItem (k "error") = none)) :
    RequestSpec c req x (parseJsonRpc cfg x c req) := by
  have hc : p.conn = c := findPeer_conn hp
  unfold parseJsonRpc
  simp only [hp]
  split
  · rename_i m _
    have := sendResponse_spec (handleMethod_spec cfg x p req m)
    rw [hc] at this
    exact this
  · exact sendResponse_spec (res := (x, _)) (HandlerOK.methodSpec (by hok))
  · rename_i hnone
    rcases hm with hm | ⟨h1, h2⟩
    · simp [hnone] at hm
    · simp only [h1, h2]
      exact sendResponse_spec (res := (x, _)) (HandlerOK.methodSpec (by hok))

/-- `parseJsonRpc` on a response object is `routingResponse` -/
theorem parseJsonRpc_response (cfg : Config) (x : Ctx) (c : Nat) (p : Peer) (req : Json)
    (hp : findPeer x.st.peers c = some p) (hm : req.getItem (k "method") = none)
    (hre : (req.getItem (k "result")).isSome = true ∨ (req.getItem (k "error")).isSome = true) :
    ∃ typ payload, (typ = "result" ∨ typ = "error") ∧ req.getItem (k typ) = some payload ∧
      parseJsonRpc cfg x c req = routingResponse x p req payload typ := by
  unfold parseJsonRpc
  simp only [hp, hm]
  cases h1 : req.getItem (k "result") with
  | some res => exact ⟨"result", res, Or.inl rfl, h1, rfl⟩
  | none =>
    cases h2 : req.getItem (k "error") with
    | some err => exact ⟨"error", err, Or.inr rfl, h2, rfl⟩
    | none => simp [h1, h2] at hre

/-- What `handle_routing_response` does. -/
theorem routingResponse_spec (x : Ctx) (p : Peer) (msg payload : Json) (typ : String) :
    let res := routingResponse x p msg payload typ
    (res = (x, false) ∧ ∀ rid, msg.getItem (k "id") ≠ some (.str rid)) ∨
    (res.2 = true ∧ ∃ rid, msg.getItem (k "id") = some (.str rid) ∧
      ((res.1 = x ∧ p.routes.find? (·.rid == rid) = none) ∨
       ∃ r, p.routes.find? (·.rid == rid) = some r ∧
         res.1.st = { x.st with peers := removeRoute x.st.peers p.conn rid } ∧
         ((res.1.out = .timerDestroy r.timer :: x.out ∧ ∀ oid, r.originId = some oid → idOk oid = false) ∨
          ∃ oid, r.originId = some oid ∧ idOk oid = true ∧
            res.1.out = .send r.requester (.obj [(k "id", oid), (k typ, payload)]) (x.sends.headD true) ::
              .timerDestroy r.timer :: x.out))) := by
  intro res
  show _ ∨ _
  unfold res routingResponse
  split
  · rename_i rid hid
    refine Or.inr ?_
    split
    · rename_i hnf
      exact ⟨rfl, rid, hid, Or.inl ⟨rfl, hnf⟩⟩
    · rename_i r hf
      split
      · rename_i ho
        exact ⟨rfl, rid, hid, Or.inr ⟨r, hf, rfl, Or.inl ⟨rfl, by simp [ho]⟩⟩⟩
      · rename_i oid ho
        split
        · rename_i resp hresp
          obtain ⟨rfl, hok⟩ := resultResponse_eq hresp
          refine ⟨rfl, rid, hid, Or.inr ⟨r, hf, ?_, Or.inr ⟨oid, ho, hok, ?_⟩⟩⟩
          · simp [send', send_eq, emit]
          · simp [send', send_eq, emit]
        · rename_i hresp
          refine ⟨rfl, rid, hid, Or.inr ⟨r, hf, rfl, Or.inl ⟨rfl, ?_⟩⟩⟩
          intro oid' ho'
          rw [ho] at ho'; cases ho'
          cases hok : idOk oid with
          | false => rfl
          | true => simp [resultResponse_of_idOk hok] at hresp
  · rename_i hnot
    exact Or.inl ⟨rfl, fun rid h => hnot rid h⟩

end Cjet.Daemon.C02
