/-
  DaemonC08Handlers2 — the remaining request handlers: get, config, info, authenticate, passwd,
  unfetch, set/call, fetch.
-/
import Cjet.Lemmas.DaemonC08Handlers

namespace Cjet.Daemon.C08

open Cjet Cjet.Json Cjet.Daemon

/-! ## generic state updates -/

theorem PeerOK.transfer {cfg : Config} {ps ps' : List Peer} {fg : Nat} {fk : FetchKey} (h : PeerOK cfg ps fg fk)
    (ht : ∀ p, findPeer ps fk.peer = some p → fk.uid ∈ fuids p →
      ∃ p', findPeer ps' fk.peer = some p' ∧ fk.uid ∈ fuids p' ∧ p'.fetchGroups = p.fetchGroups) :
    PeerOK cfg ps' fg fk := by
  obtain ⟨p, h1, h2, h3⟩ := h
  obtain ⟨p', t1, t2, t3⟩ := ht p h1 h2
  exact ⟨p', t1, t2, t3 ▸ h3⟩

theorem keeps_routes_ite (c : Nat) (f : Peer → List Route) :
    Keeps (fun q : Peer => if q.conn == c then { q with routes := f q } else q) := Keeps.ite _ (keeps_routes _)

theorem routes_ite_sub (c : Nat) (f : Peer → List Route) (q : Peer) :
    ∀ e ∈ (if q.conn == c then { q with routes := f q } else q).elements, e ∈ q.elements := by
  intro e he
  split at he <;> exact he

theorem FInv.routes {cfg : Config} {s s' : State} (h : FInv cfg s) (c : Nat) (f : Peer → List Route)
    (hs : s'.peers = updatePeer s.peers c (fun q => { q with routes := f q })) : FInv cfg s' :=
  h.map_sub (keeps_routes_ite c f) (routes_ite_sub c f) hs

theorem AuthSame.routes {s s' : State} (c : Nat) (f : Peer → List Route) (hu : s'.users = s.users)
    (hs : s'.peers = updatePeer s.peers c (fun q => { q with routes := f q })) : AuthSame s s' :=
  AuthSame.of_map (keeps_routes_ite c f).1 hu hs

/-! ## get, config, info, passwd -/

theorem getReq_good {cfg : Config} {d : Option (Bytes × Nat)} {x : Ctx} {p : Peer} {req : Json}
    (h : FInv cfg x.st) : Good cfg d p.conn req x (getReq cfg x p req) := by
  unfold getReq
  split
  · exact Good.err h _ _ _
  · split
    · exact Good.err h _ _ _
    · exact Good.same h (fun _ hj => idFirst_resultFromRequest hj)

theorem configReq_good {cfg : Config} {d : Option (Bytes × Nat)} {x : Ctx} {p : Peer} {req : Json}
    (h : FInv cfg x.st) : Good cfg d p.conn req x (configReq x p req) := by
  unfold configReq
  split
  · exact Good.err h _ _ _
  · split
    · exact Good.succ h
    · have hk : Keeps (fun q : Peer => if q.conn == p.conn then { q with name := some ‹Bytes› } else q) :=
        Keeps.ite _ (keeps_name _)
      refine ⟨h.map_sub hk ?_ rfl, OutExt.refl _ _, fun _ hj => idFirst_successFromRequest hj,
        Or.inl (AuthSame.of_map hk.1 rfl rfl)⟩
      intro q e he
      split at he <;> exact he
    · exact Good.err h _ _ _

theorem infoReq_good {cfg : Config} {d : Option (Bytes × Nat)} {x : Ctx} {c : Nat} {req : Json}
    (h : FInv cfg x.st) : Good cfg d c req x (infoReq cfg x req) :=
  Good.same h (fun _ hj => idFirst_resultFromRequest hj)

theorem getCredentials_err {req : Json} {r : Option Json} (h : getCredentials req = .err r) :
    ∀ j, r = some j → idFirst j = true := by
  unfold getCredentials at h
  split at h
  · injection h with h; subst h; exact fun j hj => idFirst_errorFromRequest hj
  · split at h
    · injection h with h; subst h; exact fun j hj => idFirst_errorFromRequest hj
    · split at h
      · injection h with h; subst h; exact fun j hj => idFirst_errorFromRequest hj
      · cases h
      · injection h with h; subst h; exact fun j hj => idFirst_errorFromRequest hj
    · injection h with h; subst h; exact fun j hj => idFirst_errorFromRequest hj

theorem passwdReq_good {cfg : Config} {d : Option (Bytes × Nat)} {x : Ctx} {p : Peer} {req : Json}
    (h : FInv cfg x.st) : Good cfg d p.conn req x (passwdReq x p req) := by
  unfold passwdReq
  cases hc : getCredentials req with
  | err r => exact Good.same h (getCredentials_err hc)
  | ok u pw =>
    simp only
    cases hpu : p.user with
    | none => exact Good.err h _ _ _
    | some me =>
      simp only
      cases hfu : findUser x.st.users u with
      | none => exact Good.err h _ _ _
      | some target =>
        simp only
        cases hme : findUser x.st.users me <;> simp only <;> split <;>
          first
          | exact Good.err h _ _ _
          | exact ⟨h.of_peers_eq rfl, OutExt.refl _ _, fun _ hj => idFirst_successFromRequest hj,
              Or.inr (Or.inr ⟨target.name, pw, rfl, rfl⟩)⟩

/-! ## authenticate -/

theorem authUpd_conn (cfg : Config) (auth : Json) (u : Bytes) (c : Nat) (q : Peer) :
    (if q.conn == c then authUpd cfg auth u q else q).conn = q.conn := by
  split <;> rfl

theorem authenticateReq_good {cfg : Config} {d : Option (Bytes × Nat)} {x : Ctx} {p : Peer} {req : Json}
    (h : FInv cfg x.st) (hp : findPeer x.st.peers p.conn = some p) :
    Good cfg d p.conn req x (authenticateReq cfg x p req) := by
  unfold authenticateReq
  cases hc : getCredentials req with
  | err r => exact Good.same h (getCredentials_err hc)
  | ok u pw =>
    simp only
    split
    · exact Good.err h _ _ _
    · rename_i hfe
      cases hb : (findUser x.st.users u).bind (fun usr => if usr.password == pw then usr.auth else none) with
      | none => exact Good.err h _ _ _
      | some auth =>
        simp only
        obtain ⟨usr, hu, hif⟩ := Option.bind_eq_some_iff.mp hb
        have hpw : usr.password = pw ∧ usr.auth = some auth := by
          split at hif
          · rename_i hpw; exact ⟨by simpa using hpw, hif⟩
          · cases hif
        refine ⟨⟨?_, ?_⟩, OutExt.refl _ _, fun _ hj => idFirst_successFromRequest hj,
          Or.inr (Or.inl ⟨u, pw, usr, auth, hc, hu, hpw.1, hpw.2, rfl, rfl⟩)⟩
        · show ((updatePeer x.st.peers p.conn (authUpd cfg auth u)).map (·.conn)).Nodup
          rw [updatePeer_eq_map, List.map_map]
          have : (List.map ((fun q : Peer => q.conn) ∘ fun q : Peer => if q.conn == p.conn then authUpd cfg auth u q else q) x.st.peers)
              = x.st.peers.map (·.conn) := List.map_congr_left (fun q _ => authUpd_conn cfg auth u p.conn q)
          rw [this]; exact h.nodup
        · intro o ho e he fk hfk
          show PeerOK cfg (updatePeer x.st.peers p.conn (authUpd cfg auth u)) e.fetchGroups fk
          change o ∈ updatePeer x.st.peers p.conn (authUpd cfg auth u) at ho
          rw [updatePeer_eq_map] at ho ⊢
          obtain ⟨o0, ho0, rfl⟩ := List.mem_map.mp ho
          have he0 : e ∈ o0.elements := by split at he <;> exact he
          refine (h.fetchers o0 ho0 e he0 fk hfk).transfer ?_
          intro q hq huid
          rw [findPeer_map (authUpd_conn cfg auth u p.conn), hq]
          by_cases hqc : (q.conn == p.conn) = true
          · exfalso
            have : fk.peer = p.conn := by
              have := findPeer_conn hq
              rw [← this]; simpa using hqc
            rw [this, hp] at hq
            cases hq
            have : p.fetches = [] := by simpa using hfe
            simp [fuids, this] at huid
          · refine ⟨q, ?_, huid, rfl⟩
            simp only [Option.map_some, hqc]
            rfl

/-! ## unfetch -/

theorem removeFetcher_mem {tbl : List (Option FetchKey)} {fk0 fk : FetchKey} (h : some fk ∈ removeFetcher tbl fk0) :
    some fk ∈ tbl ∧ fk ≠ fk0 := by
  unfold removeFetcher at h
  obtain ⟨s, hs, he⟩ := List.mem_map.mp h
  split at he
  · cases he
  · rename_i hne
    subst he
    refine ⟨hs, ?_⟩
    intro h; subst h
    simp at hne

def dropG (fk0 : FetchKey) (q : Peer) : Peer :=
  if q.conn == fk0.peer then
    { q with elements := q.elements.map (fun e => { e with fetchers := removeFetcher e.fetchers fk0 }),
             fetches := q.fetches.filter (fun f => f.uid != fk0.uid) }
  else { q with elements := q.elements.map (fun e => { e with fetchers := removeFetcher e.fetchers fk0 }) }

theorem dropFetch_eq (ps : List Peer) (fk0 : FetchKey) : dropFetch ps fk0 = ps.map (dropG fk0) := by
  unfold dropFetch
  rw [updatePeer_eq_map, mapElements_eq_map, List.map_map]
  apply List.map_congr_left
  intro q _
  simp only [Function.comp, dropG]

theorem dropG_keepsA (fk0 : FetchKey) : KeepsA (dropG fk0) := by
  intro q
  unfold dropG
  split <;> exact ⟨rfl, rfl, rfl, rfl, rfl⟩

theorem dropG_elements (fk0 : FetchKey) (q : Peer) :
    (dropG fk0 q).elements = q.elements.map (fun e => { e with fetchers := removeFetcher e.fetchers fk0 }) := by
  unfold dropG
  split <;> rfl

theorem dropG_fuids (fk0 : FetchKey) (q : Peer) (u : Nat) (hu : u ∈ fuids q) (hne : q.conn = fk0.peer → u ≠ fk0.uid) :
    u ∈ fuids (dropG fk0 q) := by
  unfold dropG
  split
  · rename_i hc
    have hc' : q.conn = fk0.peer := by simpa using hc
    unfold fuids at hu ⊢
    obtain ⟨f, hf, rfl⟩ := List.mem_map.mp hu
    refine List.mem_map.mpr ⟨f, ?_, rfl⟩
    simp only [List.mem_filter]
    exact ⟨hf, by simpa using hne hc'⟩
  · exact hu

theorem FInv.dropFetch {cfg : Config} {s s' : State} (h : FInv cfg s) (fk0 : FetchKey)
    (hs : s'.peers = dropFetch s.peers fk0) : FInv cfg s' := by
  rw [dropFetch_eq] at hs
  constructor
  · rw [hs, map_conn_of_keepsA (dropG_keepsA fk0)]; exact h.nodup
  · intro o ho e he fk hfk
    rw [hs] at ho ⊢
    obtain ⟨o0, ho0, rfl⟩ := List.mem_map.mp ho
    rw [dropG_elements] at he
    obtain ⟨e0, he0, rfl⟩ := List.mem_map.mp he
    obtain ⟨hmem, hne⟩ := removeFetcher_mem hfk
    refine (h.fetchers o0 ho0 e0 he0 fk hmem).transfer ?_
    intro q hq huid
    refine ⟨dropG fk0 q, ?_, ?_, (dropG_keepsA fk0 q).2.2.1⟩
    · rw [findPeer_map (dropG_keepsA fk0).conn, hq]; rfl
    · apply dropG_fuids fk0 q _ huid
      intro hc hu
      apply hne
      have := findPeer_conn hq
      cases fk; cases fk0
      simp_all

theorem unfetchReq_good {cfg : Config} {d : Option (Bytes × Nat)} {x : Ctx} {p : Peer} {req : Json}
    (h : FInv cfg x.st) : Good cfg d p.conn req x (unfetchReq x p req) := by
  unfold unfetchReq
  cases hg : getFetchId req false with
  | err r =>
    refine Good.same h ?_
    unfold getFetchId at hg
    split at hg
    · injection hg with hg; subst hg; exact fun j hj => idFirst_errorFromRequest hj
    · split at hg
      · injection hg with hg; subst hg; exact fun j hj => idFirst_errorFromRequest hj
      · split at hg
        · injection hg with hg; subst hg; exact fun j hj => idFirst_errorFromRequest hj
        · cases hg
        · cases hg
        · injection hg with hg; subst hg; exact fun j hj => idFirst_errorFromRequest hj
  | ok params fid =>
    simp only
    split
    · exact Good.err h _ _ _
    · rename_i f _
      refine ⟨h.dropFetch ⟨p.conn, f.uid⟩ rfl, OutExt.refl _ _, fun _ hj => idFirst_successFromRequest hj, Or.inl ?_⟩
      refine AuthSame.of_map (dropG_keepsA ⟨p.conn, f.uid⟩) rfl ?_
      exact dropFetch_eq _ _

/-! ## set / call -/

theorem FInv.removeRoute {cfg : Config} {s s' : State} (h : FInv cfg s) (owner : Nat) (rid : Bytes)
    (hs : s'.peers = removeRoute s.peers owner rid) : FInv cfg s' :=
  h.routes owner _ hs

theorem route_tail_good {cfg : Config} {d : Option (Bytes × Nat)} {x : Ctx} {p : Peer} {req : Json}
    (h : FInv cfg x.st) (params : Json) (path : Bytes) (e : Element) (isState : Bool) (originId : Option Json)
    (value : Option Json) :
    Good cfg d p.conn req x
      (let rid := routedId originId x.st.uuid p.addrTok
       let x := { x with st := { x.st with uuid := (x.st.uuid + 1) % 4294967296 } }
       if isState && value.isNone then
         (x, errorFromRequest req INVALID_PARAMS "reason" (k "no value found"))
       else
         match getTimeout cfg (params.getItem (k "timeout")) e.timeoutNs with
         | .err reason => (x, errorFromRequest req INVALID_PARAMS "reason" (k reason))
         | .ns tns =>
           let t := x.st.nextTimer
           let x := { x with st := { x.st with nextTimer := t + 1 } }
           if x.routeFull then
             ({ emit x (.timerDestroy t) with routeFull := false },
              errorFromRequest req INTERNAL_ERROR "reason" (k "routing table full"))
           else
             let r : Route := { rid := rid, requester := p.conn, owner := e.owner, originId := originId, timer := t }
             let st := { x.st with peers := updatePeer x.st.peers e.owner (fun q => { q with routes := q.routes ++ [r] }) }
             let x := emit { x with st := st } (.timerArm t tns)
             let (x, ok) := send x e.owner (routedMessage rid path isState value)
             if ok then (x, none)
             else
               let x := emit { x with st := { x.st with peers := removeRoute x.st.peers e.owner rid } } (.timerDestroy t)
               (x, errorFromRequest req INTERNAL_ERROR "reason" (k "could not send routing information"))) := by
  simp only
  split
  · exact ⟨h.of_peers_eq rfl, OutExt.refl _ _, fun _ hj => idFirst_errorFromRequest hj, Or.inl (AuthSame.of_eq rfl rfl)⟩
  · cases hto : getTimeout cfg (params.getItem (k "timeout")) e.timeoutNs with
    | err reason =>
      exact ⟨h.of_peers_eq rfl, OutExt.refl _ _, fun _ hj => idFirst_errorFromRequest hj, Or.inl (AuthSame.of_eq rfl rfl)⟩
    | ns tns =>
      simp only
      split
      · exact ⟨h.of_peers_eq rfl, ⟨[_], rfl, by simp [J]⟩, fun _ hj => idFirst_errorFromRequest hj,
          Or.inl (AuthSame.of_eq rfl rfl)⟩
      · generalize hm' : routedMessage _ path isState value = m
        have hm : idFirst m = true := hm' ▸ idFirst_routedMessage _ path isState value
        generalize hX : emit _ (Obs.timerArm _ tns) = X
        have hXst : ∃ f : Peer → List Route, X.st.peers = updatePeer x.st.peers e.owner (fun q => { q with routes := f q }) ∧
            X.st.users = x.st.users := by
          rw [← hX]; exact ⟨_, rfl, rfl⟩
        have hXout : OutExt (J cfg x.st d) x X := by
          rw [← hX]; exact ⟨[_], rfl, by simp [J]⟩
        generalize hsend : send X e.owner m = r
        have hst : r.1.st = X.st := by rw [← hsend, send_st]
        have hout : OutExt (J cfg x.st d) X r.1 := by
          rw [← hsend]; exact OutExt.send X _ _ (fun ok => J_idFirst hm ok)
        obtain ⟨fr, hp1, hu1⟩ := hXst
        obtain ⟨x2, ok⟩ := r
        simp only at hst hout ⊢
        have hinv2 : FInv cfg x2.st := h.routes e.owner fr (by rw [hst]; exact hp1)
        have hauth2 : AuthSame x.st x2.st := AuthSame.routes e.owner fr (by rw [hst]; exact hu1) (by rw [hst]; exact hp1)
        cases ok
        · simp only [Bool.false_eq_true, if_false]
          refine ⟨hinv2.removeRoute e.owner _ rfl, (hXout.trans hout).trans ⟨[_], rfl, by simp [J]⟩,
            fun _ hj => idFirst_errorFromRequest hj, Or.inl ?_⟩
          exact hauth2.trans (AuthSame.routes e.owner _ rfl rfl)
        · simp only [if_true]
          exact ⟨hinv2, hXout.trans hout, (fun _ hj => by cases hj), Or.inl hauth2⟩

theorem setOrCall_good {cfg : Config} {d : Option (Bytes × Nat)} {x : Ctx} {p : Peer} {req : Json} {isState : Bool}
    (h : FInv cfg x.st) : Good cfg d p.conn req x (setOrCall cfg x p req isState) := by
  unfold setOrCall
  cases hgp : getParamsAndPath req with
  | err r => exact Good.same h (getParamsAndPath_err hgp)
  | ok params path =>
    simp only
    cases he : findElement x.st path with
    | none => exact Good.err h _ _ _
    | some e =>
      simp only
      generalize (if isState then hasAccess cfg e.setGroups p.setGroups else hasAccess cfg e.callGroups p.callGroups) = acc
      split
      · exact Good.err h _ _ _
      · split
        · exact Good.err h _ _ _
        · split
          · exact Good.err h _ _ _
          · split
            · exact route_tail_good h params path e isState _ _
            · exact route_tail_good h params path e isState _ _
            · exact route_tail_good h params path e isState _ _
            · exact Good.err h _ _ _

end Cjet.Daemon.C08
