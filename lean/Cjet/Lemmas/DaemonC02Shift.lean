/-
  C02 helper lemmas, part 7: no model function reads `Ctx.out`; processing with some earlier
  output `pre` already recorded gives the same result with `pre` underneath (`shift`).
  This is what allows a batch to be compared with separate messages at the level of `step`.
-/
import Cjet.Daemon.Model

namespace Cjet.Daemon.C02

open Cjet Cjet.Json Cjet.Daemon

/-- put `pre` underneath the recorded output -/
def shift (pre : List Obs) (x : Ctx) : Ctx := { x with out := x.out ++ pre }

def shift2 {β : Type} (pre : List Obs) (r : Ctx × β) : Ctx × β := (shift pre r.1, r.2)

@[simp] theorem shift_st (pre : List Obs) (x : Ctx) : (shift pre x).st = x.st := rfl
@[simp] theorem shift_sends (pre : List Obs) (x : Ctx) : (shift pre x).sends = x.sends := rfl
@[simp] theorem shift_indexFull (pre : List Obs) (x : Ctx) : (shift pre x).indexFull = x.indexFull := rfl
@[simp] theorem shift_routeFull (pre : List Obs) (x : Ctx) : (shift pre x).routeFull = x.routeFull := rfl
@[simp] theorem shift_out (pre : List Obs) (x : Ctx) : (shift pre x).out = x.out ++ pre := rfl
@[simp] theorem shift2_fst {β : Type} (pre : List Obs) (r : Ctx × β) : (shift2 pre r).1 = shift pre r.1 := rfl
@[simp] theorem shift2_snd {β : Type} (pre : List Obs) (r : Ctx × β) : (shift2 pre r).2 = r.2 := rfl
theorem shift2_mk {β : Type} (pre : List Obs) (x : Ctx) (b : β) : shift2 pre (x, b) = (shift pre x, b) := rfl

/-- record updates that do not touch `out` commute with `shift` -/
theorem shift_setSt (pre : List Obs) (x : Ctx) (st : State) :
    { shift pre x with st := st } = shift pre { x with st := st } := rfl

theorem foldl_shift {α : Type} (pre : List Obs) (f : Ctx → α → Ctx) (l : List α)
    (hf : ∀ x a, a ∈ l → f (shift pre x) a = shift pre (f x a)) (x : Ctx) :
    l.foldl f (shift pre x) = shift pre (l.foldl f x) := by
  induction l generalizing x with
  | nil => rfl
  | cons a t ih =>
    simp only [List.foldl_cons]
    rw [hf x a (List.mem_cons_self ..)]
    exact ih (fun x b hb => hf x b (List.mem_cons_of_mem _ hb)) _

theorem foldl_shift2 {α β : Type} (pre : List Obs) (f : Ctx × β → α → Ctx × β) (l : List α)
    (hf : ∀ acc a, a ∈ l → f (shift2 pre acc) a = shift2 pre (f acc a)) (acc : Ctx × β) :
    l.foldl f (shift2 pre acc) = shift2 pre (l.foldl f acc) := by
  induction l generalizing acc with
  | nil => rfl
  | cons a t ih =>
    simp only [List.foldl_cons]
    rw [hf acc a (List.mem_cons_self ..)]
    exact ih (fun acc b hb => hf acc b (List.mem_cons_of_mem _ hb)) _

theorem send_shift (pre : List Obs) (x : Ctx) (c : Nat) (j : Json) :
    send (shift pre x) c j = shift2 pre (send x c j) := by
  unfold send
  simp only [shift_sends]
  split <;> rfl

theorem send'_shift (pre : List Obs) (x : Ctx) (c : Nat) (j : Json) :
    send' (shift pre x) c j = shift pre (send' x c j) := by
  unfold send'
  rw [send_shift]; rfl

theorem emit_shift (pre : List Obs) (x : Ctx) (o : Obs) : emit (shift pre x) o = shift pre (emit x o) := rfl

theorem notifyOne_shift (pre : List Obs) (x : Ctx) (e : Element) (fk : FetchKey) (event : String) :
    notifyOne (shift pre x) e fk event = shift pre (notifyOne x e fk event) := by
  unfold notifyOne
  simp only [shift_st]
  split
  · exact send'_shift ..
  · rfl

theorem notifyFetchers_shift (pre : List Obs) (x : Ctx) (e : Element) (event : String) :
    notifyFetchers (shift pre x) e event = shift pre (notifyFetchers x e event) := by
  unfold notifyFetchers
  apply foldl_shift
  intro x s _
  split
  · exact notifyOne_shift ..
  · rfl

theorem offerElement_shift (cfg : Config) (pre : List Obs) (x : Ctx) (e : Element) (fp : Peer) (f : Fetch) :
    offerElement cfg (shift pre x) e fp f = shift2 pre (offerElement cfg x e fp f) := by
  unfold offerElement
  split
  · rfl
  · split
    · simp only [send'_shift]; rfl
    · rfl

theorem findFetchersForElement_shift (cfg : Config) (pre : List Obs) (x : Ctx) (e : Element) :
    findFetchersForElement cfg (shift pre x) e = shift2 pre (findFetchersForElement cfg x e) := by
  unfold findFetchersForElement
  simp only [shift_st]
  apply foldl_shift2 (acc := (x, e))
  intro acc fp _
  apply foldl_shift2
  intro acc f _
  exact offerElement_shift ..

theorem removeElement_shift (pre : List Obs) (x : Ctx) (e : Element) :
    removeElement (shift pre x) e = shift pre (removeElement x e) := by
  unfold removeElement
  simp only [notifyFetchers_shift]
  rfl

theorem shift_mk (pre : List Obs) (x : Ctx) (st : State) (s : List Bool) (i r : Bool) :
    ({ st := st, out := (shift pre x).out, sends := s, indexFull := i, routeFull := r } : Ctx) =
      shift pre { st := st, out := x.out, sends := s, indexFull := i, routeFull := r } := rfl

macro "shift_tac" : tactic => `(tactic|
  repeat' (first | rfl | (simp only [shift_setSt, shift_mk, notifyFetchers_shift, shift_st, shift_sends,
    shift_indexFull, shift_routeFull, findFetchersForElement_shift, send_shift, send'_shift, emit_shift,
    shift2, removeElement_shift]) | split | contradiction))

theorem changeState_shift (pre : List Obs) (x : Ctx) (p : Peer) (req : Json) :
    changeState (shift pre x) p req = shift2 pre (changeState x p req) := by
  unfold changeState
  shift_tac

theorem addElement_shift (cfg : Config) (pre : List Obs) (x : Ctx) (p : Peer) (req : Json) :
    addElement cfg (shift pre x) p req = shift2 pre (addElement cfg x p req) := by
  unfold addElement
  shift_tac

theorem removeElementReq_shift (pre : List Obs) (x : Ctx) (p : Peer) (req : Json) :
    removeElementReq (shift pre x) p req = shift2 pre (removeElementReq x p req) := by
  unfold removeElementReq
  shift_tac

theorem setOrCall_shift (cfg : Config) (pre : List Obs) (x : Ctx) (p : Peer) (req : Json) (isState : Bool) :
    setOrCall cfg (shift pre x) p req isState = shift2 pre (setOrCall cfg x p req isState) := by
  unfold setOrCall
  cases isState
  · simp only [↓reduceIte, Bool.false_eq_true, Bool.false_and]
    shift_tac
  · simp only [↓reduceIte, Bool.true_and, Bool.true_bne]
    shift_tac
    all_goals
      cases h1 : (‹Element›).fetchOnly <;> simp only [↓reduceIte, Bool.false_eq_true] <;> try rfl
    all_goals
      cases h2 : (‹Element›).value.isSome <;>
        simp only [↓reduceIte, Bool.false_eq_true, Bool.not_true, Bool.not_false] <;> try rfl
    all_goals
      cases h3 : hasAccess cfg (‹Element›).setGroups p.setGroups <;>
        simp only [↓reduceIte, Bool.false_eq_true, Bool.not_true, Bool.not_false] <;> try rfl
    all_goals shift_tac

theorem routingResponse_shift (pre : List Obs) (x : Ctx) (p : Peer) (msg payload : Json) (typ : String) :
    routingResponse (shift pre x) p msg payload typ = shift2 pre (routingResponse x p msg payload typ) := by
  unfold routingResponse
  shift_tac

theorem offerAllElements_shift (cfg : Config) (pre : List Obs) (x : Ctx) (fp : Peer) (f : Fetch) :
    offerAllElements cfg (shift pre x) fp f = shift pre (offerAllElements cfg x fp f) := by
  unfold offerAllElements
  simp only [shift_st]
  apply foldl_shift
  intro x owner _
  apply foldl_shift
  intro x e0 _
  simp only [shift_st, offerElement_shift, shift2]
  rfl

theorem fetchReq_shift (cfg : Config) (pre : List Obs) (x : Ctx) (p : Peer) (req : Json) :
    fetchReq cfg (shift pre x) p req = shift2 pre (fetchReq cfg x p req) := by
  unfold fetchReq
  repeat' (first | rfl | (simp only [shift_mk, shift_st, shift2, offerAllElements_shift]) | split | contradiction)

theorem unfetchReq_shift (pre : List Obs) (x : Ctx) (p : Peer) (req : Json) :
    unfetchReq (shift pre x) p req = shift2 pre (unfetchReq x p req) := by
  unfold unfetchReq
  shift_tac

theorem getReq_shift (cfg : Config) (pre : List Obs) (x : Ctx) (p : Peer) (req : Json) :
    getReq cfg (shift pre x) p req = shift2 pre (getReq cfg x p req) := by
  unfold getReq
  shift_tac

theorem configReq_shift (pre : List Obs) (x : Ctx) (p : Peer) (req : Json) :
    configReq (shift pre x) p req = shift2 pre (configReq x p req) := by
  unfold configReq
  shift_tac

theorem infoReq_shift (cfg : Config) (pre : List Obs) (x : Ctx) (req : Json) :
    infoReq cfg (shift pre x) req = shift2 pre (infoReq cfg x req) := rfl

theorem authenticateReq_shift (cfg : Config) (pre : List Obs) (x : Ctx) (p : Peer) (req : Json) :
    authenticateReq cfg (shift pre x) p req = shift2 pre (authenticateReq cfg x p req) := by
  unfold authenticateReq
  shift_tac

theorem passwdReq_shift (pre : List Obs) (x : Ctx) (p : Peer) (req : Json) :
    passwdReq (shift pre x) p req = shift2 pre (passwdReq x p req) := by
  unfold passwdReq
  shift_tac
  all_goals (simp only [*, ↓reduceIte]; try rfl)

theorem handleMethod_shift (cfg : Config) (pre : List Obs) (x : Ctx) (p : Peer) (req : Json) (m : Bytes) :
    handleMethod cfg (shift pre x) p req m = shift2 pre (handleMethod cfg x p req m) := by
  unfold handleMethod
  by_cases h1 : (m == k "change") = true
  · rw [if_pos h1, if_pos h1]; exact changeState_shift ..
  rw [if_neg h1, if_neg h1]
  by_cases h2 : (m == k "set") = true
  · rw [if_pos h2, if_pos h2]; exact setOrCall_shift ..
  rw [if_neg h2, if_neg h2]
  by_cases h3 : (m == k "call") = true
  · rw [if_pos h3, if_pos h3]; exact setOrCall_shift ..
  rw [if_neg h3, if_neg h3]
  by_cases h4 : (m == k "add") = true
  · rw [if_pos h4, if_pos h4]; exact addElement_shift ..
  rw [if_neg h4, if_neg h4]
  by_cases h5 : (m == k "remove") = true
  · rw [if_pos h5, if_pos h5]; exact removeElementReq_shift ..
  rw [if_neg h5, if_neg h5]
  by_cases h6 : (m == k "fetch") = true
  · rw [if_pos h6, if_pos h6]; exact fetchReq_shift ..
  rw [if_neg h6, if_neg h6]
  by_cases h7 : (m == k "unfetch") = true
  · rw [if_pos h7, if_pos h7]; exact unfetchReq_shift ..
  rw [if_neg h7, if_neg h7]
  by_cases h8 : (m == k "get") = true
  · rw [if_pos h8, if_pos h8]; exact getReq_shift ..
  rw [if_neg h8, if_neg h8]
  by_cases h9 : (m == k "config") = true
  · rw [if_pos h9, if_pos h9]; exact configReq_shift ..
  rw [if_neg h9, if_neg h9]
  by_cases h10 : (m == k "info") = true
  · rw [if_pos h10, if_pos h10]; exact infoReq_shift ..
  rw [if_neg h10, if_neg h10]
  by_cases h11 : (m == k "authenticate") = true
  · rw [if_pos h11, if_pos h11]; exact authenticateReq_shift ..
  rw [if_neg h11, if_neg h11]
  by_cases h12 : (m == k "passwd") = true
  · rw [if_pos h12, if_pos h12]; exact passwdReq_shift ..
  rw [if_neg h12, if_neg h12]
  rfl

theorem sendResponse_shift (pre : List Obs) (x : Ctx) (c : Nat) (r : Option Json) :
    sendResponse (shift pre x) c r = shift2 pre (sendResponse x c r) := by
  unfold sendResponse
  split
  · rfl
  · exact send_shift ..

theorem parseJsonRpc_shift (cfg : Config) (pre : List Obs) (x : Ctx) (c : Nat) (req : Json) :
    parseJsonRpc cfg (shift pre x) c req = shift2 pre (parseJsonRpc cfg x c req) := by
  unfold parseJsonRpc
  simp only [shift_st]
  split
  · rfl
  · split
    · simp only [handleMethod_shift, shift2, sendResponse_shift]
    · exact sendResponse_shift ..
    · split
      · exact routingResponse_shift ..
      · split
        · exact routingResponse_shift ..
        · exact sendResponse_shift ..

theorem parseJsonArray_shift (cfg : Config) (pre : List Obs) (c : Nat) (l : List Json) (x : Ctx) :
    parseJsonArray cfg (shift pre x) c l = shift2 pre (parseJsonArray cfg x c l) := by
  induction l generalizing x with
  | nil => rfl
  | cons m rest ih =>
    cases m with
    | obj lm =>
      simp only [parseJsonArray, parseJsonRpc_shift, shift2]
      split
      · exact ih _
      · rfl
    | null | bool _ | num _ | str _ | arr _ => rfl

theorem parseMessage_shift (cfg : Config) (pre : List Obs) (x : Ctx) (c : Nat) (msg : Option Json) :
    parseMessage cfg (shift pre x) c msg = shift2 pre (parseMessage cfg x c msg) := by
  unfold parseMessage
  split
  · exact parseJsonArray_shift ..
  · exact parseJsonRpc_shift ..
  · rfl

theorem clearRoute_shift (pre : List Obs) (x : Ctx) (r : Route) (c : Nat) :
    clearRoute (shift pre x) r c = shift pre (clearRoute x r c) := by
  unfold clearRoute
  simp only [emit_shift]
  repeat' (first | rfl | split | exact send'_shift ..)

end Cjet.Daemon.C02
