/-
  C01 — the replica fold: how one add / change / remove event transforms a replica that
  agrees with an image into one that agrees with the next image.
-/
import Cjet.Lemmas.DaemonC01Base

namespace Cjet.Daemon.C01

open Cjet Cjet.Json Cjet.Daemon

/-! ## image as a function of (fetch groups, rule) -/

def imageOf (cfg : Config) (s : State) (pg : Nat) (rule : Rule) : Replica :=
  ((allElems s).filter (visible cfg pg rule)).map (fun e => (e.path, e.value))

theorem imageFor_eq (cfg : Config) (s : State) (p : Peer) (f : Fetch) :
    imageFor cfg s p f = imageOf cfg s p.fetchGroups f.rule := rfl

theorem mem_allElems {s : State} {e : Element} : e ∈ allElems s ↔ ∃ q ∈ s.peers, e ∈ q.elements := by
  simp [allElems, List.mem_flatMap]

theorem mem_imageOf {cfg : Config} {s : State} {pg : Nat} {rule : Rule} {a : Bytes × Option Json} :
    a ∈ imageOf cfg s pg rule ↔ ∃ e ∈ allElems s, visible cfg pg rule e = true ∧ (e.path, e.value) = a := by
  simp [imageOf, List.mem_map, List.mem_filter, and_assoc]

/-- what the image depends on -/
def eview (e : Element) : Bytes × Option Json × Nat := (e.path, e.value, e.fetchGroups)

theorem visible_congr {cfg : Config} {pg : Nat} {rule : Rule} {e e' : Element}
    (h : eview e' = eview e) : visible cfg pg rule e' = visible cfg pg rule e := by
  simp only [eview, Prod.mk.injEq] at h
  simp [visible, h.1, h.2.2]

theorem imageOf_congr {cfg : Config} {s s' : State} {pg : Nat} {rule : Rule}
    (h : (allElems s').map eview = (allElems s).map eview) :
    imageOf cfg s' pg rule = imageOf cfg s pg rule := by
  have key : ∀ l : List Element, (l.filter (visible cfg pg rule)).map (fun e => (e.path, e.value)) =
      ((l.map eview).filter (fun v => hasAccess cfg v.2.2 pg && ruleMatches rule v.1)).map
        (fun v => (v.1, v.2.1)) := by
    intro l
    induction l with
    | nil => rfl
    | cons e t ih =>
      simp only [List.map_cons, List.filter_cons]
      have : visible cfg pg rule e = (hasAccess cfg (eview e).2.2 pg && ruleMatches rule (eview e).1) := rfl
      rw [this]
      split <;> simp [ih, eview]
  unfold imageOf
  rw [key, key, h]

/-! ## replay -/

theorem replayFrom_append (r : Replica) (a b : List Notif) :
    replayFrom r (a ++ b) = (replayFrom r a).bind (fun r' => replayFrom r' b) := by
  induction a generalizing r with
  | nil => simp [replayFrom]
  | cons n ns ih =>
    simp only [List.cons_append, replayFrom]
    cases applyNotif r n with
    | none => rfl
    | some r1 => simpa using ih r1

@[simp] theorem replayFrom_nil (r : Replica) : replayFrom r [] = some r := rfl

theorem replayFrom_single (r : Replica) (n : Notif) : replayFrom r [n] = applyNotif r n := by
  simp only [replayFrom]
  cases applyNotif r n <;> rfl

theorem hasPath_iff {r : Replica} {p : Bytes} : hasPath r p = true ↔ p ∈ r.map (·.1) := by
  simp [hasPath, List.any_eq_true, List.mem_map]

theorem SameMap.paths {r I : Replica} (h : SameMap r I) (p : Bytes) :
    p ∈ r.map (·.1) ↔ p ∈ I.map (·.1) := by
  simp only [List.mem_map]
  constructor
  · rintro ⟨a, ha, rfl⟩; exact ⟨a, (h.2 a).1 ha, rfl⟩
  · rintro ⟨a, ha, rfl⟩; exact ⟨a, (h.2 a).2 ha, rfl⟩

theorem SameMap.congr {r I I' : Replica} (h : SameMap r I) (hI : ∀ a, a ∈ I' ↔ a ∈ I) : SameMap r I' :=
  ⟨h.1, fun a => (h.2 a).trans (hI a).symm⟩

theorem SameMap.refl {I : Replica} (h : (I.map (·.1)).Nodup) : SameMap I I := ⟨h, fun _ => Iff.rfl⟩

theorem sameMap_add {r I I' : Replica} {fid : Json} {path : Bytes} {v : Option Json}
    (h : SameMap r I) (hp : path ∉ I.map (·.1)) (hI : ∀ a, a ∈ I' ↔ a ∈ I ∨ a = (path, v)) :
    ∃ r', applyNotif r { fid := fid, path := path, event := .add, value := v } = some r' ∧ SameMap r' I' := by
  have hnp : path ∉ r.map (·.1) := fun hh => hp ((h.paths path).1 hh)
  have hh : hasPath r path = false := by
    cases hq : hasPath r path with
    | false => rfl
    | true => exact absurd (hasPath_iff.1 hq) hnp
  refine ⟨r ++ [(path, v)], by simp [applyNotif, hh], ?_, ?_⟩
  · rw [List.map_append, List.nodup_append]
    refine ⟨h.1, by simp, ?_⟩
    intro a ha b hb
    simp at hb
    subst hb
    intro hab
    subst hab
    exact hnp ha
  · intro a
    rw [List.mem_append, hI a, h.2 a]
    simp

theorem sameMap_remove {r I I' : Replica} {fid : Json} {path : Bytes} {v : Option Json}
    (h : SameMap r I) (hp : path ∈ I.map (·.1)) (hI : ∀ a, a ∈ I' ↔ a ∈ I ∧ a.1 ≠ path) :
    ∃ r', applyNotif r { fid := fid, path := path, event := .remove, value := v } = some r' ∧ SameMap r' I' := by
  have hh : hasPath r path = true := hasPath_iff.2 ((h.paths path).2 hp)
  refine ⟨r.filter (·.1 != path), by simp [applyNotif, hh], ?_, ?_⟩
  · have : (r.filter (·.1 != path)).map (·.1) = (r.map (·.1)).filter (· != path) := by
      rw [List.filter_map]; rfl
    rw [this]
    exact h.1.filter _
  · intro a
    rw [List.mem_filter, hI a, h.2 a]
    simp

theorem sameMap_change {r I I' : Replica} {fid : Json} {path : Bytes} {v : Option Json}
    (h : SameMap r I) (hp : path ∈ I.map (·.1))
    (hI : ∀ a, a ∈ I' ↔ (a ∈ I ∧ a.1 ≠ path) ∨ a = (path, v)) :
    ∃ r', applyNotif r { fid := fid, path := path, event := .change, value := v } = some r' ∧ SameMap r' I' := by
  have hr : path ∈ r.map (·.1) := (h.paths path).2 hp
  have hh : hasPath r path = true := hasPath_iff.2 hr
  refine ⟨r.map (fun a => if a.1 == path then (path, v) else a), by simp [applyNotif, hh], ?_, ?_⟩
  · have : (r.map (fun a => if a.1 == path then (path, v) else a)).map (·.1) = r.map (·.1) := by
      rw [List.map_map]
      apply List.map_congr_left
      intro a _
      simp only [Function.comp]
      split
      · next hc => simpa using (by simpa using hc : a.1 = path).symm
      · rfl
    rw [this]
    exact h.1
  · intro a
    rw [hI a, List.mem_map]
    constructor
    · rintro ⟨b, hb, rfl⟩
      by_cases hbp : b.1 = path
      · right; simp [hbp]
      · left
        have : (b.1 == path) = false := by simp [hbp]
        simp only [this]
        exact ⟨(h.2 b).1 hb, hbp⟩
    · rintro (⟨ha, hne⟩ | rfl)
      · refine ⟨a, (h.2 a).2 ha, ?_⟩
        have : (a.1 == path) = false := by simp [hne]
        simp [this]
      · obtain ⟨b, hb, hbp⟩ := List.mem_map.1 hr
        refine ⟨b, hb, ?_⟩
        simp [hbp]

/-- add immediately followed by remove of the same (new) path leaves the replica unchanged -/
theorem sameMap_add_remove {r I : Replica} {fid fid' : Json} {path : Bytes} {v v' : Option Json}
    (h : SameMap r I) (hp : path ∉ I.map (·.1)) :
    ∃ r', replayFrom r [{ fid := fid, path := path, event := .add, value := v },
                        { fid := fid', path := path, event := .remove, value := v' }] = some r' ∧
      SameMap r' I := by
  obtain ⟨r1, h1, s1⟩ := sameMap_add (fid := fid) (v := v) (I' := (path, v) :: I) h hp
    (by intro a; simp [or_comm])
  obtain ⟨r2, h2, s2⟩ := sameMap_remove (fid := fid') (v := v') (path := path) (I' := I) s1 (by simp) (by
    intro a
    simp only [List.mem_cons]
    constructor
    · intro ha
      refine ⟨Or.inr ha, fun hap => hp (List.mem_map.2 ⟨a, ha, hap⟩)⟩
    · rintro ⟨rfl | ha, hne⟩
      · exact absurd rfl hne
      · exact ha)
  refine ⟨r2, ?_, s2⟩
  simp [replayFrom, h1, h2]

/-! ## replica steps -/

/-- the notifications `ns` take a replica that agrees with the image of `(pg, rule)` in `s` to one
    that agrees with the image in `s'`, with no spurious event -/
def RStep (cfg : Config) (s s' : State) (ns : List (Nat × Notif)) (c : Nat) (fid : Json)
    (pg : Nat) (rule : Rule) : Prop :=
  ∀ r, SameMap r (imageOf cfg s pg rule) →
    ∃ r', replayFrom r (pick c fid ns) = some r' ∧ SameMap r' (imageOf cfg s' pg rule)

theorem RStep.trans {cfg : Config} {s s' s'' : State} {a b : List (Nat × Notif)} {c : Nat} {fid : Json}
    {pg : Nat} {rule : Rule} (h1 : RStep cfg s s' a c fid pg rule) (h2 : RStep cfg s' s'' b c fid pg rule) :
    RStep cfg s s'' (a ++ b) c fid pg rule := by
  intro r hr
  obtain ⟨r1, e1, s1⟩ := h1 r hr
  obtain ⟨r2, e2, s2⟩ := h2 r1 s1
  refine ⟨r2, ?_, s2⟩
  rw [pick_append, replayFrom_append, e1]
  simpa using e2

/-- no event for `(c, fid)` and the same image -/
theorem RStep.of_silent {cfg : Config} {s s' : State} {ns : List (Nat × Notif)} {c : Nat} {fid : Json}
    {pg : Nat} {rule : Rule} (hp : pick c fid ns = [])
    (hI : ∀ a, a ∈ imageOf cfg s' pg rule ↔ a ∈ imageOf cfg s pg rule) : RStep cfg s s' ns c fid pg rule := by
  intro r hr
  exact ⟨r, by rw [hp]; rfl, hr.congr hI⟩

end Cjet.Daemon.C01
