/-
  C04 — from handlers to `parseJsonRpc`, batches, `step` and `run`.
-/
import Cjet.Lemmas.DaemonC04Close

namespace Cjet.Daemon.C04

open Cjet Cjet.Json Cjet.Daemon

theorem handleMethod_eff {cfg : Config} {x : Ctx} {p : Peer} {c : Nat} {req : Json} (m : Bytes)
    (hp : findPeer x.st.peers c = some p) (hwf : WFS x.st) : Eff c x req (handleMethod cfg x p req m) := by
  unfold handleMethod
  refine ite_cases (P := Eff c x req) (fun _ => changeState_eff hp hwf) (fun _ => ?_)
  refine ite_cases (P := Eff c x req) (fun _ => Eff.frame (setOrCall_frame ..)) (fun _ => ?_)
  refine ite_cases (P := Eff c x req) (fun _ => Eff.frame (setOrCall_frame ..)) (fun _ => ?_)
  refine ite_cases (P := Eff c x req) (fun _ => addElement_eff hp) (fun _ => ?_)
  refine ite_cases (P := Eff c x req) (fun _ => removeElementReq_eff hp hwf) (fun _ => ?_)
  refine ite_cases (P := Eff c x req) (fun _ => Eff.frame (fetchReq_frame _ _ _ _ hwf)) (fun _ => ?_)
  refine ite_cases (P := Eff c x req) (fun _ => Eff.frame (unfetchReq_frame ..)) (fun _ => ?_)
  refine ite_cases (P := Eff c x req) (fun _ => Eff.frame (getReq_frame ..)) (fun _ => ?_)
  refine ite_cases (P := Eff c x req) (fun _ => Eff.frame (configReq_frame ..)) (fun _ => ?_)
  refine ite_cases (P := Eff c x req) (fun _ => Eff.frame (infoReq_frame ..)) (fun _ => ?_)
  refine ite_cases (P := Eff c x req) (fun _ => Eff.frame (authenticateReq_frame ..)) (fun _ => ?_)
  refine ite_cases (P := Eff c x req) (fun _ => Eff.frame (passwdReq_frame ..)) (fun _ => ?_)
  exact Eff.frame rfl

@[simp] theorem sendResponse_st (x : Ctx) (c : Nat) (resp : Option Json) : (sendResponse x c resp).1.st = x.st := by
  cases resp <;> simp [sendResponse]

theorem sendResponse_out (x : Ctx) (c : Nat) (resp : Option Json) :
    (sendResponse x c resp).1.out =
      (match resp with | some j => [Obs.send c j (send x c j).2] | none => []) ++ x.out := by
  cases resp with
  | none => rfl
  | some j => simp only [sendResponse, send_out, List.cons_append, List.nil_append]

/-- `parse_json_rpc`, with the handler result named -/
theorem parseJsonRpc_eq (cfg : Config) (x : Ctx) (c : Nat) (req : Json) :
    parseJsonRpc cfg x c req =
    match findPeer x.st.peers c with
    | none => (x, false)
    | some p =>
      match req.getItem (k "method") with
      | some (.str m) => sendResponse (handleMethod cfg x p req m).1 c (handleMethod cfg x p req m).2
      | some _ => sendResponse x c (errorFromRequest req INVALID_REQUEST "reason" (k "method is not a string"))
      | none =>
        match req.getItem (k "result") with
        | some res => routingResponse x p req res "result"
        | none =>
          match req.getItem (k "error") with
          | some err => routingResponse x p req err "error"
          | none => sendResponse x c (errorFromRequest req INVALID_REQUEST "reason" (k "neither request nor response")) := by
  unfold parseJsonRpc
  cases findPeer x.st.peers c with
  | none => rfl
  | some p =>
    dsimp only
    cases req.getItem (k "method") with
    | none => rfl
    | some j => cases j <;> rfl

/-- Summary for one request object: the store is untouched, or it changed in one of the three ways and
    then everything emitted (the response included) is free of error objects. -/
theorem parseJsonRpc_eff (cfg : Config) (x : Ctx) (c : Nat) (req : Json) (hwf : WFS x.st) :
    store (parseJsonRpc cfg x c req).1.st = store x.st ∨
    (Mut c (store x.st) (store (parseJsonRpc cfg x c req).1.st) ∧ QuietOut x (parseJsonRpc cfg x c req).1) := by
  rw [parseJsonRpc_eq]
  cases hp : findPeer x.st.peers c with
  | none => exact Or.inl rfl
  | some p =>
    dsimp only
    cases hm : req.getItem (k "method") with
    | none =>
      dsimp only
      cases req.getItem (k "result") with
      | some res => exact Or.inl (routingResponse_frame ..)
      | none =>
        dsimp only
        cases req.getItem (k "error") with
        | some err => exact Or.inl (routingResponse_frame ..)
        | none => exact Or.inl (by simp only [sendResponse_st])
    | some j =>
      cases j with
      | str m =>
        dsimp only
        rcases handleMethod_eff (cfg := cfg) (req := req) m hp hwf with h | ⟨hmut, hresp, hq⟩
        · exact Or.inl (by rw [sendResponse_st]; exact h)
        · refine Or.inr ⟨by rw [sendResponse_st]; exact hmut, ?_⟩
          obtain ⟨new, hnew, hall⟩ := hq
          rw [hresp]
          cases hs : successFromRequest req with
          | none => exact ⟨new, by simp only [sendResponse]; exact hnew, hall⟩
          | some j =>
            refine ⟨Obs.send c j (send (handleMethod cfg x p req m).1 c j).2 :: new, ?_, ?_⟩
            · simp only [sendResponse_out, hnew, List.cons_append, List.nil_append]
            · intro o ho
              rcases List.mem_cons.1 ho with rfl | ho
              · intro c' j' b' he
                cases he
                exact successFromRequest_noError hs
              · exact hall o ho
      | _ => exact Or.inl (by simp only [sendResponse_st])

/-! ## what a message of `c` can do to the state -/

/-- `s'` is well-formed, has the same peers, and the element lists of all peers but `c` are unchanged -/
structure Own (c : Nat) (s s' : State) : Prop where
  wfs : WFS s'
  conns : (image s'.peers).map (·.1) = (image s.peers).map (·.1)
  others : (image s'.peers).filter (·.1 != c) = (image s.peers).filter (·.1 != c)

theorem Own.refl {c : Nat} {s : State} (h : WFS s) : Own c s s := ⟨h, rfl, rfl⟩

theorem Own.trans {c : Nat} {s1 s2 s3 : State} (h1 : Own c s1 s2) (h2 : Own c s2 s3) : Own c s1 s3 :=
  ⟨h2.wfs, h2.conns.trans h1.conns, h2.others.trans h1.others⟩

theorem Own.of_frame {c : Nat} {s s' : State} (h : store s' = store s) (hwf : WFS s) : Own c s s' := by
  have h' := h
  simp only [store_def, Prod.mk.injEq] at h'
  exact ⟨wfs_of_store_eq h hwf, by rw [h'.1], by rw [h'.1]⟩

theorem Mut.conns {c : Nat} {st st' : Store} (h : Mut c st st') : st'.1.map (·.1) = st.1.map (·.1) := by
  cases h <;> exact updImage_conns ..

theorem Own.of_mut {c : Nat} {s s' : State} (h : Mut c (store s) (store s')) (hwf : WFS s) : Own c s s' :=
  ⟨h.wfp hwf, h.conns, h.others⟩

theorem parseJsonRpc_own (cfg : Config) (x : Ctx) (c : Nat) (req : Json) (hwf : WFS x.st) :
    Own c x.st (parseJsonRpc cfg x c req).1.st := by
  rcases parseJsonRpc_eff cfg x c req hwf with h | ⟨h, _⟩
  · exact Own.of_frame h hwf
  · exact Own.of_mut h hwf

theorem parseJsonArray_own (cfg : Config) (c : Nat) (l : List Json) (x : Ctx) (hwf : WFS x.st) :
    Own c x.st (parseJsonArray cfg x c l).1.st := by
  induction l generalizing x with
  | nil => exact Own.refl hwf
  | cons j rest ih =>
    cases j with
    | obj m =>
      simp only [parseJsonArray]
      have h1 := parseJsonRpc_own cfg x c (.obj m) hwf
      split
      · exact h1.trans (ih _ h1.wfs)
      · exact h1
    | _ => exact Own.refl hwf

theorem parseMessage_own (cfg : Config) (x : Ctx) (c : Nat) (msg : Option Json) (hwf : WFS x.st) :
    Own c x.st (parseMessage cfg x c msg).1.st := by
  unfold parseMessage
  split
  · exact parseJsonArray_own cfg c _ x hwf
  · exact parseJsonRpc_own cfg x c _ hwf
  · exact Own.refl hwf

end Cjet.Daemon.C04
