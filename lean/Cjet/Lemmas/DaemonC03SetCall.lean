/-
  DaemonC03SetCall — `set_or_call` split into its checks and its routing core.

  `Checks` collects the tests that precede `alloc_routing_request`; `routeCore` is the rest of the
  function (id generation, value/args, timeout, table insertion, timer, send).  `setOrCall_cases`
  shows the model's function is exactly: an early refusal that leaves the context alone, or
  `routeCore`.
-/
import Cjet.Lemmas.DaemonC03Basic

namespace Cjet.Daemon.C03

open Cjet Cjet.Json Cjet.Daemon

/-- the id of a request that can be routed: a string, a number, or none at all -/
def idOk : Option Json → Bool
  | some (.str _) => true
  | some (.num _) => true
  | none => true
  | _ => false

/-- the tests of `set_or_call` in front of `alloc_routing_request` -/
structure Checks (cfg : Config) (s : State) (p : Peer) (req : Json) (isState : Bool)
    (params : Json) (path : Bytes) (e : Element) : Prop where
  pp : getParamsAndPath req = .ok params path
  el : findElement s path = some e
  nfo : e.fetchOnly = false
  kind : isState = e.value.isSome
  acc : (if isState then hasAccess cfg e.setGroups p.setGroups else hasAccess cfg e.callGroups p.callGroups) = true
  id : idOk (req.getItem (k "id")) = true

/-- the value of a set / the arguments of a call -/
def reqValue (isState : Bool) (params : Json) : Option Json :=
  if isState then params.getItem (k "value") else params.getItem (k "args")

/-- the routing entry `alloc_routing_request` + `setup_routing_information` build -/
def newRoute (x : Ctx) (p : Peer) (req : Json) (e : Element) : Route :=
  { rid := routedId (req.getItem (k "id")) x.st.uuid p.addrTok, requester := p.conn, owner := e.owner,
    originId := req.getItem (k "id"), timer := x.st.nextTimer }

/-- the context after the id was generated -/
def ticked (x : Ctx) : Ctx := { x with st := { x.st with uuid := (x.st.uuid + 1) % 4294967296 } }

/-- the context after the timer was created -/
def timed (x : Ctx) : Ctx :=
  { x with st := { x.st with uuid := (x.st.uuid + 1) % 4294967296, nextTimer := x.st.nextTimer + 1 } }

/-- entry stored, timer armed -/
def stored (x : Ctx) (r : Route) (tns : Nat) : Ctx :=
  emit { x with st := { x.st with
      uuid := (x.st.uuid + 1) % 4294967296, nextTimer := x.st.nextTimer + 1,
      peers := updatePeer x.st.peers r.owner (fun q => { q with routes := q.routes ++ [r] }) } }
    (.timerArm r.timer tns)

/-- `set_or_call` from `alloc_routing_request` on -/
def routeCore (cfg : Config) (x : Ctx) (p : Peer) (req : Json) (isState : Bool)
    (params : Json) (path : Bytes) (e : Element) : Ctx × Option Json :=
  let value := reqValue isState params
  if isState && value.isNone then
    (ticked x, errorFromRequest req INVALID_PARAMS "reason" (k "no value found"))
  else
    match getTimeout cfg (params.getItem (k "timeout")) e.timeoutNs with
    | .err reason => (ticked x, errorFromRequest req INVALID_PARAMS "reason" (k reason))
    | .ns tns =>
      if x.routeFull then
        ({ emit (timed x) (.timerDestroy x.st.nextTimer) with routeFull := false },
         errorFromRequest req INTERNAL_ERROR "reason" (k "routing table full"))
      else
        let r := newRoute x p req e
        let y := send (stored x r tns) e.owner (routedMessage r.rid path isState value)
        if y.2 then (y.1, none)
        else
          (emit { y.1 with st := { y.1.st with peers := removeRoute y.1.st.peers e.owner r.rid } }
              (.timerDestroy x.st.nextTimer),
           errorFromRequest req INTERNAL_ERROR "reason" (k "could not send routing information"))

theorem setOrCall_of_checks {cfg : Config} {x : Ctx} {p : Peer} {req : Json} {isState : Bool}
    {params : Json} {path : Bytes} {e : Element} (h : Checks cfg x.st p req isState params path e) :
    setOrCall cfg x p req isState = routeCore cfg x p req isState params path e := by
  have hk : (isState != e.value.isSome) = false := by rw [← h.kind]; simp
  have hid := h.id
  unfold setOrCall
  simp only [h.pp, h.el, h.nfo, hk, h.acc, Bool.false_eq_true, ↓reduceIte, Bool.not_true]
  unfold routeCore reqValue newRoute stored ticked timed
  cases hoid : req.getItem (k "id") with
  | none => rfl
  | some j =>
    rw [hoid] at hid
    cases j with
    | str s => rfl
    | num n => rfl
    | null => simp [idOk] at hid
    | bool b => simp [idOk] at hid
    | arr l => simp [idOk] at hid
    | obj l => simp [idOk] at hid

/-- `set_or_call` either refuses before it generates an id — the context is returned as it was —
    or passes its checks and continues as `routeCore`. -/
theorem setOrCall_cases (cfg : Config) (x : Ctx) (p : Peer) (req : Json) (isState : Bool) :
    (setOrCall cfg x p req isState).1 = x ∨
    ∃ params path e, Checks cfg x.st p req isState params path e := by
  cases hpp : getParamsAndPath req with
  | err r => left; unfold setOrCall; rw [hpp]
  | ok params path =>
    cases hel : findElement x.st path with
    | none => left; unfold setOrCall; simp only [hpp, hel]
    | some e =>
      cases hfo : e.fetchOnly with
      | true => left; unfold setOrCall; simp only [hpp, hel, hfo, ↓reduceIte]
      | false =>
        cases hk : (isState != e.value.isSome) with
        | true => left; unfold setOrCall; simp only [hpp, hel, hfo, hk, Bool.false_eq_true, ↓reduceIte]
        | false =>
          cases hacc : (if isState then hasAccess cfg e.setGroups p.setGroups
              else hasAccess cfg e.callGroups p.callGroups) with
          | false =>
            left; unfold setOrCall
            simp only [hpp, hel, hfo, hk, hacc, Bool.false_eq_true, ↓reduceIte, Bool.not_false]
          | true =>
            cases hid : idOk (req.getItem (k "id")) with
            | true =>
              right
              refine ⟨params, path, e, hpp, hel, hfo, ?_, hacc, hid⟩
              simpa using hk
            | false =>
              left; unfold setOrCall
              simp only [hpp, hel, hfo, hk, hacc, Bool.false_eq_true, ↓reduceIte, Bool.not_true]
              cases hoid : req.getItem (k "id") with
              | none => rw [hoid] at hid; simp [idOk] at hid
              | some j =>
                rw [hoid] at hid
                cases j <;> first | rfl | (simp [idOk] at hid)

end Cjet.Daemon.C03
