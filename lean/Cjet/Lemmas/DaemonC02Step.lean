/-
  C02 helper lemmas, part 6: classification of everything that is sent while one object, one
  batch, one operation is processed.
-/
import Cjet.Lemmas.DaemonC02Close

namespace Cjet.Daemon.C02

open Cjet Cjet.Json Cjet.Daemon

/-- the members a message consists of -/
def members : Option Json → List Json
  | some (.arr l) => l
  | some (.obj l) => [.obj l]
  | _ => []

/-- `m` is not a response object: it has a "method" member, or neither "result" nor "error" -/
def RequestLike (m : Json) : Prop :=
  (m.getItem (k "method")).isSome = true ∨ (m.getItem (k "result") = none ∧ m.getItem (k "error") = none)

/-- `j`, sent to `d`, is the immediate response to request-like object `m` -/
def IsImmediateOf (m : Json) (j : Json) : Prop :=
  RequestLike m ∧ ∃ id, m.getItem (k "id") = some id ∧ idOk id = true ∧ WellFormed id j

/-- `j`, sent to `d`, is the relay of the response object `m` for routing record `r` -/
def IsRelayOf (r : Route) (m : Json) (d : Nat) (j : Json) : Prop :=
  m.getItem (k "method") = none ∧ m.getItem (k "id") = some (.str r.rid) ∧ d = r.requester ∧
  ∃ oid typ payload, r.originId = some oid ∧ idOk oid = true ∧ (typ = "result" ∨ typ = "error") ∧
    m.getItem (k typ) = some payload ∧ j = .obj [(k "id", oid), (k typ, payload)]

theorem requestLike_or_response (m : Json) :
    RequestLike m ∨ (m.getItem (k "method") = none ∧
      ((m.getItem (k "result")).isSome = true ∨ (m.getItem (k "error")).isSome = true)) := by
  unfold RequestLike
  cases h1 : m.getItem (k "method") <;> cases h2 : m.getItem (k "result") <;>
    cases h3 : m.getItem (k "error") <;> simp

/-- Everything sent while one object `req` from connection `c` is processed. -/
theorem parseJsonRpc_sends (cfg : Config) (x : Ctx) (c : Nat) (req : Json) :
    ∃ new, (parseJsonRpc cfg x c req).1.out = new ++ x.out ∧
      RouteStep c x.st.peers (parseJsonRpc cfg x c req).1.st.peers ∧
      ∀ d j b, Obs.send d j b ∈ new →
        hasMethod j = true ∨ (d = c ∧ IsImmediateOf req j) ∨
        ∃ p r, findPeer x.st.peers c = some p ∧ r ∈ p.routes ∧ IsRelayOf r req d j := by
  cases hp : findPeer x.st.peers c with
  | none =>
    refine ⟨[], ?_, ?_, by simp⟩
    · simp [parseJsonRpc, hp]
    · simp only [parseJsonRpc, hp]; exact RouteStep.refl ..
  | some p =>
    rcases requestLike_or_response req with hreq | ⟨hm, hre⟩
    · obtain ⟨⟨pre, fin, hout, hpre, hfin⟩, hrt⟩ := parseJsonRpc_request cfg x c p req hp hreq
      refine ⟨fin ++ pre, hout, hrt, ?_⟩
      intro d j b hmem
      rcases List.mem_append.1 hmem with h | h
      · rcases hfin with ⟨rfl, _⟩ | ⟨id, resp, b', rfl, _, hid, hok, hwf, _⟩
        · cases h
        · simp only [List.mem_singleton, Obs.send.injEq] at h
          obtain ⟨rfl, rfl, rfl⟩ := h
          exact Or.inr (Or.inl ⟨rfl, hreq, id, hid, hok, hwf⟩)
      · exact Or.inl (hpre _ h)
    · obtain ⟨typ, payload, htyp, hpay, heq⟩ := parseJsonRpc_response cfg x c p req hp hm hre
      rw [heq]
      have hspec := routingResponse_spec x p req payload typ
      dsimp only at hspec
      rcases hspec with ⟨hres, _⟩ | ⟨_, rid, hid, ⟨hres, _⟩ | ⟨r, hf, hst, hcase⟩⟩
      · rw [hres]; exact ⟨[], rfl, RouteStep.refl .., by simp⟩
      · rw [hres]; exact ⟨[], rfl, RouteStep.refl .., by simp⟩
      · have hrt : RouteStep c x.st.peers (routingResponse x p req payload typ).1.st.peers := by
          rw [hst]; exact routeStep_removeRoute ..
        have hrid : r.rid = rid := by simpa using List.find?_some hf
        have hmem : r ∈ p.routes := List.mem_of_find?_eq_some hf
        rcases hcase with ⟨hout, _⟩ | ⟨oid, ho, hok, hout⟩
        · refine ⟨[.timerDestroy r.timer], hout, hrt, ?_⟩
          intro d j b h
          simp at h
        · refine ⟨[.send r.requester (.obj [(k "id", oid), (k typ, payload)]) (x.sends.headD true),
            .timerDestroy r.timer], by simpa using hout, hrt, ?_⟩
          intro d j b h
          simp only [List.mem_cons, Obs.send.injEq, List.mem_nil_iff, or_false] at h
          rcases h with ⟨rfl, rfl, rfl⟩ | h
          · exact Or.inr (Or.inr ⟨p, r, rfl, hmem, hm, by rw [hid, hrid], rfl, oid, typ, payload, ho, hok, htyp,
              hpay, rfl⟩)
          · cases h

/-- how a send made while messages of connection `c` are processed is classified against the
    state `ps0` at the beginning of the operation -/
def SendClass (ps0 : List Peer) (c : Nat) (l : List Json) (d : Nat) (j : Json) : Prop :=
  hasMethod j = true ∨ (d = c ∧ ∃ m ∈ l, IsImmediateOf m j) ∨
  ∃ m ∈ l, ∃ r, IsRelayOf r m d j ∧
    ((∃ p0, findPeer ps0 c = some p0 ∧ r ∈ p0.routes) ∨ r.requester = c)

theorem SendClass.mono {ps0 : List Peer} {c : Nat} {l l' : List Json} {d : Nat} {j : Json}
    (h : SendClass ps0 c l d j) (hl : ∀ m ∈ l, m ∈ l') : SendClass ps0 c l' d j := by
  rcases h with h | ⟨hd, m, hm, h⟩ | ⟨m, hm, r, h⟩
  · exact Or.inl h
  · exact Or.inr (Or.inl ⟨hd, m, hl m hm, h⟩)
  · exact Or.inr (Or.inr ⟨m, hl m hm, r, h⟩)

theorem parseJsonRpc_class (cfg : Config) (ps0 : List Peer) (x : Ctx) (c : Nat) (req : Json)
    (h0 : RouteStep c ps0 x.st.peers) :
    ∃ new, (parseJsonRpc cfg x c req).1.out = new ++ x.out ∧
      RouteStep c ps0 (parseJsonRpc cfg x c req).1.st.peers ∧
      ∀ d j b, Obs.send d j b ∈ new → SendClass ps0 c [req] d j := by
  obtain ⟨new, hout, hrt, hcl⟩ := parseJsonRpc_sends cfg x c req
  refine ⟨new, hout, h0.trans hrt, ?_⟩
  intro d j b hmem
  rcases hcl d j b hmem with h | ⟨hd, h⟩ | ⟨p, r, hp, hr, hrel⟩
  · exact Or.inl h
  · exact Or.inr (Or.inl ⟨hd, req, List.mem_singleton.2 rfl, h⟩)
  · refine Or.inr (Or.inr ⟨req, List.mem_singleton.2 rfl, r, hrel, ?_⟩)
    rcases h0.findPeer c with ⟨_, hn⟩ | ⟨p0, p', hp0, hp', hsub⟩
    · rw [hn] at hp; cases hp
    · rw [hp'] at hp; cases hp
      rcases hsub r hr with h | h
      · exact Or.inl ⟨p0, hp0, h⟩
      · exact Or.inr h.1

theorem parseJsonArray_class (cfg : Config) (ps0 : List Peer) (c : Nat) (l : List Json) (x : Ctx)
    (h0 : RouteStep c ps0 x.st.peers) :
    ∃ new, (parseJsonArray cfg x c l).1.out = new ++ x.out ∧
      RouteStep c ps0 (parseJsonArray cfg x c l).1.st.peers ∧
      ∀ d j b, Obs.send d j b ∈ new → SendClass ps0 c l d j := by
  induction l generalizing x with
  | nil => exact ⟨[], rfl, h0, by simp⟩
  | cons m rest ih =>
    cases m with
    | obj lm =>
      obtain ⟨n1, ho1, hr1, hc1⟩ := parseJsonRpc_class cfg ps0 x c (.obj lm) h0
      simp only [parseJsonArray]
      split
      · obtain ⟨n2, ho2, hr2, hc2⟩ := ih (parseJsonRpc cfg x c (.obj lm)).1 hr1
        refine ⟨n2 ++ n1, by rw [ho2, ho1, List.append_assoc], hr2, ?_⟩
        intro d j b hmem
        rcases List.mem_append.1 hmem with h | h
        · exact (hc2 d j b h).mono (fun m hm => List.mem_cons_of_mem _ hm)
        · exact (hc1 d j b h).mono (fun m hm => by simp at hm; simp [hm])
      · exact ⟨n1, ho1, hr1, fun d j b h => (hc1 d j b h).mono (fun m hm => by simp at hm; simp [hm])⟩
    | null | bool _ | num _ | str _ | arr _ =>
      exact ⟨[], by simp [parseJsonArray], by simpa [parseJsonArray] using h0, by simp⟩

theorem parseMessage_class (cfg : Config) (ps0 : List Peer) (c : Nat) (msg : Option Json) (x : Ctx)
    (h0 : RouteStep c ps0 x.st.peers) :
    ∃ new, (parseMessage cfg x c msg).1.out = new ++ x.out ∧
      RouteStep c ps0 (parseMessage cfg x c msg).1.st.peers ∧
      ∀ d j b, Obs.send d j b ∈ new → SendClass ps0 c (members msg) d j := by
  unfold parseMessage
  split
  · exact parseJsonArray_class cfg ps0 c _ x h0
  · exact parseJsonRpc_class cfg ps0 x c _ h0
  · exact ⟨[], rfl, h0, by simp⟩

/-! ## whole operations -/

theorem isNotif_send_hasMethod {d : Nat} {j : Json} {b : Bool} (h : IsNotif (.send d j b)) : hasMethod j = true :=
  isNotification_hasMethod h

/-- what `closePeer` adds, seen from a state `ps0` that the current one descends from -/
theorem closePeer_class (ps0 : List Peer) (c : Nat) (x : Ctx) (h0 : RouteStep c ps0 x.st.peers) :
    ∃ new, (closePeer x c).out = .closed c :: new ++ x.out ∧
      (∀ q ∈ (closePeer x c).st.peers, q.conn ≠ c) ∧
      ∀ d j b, Obs.send d j b ∈ new → hasMethod j = true ∨
        ∃ p0 r, findPeer ps0 c = some p0 ∧ r ∈ p0.routes ∧ IsShutdownOf c r (.send d j b) := by
  unfold closePeer emit
  refine (?_ : ∃ new, .closed c :: (freePeerResources x c).out = .closed c :: new ++ x.out ∧
      (∀ q ∈ (freePeerResources x c).st.peers, q.conn ≠ c) ∧ _)
  cases hp : findPeer x.st.peers c with
  | none =>
    refine ⟨[], by rw [freePeerResources_none hp]; rfl, freePeerResources_gone x c, by simp⟩
  | some p =>
    obtain ⟨⟨new, hout, hcl⟩, _⟩ := freePeerResources_spec hp
    refine ⟨new, by rw [hout]; rfl, freePeerResources_gone x c, ?_⟩
    intro d j b hmem
    rcases hcl _ hmem with h | ⟨r, hr, hs⟩
    · exact Or.inl (isNotif_send_hasMethod h)
    · rcases h0.findPeer c with ⟨_, hn⟩ | ⟨p0, p', hp0, hp', hsub⟩
      · rw [hn] at hp; cases hp
      · rw [hp'] at hp; cases hp
        rcases hsub r hr with h | h
        · exact Or.inr ⟨p0, r, hp0, h, hs⟩
        · exact absurd h.1 hs.1

/-- Everything sent in a `.message c …` operation. -/
theorem step_message_class (cfg : Config) (s : State) (c : Nat) (msg : Option Json) (o : Oracle)
    (d : Nat) (j : Json) (b : Bool) (h : Obs.send d j b ∈ (step cfg s (.message c msg o)).2) :
    SendClass s.peers c (members msg) d j ∨
    (∃ p0 r, findPeer s.peers c = some p0 ∧ r ∈ p0.routes ∧ IsShutdownOf c r (.send d j b)) ∧
      Obs.closed c ∈ (step cfg s (.message c msg o)).2 ∧
      ∀ q ∈ (step cfg s (.message c msg o)).1.peers, q.conn ≠ c := by
  unfold step at h ⊢
  dsimp only at h ⊢
  split at h
  · simp at h
  · rename_i hlive
    simp only [hlive] at ⊢
    obtain ⟨new, hout, hrt, hcl⟩ := parseMessage_class cfg s.peers c msg (mkCtx s o) (RouteStep.refl ..)
    cases hok : (parseMessage cfg (mkCtx s o) c msg).2 with
    | true =>
      simp only [hok, if_true, List.mem_reverse] at h
      rw [hout] at h
      simp only [mkCtx, List.append_nil] at h
      exact Or.inl (hcl d j b h)
    | false =>
      simp only [hok, Bool.false_eq_true, if_false, List.mem_reverse] at h ⊢
      obtain ⟨new2, hout2, hgone, hcl2⟩ := closePeer_class s.peers c _ hrt
      rw [hout2, hout] at h
      simp only [mkCtx, List.append_nil, List.mem_cons, List.mem_append] at h
      rcases h with (h | h) | h
      · cases h
      · rcases hcl2 d j b h with h' | h'
        · exact Or.inl (Or.inl h')
        · exact Or.inr ⟨h', by rw [hout2]; exact List.mem_cons_self .., hgone⟩
      · exact Or.inl (hcl d j b h)

/-- Everything sent in a `.disconnect c` operation. -/
theorem step_disconnect_class (cfg : Config) (s : State) (c : Nat) (o : Oracle)
    (d : Nat) (j : Json) (b : Bool) (h : Obs.send d j b ∈ (step cfg s (.disconnect c o)).2) :
    hasMethod j = true ∨
    (∃ p0 r, findPeer s.peers c = some p0 ∧ r ∈ p0.routes ∧ IsShutdownOf c r (.send d j b)) ∧
      ∀ q ∈ (step cfg s (.disconnect c o)).1.peers, q.conn ≠ c := by
  unfold step at h ⊢
  dsimp only at h ⊢
  split at h
  · simp at h
  · rename_i hlive
    simp only [hlive] at ⊢
    obtain ⟨new2, hout2, hgone, hcl2⟩ := closePeer_class s.peers c (mkCtx s o) (RouteStep.refl ..)
    simp only [List.mem_reverse] at h
    rw [hout2] at h
    simp only [mkCtx, List.append_nil, List.mem_cons] at h
    rcases h with h | h
    · cases h
    · rcases hcl2 d j b h with h' | h'
      · exact Or.inl h'
      · exact Or.inr ⟨h', hgone⟩

/-- Everything sent in a `.timerFire t` operation: at most the timeout answer of the routing record
    the timer belongs to, which leaves its owner's table in the same operation. -/
theorem step_timer_class (cfg : Config) (s : State) (t : Nat) (o : Oracle)
    (d : Nat) (j : Json) (b : Bool) (h : Obs.send d j b ∈ (step cfg s (.timerFire t o)).2) :
    ∃ p r oid, p ∈ s.peers ∧ r ∈ p.routes ∧ r.timer = t ∧ d = r.requester ∧ r.originId = some oid ∧
      idOk oid = true ∧ j = timeoutAnswer oid ∧
      (step cfg s (.timerFire t o)).1.peers = removeRoute s.peers r.owner r.rid ∧
      (step cfg s (.timerFire t o)).2 = [.send d j b, .timerDestroy t] := by
  unfold step at h ⊢
  dsimp only at h ⊢
  rcases timeoutFired_spec (mkCtx s o) t with ⟨heq, _⟩ | ⟨r, hf, hst, ⟨hout, _⟩ | ⟨oid, ho, hok, hout⟩⟩
  · rw [heq] at h; simp [mkCtx] at h
  · rw [hout] at h; simp [mkCtx] at h
  · have hmem := List.mem_of_find?_eq_some hf
    obtain ⟨p, hp, hrp⟩ := List.mem_flatMap.1 hmem
    have htim : r.timer = t := by simpa using List.find?_some hf
    rw [hout] at h ⊢
    simp only [mkCtx, List.reverse_cons, List.reverse_nil, List.nil_append, List.cons_append, List.mem_cons,
      Obs.send.injEq, List.mem_nil_iff, or_false] at h ⊢
    rcases h with ⟨rfl, rfl, rfl⟩ | h
    · exact ⟨p, r, oid, hp, hrp, htim, rfl, ho, hok, rfl, congrArg State.peers hst, rfl⟩
    · cases h

end Cjet.Daemon.C02
