/-
  C04 — `free_peer_resources`: exactly the leaving peer's elements vanish, well-formedness is kept.
-/
import Cjet.Lemmas.DaemonC04Handlers

namespace Cjet.Daemon.C04

open Cjet Cjet.Json Cjet.Daemon

theorem image_map_frame (ps : List Peer) (g : Peer → Peer)
    (h : ∀ p, (g p).conn = p.conn ∧ (g p).elements = p.elements) : image (ps.map g) = image ps :=
  image_map (fun p _ => ⟨(h p).1, by simp only [peerAbs, (h p).2]⟩)

/-- `free_peer_resources` up to (excluding) the removal of the elements: routes and fetches -/
def prep (x : Ctx) (c : Nat) (p : Peer) : Ctx :=
  let x := p.routes.foldl (fun x r => clearRoute x r c) x
  let x := { x with st := { x.st with peers := updatePeer x.st.peers c (fun q => { q with routes := [] }) } }
  let mine := x.st.peers.flatMap (fun q => q.routes.filter (·.requester == c))
  let x := mine.foldl (fun x r => clearRoute x r c) x
  let x := { x with st := { x.st with peers := x.st.peers.map (fun (q : Peer) => { q with routes := q.routes.filter (·.requester != c) }) } }
  let unsub : Element → Element := fun e => { e with fetchers := e.fetchers.map (fun s =>
    match s with | some fk => if fk.peer == c then none else some fk | none => none) }
  let ps := updatePeer (mapElements x.st.peers unsub) c (fun q => { q with fetches := [] })
  { x with st := { x.st with peers := ps } }

/-- one iteration of remove_all_elements_from_peer -/
def remStep (c : Nat) (x : Ctx) (e0 : Element) : Ctx :=
  match (findPeer x.st.peers c).bind (·.elements.find? (·.path == e0.path)) with
  | some e => removeElement x e
  | none => x

theorem freePeerResources_eq (x : Ctx) (c : Nat) :
    freePeerResources x c =
    match findPeer x.st.peers c with
    | none => x
    | some p =>
      let x6 := p.elements.foldl (remStep c) (prep x c p)
      { x6 with st := { x6.st with peers := x6.st.peers.filter (·.conn != c) } } := by
  unfold freePeerResources
  cases findPeer x.st.peers c with
  | none => rfl
  | some p => rfl

theorem prep_store (x : Ctx) (c : Nat) (p : Peer) : store (prep x c p).st = store x.st := by
  simp only [prep, store_def, foldl_clearRoute_st, image_updatePeer_frame, and_self, implies_true,
    Prod.mk.injEq, and_true]
  refine (image_mapElements ?_).trans ((image_map_frame _ _ ?_).trans (image_updatePeer_frame _ _ _ ?_))
  · intro _; rfl
  · intro _; exact ⟨rfl, rfl⟩
  · intro _; exact ⟨rfl, rfl⟩

/-- invariant of the removal loop -/
structure RemInv (c : Nat) (im0 : Image) (rest : List Element) (s : State) : Prop where
  wfs : WFS s
  others : (image s.peers).filter (·.1 != c) = im0.filter (·.1 != c)
  left : ∀ l, (c, l) ∈ image s.peers → ∀ y ∈ l, y.1 ∈ rest.map (·.path)

theorem remStep_inv {c : Nat} {im0 : Image} {e0 : Element} {rest : List Element} {x : Ctx}
    (h : RemInv c im0 (e0 :: rest) x.st) : RemInv c im0 rest (remStep c x e0).st := by
  unfold remStep
  cases hfp : findPeer x.st.peers c with
  | none =>
    simp only [Option.bind_none]
    refine ⟨h.wfs, h.others, ?_⟩
    intro l hl
    exfalso
    have := findPeer_none_iff.1 hfp
    rw [← image_conns] at this
    exact this (List.mem_map.2 ⟨(c, l), hl, rfl⟩)
  | some q =>
    simp only [Option.bind_some]
    obtain ⟨hm, hmem, hc⟩ := mem_image_of_findPeer hfp
    cases hf : q.elements.find? (·.path == e0.path) with
    | none =>
      simp only
      refine ⟨h.wfs, h.others, ?_⟩
      intro l hl y hy
      have hlq : l = peerAbs q := WFP.list_unique h.wfs hl hm
      subst hlq
      have := h.left _ hl y hy
      simp only [List.map_cons, List.mem_cons] at this
      rcases this with h1 | h1
      · exfalso
        obtain ⟨el, hel, rfl⟩ := List.mem_map.1 hy
        rw [List.find?_eq_none] at hf
        exact absurd (by simpa [entry] using h1) (hf el hel)
      · exact h1
    | some e =>
      simp only
      have h1 := List.find?_some hf
      have h2 := List.mem_of_find?_eq_some hf
      have hpath : e.path = e0.path := by simpa using h1
      have hent : entry e ∈ peerAbs q := List.mem_map.2 ⟨e, h2, rfl⟩
      have hown : e.owner = c := WFP.owner h.wfs c (peerAbs q) hm e.path (info e) hent
      have hst := removeElement_store x e
      rw [hown] at hst
      simp only [store_def, Prod.mk.injEq] at hst
      have hmut : Mut c (store x.st) (store (removeElement x e).st) := by
        simp only [store_def, hst.1, hst.2]
        exact Mut.remove _ _ _ (peerAbs q) (info e) hm hent
      refine ⟨hmut.wfp h.wfs, ?_, ?_⟩
      · rw [← h.others]; exact hmut.others
      · intro l hl y hy
        rw [hst.1] at hl
        obtain ⟨l1, hl1, rfl⟩ := mem_updImage.1 hl
        simp only [↓reduceIte, removeG, List.mem_filter, bne_iff_ne, ne_eq] at hy
        have := h.left l1 hl1 y hy.1
        simp only [List.map_cons, List.mem_cons] at this
        rcases this with h3 | h3
        · exact absurd (h3.trans hpath.symm) hy.2
        · exact h3

theorem remFold_inv {c : Nat} {im0 : Image} (es : List Element) {x : Ctx}
    (h : RemInv c im0 es x.st) : RemInv c im0 [] (es.foldl (remStep c) x).st := by
  induction es generalizing x with
  | nil => exact h
  | cons e0 rest ih =>
    simp only [List.foldl_cons]
    exact ih (remStep_inv h)

theorem freePeerResources_spec {x : Ctx} {c : Nat} (hwf : WFS x.st) :
    WFS (freePeerResources x c).st ∧
    image (freePeerResources x c).st.peers = (image x.st.peers).filter (·.1 != c) := by
  rw [freePeerResources_eq]
  cases hfp : findPeer x.st.peers c with
  | none =>
    refine ⟨hwf, ?_⟩
    have := findPeer_none_iff.1 hfp
    rw [← image_conns] at this
    symm
    rw [List.filter_eq_self]
    rintro ⟨o, l⟩ hm
    have : o ≠ c := by
      rintro rfl
      exact this (List.mem_map.2 ⟨(o, l), hm, rfl⟩)
    simpa using this
  | some p =>
    dsimp only
    obtain ⟨hm, hmem, hc⟩ := mem_image_of_findPeer hfp
    have hps := prep_store x c p
    have hps' := hps
    simp only [store_def, Prod.mk.injEq] at hps'
    have h0 : RemInv c (image x.st.peers) p.elements (prep x c p).st := by
      refine ⟨wfs_of_store_eq hps hwf, by rw [hps'.1], ?_⟩
      intro l hl y hy
      rw [hps'.1] at hl
      have hlq : l = peerAbs p := WFP.list_unique hwf hl hm
      subst hlq
      obtain ⟨el, hel, rfl⟩ := List.mem_map.1 hy
      exact List.mem_map.2 ⟨el, hel, rfl⟩
    have h1 := remFold_inv p.elements h0
    have hempty : ∀ l, (c, l) ∈ image (p.elements.foldl (remStep c) (prep x c p)).st.peers → l = [] := by
      intro l hl
      cases l with
      | nil => rfl
      | cons y ys =>
        have := h1.left _ hl y (List.mem_cons_self ..)
        simp at this
    have hdel := wfp_delete h1.wfs hempty
    constructor
    · show WFP _ _
      rw [image_filter]
      exact hdel
    · rw [image_filter]
      exact h1.others

theorem closePeer_st (x : Ctx) (c : Nat) : (closePeer x c).st = (freePeerResources x c).st := rfl

end Cjet.Daemon.C04
