/-
  C04 — the three ways a request of peer `c` can change the element store, on images:
  membership characterisations, preservation of well-formedness, and "nobody else's elements move".
-/
import Cjet.Lemmas.DaemonC04Fetch

namespace Cjet.Daemon.C04

open Cjet Cjet.Json Cjet.Daemon

abbrev Store := Image × List (Bytes × Nat)

def addG (path : Bytes) (i : ElemInfo) : List Entry → List Entry := (· ++ [(path, i)])
def removeG (path : Bytes) : List Entry → List Entry := (·.filter (·.1 != path))
def changeG (path : Bytes) (i' : ElemInfo) : List Entry → List Entry :=
  (·.map (fun x => if x.1 == path then (path, i') else x))

def setValue (i : ElemInfo) (v : Json) : ElemInfo := { i with value := some v }

/-- the ways one request of peer `c` may change the element store -/
inductive Mut (c : Nat) : Store → Store → Prop
  | add (im idx path i) : (∀ o, (path, o) ∉ idx) → c ∈ im.map (·.1) → i.owner = c →
      Mut c (im, idx) (updImage im c (addG path i), idx ++ [(path, c)])
  | remove (im idx path l i) : (c, l) ∈ im → (path, i) ∈ l →
      Mut c (im, idx) (updImage im c (removeG path), removeIndex idx path)
  | change (im idx path l i v) : (c, l) ∈ im → (path, i) ∈ l →
      Mut c (im, idx) (updImage im c (changeG path (setValue i v)), idx)

theorem Mut.wfp {c : Nat} {st st' : Store} (h : Mut c st st') (hwf : WFP st.1 st.2) : WFP st'.1 st'.2 := by
  cases h with
  | add im idx path i hfree hc hi => exact wfp_add hwf hfree hc hi
  | remove im idx path l i hl hi => exact wfp_remove hwf hl hi
  | change im idx path l i v hl hi =>
    exact wfp_change hwf (by simp only [setValue]; exact hwf.owner c l hl path i hi)

theorem updImage_filter_ne (im : Image) (c : Nat) (g) :
    (updImage im c g).filter (·.1 != c) = im.filter (·.1 != c) := by
  induction im with
  | nil => rfl
  | cons hd tl ih =>
    obtain ⟨o, l⟩ := hd
    simp only [updImage, List.map_cons] at ih ⊢
    by_cases hoc : o = c
    · subst hoc
      simp only [beq_self_eq_true, ↓reduceIte, List.filter_cons, bne_self_eq_false, Bool.false_eq_true, ih]
    · have h1 : (o == c) = false := by simpa using hoc
      have h2 : (o != c) = true := by simpa using hoc
      simp only [h1, Bool.false_eq_true, ↓reduceIte, List.filter_cons, h2, ih]

theorem Mut.others {c : Nat} {st st' : Store} (h : Mut c st st') :
    st'.1.filter (·.1 != c) = st.1.filter (·.1 != c) := by
  cases h <;> exact updImage_filter_ne ..

/-- under the owner invariant, the elements not owned by `c` are those of the peers other than `c` -/
theorem imElems_filter_owner {im : Image} (h : ∀ o l, (o, l) ∈ im → ∀ q i, (q, i) ∈ l → i.owner = o) (c : Nat) :
    (imElems im).filter (fun x => x.2.owner != c) = imElems (im.filter (·.1 != c)) := by
  induction im with
  | nil => rfl
  | cons hd tl ih =>
    obtain ⟨o, l⟩ := hd
    have ih := ih (fun o l hm => h o l (List.mem_cons_of_mem _ hm))
    have hl := h o l (List.mem_cons_self ..)
    have hcons : imElems ((o, l) :: tl) = l ++ imElems tl := by simp [imElems]
    rw [hcons, List.filter_append, ih]
    by_cases hoc : o = c
    · subst hoc
      have : l.filter (fun x => x.2.owner != o) = [] := by
        rw [List.filter_eq_nil_iff]
        rintro ⟨q, i⟩ hx
        simp [hl q i hx]
      simp only [this, List.nil_append, List.filter_cons, bne_self_eq_false, Bool.false_eq_true, ↓reduceIte]
    · have h2 : (o != c) = true := by simpa using hoc
      have : l.filter (fun x => x.2.owner != c) = l := by
        rw [List.filter_eq_self]
        rintro ⟨q, i⟩ hx
        simp only [hl q i hx, h2]
      simp only [this, List.filter_cons, h2, ↓reduceIte]
      simp [imElems]

/-! ## membership after an update -/

theorem mem_imElems_updImage {im : Image} {c : Nat} {g} {x : Entry} :
    x ∈ imElems (updImage im c g) ↔ ∃ o l, (o, l) ∈ im ∧ x ∈ (if o = c then g l else l) := by
  rw [mem_imElems]
  constructor
  · rintro ⟨o, l', hm, hx⟩
    obtain ⟨l, hl, rfl⟩ := mem_updImage.1 hm
    exact ⟨o, l, hl, hx⟩
  · rintro ⟨o, l, hl, hx⟩
    exact ⟨o, _, mem_updImage.2 ⟨l, hl, rfl⟩, hx⟩

theorem mem_imElems_add {im : Image} {c : Nat} {path : Bytes} {i : ElemInfo} (hc : c ∈ im.map (·.1)) {x : Entry} :
    x ∈ imElems (updImage im c (addG path i)) ↔ x ∈ imElems im ∨ x = (path, i) := by
  rw [mem_imElems_updImage, mem_imElems]
  constructor
  · rintro ⟨o, l, hl, hx⟩
    split at hx
    · simp only [addG, List.mem_append, List.mem_singleton] at hx
      rcases hx with hx | hx
      · exact Or.inl ⟨o, l, hl, hx⟩
      · exact Or.inr hx
    · exact Or.inl ⟨o, l, hl, hx⟩
  · rintro (⟨o, l, hl, hx⟩ | rfl)
    · refine ⟨o, l, hl, ?_⟩
      split
      · exact List.mem_append_left _ hx
      · exact hx
    · obtain ⟨⟨o, l⟩, hl, rfl⟩ := List.mem_map.1 hc
      exact ⟨o, l, hl, by simp [addG]⟩

theorem mem_imElems_remove {im : Image} {idx} (hwf : WFP im idx) {c : Nat} {path : Bytes} {l0 : List Entry}
    {i0 : ElemInfo} (hl0 : (c, l0) ∈ im) (hi0 : (path, i0) ∈ l0) {x : Entry} :
    x ∈ imElems (updImage im c (removeG path)) ↔ x ∈ imElems im ∧ x.1 ≠ path := by
  rw [mem_imElems_updImage, mem_imElems]
  constructor
  · rintro ⟨o, l, hl, hx⟩
    by_cases hoc : o = c
    · simp only [hoc, ↓reduceIte, removeG, List.mem_filter, bne_iff_ne, ne_eq] at hx
      exact ⟨⟨o, l, hl, hx.1⟩, hx.2⟩
    · simp only [hoc, ↓reduceIte] at hx
      refine ⟨⟨o, l, hl, hx⟩, ?_⟩
      intro hp
      obtain ⟨q, i⟩ := x
      simp only at hp
      subst hp
      exact hoc (hwf.glob o l c l0 q i i0 hl hl0 hx hi0)
  · rintro ⟨⟨o, l, hl, hx⟩, hne⟩
    refine ⟨o, l, hl, ?_⟩
    split
    · simp only [removeG, List.mem_filter, bne_iff_ne, ne_eq]; exact ⟨hx, hne⟩
    · exact hx

theorem mem_imElems_change {im : Image} {idx} (hwf : WFP im idx) {c : Nat} {path : Bytes} {l0 : List Entry}
    {i0 i' : ElemInfo} (hl0 : (c, l0) ∈ im) (hi0 : (path, i0) ∈ l0) {x : Entry} :
    x ∈ imElems (updImage im c (changeG path i')) ↔ (x ∈ imElems im ∧ x.1 ≠ path) ∨ x = (path, i') := by
  rw [mem_imElems_updImage, mem_imElems]
  constructor
  · rintro ⟨o, l, hl, hx⟩
    by_cases hoc : o = c
    · simp only [hoc, ↓reduceIte, changeG, List.mem_map] at hx
      obtain ⟨y, hy, hyx⟩ := hx
      split at hyx
      · exact Or.inr hyx.symm
      · rename_i hne
        subst hyx
        exact Or.inl ⟨⟨o, l, hl, hy⟩, by simpa using hne⟩
    · simp only [hoc, ↓reduceIte] at hx
      refine Or.inl ⟨⟨o, l, hl, hx⟩, ?_⟩
      intro hp
      obtain ⟨q, i⟩ := x
      simp only at hp
      subst hp
      exact hoc (hwf.glob o l c l0 q i i0 hl hl0 hx hi0)
  · rintro (⟨⟨o, l, hl, hx⟩, hne⟩ | rfl)
    · refine ⟨o, l, hl, ?_⟩
      split
      · simp only [changeG, List.mem_map]
        refine ⟨x, hx, ?_⟩
        have : (x.1 == path) = false := by simpa using hne
        simp [this]
      · exact hx
    · refine ⟨c, l0, hl0, ?_⟩
      simp only [↓reduceIte, changeG, List.mem_map]
      exact ⟨(path, i0), hi0, by simp⟩

end Cjet.Daemon.C04
