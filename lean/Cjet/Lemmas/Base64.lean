import Cjet.Base64
/-! Helper lemmas: length of the base64 encoding; the specification decoder inverts `b64_encode_buffer`. -/
namespace Cjet.Base64
open Cjet.Generated.Ws

theorem encTriple_length (a b c n : Nat) : (encTriple a b c n).length = 4 := by simp [encTriple]

theorem encode_length (bs : Bytes) : (encode bs).length = encodedLength bs.length := by
  fun_induction encode bs with
  | case1 => simp [encodedLength]
  | case2 a => simp [encodedLength, encTriple]
  | case3 a b => simp [encodedLength, encTriple]
  | case4 a b c rest ih =>
    simp only [List.length_append, encTriple_length, ih, encodedLength, List.length_cons]
    omega

/-- the table is injective: position of the i-th character is i -/
theorem charIndex_tableChar : ∀ i : Fin 64, charIndex (tableChar i.val) = some i.val := by decide

theorem tableChar_ne_pad : ∀ i : Fin 64, (tableChar i.val == pad) = false := by decide

/-- sextets of a byte triple, arithmetically -/
theorem sextets (a b c : UInt8) :
    a.toNat >>> 2 = a.toNat / 4 ∧
    ((a.toNat &&& 0x03) <<< 4) ||| ((b.toNat &&& 0xf0) >>> 4) = (a.toNat % 4) * 16 + b.toNat / 16 ∧
    ((b.toNat &&& 0x0f) <<< 2) ||| ((c.toNat &&& 0xc0) >>> 6) = (b.toNat % 16) * 4 + c.toNat / 64 ∧
    c.toNat &&& 0x3f = c.toNat % 64 := by
  have h1 : ∀ x : Fin 256, x.val >>> 2 = x.val / 4 ∧ (x.val &&& 0x03) <<< 4 = (x.val % 4) * 16 ∧
      (x.val &&& 0xf0) >>> 4 = x.val / 16 ∧ (x.val &&& 0x0f) <<< 2 = (x.val % 16) * 4 ∧
      (x.val &&& 0xc0) >>> 6 = x.val / 64 ∧ x.val &&& 0x3f = x.val % 64 := by decide +kernel
  have h2 : ∀ p : Fin 4, ∀ q : Fin 16, (p.val * 16) ||| q.val = p.val * 16 + q.val := by decide +kernel
  have h3 : ∀ p : Fin 16, ∀ q : Fin 4, (p.val * 4) ||| q.val = p.val * 4 + q.val := by decide +kernel
  have ha := h1 ⟨a.toNat, a.toNat_lt⟩
  have hb := h1 ⟨b.toNat, b.toNat_lt⟩
  have hc := h1 ⟨c.toNat, c.toNat_lt⟩
  simp only at ha hb hc
  refine ⟨ha.1, ?_, ?_, hc.2.2.2.2.2⟩
  · rw [ha.2.1, hb.2.2.1]
    exact h2 ⟨a.toNat % 4, Nat.mod_lt _ (by omega)⟩ ⟨b.toNat / 16, by have := b.toNat_lt; omega⟩
  · rw [hb.2.2.2.1, hc.2.2.2.2.1]
    exact h3 ⟨b.toNat % 16, Nat.mod_lt _ (by omega)⟩ ⟨c.toNat / 64, by have := c.toNat_lt; omega⟩


theorem tableChar_ne_pad' (i : Nat) (h : i < 64) : (tableChar i == pad) = false := tableChar_ne_pad ⟨i, h⟩
theorem charIndex_tableChar' (i : Nat) (h : i < 64) : charIndex (tableChar i) = some i := charIndex_tableChar ⟨i, h⟩

theorem decQuad_three (v0 v1 v2 v3 : Nat) (h0 : v0 < 64) (h1 : v1 < 64) (h2 : v2 < 64) (h3 : v3 < 64) :
    decQuad (tableChar v0) (tableChar v1) (tableChar v2) (tableChar v3) =
      some [UInt8.ofNat (v0 * 4 + v1 / 16), UInt8.ofNat ((v1 % 16) * 16 + v2 / 4), UInt8.ofNat ((v2 % 4) * 64 + v3)] := by
  simp [decQuad, charIndex_tableChar' _ h0, charIndex_tableChar' _ h1, charIndex_tableChar' _ h2,
    charIndex_tableChar' _ h3, tableChar_ne_pad' _ h2, tableChar_ne_pad' _ h3]

theorem decQuad_two (v0 v1 v2 : Nat) (h0 : v0 < 64) (h1 : v1 < 64) (h2 : v2 < 64) :
    decQuad (tableChar v0) (tableChar v1) (tableChar v2) pad =
      some [UInt8.ofNat (v0 * 4 + v1 / 16), UInt8.ofNat ((v1 % 16) * 16 + v2 / 4)] := by
  simp [decQuad, charIndex_tableChar' _ h0, charIndex_tableChar' _ h1, charIndex_tableChar' _ h2,
    tableChar_ne_pad' _ h2]

theorem decQuad_one (v0 v1 : Nat) (h0 : v0 < 64) (h1 : v1 < 64) :
    decQuad (tableChar v0) (tableChar v1) pad pad = some [UInt8.ofNat (v0 * 4 + v1 / 16)] := by
  simp [decQuad, charIndex_tableChar' _ h0, charIndex_tableChar' _ h1]

theorem ofNat_toNat' (a : UInt8) (n : Nat) (h : n = a.toNat) : UInt8.ofNat n = a := by
  subst h; simp

theorem decQuad_encTriple3 (a b c : UInt8) :
    decQuad (tableChar (a.toNat >>> 2)) (tableChar (((a.toNat &&& 0x03) <<< 4) ||| ((b.toNat &&& 0xf0) >>> 4)))
      (tableChar (((b.toNat &&& 0x0f) <<< 2) ||| ((c.toNat &&& 0xc0) >>> 6))) (tableChar (c.toNat &&& 0x3f)) = some [a, b, c] := by
  obtain ⟨e0, e1, e2, e3⟩ := sextets a b c
  have ha := a.toNat_lt
  have hb := b.toNat_lt
  have hc := c.toNat_lt
  rw [e0, e1, e2, e3, decQuad_three _ _ _ _ (by omega) (by omega) (by omega) (by omega)]
  congr 1
  rw [ofNat_toNat' a _ (by omega), ofNat_toNat' b _ (by omega), ofNat_toNat' c _ (by omega)]

theorem decode_encode (bs : Bytes) : decode (encode bs) = some bs := by
  fun_induction encode bs with
  | case1 => simp [decode]
  | case2 a =>
    obtain ⟨e0, e1, _, _⟩ := sextets a 0 0
    have ha := a.toNat_lt
    simp only [encTriple, if_false, show ¬ (1 > 1) by omega, show ¬ (1 > 2) by omega, decode]
    have e1' : ((a.toNat &&& 0x03) <<< 4) ||| ((0 &&& 0xf0) >>> 4) = (a.toNat % 4) * 16 := by simpa using e1
    rw [e0, e1', decQuad_one _ _ (by omega) (by omega)]
    congr 2
    exact ofNat_toNat' a _ (by omega)
  | case3 a b =>
    obtain ⟨e0, e1, e2, _⟩ := sextets a b 0
    have ha := a.toNat_lt
    have hb := b.toNat_lt
    simp only [encTriple, show (2 > 1) by omega, if_true, show ¬ (2 > 2) by omega, if_false, decode]
    have e2' : ((b.toNat &&& 0x0f) <<< 2) ||| ((0 &&& 0xc0) >>> 6) = (b.toNat % 16) * 4 := by simpa using e2
    rw [e0, e1, e2', decQuad_two _ _ _ (by omega) (by omega) (by omega)]
    rw [ofNat_toNat' a _ (by omega), ofNat_toNat' b _ (by omega)]
  | case4 a b c rest ih =>
    obtain ⟨e0, e1, e2, e3⟩ := sextets a b c
    have ha := a.toNat_lt
    have hb := b.toNat_lt
    have hc := c.toNat_lt
    have hq := decQuad_encTriple3 a b c
    simp only [encTriple, show (3 > 1) by omega, show (3 > 2) by omega, if_true, List.cons_append, List.nil_append]
    cases hrest : encode rest with
    | nil =>
      have : rest = [] := by
        cases rest with
        | nil => rfl
        | cons x xs =>
          have := encode_length (x :: xs)
          rw [hrest] at this
          simp [encodedLength] at this
          omega
      subst this
      simp only [decode, hq]
    | cons x xs =>
      rw [hrest] at ih
      have n2 : (tableChar (((b.toNat &&& 0x0f) <<< 2) ||| ((c.toNat &&& 0xc0) >>> 6)) == pad) = false := by
        rw [e2]; exact tableChar_ne_pad' _ (by omega)
      have n3 : (tableChar (c.toNat &&& 0x3f) == pad) = false := by
        rw [e3]; exact tableChar_ne_pad' _ (by omega)
      simp only [decode, n2, n3, Bool.or_self, Bool.false_eq_true, if_false, hq, ih]
      simp


end Cjet.Base64
