/-
  DaemonC03Final — the routing functions at the level of `step`: what one set/call request, one
  routing response, one timer expiry and one disconnect do to the state and to the outputs.
-/
import Cjet.Lemmas.DaemonC03Exact
import Cjet.Lemmas.DaemonC03Step
import Cjet.Lemmas.DaemonC03Elem

namespace Cjet.Daemon.C03

open Cjet Cjet.Json Cjet.Daemon

/-! ## lookups after updates -/

theorem findPeer_updatePeer (ps : List Peer) (c o : Nat) (f : Peer → Peer) (hf : ∀ q, (f q).conn = q.conn) :
    findPeer (updatePeer ps o f) c = (findPeer ps c).map (fun q => if q.conn == o then f q else q) := by
  unfold findPeer updatePeer
  rw [List.find?_map]
  have : ((fun x : Peer => x.conn == c) ∘ fun p => if (p.conn == o) = true then f p else p)
      = (fun x : Peer => x.conn == c) := by
    funext q
    simp only [Function.comp]
    split
    · rw [hf]
    · rfl
  rw [this]

theorem findPeer_removeRoute (ps : List Peer) (c o : Nat) (rid : Bytes) :
    findPeer (removeRoute ps o rid) c =
      (findPeer ps c).map (fun q => if q.conn == o then { q with routes := q.routes.filter (·.rid != rid) } else q) :=
  findPeer_updatePeer ps c o _ (fun _ => rfl)

theorem findPeer_addRoute (ps : List Peer) (c o : Nat) (r : Route) :
    findPeer (updatePeer ps o (fun q => { q with routes := q.routes ++ [r] })) c =
      (findPeer ps c).map (fun q => if q.conn == o then { q with routes := q.routes ++ [r] } else q) :=
  findPeer_updatePeer ps c o _ (fun _ => rfl)

/-- the new entry is stored in the owner's table when the owner is connected -/
theorem stored_addRoute {s : State} {r : Route} {q : Peer} (hq : findPeer s.peers r.owner = some q)
    (s' : State) (hs' : s'.peers = updatePeer s.peers r.owner (fun q => { q with routes := q.routes ++ [r] })) :
    Stored s' r := by
  unfold Stored
  rw [hs', findPeer_addRoute, hq]
  refine ⟨_, rfl, ?_⟩
  simp [findPeer_conn hq]

/-- after `removeRoute o rid` the table of `o` holds no entry with that id -/
theorem no_rid_after_removeRoute (ps : List Peer) (o : Nat) (rid : Bytes) (p' : Peer)
    (hp' : findPeer (removeRoute ps o rid) o = some p') : ∀ r' ∈ p'.routes, r'.rid ≠ rid := by
  rw [findPeer_removeRoute] at hp'
  cases hq : findPeer ps o with
  | none => rw [hq] at hp'; cases hp'
  | some q =>
    rw [hq] at hp'
    simp only [Option.map_some, findPeer_conn hq, beq_self_eq_true, ↓reduceIte, Option.some.injEq] at hp'
    subst hp'
    intro r' hr'
    simpa using (List.mem_filter.mp hr').2

/-! ## one request object -/

theorem handleMethod_set (cfg : Config) (x : Ctx) (p : Peer) (req : Json) :
    handleMethod cfg x p req (k "set") = setOrCall cfg x p req true := by
  unfold handleMethod
  have h1 : (k "set" == k "change") = false := by decide +kernel
  have h2 : (k "set" == k "set") = true := by decide +kernel
  simp only [h1, h2, Bool.false_eq_true, ↓reduceIte]

theorem handleMethod_call (cfg : Config) (x : Ctx) (p : Peer) (req : Json) :
    handleMethod cfg x p req (k "call") = setOrCall cfg x p req false := by
  unfold handleMethod
  have h1 : (k "call" == k "change") = false := by decide +kernel
  have h2 : (k "call" == k "set") = false := by decide +kernel
  have h3 : (k "call" == k "call") = true := by decide +kernel
  simp only [h1, h2, h3, Bool.false_eq_true, ↓reduceIte]

/-- the method name of a set (`true`) or call (`false`) request -/
def routeMethod (isState : Bool) : Bytes := if isState then k "set" else k "call"

theorem handleMethod_route (cfg : Config) (x : Ctx) (p : Peer) (req : Json) (isState : Bool) :
    handleMethod cfg x p req (routeMethod isState) = setOrCall cfg x p req isState := by
  cases isState
  · exact handleMethod_call cfg x p req
  · exact handleMethod_set cfg x p req

theorem parseJsonRpc_route {cfg : Config} {x : Ctx} {c : Nat} {p : Peer} {req : Json} {isState : Bool}
    (hp : findPeer x.st.peers c = some p)
    (hm : req.getItem (k "method") = some (.str (routeMethod isState))) :
    parseJsonRpc cfg x c req =
      sendResponse (setOrCall cfg x p req isState).1 c (setOrCall cfg x p req isState).2 := by
  unfold parseJsonRpc
  simp only [hp, hm, handleMethod_route]

/-- `req` is a routing response carrying `payload` as its result (`typ = "result"`) or, if it has
    no result member, as its error (`typ = "error"`) -/
def IsResponse (req : Json) (payload : Json) (typ : String) : Prop :=
  req.getItem (k "method") = none ∧
  ((typ = "result" ∧ req.getItem (k "result") = some payload) ∨
   (typ = "error" ∧ req.getItem (k "result") = none ∧ req.getItem (k "error") = some payload))

theorem parseJsonRpc_response {cfg : Config} {x : Ctx} {c : Nat} {p : Peer} {req payload : Json} {typ : String}
    (hp : findPeer x.st.peers c = some p) (hr : IsResponse req payload typ) :
    parseJsonRpc cfg x c req = routingResponse x p req payload typ := by
  unfold parseJsonRpc
  obtain ⟨hm, h | h⟩ := hr
  · simp only [hp, hm, h.2, h.1]
  · simp only [hp, hm, h.2.1, h.2.2, h.1]

theorem step_single (cfg : Config) (s : State) (c : Nat) (o : Oracle) (members : List (Bytes × Json))
    (hlive : (findPeer s.peers c).isSome = true) :
    step cfg s (.message c (some (.obj members)) o) =
      (let y := parseJsonRpc cfg (mkCtx s o) c (.obj members)
       let x := if y.2 then y.1 else closePeer y.1 c
       (x.st, x.out.reverse)) := by
  rw [step_message]
  have : (findPeer s.peers c).isNone = false := by
    cases h : findPeer s.peers c <;> simp_all
  simp only [this, Bool.false_eq_true, ↓reduceIte]
  rfl

/-! ## the reply of the owner -/

theorem table_rids_nodup {s : State} (h : RidsWf s) {p : Peer} (hp : p ∈ s.peers) : (p.routes.map (·.rid)).Nodup :=
  List.Nodup.sublist ((table_sublist_vRoutes (mem_map_pview hp)).map _) h.rids

theorem allRoutes_timers_nodup {s : State} (h : RoutesWf s) : ((s.peers.flatMap (·.routes)).map (·.timer)).Nodup := by
  have := h.timers
  rwa [vRoutes_map_pview] at this

theorem stored_mem_allRoutes {s : State} {r : Route} (h : Stored s r) : r ∈ s.peers.flatMap (·.routes) := by
  obtain ⟨p, hp, hr⟩ := h
  exact List.mem_flatMap.mpr ⟨p, findPeer_mem hp, hr⟩

/-- The step of a message that consists of one routing response of `r`'s owner with `r`'s id:
    the entry is removed, its timer destroyed, and the answer — the owner's payload under the
    caller's original id — is sent to the requester (nothing if the caller had no id). -/
theorem step_reply (cfg : Config) (s : State) (orc : Oracle) (members : List (Bytes × Json))
    (payload : Json) (typ : String) (r : Route) (hr : RidsWf s) (hin : Stored s r)
    (hresp : IsResponse (.obj members) payload typ)
    (hid : (Json.obj members).getItem (k "id") = some (.str r.rid)) :
    step cfg s (.message r.owner (some (.obj members)) orc) =
      ({ s with peers := removeRoute s.peers r.owner r.rid },
       .timerDestroy r.timer :: answerSends r.requester (replyAnswer r payload typ) (orc.sends.headD true)) := by
  obtain ⟨p, hp, hrp⟩ := hin
  rw [step_single cfg s r.owner orc members (by rw [hp]; rfl)]
  rw [parseJsonRpc_response (by simpa using hp) hresp]
  have hfind := find?_rid_of_nodup (table_rids_nodup hr (findPeer_mem hp)) hrp
  rw [routingResponse_hit hid hfind]
  dsimp only
  simp only [↓reduceIte, answer_st, emit_st, answer_out, emit_out, mkCtx_out, List.reverse_append,
    List.reverse_cons, List.reverse_nil, List.nil_append, findPeer_conn hp]
  refine Prod.ext rfl ?_
  show [Obs.timerDestroy r.timer] ++ (answerSends r.requester (replyAnswer r payload typ) _).reverse = _
  cases replyAnswer r payload typ <;> rfl

/-- a response whose id matches no entry of the replier's own table: nothing happens -/
theorem step_reply_miss (cfg : Config) (s : State) (c : Nat) (orc : Oracle) (members : List (Bytes × Json))
    (payload : Json) (typ : String) (rid : Bytes) (p : Peer) (hp : findPeer s.peers c = some p)
    (hresp : IsResponse (.obj members) payload typ)
    (hid : (Json.obj members).getItem (k "id") = some (.str rid))
    (hmiss : ∀ r ∈ p.routes, r.rid ≠ rid) :
    step cfg s (.message c (some (.obj members)) orc) = (s, []) := by
  rw [step_single cfg s c orc members (by rw [hp]; rfl)]
  rw [parseJsonRpc_response (by simpa using hp) hresp]
  have hfind : p.routes.find? (·.rid == rid) = none := by
    rw [List.find?_eq_none]
    intro r hr
    simpa using hmiss r hr
  rw [routingResponse_miss hid hfind]
  rfl

/-! ## the expiry of the timer -/

theorem step_timeout (cfg : Config) (s : State) (orc : Oracle) (r : Route) (hw : RoutesWf s) (hin : Stored s r) :
    step cfg s (.timerFire r.timer orc) =
      ({ s with peers := removeRoute s.peers r.owner r.rid },
       answerSends r.requester (timeoutAnswer r) (orc.sends.headD true) ++ [.timerDestroy r.timer]) := by
  rw [step_timerFire]
  have hfind := find?_timer_of_nodup (allRoutes_timers_nodup hw) (stored_mem_allRoutes hin)
  rw [timeoutFired_hit (x := mkCtx s orc) hfind]
  simp only [emit_st, answer_st, emit_out, answer_out, mkCtx_out, List.append_nil, List.reverse_cons]
  refine Prod.ext rfl ?_
  show (answerSends r.requester (timeoutAnswer r) _).reverse ++ _ = _
  cases timeoutAnswer r <;> rfl

/-- the expiry of a timer no stored entry carries (e.g. the entry was answered first): nothing happens -/
theorem step_timeout_miss (cfg : Config) (s : State) (orc : Oracle) (t : Nat)
    (h : ∀ r ∈ s.peers.flatMap (·.routes), r.timer ≠ t) : step cfg s (.timerFire t orc) = (s, []) := by
  rw [step_timerFire]
  have hfind : ((mkCtx s orc).st.peers.flatMap (·.routes)).find? (·.timer == t) = none := by
    rw [List.find?_eq_none]
    intro r hr
    simpa using h r hr
  rw [timeoutFired_miss hfind]
  rfl

/-- after a resolver, the entry is not stored any more -/
theorem not_stored_after_remove (s : State) (r : Route) :
    ¬ Stored { s with peers := removeRoute s.peers r.owner r.rid } r := by
  rintro ⟨p', hp', hr'⟩
  exact no_rid_after_removeRoute s.peers r.owner r.rid p' hp' r hr' rfl

end Cjet.Daemon.C03
