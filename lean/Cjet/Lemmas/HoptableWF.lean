import Cjet.Lemmas.HoptableBasic

/-! Helper lemmas for C17: consequences of `WF`, and how `WF` / `Maps` / `NoStale` change under the
four elementary state transformations (overwrite a value, insert, move, remove), each stated
pointwise so that they do not depend on how the table is stored. -/

set_option linter.unusedSectionVars false
set_option linter.unusedVariables false

namespace Cjet.Hoptable

section
variable {K V : Type} [DecidableEq K] [Inhabited V]
variable {N : Nat} {hash : K → Nat} {t t' : Table K V}

theorem WF.ptr_inj (wf : WF N hash t) {h d h' d' : Nat}
    (hh : h < N) (hd : d < W) (hb : Bit t h d) (hh' : h' < N) (hd' : d' < W) (hb' : Bit t h' d')
    (e : (h + d) % N = (h' + d') % N) : h = h' ∧ d = d' := by
  obtain ⟨hdN, k, hk, hhk⟩ := wf.bits h hh d hd hb
  obtain ⟨hdN', k', hk', hhk'⟩ := wf.bits h' hh' d' hd' hb'
  rw [e, hk'] at hk
  injection hk with hk
  subst hk
  have : h = h' := by rw [← hhk, ← hhk']
  subst this
  exact ⟨rfl, add_mod_inj hh hdN hdN' e⟩

theorem WF.live_key (wf : WF N hash t) {p : Nat} (hl : Live N t p) :
    ∃ k, (slot t p).key = some k := by
  obtain ⟨h, hh, d, hd, hb, hp⟩ := hl
  obtain ⟨_, k, hk, _⟩ := wf.bits h hh d hd hb
  exact ⟨k, hp ▸ hk⟩

theorem WF.not_live_of_none (wf : WF N hash t) {p : Nat} (hk : (slot t p).key = none) :
    ¬ Live N t p := by
  intro hl
  obtain ⟨k, hk'⟩ := wf.live_key hl
  rw [hk] at hk'; cases hk'

theorem live_lt (hN : 0 < N) {p : Nat} (hl : Live N t p) : p < N := by
  obtain ⟨h, _, d, _, _, hp⟩ := hl
  rw [← hp]; exact Nat.mod_lt _ hN

/-- a mapping is always found through the bitmap of the key's home bucket -/
theorem WF.maps_home (wf : WF N hash t) {k : K} {v : V} (m : Maps N t k v) :
    hash k < N ∧ ∃ d, d < W ∧ Bit t (hash k) d ∧
      (slot t ((hash k + d) % N)).key = some k ∧ (slot t ((hash k + d) % N)).val = v := by
  obtain ⟨h, hh, d, hd, hb, hk, hv⟩ := m
  obtain ⟨_, k', hk', hhk⟩ := wf.bits h hh d hd hb
  rw [hk] at hk'
  injection hk' with hk'
  subst hk'
  rw [hhk]
  exact ⟨hh, d, hd, hb, hk, hv⟩

theorem WF.maps_fun (wf : WF N hash t) {k : K} {v v' : V} (m : Maps N t k v) (m' : Maps N t k v') :
    v = v' := by
  obtain ⟨h, hh, d, hd, hb, hk, hv⟩ := m
  obtain ⟨h', hh', d', hd', hb', hk', hv'⟩ := m'
  have := wf.unique _ _ k ⟨h, hh, d, hd, hb, rfl⟩ ⟨h', hh', d', hd', hb', rfl⟩ hk hk'
  rw [← hv, ← hv', this]

/-- a live slot holding key `k` witnesses `Maps` -/
theorem maps_of_live {p : Nat} {k : K} (hl : Live N t p) (hk : (slot t p).key = some k) :
    Maps N t k (slot t p).val := by
  obtain ⟨h, hh, d, hd, hb, hp⟩ := hl
  exact ⟨h, hh, d, hd, hb, hp ▸ hk, hp ▸ rfl⟩

theorem maps_live {k : K} {v : V} (m : Maps N t k v) :
    ∃ p, Live N t p ∧ (slot t p).key = some k ∧ (slot t p).val = v := by
  obtain ⟨h, hh, d, hd, hb, hk, hv⟩ := m
  exact ⟨_, ⟨h, hh, d, hd, hb, rfl⟩, hk, hv⟩

/-! ### overwrite the value of a live slot -/

theorem setval_spec (wf : WF N hash t) (hsz : t'.size = N) {p : Nat} {k : K} {v : V}
    (hH : ∀ j, (slot t' j).hop = (slot t j).hop)
    (hK : ∀ j, (slot t' j).key = (slot t j).key)
    (hV : ∀ j, (slot t' j).val = if j = p then v else (slot t j).val)
    (hp : Live N t p) (hk : (slot t p).key = some k) :
    WF N hash t' ∧ (NoStale N t → NoStale N t') ∧
      ∀ k' v', Maps N t' k' v' ↔ (k' = k ∧ v' = v) ∨ (k' ≠ k ∧ Maps N t k' v') := by
  have hB : ∀ h d, Bit t' h d ↔ Bit t h d := by intro h d; unfold Bit; rw [hH]
  have hL : ∀ q, Live N t' q ↔ Live N t q := by
    intro q; unfold Live; simp only [hB]
  refine ⟨⟨hsz, ?_, ?_⟩, ?_, ?_⟩
  · intro h hh d hd hb
    rw [hK]; exact wf.bits h hh d hd ((hB h d).1 hb)
  · intro a b k' ha hb hka hkb
    rw [hK] at hka hkb
    exact wf.unique a b k' ((hL a).1 ha) ((hL b).1 hb) hka hkb
  · intro ns q hq hkq
    rw [hK] at hkq
    exact (hL q).2 (ns q hq hkq)
  · intro k' v'
    constructor
    · intro m
      obtain ⟨q, hlq, hkq, hvq⟩ := maps_live m
      rw [hL] at hlq; rw [hK] at hkq; rw [hV] at hvq
      by_cases hqp : q = p
      · subst hqp
        rw [hk] at hkq; injection hkq with hkq
        simp at hvq
        exact Or.inl ⟨hkq.symm, hvq.symm⟩
      · simp [hqp] at hvq
        refine Or.inr ⟨?_, hvq ▸ maps_of_live hlq hkq⟩
        intro e; subst e
        exact hqp (wf.unique q p k' hlq hp hkq hk)
    · rintro (⟨rfl, rfl⟩ | ⟨hne, m⟩)
      · have := maps_of_live ((hL p).2 hp) ((hK p).trans hk)
        rw [hV] at this; simpa using this
      · obtain ⟨q, hlq, hkq, hvq⟩ := maps_live m
        have hqp : q ≠ p := by
          intro e; subst e; rw [hk] at hkq; injection hkq with hkq; exact hne hkq.symm
        have := maps_of_live ((hL q).2 hlq) ((hK q).trans hkq)
        rw [hV] at this; simp [hqp] at this
        rw [hvq] at this; exact this

theorem maps_iff_live {k : K} {v : V} :
    Maps N t k v ↔ ∃ p, Live N t p ∧ (slot t p).key = some k ∧ (slot t p).val = v :=
  ⟨maps_live, fun ⟨_, hl, hk, hv⟩ => hv ▸ maps_of_live hl hk⟩

/-! ### insert a new entry into a slot that is not live -/

theorem insert_spec (wf : WF N hash t) (hsz : t'.size = N) {h fd fp : Nat} {k : K} {v : V}
    (hh : h < N) (hfd : fd < W) (hfdN : fd < N) (hfp : (h + fd) % N = fp)
    (hnl : ¬ Live N t fp) (hhash : hash k = h) (habs : ∀ v, ¬ Maps N t k v)
    (hB : ∀ h' d', Bit t' h' d' ↔ (Bit t h' d' ∨ (h' = h ∧ d' = fd)))
    (hK : ∀ j, (slot t' j).key = if j = fp then some k else (slot t j).key)
    (hV : ∀ j, (slot t' j).val = if j = fp then v else (slot t j).val) :
    WF N hash t' ∧ (NoStale N t → NoStale N t') ∧
      ∀ k' v', Maps N t' k' v' ↔ (k' = k ∧ v' = v) ∨ (k' ≠ k ∧ Maps N t k' v') := by
  have hL : ∀ q, Live N t' q ↔ (Live N t q ∨ q = fp) := by
    intro q
    constructor
    · rintro ⟨h', hh', d', hd', hb', hq⟩
      rcases (hB h' d').1 hb' with hb | ⟨rfl, rfl⟩
      · exact Or.inl ⟨h', hh', d', hd', hb, hq⟩
      · exact Or.inr (hq.symm.trans hfp)
    · rintro (⟨h', hh', d', hd', hb', hq⟩ | rfl)
      · exact ⟨h', hh', d', hd', (hB h' d').2 (Or.inl hb'), hq⟩
      · exact ⟨h, hh, fd, hfd, (hB h fd).2 (Or.inr ⟨rfl, rfl⟩), hfp⟩
  have hKne : ∀ q, Live N t q → (slot t' q).key = (slot t q).key := by
    intro q hq
    have : q ≠ fp := by intro e; subst e; exact hnl hq
    rw [hK]; simp [this]
  have hVne : ∀ q, Live N t q → (slot t' q).val = (slot t q).val := by
    intro q hq
    have : q ≠ fp := by intro e; subst e; exact hnl hq
    rw [hV]; simp [this]
  have hKfp : (slot t' fp).key = some k := by rw [hK]; simp
  have hVfp : (slot t' fp).val = v := by rw [hV]; simp
  have habs' : ∀ q, Live N t q → (slot t q).key ≠ some k := by
    intro q hq hk; exact habs _ (maps_of_live hq hk)
  refine ⟨⟨hsz, ?_, ?_⟩, ?_, ?_⟩
  · intro h' hh' d' hd' hb'
    rcases (hB h' d').1 hb' with hb | ⟨rfl, rfl⟩
    · rw [hKne _ ⟨h', hh', d', hd', hb, rfl⟩]
      exact wf.bits h' hh' d' hd' hb
    · rw [hfp, hKfp]
      exact ⟨hfdN, k, rfl, hhash⟩
  · intro a b k' ha hb hka hkb
    rcases (hL a).1 ha with ha | rfl
    · rcases (hL b).1 hb with hb | rfl
      · rw [hKne a ha] at hka; rw [hKne b hb] at hkb
        exact wf.unique a b k' ha hb hka hkb
      · rw [hKfp] at hkb; injection hkb with hkb; subst hkb
        rw [hKne a ha] at hka
        exact absurd hka (habs' a ha)
    · rcases (hL b).1 hb with hb | rfl
      · rw [hKfp] at hka; injection hka with hka; subst hka
        rw [hKne b hb] at hkb
        exact absurd hkb (habs' b hb)
      · rfl
  · intro ns q hq hkq
    by_cases hqf : q = fp
    · exact (hL q).2 (Or.inr hqf)
    · rw [hK] at hkq; simp [hqf] at hkq
      exact (hL q).2 (Or.inl (ns q hq hkq))
  · intro k' v'
    rw [maps_iff_live, maps_iff_live]
    constructor
    · rintro ⟨q, hlq, hkq, hvq⟩
      rcases (hL q).1 hlq with hlq | rfl
      · rw [hKne q hlq] at hkq; rw [hVne q hlq] at hvq
        refine Or.inr ⟨?_, q, hlq, hkq, hvq⟩
        intro e; subst e; exact habs' q hlq hkq
      · rw [hKfp] at hkq; injection hkq with hkq
        rw [hVfp] at hvq
        exact Or.inl ⟨hkq.symm, hvq.symm⟩
    · rintro (⟨rfl, rfl⟩ | ⟨_, q, hlq, hkq, hvq⟩)
      · exact ⟨fp, (hL fp).2 (Or.inr rfl), hKfp, hVfp⟩
      · exact ⟨q, (hL q).2 (Or.inl hlq), (hKne q hlq).trans hkq, (hVne q hlq).trans hvq⟩

/-! ### move the entry of a live slot `hp` into a slot `fp` that is not live (displacement) -/

theorem move_spec (wf : WF N hash t) (hsz : t'.size = N) {c i cd fp hp : Nat}
    (hc : c < N) (hi : i < W) (hbi : Bit t c i) (hcd : cd < W) (hcdN : cd < N)
    (hfp : (c + cd) % N = fp) (hhp : (c + i) % N = hp) (hnl : ¬ Live N t fp)
    (hB : ∀ h' d', Bit t' h' d' ↔ ((Bit t h' d' ∧ ¬ (h' = c ∧ d' = i)) ∨ (h' = c ∧ d' = cd)))
    (hKfp : (slot t' fp).key = (slot t hp).key) (hVfp : (slot t' fp).val = (slot t hp).val)
    (hK : ∀ j, j ≠ fp → j ≠ hp → (slot t' j).key = (slot t j).key)
    (hV : ∀ j, j ≠ fp → j ≠ hp → (slot t' j).val = (slot t j).val) :
    WF N hash t' ∧ (∀ k' v', Maps N t' k' v' ↔ Maps N t k' v') ∧ ¬ Live N t' hp ∧
      ((slot t' hp).key = none → NoStale N t → NoStale N t') ∧
      (∀ q, Live N t' q ↔ ((Live N t q ∧ q ≠ hp) ∨ q = fp)) := by
  have hlhp : Live N t hp := ⟨c, hc, i, hi, hbi, hhp⟩
  have hne : hp ≠ fp := by intro e; rw [e] at hlhp; exact hnl hlhp
  have hL : ∀ q, Live N t' q ↔ ((Live N t q ∧ q ≠ hp) ∨ q = fp) := by
    intro q
    constructor
    · rintro ⟨h', hh', d', hd', hb', hq⟩
      rcases (hB h' d').1 hb' with ⟨hb, hn⟩ | ⟨rfl, rfl⟩
      · refine Or.inl ⟨⟨h', hh', d', hd', hb, hq⟩, ?_⟩
        intro e
        have := wf.ptr_inj hh' hd' hb hc hi hbi (by rw [hq, hhp, e])
        exact hn this
      · exact Or.inr (hq.symm.trans hfp)
    · rintro (⟨⟨h', hh', d', hd', hb', hq⟩, hqn⟩ | rfl)
      · refine ⟨h', hh', d', hd', (hB h' d').2 (Or.inl ⟨hb', ?_⟩), hq⟩
        rintro ⟨rfl, rfl⟩
        exact hqn (hq.symm.trans hhp)
      · exact ⟨c, hc, cd, hcd, (hB c cd).2 (Or.inr ⟨rfl, rfl⟩), hfp⟩
  -- origin of a live' position
  have horig : ∀ q, Live N t' q → Live N t (if q = fp then hp else q) ∧
      (slot t' q).key = (slot t (if q = fp then hp else q)).key ∧
      (slot t' q).val = (slot t (if q = fp then hp else q)).val := by
    intro q hq
    rcases (hL q).1 hq with ⟨hlq, hqn⟩ | rfl
    · have hqf : q ≠ fp := by intro e; subst e; exact hnl hlq
      simp only [hqf, if_false]
      exact ⟨hlq, hK q hqf hqn, hV q hqf hqn⟩
    · simp only [if_true]
      exact ⟨hlhp, hKfp, hVfp⟩
  have hinj : ∀ a b, Live N t' a → Live N t' b →
      (if a = fp then hp else a) = (if b = fp then hp else b) → a = b := by
    intro a b ha hb e
    by_cases haf : a = fp
    · by_cases hbf : b = fp
      · rw [haf, hbf]
      · simp only [haf, hbf, if_true, if_false] at e
        rcases (hL b).1 hb with ⟨_, hbn⟩ | hbf'
        · exact absurd e.symm hbn
        · exact absurd hbf' hbf
    · by_cases hbf : b = fp
      · simp only [haf, hbf, if_true, if_false] at e
        rcases (hL a).1 ha with ⟨_, han⟩ | haf'
        · exact absurd e han
        · exact absurd haf' haf
      · simpa only [haf, hbf, if_false] using e
  refine ⟨⟨hsz, ?_, ?_⟩, ?_, ?_, ?_, hL⟩
  · intro h' hh' d' hd' hb'
    rcases (hB h' d').1 hb' with ⟨hb, hn⟩ | ⟨rfl, rfl⟩
    · have hlq : Live N t ((h' + d') % N) := ⟨h', hh', d', hd', hb, rfl⟩
      have hqf : (h' + d') % N ≠ fp := by intro e; rw [e] at hlq; exact hnl hlq
      have hqh : (h' + d') % N ≠ hp := by
        intro e
        exact hn (wf.ptr_inj hh' hd' hb hc hi hbi (by rw [e, hhp]))
      rw [hK _ hqf hqh]
      exact wf.bits h' hh' d' hd' hb
    · rw [hfp, hKfp, ← hhp]
      obtain ⟨_, k, hk, hhk⟩ := wf.bits h' hh' i hi hbi
      exact ⟨hcdN, k, hk, hhk⟩
  · intro a b k' ha hb hka hkb
    obtain ⟨hoa, hkoa, _⟩ := horig a ha
    obtain ⟨hob, hkob, _⟩ := horig b hb
    rw [hkoa] at hka; rw [hkob] at hkb
    exact hinj a b ha hb (wf.unique _ _ k' hoa hob hka hkb)
  · intro k' v'
    rw [maps_iff_live, maps_iff_live]
    constructor
    · rintro ⟨q, hlq, hkq, hvq⟩
      obtain ⟨ho, hko, hvo⟩ := horig q hlq
      exact ⟨_, ho, hko ▸ hkq, hvo ▸ hvq⟩
    · rintro ⟨q, hlq, hkq, hvq⟩
      by_cases hqh : q = hp
      · subst hqh
        exact ⟨fp, (hL fp).2 (Or.inr rfl), hKfp.trans hkq, hVfp.trans hvq⟩
      · have hqf : q ≠ fp := by intro e; subst e; exact hnl hlq
        exact ⟨q, (hL q).2 (Or.inl ⟨hlq, hqh⟩), (hK q hqf hqh).trans hkq, (hV q hqf hqh).trans hvq⟩
  · intro hl
    rcases (hL hp).1 hl with ⟨_, h1⟩ | h1
    · exact h1 rfl
    · exact hne h1
  · intro hnone ns q hq hkq
    by_cases hqf : q = fp
    · exact (hL q).2 (Or.inr hqf)
    · by_cases hqh : q = hp
      · subst hqh; exact absurd hnone hkq
      · rw [hK q hqf hqh] at hkq
        exact (hL q).2 (Or.inl ⟨ns q hq hkq, hqh⟩)

/-! ### remove the entry of a live slot -/

theorem remove_spec' (wf : WF N hash t) (hsz : t'.size = N) {h d p : Nat} {k : K}
    (hh : h < N) (hd : d < W) (hb : Bit t h d) (hp : (h + d) % N = p)
    (hk : (slot t p).key = some k)
    (hB : ∀ h' d', Bit t' h' d' ↔ (Bit t h' d' ∧ ¬ (h' = h ∧ d' = d)))
    (hK : ∀ j, (slot t' j).key = if j = p then none else (slot t j).key)
    (hV : ∀ j, j ≠ p → (slot t' j).val = (slot t j).val) :
    WF N hash t' ∧ (NoStale N t → NoStale N t') ∧ (∀ v, ¬ Maps N t' k v) ∧
      (∀ k', k' ≠ k → ∀ v', Maps N t' k' v' ↔ Maps N t k' v') := by
  have hlp : Live N t p := ⟨h, hh, d, hd, hb, hp⟩
  have hL : ∀ q, Live N t' q ↔ (Live N t q ∧ q ≠ p) := by
    intro q
    constructor
    · rintro ⟨h', hh', d', hd', hb', hq⟩
      obtain ⟨hb0, hn⟩ := (hB h' d').1 hb'
      refine ⟨⟨h', hh', d', hd', hb0, hq⟩, ?_⟩
      intro e
      exact hn (wf.ptr_inj hh' hd' hb0 hh hd hb (by rw [hq, hp, e]))
    · rintro ⟨⟨h', hh', d', hd', hb', hq⟩, hqn⟩
      refine ⟨h', hh', d', hd', (hB h' d').2 ⟨hb', ?_⟩, hq⟩
      rintro ⟨rfl, rfl⟩
      exact hqn (hq.symm.trans hp)
  have hKne : ∀ q, q ≠ p → (slot t' q).key = (slot t q).key := by
    intro q hq; rw [hK]; simp [hq]
  refine ⟨⟨hsz, ?_, ?_⟩, ?_, ?_, ?_⟩
  · intro h' hh' d' hd' hb'
    have hl' : Live N t' ((h' + d') % N) := ⟨h', hh', d', hd', hb', rfl⟩
    obtain ⟨_, hqn⟩ := (hL _).1 hl'
    rw [hKne _ hqn]
    exact wf.bits h' hh' d' hd' ((hB h' d').1 hb').1
  · intro a b k' ha hb' hka hkb
    obtain ⟨hla, han⟩ := (hL a).1 ha
    obtain ⟨hlb, hbn⟩ := (hL b).1 hb'
    rw [hKne a han] at hka; rw [hKne b hbn] at hkb
    exact wf.unique a b k' hla hlb hka hkb
  · intro ns q hq hkq
    by_cases hqp : q = p
    · subst hqp; rw [hK] at hkq; simp at hkq
    · rw [hKne q hqp] at hkq
      exact (hL q).2 ⟨ns q hq hkq, hqp⟩
  · intro v m
    obtain ⟨q, hlq, hkq, _⟩ := maps_live m
    obtain ⟨hlq0, hqn⟩ := (hL q).1 hlq
    rw [hKne q hqn] at hkq
    exact hqn (wf.unique q p k hlq0 hlp hkq hk)
  · intro k' hk' v'
    rw [maps_iff_live, maps_iff_live]
    constructor
    · rintro ⟨q, hlq, hkq, hvq⟩
      obtain ⟨hlq0, hqn⟩ := (hL q).1 hlq
      exact ⟨q, hlq0, (hKne q hqn) ▸ hkq, (hV q hqn) ▸ hvq⟩
    · rintro ⟨q, hlq, hkq, hvq⟩
      have hqn : q ≠ p := by
        intro e; subst e; rw [hk] at hkq; injection hkq with hkq; exact hk' hkq.symm
      exact ⟨q, (hL q).2 ⟨hlq, hqn⟩, (hKne q hqn).trans hkq, (hV q hqn).trans hvq⟩

end
end Cjet.Hoptable
