/-
  C01 — what `notifyFetchers`, `offerElement`, `findFetchersForElement` emit and compute.
-/
import Cjet.Lemmas.DaemonC01Replay

namespace Cjet.Daemon.C01

open Cjet Cjet.Json Cjet.Daemon

/-! ## findFetch -/

theorem find_uid {l : List Fetch} (hn : (l.map (·.uid)).Nodup) {f : Fetch} (hf : f ∈ l) :
    l.find? (·.uid == f.uid) = some f := by
  induction l with
  | nil => cases hf
  | cons g t ih =>
    rw [List.map_cons, List.nodup_cons] at hn
    rw [List.find?_cons]
    rcases List.mem_cons.1 hf with rfl | hf'
    · simp
    · have : g.uid ≠ f.uid := fun h => hn.1 (h ▸ List.mem_map_of_mem (f := (·.uid)) hf')
      have h2 : (g.uid == f.uid) = false := by simp [this]
      simp only [h2]
      exact ih hn.2 hf'

theorem findFetch_of_mem {ps : List Peer} (hn : (ps.map (·.conn)).Nodup) {p : Peer} (hp : p ∈ ps)
    (hu : (p.fetches.map (·.uid)).Nodup) {f : Fetch} (hf : f ∈ p.fetches) :
    findFetch ps ⟨p.conn, f.uid⟩ = some f := by
  unfold findFetch
  simp only [findPeer_of_mem hn hp]
  exact find_uid hu hf

theorem findFetch_some {ps : List Peer} {fk : FetchKey} {g : Fetch} (h : findFetch ps fk = some g) :
    ∃ p ∈ ps, p.conn = fk.peer ∧ g ∈ p.fetches ∧ g.uid = fk.uid := by
  unfold findFetch at h
  cases hp : findPeer ps fk.peer with
  | none => simp [hp] at h
  | some p =>
    simp only [hp] at h
    obtain ⟨h1, h2⟩ := findPeer_some hp
    exact ⟨p, h1, h2, List.mem_of_find?_eq_some h, by simpa using List.find?_some h⟩

theorem nodup_of_map {α β : Type} (f : α → β) {l : List α} (h : (l.map f).Nodup) : l.Nodup :=
  List.Pairwise.of_map f (fun _ _ hne hab => hne (congrArg f hab)) h

/-- the fetch of `p` whose id equals `f`'s id is `f` -/
theorem fetch_unique {p : Peer} (hd : p.fetches.Pairwise (fun a b => idsEqual a.fid b.fid = false))
    {f g : Fetch} (hf : f ∈ p.fetches) (hg : g ∈ p.fetches) (h : idsEqual g.fid f.fid = true) : g = f := by
  apply Classical.byContradiction
  intro hne
  have := pairwise_of_mem (R := fun a b : Fetch => idsEqual a.fid b.fid = false)
    (fun a b hab => by rw [idsEqual_symm]; exact hab) hd hg hf hne
  rw [h] at this
  cases this

/-! ## notifyFetchers -/

def evNotif (e : Element) (ev : Event) (ps : List Peer) (fk : FetchKey) : Option (Nat × Notif) :=
  (findFetch ps fk).map (fun f => (fk.peer, { fid := f.fid, path := e.path, event := ev, value := e.value }))

theorem notifyFetchers_eq_aux (e : Element) (ev : String) : ∀ (tbl : List (Option FetchKey)) (x : Ctx),
    tbl.foldl (fun x s => match s with | some fk => notifyOne x e fk ev | none => x) x =
      (keys tbl).foldl (fun x fk => notifyOne x e fk ev) x
  | [], _ => rfl
  | none :: t, x => by simpa using notifyFetchers_eq_aux e ev t x
  | some fk :: t, x => by simpa using notifyFetchers_eq_aux e ev t (notifyOne x e fk ev)

theorem notifyFetchers_eq (x : Ctx) (e : Element) (ev : String) :
    notifyFetchers x e ev = (keys e.fetchers).foldl (fun x fk => notifyOne x e fk ev) x :=
  notifyFetchers_eq_aux e ev e.fetchers x

theorem notifyOne_spec (x : Ctx) (e : Element) (fk : FetchKey) (ev : Event) :
    (notifyOne x e fk (evName ev)).st = x.st ∧
    Emits x (notifyOne x e fk (evName ev)) (evNotif e ev x.st.peers fk).toList := by
  unfold notifyOne evNotif
  cases h : findFetch x.st.peers fk with
  | none => exact ⟨rfl, Emits.refl x⟩
  | some f => exact ⟨send'_st _ _ _, emits_send'_notification x fk.peer e f.fid ev⟩

theorem notifyKeys_spec (e : Element) (ev : Event) : ∀ (l : List FetchKey) (x : Ctx),
    (l.foldl (fun x fk => notifyOne x e fk (evName ev)) x).st = x.st ∧
    Emits x (l.foldl (fun x fk => notifyOne x e fk (evName ev)) x) (l.filterMap (evNotif e ev x.st.peers))
  | [], x => ⟨rfl, Emits.refl x⟩
  | fk :: t, x => by
    obtain ⟨h1, h2⟩ := notifyOne_spec x e fk ev
    obtain ⟨h3, h4⟩ := notifyKeys_spec e ev t (notifyOne x e fk (evName ev))
    rw [h1] at h3 h4
    refine ⟨h3, ?_⟩
    have := h2.trans h4
    rw [List.filterMap_cons]
    cases hh : evNotif e ev x.st.peers fk with
    | none => simpa [hh] using this
    | some n => simpa [hh] using this

theorem notifyFetchers_spec (x : Ctx) (e : Element) (ev : Event) :
    (notifyFetchers x e (evName ev)).st = x.st ∧
    Emits x (notifyFetchers x e (evName ev)) ((keys e.fetchers).filterMap (evNotif e ev x.st.peers)) := by
  rw [notifyFetchers_eq]
  exact notifyKeys_spec e ev _ x

/-- the notifications of one `notifyFetchers` that belong to fetch `f` of peer `p` -/
theorem pick_evNotifs {ps : List Peer} (hn : (ps.map (·.conn)).Nodup) {p : Peer} (hp : p ∈ ps)
    (hu : (p.fetches.map (·.uid)).Nodup)
    (hd : p.fetches.Pairwise (fun a b => idsEqual a.fid b.fid = false))
    {f : Fetch} (hf : f ∈ p.fetches) (hok : idsEqual f.fid f.fid = true)
    (e : Element) (ev : Event) {l : List FetchKey} (hl : l.Nodup) :
    pick p.conn f.fid (l.filterMap (evNotif e ev ps)) =
      if (⟨p.conn, f.uid⟩ : FetchKey) ∈ l then
        [{ fid := f.fid, path := e.path, event := ev, value := e.value }] else [] := by
  unfold pick
  rw [List.filterMap_filterMap]
  have huniq : ∀ fk ∈ l, ((evNotif e ev ps fk).bind
      (fun cn => if cn.1 == p.conn && idsEqual cn.2.fid f.fid then some cn.2 else none)).isSome = true →
      fk = ⟨p.conn, f.uid⟩ := by
    intro fk _ hs
    unfold evNotif at hs
    cases hff : findFetch ps fk with
    | none => simp [hff] at hs
    | some g =>
      simp only [hff, Option.map_some, Option.bind_some] at hs
      split at hs
      · next hc =>
        simp only [Bool.and_eq_true, beq_iff_eq] at hc
        obtain ⟨p', hp', hc', hg, hgu⟩ := findFetch_some hff
        have : p' = p := eq_of_conn_eq hn hp' hp (hc'.trans hc.1)
        subst this
        have : g = f := fetch_unique hd hf hg hc.2
        subst this
        cases fk
        simp_all
      · simp at hs
  have hval : (evNotif e ev ps ⟨p.conn, f.uid⟩).bind
      (fun cn => if cn.1 == p.conn && idsEqual cn.2.fid f.fid then some cn.2 else none) =
      some { fid := f.fid, path := e.path, event := ev, value := e.value } := by
    simp [evNotif, findFetch_of_mem hn hp hu hf, hok]
  by_cases hm : (⟨p.conn, f.uid⟩ : FetchKey) ∈ l
  · rw [if_pos hm, filterMap_unique_mem hl huniq hm, hval]; rfl
  · rw [if_neg hm, filterMap_unique_not_mem huniq hm]

/-- the same list read for a peer/id with no such fetch: nothing -/
theorem pick_evNotifs_none {ps : List Peer} {c : Nat} {fid : Json}
    (hno : ∀ p ∈ ps, p.conn = c → ∀ g ∈ p.fetches, idsEqual g.fid fid = false)
    (e : Element) (ev : Event) (l : List FetchKey) :
    pick c fid (l.filterMap (evNotif e ev ps)) = [] := by
  unfold pick
  rw [List.filterMap_filterMap, List.filterMap_eq_nil_iff]
  intro fk _
  unfold evNotif
  cases hff : findFetch ps fk with
  | none => rfl
  | some g =>
    obtain ⟨p', hp', hc', hg, _⟩ := findFetch_some hff
    simp only [Option.map_some, Option.bind_some]
    split
    · next hc =>
      simp only [Bool.and_eq_true, beq_iff_eq] at hc
      have := hno p' hp' (hc'.trans hc.1) g hg
      rw [hc.2] at this
      cases this
    · rfl

/-- every notification of `notifyFetchers` goes to a peer that has a fetch with that id -/
theorem evNotifs_origin {ps : List Peer} (e : Element) (ev : Event) (l : List FetchKey) :
    ∀ cn ∈ l.filterMap (evNotif e ev ps),
      ∃ p ∈ ps, p.conn = cn.1 ∧ ∃ g ∈ p.fetches, g.fid = cn.2.fid := by
  intro cn hcn
  obtain ⟨fk, _, hfk⟩ := List.mem_filterMap.1 hcn
  unfold evNotif at hfk
  cases hff : findFetch ps fk with
  | none => simp [hff] at hfk
  | some g =>
    simp only [hff, Option.map_some, Option.some.injEq] at hfk
    obtain ⟨p', hp', hc', hg, _⟩ := findFetch_some hff
    subst hfk
    exact ⟨p', hp', hc', g, hg, rfl⟩

/-! ## offerElement -/

/-- the element after `add_fetch_to_state_and_notify` -/
def offer1 (cfg : Config) (c pg : Nat) (f : Fetch) (e : Element) : Element :=
  if visible cfg pg f.rule e then { e with fetchers := addFetcher cfg e.fetchers ⟨c, f.uid⟩ } else e

def addNotif (cfg : Config) (c pg : Nat) (f : Fetch) (e : Element) : Option (Nat × Notif) :=
  if visible cfg pg f.rule e then some (c, { fid := f.fid, path := e.path, event := .add, value := e.value })
  else none

theorem offerElement_spec (cfg : Config) (x : Ctx) (e : Element) (fp : Peer) (f : Fetch) :
    (offerElement cfg x e fp f).2 = offer1 cfg fp.conn fp.fetchGroups f e ∧
    (offerElement cfg x e fp f).1.st = x.st ∧
    Emits x (offerElement cfg x e fp f).1 (addNotif cfg fp.conn fp.fetchGroups f e).toList := by
  unfold offerElement offer1 addNotif visible
  cases h1 : hasAccess cfg e.fetchGroups fp.fetchGroups
  · exact ⟨by simp, by simp, by simpa using Emits.refl x⟩
  · cases h2 : ruleMatches f.rule e.path
    · exact ⟨by simp, by simp, by simpa using Emits.refl x⟩
    · refine ⟨by simp, by simp, ?_⟩
      have h : Emits x (send' x fp.conn (notification
          { e with fetchers := addFetcher cfg e.fetchers ⟨fp.conn, f.uid⟩ } f.fid "add"))
          [(fp.conn, { fid := f.fid, path := e.path, event := .add, value := e.value })] :=
        emits_send'_notification x fp.conn
          { e with fetchers := addFetcher cfg e.fetchers ⟨fp.conn, f.uid⟩ } f.fid .add
      simpa using h

@[simp] theorem offer1_path (cfg : Config) (c pg : Nat) (f : Fetch) (e : Element) :
    (offer1 cfg c pg f e).path = e.path := by unfold offer1; split <;> rfl
@[simp] theorem offer1_owner (cfg : Config) (c pg : Nat) (f : Fetch) (e : Element) :
    (offer1 cfg c pg f e).owner = e.owner := by unfold offer1; split <;> rfl
@[simp] theorem offer1_value (cfg : Config) (c pg : Nat) (f : Fetch) (e : Element) :
    (offer1 cfg c pg f e).value = e.value := by unfold offer1; split <;> rfl
@[simp] theorem offer1_fetchGroups (cfg : Config) (c pg : Nat) (f : Fetch) (e : Element) :
    (offer1 cfg c pg f e).fetchGroups = e.fetchGroups := by unfold offer1; split <;> rfl
@[simp] theorem offer1_eview (cfg : Config) (c pg : Nat) (f : Fetch) (e : Element) :
    eview (offer1 cfg c pg f e) = eview e := by simp [eview]

@[simp] theorem visible_offer1 (cfg : Config) (c pg : Nat) (f : Fetch) (e : Element) (pg' : Nat) (r : Rule) :
    visible cfg pg' r (offer1 cfg c pg f e) = visible cfg pg' r e := visible_congr (offer1_eview ..)

theorem keys_offer1 (cfg : Config) (c pg : Nat) (f : Fetch) (e : Element) :
    (keys (offer1 cfg c pg f e).fetchers).Perm
      ((if visible cfg pg f.rule e then [(⟨c, f.uid⟩ : FetchKey)] else []) ++ keys e.fetchers) := by
  unfold offer1
  split
  · exact keys_addFetcher_perm cfg e.fetchers ⟨c, f.uid⟩
  · exact List.Perm.refl _

theorem mem_keys_offer1 {cfg : Config} {c pg : Nat} {f : Fetch} {e : Element} {g : FetchKey} :
    g ∈ keys (offer1 cfg c pg f e).fetchers ↔
      (visible cfg pg f.rule e = true ∧ g = ⟨c, f.uid⟩) ∨ g ∈ keys e.fetchers := by
  rw [(keys_offer1 cfg c pg f e).mem_iff, List.mem_append]
  split <;> simp_all

/-! ## findFetchersForElement -/

/-- all (peer, fetch) pairs, peer-list / fetch-list order -/
def pairs (ps : List Peer) : List (Peer × Fetch) := ps.flatMap (fun fp => fp.fetches.map (fun f => (fp, f)))

def pairKey (pf : Peer × Fetch) : FetchKey := ⟨pf.1.conn, pf.2.uid⟩

theorem mem_pairs {ps : List Peer} {pf : Peer × Fetch} : pf ∈ pairs ps ↔ pf.1 ∈ ps ∧ pf.2 ∈ pf.1.fetches := by
  simp only [pairs, List.mem_flatMap, List.mem_map]
  constructor
  · rintro ⟨fp, hfp, f, hf, rfl⟩; exact ⟨hfp, hf⟩
  · rintro ⟨h1, h2⟩; exact ⟨pf.1, h1, pf.2, h2, rfl⟩

theorem pairKeys_nodup : ∀ {ps : List Peer}, (ps.map (·.conn)).Nodup →
    (∀ p ∈ ps, (p.fetches.map (·.uid)).Nodup) → ((pairs ps).map pairKey).Nodup
  | [], _, _ => by simp [pairs]
  | q :: qs, hn, hu => by
    rw [List.map_cons, List.nodup_cons] at hn
    have ih := pairKeys_nodup hn.2 (fun p hp => hu p (List.mem_cons_of_mem _ hp))
    have : pairs (q :: qs) = q.fetches.map (fun f => (q, f)) ++ pairs qs := by simp [pairs]
    rw [this, List.map_append, List.nodup_append]
    refine ⟨?_, ih, ?_⟩
    · rw [List.map_map]
      have h1 : (pairKey ∘ fun f => (q, f)) = (fun u => (⟨q.conn, u⟩ : FetchKey)) ∘ (·.uid) := rfl
      rw [h1, ← List.map_map]
      have := hu q List.mem_cons_self
      exact List.Pairwise.map _ (fun a b hab h => hab (by simpa using h)) this
    · intro a ha b hb hab
      subst hab
      obtain ⟨pf1, h1, rfl⟩ := List.mem_map.1 ha
      obtain ⟨f, _, rfl⟩ := List.mem_map.1 h1
      obtain ⟨pf2, h2, e2⟩ := List.mem_map.1 hb
      have hq := (mem_pairs.1 h2).1
      have : pf2.1.conn = q.conn := by
        have := congrArg FetchKey.peer e2
        simpa [pairKey] using this
      exact hn.1 (this ▸ List.mem_map_of_mem (f := (·.conn)) hq)

theorem findFetchersForElement_eq (cfg : Config) (x : Ctx) (e : Element) :
    findFetchersForElement cfg x e =
      (pairs x.st.peers).foldl (fun acc pf => offerElement cfg acc.1 acc.2 pf.1 pf.2) (x, e) := by
  unfold findFetchersForElement pairs
  rw [List.foldl_flatMap]
  congr
  funext acc fp
  rw [List.foldl_map]

/-- the keys `find_fetchers_for_element` enters for element `e` -/
def newKeys (cfg : Config) (ps : List Peer) (e : Element) : List FetchKey :=
  ((pairs ps).filter (fun pf => visible cfg pf.1.fetchGroups pf.2.rule e)).map pairKey

/-- and the notifications it sends -/
def addNotifs (cfg : Config) (ps : List Peer) (e : Element) : List (Nat × Notif) :=
  (pairs ps).filterMap (fun pf => addNotif cfg pf.1.conn pf.1.fetchGroups pf.2 e)

theorem offerFold_spec (cfg : Config) : ∀ (l : List (Peer × Fetch)) (acc : Ctx × Element),
    let r := l.foldl (fun acc pf => offerElement cfg acc.1 acc.2 pf.1 pf.2) acc
    r.1.st = acc.1.st ∧ r.2 = { acc.2 with fetchers := r.2.fetchers } ∧
    (keys r.2.fetchers).Perm
      ((l.filter (fun pf => visible cfg pf.1.fetchGroups pf.2.rule acc.2)).map pairKey ++ keys acc.2.fetchers) ∧
    Emits acc.1 r.1 (l.filterMap (fun pf => addNotif cfg pf.1.conn pf.1.fetchGroups pf.2 acc.2))
  | [], acc => ⟨rfl, rfl, by simp, Emits.refl acc.1⟩
  | pf :: t, acc => by
    obtain ⟨h1, h2, h3⟩ := offerElement_spec cfg acc.1 acc.2 pf.1 pf.2
    have ih := offerFold_spec cfg t (offerElement cfg acc.1 acc.2 pf.1 pf.2)
    simp only [List.foldl_cons]
    simp only at ih
    obtain ⟨i1, i2, i3, i4⟩ := ih
    rw [h1] at i2 i3 i4
    have hvis : ∀ (pg : Nat) (r : Rule), visible cfg pg r (offer1 cfg pf.1.conn pf.1.fetchGroups pf.2 acc.2) =
        visible cfg pg r acc.2 := fun pg r => visible_offer1 ..
    have hadd : ∀ pf' : Peer × Fetch,
        addNotif cfg pf'.1.conn pf'.1.fetchGroups pf'.2 (offer1 cfg pf.1.conn pf.1.fetchGroups pf.2 acc.2) =
        addNotif cfg pf'.1.conn pf'.1.fetchGroups pf'.2 acc.2 := by
      intro pf'; simp [addNotif]
    simp only [hvis, hadd] at i3 i4
    refine ⟨i1.trans h2, ?_, ?_, ?_⟩
    · rw [i2]
      unfold offer1
      split <;> rfl
    · refine i3.trans ?_
      have hk := keys_offer1 cfg pf.1.conn pf.1.fetchGroups pf.2 acc.2
      refine (List.Perm.append_left _ hk).trans ?_
      rw [List.filter_cons]
      split
      · simp only [List.map_cons, List.cons_append, List.nil_append]
        exact List.perm_middle
      · simp
    · have := h3.trans i4
      rw [List.filterMap_cons]
      cases hh : addNotif cfg pf.1.conn pf.1.fetchGroups pf.2 acc.2 with
      | none => simpa [hh] using this
      | some n => simpa [hh] using this

theorem findFetchersForElement_spec (cfg : Config) (x : Ctx) (e : Element) :
    (findFetchersForElement cfg x e).1.st = x.st ∧
    (findFetchersForElement cfg x e).2 = { e with fetchers := (findFetchersForElement cfg x e).2.fetchers } ∧
    (keys (findFetchersForElement cfg x e).2.fetchers).Perm (newKeys cfg x.st.peers e ++ keys e.fetchers) ∧
    Emits x (findFetchersForElement cfg x e).1 (addNotifs cfg x.st.peers e) := by
  rw [findFetchersForElement_eq]
  exact offerFold_spec cfg (pairs x.st.peers) (x, e)

theorem mem_newKeys {cfg : Config} {ps : List Peer} {e : Element} {fk : FetchKey} :
    fk ∈ newKeys cfg ps e ↔
      ∃ p ∈ ps, ∃ f ∈ p.fetches, visible cfg p.fetchGroups f.rule e = true ∧ fk = ⟨p.conn, f.uid⟩ := by
  simp only [newKeys, List.mem_map, List.mem_filter, mem_pairs]
  constructor
  · rintro ⟨pf, ⟨⟨h1, h2⟩, h3⟩, rfl⟩; exact ⟨pf.1, h1, pf.2, h2, h3, rfl⟩
  · rintro ⟨p, hp, f, hf, hv, rfl⟩; exact ⟨(p, f), ⟨⟨hp, hf⟩, hv⟩, rfl⟩

theorem newKeys_nodup {cfg : Config} {ps : List Peer} (hn : (ps.map (·.conn)).Nodup)
    (hu : ∀ p ∈ ps, (p.fetches.map (·.uid)).Nodup) (e : Element) : (newKeys cfg ps e).Nodup :=
  List.Nodup.sublist (List.filter_sublist.map pairKey) (pairKeys_nodup hn hu)

theorem flatMap_unique {β : Type} {ps : List Peer} (hn : (ps.map (·.conn)).Nodup) {p : Peer} (hp : p ∈ ps)
    (F : Peer → List β) (hF : ∀ q ∈ ps, q.conn ≠ p.conn → F q = []) : ps.flatMap F = F p := by
  induction ps with
  | nil => cases hp
  | cons q qs ih =>
    rw [List.map_cons, List.nodup_cons] at hn
    rw [List.flatMap_cons]
    rcases List.mem_cons.1 hp with rfl | hp'
    · have : qs.flatMap F = [] := by
        rw [List.flatMap_eq_nil_iff]
        intro q hq
        apply hF q (List.mem_cons_of_mem _ hq)
        intro h
        exact hn.1 (h ▸ List.mem_map_of_mem (f := (·.conn)) hq)
      rw [this, List.append_nil]
    · have hq : F q = [] := by
        apply hF q List.mem_cons_self
        intro h
        exact hn.1 (h.symm ▸ List.mem_map_of_mem (f := (·.conn)) hp')
      rw [hq, List.nil_append]
      exact ih hn.2 hp' (fun q hq => hF q (List.mem_cons_of_mem _ hq))

/-- the "add" notifications of `find_fetchers_for_element` that belong to fetch `f` of `p` -/
theorem pick_addNotifs {cfg : Config} {ps : List Peer} (hn : (ps.map (·.conn)).Nodup) {p : Peer} (hp : p ∈ ps)
    (hu : (p.fetches.map (·.uid)).Nodup)
    (hd : p.fetches.Pairwise (fun a b => idsEqual a.fid b.fid = false))
    {f : Fetch} (hf : f ∈ p.fetches) (hok : idsEqual f.fid f.fid = true) (e : Element) :
    pick p.conn f.fid (addNotifs cfg ps e) =
      if visible cfg p.fetchGroups f.rule e then
        [{ fid := f.fid, path := e.path, event := .add, value := e.value }] else [] := by
  unfold pick addNotifs pairs
  rw [List.filterMap_flatMap, List.filterMap_flatMap]
  rw [flatMap_unique hn hp]
  · rw [List.filterMap_map, List.filterMap_filterMap]
    have huniq : ∀ g ∈ p.fetches, ((((fun pf : Peer × Fetch => addNotif cfg pf.1.conn pf.1.fetchGroups pf.2 e) ∘
        fun f => (p, f)) g).bind
        (fun cn => if cn.1 == p.conn && idsEqual cn.2.fid f.fid then some cn.2 else none)).isSome = true →
        g = f := by
      intro g hg hs
      simp only [Function.comp, addNotif] at hs
      split at hs
      · simp only [Option.bind_some, beq_self_eq_true, Bool.true_and] at hs
        split at hs
        · next hc => exact fetch_unique hd hf hg hc
        · simp at hs
      · simp at hs
    rw [filterMap_unique_mem (nodup_of_map _ hu) huniq hf]
    simp only [Function.comp, addNotif]
    split <;> simp [hok]
  · intro q _ hq
    rw [List.filterMap_map, List.filterMap_filterMap, List.filterMap_eq_nil_iff]
    intro g _
    simp only [Function.comp, addNotif]
    split
    · simp [hq]
    · rfl

theorem pick_addNotifs_none {cfg : Config} {ps : List Peer} {c : Nat} {fid : Json}
    (hno : ∀ p ∈ ps, p.conn = c → ∀ g ∈ p.fetches, idsEqual g.fid fid = false) (e : Element) :
    pick c fid (addNotifs cfg ps e) = [] := by
  unfold pick addNotifs
  rw [List.filterMap_filterMap, List.filterMap_eq_nil_iff]
  intro pf hpf
  obtain ⟨h1, h2⟩ := mem_pairs.1 hpf
  simp only [addNotif]
  split
  · simp only [Option.bind_some]
    split
    · next hc =>
      simp only [Bool.and_eq_true, beq_iff_eq] at hc
      have := hno pf.1 h1 hc.1 pf.2 h2
      rw [hc.2] at this
      cases this
    · rfl
  · rfl

theorem addNotifs_origin {cfg : Config} {ps : List Peer} (e : Element) :
    ∀ cn ∈ addNotifs cfg ps e, ∃ p ∈ ps, p.conn = cn.1 ∧ ∃ g ∈ p.fetches, g.fid = cn.2.fid := by
  intro cn hcn
  obtain ⟨pf, hpf, h⟩ := List.mem_filterMap.1 hcn
  obtain ⟨h1, h2⟩ := mem_pairs.1 hpf
  simp only [addNotif] at h
  split at h
  · simp only [Option.some.injEq] at h
    subst h
    exact ⟨pf.1, h1, rfl, pf.2, h2, rfl⟩
  · cases h

end Cjet.Daemon.C01
