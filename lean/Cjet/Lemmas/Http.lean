import Cjet.Http
/-!
Helper lemmas for `Cjet.Props.C13`: the ledger invariant of the HTTP connection lifecycle
(`Cjet.Http`, version `fixed`).  For every phase the invariant pins the complete ledger; `step`
is shown to map each phase's invariant to some phase's invariant, for every event and every
value of the event's inputs.
-/
namespace Cjet.Http

-- the linters walk the info trees of the large record terms below for minutes; they add nothing here
set_option linter.all false

def live1 : Cell := ⟨true, 1, 0⟩
def gone1 : Cell := ⟨false, 1, 1⟩

/-! ### list facts about the two global lists -/

theorem erase_mine (C : List Ref) (h : Ref.mine ∉ C) : (C ++ [Ref.mine]).erase .mine = C := by
  rw [List.erase_append_right _ h]; simp

theorem erase_absent (C : List Ref) (h : Ref.mine ∉ C) : C.erase .mine = C :=
  List.erase_of_not_mem h

theorem contains_absent (C : List Ref) (h : Ref.mine ∉ C) : C.contains .mine = false := by
  simpa using h

theorem isOther_of_ne {r : Ref} (h : r ≠ .mine) : isOther r = true := by
  cases r <;> simp_all [isOther]

theorem filter_other (O : List Ref) (h : Ref.mine ∉ O) : O.filter isOther = O := by
  apply List.filter_eq_self.mpr
  intro r hr
  exact isOther_of_ne (fun e => h (e ▸ hr))

theorem filter_not_other (O : List Ref) (h : Ref.mine ∉ O) : O.filter (fun r => !isOther r) = [] := by
  apply List.filter_eq_nil_iff.mpr
  intro r hr
  simp [isOther_of_ne (fun e => h (e ▸ hr))]

theorem filter_other_snoc (O : List Ref) (h : Ref.mine ∉ O) : (O ++ [Ref.mine]).filter isOther = O := by
  rw [List.filter_append, filter_other O h]; simp [isOther]

theorem filter_not_other_snoc (O : List Ref) (h : Ref.mine ∉ O) :
    (O ++ [Ref.mine]).filter (fun r => !isOther r) = [.mine] := by
  rw [List.filter_append, filter_not_other O h]; simp [isOther]

theorem mine_not_mem_others (l : List Nat) : Ref.mine ∉ l.map Ref.other := by
  simp

theorem responseCode_cases (c : Nat) : responseCode c = 400 ∨ responseCode c = 404 ∨ responseCode c = 500 := by
  unfold responseCode
  split
  · exact Or.inl rfl
  · split
    · exact Or.inr (Or.inl rfl)
    · exact Or.inr (Or.inr rfl)

/-! ### the invariant, phase by phase -/

/-- Status lines written by a connection that has ended: any number of 101s (at most one in a real
    run) followed by at most one error status. -/
def SentDone (l : List Nat) : Prop :=
  ∃ pre : List Nat, (∀ x ∈ pre, x = 101) ∧
    (l = pre ∨ ∃ c, (c = 400 ∨ c = 404 ∨ c = 500) ∧ l = pre ++ [c])

structure InvListening (O C : List Ref) (s : St) : Prop where
  ph : s.phase = .listening
  fd : s.fd = {}
  bs : s.bs = {}
  conn : s.conn = {}
  peer : s.peer = {}
  rt : s.rt = {}
  cl : s.connList = C
  pl : s.peerList = O
  pc : s.peerCount = O.length
  fl : s.faults = []
  se : s.sent = []

structure InvStart (O C : List Ref) (s : St) : Prop where
  ph : s.phase = .start
  fd : s.fd = live1
  bs : s.bs = live1
  conn : s.conn = live1
  peer : s.peer = {}
  rt : s.rt = {}
  cl : s.connList = C ++ [.mine]
  pl : s.peerList = O
  pc : s.peerCount = O.length
  fl : s.faults = []
  se : s.sent = []
  ha : s.handler = .conn
  re : s.reader = .startLine
  uh : s.urlHandler = false

/-- header phase (`up = false`) and WebSocket phase (`up = true`) -/
structure InvPeer (O C : List Ref) (up : Bool) (s : St) : Prop where
  ph : s.phase = if up then .ws else .headers
  fd : s.fd = live1
  bs : s.bs = live1
  conn : s.conn = live1
  peer : s.peer = live1
  rt : s.rt = live1
  cl : s.connList = C ++ [.mine]
  pl : s.peerList = O ++ [.mine]
  pc : s.peerCount = O.length + 1
  fl : s.faults = []
  se : ∀ x ∈ s.sent, x = 101
  ha : s.handler = .peer
  re : s.reader = if up then .frame else .headerLine
  uc : s.upgradeComplete = up

structure InvDone (O C : List Ref) (acc tm : Bool) (s : St) : Prop where
  ph : s.phase = .done
  fd : s.fd = if acc then gone1 else {}
  bs : s.bs = gone1 ∨ s.bs = {}
  conn : s.conn = gone1 ∨ s.conn = {}
  peer : s.peer = gone1 ∨ s.peer = {}
  rt : s.rt = gone1 ∨ s.rt = {}
  /-- `tm`: SIGTERM was seen (then the other peers and connections are gone as well) -/
  lists : s.connList = (if tm then [] else C) ∧ s.peerList = (if tm then [] else O) ∧
          s.peerCount = (if tm then 0 else (O.length : Int))
  fl : s.faults = []
  se : SentDone s.sent

/-- The ledger invariant; `acc` = the descriptor has been accepted, `tm` = SIGTERM was seen. -/
inductive Inv (O C : List Ref) : Bool → Bool → St → Prop
  | listening {s} : InvListening O C s → Inv O C false false s
  | start {s} : InvStart O C s → Inv O C true false s
  | peer {s} (up : Bool) : InvPeer O C up s → Inv O C true false s
  | done {s} (acc tm : Bool) : InvDone O C acc tm s → Inv O C acc tm s

theorem inv_init (O C : List Ref) : Inv O C false false (init O C) :=
  .listening ⟨rfl, rfl, rfl, rfl, rfl, rfl, rfl, rfl, rfl, rfl, rfl⟩

def isTerm : Event → Bool
  | .term => true
  | _ => false

theorem sentDone_nil : SentDone [] := ⟨[], by simp, Or.inl rfl⟩

theorem sentDone_of_all {l : List Nat} (h : ∀ x ∈ l, x = 101) : SentDone l := ⟨l, h, Or.inl rfl⟩

theorem sentDone_snoc {l : List Nat} (h : ∀ x ∈ l, x = 101) (c : Nat) :
    SentDone (l ++ [responseCode c]) :=
  ⟨l, h, Or.inr ⟨_, responseCode_cases c, rfl⟩⟩

theorem sentDone_rc (c : Nat) : SentDone [responseCode c] := by
  simpa using sentDone_snoc (l := []) (by simp) c

theorem sentDone_snoc2 {l : List Nat} (h : ∀ x ∈ l, x = 101) (c : Nat) :
    SentDone (l ++ [101, responseCode c]) := by
  have := sentDone_snoc (l := l ++ [101]) (by
    intro x hx
    rcases List.mem_append.mp hx with hx | hx
    · exact h x hx
    · simpa using hx) c
  simpa using this

theorem all101_snoc {l : List Nat} (h : ∀ x ∈ l, x = 101) : ∀ x ∈ l ++ [101], x = 101 := by
  intro x hx
  rcases List.mem_append.mp hx with hx | hx
  · exact h x hx
  · simpa using hx

section
variable {O C : List Ref} (hO : Ref.mine ∉ O) (hC : Ref.mine ∉ C)

set_option hygiene false in
/-- Replace the state by its fields and the invariant by equations on them. -/
local macro "fields" s:ident : tactic =>
  `(tactic| (obtain ⟨phase, sfd, sbs, sconn, speer, srt, scl, spl, spc, sh, sr, ssc, su, suc, ssent, sf, st⟩ := $s))

set_option hygiene false in
/-- Evaluate `step` on the explicit state once, then check the target invariant field by field. -/
local macro "settle" : tactic =>
  `(tactic| (generalize hs : step fixed _ _ = s'
             simp [step, terminate, handleHttp, readStartLine, readHeaderLine, readerEof, readerError, onUrl,
               allocWebsocketPeer, closeAndFreePeer, websocketClose, freeWebsocketPeer, sendHttpError, freeConnection,
               bufferedSocketClose, St.ended, St.exec, apply, St.need, St.cell, St.setCell, St.listed, live1, gone1,
               fixed, *] at hs
             subst hs
             constructor <;>
               first
               | rfl
               | exact sentDone_snoc se _
               | exact sentDone_snoc2 se _
               | exact sentDone_of_all se
               | exact sentDone_of_all (all101_snoc se)
               | exact all101_snoc se
               | exact se
               | (simp [live1, gone1, sentDone_nil, sentDone_rc, *]; done)))

local macro "compute" : tactic =>
  `(tactic| simp [step, terminate, handleHttp, readStartLine, readHeaderLine, readerEof, readerError, onUrl,
      allocWebsocketPeer, closeAndFreePeer, websocketClose, freeWebsocketPeer, sendHttpError, freeConnection,
      bufferedSocketClose, St.ended, St.exec, apply, St.need, St.cell, St.setCell, St.listed, live1, gone1,
      fixed, sentDone_nil, sentDone_rc, sentDone_snoc, sentDone_snoc2, sentDone_of_all, all101_snoc, *])

include hO hC in
theorem term_listening {s : St} (h : InvListening O C s) : InvDone O C false true (terminate s) := by
  have e1 := filter_other O hO
  have e2 := filter_not_other O hO
  have e3 := filter_not_other C hC
  obtain ⟨ph, fd, bs, conn, peer, rt, cl, pl, pc, fl, se⟩ := h
  fields s
  simp only at ph fd bs conn peer rt cl pl pc fl se
  subst ph fd bs conn peer rt cl pl pc fl se
  constructor <;> simp [terminate, St.exec, apply, St.ended, sentDone_nil, e1, e2, e3]

include hO hC in
theorem term_start {s : St} (h : InvStart O C s) : InvDone O C true true (terminate s) := by
  have e1 := filter_other O hO
  have e2 := filter_not_other O hO
  have e3 := filter_not_other_snoc C hC
  obtain ⟨ph, fd, bs, conn, peer, rt, cl, pl, pc, fl, se, ha, re, uh⟩ := h
  fields s
  simp only at ph fd bs conn peer rt cl pl pc fl se ha re uh
  subst ph fd bs conn peer rt cl pl pc fl se ha re uh
  constructor <;>
    simp [terminate, freeConnection, bufferedSocketClose, St.exec, apply, St.ended, St.need, St.cell, St.setCell,
      St.listed, live1, gone1, sentDone_nil, e1, e2, e3]

include hO hC in
theorem term_peer {s : St} {up : Bool} (h : InvPeer O C up s) : InvDone O C true true (terminate s) := by
  have e1 := filter_other_snoc O hO
  have e2 := filter_not_other_snoc O hO
  have e3 := filter_not_other_snoc C hC
  have e4 := filter_not_other C hC
  have e5 := erase_mine C hC
  cases up <;>
  obtain ⟨ph, fd, bs, conn, peer, rt, cl, pl, pc, fl, se, ha, re, uc⟩ := h <;>
  fields s <;>
  simp only at ph fd bs conn peer rt cl pl pc fl se ha re uc <;>
  subst ph fd bs conn peer rt cl pl pc fl ha re uc <;>
  constructor <;>
    simp [terminate, closeAndFreePeer, websocketClose, freeWebsocketPeer, freeConnection, bufferedSocketClose,
      St.exec, apply, St.ended, St.need, St.cell, St.setCell, St.listed, live1, gone1, sentDone_of_all se,
      e1, e2, e4, e5, hC] <;> try omega

include hO hC in
theorem term_done {s : St} {acc tm : Bool} (h : InvDone O C acc tm s) : InvDone O C acc true (terminate s) := by
  have e1 := filter_other O hO
  have e2 := filter_not_other O hO
  have e3 := filter_not_other C hC
  obtain ⟨ph, fd, bs, conn, peer, rt, ⟨l1, l2, l3⟩, fl, se⟩ := h
  fields s
  simp only at ph fd bs conn peer rt l1 l2 l3 fl se
  subst ph fd fl l1 l2 l3
  cases tm <;> constructor <;>
    simp [terminate, St.exec, apply, St.ended, e1, e2, e3, bs, conn, peer, rt, se]

include hO hC in
theorem step_listening {s : St} (h : InvListening O C s) (e : Event) :
    ∃ acc, Inv O C acc (isTerm e) (step fixed s e) := by
  cases e with
  | term => exact ⟨false, .done false true (term_listening hO hC h)⟩
  | accept a =>
    refine ⟨true, ?_⟩
    have e5 := erase_mine C hC
    obtain ⟨ph, fd, bs, conn, peer, rt, cl, pl, pc, fl, se⟩ := h
    fields s
    simp only at ph fd bs conn peer rt cl pl pc fl se
    subst ph fd bs conn peer rt cl pl pc fl se
    cases a
    · exact .start (by settle)
    all_goals exact .done true false (by settle)
  | _ => exact ⟨false, by simpa [step, h.ph, isTerm] using Inv.listening h⟩

set_option hygiene false in
local macro "open_start" : tactic =>
  `(tactic| (have e5 := erase_mine C hC
             obtain ⟨ph, fd, bs, conn, peer, rt, cl, pl, pc, fl, se, ha, re, uh⟩ := h
             fields s
             simp only at ph fd bs conn peer rt cl pl pc fl se ha re uh
             subst ph fd bs conn peer rt cl pl pc fl se ha re))

include hO hC in
theorem step_start {s : St} (h : InvStart O C s) (e : Event) : Inv O C true (isTerm e) (step fixed s e) := by
  cases e with
  | term => exact .done true true (term_start hO hC h)
  | startLine p f u d c =>
    open_start
    cases p
    · refine .done true false ?_
      by_cases hz : ssc = 0 <;> cases f <;> cases u <;> cases d <;> cases c <;> settle
    · cases u
      · refine .start ?_
        cases f <;> cases d <;> cases c <;> settle
      · cases f
        · refine .start ?_
          cases d <;> cases c <;> settle
        · cases c
          · exact .peer false (by cases d <;> settle)
          all_goals exact .done true false (by cases d <;> settle)
  | eof => open_start; exact .done true false (by settle)
  | readError => open_start; exact .done true false (by settle)
  | lineTooLong => open_start; exact .done true false (by settle)
  | _ => simpa [step, h.ph, isTerm] using Inv.start h

set_option hygiene false in
local macro "open_peer" : tactic =>
  `(tactic| (have e5 := erase_mine C hC
             have e6 := erase_mine O hO
             obtain ⟨ph, fd, bs, conn, peer, rt, cl, pl, pc, fl, se, ha, re, uc⟩ := h
             fields s
             simp only at ph fd bs conn peer rt cl pl pc fl se ha re uc
             subst ph fd bs conn peer rt cl pl pc fl ha re uc))

include hO hC in
theorem step_headers {s : St} (h : InvPeer O C false s) (e : Event) : Inv O C true (isTerm e) (step fixed s e) := by
  cases e with
  | term => exact .done true true (term_peer hO hC h)
  | headerLine p u w =>
    open_peer
    cases p
    · refine .done true false ?_
      rcases w with _ | w
      · cases u <;> settle
      · cases w <;> cases u <;> settle
    · cases u
      · refine .peer false ?_
        rcases w with _ | w
        · settle
        · cases w <;> settle
      · refine .peer true ?_
        rcases w with _ | w
        · settle
        · cases w <;> settle
  | eof => open_peer; exact .done true false (by settle)
  | readError => open_peer; exact .done true false (by settle)
  | lineTooLong => open_peer; exact .done true false (by settle)
  | _ => simpa [step, h.ph, isTerm] using Inv.peer false h

include hO hC in
theorem step_ws {s : St} (h : InvPeer O C true s) (e : Event) : Inv O C true (isTerm e) (step fixed s e) := by
  cases e with
  | term => exact .done true true (term_peer hO hC h)
  | wsEnd => open_peer; exact .done true false (by settle)
  | _ => simpa [step, h.ph, isTerm] using Inv.peer true h

include hO hC in
theorem step_done {s : St} {acc tm : Bool} (h : InvDone O C acc tm s) (e : Event) :
    Inv O C acc (isTerm e || tm) (step fixed s e) := by
  cases e with
  | term => exact .done acc true (term_done hO hC h)
  | _ => simpa [step, h.ph, isTerm] using Inv.done acc tm h

include hO hC in
/-- One step preserves the invariant; an accepted descriptor stays accepted; `tm` records SIGTERM. -/
theorem inv_step {s : St} {acc tm : Bool} (h : Inv O C acc tm s) (e : Event) :
    ∃ acc', (acc = true → acc' = true) ∧ Inv O C acc' (isTerm e || tm) (step fixed s e) := by
  cases h with
  | listening h =>
    obtain ⟨a, ha⟩ := step_listening hO hC h e
    exact ⟨a, by simp, by simpa using ha⟩
  | start h => exact ⟨true, fun _ => rfl, by simpa using step_start hO hC h e⟩
  | peer up h =>
    cases up
    · exact ⟨true, fun _ => rfl, by simpa using step_headers hO hC h e⟩
    · exact ⟨true, fun _ => rfl, by simpa using step_ws hO hC h e⟩
  | done acc tm h => exact ⟨acc, id, step_done hO hC h e⟩

include hO hC in
theorem inv_run {s : St} {acc tm : Bool} (h : Inv O C acc tm s) (evs : List Event) :
    ∃ acc', (acc = true → acc' = true) ∧ Inv O C acc' (evs.any isTerm || tm) (run fixed s evs) := by
  induction evs generalizing s acc tm with
  | nil => exact ⟨acc, id, by simpa [run] using h⟩
  | cons e evs ih =>
    obtain ⟨a1, h1, i1⟩ := inv_step hO hC h e
    obtain ⟨a2, h2, i2⟩ := ih i1
    refine ⟨a2, fun x => h2 (h1 x), ?_⟩
    have e : (evs.any isTerm || (isTerm e || tm)) = ((e :: evs).any isTerm || tm) := by
      simp only [List.any_cons]
      cases isTerm e <;> cases evs.any isTerm <;> cases tm <;> rfl
    simpa [run, e] using i2

end

/-! ### the invariant along runs from the state before the accept -/

theorem inv_of_run (o c : List Nat) (evs : List Event) :
    ∃ acc tm, tm = evs.any isTerm ∧
      Inv (o.map Ref.other) (c.map Ref.other) acc tm (run fixed (before o c) evs) := by
  obtain ⟨a, _, h⟩ := inv_run (mine_not_mem_others o) (mine_not_mem_others c)
    (inv_init (o.map Ref.other) (c.map Ref.other)) evs
  exact ⟨a, _, by simp, h⟩

theorem inv_of_accepted (o c : List Nat) (a : Accept) (evs : List Event) :
    ∃ tm, tm = evs.any isTerm ∧
      Inv (o.map Ref.other) (c.map Ref.other) true tm (run fixed (before o c) (.accept a :: evs)) := by
  have hO := mine_not_mem_others o
  have hC := mine_not_mem_others c
  have h0 : InvListening (o.map Ref.other) (c.map Ref.other) (before o c) :=
    ⟨rfl, rfl, rfl, rfl, rfl, rfl, rfl, rfl, rfl, rfl, rfl⟩
  have h1 : Inv (o.map Ref.other) (c.map Ref.other) true false (step fixed (before o c) (.accept a)) := by
    obtain ⟨acc, h⟩ := step_listening hO hC h0 (.accept a)
    cases acc
    · -- the accept always yields the descriptor: the `false` case of the invariant is not reachable
      exfalso
      cases h with
      | listening h' =>
        have : (step fixed (before o c) (.accept a)).phase = .listening := h'.ph
        cases a <;> simp [step, before, init, handleHttp, St.exec, St.ended] at this
      | done _ _ h' =>
        have : (step fixed (before o c) (.accept a)).fd = {} := by simpa using h'.fd
        cases a <;>
          simp [step, before, init, handleHttp, St.exec, St.ended, apply, St.cell, St.setCell, St.need, St.listed,
            fixed] at this
    · simpa [isTerm] using h
  obtain ⟨acc, hacc, h⟩ := inv_run hO hC h1 evs
  have : acc = true := hacc rfl
  subst this
  exact ⟨_, Bool.or_false _, by simpa [run] using h⟩

theorem settled_of_done {O C : List Ref} {acc tm : Bool} {s : St} (h : InvDone O C acc tm s) :
    s.allSettled := by
  intro ob
  have hfd := h.fd
  cases ob <;> simp only [St.settled, St.cell]
  · cases acc <;> simp [hfd, gone1]
  · rcases h.bs with e | e <;> simp [e, gone1]
  · rcases h.conn with e | e <;> simp [e, gone1]
  · rcases h.peer with e | e <;> simp [e, gone1]
  · rcases h.rt with e | e <;> simp [e, gone1]

theorem not_mine_mem (l : List Nat) : (l.map Ref.other).contains Ref.mine = false := by
  simp

end Cjet.Http
