/-
  C01 — the handlers that matter for fetch: change, add, remove, fetch, unfetch, authenticate;
  then `handleMethod` and `parseJsonRpc`.
-/
import Cjet.Lemmas.DaemonC01Handlers

namespace Cjet.Daemon.C01

open Cjet Cjet.Json Cjet.Daemon

theorem findElement_some {s : State} {path : Bytes} {e : Element} (h : findElement s path = some e) :
    ∃ q ∈ s.peers, e ∈ q.elements ∧ e.path = path := by
  unfold findElement at h
  split at h
  · cases h
  · next o _ =>
    split at h
    · cases h
    · next q hq =>
      exact ⟨q, (findPeer_some hq).1, List.mem_of_find?_eq_some h, by simpa using List.find?_some h⟩

theorem findPeer_updatePeer_self {ps : List Peer} {c : Nat} {g : Peer → Peer} {p : Peer}
    (hg : ∀ q, (g q).conn = q.conn) (h : findPeer ps c = some p) :
    findPeer (updatePeer ps c g) c = some (g p) := by
  induction ps with
  | nil => simp [findPeer] at h
  | cons q qs ih =>
    unfold findPeer updatePeer at *
    simp only [List.map_cons, List.find?_cons] at h ⊢
    by_cases hc : q.conn = c
    · have h1 : (q.conn == c) = true := by simp [hc]
      simp only [h1, if_true] at h ⊢
      have h2 : ((g q).conn == c) = true := by simp [hg, hc]
      simp only [h2]
      simp only [Option.some.injEq] at h
      rw [h]
    · have h1 : (q.conn == c) = false := by simp [hc]
      simp only [h1] at h ⊢
      simp only [Bool.false_eq_true, if_false, h1]
      exact ih h

/-! ## change -/

theorem changeState_ok {cfg : Config} {pc : Nat} {x : Ctx} (inv : Inv cfg x.st) {p : Peer} (hp : p ∈ x.st.peers)
    (req : Json) : HOK cfg x req pc (changeState x p req) := by
  unfold changeState
  split
  · next r hr => exact HOK.quiet inv (Quiet.refl x) (getParamsAndPath_err hr)
  · next params path _ =>
    split
    · exact HOK.err inv ..
    · next v _ =>
      split
      · exact HOK.err inv ..
      · next e hfe =>
        split
        · exact HOK.err inv ..
        · next hown =>
          split
          · exact HOK.err inv ..
          · obtain ⟨q, hq, heq, hpath⟩ := findElement_some hfe
            have ho : e.owner = p.conn := by simpa using hown
            have hqp : q = p :=
              eq_of_conn_eq inv.fetches.connNodup hq hp ((inv.elems.owner q hq e heq).symm.trans ho)
            subst hqp
            subst hpath
            dsimp only
            have hst : ({ x.st with peers := updatePeer x.st.peers q.conn (fun q' =>
                { q' with elements := q'.elements.map (fun el => if el.path == e.path
                    then { e with value := some v } else el) }) } : State) =
                chState x.st q.conn e.path { e with value := some v } := rfl
            obtain ⟨s1, s2⟩ := notifyFetchers_spec
              { x with st := chState x.st q.conn e.path { e with value := some v } }
              { e with value := some v } .change
            have htr := trans_change inv hp heq v
            have hfc : (chState x.st q.conn e.path { e with value := some v }).peers.map fcore =
                x.st.peers.map fcore := map_updatePeer_congr fcore _ _ _ (fun _ => rfl)
            rw [hst]
            refine HOK.transN (ns := (keys e.fetchers).filterMap
              (evNotif { e with value := some v } .change x.st.peers)) ?_ ?_
              (fun _ h => isResp_successFromRequest h)
            · have := s2.of_out_eq_left (z := x) rfl
              rw [evNotif_congr hfc] at this
              exact this
            · show TransN cfg x.st (notifyFetchers _ _ "change").st _
              have s1' : (notifyFetchers { x with st := chState x.st q.conn e.path { e with value := some v } }
                { e with value := some v } "change").st = chState x.st q.conn e.path { e with value := some v } := s1
              rw [s1']
              exact htr

/-! ## remove -/

theorem removeElementReq_ok {cfg : Config} {pc : Nat} {x : Ctx} (inv : Inv cfg x.st) {p : Peer} (hp : p ∈ x.st.peers)
    (req : Json) : HOK cfg x req pc (removeElementReq x p req) := by
  unfold removeElementReq
  split
  · next r hr => exact HOK.quiet inv (Quiet.refl x) (getParamsAndPath_err hr)
  · split
    · next e he =>
      obtain ⟨s1, s2⟩ := removeElement_spec x e
      refine HOK.transN s2 ?_ (fun _ h => isResp_successFromRequest h)
      show TransN cfg x.st (removeElement x e).st _
      rw [s1]
      exact trans_remove inv hp (List.mem_of_find?_eq_some he)
    · exact HOK.err inv ..

/-! ## add -/

def addCore (cfg : Config) (x : Ctx) (p : Peer) (req : Json) (path : Bytes) (e : Element) : Ctx × Option Json :=
  let (x, e) := findFetchersForElement cfg x e
  if x.indexFull then
    let x := notifyFetchers x e "remove"
    ({ x with indexFull := false },
     errorFromRequest req INTERNAL_ERROR "reason" (k "element table full"))
  else
    let st := { x.st with
      index := x.st.index ++ [(path, p.conn)],
      peers := updatePeer x.st.peers p.conn (fun q => { q with elements := q.elements ++ [e] }) }
    ({ x with st := st }, successFromRequest req)

def addBody (cfg : Config) (x : Ctx) (p : Peer) (req params : Json) (path : Bytes) : Ctx × Option Json :=
  let fetchOnly := match params.getItem (k "fetchOnly") with | some (.bool true) => true | _ => false
  match getTimeout cfg (params.getItem (k "timeout")) cfg.defaultTimeoutNs with
  | .err reason => (x, errorFromRequest req INVALID_PARAMS "reason" (k reason))
  | .ns tns =>
    if (lookupIndex x.st.index path).isSome then
      (x, errorFromRequest req INVALID_PARAMS "exists" path)
    else
      let value := params.getItem (k "value")
      match fillAccess cfg value.isSome (params.getItem (k "access")) with
      | .error reason => (x, errorFromRequest req INVALID_PARAMS "reason" (k reason))
      | .ok (fg, sg, cg) =>
        let e : Element := { path := path, owner := p.conn, value := value, fetchOnly := fetchOnly,
                             timeoutNs := tns, fetchGroups := fg, setGroups := sg, callGroups := cg,
                             fetchers := List.replicate cfg.initFetchTable none }
        addCore cfg x p req path e

theorem addElement_eq (cfg : Config) (x : Ctx) (p : Peer) (req : Json) :
    addElement cfg x p req =
    if cfg.localOnlyAdd && !p.isLocal then
      (x, errorFromRequest req INVALID_REQUEST "reason" (k "add only allowed from localhost"))
    else
    match getParamsAndPath req with
    | .err r => (x, r)
    | .ok params path =>
      match params.getItem (k "fetchOnly") with
      | some (.bool _) | none => addBody cfg x p req params path
      | some _ => (x, errorFromRequest req INVALID_PARAMS "reason" (k "fetchOnly is not a bool")) := by
  rfl

theorem newKeys_congr {cfg : Config} {ps : List Peer} {e e' : Element}
    (h : e' = { e with fetchers := e'.fetchers }) : newKeys cfg ps e' = newKeys cfg ps e := by
  have hvis : ∀ pg r, visible cfg pg r e' = visible cfg pg r e := by
    intro pg r; rw [h]; rfl
  unfold newKeys
  simp only [hvis]

theorem addNotifs_congr {cfg : Config} {ps : List Peer} {e e' : Element}
    (h : e' = { e with fetchers := e'.fetchers }) : addNotifs cfg ps e' = addNotifs cfg ps e := by
  have hvis : ∀ pg r, visible cfg pg r e' = visible cfg pg r e := by
    intro pg r; rw [h]; rfl
  have hp : e'.path = e.path := by rw [h]
  have hv : e'.value = e.value := by rw [h]
  unfold addNotifs addNotif
  simp only [hvis, hp, hv]

theorem addCore_ok {cfg : Config} {pc : Nat} {x : Ctx} (inv : Inv cfg x.st) {p : Peer} (hp : p ∈ x.st.peers)
    (req : Json) (path : Bytes) (e : Element) (hfresh : lookupIndex x.st.index path = none)
    (hpath : e.path = path) (howner : e.owner = p.conn) (hkeys : keys e.fetchers = []) :
    HOK cfg x req pc (addCore cfg x p req path e) := by
  obtain ⟨h1, h2, h3, h4⟩ := findFetchersForElement_spec cfg x e
  unfold addCore
  split
  next x1 e1 heq =>
  rw [heq] at h1 h2 h3 h4
  simp only at h1 h2 h3 h4
  rw [hkeys, List.append_nil] at h3
  have hp1 : e1.path = path := by rw [h2]; exact hpath
  split
  · -- the index refuses: subscribers get "remove"
    obtain ⟨s1, s2⟩ := notifyFetchers_spec x1 e1 .remove
    rw [h1] at s1 s2
    have htr := trans_addFail inv (e := e) (e' := e1) (hpath ▸ hfresh) h2 h3
    refine HOK.transN (ns := addNotifs cfg x.st.peers e ++
      (keys e1.fetchers).filterMap (evNotif e1 .remove x.st.peers)) ?_ ?_
      (fun _ h => isResp_errorFromRequest h)
    · exact (h4.trans s2).of_out_eq rfl
    · show TransN cfg x.st (notifyFetchers x1 e1 "remove").st _
      have s1' : (notifyFetchers x1 e1 "remove").st = x.st := s1
      rw [s1']
      exact htr
  · have hst : ({ x1.st with
          index := x1.st.index ++ [(path, p.conn)],
          peers := updatePeer x1.st.peers p.conn (fun q => { q with elements := q.elements ++ [e1] }) } : State) =
        addState x.st p.conn e1 := by
      rw [h1, ← hp1]; rfl
    have htr := trans_add inv hp (e := e1) (hp1 ▸ hfresh) (by rw [h2]; exact howner)
      (by rw [newKeys_congr h2]; exact h3)
    rw [addNotifs_congr h2] at htr
    refine HOK.transN (ns := addNotifs cfg x.st.peers e) ?_ ?_ (fun _ h => isResp_successFromRequest h)
    · exact h4.of_out_eq rfl
    · show TransN cfg x.st { x1.st with index := _, peers := _ } _
      rw [hst]
      exact htr

theorem addBody_ok {cfg : Config} {pc : Nat} {x : Ctx} (inv : Inv cfg x.st) {p : Peer} (hp : p ∈ x.st.peers)
    (req params : Json) (path : Bytes) : HOK cfg x req pc (addBody cfg x p req params path) := by
  unfold addBody
  dsimp only
  split
  · exact HOK.err inv ..
  · split
    · exact HOK.err inv ..
    · next hidx =>
      split
      · exact HOK.err inv ..
      · apply addCore_ok inv hp
        · cases h : lookupIndex x.st.index path with
          | none => rfl
          | some o => simp [h] at hidx
        · rfl
        · rfl
        · simp

theorem addElement_ok {cfg : Config} {pc : Nat} {x : Ctx} (inv : Inv cfg x.st) {p : Peer} (hp : p ∈ x.st.peers)
    (req : Json) : HOK cfg x req pc (addElement cfg x p req) := by
  rw [addElement_eq]
  split
  · exact HOK.err inv ..
  · split
    · next r hr => exact HOK.quiet inv (Quiet.refl x) (getParamsAndPath_err hr)
    · split
      · exact addBody_ok inv hp ..
      · exact addBody_ok inv hp ..
      · exact HOK.err inv ..

/-! ## unfetch -/

theorem unfetchReq_ok {cfg : Config} {pc : Nat} {x : Ctx} (inv : Inv cfg x.st) (p : Peer) (req : Json) :
    HOK cfg x req pc (unfetchReq x p req) := by
  unfold unfetchReq
  split
  · next r hr => exact HOK.quiet inv (Quiet.refl x) (getFetchId_err hr)
  · split
    · exact HOK.err inv ..
    · next f _ =>
      exact HOK.transN ((Emits.refl x).of_out_eq rfl) (trans_unfetch inv ⟨p.conn, f.uid⟩)
        (fun _ h => isResp_successFromRequest h)

/-! ## authenticate -/

theorem authenticateReq_ok {cfg : Config} {pc : Nat} {x : Ctx} (inv : Inv cfg x.st) {p : Peer} (hp : p ∈ x.st.peers)
    (req : Json) : HOK cfg x req pc (authenticateReq cfg x p req) := by
  unfold authenticateReq
  split
  · next r hr => exact HOK.quiet inv (Quiet.refl x) (getCredentials_err hr)
  · split
    · exact HOK.err inv ..
    · next hne =>
      have hnf : p.fetches = [] := by
        cases h : p.fetches with
        | nil => rfl
        | cons a t => simp [h] at hne
      split
      · exact HOK.err inv ..
      · dsimp only
        refine HOK.transN ((Emits.refl x).of_out_eq rfl) ?_ (fun _ h => isResp_successFromRequest h)
        exact trans_regroup inv hp hnf _ (fun _ => rfl) (fun _ => rfl) (fun _ => rfl)

/-! ## fetch -/

theorem fetchCore_ok {cfg : Config} {x : Ctx} (inv : Inv cfg x.st) {p : Peer} (hp : p ∈ x.st.peers)
    (req : Json) (f : Fetch) (huid : f.uid = x.st.nextUid) (hok : idsEqual f.fid f.fid = true)
    (hnew : ∀ g ∈ p.fetches, idsEqual g.fid f.fid = false) (x0 : Ctx)
    (hx0st : x0.st = { x.st with
      nextUid := x.st.nextUid + 1,
      peers := updatePeer x.st.peers p.conn (fun q => { q with fetches := q.fetches ++ [f] }) })
    (hx0out : x0.out = x.out) :
    HOK cfg x req p.conn (offerAllElements cfg x0 { p with fetches := p.fetches ++ [f] } f, successFromRequest req) := by
  have hn0 : (x0.st.peers.map (·.conn)).Nodup := by
    rw [hx0st]
    show ((updatePeer x.st.peers p.conn _).map (·.conn)).Nodup
    rw [updatePeer_conns x.st.peers p.conn (fun q => { q with fetches := q.fetches ++ [f] }) (fun _ => rfl)]
    exact inv.fetches.connNodup
  have hels0 : x0.st.peers.map (·.elements) = x.st.peers.map (·.elements) := by
    rw [hx0st]
    exact map_updatePeer_congr (·.elements) _ _ _ (fun _ => rfl)
  have hp0 : ∀ q ∈ x0.st.peers, (q.elements.map (·.path)).Nodup := by
    intro q hq
    obtain ⟨q', hq', e⟩ := exists_of_map_eq hels0 hq
    have e' : q'.elements = q.elements := e
    rw [← e']
    exact inv.elems.pathNodup q' hq'
  obtain ⟨o1, o2⟩ := offerAllElements_spec cfg x0 { p with fetches := p.fetches ++ [f] } f hn0 hp0
  have hall0 : allElems x0.st = allElems x.st := allElems_eq_of_map_elements hels0
  have hfinal : (offerAllElements cfg x0 { p with fetches := p.fetches ++ [f] } f).st =
      fetchState cfg x.st p f := by
    rw [o1, hx0st]
    unfold fetchState
    simp only
    congr 1
    unfold updatePeer
    rw [List.map_map]
    apply List.map_congr_left
    intro q _
    simp only [Function.comp, fetchPeer]
  have ft := trans_fetch inv hp huid hok hnew
  refine ⟨⟨fetchNotifs cfg x.st p f, ?_, ?_⟩, fun _ h => isResp_successFromRequest h, ?_⟩
  · have := o2.of_out_eq_left (z := x) hx0out.symm
    rw [hall0] at this
    exact this
  · show StepOK cfg x.st (offerAllElements cfg x0 _ f).st _
    rw [hfinal]
    exact ft.stepOK inv hp huid hnew
  · intro c' g hg hng
    refine ⟨rfl, ?_⟩
    have hg' : HasFetch (fetchState cfg x.st p f) c' g := by
      have : (offerAllElements cfg x0 { p with fetches := p.fetches ++ [f] } f, successFromRequest req).1.st =
          fetchState cfg x.st p f := hfinal
      rw [← this]; exact hg
    rcases ft.fresh c' g hg' with h | ⟨h, _⟩
    · exact absurd h hng
    · exact h

theorem fetchReq_ok {cfg : Config} {x : Ctx} (inv : Inv cfg x.st) {p : Peer} (hp : p ∈ x.st.peers)
    (req : Json) : HOK cfg x req p.conn (fetchReq cfg x p req) := by
  unfold fetchReq
  split
  · next r hr => exact HOK.quiet inv (Quiet.refl x) (getFetchId_err hr)
  · next params fid hfid =>
    split
    · exact HOK.err inv ..
    · next hany =>
      split
      · exact HOK.err inv ..
      · next rule _ =>
        dsimp only
        have hnew : ∀ g ∈ p.fetches, idsEqual g.fid fid = false := by
          intro g hg
          cases h : idsEqual g.fid fid with
          | false => rfl
          | true => exact absurd (List.any_eq_true.2 ⟨g, hg, h⟩) hany
        have hfp : findPeer x.st.peers p.conn = some p := findPeer_of_mem inv.fetches.connNodup hp
        have hfp' := findPeer_updatePeer_self
          (g := fun q => { q with fetches := q.fetches ++ [{ uid := x.st.nextUid, fid := fid, rule := rule }] })
          (fun _ => rfl) hfp
        simp only [hfp']
        exact fetchCore_ok inv hp req { uid := x.st.nextUid, fid := fid, rule := rule } rfl
          (getFetchId_ok hfid) hnew _ rfl rfl

/-! ## handleMethod, parseJsonRpc -/

theorem hok_ite {cfg : Config} {pc : Nat} {x : Ctx} {req : Json} {c : Bool} {a b : Ctx × Option Json}
    (ha : HOK cfg x req pc a) (hb : HOK cfg x req pc b) : HOK cfg x req pc (if c = true then a else b) := by
  cases c
  · simpa using hb
  · simpa using ha

theorem handleMethod_ok {cfg : Config} {x : Ctx} (inv : Inv cfg x.st) {p : Peer} (hp : p ∈ x.st.peers)
    (req : Json) (method : Bytes) : HOK cfg x req p.conn (handleMethod cfg x p req method) := by
  unfold handleMethod
  repeat' with_reducible apply hok_ite
  all_goals first
    | exact changeState_ok inv hp req
    | exact setOrCall_ok inv p req _
    | exact addElement_ok inv hp req
    | exact removeElementReq_ok inv hp req
    | exact fetchReq_ok inv hp req
    | exact unfetchReq_ok inv p req
    | exact getReq_ok inv p req
    | exact configReq_ok inv p req
    | exact infoReq_ok inv req
    | exact authenticateReq_ok inv hp req
    | exact passwdReq_ok inv p req
    | exact HOK.err inv ..

/-- One JSON-RPC object: the output is `resp ++ new ++ old` (newest first) where `resp` is at most
    the one response (never a notification), sent after everything else; the work up to the response
    satisfies `StepOK`; and when a fetch was installed it was installed for the requesting
    connection and the response is exactly the success response of the request. -/
structure RpcOK (cfg : Config) (x : Ctx) (c : Nat) (req : Json) (x' : Ctx) : Prop where
  shape : ∃ new resp : List Obs, x'.out = resp ++ new ++ x.out ∧
    StepOK cfg x.st x'.st (notifs new.reverse) ∧
    (resp = [] ∨ ∃ j b, resp = [Obs.send c j b] ∧ IsResp j) ∧
    (∀ c' f, HasFetch x'.st c' f → ¬ HasFetch x.st c' f →
      c' = c ∧ ((successFromRequest req = none ∧ resp = []) ∨
                ∃ j b, successFromRequest req = some j ∧ resp = [Obs.send c j b]))

theorem rpcOK_of_hok {cfg : Config} {x : Ctx} {c : Nat} {req : Json} {r : Ctx × Option Json}
    (h : HOK cfg x req c r) : RpcOK cfg x c req (sendResponse r.1 c r.2).1 := by
  obtain ⟨ns, ⟨new, hnew, hns⟩, hstep⟩ := h.step
  unfold sendResponse
  cases hr : r.2 with
  | none =>
    refine ⟨new, [], by simpa using hnew, ?_, Or.inl rfl, ?_⟩
    · rw [hns]; exact hstep
    · intro c' f h1 h2
      obtain ⟨h3, h4⟩ := h.succ c' f h1 h2
      exact ⟨h4, Or.inl ⟨by rw [← h3, hr], rfl⟩⟩
  | some j =>
    obtain ⟨b, hb⟩ := send_out r.1 c j
    refine ⟨new, [Obs.send c j b], ?_, ?_, Or.inr ⟨j, b, rfl, h.resp j hr⟩, ?_⟩
    · simp only
      rw [hb, hnew]
      simp
    · simp only
      rw [send_st, hns]; exact hstep
    · intro c' f h1 h2
      simp only [send_st] at h1
      obtain ⟨h3, h4⟩ := h.succ c' f h1 h2
      exact ⟨h4, Or.inr ⟨j, b, by rw [← h3, hr], rfl⟩⟩

theorem rpcOK_quiet {cfg : Config} {x x' : Ctx} {c : Nat} {req : Json} (inv : Inv cfg x.st)
    (h : Quiet x x') : RpcOK cfg x c req x' := by
  obtain ⟨new, hnew, hns⟩ := h.emits
  refine ⟨new, [], by simpa using hnew, ?_, Or.inl rfl, ?_⟩
  · rw [hns]
    exact (h.transN inv).stepOK
  · intro c' f h1 h2
    exact absurd ((h.transN inv).noNew c' f h1) h2

theorem parseJsonRpc_ok {cfg : Config} {x : Ctx} (inv : Inv cfg x.st) (c : Nat) (req : Json) :
    RpcOK cfg x c req (parseJsonRpc cfg x c req).1 := by
  unfold parseJsonRpc
  split
  · exact rpcOK_quiet inv (Quiet.refl x)
  · next p hp =>
    have hpm := (findPeer_some hp).1
    have hpc : p.conn = c := (findPeer_some hp).2
    split
    · next m _ =>
      have := handleMethod_ok inv hpm req m
      rw [hpc] at this
      exact rpcOK_of_hok this
    · exact rpcOK_of_hok (r := (x, _)) (HOK.err inv ..)
    · split
      · exact rpcOK_quiet inv (quiet_routingResponse ..)
      · split
        · exact rpcOK_quiet inv (quiet_routingResponse ..)
        · exact rpcOK_of_hok (r := (x, _)) (HOK.err inv ..)

end Cjet.Daemon.C01
