/-
  Cjet.Lemmas.Alloc — the accounting invariant of the allocator model and its preservation.
-/
import Cjet.Alloc

namespace Cjet.Alloc

/-- what is assumed about the operating system: a request of half the address space or more is
    never granted (glibc refuses requests above PTRDIFF_MAX) -/
def OsOk (P : Params) (op : Op) : Prop := op.osOk = true → allocSize P op.bytes < W / 2

instance (P : Params) (op : Op) : Decidable (OsOk P op) := by unfold OsOk; infer_instance

/-- the configured cap is at most half the address space -/
def Params.Ok (P : Params) : Prop := P.capBytes ≤ W / 2

instance (P : Params) : Decidable P.Ok := by unfold Params.Ok; infer_instance

theorem W_pos : 0 < W := Nat.pow_pos (by decide)

theorem W_half : W / 2 + W / 2 = W := by
  unfold W Cjet.Generated.Alloc.sizeBits; decide

def sizes (l : List (Nat × Nat)) : Nat := (l.map (·.2)).sum
def ids (l : List (Nat × Nat)) : List Nat := l.map (·.1)

@[simp] theorem sizes_nil : sizes [] = 0 := rfl
@[simp] theorem sizes_cons (e : Nat × Nat) (l : List (Nat × Nat)) : sizes (e :: l) = e.2 + sizes l := by
  simp [sizes]
theorem sizes_append (a b : List (Nat × Nat)) : sizes (a ++ b) = sizes a + sizes b := by
  simp [sizes]

structure Inv (P : Params) (s : St) : Prop where
  acc : s.allocated = sizes s.live
  cap : s.allocated ≤ P.capBytes
  lt : ∀ i ∈ ids s.live, i < s.next
  nodup : (ids s.live).Nodup

theorem inv_init (P : Params) : Inv P init :=
  ⟨rfl, Nat.zero_le _, (by intro i hi; cases hi), List.nodup_nil⟩

/-! ## take -/

theorem take_none {id : Nat} {l : List (Nat × Nat)} (h : take id l = none) : id ∉ ids l := by
  induction l with
  | nil => intro hm; cases hm
  | cons e t ih =>
    obtain ⟨i, sz⟩ := e
    unfold take at h
    by_cases hi : (i == id) = true
    · simp [hi] at h
    · simp only [hi, Bool.false_eq_true, ↓reduceIte] at h
      cases ht : take id t with
      | none =>
        intro hm
        simp only [ids, List.map_cons, List.mem_cons] at hm
        rcases hm with e | hm
        · exact hi (by simp [e])
        · exact ih ht hm
      | some r => rw [ht] at h; cases h

theorem take_some {id : Nat} {l : List (Nat × Nat)} {sz : Nat} {rest : List (Nat × Nat)}
    (h : take id l = some (sz, rest)) :
    sizes l = sz + sizes rest ∧ (ids rest).Sublist (ids l) ∧ (id, sz) ∈ l ∧
      ((ids l).Nodup → id ∉ ids rest) := by
  induction l generalizing rest with
  | nil => cases h
  | cons e t ih =>
    obtain ⟨i, z⟩ := e
    unfold take at h
    by_cases hi : (i == id) = true
    · simp only [hi, ↓reduceIte, Option.some.injEq, Prod.mk.injEq] at h
      obtain ⟨rfl, rfl⟩ := h
      have hid : i = id := by simpa using hi
      subst hid
      refine ⟨by simp, by simp [ids], List.mem_cons_self, ?_⟩
      intro hn
      simp only [ids, List.map_cons, List.nodup_cons] at hn
      exact hn.1
    · simp only [hi, Bool.false_eq_true, ↓reduceIte] at h
      cases ht : take id t with
      | none => rw [ht] at h; cases h
      | some r =>
        obtain ⟨z', t'⟩ := r
        rw [ht] at h
        simp only [Option.some.injEq, Prod.mk.injEq] at h
        obtain ⟨rfl, rfl⟩ := h
        obtain ⟨h1, h2, h3, h4⟩ := ih ht
        refine ⟨by simp [h1]; omega, ?_, List.mem_cons_of_mem _ h3, ?_⟩
        · simp only [ids, List.map_cons]
          exact List.Sublist.cons_cons _ h2
        · intro hn
          simp only [ids, List.map_cons, List.nodup_cons, List.mem_cons] at hn ⊢
          rintro (e | hm)
          · exact hi (by simp [e])
          · exact h4 hn.2 hm

theorem take_of_mem {id : Nat} {l : List (Nat × Nat)} (h : id ∈ ids l) : ∃ r, take id l = some r := by
  cases ht : take id l with
  | none => exact absurd h (take_none ht)
  | some r => exact ⟨r, rfl⟩

theorem mem_sizes_le {l : List (Nat × Nat)} {e : Nat × Nat} (h : e ∈ l) : e.2 ≤ sizes l := by
  induction l with
  | nil => cases h
  | cons a t ih =>
    rcases List.mem_cons.mp h with rfl | h'
    · simp
    · have := ih h'; simp; omega

/-! ## one operation -/

theorem alloc_null {P : Params} {s : St} {bytes : Nat} {osOk : Bool} (h : (alloc P s bytes osOk).2 = .null) :
    (alloc P s bytes osOk).1 = s := by
  unfold alloc at h ⊢
  simp only at h ⊢
  split
  · rfl
  · split
    · rfl
    · next h1 h2 => simp [h1, h2] at h

theorem alloc_null_iff (P : Params) (s : St) (bytes : Nat) (osOk : Bool) :
    (alloc P s bytes osOk).2 = .null ↔ ((s.allocated + allocSize P bytes) % W > P.capBytes ∨ osOk = false) := by
  unfold alloc
  simp only
  split
  · next h => simp [h]
  · next h =>
    split
    · next h2 => simp at h2; simp [h2]
    · next h2 => simp at h2; simp [h, h2]

/-- a granted request: the counter grows by `alloc_size`, the new block (the next id) records it -/
theorem alloc_granted {P : Params} {s : St} {bytes : Nat} {osOk : Bool} (h : (alloc P s bytes osOk).2 ≠ .null) :
    alloc P s bytes osOk =
      ({ allocated := (s.allocated + allocSize P bytes) % W, live := s.live ++ [(s.next, allocSize P bytes)],
         next := s.next + 1 }, .ptr s.next) := by
  unfold alloc at h ⊢
  simp only at h ⊢
  split
  · next h1 => simp [h1] at h
  · split
    · next h1 h2 => simp [h1, h2] at h
    · rfl

theorem free_nofree {s : St} {id : Nat} (h : (free s id).2 = .nofree) : (free s id).1 = s := by
  unfold free at h ⊢
  split
  · rfl
  · next h1 => simp [h1] at h

theorem inv_alloc {P : Params} (hP : P.Ok) {s : St} (h : Inv P s) (bytes : Nat) (osOk : Bool)
    (hos : osOk = true → allocSize P bytes < W / 2) : Inv P (alloc P s bytes osOk).1 := by
  unfold alloc
  simp only
  split
  · exact h
  · next hcap =>
    split
    · exact h
    · next hok =>
      have hok' : osOk = true := by simpa using hok
      have ha := hos hok'
      have hlt : s.allocated + allocSize P bytes < W := by
        have := h.cap
        have h2 : P.capBytes ≤ W / 2 := hP
        have := W_half
        omega
      have hmod : (s.allocated + allocSize P bytes) % W = s.allocated + allocSize P bytes :=
        Nat.mod_eq_of_lt hlt
      refine ⟨?_, Nat.le_of_not_gt hcap, ?_, ?_⟩
      · show (s.allocated + allocSize P bytes) % W = sizes (s.live ++ [(s.next, allocSize P bytes)])
        rw [hmod, sizes_append, h.acc]; simp
      · intro i hi
        simp only [ids, List.map_append, List.map_cons, List.map_nil, List.mem_append,
          List.mem_singleton] at hi
        rcases hi with hi | rfl
        · exact Nat.lt_succ_of_lt (h.lt i hi)
        · exact Nat.lt_succ_self _
      · show (ids (s.live ++ [(s.next, allocSize P bytes)])).Nodup
        simp only [ids, List.map_append, List.map_cons, List.map_nil]
        rw [List.nodup_append]
        refine ⟨h.nodup, by simp, ?_⟩
        intro a ha b hb
        simp only [List.mem_singleton] at hb
        subst hb
        exact Nat.ne_of_lt (h.lt a ha)

theorem free_spec {P : Params} {s : St} (h : Inv P s) (id : Nat) :
    (id ∉ ids s.live ∧ free s id = (s, .nofree)) ∨
    ∃ sz rest, take id s.live = some (sz, rest) ∧
      free s id = ({ s with allocated := s.allocated - sz, live := rest }, .freed) ∧
      s.allocated = sz + sizes rest := by
  unfold free
  cases ht : take id s.live with
  | none => exact Or.inl ⟨take_none ht, rfl⟩
  | some r =>
    obtain ⟨sz, rest⟩ := r
    right
    obtain ⟨h1, _, h3, _⟩ := take_some ht
    have hle : sz ≤ s.allocated := by rw [h.acc, h1]; omega
    have hW : s.allocated < W := by
      have := h.cap
      have : P.capBytes < W := Nat.mod_lt _ W_pos
      omega
    have hsz : sz % W = sz := Nat.mod_eq_of_lt (by omega)
    have : (s.allocated + W - sz % W) % W = s.allocated - sz := by
      rw [hsz]
      have : s.allocated + W - sz = (s.allocated - sz) + W := by omega
      rw [this, Nat.add_mod_right]
      exact Nat.mod_eq_of_lt (by omega)
    refine ⟨sz, rest, rfl, ?_, by rw [h.acc, h1]⟩
    simp only [this]

theorem inv_free {P : Params} {s : St} (h : Inv P s) (id : Nat) : Inv P (free s id).1 := by
  rcases free_spec h id with ⟨_, he⟩ | ⟨sz, rest, ht, he, hacc⟩
  · rw [he]; exact h
  · rw [he]
    obtain ⟨_, h2, _, _⟩ := take_some ht
    refine ⟨?_, ?_, ?_, ?_⟩
    · show s.allocated - sz = sizes rest
      omega
    · show s.allocated - sz ≤ P.capBytes
      have := h.cap; omega
    · intro i hi
      exact h.lt i (h2.subset hi)
    · exact h.nodup.sublist h2

theorem inv_step {P : Params} (hP : P.Ok) {s : St} (h : Inv P s) (op : Op) (hos : OsOk P op) :
    Inv P (step P s op).1 := by
  cases op with
  | malloc size osOk => exact inv_alloc hP h _ _ hos
  | calloc nmemb size osOk => exact inv_alloc hP h _ _ hos
  | free id => exact inv_free h id

theorem run_cons (P : Params) (s : St) (op : Op) (rest : List Op) :
    run P s (op :: rest) =
      ((run P (step P s op).1 rest).1, ((step P s op).2, (step P s op).1.allocated) :: (run P (step P s op).1 rest).2) :=
  rfl

theorem inv_run {P : Params} (hP : P.Ok) (ops : List Op) {s : St} (h : Inv P s)
    (hos : ∀ op ∈ ops, OsOk P op) :
    Inv P (run P s ops).1 ∧ ∀ o ∈ (run P s ops).2, o.2 ≤ P.capBytes := by
  induction ops generalizing s with
  | nil => exact ⟨h, by intro o ho; cases ho⟩
  | cons op rest ih =>
    have h1 := inv_step hP h op (hos op List.mem_cons_self)
    obtain ⟨h2, h3⟩ := ih h1 (fun o ho => hos o (List.mem_cons_of_mem _ ho))
    rw [run_cons]
    refine ⟨h2, ?_⟩
    intro o ho
    rcases List.mem_cons.mp ho with rfl | ho
    · exact h1.cap
    · exact h3 o ho

/-! ## freeing everything -/

def freeAll (s : St) (l : List Nat) : St := l.foldl (fun s id => (free s id).1) s

theorem freeAll_empties {P : Params} (l : List Nat) {s : St} (h : Inv P s)
    (hcov : ∀ i ∈ ids s.live, i ∈ l) : (freeAll s l).live = [] ∧ (freeAll s l).allocated = 0 := by
  induction l generalizing s with
  | nil =>
    have hl : s.live = [] := by
      cases hs : s.live with
      | nil => rfl
      | cons e t =>
        have := hcov e.1 (by rw [hs]; simp [ids])
        cases this
    exact ⟨hl, by show s.allocated = 0; rw [h.acc, hl]; rfl⟩
  | cons id rest ih =>
    show (freeAll (free s id).1 rest).live = [] ∧ (freeAll (free s id).1 rest).allocated = 0
    apply ih (inv_free h id)
    intro i hi
    rcases free_spec h id with ⟨hn, he⟩ | ⟨sz, rest', ht, he, _⟩
    · rw [he] at hi
      rcases List.mem_cons.mp (hcov i hi) with e | hm
      · exact absurd (e ▸ hi) hn
      · exact hm
    · rw [he] at hi
      obtain ⟨_, h2, _, h4⟩ := take_some ht
      have hi' : i ∈ ids rest' := hi
      rcases List.mem_cons.mp (hcov i (h2.subset hi')) with e | hm
      · exact absurd (e ▸ hi') (h4 h.nodup)
      · exact hm

end Cjet.Alloc
