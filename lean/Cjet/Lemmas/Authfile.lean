import Cjet.Authfile
/-! Helper lemmas for `Cjet.Props.C20`. -/

namespace Cjet.Authfile

open Cjet

/-! ### case-folded name comparison -/

theorem caseEq_iff (a b : Bytes) : caseEq a b = true ↔ a.map lower = b.map lower := by
  simp [caseEq]

theorem caseEq_refl (a : Bytes) : caseEq a a = true := by simp [caseEq]

theorem caseEq_of_eq {a b : Bytes} (h : a = b) : caseEq a b = true := by subst h; exact caseEq_refl a

/-- two names that both match one entry name match each other -/
theorem caseEq_via {a b n : Bytes} (h1 : caseEq a n = true) (h2 : caseEq b n = true) : caseEq a b = true := by
  rw [caseEq_iff] at *
  rw [h1, h2]

/-! ### lookup / replacePassword -/

theorem lookup_cons (u : User) (rest : Db) (name : Bytes) :
    lookup (u :: rest) name = if caseEq name u.name then some u else lookup rest name := by
  simp only [lookup, List.find?_cons]
  cases caseEq name u.name <;> rfl

theorem lookup_replacePassword_self (db : Db) (target h : Bytes) (u : User)
    (hl : lookup db target = some u) :
    lookup (replacePassword db target h) target = some { u with password := .str h } := by
  induction db with
  | nil => simp [lookup] at hl
  | cons v rest ih =>
    rw [lookup_cons] at hl
    simp only [replacePassword]
    by_cases hc : caseEq target v.name = true
    · simp only [hc, ↓reduceIte] at hl ⊢
      rw [lookup_cons]
      simp only [hc, ↓reduceIte]
      cases hl
      rfl
    · simp only [hc, Bool.false_eq_true, ↓reduceIte] at hl ⊢
      rw [lookup_cons]
      simp only [hc, Bool.false_eq_true, ↓reduceIte]
      exact ih hl

theorem lookup_replacePassword_other (db : Db) (target h name : Bytes)
    (hn : caseEq name target = false) :
    lookup (replacePassword db target h) name = lookup db name := by
  induction db with
  | nil => rfl
  | cons v rest ih =>
    simp only [replacePassword]
    by_cases hc : caseEq target v.name = true
    · simp only [hc, ↓reduceIte]
      rw [lookup_cons, lookup_cons]
      by_cases hv : caseEq name v.name = true
      · have := caseEq_via hv hc
        rw [hn] at this
        cases this
      · simp only [hv, Bool.false_eq_true, ↓reduceIte]
    · simp only [hc, Bool.false_eq_true, ↓reduceIte]
      rw [lookup_cons, lookup_cons, ih]

/-- forget the password member -/
def erasePw (u : User) : User := { u with password := .absent }

theorem replacePassword_erase (db : Db) (target h : Bytes) :
    (replacePassword db target h).map erasePw = db.map erasePw := by
  induction db with
  | nil => rfl
  | cons v rest ih =>
    simp only [replacePassword]
    by_cases hc : caseEq target v.name = true
    · simp [hc, erasePw]
    · simp only [hc, Bool.false_eq_true, ↓reduceIte, List.map_cons, ih]

theorem replacePassword_length (db : Db) (target h : Bytes) :
    (replacePassword db target h).length = db.length := by
  have := congrArg List.length (replacePassword_erase db target h)
  simpa using this

theorem isAdmin_replacePassword (db : Db) (target h name : Bytes) :
    isAdmin (replacePassword db target h) name = isAdmin db name := by
  by_cases hn : caseEq name target = true
  · unfold isAdmin
    cases hl : lookup db name with
    | none =>
      -- name matches target, so target is not found either and nothing is replaced
      have : lookup (replacePassword db target h) name = none := by
        induction db with
        | nil => rfl
        | cons v rest ih =>
          rw [lookup_cons] at hl
          by_cases hv : caseEq name v.name = true
          · simp [hv] at hl
          · simp only [hv, Bool.false_eq_true, ↓reduceIte] at hl
            simp only [replacePassword]
            by_cases hc : caseEq target v.name = true
            · -- then name would match v as well
              have h1 : caseEq name v.name = true := by
                rw [caseEq_iff] at hn hc ⊢
                rw [hn, hc]
              exact absurd h1 hv
            · simp only [hc, Bool.false_eq_true, ↓reduceIte]
              rw [lookup_cons]
              simp only [hv, Bool.false_eq_true, ↓reduceIte]
              exact ih hl
      rw [this]
    | some u =>
      have : ∃ u', lookup (replacePassword db target h) name = some u' ∧ u'.admin = u.admin := by
        induction db with
        | nil => simp [lookup] at hl
        | cons v rest ih =>
          rw [lookup_cons] at hl
          simp only [replacePassword]
          by_cases hc : caseEq target v.name = true
          · have h1 : caseEq name v.name = true := by
              rw [caseEq_iff] at hn hc ⊢
              rw [hn, hc]
            simp only [h1, ↓reduceIte] at hl
            cases hl
            simp only [hc, ↓reduceIte]
            rw [lookup_cons]
            simp only [h1, ↓reduceIte]
            exact ⟨_, rfl, rfl⟩
          · have h1 : ¬ caseEq name v.name = true := by
              intro h1
              apply hc
              rw [caseEq_iff] at hn h1 ⊢
              rw [← hn, h1]
            simp only [h1, Bool.false_eq_true, ↓reduceIte] at hl
            simp only [hc, Bool.false_eq_true, ↓reduceIte]
            rw [lookup_cons]
            simp only [h1, Bool.false_eq_true, ↓reduceIte]
            exact ih hl
      obtain ⟨u', h1, h2⟩ := this
      rw [h1]
      exact h2
  · have hn' : caseEq name target = false := by
      cases hx : caseEq name target
      · rfl
      · exact absurd hx hn
    unfold isAdmin
    rw [lookup_replacePassword_other db target h name hn']

/-! ### precheck -/

theorem precheck_ok {db : Db} {caller : Option Bytes} {target : Bytes} {u : User} {h : Bytes}
    (hp : precheck db caller target = .ok (u, h)) :
    Authorised db caller target ∧ lookup db target = some u ∧ u.password = .str h := by
  unfold precheck at hp
  cases caller with
  | none => simp at hp
  | some c =>
    simp only at hp
    cases hl : lookup db target with
    | none => simp [hl] at hp
    | some v =>
      simp only [hl] at hp
      by_cases hcond : (!v.readonly && (c == target || isAdmin db c)) = true
      · simp only [hcond, ↓reduceIte] at hp
        cases hpw : v.password with
        | absent => simp [hpw] at hp
        | notString => simp [hpw] at hp
        | str s =>
          simp only [hpw, Except.ok.injEq, Prod.mk.injEq] at hp
          obtain ⟨h1, h2⟩ := hp
          subst h1 h2
          refine ⟨⟨c, v, rfl, hl, ?_, ?_⟩, rfl, hpw⟩
          · simp at hcond
            exact hcond.1
          · simp at hcond
            exact hcond.2
      · simp [hcond] at hp

theorem precheck_unauthorised {db : Db} {caller : Option Bytes} {target : Bytes}
    (hna : ¬ Authorised db caller target) :
    ∃ e, precheck db caller target = .error e ∧
      (e = .notAuthenticated ∨ e = .userNotInDb ∨ e = .notAllowed) := by
  cases hp : precheck db caller target with
  | ok v =>
    obtain ⟨u, h⟩ := v
    exact absurd (precheck_ok hp).1 hna
  | error e =>
    refine ⟨e, rfl, ?_⟩
    unfold precheck at hp
    cases caller with
    | none => simp at hp; simp [← hp]
    | some c =>
      simp only at hp
      cases hl : lookup db target with
      | none => simp [hl] at hp; simp [← hp]
      | some v =>
        simp only [hl] at hp
        by_cases hcond : (!v.readonly && (c == target || isAdmin db c)) = true
        · exfalso
          apply hna
          simp at hcond
          exact ⟨c, v, rfl, hl, hcond.1, hcond.2⟩
        · simp [hcond] at hp
          simp [← hp]

/-! ### the file system -/

theorem pwrite_append (fs : Fs) (b : Bytes) (h : fs.off = fs.data.length) :
    (fs.pwrite b).data = fs.data ++ b ∧ (fs.pwrite b).off = (fs.pwrite b).data.length := by
  unfold Fs.pwrite
  by_cases hb : b.isEmpty = true
  · simp only [hb, ↓reduceIte]
    have : b = [] := by simpa using hb
    subst this
    simp [h]
  · simp only [hb, Bool.false_eq_true, ↓reduceIte]
    simp [h]

theorem lastFs_nil (fs : Fs) : lastFs fs [] = fs := rfl

theorem lastFs_cons (fs : Fs) (s : Step) (t : List Step) : lastFs fs (s :: t) = lastFs s.after t := by
  unfold lastFs
  cases t with
  | nil => rfl
  | cons a l => simp [List.getLast?_cons]

/-- a crash point at or beyond the end of the trace sees the final state -/
theorem fsAfter_beyond (t : List Step) (f0 : Fs) (n : Nat) (hn : t.length ≤ n) :
    fsAfter f0 t n = lastFs f0 t := by
  cases n with
  | zero =>
    have : t = [] := List.eq_nil_of_length_eq_zero (by omega)
    subst this; rfl
  | succ n =>
    simp only [fsAfter, lastFs]
    by_cases hlt : n < t.length
    · have : t[n]? = t.getLast? := by
        rw [List.getLast?_eq_getElem?]
        congr 1
        omega
      rw [this]
      cases t.getLast? <;> rfl
    · have : t[n]? = none := by
        rw [List.getElem?_eq_none_iff]; omega
      rw [this]

/-- A write loop that reports success has appended exactly the buffer. -/
theorem writeLoop_final (outs : List Outcome) : ∀ (fs : Fs) (buf : Bytes),
    fs.off = fs.data.length → (writeLoop fs buf outs).2 = true →
    (lastFs fs (writeLoop fs buf outs).1).data = fs.data ++ buf := by
  induction outs with
  | nil =>
    intro fs buf hoff _
    unfold writeLoop
    by_cases hb : buf.isEmpty = true
    · have : buf = [] := by simpa using hb
      subst this
      simp [lastFs_nil]
    · simp only [hb, Bool.false_eq_true, ↓reduceIte]
      rw [lastFs_cons, lastFs_nil]
      exact (pwrite_append fs buf hoff).1
  | cons o rest ih =>
    intro fs buf hoff hok
    unfold writeLoop at hok ⊢
    by_cases hb : buf.isEmpty = true
    · have : buf = [] := by simpa using hb
      subst this
      simp [lastFs_nil]
    · simp only [hb, Bool.false_eq_true, ↓reduceIte] at hok ⊢
      cases o with
      | err => simp at hok
      | ok =>
        simp only
        rw [lastFs_cons, lastFs_nil]
        exact (pwrite_append fs buf hoff).1
      | short k =>
        simp only at hok ⊢
        by_cases hk : k ≥ buf.length
        · simp only [hk, ↓reduceIte]
          rw [lastFs_cons, lastFs_nil]
          exact (pwrite_append fs buf hoff).1
        · simp only [hk, ↓reduceIte] at hok ⊢
          rw [lastFs_cons]
          have hp := pwrite_append fs (buf.take k) hoff
          rw [ih (fs.pwrite (buf.take k)) (buf.drop k) hp.2 hok, hp.1, List.append_assoc, List.take_append_drop]

/-- every state a write loop passes through while appending holds the old prefix plus a prefix of
    the buffer -/
theorem writeLoop_prefix (outs : List Outcome) : ∀ (fs : Fs) (buf : Bytes),
    fs.off = fs.data.length → ∀ s ∈ (writeLoop fs buf outs).1, ∃ k, s.after.data = fs.data ++ buf.take k := by
  induction outs with
  | nil =>
    intro fs buf hoff s hs
    unfold writeLoop at hs
    by_cases hb : buf.isEmpty = true
    · simp [hb] at hs
    · simp only [hb, Bool.false_eq_true, ↓reduceIte] at hs
      simp at hs
      subst hs
      exact ⟨buf.length, by simp [(pwrite_append fs buf hoff).1]⟩
  | cons o rest ih =>
    intro fs buf hoff s hs
    unfold writeLoop at hs
    by_cases hb : buf.isEmpty = true
    · simp [hb] at hs
    · simp only [hb, Bool.false_eq_true, ↓reduceIte] at hs
      cases o with
      | err =>
        simp at hs
        subst hs
        exact ⟨0, by simp⟩
      | ok =>
        simp at hs
        subst hs
        exact ⟨buf.length, by simp [(pwrite_append fs buf hoff).1]⟩
      | short k =>
        simp only at hs
        by_cases hk : k ≥ buf.length
        · simp only [hk, ↓reduceIte] at hs
          simp at hs
          subst hs
          exact ⟨buf.length, by simp [(pwrite_append fs buf hoff).1]⟩
        · simp only [hk, ↓reduceIte] at hs
          have hp := pwrite_append fs (buf.take k) hoff
          rcases List.mem_cons.mp hs with h1 | h2
          · subst h1
            exact ⟨k, hp.1⟩
          · obtain ⟨j, hj⟩ := ih (fs.pwrite (buf.take k)) (buf.drop k) hp.2 s h2
            refine ⟨k + j, ?_⟩
            rw [hj, hp.1, List.append_assoc]
            congr 1
            have hk' : k ≤ buf.length := by omega
            rw [List.take_add, List.take_drop]

theorem run_append (crypt : Crypt) (c : Codec) (st : State) (a b : List Op) :
    run crypt c st (a ++ b) = run crypt c (run crypt c st a) b := by
  simp [run, List.foldl_append]

theorem takeRnd_length (n : Nat) (rnd : Bytes) : (takeRnd n rnd).1.length = n := by
  simp [takeRnd]
  omega

/-- after at least one call of a non-empty trace the state is the `after` of one of its steps -/
theorem fsAfter_mem (f0 : Fs) (t : List Step) (i : Nat) (hne : t ≠ []) :
    ∃ s ∈ t, fsAfter f0 t (i + 1) = s.after := by
  simp only [fsAfter]
  cases hi : t[i]? with
  | some s => exact ⟨s, List.mem_of_getElem? hi, rfl⟩
  | none =>
    cases hl : t.getLast? with
    | none => exact absurd (List.getLast?_eq_none_iff.mp hl) hne
    | some s => exact ⟨s, List.mem_of_getLast? hl, rfl⟩

end Cjet.Authfile
