/-
  DaemonC14Deadline — which deadline a request gets (`get_timeout_in_nsec`), and what a refused
  timeout does.  `Float` stays opaque: `belowMin` is the comparison `valuedouble < MIN_TIMEOUT_IN_S`
  and `secondsToNs` the conversion, both functions of the number's bits that are never unfolded.
-/
import Cjet.Lemmas.DaemonC03Exact
import Cjet.Lemmas.DaemonC14Elem

namespace Cjet.Daemon.C14

open Cjet Cjet.Json Cjet.Daemon Cjet.Daemon.C03

/-- `timeout->valuedouble < MIN_TIMEOUT_IN_S` -/
def belowMin (cfg : Config) (n : JNum) : Prop := Float.ofBits n.bits < Float.ofBits cfg.minTimeoutBits

instance (cfg : Config) (n : JNum) : Decidable (belowMin cfg n) := by unfold belowMin; infer_instance

/-- The deadline (in ns) a `timeout` member asks for: absent → the default handed in;
    a number not below the minimum → its conversion; anything else → refused (`none`). -/
def deadlineOf (cfg : Config) (t : Option Json) (dflt : Nat) : Option Nat :=
  match t with
  | none => some dflt
  | some (.num n) => if belowMin cfg n then none else some (secondsToNs n.bits)
  | some _ => none

theorem getTimeout_ns_iff (cfg : Config) (t : Option Json) (dflt tns : Nat) :
    getTimeout cfg t dflt = .ns tns ↔ deadlineOf cfg t dflt = some tns := by
  unfold getTimeout deadlineOf belowMin
  cases t with
  | none => simp
  | some j =>
    cases j with
    | num n =>
      dsimp only
      split
      · next h => simp [h]
      · next h => simp [h]
    | null => simp
    | bool _ => simp
    | str _ => simp
    | arr _ => simp
    | obj _ => simp

theorem getTimeout_err_of_none (cfg : Config) (t : Option Json) (dflt : Nat) (h : deadlineOf cfg t dflt = none) :
    ∃ reason, (reason = "timeout value is too small" ∨ reason = "timeout is not a number") ∧
      getTimeout cfg t dflt = .err reason := by
  unfold getTimeout
  unfold deadlineOf belowMin at h
  cases t with
  | none => simp at h
  | some j =>
    cases j with
    | num n =>
      dsimp only at h ⊢
      split
      · exact ⟨_, Or.inl rfl, rfl⟩
      · next hn => simp [hn] at h
    | null => exact ⟨_, Or.inr rfl, rfl⟩
    | bool _ => exact ⟨_, Or.inr rfl, rfl⟩
    | str _ => exact ⟨_, Or.inr rfl, rfl⟩
    | arr _ => exact ⟨_, Or.inr rfl, rfl⟩
    | obj _ => exact ⟨_, Or.inr rfl, rfl⟩

/-- a refused timeout is a non-number or a number below the minimum -/
theorem deadlineOf_none_iff (cfg : Config) (t : Option Json) (dflt : Nat) :
    deadlineOf cfg t dflt = none ↔
      ∃ j, t = some j ∧ ((∀ n, j ≠ .num n) ∨ ∃ n, j = .num n ∧ belowMin cfg n) := by
  unfold deadlineOf
  cases t with
  | none => simp
  | some j =>
    cases j with
    | num n =>
      by_cases hb : belowMin cfg n <;> simp [hb]
    | null => simp
    | bool _ => simp
    | str _ => simp
    | arr _ => simp
    | obj _ => simp

/-! ## refusals -/

theorem setOrCall_timeout_refused {cfg : Config} {x : Ctx} {p : Peer} {req : Json} {isState : Bool}
    {params : Json} {path : Bytes} {e : Element}
    (hc : Checks cfg x.st p req isState params path e)
    (hv : isState = true → (params.getItem (k "value")).isSome = true)
    (hbad : deadlineOf cfg (params.getItem (k "timeout")) e.timeoutNs = none) :
    ∃ reason, (reason = "timeout value is too small" ∨ reason = "timeout is not a number") ∧
      setOrCall cfg x p req isState =
        ({ x with st := { x.st with uuid := (x.st.uuid + 1) % 4294967296 } },
         errorFromRequest req INVALID_PARAMS "reason" (k reason)) := by
  obtain ⟨reason, hr, hg⟩ := getTimeout_err_of_none cfg _ _ hbad
  refine ⟨reason, hr, ?_⟩
  have hv' : (isState && (reqValue isState params).isNone) = false := by
    cases isState with
    | false => rfl
    | true =>
      have := hv rfl
      simp only [reqValue, ↓reduceIte, Bool.true_and]
      cases h : params.getItem (k "value") <;> simp_all
  rw [setOrCall_of_checks hc, routeCore_badTimeout hv' hg]
  rfl

theorem addElement_timeout_refused {cfg : Config} {x : Ctx} {p : Peer} {req : Json} {params : Json} {path : Bytes}
    (hlocal : (cfg.localOnlyAdd && !p.isLocal) = false)
    (hpp : getParamsAndPath req = .ok params path)
    (hfo : params.getItem (k "fetchOnly") = none ∨ ∃ b, params.getItem (k "fetchOnly") = some (.bool b))
    (hbad : deadlineOf cfg (params.getItem (k "timeout")) cfg.defaultTimeoutNs = none) :
    ∃ reason, (reason = "timeout value is too small" ∨ reason = "timeout is not a number") ∧
      addElement cfg x p req = (x, errorFromRequest req INVALID_PARAMS "reason" (k reason)) := by
  obtain ⟨reason, hr, hg⟩ := getTimeout_err_of_none cfg _ _ hbad
  refine ⟨reason, hr, ?_⟩
  unfold addElement
  simp only [hlocal, Bool.false_eq_true, ↓reduceIte, hpp]
  rcases hfo with h | ⟨b, h⟩
  · simp only [h, hg]
  · simp only [h, hg]

/-- whatever the other members are: an `add` whose timeout is refused changes nothing and emits nothing -/
theorem addElement_timeout_refused' {cfg : Config} {x : Ctx} {p : Peer} {req : Json} {params : Json} {path : Bytes}
    (hpp : getParamsAndPath req = .ok params path)
    (hbad : deadlineOf cfg (params.getItem (k "timeout")) cfg.defaultTimeoutNs = none) :
    (addElement cfg x p req).1 = x := by
  obtain ⟨reason, _, hg⟩ := getTimeout_err_of_none cfg _ _ hbad
  unfold addElement
  split
  · rfl
  · simp only [hpp]
    split
    · simp only [hg]
    · simp only [hg]
    · rfl

end Cjet.Daemon.C14
