/-
  DaemonC03Elem — the element side of routing: an element found through the path index belongs to
  a connected peer, namely the one its `owner` field names (`EO`, an invariant of every reachable
  state).  Needed to say that an accepted set/call is really STORED in the owner's table.
-/
import Cjet.Lemmas.DaemonC03Sim

namespace Cjet.Daemon.C03

open Cjet Cjet.Json Cjet.Daemon

/-- every element of `q`'s list names `q` as its owner -/
def EOp (q : Peer) : Prop := ∀ e ∈ q.elements, e.owner = q.conn

/-- every element is in the list of the peer its `owner` field names -/
def EO (s : State) : Prop := ∀ p ∈ s.peers, EOp p

theorem eo_updatePeer {ps : List Peer} {c : Nat} {f : Peer → Peer} (h : ∀ p ∈ ps, EOp p)
    (hf : ∀ q ∈ ps, q.conn = c → EOp q → EOp (f q)) : ∀ p ∈ updatePeer ps c f, EOp p := by
  intro p hp
  obtain ⟨q, hq, rfl⟩ := mem_updatePeer.mp hp
  split
  · next hc => exact hf q hq (by simpa using hc) (h q hq)
  · exact h q hq

theorem eo_map {ps : List Peer} {g : Peer → Peer} (h : ∀ p ∈ ps, EOp p)
    (hg : ∀ q ∈ ps, EOp q → EOp (g q)) : ∀ p ∈ ps.map g, EOp p := by
  intro p hp
  obtain ⟨q, hq, rfl⟩ := List.mem_map.mp hp
  exact hg q hq (h q hq)

theorem eo_mapElements {ps : List Peer} {f : Element → Element} (h : ∀ p ∈ ps, EOp p)
    (hf : ∀ e, (f e).owner = e.owner) : ∀ p ∈ mapElements ps f, EOp p := by
  unfold mapElements
  apply eo_map h
  intro q _ hq e he
  obtain ⟨e0, he0, rfl⟩ := List.mem_map.mp he
  rw [hf]; exact hq e0 he0

theorem eo_of_peers_eq {s s' : State} (h : s'.peers = s.peers) (he : EO s) : EO s' := by
  unfold EO; rw [h]; exact he

/-! ## the element handed back by the offer functions -/

theorem offerElement_owner (cfg : Config) (x : Ctx) (e : Element) (fp : Peer) (f : Fetch) :
    (offerElement cfg x e fp f).2.owner = e.owner := by
  unfold offerElement
  split
  · rfl
  · split <;> rfl

theorem findFetchersForElement_owner (cfg : Config) (x : Ctx) (e : Element) :
    (findFetchersForElement cfg x e).2.owner = e.owner := by
  unfold findFetchersForElement
  apply foldl_inv (fun (acc : Ctx × Element) => acc.2.owner = e.owner)
  · rfl
  · intro acc fp _ hacc
    apply foldl_inv (fun (acc : Ctx × Element) => acc.2.owner = e.owner)
    · exact hacc
    · intro acc' f _ hacc'
      rw [offerElement_owner]; exact hacc'

/-! ## handlers -/

theorem eo_changeState (x : Ctx) (p : Peer) (req : Json) (h : EO x.st) : EO (changeState x p req).1.st := by
  unfold changeState
  repeat' (first | split | dsimp only)
  all_goals (first | exact h | skip)
  next hown _ =>
  simp only [notifyFetchers_st]
  apply eo_updatePeer h
  intro q _ hqc hq e' he'
  obtain ⟨el, hel, rfl⟩ := List.mem_map.mp he'
  split
  · have : ¬ (_ != p.conn) = true := hown
    simp only [bne_iff_ne, ne_eq, Decidable.not_not] at this
    rw [hqc]; exact this
  · exact hq el hel

theorem eo_addElement (cfg : Config) (x : Ctx) (p : Peer) (req : Json) (h : EO x.st) :
    EO (addElement cfg x p req).1.st := by
  unfold addElement
  repeat' (first | split | dsimp only)
  all_goals (first | exact h | skip)
  all_goals first
    | (simp only [notifyFetchers_st, findFetchersForElement_st]; exact h)
    | (simp only [findFetchersForElement_st]
       apply eo_updatePeer h
       intro q _ hqc hq e' he'
       simp only [List.mem_append, List.mem_singleton] at he'
       rcases he' with he' | rfl
       · exact hq e' he'
       · rw [findFetchersForElement_owner, hqc])

theorem eo_removeElement (x : Ctx) (e : Element) (h : EO x.st) : EO (removeElement x e).st := by
  unfold removeElement
  simp only [notifyFetchers_st]
  apply eo_updatePeer h
  intro q _ _ hq e' he'
  exact hq e' (List.mem_filter.mp he').1

theorem eo_removeElementReq (x : Ctx) (p : Peer) (req : Json) (h : EO x.st) :
    EO (removeElementReq x p req).1.st := by
  unfold removeElementReq
  repeat' (first | split | dsimp only)
  all_goals (first | exact h | exact eo_removeElement _ _ h)

theorem eo_offer_step (cfg : Config) (y : Ctx) (oc : Nat) (e : Element) (fp : Peer) (f : Fetch)
    (hy : EO y.st) (heo : e.owner = oc) :
    EO ({ (offerElement cfg y e fp f).1 with st := { (offerElement cfg y e fp f).1.st with
      peers := updatePeer (offerElement cfg y e fp f).1.st.peers oc (fun q =>
        { q with elements := q.elements.map (fun el =>
          if el.path == (offerElement cfg y e fp f).2.path then (offerElement cfg y e fp f).2 else el) }) } } : Ctx).st := by
  simp only [offerElement_st]
  apply eo_updatePeer hy
  intro q _ hqc hq e' he'
  obtain ⟨el, hel, rfl⟩ := List.mem_map.mp he'
  show Element.owner (if _ then _ else _) = q.conn
  split
  · rw [offerElement_owner, heo, hqc]
  · exact hq el hel

theorem eo_offerAllElements (cfg : Config) (x : Ctx) (fp : Peer) (f : Fetch) (h : EO x.st) :
    EO (offerAllElements cfg x fp f).st := by
  unfold offerAllElements
  apply foldl_inv (fun (y : Ctx) => EO y.st)
  · exact h
  · intro y owner hown hy
    apply foldl_inv (fun (y : Ctx) => EO y.st)
    · exact hy
    · intro y' e0 he0 hy'
      dsimp only
      apply eo_offer_step cfg y' owner.conn _ fp f hy'
      split
      · next e hfind =>
        obtain ⟨q', hq', hfe⟩ := Option.bind_eq_some_iff.mp hfind
        rw [hy' q' (findPeer_mem hq') e (List.mem_of_find?_eq_some hfe), findPeer_conn hq']
      · exact h owner hown e0 he0

theorem eo_fetchReq (cfg : Config) (x : Ctx) (p : Peer) (req : Json) (h : EO x.st) :
    EO (fetchReq cfg x p req).1.st := by
  unfold fetchReq
  repeat' (first | split | dsimp only)
  all_goals (first | exact h | skip)
  all_goals
    apply eo_offerAllElements
    exact eo_updatePeer h (fun q _ _ hq => hq)

theorem eo_unfetchReq (x : Ctx) (p : Peer) (req : Json) (h : EO x.st) : EO (unfetchReq x p req).1.st := by
  unfold unfetchReq
  repeat' (first | split | dsimp only)
  all_goals (first | exact h | skip)
  unfold dropFetch
  exact eo_updatePeer (eo_mapElements h (fun _ => rfl)) (fun q _ _ hq => hq)

theorem eo_getReq (cfg : Config) (x : Ctx) (p : Peer) (req : Json) (h : EO x.st) : EO (getReq cfg x p req).1.st := by
  unfold getReq
  repeat' (first | split | dsimp only)
  all_goals exact h

theorem eo_configReq (x : Ctx) (p : Peer) (req : Json) (h : EO x.st) : EO (configReq x p req).1.st := by
  unfold configReq
  repeat' (first | split | dsimp only)
  all_goals (first | exact h | exact eo_updatePeer h (fun q _ _ hq => hq))

theorem eo_authenticateReq (cfg : Config) (x : Ctx) (p : Peer) (req : Json) (h : EO x.st) :
    EO (authenticateReq cfg x p req).1.st := by
  unfold authenticateReq
  repeat' (first | split | dsimp only)
  all_goals (first | exact h | exact eo_updatePeer h (fun q _ _ hq => hq))

theorem eo_passwdReq (x : Ctx) (p : Peer) (req : Json) (h : EO x.st) : EO (passwdReq x p req).1.st := by
  unfold passwdReq
  repeat' (first | split | dsimp only)
  all_goals exact h

theorem eo_removeRoute {ps : List Peer} {o : Nat} {rid : Bytes} (h : ∀ p ∈ ps, EOp p) :
    ∀ p ∈ removeRoute ps o rid, EOp p :=
  eo_updatePeer h (fun q _ _ hq => hq)

theorem eo_routeCore (cfg : Config) (x : Ctx) (p : Peer) (req : Json) (isState : Bool)
    (params : Json) (path : Bytes) (e : Element) (h : EO x.st) :
    EO (routeCore cfg x p req isState params path e).1.st := by
  unfold routeCore
  repeat' (first | split | dsimp only)
  all_goals first
    | exact h
    | (simp only [send_st, stored, emit_st]
       exact eo_updatePeer h (fun q _ _ hq => hq))
    | (simp only [emit_st, send_st, stored]
       exact eo_removeRoute (eo_updatePeer h (fun _ _ _ hq => hq)))

theorem eo_setOrCall (cfg : Config) (x : Ctx) (p : Peer) (req : Json) (isState : Bool) (h : EO x.st) :
    EO (setOrCall cfg x p req isState).1.st := by
  rcases setOrCall_cases cfg x p req isState with h1 | ⟨params, path, e, hc⟩
  · rw [h1]; exact h
  · rw [setOrCall_of_checks hc]; exact eo_routeCore _ _ _ _ _ _ _ _ h

theorem eo_routingResponse (x : Ctx) (p : Peer) (msg payload : Json) (typ : String) (h : EO x.st) :
    EO (routingResponse x p msg payload typ).1.st := by
  unfold routingResponse
  repeat' (first | split | dsimp only)
  all_goals (first | exact h | (simp only [send'_st, emit_st]; exact eo_removeRoute h))

theorem eo_timeoutFired (x : Ctx) (t : Nat) (h : EO x.st) : EO (timeoutFired x t).st := by
  unfold timeoutFired
  repeat' (first | split | dsimp only)
  all_goals (first | exact h | (simp only [send'_st, emit_st]; exact eo_removeRoute h))

theorem eo_sendResponse (x : Ctx) (c : Nat) (r : Option Json) (h : EO x.st) : EO (sendResponse x c r).1.st := by
  unfold sendResponse
  split
  · exact h
  · rw [send_st]; exact h

theorem eo_handleMethod (cfg : Config) (x : Ctx) (p : Peer) (req : Json) (m : Bytes) (h : EO x.st) :
    EO (handleMethod cfg x p req m).1.st := by
  unfold handleMethod
  by_cases h1 : (m == k "change") = true
  · rw [if_pos h1]; exact eo_changeState _ _ _ h
  rw [if_neg h1]
  by_cases h2 : (m == k "set") = true
  · rw [if_pos h2]; exact eo_setOrCall _ _ _ _ _ h
  rw [if_neg h2]
  by_cases h3 : (m == k "call") = true
  · rw [if_pos h3]; exact eo_setOrCall _ _ _ _ _ h
  rw [if_neg h3]
  by_cases h4 : (m == k "add") = true
  · rw [if_pos h4]; exact eo_addElement _ _ _ _ h
  rw [if_neg h4]
  by_cases h5 : (m == k "remove") = true
  · rw [if_pos h5]; exact eo_removeElementReq _ _ _ h
  rw [if_neg h5]
  by_cases h6 : (m == k "fetch") = true
  · rw [if_pos h6]; exact eo_fetchReq _ _ _ _ h
  rw [if_neg h6]
  by_cases h7 : (m == k "unfetch") = true
  · rw [if_pos h7]; exact eo_unfetchReq _ _ _ h
  rw [if_neg h7]
  by_cases h8 : (m == k "get") = true
  · rw [if_pos h8]; exact eo_getReq _ _ _ _ h
  rw [if_neg h8]
  by_cases h9 : (m == k "config") = true
  · rw [if_pos h9]; exact eo_configReq _ _ _ h
  rw [if_neg h9]
  by_cases h10 : (m == k "info") = true
  · rw [if_pos h10]; exact h
  rw [if_neg h10]
  by_cases h11 : (m == k "authenticate") = true
  · rw [if_pos h11]; exact eo_authenticateReq _ _ _ _ h
  rw [if_neg h11]
  by_cases h12 : (m == k "passwd") = true
  · rw [if_pos h12]; exact eo_passwdReq _ _ _ h
  rw [if_neg h12]
  exact h

theorem eo_parseJsonRpc (cfg : Config) (x : Ctx) (c : Nat) (req : Json) (h : EO x.st) :
    EO (parseJsonRpc cfg x c req).1.st := by
  unfold parseJsonRpc
  split
  · exact h
  · split
    · exact eo_sendResponse _ _ _ (eo_handleMethod _ _ _ _ _ h)
    · exact eo_sendResponse _ _ _ h
    · split
      · exact eo_routingResponse _ _ _ _ _ h
      · split
        · exact eo_routingResponse _ _ _ _ _ h
        · exact eo_sendResponse _ _ _ h

theorem eo_parseJsonArray (cfg : Config) (c : Nat) (l : List Json) (x : Ctx) (h : EO x.st) :
    EO (parseJsonArray cfg x c l).1.st := by
  induction l generalizing x with
  | nil => exact h
  | cons j rest ih =>
    cases j with
    | obj m =>
      unfold parseJsonArray
      dsimp only
      split
      · exact ih _ (eo_parseJsonRpc cfg x c _ h)
      · exact eo_parseJsonRpc cfg x c _ h
    | null => exact h
    | bool _ => exact h
    | num _ => exact h
    | str _ => exact h
    | arr _ => exact h

theorem eo_parseMessage (cfg : Config) (x : Ctx) (c : Nat) (msg : Option Json) (h : EO x.st) :
    EO (parseMessage cfg x c msg).1.st := by
  unfold parseMessage
  split
  · exact eo_parseJsonArray cfg c _ x h
  · exact eo_parseJsonRpc cfg x c _ h
  · exact h

theorem eo_fprC (x : Ctx) (c : Nat) (p : Peer) (h : EO x.st) : EO (fprC x c p).st := by
  unfold fprC
  dsimp only
  apply foldl_inv (fun (y : Ctx) => EO y.st)
  · exact eo_updatePeer (eo_mapElements h (fun _ => rfl)) (fun q _ _ hq => hq)
  · intro y e0 _ hy
    split
    · exact eo_removeElement _ _ hy
    · exact hy

theorem eo_freePeerResources (x : Ctx) (c : Nat) (h : EO x.st) : EO (freePeerResources x c).st := by
  cases hp : findPeer x.st.peers c with
  | none => unfold freePeerResources; rw [hp]; exact h
  | some p =>
    rw [freePeerResources_eq x c p hp]
    have hA : EO (fprA x c p).st := by
      simp only [fprA, clearAll_st]
      exact eo_updatePeer h (fun q _ _ hq => hq)
    have hB : EO (fprB (fprA x c p) c).st := by
      simp only [fprB, clearAll_st]
      exact eo_map hA (fun q _ hq => hq)
    have hC := eo_fprC _ c p hB
    intro q hq
    exact hC q (List.mem_filter.mp hq).1

theorem eo_closePeer (x : Ctx) (c : Nat) (h : EO x.st) : EO (closePeer x c).st :=
  eo_freePeerResources x c h

theorem eo_init (us : List User) : EO { users := us } := by
  intro p hp; cases hp

theorem eo_step (cfg : Config) (s : State) (op : Op) (h : EO s) : EO (step cfg s op).1 := by
  cases op with
  | connect c ws isLocal addr =>
    unfold step
    dsimp only
    split
    · exact h
    · intro p hp
      rcases List.mem_append.mp hp with hp | hp
      · exact h p hp
      · simp only [List.mem_singleton] at hp
        subst hp
        intro e he
        cases he
  | message c msg o =>
    unfold step
    dsimp only
    split
    · exact h
    · split
      · exact eo_parseMessage cfg _ c msg h
      · exact eo_closePeer _ c (eo_parseMessage cfg _ c msg h)
  | disconnect c o =>
    unfold step
    dsimp only
    split
    · exact h
    · exact eo_closePeer _ c h
  | timerFire t o =>
    exact eo_timeoutFired _ t h

theorem eo_run (cfg : Config) (ops : List Op) (s : State) (h : EO s) : EO (run cfg s ops).1 := by
  induction ops generalizing s with
  | nil => exact h
  | cons op rest ih => exact ih _ (eo_step cfg s op h)

/-- under `EO`, the element reached through the index belongs to a connected peer: its owner -/
theorem findElement_owner_live {s : State} (h : EO s) {path : Bytes} {e : Element}
    (he : findElement s path = some e) : ∃ q, findPeer s.peers e.owner = some q := by
  unfold findElement at he
  split at he
  · cases he
  · next o _ =>
    split at he
    · cases he
    · next q hq =>
      have := h q (findPeer_mem hq) e (List.mem_of_find?_eq_some he)
      rw [this, findPeer_conn hq]
      exact ⟨q, hq⟩

end Cjet.Daemon.C03
