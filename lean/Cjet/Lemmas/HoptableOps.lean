import Cjet.Lemmas.HoptableWF

/-! Helper lemmas for C17: the transcribed operations (`lookup`, `get`, `probe`, `firstBit`,
`findCloser`, `displace`, `put`, `remove`) expressed through the four elementary transformations. -/

set_option linter.unusedSectionVars false
set_option linter.unusedVariables false

namespace Cjet.Hoptable

section
variable {K V : Type} [DecidableEq K] [Inhabited V]

/-! ### field projections of a written slot -/

theorem size_setHop (t : Table K V) (i : Nat) (h : BitVec W) : (setHop t i h).size = t.size := size_upd _ _ _
theorem size_setKey (t : Table K V) (i : Nat) (k : Option K) : (setKey t i k).size = t.size := size_upd _ _ _
theorem size_setVal (t : Table K V) (i : Nat) (v : V) : (setVal t i v).size = t.size := size_upd _ _ _

theorem hop_setHop (t : Table K V) (i j : Nat) (h : BitVec W) :
    (slot (setHop t i h) j).hop = if i = j ∧ i < t.size then h else (slot t j).hop := by
  unfold setHop; rw [slot_upd]; split <;> rfl
theorem key_setHop (t : Table K V) (i j : Nat) (h : BitVec W) :
    (slot (setHop t i h) j).key = (slot t j).key := by
  unfold setHop; rw [slot_upd]; split
  · rename_i e; rw [e.1]
  · rfl
theorem val_setHop (t : Table K V) (i j : Nat) (h : BitVec W) :
    (slot (setHop t i h) j).val = (slot t j).val := by
  unfold setHop; rw [slot_upd]; split
  · rename_i e; rw [e.1]
  · rfl

theorem hop_setKey (t : Table K V) (i j : Nat) (k : Option K) :
    (slot (setKey t i k) j).hop = (slot t j).hop := by
  unfold setKey; rw [slot_upd]; split
  · rename_i e; rw [e.1]
  · rfl
theorem key_setKey (t : Table K V) (i j : Nat) (k : Option K) :
    (slot (setKey t i k) j).key = if i = j ∧ i < t.size then k else (slot t j).key := by
  unfold setKey; rw [slot_upd]; split <;> rfl
theorem val_setKey (t : Table K V) (i j : Nat) (k : Option K) :
    (slot (setKey t i k) j).val = (slot t j).val := by
  unfold setKey; rw [slot_upd]; split
  · rename_i e; rw [e.1]
  · rfl

theorem hop_setVal (t : Table K V) (i j : Nat) (v : V) :
    (slot (setVal t i v) j).hop = (slot t j).hop := by
  unfold setVal; rw [slot_upd]; split
  · rename_i e; rw [e.1]
  · rfl
theorem key_setVal (t : Table K V) (i j : Nat) (v : V) :
    (slot (setVal t i v) j).key = (slot t j).key := by
  unfold setVal; rw [slot_upd]; split
  · rename_i e; rw [e.1]
  · rfl
theorem val_setVal (t : Table K V) (i j : Nat) (v : V) :
    (slot (setVal t i v) j).val = if i = j ∧ i < t.size then v else (slot t j).val := by
  unfold setVal; rw [slot_upd]; split <;> rfl

theorem subWrap_add_cancel {N fp x : Nat} (hfp : fp < N) (hx : x < N) :
    (subWrap N fp x + x) % N = fp := by
  unfold subWrap
  rw [Nat.mod_add_mod, Nat.mod_eq_of_lt hx]
  have : fp + (N - x) + x = fp + N := by omega
  rw [this, Nat.add_mod_right, Nat.mod_eq_of_lt hfp]

variable {N : Nat} {hash : K → Nat} {t t' : Table K V}

/-! ### lookup and get -/

theorem lookup_some (hN : 0 < N) {k : K} {p : Nat} (hk : hash k < N)
    (h : lookup N hash t k = some p) :
    ∃ d, d < W ∧ Bit t (hash k) d ∧ (hash k + d) % N = p ∧ (slot t p).key = some k := by
  obtain ⟨d, hd, hb, hp, hkey⟩ := scan_some hN t k W _ _ p hk h
  exact ⟨d, hd, hb, hp, hkey⟩

theorem lookup_some_live (hN : 0 < N) {k : K} {p : Nat} (hk : hash k < N)
    (h : lookup N hash t k = some p) : Live N t p ∧ (slot t p).key = some k ∧ p < N := by
  obtain ⟨d, hd, hb, hp, hkey⟩ := lookup_some hN hk h
  exact ⟨⟨hash k, hk, d, hd, hb, hp⟩, hkey, hp ▸ Nat.mod_lt _ hN⟩

theorem lookup_none (hN : 0 < N) (wf : WF N hash t) {k : K} (hk : hash k < N)
    (h : lookup N hash t k = none) : ∀ v, ¬ Maps N t k v := by
  intro v m
  obtain ⟨_, d, hd, hb, hkey, _⟩ := wf.maps_home m
  exact scan_none hN t k W _ _ hk h (fun d hd => BitVec.getLsbD_of_ge _ d hd) d hb hkey

theorem get_iff_maps' (hN : 0 < N) (wf : WF N hash t) {k : K} (hk : hash k < N) (v : V) :
    get N hash t k = some v ↔ Maps N t k v := by
  unfold get
  constructor
  · intro h
    cases hl : lookup N hash t k with
    | none => rw [hl] at h; cases h
    | some p =>
      rw [hl] at h
      simp only [Option.map_some, Option.some.injEq] at h
      obtain ⟨hlive, hkey, _⟩ := lookup_some_live hN hk hl
      exact h ▸ maps_of_live hlive hkey
  · intro m
    cases hl : lookup N hash t k with
    | none => exact absurd m (lookup_none hN wf hk hl v)
    | some p =>
      obtain ⟨hlive, hkey, _⟩ := lookup_some_live hN hk hl
      simp only [Option.map_some, Option.some.injEq]
      exact wf.maps_fun (maps_of_live hlive hkey) m

/-! ### probe -/

theorem probe_spec (hN : 0 < N) (t : Table K V) :
    ∀ (r fd pos : Nat), pos < N →
      let res := probe N t r fd pos
      fd ≤ res.1 ∧ res.1 ≤ fd + r ∧ res.2 = (pos + (res.1 - fd)) % N ∧
      (∀ d, d < res.1 - fd → (slot t ((pos + d) % N)).key ≠ none) ∧
      (res.1 < fd + r → (slot t res.2).key = none) := by
  intro r
  induction r with
  | zero =>
    intro fd pos hpos
    simp only [probe]
    refine ⟨Nat.le_refl _, Nat.le_refl _, ?_, ?_, ?_⟩
    · simp [Nat.mod_eq_of_lt hpos]
    · intro d hd; omega
    · intro h; omega
  | succ r ih =>
    intro fd pos hpos
    simp only [probe]
    split
    · rename_i hnone
      refine ⟨Nat.le_refl _, by omega, ?_, ?_, ?_⟩
      · simp [Nat.mod_eq_of_lt hpos]
      · intro d hd; omega
      · intro _; simpa using hnone
    · rename_i hsome
      obtain ⟨h1, h2, h3, h4, h5⟩ := ih (fd + 1) ((pos + 1) % N) (Nat.mod_lt _ hN)
      refine ⟨by omega, by omega, ?_, ?_, ?_⟩
      · rw [h3, Nat.mod_add_mod]; congr 1; omega
      · intro d hd
        cases d with
        | zero =>
          simp only [Nat.add_zero, Nat.mod_eq_of_lt hpos]
          intro e; rw [e] at hsome; simp at hsome
        | succ d' =>
          have := h4 d' (by omega)
          rw [Nat.mod_add_mod] at this
          have e : pos + 1 + d' = pos + (d' + 1) := by omega
          rw [e] at this; exact this
      · intro hlt; exact h5 (by omega)

/-! ### firstBit -/

theorem firstBit_some (hop : BitVec W) :
    ∀ (r i j : Nat), firstBit hop r i = some j → i ≤ j ∧ j < i + r ∧ hop.getLsbD j = true := by
  intro r
  induction r with
  | zero => intro i j h; simp [firstBit] at h
  | succ r ih =>
    intro i j h
    simp only [firstBit] at h
    split at h
    · injection h with h; subst h; rename_i hb; exact ⟨Nat.le_refl _, by omega, hb⟩
    · obtain ⟨h1, h2, h3⟩ := ih (i + 1) j h
      exact ⟨by omega, by omega, h3⟩

theorem firstBit_none (hop : BitVec W) :
    ∀ (r i : Nat), firstBit hop r i = none → ∀ j, i ≤ j → j < i + r → hop.getLsbD j = false := by
  intro r
  induction r with
  | zero => intro i _ j h1 h2; omega
  | succ r ih =>
    intro i h j h1 h2
    simp only [firstBit] at h
    split at h
    · cases h
    · rename_i hb
      by_cases e : j = i
      · subst e; simpa using hb
      · exact ih (i + 1) h j (by omega) (by omega)

/-! ### find_closer_entry -/

/-- what one successful `find_closer_entry` call does -/
structure MoveRel (N : Nat) (hash : K → Nat) (clr : Bool) (t t' : Table K V) (fp fp' cdmax : Nat) : Prop where
  wf' : WF N hash t'
  maps : ∀ k v, Maps N t' k v ↔ Maps N t k v
  lt : fp' < N
  notlive : ¬ Live N t' fp'
  live : ∀ q, Live N t' q ↔ ((Live N t q ∧ q ≠ fp') ∨ q = fp)
  wasLive : Live N t fp'
  keyfp : (slot t' fp).key = (slot t fp').key
  keyother : ∀ j, j ≠ fp → j ≠ fp' → (slot t' j).key = (slot t j).key
  keyvac : clr = true → (slot t' fp').key = none
  nostale : clr = true → NoStale N t → NoStale N t'
  dist : ∃ cd' i, 0 < cd' ∧ cd' ≤ cdmax ∧ i < cd' ∧ fp' = (subWrap N fp cd' + i) % N

theorem findCloser_some (hN : 0 < N) (clr : Bool) (wf : WF N hash t) {fp : Nat} (hfp : fp < N)
    (hnl : ¬ Live N t fp) :
    ∀ (cd : Nat) (fp' : Nat) (t' : Table K V), cd < W → cd < N →
      findCloser N clr t fp cd = some (fp', t') → MoveRel N hash clr t t' fp fp' cd := by
  intro cd
  induction cd with
  | zero => intro fp' t' _ _ h; simp [findCloser] at h
  | succ cd ih =>
    intro fp' t' hcdW hcdN h
    simp only [findCloser] at h
    split at h
    · rename_i i hfb
      injection h with h
      injection h with h1 h2
      obtain ⟨_, hi, hbit⟩ := firstBit_some _ _ _ _ hfb
      have hiW : i < W := getLsbD_lt_W _ _ hbit
      have hc : subWrap N fp (cd + 1) < N := subWrap_lt hN
      have hfpeq : (subWrap N fp (cd + 1) + (cd + 1)) % N = fp := subWrap_add_cancel hfp hcdN
      have hhpN : (subWrap N fp (cd + 1) + i) % N < N := Nat.mod_lt _ hN
      have hlhp : Live N t ((subWrap N fp (cd + 1) + i) % N) := ⟨_, hc, i, hiW, hbit, rfl⟩
      have hne : (subWrap N fp (cd + 1) + i) % N ≠ fp := by
        intro e; rw [e] at hlhp; exact hnl hlhp
      subst h1
      have hsz := wf.size
      -- pointwise description of the new table
      have hszt' : t'.size = N := by
        rw [← h2]; split <;> simp [size_setHop, size_setKey, size_setVal, hsz]
      have hH : ∀ j, (slot t' j).hop = if subWrap N fp (cd + 1) = j then
          ((slot t (subWrap N fp (cd + 1))).hop &&& ~~~(1#W <<< i)) ||| (1#W <<< (cd + 1))
          else (slot t j).hop := by
        intro j
        rw [← h2]
        split <;> simp only [hop_setHop, hop_setKey, hop_setVal, size_setHop, size_setKey, size_setVal,
          hsz, hc, and_true]
      have hKK : ∀ j, (slot t' j).key =
          if clr = true ∧ (subWrap N fp (cd + 1) + i) % N = j then none
          else if fp = j then (slot t ((subWrap N fp (cd + 1) + i) % N)).key else (slot t j).key := by
        intro j
        rw [← h2]
        cases clr <;> simp [key_setHop, key_setKey, key_setVal, size_setHop, size_setKey, size_setVal,
          hsz, hfp, hhpN]
      have hVV : ∀ j, (slot t' j).val =
          if fp = j then (slot t ((subWrap N fp (cd + 1) + i) % N)).val else (slot t j).val := by
        intro j
        rw [← h2]
        cases clr <;> simp [val_setHop, val_setKey, val_setVal, size_setHop, size_setKey, size_setVal,
          hsz, hfp, hhpN]
      have hB : ∀ h' d', Bit t' h' d' ↔ ((Bit t h' d' ∧ ¬ (h' = subWrap N fp (cd + 1) ∧ d' = i)) ∨
          (h' = subWrap N fp (cd + 1) ∧ d' = cd + 1)) := by
        intro h' d'
        unfold Bit
        rw [hH]
        by_cases e : subWrap N fp (cd + 1) = h'
        · subst e
          simp only [if_true, getLsbD_setBit, getLsbD_clearBit, true_and]
          by_cases e2 : d' = cd + 1
          · subst e2; simp [hcdW]
          · by_cases e3 : d' = i
            · subst e3; simp [e2]
            · simp [e2, e3]
        · have e' : ¬ h' = subWrap N fp (cd + 1) := fun x => e x.symm
          simp [e, e']
      have hms := move_spec (t' := t') wf hszt' hc hiW hbit hcdW hcdN hfpeq rfl hnl hB
        (by rw [hKK]; simp [hne])
        (by rw [hVV]; simp)
        (by intro j h1 h2; rw [hKK]; simp [Ne.symm h1, Ne.symm h2])
        (by intro j h1 h2; rw [hVV]; simp [Ne.symm h1])
      obtain ⟨hwf', hmaps, hnl', hns, hlive⟩ := hms
      exact {
        wf' := hwf', maps := hmaps, lt := hhpN, notlive := hnl', live := hlive, wasLive := hlhp
        keyfp := by rw [hKK]; simp [hne]
        keyother := by intro j h1 h2; rw [hKK]; simp [Ne.symm h1, Ne.symm h2]
        keyvac := by intro hc'; rw [hKK]; simp [hc']
        nostale := by
          intro hc' ns
          exact hns (by rw [hKK]; simp [hc']) ns
        dist := ⟨cd + 1, i, by omega, Nat.le_refl _, by omega, rfl⟩ }
    · have := ih fp' t' (by omega) (by omega) h
      obtain ⟨cd', i, h1, h2, h3, h4⟩ := this.dist
      exact { this with dist := ⟨cd', i, h1, by omega, h3, h4⟩ }

theorem findCloser_none (clr : Bool) (t : Table K V) (fp : Nat) :
    ∀ (cd : Nat), findCloser N clr t fp cd = none →
      ∀ cd', 0 < cd' → cd' ≤ cd → ∀ i, i < cd' → ¬ Bit t (subWrap N fp cd') i := by
  intro cd
  induction cd with
  | zero => intro _ cd' h1 h2; omega
  | succ cd ih =>
    intro h cd' h1 h2 i hi
    simp only [findCloser] at h
    split at h
    · cases h
    · rename_i hfb
      by_cases e : cd' = cd + 1
      · subst e
        have := firstBit_none _ _ _ hfb i (by omega) (by omega)
        unfold Bit; rw [this]; simp
      · exact ih h cd' h1 (by omega) i hi

/-! ### the displacement loop and `put` -/

theorem closerStartSub_pos : 0 < Cjet.Generated.Hoptable.closerStartSub := by decide

/-- loop invariant of `displace` relative to the table `t0` before the `put` -/
structure DispInv (N : Nat) (hash : K → Nat) (t0 t : Table K V) (h fp fd : Nat) : Prop where
  wf : WF N hash t
  maps : ∀ k v, Maps N t k v ↔ Maps N t0 k v
  fpN : fp < N
  notlive : ¬ Live N t fp
  pos : (h + fd) % N = fp
  fdN : fd < N

/-- the store at the end of a successful `put` -/
theorem store_spec (wf : WF N hash t) {h fd fp : Nat} {k : K} {v : V}
    (hh : h < N) (hfd : fd < W) (hfdN : fd < N) (hfp : (h + fd) % N = fp) (hfpN : fp < N)
    (hnl : ¬ Live N t fp) (hhash : hash k = h) (habs : ∀ v, ¬ Maps N t k v) :
    let t2 := setKey (setVal t fp v) fp (some k)
    let t3 := setHop t2 h ((slot t2 h).hop ||| (1#W <<< fd))
    WF N hash t3 ∧ (NoStale N t → NoStale N t3) ∧
      ∀ k' v', Maps N t3 k' v' ↔ (k' = k ∧ v' = v) ∨ (k' ≠ k ∧ Maps N t k' v') := by
  intro t2 t3
  have hsz := wf.size
  apply insert_spec wf (by simp [t3, t2, size_setHop, size_setKey, size_setVal, hsz]) hh hfd hfdN hfp hnl hhash habs
  · intro h' d'
    unfold Bit
    simp only [t3, t2, hop_setHop, hop_setKey, hop_setVal, size_setKey, size_setVal, hsz, hh, and_true]
    by_cases e : h = h'
    · subst e
      simp only [if_true, getLsbD_setBit, true_and]
      by_cases e2 : d' = fd
      · subst e2; simp [hfd]
      · simp [e2]
    · have e' : ¬ h' = h := fun x => e x.symm
      simp [e, e']
  · intro j
    simp only [t3, t2, key_setHop, key_setKey, key_setVal, size_setVal, hsz, hfpN, and_true]
    by_cases e : fp = j
    · subst e; simp
    · have e' : ¬ j = fp := fun x => e x.symm
      simp [e, e']
  · intro j
    simp only [t3, t2, val_setHop, val_setKey, val_setVal, hsz, hfpN, and_true]
    by_cases e : fp = j
    · subst e; simp
    · have e' : ¬ j = fp := fun x => e x.symm
      simp [e, e']

theorem displace_spec (hN : 0 < N) (clr : Bool) {t0 : Table K V} {h : Nat} {k : K} {v : V}
    (hh : h < N) (hhash : hash k = h) (habs : ∀ v, ¬ Maps N t0 k v) :
    ∀ (f : Nat) (t : Table K V) (fp fd : Nat), DispInv N hash t0 t h fp fd →
      let r := displace N clr h k v f t fp fd
      WF N hash r.2 ∧ (clr = true → NoStale N t → NoStale N r.2) ∧
      (r.1 = .ok → ∀ k' v', Maps N r.2 k' v' ↔ (k' = k ∧ v' = v) ∨ (k' ≠ k ∧ Maps N t0 k' v')) ∧
      (r.1 = .full → ∀ k' v', Maps N r.2 k' v' ↔ Maps N t0 k' v') := by
  intro f
  induction f with
  | zero =>
    intro t fp fd inv
    simp only [displace]
    exact ⟨inv.wf, fun _ ns => ns, (fun e => by cases e), fun _ => inv.maps⟩
  | succ f ih =>
    intro t fp fd inv
    simp only [displace]
    split
    · rename_i hfd
      have habs' : ∀ v, ¬ Maps N t k v := fun v m => habs v ((inv.maps k v).1 m)
      obtain ⟨h1, h2, h3⟩ := store_spec (v := v) inv.wf hh hfd inv.fdN inv.pos inv.fpN inv.notlive hhash habs'
      refine ⟨h1, fun _ => h2, fun _ k' v' => ?_, (fun e => by cases e)⟩
      rw [h3 k' v']
      constructor
      · rintro (hl | ⟨hne, m⟩)
        · exact Or.inl hl
        · exact Or.inr ⟨hne, (inv.maps k' v').1 m⟩
      · rintro (hl | ⟨hne, m⟩)
        · exact Or.inl hl
        · exact Or.inr ⟨hne, (inv.maps k' v').2 m⟩
    · rename_i hfd
      split
      · rename_i hfc
        exact ⟨inv.wf, fun _ ns => ns, (fun e => by cases e), fun _ => inv.maps⟩
      · rename_i fp' t' hfc
        have hcd0 : W - Cjet.Generated.Hoptable.closerStartSub ≠ 0 := by
          intro e; rw [e] at hfc; simp [findCloser] at hfc
        have hpos := closerStartSub_pos
        have hcdW : W - Cjet.Generated.Hoptable.closerStartSub < W := by omega
        have hcdN : W - Cjet.Generated.Hoptable.closerStartSub < N := by
          have := inv.fdN; omega
        have mr := findCloser_some hN clr inv.wf inv.fpN inv.notlive _ fp' t' hcdW hcdN hfc
        have inv' : DispInv N hash t0 t' h fp' (subWrap N fp' h) :=
          { wf := mr.wf'
            maps := fun k v => (mr.maps k v).trans (inv.maps k v)
            fpN := mr.lt
            notlive := mr.notlive
            pos := add_subWrap hh mr.lt
            fdN := subWrap_lt hN }
        obtain ⟨h1, h2, h3, h4⟩ := ih t' fp' (subWrap N fp' h) inv'
        exact ⟨h1, fun hc ns => h2 hc (mr.nostale hc ns), h3, h4⟩

theorem put_spec (hN : 0 < N) {A : Nat} (hAN : A ≤ N) (clr : Bool) (wf : WF N hash t) {k : K}
    (hk : hash k < N) (v : V) :
    let r := put N A hash clr t k v
    WF N hash r.tab ∧ (clr = true → NoStale N t → NoStale N r.tab) ∧
    (r.rc = .ok → ∀ k' v', Maps N r.tab k' v' ↔ (k' = k ∧ v' = v) ∨ (k' ≠ k ∧ Maps N t k' v')) ∧
    (r.rc = .full → (∀ k' v', Maps N r.tab k' v' ↔ Maps N t k' v') ∧ ∀ v, ¬ Maps N t k v) ∧
    r.prev = (get N hash t k).getD default := by
  intro r
  have hsz := wf.size
  cases hl : lookup N hash t k with
  | some pos =>
    have hr : r = ⟨.ok, (slot t pos).val, setVal t pos v⟩ := by
      simp only [r, put, hl]
    obtain ⟨hlive, hkey, hposN⟩ := lookup_some_live hN hk hl
    have := setval_spec (t' := setVal t pos v) (p := pos) (k := k) (v := v) wf
      (by rw [size_setVal, hsz]) (fun j => hop_setVal _ _ _ _) (fun j => key_setVal _ _ _ _)
      (by
        intro j
        rw [val_setVal]
        by_cases e : pos = j
        · subst e; simp [hsz, hposN]
        · have e' : ¬ j = pos := fun x => e x.symm
          simp [e, e'])
      hlive hkey
    obtain ⟨h1, h2, h3⟩ := this
    rw [hr]
    refine ⟨h1, fun _ => h2, fun _ => h3, (fun e => by cases e), ?_⟩
    simp [get, hl]
  | none =>
    have habs := lookup_none hN wf hk hl
    have hprobe := probe_spec hN t A 0 (hash k) hk
    simp only [Nat.zero_add, Nat.sub_zero] at hprobe
    obtain ⟨_, hp2, hp3, hp4, hp5⟩ := hprobe
    have hprev : (get N hash t k).getD default = (default : V) := by simp [get, hl]
    by_cases hlt : (probe N t A 0 (hash k)).1 < A
    · have hr : r = ⟨(displace N clr (hash k) k v N t (probe N t A 0 (hash k)).2 (probe N t A 0 (hash k)).1).1,
          default,
          (displace N clr (hash k) k v N t (probe N t A 0 (hash k)).2 (probe N t A 0 (hash k)).1).2⟩ := by
        simp only [r, put, hl, hlt, if_true]
      have hnone := hp5 hlt
      have inv : DispInv N hash t t (hash k) (probe N t A 0 (hash k)).2 (probe N t A 0 (hash k)).1 :=
        { wf := wf
          maps := fun _ _ => Iff.rfl
          fpN := by rw [hp3]; exact Nat.mod_lt _ hN
          notlive := wf.not_live_of_none hnone
          pos := hp3.symm
          fdN := by omega }
      obtain ⟨h1, h2, h3, h4⟩ := displace_spec hN clr hk rfl habs N t _ _ inv
      rw [hr]
      exact ⟨h1, h2, h3, fun e => ⟨h4 e, habs⟩, hprev.symm⟩
    · have hr : r = ⟨.full, default, t⟩ := by
        simp only [r, put, hl, hlt, if_false]
      rw [hr]
      exact ⟨wf, fun _ ns => ns, (fun e => by cases e), fun _ => ⟨fun _ _ => Iff.rfl, habs⟩, hprev.symm⟩

/-! ### remove -/

theorem remove_spec_full (hN : 0 < N) (wf : WF N hash t) {k : K} (hk : hash k < N) :
    let r := remove N hash t k
    WF N hash r.2 ∧ (NoStale N t → NoStale N r.2) ∧ (∀ v, r.1 = some v ↔ Maps N t k v) ∧
    (∀ v, ¬ Maps N r.2 k v) ∧ (∀ k', k' ≠ k → ∀ v', Maps N r.2 k' v' ↔ Maps N t k' v') := by
  intro r
  have hsz := wf.size
  cases hl : lookup N hash t k with
  | none =>
    have habs := lookup_none hN wf hk hl
    have hr : r = (none, t) := by
      unfold lookup at hl
      simp only [r, remove, hl]
    rw [hr]
    exact ⟨wf, fun ns => ns, fun v => ⟨(fun e => by cases e), fun m => absurd m (habs v)⟩, habs,
      fun _ _ _ => Iff.rfl⟩
  | some pos =>
    obtain ⟨d, hd, hb, hp, hkey⟩ := lookup_some hN hk hl
    obtain ⟨hdN, _⟩ := wf.bits _ hk d hd hb
    have hposN : pos < N := hp ▸ Nat.mod_lt _ hN
    have hdist : subWrap N pos (hash k) = d := by rw [← hp]; exact subWrap_add hk hdN
    have hr : r = (some (slot t pos).val,
        setHop (setVal (setKey t pos none) pos default) (hash k)
          ((slot t (hash k)).hop &&& ~~~(1#W <<< d))) := by
      unfold lookup at hl
      simp only [r, remove, hl, hdist]
    rw [hr]
    have hlive : Live N t pos := ⟨hash k, hk, d, hd, hb, hp⟩
    have := remove_spec' (t' := setHop (setVal (setKey t pos none) pos default) (hash k)
          ((slot t (hash k)).hop &&& ~~~(1#W <<< d))) wf
      (by simp [size_setHop, size_setVal, size_setKey, hsz]) hk hd hb hp hkey
      (by
        intro h' d'
        unfold Bit
        simp only [hop_setHop, hop_setKey, hop_setVal, size_setKey, size_setVal, hsz, hk, and_true]
        by_cases e : hash k = h'
        · subst e
          simp only [if_true, getLsbD_clearBit, true_and]
          by_cases e2 : d' = d <;> simp [e2]
        · have e' : ¬ h' = hash k := fun x => e x.symm
          simp [e, e'])
      (by
        intro j
        simp only [key_setHop, key_setKey, key_setVal, hsz, hposN, and_true]
        by_cases e : pos = j
        · subst e; simp
        · have e' : ¬ j = pos := fun x => e x.symm
          simp [e, e'])
      (by
        intro j hj
        simp only [val_setHop, val_setKey, val_setVal, size_setKey, hsz, hposN, and_true]
        simp [Ne.symm hj])
    obtain ⟨h1, h2, h3, h4⟩ := this
    refine ⟨h1, h2, fun v => ?_, h3, h4⟩
    have m0 := maps_of_live hlive hkey
    constructor
    · intro e; injection e with e; exact e ▸ m0
    · intro m; rw [wf.maps_fun m0 m]

end
end Cjet.Hoptable
