import Cjet.Lemmas.WsMachine
/-! Helper lemmas: `send_frame` produces the RFC wire layout; `ws_get_payload` undoes the masking. -/
namespace Cjet.Ws
open Cjet.Generated.Ws

theorem ofNat_or_fin (typ : Nat) (h : typ < 16) : UInt8.ofNat (typ ||| wsHeaderFin) = UInt8.ofNat (bit true + 0 * 16 + typ) := by
  have : ∀ t : Fin 16, UInt8.ofNat (t.val ||| wsHeaderFin) = UInt8.ofNat (bit true + 0 * 16 + t.val) := by decide
  exact this ⟨typ, h⟩

theorem ofNat_or_mask (v : Nat) (h : v < 128) : (UInt8.ofNat v ||| UInt8.ofNat wsMaskSet) = UInt8.ofNat (bit true + v) := by
  have : ∀ t : Fin 128, (UInt8.ofNat t.val ||| UInt8.ofNat wsMaskSet) = UInt8.ofNat (bit true + t.val) := by decide
  exact this ⟨v, h⟩

/-- server frames are exactly the wire layout with FIN, no RSV bit, no mask and the minimal length form -/
theorem sendFrame_server_eq_wire (word align : Nat) (key : Bytes) (typ : Nat) (ht : typ < 16) (payload : Bytes) :
    sendFrame true word align key typ payload = wire true 0 typ none (LenForm.minimal payload.length) payload := by
  simp only [sendFrame, frameHeader, wire, wireHeader, wirePayload, Option.isSome_none, Option.getD_none,
    List.append_nil, if_true, ofNat_or_fin typ ht, LenForm.minimal, sendLen7Limit, sendLen16Limit, sendLen16Marker,
    sendLen64Marker]
  by_cases h1 : payload.length < 126
  · have : payload.length ≤ 125 := by omega
    simp [h1, this, bit]
  · by_cases h2 : payload.length < 65536
    · have a1 : ¬ payload.length ≤ 125 := by omega
      have a2 : payload.length ≤ 65535 := by omega
      simp [h1, h2, a1, a2, bit]
    · have a1 : ¬ payload.length ≤ 125 := by omega
      have a2 : ¬ payload.length ≤ 65535 := by omega
      simp [h1, h2, a1, a2, bit]

theorem minimal_fits (n : Nat) (h : n < 18446744073709551616) : (LenForm.minimal n).fits n := by
  unfold LenForm.minimal
  split
  · simp [LenForm.fits]; omega
  · split
    · simp [LenForm.fits]; omega
    · simp [LenForm.fits]; omega

/-- client frames: the same layout with the mask bit, the key and the masked payload -/
theorem sendFrame_client_eq_wire (word : Nat) (hw0 : 0 < word) (hw : word % 4 = 0) (align : Nat) (key : Bytes)
    (hk : key.length = 4) (typ : Nat) (ht : typ < 16) (payload : Bytes) :
    sendFrame false word align key typ payload = wire true 0 typ (some key) (LenForm.minimal payload.length) payload := by
  have hk' : key.take maskBytes = key := by
    rw [List.take_of_length_le]; simp [maskBytes, hk]
  simp only [sendFrame, frameHeader, wire, wireHeader, wirePayload, Option.isSome_some, Option.getD_some,
    ofNat_or_fin typ ht, LenForm.minimal, sendLen7Limit, sendLen16Limit, sendLen16Marker,
    sendLen64Marker, hk', unmaskPayload_eq_xorMask word hw0 hw]
  by_cases h1 : payload.length < 126
  · have : payload.length ≤ 125 := by omega
    simp [h1, this, ofNat_or_mask payload.length (by omega)]
  · by_cases h2 : payload.length < 65536
    · have a1 : ¬ payload.length ≤ 125 := by omega
      have a2 : payload.length ≤ 65535 := by omega
      simp [h1, h2, a1, a2]
      decide
    · have a1 : ¬ payload.length ≤ 125 := by omega
      have a2 : ¬ payload.length ≤ 65535 := by omega
      simp [h1, h2, a1, a2]
      decide

/-- `ws_get_payload` on a payload in wire form hands the unmasked payload to the dispatcher -/
theorem wsGetPayload_wire (c : Conf) (hw0 : 0 < c.word) (hw : c.word % 4 = 0) (f : Flags) (key : Option Bytes)
    (hm : f.mask = key.isSome) (k0 : Bytes) (a : Nat) (payload : Bytes) :
    wsGetPayload c f (key.getD k0) a (wirePayload key payload) =
      if c.isServer && !f.mask then
        { flags := f, open_ := false, actions := handleError c closeProtocolError }
      else payloadResult c (wsHandleFrame c f payload) := by
  unfold wsGetPayload
  cases key with
  | none =>
    simp only [Option.isSome_none] at hm
    simp [hm, wirePayload]
  | some k =>
    simp only [Option.isSome_some] at hm
    simp only [hm, wirePayload, Option.getD_some, if_true, unmaskPayload_eq_xorMask c.word hw0 hw, xorMask,
      xorFrom_involutive]


end Cjet.Ws
