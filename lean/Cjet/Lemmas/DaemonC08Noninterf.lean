/-
  DaemonC08Noninterf — two runs that differ in password strings only (inside authenticate /
  passwd requests and in the password fields of the credential table) and in which every
  credential comparison has the same verdict produce the same outputs.
-/
import Cjet.Lemmas.DaemonC08Password

namespace Cjet.Daemon.C08

open Cjet Cjet.Json Cjet.Daemon

/-- the two credential tables agree in everything but the password fields -/
def PwOnly (us us' : List User) : Prop := us'.map UProj = us.map UProj

theorem PwOnly.refl (us : List User) : PwOnly us us := rfl

theorem PwOnly.findUser {us us' : List User} (h : PwOnly us us') (u : Bytes) :
    (findUser us u = none ∧ findUser us' u = none) ∨
    (∃ a a', findUser us u = some a ∧ findUser us' u = some a' ∧ UProj a' = UProj a) := by
  induction us generalizing us' with
  | nil =>
    cases us' with
    | nil => exact Or.inl ⟨rfl, rfl⟩
    | cons b rest' => simp [PwOnly] at h
  | cons a rest ih =>
    cases us' with
    | nil => simp [PwOnly] at h
    | cons b rest' =>
      simp only [PwOnly, List.map_cons, List.cons.injEq] at h
      obtain ⟨hab, hrest⟩ := h
      have hname : b.name = a.name := congrArg Prod.fst hab
      unfold Daemon.findUser
      simp only [List.find?_cons, hname]
      cases hk : keyEq a.name u with
      | true => exact Or.inr ⟨a, b, rfl, rfl, hab⟩
      | false => exact ih hrest

theorem PwOnly.setPassword {us us' : List User} (h : PwOnly us us') (n n' pw pw' : Bytes) :
    PwOnly (setPassword us n pw) (setPassword us' n' pw') := by
  unfold PwOnly at *
  rw [setPassword_proj, setPassword_proj, h]

/-- every credential comparison an authenticate request causes has the same outcome in both runs -/
def Verdicts (us us' : List User) (req req' : Json) : Prop :=
  ∀ u pw pw', getCredentials req = .ok u pw → getCredentials req' = .ok u pw' →
    ∀ a a', findUser us u = some a → findUser us' u = some a' → (a.password == pw) = (a'.password == pw')

/-- `req'` is `req`, or both are authenticate / passwd requests with the same id and user that
    differ (at most) in the password they carry -/
def ReqRel (req req' : Json) : Prop :=
  req' = req ∨
  (methodOf req' = methodOf req ∧ (methodOf req = some (k "authenticate") ∨ methodOf req = some (k "passwd")) ∧
    req'.getItem (k "id") = req.getItem (k "id") ∧
    ∃ u pw pw', getCredentials req = .ok u pw ∧ getCredentials req' = .ok u pw')

theorem errorFromRequest_id {req req' : Json} (hid : req'.getItem (k "id") = req.getItem (k "id")) (code : Int) (tag : String)
    (reason : Bytes) : errorFromRequest req' code tag reason = errorFromRequest req code tag reason := by
  unfold errorFromRequest; rw [hid]

theorem successFromRequest_id {req req' : Json} (hid : req'.getItem (k "id") = req.getItem (k "id")) :
    successFromRequest req' = successFromRequest req := by
  unfold successFromRequest resultFromRequest; rw [hid]

/-- the verdict of credentials_ok is the same in both runs -/
theorem credentialsOk_rel {us us' : List User} (h : PwOnly us us') {u pw pw' : Bytes}
    (hv : ∀ a a', findUser us u = some a → findUser us' u = some a' → (a.password == pw) = (a'.password == pw')) :
    credentialsOk us' u pw' = credentialsOk us u pw := by
  unfold credentialsOk
  rcases h.findUser u with ⟨h1, h2⟩ | ⟨a, a', h1, h2, hp⟩
  · rw [h1, h2]; rfl
  · rw [h1, h2]
    simp only [Option.bind_some]
    rw [hv a a' h1 h2]
    have : a'.auth = a.auth := congrArg (fun t => t.2.1) hp
    rw [this]

theorem authenticateReq_rel (cfg : Config) (x : Ctx) (p : Peer) {req req' : Json} {us' : List User}
    (h : PwOnly x.st.users us') {u pw pw' : Bytes} (hid : req'.getItem (k "id") = req.getItem (k "id"))
    (hc : getCredentials req = .ok u pw) (hc' : getCredentials req' = .ok u pw')
    (hv : ∀ a a', findUser x.st.users u = some a → findUser us' u = some a' → (a.password == pw) = (a'.password == pw')) :
    authenticateReq cfg (wu us' x) p req' =
      (wu us' (authenticateReq cfg x p req).1, (authenticateReq cfg x p req).2) := by
  have hcred := credentialsOk_rel h hv
  unfold credentialsOk at hcred
  unfold authenticateReq
  rw [hc, hc']
  simp only [wu_users, wu_peers]
  by_cases hf : (!p.fetches.isEmpty) = true
  · simp only [hf, if_true, errorFromRequest_id hid]
    all_goals rfl
  · simp only [hf, Bool.false_eq_true, if_false]
    rw [hcred]
    cases (findUser x.st.users u).bind (fun usr => if usr.password == pw then usr.auth else none) with
    | none =>
      simp only [errorFromRequest_id hid]
      all_goals rfl
    | some auth =>
      simp only [successFromRequest_id hid]
      all_goals rfl

theorem authenticateReq_same (cfg : Config) (x : Ctx) (p : Peer) (req : Json) {us' : List User}
    (h : PwOnly x.st.users us') (hv : Verdicts x.st.users us' req req) :
    authenticateReq cfg (wu us' x) p req =
      (wu us' (authenticateReq cfg x p req).1, (authenticateReq cfg x p req).2) := by
  cases hc : getCredentials req with
  | err r =>
    unfold authenticateReq
    rw [hc]
  | ok u pw => exact authenticateReq_rel cfg x p h rfl hc hc (hv u pw pw hc hc)

/-- passwd: the answer does not depend on any password; the tables stay equal up to passwords -/
theorem passwdReq_rel (x : Ctx) (p : Peer) {req req' : Json} {us' : List User}
    (h : PwOnly x.st.users us') {u pw pw' : Bytes} (hid : req'.getItem (k "id") = req.getItem (k "id"))
    (hc : getCredentials req = .ok u pw) (hc' : getCredentials req' = .ok u pw') :
    ∃ us'', PwOnly (passwdReq x p req).1.st.users us'' ∧
      passwdReq (wu us' x) p req' = (wu us'' (passwdReq x p req).1, (passwdReq x p req).2) := by
  unfold passwdReq
  rw [hc, hc']
  simp only [wu_users]
  cases hpu : p.user with
  | none =>
    refine ⟨us', h, ?_⟩
    simp only [errorFromRequest_id hid]
    all_goals rfl
  | some me =>
    simp only
    rcases h.findUser u with ⟨h1, h2⟩ | ⟨t, t', h1, h2, hp⟩
    · rw [h1, h2]
      refine ⟨us', h, ?_⟩
      simp only [errorFromRequest_id hid]
      all_goals rfl
    · rw [h1, h2]
      simp only
      have hro : t'.readonly = t.readonly := congrArg (fun z => z.2.2.1) hp
      have hnm : t'.name = t.name := congrArg Prod.fst hp
      rcases h.findUser me with ⟨m1, m2⟩ | ⟨m, m', m1, m2, hm⟩
      · simp only [wu_users, m1, m2, hro]
        by_cases hcond : (!t.readonly && (me == u || false)) = true
        · simp only [hcond, if_true]
          refine ⟨setPassword us' t'.name pw', h.setPassword _ _ _ _, ?_⟩
          simp only [successFromRequest_id hid]
          all_goals rfl
        · simp only [hcond, Bool.false_eq_true, if_false]
          refine ⟨us', h, ?_⟩
          simp only [errorFromRequest_id hid]
          all_goals rfl
      · have hadm : m'.admin = m.admin := congrArg (fun z => z.2.2.2) hm
        simp only [wu_users, m1, m2, hro, hadm]
        by_cases hcond : (!t.readonly && (me == u || m.admin)) = true
        · simp only [hcond, if_true]
          refine ⟨setPassword us' t'.name pw', h.setPassword _ _ _ _, ?_⟩
          simp only [successFromRequest_id hid]
          all_goals rfl
        · simp only [hcond, Bool.false_eq_true, if_false]
          refine ⟨us', h, ?_⟩
          simp only [errorFromRequest_id hid]
          all_goals rfl

theorem passwdReq_same (x : Ctx) (p : Peer) (req : Json) {us' : List User} (h : PwOnly x.st.users us') :
    ∃ us'', PwOnly (passwdReq x p req).1.st.users us'' ∧
      passwdReq (wu us' x) p req = (wu us'' (passwdReq x p req).1, (passwdReq x p req).2) := by
  cases hc : getCredentials req with
  | err r =>
    refine ⟨us', ?_, ?_⟩
    · unfold passwdReq; rw [hc]; exact h
    · unfold passwdReq; rw [hc]
  | ok u pw => exact passwdReq_rel x p h rfl hc hc

/-! ## the dispatcher -/

/-- any method but authenticate / passwd commutes with replacing the credential table -/
theorem handleMethod_wu (cfg : Config) (us : List User) (x : Ctx) (p : Peer) (req : Json) (m : Bytes)
    (h1 : (m == k "authenticate") = false) (h2 : (m == k "passwd") = false) :
    handleMethod cfg (wu us x) p req m = (wu us (handleMethod cfg x p req m).1, (handleMethod cfg x p req m).2) := by
  unfold handleMethod
  by_cases c1 : (m == k "change") = true
  · rw [if_pos c1, if_pos c1]; exact changeState_wu ..
  rw [if_neg c1, if_neg c1]
  by_cases c2 : (m == k "set") = true
  · rw [if_pos c2, if_pos c2]; exact setOrCall_wu ..
  rw [if_neg c2, if_neg c2]
  by_cases c3 : (m == k "call") = true
  · rw [if_pos c3, if_pos c3]; exact setOrCall_wu ..
  rw [if_neg c3, if_neg c3]
  by_cases c4 : (m == k "add") = true
  · rw [if_pos c4, if_pos c4]; exact addElement_wu ..
  rw [if_neg c4, if_neg c4]
  by_cases c5 : (m == k "remove") = true
  · rw [if_pos c5, if_pos c5]; exact removeElementReq_wu ..
  rw [if_neg c5, if_neg c5]
  by_cases c6 : (m == k "fetch") = true
  · rw [if_pos c6, if_pos c6]; exact fetchReq_wu ..
  rw [if_neg c6, if_neg c6]
  by_cases c7 : (m == k "unfetch") = true
  · rw [if_pos c7, if_pos c7]; exact unfetchReq_wu ..
  rw [if_neg c7, if_neg c7]
  by_cases c8 : (m == k "get") = true
  · rw [if_pos c8, if_pos c8]; exact getReq_wu ..
  rw [if_neg c8, if_neg c8]
  by_cases c9 : (m == k "config") = true
  · rw [if_pos c9, if_pos c9]; exact configReq_wu ..
  rw [if_neg c9, if_neg c9]
  by_cases c10 : (m == k "info") = true
  · rw [if_pos c10, if_pos c10]; exact infoReq_wu ..
  rw [if_neg c10, if_neg c10]
  have n1 : ¬ (m == k "authenticate") = true := by rw [h1]; exact Bool.false_ne_true
  have n2 : ¬ (m == k "passwd") = true := by rw [h2]; exact Bool.false_ne_true
  rw [if_neg n1, if_neg n1, if_neg n2, if_neg n2]

/-- result of the relational statements: the second run ends in the same context up to a
    credential table that still agrees with the first one's up to passwords, with the same verdict -/
def RelOut {α : Type} (r r' : Ctx × α) : Prop :=
  ∃ us'', PwOnly r.1.st.users us'' ∧ r' = (wu us'' r.1, r.2)

theorem RelOut.of_wu {α : Type} {f : Ctx → Ctx × α} (hf : ∀ us x, f (wu us x) = (wu us (f x).1, (f x).2))
    {x : Ctx} {us' : List User} (h : PwOnly x.st.users us') : RelOut (f x) (f (wu us' x)) := by
  refine ⟨us', ?_, hf us' x⟩
  rw [users_of_wu f hf x]; exact h

theorem sendResponse_rel {x : Ctx} {us'' : List User} (c : Nat) (r : Option Json) (h : PwOnly x.st.users us'') :
    RelOut (sendResponse x c r) (sendResponse (wu us'' x) c r) := by
  refine ⟨us'', ?_, sendResponse_wu us'' x c r⟩
  have : (sendResponse x c r).1.st = x.st := by
    unfold sendResponse; split
    · rfl
    · exact send_st _ _ _
  rw [this]; exact h

theorem authenticateReq_users (cfg : Config) (x : Ctx) (p : Peer) (req : Json) :
    (authenticateReq cfg x p req).1.st.users = x.st.users := by
  rcases authenticateReq_cases cfg x p req with ⟨h, _⟩ | ⟨_, _, _, _, _, _, h⟩
  · rw [h]
  · rw [h]

theorem handleMethod_rel (cfg : Config) (x : Ctx) (p : Peer) {req req' : Json} {us' : List User} (m : Bytes)
    (h : PwOnly x.st.users us') (hm : methodOf req = some m) (hr : ReqRel req req') (hv : Verdicts x.st.users us' req req') :
    RelOut (handleMethod cfg x p req m) (handleMethod cfg (wu us' x) p req' m) := by
  by_cases h1 : (m == k "authenticate") = true
  · have hm1 : m = k "authenticate" := eq_of_beq h1
    subst hm1
    rw [handleMethod_authenticate, handleMethod_authenticate]
    rcases hr with rfl | ⟨_, _, hid, u, pw, pw', hc, hc'⟩
    · exact ⟨us', by rw [authenticateReq_users]; exact h, authenticateReq_same cfg x p req' h hv⟩
    · exact ⟨us', by rw [authenticateReq_users]; exact h, authenticateReq_rel cfg x p h hid hc hc' (hv u pw pw' hc hc')⟩
  · by_cases h2 : (m == k "passwd") = true
    · have hm2 : m = k "passwd" := eq_of_beq h2
      subst hm2
      rw [handleMethod_passwd, handleMethod_passwd]
      rcases hr with rfl | ⟨_, _, hid, u, pw, pw', hc, hc'⟩
      · exact passwdReq_same x p req' h
      · exact passwdReq_rel x p h hid hc hc'
    · have h1' : (m == k "authenticate") = false := by simpa using h1
      have h2' : (m == k "passwd") = false := by simpa using h2
      rcases hr with rfl | ⟨_, hmm, _⟩
      · exact RelOut.of_wu (f := fun y => handleMethod cfg y p req' m)
          (fun us y => handleMethod_wu cfg us y p req' m h1' h2') h
      · exfalso
        rw [hm] at hmm
        rcases hmm with hmm | hmm
        · injection hmm with hmm; subst hmm; simp at h1
        · injection hmm with hmm; subst hmm; simp at h2

theorem methodOf_eq {req : Json} {m : Bytes} (h : methodOf req = some m) : req.getItem (k "method") = some (.str m) := by
  unfold methodOf at h
  cases hg : req.getItem (k "method") with
  | none => rw [hg] at h; cases h
  | some v =>
    rw [hg] at h
    cases v with
    | str m' => simp only at h; cases h; rfl
    | null | bool _ | num _ | arr _ | obj _ => cases h

theorem parseJsonRpc_wu_nomethod (cfg : Config) (us : List User) (x : Ctx) (c : Nat) (req : Json)
    (hm : methodOf req = none) :
    parseJsonRpc cfg (wu us x) c req = (wu us (parseJsonRpc cfg x c req).1, (parseJsonRpc cfg x c req).2) := by
  unfold parseJsonRpc
  simp only [wu_peers]
  cases findPeer x.st.peers c with
  | none => rfl
  | some p =>
    simp only
    unfold methodOf at hm
    cases hg : req.getItem (k "method") with
    | none =>
      simp only
      cases req.getItem (k "result") with
      | some res => exact routingResponse_wu ..
      | none =>
        simp only
        cases req.getItem (k "error") with
        | some err => exact routingResponse_wu ..
        | none => exact sendResponse_wu ..
    | some v =>
      rw [hg] at hm
      cases v with
      | str m => cases hm
      | null | bool _ | num _ | arr _ | obj _ => exact sendResponse_wu ..

/-- one JSON-RPC object in two runs -/
theorem parseJsonRpc_rel (cfg : Config) (x : Ctx) (c : Nat) {req req' : Json} {us' : List User}
    (h : PwOnly x.st.users us') (hr : ReqRel req req') (hv : Verdicts x.st.users us' req req') :
    RelOut (parseJsonRpc cfg x c req) (parseJsonRpc cfg (wu us' x) c req') := by
  cases hm : methodOf req with
  | none =>
    rcases hr with rfl | ⟨_, hmm, _⟩
    · exact RelOut.of_wu (f := fun y => parseJsonRpc cfg y c req')
        (fun us y => parseJsonRpc_wu_nomethod cfg us y c req' hm) h
    · rw [hm] at hmm; rcases hmm with hmm | hmm <;> cases hmm
  | some m =>
    have hm' : methodOf req' = some m := by
      rcases hr with rfl | ⟨hmeq, _⟩
      · exact hm
      · rw [hmeq]; exact hm
    cases hp : findPeer x.st.peers c with
    | none =>
      have e1 : parseJsonRpc cfg x c req = (x, false) := by unfold parseJsonRpc; rw [hp]
      have e2 : parseJsonRpc cfg (wu us' x) c req' = (wu us' x, false) := by
        unfold parseJsonRpc; rw [wu_peers, hp]
      rw [e1, e2]
      exact ⟨us', h, rfl⟩
    | some p =>
      have hp' : findPeer (wu us' x).st.peers c = some p := hp
      rw [parseJsonRpc_method hp hm, parseJsonRpc_method hp' hm']
      obtain ⟨us'', hus, heq⟩ := handleMethod_rel cfg x p m h hm hr hv
      rw [heq]
      exact sendResponse_rel c _ hus

/-! ## batches, messages, operations -/

theorem methodOf_some_obj {j : Json} {m : Bytes} (h : methodOf j = some m) : ∃ l, j = .obj l := by
  cases j with
  | obj l => exact ⟨l, rfl⟩
  | null | bool _ | num _ | str _ | arr _ => cases h

theorem ReqRel.obj {l : List (Bytes × Json)} {j' : Json} (h : ReqRel (.obj l) j') : ∃ l', j' = .obj l' := by
  rcases h with rfl | ⟨hm, hmm, _⟩
  · exact ⟨l, rfl⟩
  · rcases hmm with hmm | hmm
    · rw [hmm] at hm; exact methodOf_some_obj hm
    · rw [hmm] at hm; exact methodOf_some_obj hm

theorem ReqRel.nonobj {j j' : Json} (h : ReqRel j j') (hj : ∀ l, j ≠ .obj l) : j' = j := by
  rcases h with rfl | ⟨_, hmm, _⟩
  · rfl
  · rcases hmm with hmm | hmm
    · obtain ⟨l, rfl⟩ := methodOf_some_obj hmm; exact absurd rfl (hj l)
    · obtain ⟨l, rfl⟩ := methodOf_some_obj hmm; exact absurd rfl (hj l)

/-- the members of two batches are pairwise related, and every credential comparison has the
    same verdict in the contexts in which the members are processed -/
def ArrRel (cfg : Config) (c : Nat) : Ctx → List User → List Json → List Json → Prop
  | _, _, [], [] => True
  | x, us', j :: rest, j' :: rest' =>
      ReqRel j j' ∧ Verdicts x.st.users us' j j' ∧
      ArrRel cfg c (parseJsonRpc cfg x c j).1 (parseJsonRpc cfg (wu us' x) c j').1.st.users rest rest'
  | _, _, _, _ => False

theorem parseJsonArray_obj (cfg : Config) (x : Ctx) (c : Nat) (l : List (Bytes × Json)) (rest : List Json) :
    parseJsonArray cfg x c (.obj l :: rest) =
      if (parseJsonRpc cfg x c (.obj l)).2 then parseJsonArray cfg (parseJsonRpc cfg x c (.obj l)).1 c rest
      else ((parseJsonRpc cfg x c (.obj l)).1, false) := by
  rw [parseJsonArray]

theorem parseJsonArray_nonobj (cfg : Config) (x : Ctx) (c : Nat) (j : Json) (rest : List Json) (hj : ∀ l, j ≠ .obj l) :
    parseJsonArray cfg x c (j :: rest) = (x, false) := by
  cases j with
  | obj l => exact absurd rfl (hj l)
  | null | bool _ | num _ | str _ | arr _ =>
    rw [parseJsonArray]
    intro l hl; cases hl

theorem parseJsonArray_rel (cfg : Config) (c : Nat) (l l' : List Json) (x : Ctx) (us' : List User)
    (h : PwOnly x.st.users us') (hr : ArrRel cfg c x us' l l') :
    RelOut (parseJsonArray cfg x c l) (parseJsonArray cfg (wu us' x) c l') := by
  induction l generalizing l' x us' with
  | nil =>
    cases l' with
    | nil => exact ⟨us', h, rfl⟩
    | cons _ _ => exact hr.elim
  | cons j rest ih =>
    cases l' with
    | nil => exact hr.elim
    | cons j' rest' =>
      obtain ⟨hrel, hv, hrest⟩ := hr
      cases j with
      | obj m =>
        obtain ⟨m', rfl⟩ := hrel.obj
        rw [parseJsonArray_obj, parseJsonArray_obj]
        obtain ⟨us'', hus, heq⟩ := parseJsonRpc_rel cfg x c h hrel hv
        rw [heq] at hrest ⊢
        simp only at hrest ⊢
        cases hok : (parseJsonRpc cfg x c (.obj m)).2 with
        | true =>
          simp only [if_true]
          exact ih rest' _ us'' hus hrest
        | false =>
          simp only [Bool.false_eq_true, if_false]
          exact ⟨us'', hus, rfl⟩
      | null | bool _ | num _ | str _ | arr _ =>
        have := hrel.nonobj (by intro l hl; cases hl)
        subst this
        rw [parseJsonArray_nonobj _ _ _ _ _ (by intro l hl; cases hl),
          parseJsonArray_nonobj _ _ _ _ _ (by intro l hl; cases hl)]
        exact ⟨us', h, rfl⟩

/-- two messages of the same shape whose request objects are pairwise related -/
def MsgRel (cfg : Config) (c : Nat) (x : Ctx) (us' : List User) (msg msg' : Option Json) : Prop :=
  (∃ l l', msg = some (.arr l) ∧ msg' = some (.arr l') ∧ ArrRel cfg c x us' l l') ∨
  (∃ m j', msg = some (.obj m) ∧ msg' = some j' ∧ ReqRel (.obj m) j' ∧ Verdicts x.st.users us' (.obj m) j') ∨
  ((∀ l, msg ≠ some (.arr l)) ∧ (∀ m, msg ≠ some (.obj m)) ∧ msg' = msg)

theorem parseMessage_rel (cfg : Config) (c : Nat) (x : Ctx) (us' : List User) (msg msg' : Option Json)
    (h : PwOnly x.st.users us') (hr : MsgRel cfg c x us' msg msg') :
    RelOut (parseMessage cfg x c msg) (parseMessage cfg (wu us' x) c msg') := by
  rcases hr with ⟨l, l', rfl, rfl, ha⟩ | ⟨m, j', rfl, rfl, hrel, hv⟩ | ⟨h1, h2, rfl⟩
  · exact parseJsonArray_rel cfg c l l' x us' h ha
  · obtain ⟨m', rfl⟩ := hrel.obj
    exact parseJsonRpc_rel cfg x c h hrel hv
  · cases msg' with
    | none => exact ⟨us', h, rfl⟩
    | some j =>
      cases j with
      | arr l => exact absurd rfl (h1 l)
      | obj m => exact absurd rfl (h2 m)
      | null | bool _ | num _ | str _ => exact ⟨us', h, rfl⟩

/-- two states that differ in the password fields of the credential table only -/
def StRel (s s' : State) : Prop := PwOnly s.users s'.users ∧ s' = { s with users := s'.users }

/-- two operations that differ in the password strings of authenticate / passwd requests only,
    with equal verdicts of all credential comparisons -/
def OpRel (cfg : Config) (s s' : State) (op op' : Op) : Prop :=
  op' = op ∧ (∀ c msg o, op = .message c msg o → MsgRel cfg c (mkCtx s o) s'.users msg msg) ∨
  (∃ c msg msg' o, op = .message c msg o ∧ op' = .message c msg' o ∧ MsgRel cfg c (mkCtx s o) s'.users msg msg')

theorem closePeer_users (x : Ctx) (c : Nat) : (closePeer x c).st.users = x.st.users :=
  users_of_wu (fun y => (closePeer y c, ())) (fun us y => by simp only [closePeer_wu]) x

theorem timeoutFired_users (x : Ctx) (t : Nat) : (timeoutFired x t).st.users = x.st.users :=
  users_of_wu (fun y => (timeoutFired y t, ())) (fun us y => by simp only [timeoutFired_wu]) x

theorem mkCtx_rel {s s' : State} (h : StRel s s') (o : Oracle) : mkCtx s' o = wu s'.users (mkCtx s o) := by
  obtain ⟨_, h2⟩ := h
  unfold mkCtx wu
  rw [h2]

theorem StRel.of_wu {y : Ctx} {us'' : List User} (h : PwOnly y.st.users us'') : StRel y.st (wu us'' y).st := ⟨h, rfl⟩

theorem step_message_rel (cfg : Config) {s s' : State} (h : StRel s s') (c : Nat) (msg msg' : Option Json) (o : Oracle)
    (hm : MsgRel cfg c (mkCtx s o) s'.users msg msg') :
    (step cfg s' (.message c msg' o)).2 = (step cfg s (.message c msg o)).2 ∧
      StRel (step cfg s (.message c msg o)).1 (step cfg s' (.message c msg' o)).1 := by
  have hpeers : s'.peers = s.peers := by rw [h.2]
  simp only [step, hpeers]
  by_cases hnone : (findPeer s.peers c).isNone = true
  · simp only [hnone, if_true]; exact ⟨(by first | rfl | trivial), h⟩
  · simp only [hnone, Bool.false_eq_true, if_false]
    obtain ⟨us'', hus, heq⟩ := parseMessage_rel cfg c (mkCtx s o) s'.users msg msg' h.1 hm
    rw [mkCtx_rel h o, heq]
    simp only
    cases (parseMessage cfg (mkCtx s o) c msg).2 with
    | true => exact ⟨(by first | rfl | trivial), StRel.of_wu hus⟩
    | false =>
      simp only [Bool.false_eq_true, if_false, closePeer_wu, wu_out]
      exact ⟨(by first | rfl | trivial), StRel.of_wu (by rw [closePeer_users]; exact hus)⟩

theorem step_rel (cfg : Config) {s s' : State} (h : StRel s s') (op op' : Op) (hop : OpRel cfg s s' op op') :
    (step cfg s' op').2 = (step cfg s op).2 ∧ StRel (step cfg s op).1 (step cfg s' op').1 := by
  have hpeers : s'.peers = s.peers := by rw [h.2]
  rcases hop with ⟨rfl, hsame⟩ | ⟨c, msg, msg', o, rfl, rfl, hm⟩
  · cases op' with
    | connect c ws il a =>
      simp only [step, hpeers]
      cases (findPeer s.peers c).isSome with
      | true => exact ⟨(by first | rfl | trivial), h⟩
      | false =>
        refine ⟨rfl, h.1, ?_⟩
        simp only [Bool.false_eq_true, if_false]
        rw [h.2]
    | message c msg o => exact step_message_rel cfg h c msg msg o (hsame c msg o rfl)
    | disconnect c o =>
      simp only [step, hpeers]
      by_cases hnone : (findPeer s.peers c).isNone = true
      · simp only [hnone, if_true]; exact ⟨(by first | rfl | trivial), h⟩
      · simp only [hnone, Bool.false_eq_true, if_false]
        rw [mkCtx_rel h o, closePeer_wu]
        exact ⟨(by first | rfl | trivial), StRel.of_wu (by rw [closePeer_users]; exact h.1)⟩
    | timerFire t o =>
      simp only [step]
      rw [mkCtx_rel h o, timeoutFired_wu]
      exact ⟨(by first | rfl | trivial), StRel.of_wu (by rw [timeoutFired_users]; exact h.1)⟩
  · exact step_message_rel cfg h c msg msg' o hm

end Cjet.Daemon.C08
