import Cjet.Deflate
/-! Helper lemmas for C19, part C: the offer parser and the response buffer. -/
namespace Cjet.Deflate
open Cjet.Generated.Deflate

/-! ### sizes -/

def PName.cost : PName → Nat
  | .cmw => 27
  | .smw => 27
  | .cnc => 28
  | .snc => 28

def Flags.get (fl : Flags) : PName → Bool
  | .cmw => fl.cmw
  | .smw => fl.smw
  | .cnc => fl.cnc
  | .snc => fl.snc

def Flags.set (fl : Flags) : PName → Flags
  | .cmw => { fl with cmw := true }
  | .smw => { fl with smw := true }
  | .cnc => { fl with cnc := true }
  | .snc => { fl with snc := true }

def budget (fl : Flags) : Nat :=
  extName.length + (if fl.cmw then 27 else 0) + (if fl.smw then 27 else 0) +
    (if fl.cnc then 28 else 0) + (if fl.snc then 28 else 0)

theorem budget_le (fl : Flags) : budget fl + 1 ≤ responseMax := by
  obtain ⟨a, b, c, d⟩ := fl
  cases a <;> cases b <;> cases c <;> cases d <;> decide

theorem budget_set (fl : Flags) (n : PName) (h : fl.get n = false) :
    budget (fl.set n) = budget fl + n.cost := by
  obtain ⟨a, b, c, d⟩ := fl
  cases n <;> cases a <;> cases b <;> cases c <;> cases d <;> simp [Flags.get] at h <;> decide

theorem renderValue_length (v : Nat) : (renderValue v).length ≤ 3 := by
  unfold renderValue
  split
  · simp
  · split <;> simp

/-- a window parameter with any value, a takeover parameter without value: at most `cost` bytes -/
theorem renderItem_length (n : PName) (v : Nat) (h : n = .cmw ∨ n = .smw ∨ v = 0) :
    (renderItem n v).length ≤ n.cost := by
  have hv := renderValue_length v
  cases n
  · simp only [renderItem, PName.bytes, PName.cost, List.length_append]
    have : nameCmw.length = 22 := rfl
    simp only [this, List.length_cons, List.length_nil]; omega
  · simp only [renderItem, PName.bytes, PName.cost, List.length_append]
    have : nameSmw.length = 22 := rfl
    simp only [this, List.length_cons, List.length_nil]; omega
  · have hv0 : v = 0 := by
      rcases h with h | h | h
      · cases h
      · cases h
      · exact h
    subst hv0
    decide
  · have hv0 : v = 0 := by
      rcases h with h | h | h
      · cases h
      · cases h
      · exact h
    subst hv0
    decide

/-! ### what `classify` tells -/

theorem cmwValue_some (buf : Bytes) (p l t : Nat) (h : cmwValue buf p l = some (some t)) :
    8 ≤ t ∧ t ≤ 15 ∧ spelled buf (p + nameCmw.length) t := by
  unfold cmwValue at h
  split at h
  · split at h
    · cases h
    · rename_i heq
      have heq' : rd buf (p + nameCmw.length) = chEq := by simpa using heq
      split at h
      · split at h
        · cases h
        · rename_i hr
          simp only [Option.some.injEq] at h
          have h8 : ¬ tmpOf (rd buf (p + nameCmw.length + 1)) < 8 := fun hh => hr (by simp [hh, cmwDigitLo])
          have h9 : ¬ tmpOf (rd buf (p + nameCmw.length + 1)) > 9 := fun hh => hr (by simp [hh, cmwDigitHi])
          subst h
          refine ⟨by omega, by omega, heq', Or.inl ⟨by omega, rfl⟩⟩
      · split at h
        · split at h
          · cases h
          · rename_i h1
            have h1' : rd buf (p + nameCmw.length + 1) = chOne := by simpa using h1
            split at h
            · cases h
            · rename_i hr
              simp only [Option.some.injEq] at h
              simp [cmwSecondHi] at hr
              subst h
              refine ⟨by omega, by omega, heq', Or.inr ⟨by omega, h1', rfl⟩⟩
        · cases h
  · cases h

theorem smwValue_some (buf : Bytes) (p l t : Nat) (h : smwValue buf p l = some t) :
    8 ≤ t ∧ t ≤ 15 ∧ spelled buf (p + nameSmw.length) t := by
  unfold smwValue at h
  split at h
  · cases h
  · split at h
    · cases h
    · rename_i heq
      have heq' : rd buf (p + nameSmw.length) = chEq := by simpa using heq
      split at h
      · split at h
        · cases h
        · rename_i hr
          simp only [Option.some.injEq] at h
          simp [smwDigit] at hr
          subst h
          refine ⟨by omega, by omega, heq', Or.inl ⟨by omega, rfl⟩⟩
      · split at h
        · split at h
          · cases h
          · rename_i h1
            have h1' : rd buf (p + nameSmw.length + 1) = chOne := by simpa using h1
            split at h
            · cases h
            · rename_i hr
              simp only [Option.some.injEq] at h
              simp [smwSecondHi] at hr
              subst h
              refine ⟨by omega, by omega, heq', Or.inr ⟨by omega, h1', rfl⟩⟩
        · cases h

/-- the parameter kind an action belongs to -/
def Action.pname : Action → PName
  | .cmw _ => .cmw
  | .smw _ => .smw
  | .cnc => .cnc
  | .snc => .snc

theorem classify_flag (buf : Bytes) (fl : Flags) (p l : Nat) (a : Action)
    (h : classify buf fl p l = some a) : fl.get a.pname = false := by
  unfold classify at h
  repeat' split at h
  all_goals first
    | (cases h; done)
    | (simp only [Option.map_eq_some_iff] at h
       obtain ⟨_, _, rfl⟩ := h
       simp_all [Action.pname, Flags.get]
       done)
    | (cases h
       simp_all [Action.pname, Flags.get])

theorem classify_cmw (buf : Bytes) (fl : Flags) (p l : Nat) (ov : Option Nat)
    (h : classify buf fl p l = some (.cmw ov)) :
    memEq buf p nameCmw = true ∧ cmwValue buf p l = some ov := by
  unfold classify at h
  repeat' split at h
  all_goals first
    | cases h
    | (simp only [Option.map_eq_some_iff] at h
       obtain ⟨w, hw, hh⟩ := h
       first
         | (cases hh; exact ⟨by assumption, hw⟩)
         | cases hh)
    | (simp only [Option.some.injEq] at h; cases h)

theorem classify_smw (buf : Bytes) (fl : Flags) (p l t : Nat)
    (h : classify buf fl p l = some (.smw t)) :
    memEq buf p nameSmw = true ∧ smwValue buf p l = some t := by
  unfold classify at h
  repeat' split at h
  all_goals first
    | cases h
    | (simp only [Option.map_eq_some_iff] at h
       obtain ⟨w, hw, hh⟩ := h
       first
         | (cases hh; exact ⟨by assumption, hw⟩)
         | cases hh)
    | (simp only [Option.some.injEq] at h; cases h)

/-! ### the invariant of the parameter loop -/

def names (l : List Item) : List PName := l.map (·.name)

structure PInv (buf : Bytes) (e : Ext) (fl : Flags) : Prop where
  acc : e.accepted = false
  lenB : e.resp.length ≤ budget fl
  hw : e.hiWater ≤ responseMax
  rng : 8 ≤ e.cmw ∧ e.cmw ≤ 15 ∧ 8 ≤ e.smw ∧ e.smw ≤ 15
  resp : e.resp = extName ++ renderItems e.items
  legal : ∀ it ∈ e.items, Legal buf e.offers it
  once : ∀ n, (names e.items).count n ≤ 1
  unset : ∀ n, fl.get n = false → (names e.items).count n = 0
  nosmw : fl.smw = false → ∀ p N, Offer.smw p N ∉ e.offers

theorem legal_offers_append (buf : Bytes) (offers : List Offer) (o : Offer) (it : Item)
    (h : Legal buf offers it) (hs : it.name = .smw → ∀ p N, o ≠ .smw p N) :
    Legal buf (offers ++ [o]) it := by
  unfold Legal at h ⊢
  split
  · rename_i hn
    simp only [hn] at h
    obtain ⟨h1, h2, p, ov, hm, hr⟩ := h
    exact ⟨h1, h2, p, ov, List.mem_append_left _ hm, hr⟩
  · rename_i hn
    simp only [hn] at h
    obtain ⟨h1, h2, h3⟩ := h
    refine ⟨h1, h2, fun p N hm => ?_⟩
    rcases List.mem_append.1 hm with hm | hm
    · exact h3 p N hm
    · simp only [List.mem_singleton] at hm
      exact absurd hm.symm (hs hn p N)
  · rename_i hn; simp only [hn] at h; exact h
  · rename_i hn; simp only [hn] at h; exact h

theorem renderItems_append (l : List Item) (it : Item) :
    renderItems (l ++ [it]) = renderItems l ++ renderItem it.name it.value := by
  simp [renderItems]

theorem count_names_append (l : List Item) (it : Item) (n : PName) :
    (names (l ++ [it])).count n = (names l).count n + (if it.name = n then 1 else 0) := by
  simp only [names, List.map_append, List.map_cons, List.map_nil, List.count_append, List.count_singleton]
  by_cases h : it.name = n
  · simp [h]
  · simp [h]

theorem flags_get_set (fl : Flags) (n m : PName) : (fl.set n).get m = (if n = m then true else fl.get m) := by
  cases n <;> cases m <;> simp [Flags.set, Flags.get]

/-- writing one more parameter whose flag was not yet set -/
theorem pinv_write (buf : Bytes) (e : Ext) (fl : Flags) (n : PName) (v : Nat)
    (hP : PInv buf e fl) (hf : fl.get n = false) (hl : Legal buf e.offers ⟨n, v⟩)
    (hsm : n ≠ .smw → fl.smw = false → ∀ p N, Offer.smw p N ∉ e.offers)
    (hnv : n = .cmw ∨ n = .smw ∨ v = 0 := by simp) :
    PInv buf (writeToResponse e n v) (fl.set n) := by
  have hlen := renderItem_length n v hnv
  have hb := budget_set fl n hf
  have hB := budget_le (fl.set n)
  refine
    { acc := hP.acc
      lenB := ?_
      hw := ?_
      rng := hP.rng
      resp := ?_
      legal := ?_
      once := ?_
      unset := ?_
      nosmw := ?_ }
  · show (e.resp ++ renderItem n v).length ≤ _
    have := hP.lenB
    rw [List.length_append]; omega
  · show max e.hiWater (e.resp.length + (renderItem n v).length) ≤ _
    have := hP.lenB
    have := hP.hw
    omega
  · show e.resp ++ renderItem n v = extName ++ renderItems (e.items ++ [⟨n, v⟩])
    rw [renderItems_append, hP.resp, List.append_assoc]
  · intro it hit
    show Legal buf e.offers it
    rcases List.mem_append.1 hit with h | h
    · exact hP.legal it h
    · simp only [List.mem_singleton] at h; subst h; exact hl
  · intro m
    show (names (e.items ++ [⟨n, v⟩])).count m ≤ 1
    rw [count_names_append]
    by_cases h : n = m
    · subst h
      have := hP.unset n hf
      simp; omega
    · have := hP.once m
      simp [h]; omega
  · intro m hm
    show (names (e.items ++ [⟨n, v⟩])).count m = 0
    rw [flags_get_set] at hm
    by_cases h : n = m
    · simp [h] at hm
    · simp only [h, if_false] at hm
      rw [count_names_append]
      have := hP.unset m hm
      simp [h]; omega
  · intro hs
    show ∀ p N, Offer.smw p N ∉ e.offers
    by_cases h : n = .smw
    · subst h; simp [Flags.set] at hs
    · have : fl.smw = false := by
        cases n <;> simp_all [Flags.set]
      exact hsm h this

theorem count_zero_not_mem (l : List Item) (n : PName) (h : (names l).count n = 0) :
    ∀ it ∈ l, it.name ≠ n := by
  intro it hit hn
  have : n ∈ names l := by
    rw [← hn]; exact List.mem_map_of_mem hit
  exact absurd (List.count_pos_iff.2 this) (by omega)

theorem pinv_apply_cmw (buf : Bytes) (e : Ext) (fl : Flags) (p : Nat) (ov : Option Nat) (c : Nat)
    (hP : PInv buf e fl) (hflag : fl.get .cmw = false) (hm : memEq buf p nameCmw = true)
    (hc8 : 8 ≤ c ∧ c ≤ 15 ∧ ∀ N, ov = some N → c ≤ N ∧ spelled buf (p + nameCmw.length) N) :
    PInv buf (writeToResponse { e with cmw := c, offers := e.offers ++ [.cmw p ov] } .cmw c) { fl with cmw := true } := by
  have hP1 : PInv buf { e with cmw := c, offers := e.offers ++ [.cmw p ov] } fl :=
    { acc := hP.acc, lenB := hP.lenB, hw := hP.hw
      rng := ⟨hc8.1, hc8.2.1, hP.rng.2.2⟩
      resp := hP.resp
      legal := fun it hit => legal_offers_append buf e.offers _ it (hP.legal it hit) (fun _ _ _ h => by cases h)
      once := hP.once, unset := hP.unset
      nosmw := fun hs q N hmem => by
        rcases List.mem_append.1 hmem with h | h
        · exact hP.nosmw hs q N h
        · simp at h }
  exact pinv_write buf _ fl .cmw c hP1 hflag
    (by
      show Legal buf (e.offers ++ [.cmw p ov]) ⟨.cmw, c⟩
      exact ⟨hc8.1, hc8.2.1, p, ov, by simp, hm, hc8.2.2⟩)
    (fun _ hs => hP1.nosmw hs)

/-- one turn of the parameter loop keeps the invariant -/
theorem pinv_apply (buf : Bytes) (e : Ext) (fl : Flags) (p l : Nat) (a : Action)
    (hP : PInv buf e fl) (hc : classify buf fl p l = some a) :
    PInv buf (applyAction e fl p a).1 (applyAction e fl p a).2 := by
  have hflag := classify_flag buf fl p l a hc
  cases a with
  | cmw ov =>
    obtain ⟨hm, hv⟩ := classify_cmw buf fl p l ov hc
    simp only [Action.pname] at hflag
    cases ov with
    | none =>
      exact pinv_apply_cmw buf e fl p none e.cmw hP hflag hm ⟨hP.rng.1, hP.rng.2.1, fun N h => by cases h⟩
    | some t =>
      obtain ⟨t8, t15, tsp⟩ := cmwValue_some buf p l t hv
      have := hP.rng
      refine pinv_apply_cmw buf e fl p (some t) (if e.cmw > t then t else e.cmw) hP hflag hm ⟨?_, ?_, fun N h => ?_⟩
      · split <;> omega
      · split <;> omega
      · cases h
        refine ⟨?_, tsp⟩
        split <;> omega
  | smw t =>
    obtain ⟨hm, hv⟩ := classify_smw buf fl p l t hc
    simp only [Action.pname, Flags.get] at hflag
    obtain ⟨t8, t15, tsp⟩ := smwValue_some buf p l t hv
    let c : Nat := if e.smw > t then t else e.smw
    have hcr : 8 ≤ c ∧ c ≤ 15 ∧ c ≤ t := by
      have := hP.rng
      refine ⟨?_, ?_, ?_⟩
      · show 8 ≤ (if e.smw > t then t else e.smw); split <;> omega
      · show (if e.smw > t then t else e.smw) ≤ 15; split <;> omega
      · show (if e.smw > t then t else e.smw) ≤ t; split <;> omega
    have hnone := hP.nosmw hflag
    have hnoitem := count_zero_not_mem e.items .smw (hP.unset .smw hflag)
    -- the invariant without the `nosmw` clause is re-established by hand: write directly
    have hlen := renderItem_length .smw c (by simp)
    have hb := budget_set fl .smw hflag
    have hB := budget_le (fl.set .smw)
    show PInv buf (writeToResponse { e with smw := c, offers := e.offers ++ [.smw p t] } .smw c) { fl with smw := true }
    refine
      { acc := hP.acc
        lenB := ?_
        hw := ?_
        rng := ⟨hP.rng.1, hP.rng.2.1, hcr.1, hcr.2.1⟩
        resp := ?_
        legal := ?_
        once := ?_
        unset := ?_
        nosmw := fun hs => by simp at hs }
    · show (e.resp ++ renderItem .smw c).length ≤ budget (fl.set .smw)
      have := hP.lenB
      rw [List.length_append]; omega
    · show max e.hiWater (e.resp.length + (renderItem .smw c).length) ≤ _
      have := hP.lenB
      have := hP.hw
      have : budget (fl.set .smw) + 1 ≤ responseMax := hB
      omega
    · show e.resp ++ renderItem .smw c = extName ++ renderItems (e.items ++ [⟨.smw, c⟩])
      rw [renderItems_append, hP.resp, List.append_assoc]
    · intro it hit
      show Legal buf (e.offers ++ [.smw p t]) it
      rcases List.mem_append.1 hit with h | h
      · exact legal_offers_append buf e.offers _ it (hP.legal it h) (fun hn => absurd hn (hnoitem it h))
      · simp only [List.mem_singleton] at h
        subst h
        refine ⟨hcr.1, hcr.2.1, fun q N hmem => ?_⟩
        rcases List.mem_append.1 hmem with h | h
        · exact absurd h (hnone q N)
        · simp only [List.mem_singleton, Offer.smw.injEq] at h
          obtain ⟨rfl, rfl⟩ := h
          exact ⟨hcr.2.2, hm, tsp⟩
    · intro m
      show (names (e.items ++ [⟨.smw, c⟩])).count m ≤ 1
      rw [count_names_append]
      by_cases h : PName.smw = m
      · subst h
        have := hP.unset .smw hflag
        simp; omega
      · have := hP.once m
        simp [h]; omega
    · intro m hm
      show (names (e.items ++ [⟨.smw, c⟩])).count m = 0
      have hm' : (fl.set .smw).get m = false := hm
      rw [flags_get_set] at hm'
      by_cases h : PName.smw = m
      · simp [h] at hm'
      · simp only [h, if_false] at hm'
        rw [count_names_append]
        have := hP.unset m hm'
        simp [h]; omega
  | cnc =>
    simp only [Action.pname] at hflag
    have hP1 : PInv buf { e with offers := e.offers ++ [.cnc p] } fl :=
      { acc := hP.acc, lenB := hP.lenB, hw := hP.hw, rng := hP.rng, resp := hP.resp
        legal := fun it hit => legal_offers_append buf e.offers _ it (hP.legal it hit) (fun _ _ _ h => by cases h)
        once := hP.once, unset := hP.unset
        nosmw := fun hs q N hmem => by
          rcases List.mem_append.1 hmem with h | h
          · exact hP.nosmw hs q N h
          · simp at h }
    have h2 := pinv_write buf _ fl .cnc 0 hP1 hflag (by show Legal _ _ ⟨.cnc, 0⟩; simp [Legal])
      (fun _ hs => hP1.nosmw hs)
    exact
      { acc := h2.acc, lenB := h2.lenB, hw := h2.hw, rng := h2.rng, resp := h2.resp, legal := h2.legal
        once := h2.once, unset := h2.unset, nosmw := h2.nosmw }
  | snc =>
    simp only [Action.pname] at hflag
    have hP1 : PInv buf { e with offers := e.offers ++ [.snc p] } fl :=
      { acc := hP.acc, lenB := hP.lenB, hw := hP.hw, rng := hP.rng, resp := hP.resp
        legal := fun it hit => legal_offers_append buf e.offers _ it (hP.legal it hit) (fun _ _ _ h => by cases h)
        once := hP.once, unset := hP.unset
        nosmw := fun hs q N hmem => by
          rcases List.mem_append.1 hmem with h | h
          · exact hP.nosmw hs q N h
          · simp at h }
    have h2 := pinv_write buf _ fl .snc 0 hP1 hflag (by show Legal _ _ ⟨.snc, 0⟩; simp [Legal])
      (fun _ hs => hP1.nosmw hs)
    exact
      { acc := h2.acc, lenB := h2.lenB, hw := h2.hw, rng := h2.rng, resp := h2.resp, legal := h2.legal
        once := h2.once, unset := h2.unset, nosmw := h2.nosmw }

/-- what holds of a state the parameter loop left by `return` (or that was never touched): the response
    buffer was never overrun and the window sizes are in range -/
structure Loose (e : Ext) : Prop where
  hw : e.hiWater ≤ responseMax
  rng : 8 ≤ e.cmw ∧ e.cmw ≤ 15 ∧ 8 ≤ e.smw ∧ e.smw ≤ 15

theorem PInv.loose {buf e fl} (h : PInv buf e fl) : Loose e := ⟨h.hw, h.rng⟩

theorem paramLoop_inv (buf : Bytes) (ps : List (Nat × Nat)) (e : Ext) (fl : Flags) (hP : PInv buf e fl) :
    (∀ e', paramLoop buf e fl ps = (e', none) → Loose e' ∧ e'.accepted = false) ∧
    (∀ e' fl', paramLoop buf e fl ps = (e', some fl') → PInv buf e' fl') := by
  induction ps generalizing e fl with
  | nil =>
    simp only [paramLoop]
    exact ⟨fun e' h => (by cases h), fun e' fl' h => (by cases h; exact hP)⟩
  | cons q rest ih =>
    obtain ⟨p, l⟩ := q
    simp only [paramLoop]
    cases hc : classify buf fl p l with
    | none =>
      exact ⟨fun e' h => (by cases h; exact ⟨hP.loose, hP.acc⟩), fun e' fl' h => (by cases h)⟩
    | some a => exact ih _ _ (pinv_apply buf e fl p l a hP hc)

theorem paramLoop_elemStart (buf : Bytes) (ps : List (Nat × Nat)) (e : Ext) (fl : Flags) :
    (paramLoop buf e fl ps).1.elemStart = e.elemStart := by
  induction ps generalizing e fl with
  | nil => rfl
  | cons q rest ih =>
    obtain ⟨p, l⟩ := q
    simp only [paramLoop]
    cases hc : classify buf fl p l with
    | none => rfl
    | some a =>
      rw [ih]
      cases a <;> rfl

/-- an accepted state: everything the property says about the response -/
structure Accepted (buf : Bytes) (e : Ext) : Prop where
  hw : e.hiWater ≤ responseMax
  len : e.resp.length + 1 ≤ responseMax
  rng : 8 ≤ e.cmw ∧ e.cmw ≤ 15 ∧ 8 ≤ e.smw ∧ e.smw ≤ 15
  resp : e.resp = extName ++ renderItems e.items
  legal : ∀ it ∈ e.items, Legal buf e.offers it
  once : ∀ n, (names e.items).count n ≤ 1
  smwOk : e.smw ≠ smwUnsupported

theorem finCmw_inv (buf : Bytes) (e : Ext) (fl : Flags) (hP : PInv buf e fl) :
    PInv buf (finCmw e fl) fl ∧ (finCmw e fl).elemStart = e.elemStart := by
  unfold finCmw
  split
  · exact ⟨
      { acc := hP.acc, lenB := hP.lenB, hw := hP.hw
        rng := ⟨by show 8 ≤ cmwDefault; decide, by show cmwDefault ≤ 15; decide, hP.rng.2.2⟩
        resp := hP.resp, legal := hP.legal, once := hP.once, unset := hP.unset, nosmw := hP.nosmw }, rfl⟩
  · exact ⟨hP, rfl⟩

theorem finSmw_inv (buf : Bytes) (e : Ext) (fl0 fl : Flags) (hP : PInv buf e fl) (hs : fl.smw = fl0.smw) :
    (∃ fl', PInv buf (finSmw e fl0) fl' ∧ fl'.cnc = fl.cnc ∧ fl'.snc = fl.snc) ∧
    (finSmw e fl0).elemStart = e.elemStart := by
  unfold finSmw
  split
  · rename_i hc
    have hs' : fl.smw = false := by
      rw [hs]; cases hh : fl0.smw <;> simp [hh] at hc ⊢
    refine ⟨⟨fl.set .smw, pinv_write buf e fl .smw e.smw hP hs' ?_ (fun h => absurd rfl h), rfl, rfl⟩, rfl⟩
    exact ⟨hP.rng.2.2.1, hP.rng.2.2.2, fun p N hm => absurd hm (hP.nosmw hs' p N)⟩
  · exact ⟨⟨fl, hP, rfl, rfl⟩, rfl⟩

theorem finCnc_inv (buf : Bytes) (e : Ext) (fl0 fl : Flags) (hP : PInv buf e fl) (hs : fl.cnc = fl0.cnc) :
    (∃ fl', PInv buf (finCnc e fl0) fl' ∧ fl'.snc = fl.snc) ∧ (finCnc e fl0).elemStart = e.elemStart := by
  unfold finCnc
  split
  · rename_i hc
    have hs' : fl.cnc = false := by
      rw [hs]; cases hh : fl0.cnc <;> simp [hh] at hc ⊢
    refine ⟨⟨fl.set .cnc, pinv_write buf e fl .cnc 0 hP hs' (by show Legal _ _ ⟨.cnc, 0⟩; simp [Legal])
      (fun _ hsm => hP.nosmw hsm), rfl⟩, rfl⟩
  · exact ⟨⟨fl, hP, rfl⟩, rfl⟩

theorem finSnc_inv (buf : Bytes) (e : Ext) (fl0 fl : Flags) (hP : PInv buf e fl) (hs : fl.snc = fl0.snc) :
    (∃ fl', PInv buf (finSnc e fl0) fl') ∧ (finSnc e fl0).elemStart = e.elemStart := by
  unfold finSnc
  split
  · rename_i hc
    have hs' : fl.snc = false := by
      rw [hs]; cases hh : fl0.snc <;> simp [hh] at hc ⊢
    exact ⟨⟨fl.set .snc, pinv_write buf e fl .snc 0 hP hs' (by show Legal _ _ ⟨.snc, 0⟩; simp [Legal])
      (fun _ hsm => hP.nosmw hsm)⟩, rfl⟩
  · exact ⟨⟨fl, hP⟩, rfl⟩

theorem finAccept_accepted (buf : Bytes) (e : Ext) (fl : Flags) (hP : PInv buf e fl) :
    Accepted buf (finAccept e) ∧ (finAccept e).accepted = true ∧ (finAccept e).elemStart = e.elemStart := by
  have hB := budget_le fl
  have hl := hP.lenB
  have hw := hP.hw
  unfold finAccept
  split
  · refine ⟨
      { hw := ?_, len := ?_
        rng := ⟨hP.rng.1, hP.rng.2.1, by show 8 ≤ smwReplacement; decide, by show smwReplacement ≤ 15; decide⟩
        resp := hP.resp
        legal := hP.legal, once := hP.once, smwOk := by show smwReplacement ≠ smwUnsupported; decide }, rfl, rfl⟩
    · show max e.hiWater (e.resp.length + 1) ≤ responseMax; omega
    · show e.resp.length + 1 ≤ responseMax; omega
  · rename_i hne
    refine ⟨
      { hw := ?_, len := ?_, rng := hP.rng, resp := hP.resp, legal := hP.legal, once := hP.once
        smwOk := by
          show e.smw ≠ smwUnsupported
          intro h; exact hne (by simp [h]) }, rfl, rfl⟩
    · show max e.hiWater (e.resp.length + 1) ≤ responseMax; omega
    · show e.resp.length + 1 ≤ responseMax; omega

theorem finalize_accepted (buf : Bytes) (e : Ext) (fl : Flags) (hP : PInv buf e fl) :
    Accepted buf (finalize e fl) ∧ (finalize e fl).accepted = true ∧
    (finalize e fl).elemStart = e.elemStart := by
  obtain ⟨h1, s1⟩ := finCmw_inv buf e fl hP
  obtain ⟨⟨fl2, h2, c2, n2⟩, s2⟩ := finSmw_inv buf (finCmw e fl) fl fl h1 rfl
  obtain ⟨⟨fl3, h3, n3⟩, s3⟩ := finCnc_inv buf (finSmw (finCmw e fl) fl) fl fl2 h2 c2
  obtain ⟨⟨fl4, h4⟩, s4⟩ := finSnc_inv buf (finCnc (finSmw (finCmw e fl) fl) fl) fl fl3 h3 (by rw [n3, n2])
  obtain ⟨a, b, c⟩ := finAccept_accepted buf _ fl4 h4
  exact ⟨a, b, by unfold finalize; rw [c, s4, s3, s2, s1]⟩

/-! ### one element, the whole header value -/

/-- what holds of the negotiation state between elements -/
def Between (mem : Bytes) (e : Ext) : Prop :=
  Loose e ∧ (e.accepted = true → Accepted (mem.drop e.elemStart) e)

theorem fill_between (mem : Bytes) (e : Ext) (start n : Nat) (h : Between mem e) :
    Between mem (fill e (mem.drop start) n start) := by
  unfold fill
  split
  · exact h
  · rename_i hna
    have hacc : e.accepted = false := by
      cases hh : e.accepted <;> simp [hh] at hna ⊢
    split
    · exact h
    · rename_i sp _
      split
      · -- the element names the extension: the response is restarted
        have hP0 : PInv (mem.drop start)
            { e with resp := extName, items := [], offers := [], elemStart := start,
                     hiWater := max e.hiWater extName.length } ⟨false, false, false, false⟩ :=
          { acc := hacc
            lenB := by simp [budget]
            hw := by
              show max e.hiWater extName.length ≤ responseMax
              have := h.1.hw
              have : extName.length ≤ responseMax := by decide
              omega
            rng := h.1.rng
            resp := by simp [renderItems]
            legal := fun it hit => by simp at hit
            once := fun n => by simp [names]
            unset := fun n _ => by simp [names]
            nosmw := fun _ p N hm => by simp at hm }
        have hl := paramLoop_inv (mem.drop start) sp.params _ _ hP0
        have hes := paramLoop_elemStart (mem.drop start) sp.params
          { e with resp := extName, items := [], offers := [], elemStart := start,
                   hiWater := max e.hiWater extName.length } ⟨false, false, false, false⟩
        split
        · rename_i e' heq
          have := hl.1 e' heq
          exact ⟨this.1, fun ha => by rw [this.2] at ha; cases ha⟩
        · rename_i e' fl' heq
          have hP' := hl.2 e' fl' heq
          obtain ⟨a, b, c⟩ := finalize_accepted (mem.drop start) e' fl' hP'
          rw [heq] at hes
          have hst : (finalize e' fl').elemStart = start := by rw [c]; exact hes
          refine ⟨⟨a.hw, a.rng⟩, fun _ => ?_⟩
          rw [hst]
          exact a
      · exact h

/-- `scanComma` stays inside the element -/
theorem scanComma_le (mem : Bytes) (start n : Nat) : scanComma mem start n ≤ n := by
  induction n generalizing start with
  | zero => simp [scanComma]
  | succ k ih =>
    simp only [scanComma]
    split
    · omega
    · have := ih (start + 1); omega

theorem extLoop_between (mem : Bytes) (fuel start length : Nat) (e : Ext) (h : Between mem e) :
    Between mem (extLoop mem fuel start length e) := by
  induction fuel generalizing start length e with
  | zero => exact h
  | succ k ih =>
    simp only [extLoop]
    split
    · exact h
    · split
      · split
        · exact ih _ _ _ (fill_between mem e start _ h)
        · exact fill_between mem e start _ h
      · exact ih _ _ _ h

theorem init_loose (level : Nat) (hl : level < 4) : Loose (Ext.init level) := by
  have : level = 0 ∨ level = 1 ∨ level = 2 ∨ level = 3 := by omega
  rcases this with h | h | h | h <;> subst h <;> exact ⟨by decide, by decide⟩

theorem negotiate_between (level : Nat) (hl : level < 4) (mem : Bytes) (length : Nat) :
    Between mem (negotiate level mem length) := by
  unfold negotiate checkExtensions
  exact extLoop_between mem _ _ _ _ ⟨init_loose level hl, fun h => by simp [Ext.init] at h⟩

end Cjet.Deflate
