/-
  DaemonC14Run — histories: a timer id is destroyed at most once over a whole run, and the id of a
  resolved routing entry is never stored again, so replies that arrive after the final answer find
  nothing.
-/
import Cjet.Lemmas.DaemonC03Close

namespace Cjet.Daemon.C14

open Cjet Cjet.Json Cjet.Daemon Cjet.Daemon.C03

/-! ## the timer log of a run -/

/-- timer observations of a run, newest first, on top of an earlier log -/
def runLog : List (List Obs) → List Obs → List Obs
  | [], L => L
  | o :: os, L => runLog os (tobs o.reverse ++ L)

theorem destroyed_runLog (os : List (List Obs)) (L : List Obs) :
    destroyed (runLog os L) = (os.flatten.filterMap destroyedOf).reverse ++ destroyed L := by
  induction os generalizing L with
  | nil => simp [runLog]
  | cons o t ih =>
    rw [runLog, ih, destroyed_append, destroyed_tobs, List.filterMap_reverse]
    simp [List.filterMap_append, List.reverse_append, List.append_assoc]

theorem rsS_addLog (s : State) (L : List Obs) : (rsS s []).addLog L = rsS s L := by
  simp [rsS, RS.addLog]

theorem rsS_addLog' (s : State) (l L : List Obs) : (rsS s l).addLog L = rsS s (l ++ L) := by
  simp [rsS, RS.addLog]

theorem dinv_step (cfg : Config) (s : State) (op : Op) (log : List Obs) (hw : RoutesWf s)
    (h : DInv (rsS s log)) : DInv (rsS (step cfg s op).1 (tobs (step cfg s op).2.reverse ++ log)) := by
  obtain ⟨ls, _, hs⟩ := sim_step cfg s op hw
  have := steps_addLog log hs
  rw [rsS_addLog, rsS_addLog'] at this
  exact dinv_steps this hw h

theorem dinv_run (cfg : Config) (ops : List Op) (s : State) (log : List Obs) (hw : RoutesWf s)
    (h : DInv (rsS s log)) : DInv (rsS (run cfg s ops).1 (runLog (run cfg s ops).2 log)) := by
  induction ops generalizing s log with
  | nil => exact h
  | cons op rest ih =>
    exact ih _ _ (routesWf_step cfg s op hw) (dinv_step cfg s op log hw h)

theorem dinv_init (us : List User) : DInv (rsS { users := us } []) :=
  ⟨by simp [rsS], by simp [rsS]⟩

/-- over a whole run from the initial state, no timer id is destroyed twice -/
theorem destroy_once_run (cfg : Config) (us : List User) (ops : List Op) :
    ((run cfg { users := us } ops).2.flatten.filterMap destroyedOf).Nodup := by
  have h := (dinv_run cfg ops _ [] (routesWf_init us) (dinv_init us)).once
  simp only [rsS] at h
  rw [destroyed_runLog] at h
  simp only [destroyed_nil, List.append_nil] at h
  have := nodup_reverse' h
  rwa [List.reverse_reverse] at this

/-! ## entries of the past -/

/-- every entry after a step is an old one, or carries the counter value of the moment it was made -/
theorem routes_after_app {l : Lbl} {a : RS} (hp : Pre l a) (hr : a.Rids) {r : Route}
    (h : r ∈ vRoutes (app l a).V) : r ∈ vRoutes a.V ∨ uuidSeg r.rid = hexDigits a.uuid := by
  cases l with
  | tick => exact Or.inl h
  | full => exact Or.inl h
  | issue r' tns =>
    rcases mem_vRoutes_vAdd h with h | rfl
    · exact Or.inl h
    · exact Or.inr (Fresh.uuidSeg hp hr)
  | issueFail r' tns => exact Or.inl (mem_vRoutes_vRemove_vAdd h)
  | drop o r' => exact Or.inl ((vRoutes_vRemove_sublist _ _ _).subset h)
  | close c => exact Or.inl ((vRoutes_vClose_sublist _ _).subset h)
  | connect c addr =>
    have e : vRoutes (a.V ++ [⟨c, addr, []⟩]) = vRoutes a.V := by rw [vRoutes_append]; simp [vRoutes]
    rw [show (app (.connect c addr) a).V = a.V ++ [⟨c, addr, []⟩] from rfl, e] at h
    exact Or.inl h

theorem routes_after_steps {ls : List Lbl} {a b : RS} (hs : Steps ls a b) (hw : a.Wf) (hr : a.Rids)
    (hb : a.uuid + ticksOf ls < 4294967296) (hconn : ∀ c addr, Lbl.connect c addr ∈ ls → AddrOk addr)
    {r : Route} (h : r ∈ vRoutes b.V) :
    r ∈ vRoutes a.V ∨ ∃ u, a.uuid ≤ u ∧ uuidSeg r.rid = hexDigits u := by
  induction ls generalizing a with
  | nil => cases hs; exact Or.inl h
  | cons l t ih =>
    rw [ticksOf_cons] at hb
    have h1 := rids_app hs.1 hw hr (by omega) (fun c addr e => hconn c addr (e ▸ List.mem_cons_self ..))
    rcases ih hs.2 (wf_app hs.1 hw) h1.1 (by rw [h1.2]; omega)
      (fun c addr hm => hconn c addr (List.mem_cons_of_mem _ hm)) with h2 | ⟨u, hu, hseg⟩
    · rcases routes_after_app hs.1 hr h2 with h3 | h3
      · exact Or.inl h3
      · exact Or.inr ⟨a.uuid, Nat.le_refl _, h3⟩
    · exact Or.inr ⟨u, by rw [h1.2] at hu; omega, hseg⟩

/-- `rid` was generated in the past and is stored nowhere -/
def RidDeadS (s : State) (rid : Bytes) : Prop := RidDead (rsS s []) rid

theorem ridDead_steps {ls : List Lbl} {a b : RS} {rid : Bytes} (hs : Steps ls a b) (hw : a.Wf) (hr : a.Rids)
    (hb : a.uuid + ticksOf ls < 4294967296) (hconn : ∀ c addr, Lbl.connect c addr ∈ ls → AddrOk addr)
    (h : RidDead a rid) : RidDead b rid := by
  induction ls generalizing a with
  | nil => cases hs; exact h
  | cons l t ih =>
    rw [ticksOf_cons] at hb
    have h1 := rids_app hs.1 hw hr (by omega) (fun c addr e => hconn c addr (e ▸ List.mem_cons_self ..))
    exact ih hs.2 (wf_app hs.1 hw) h1.1 (by rw [h1.2]; omega)
      (fun c addr hm => hconn c addr (List.mem_cons_of_mem _ hm)) (ridDead_app hs.1 hr (by omega) h)

theorem ridDead_step (cfg : Config) (s : State) (op : Op) (rid : Bytes) (hw : RoutesWf s) (hr : RidsWf s)
    (hok : OpOk op) (hb : s.uuid + opWeight op < 4294967296) (h : RidDeadS s rid) :
    RidDeadS (step cfg s op).1 rid := by
  obtain ⟨ls, hl, hs⟩ := sim_step cfg s op hw
  have ht := opLbls_ticks hl
  have := ridDead_steps hs hw hr (by show s.uuid + _ < _; omega) (opLbls_connect hl hok) h
  exact this

theorem ridDead_run (cfg : Config) (ops : List Op) (s : State) (rid : Bytes) (hw : RoutesWf s) (hr : RidsWf s)
    (hok : ∀ op ∈ ops, OpOk op) (hb : s.uuid + runWeight ops < 4294967296) (h : RidDeadS s rid) :
    RidDeadS (run cfg s ops).1 rid := by
  induction ops generalizing s with
  | nil => exact h
  | cons op rest ih =>
    have hrw : runWeight (op :: rest) = opWeight op + runWeight rest := by simp [runWeight]
    have hb' : s.uuid + (opWeight op + runWeight rest) < 4294967296 := by rw [← hrw]; exact hb
    have hop := hok op (List.mem_cons_self ..)
    obtain ⟨h1, h2⟩ := ridsWf_step cfg s op hw hr hop (by omega)
    have hwf1 := routesWf_step cfg s op hw
    have hdead := ridDead_step cfg s op rid hw hr hop (by omega) h
    show RidDeadS (run cfg (step cfg s op).1 rest).1 rid
    generalize (step cfg s op).1 = s1 at h1 h2 hwf1 hdead ⊢
    exact ih s1 hwf1 h1 (fun o ho => hok o (List.mem_cons_of_mem _ ho)) (by omega) hdead

/-- the id of an entry that an operation removed is dead afterwards -/
theorem resolved_is_dead (cfg : Config) (s : State) (op : Op) (r : Route) (hw : RoutesWf s) (hr : RidsWf s)
    (hok : OpOk op) (hb : s.uuid + opWeight op < 4294967296) (hin : Stored s r)
    (hgone : ¬ Stored (step cfg s op).1 r) : RidDeadS (step cfg s op).1 r.rid := by
  obtain ⟨ls, hl, hs⟩ := sim_step cfg s op hw
  have ht := opLbls_ticks hl
  have hbt : s.uuid + ticksOf ls < 4294967296 := by omega
  have hconn := opLbls_connect hl hok
  have hmem : r ∈ vRoutes (s.peers.map pview) := vTable_subset_vRoutes ((stored_iff s r).mp hin)
  obtain ⟨u, hu, hseg⟩ := hr.issued r hmem
  obtain ⟨hr', huu⟩ := rids_steps hs hw hr hbt hconn
  have hw' := wf_steps hs hw
  refine ⟨⟨u, ?_, hseg⟩, ?_⟩
  · have : (rsS (step cfg s op).1 []).uuid = s.uuid + ticksOf ls := huu
    show u < (step cfg s op).1.uuid
    have h2 : (step cfg s op).1.uuid = s.uuid + ticksOf ls := this
    omega
  · intro r' hr'mem e
    rcases routes_after_steps hs hw hr hbt hconn hr'mem with hold | ⟨u', hu', hseg'⟩
    · have : r' = r := eq_of_nodup_map _ hr.rids hold hmem e
      subst this
      exact hgone ((stored_iff _ _).mpr (hw'.mem_table hr'mem))
    · rw [e, hseg] at hseg'
      have := hexDigits_inj hseg'
      have h3 : u < s.uuid := hu
      have h4 : s.uuid ≤ u' := hu'
      omega

/-- a routing response carrying a dead id does nothing, whoever sends it -/
theorem reply_to_dead_ignored (cfg : Config) (s : State) (c : Nat) (orc : Oracle) (members : List (Bytes × Json))
    (payload : Json) (typ : String) (rid : Bytes) (hdead : RidDeadS s rid)
    (hresp : IsResponse (.obj members) payload typ)
    (hid : (Json.obj members).getItem (k "id") = some (.str rid)) :
    step cfg s (.message c (some (.obj members)) orc) = (s, []) := by
  cases hp : findPeer s.peers c with
  | none =>
    rw [step_message]
    simp [hp]
  | some p =>
    apply step_reply_miss cfg s c orc members payload typ rid p hp hresp hid
    intro r hrp
    apply hdead.2 r
    show r ∈ vRoutes (s.peers.map pview)
    rw [vRoutes_map_pview]
    exact List.mem_flatMap.mpr ⟨p, findPeer_mem hp, hrp⟩

end Cjet.Daemon.C14
