/-
  C01 — a small concrete scenario and Bool-valued checks for the non-vacuity examples of
  Props/C01 (JSON values have no decidable equality, so membership facts are obtained from
  Bool checks that the kernel evaluates).
  Peer 2 owns state "a"; peer 1 fetches everything with fetch id 1.
-/
import Cjet.Lemmas.DaemonC01Run

namespace Cjet.Daemon.C01.Ex

open Cjet Cjet.Json Cjet.Daemon

def cfg : Config := {}

def n (i : Int) : Json := .num ⟨0, i⟩

def addA : List (Bytes × Json) :=
  [(k "method", .str (k "add")), (k "params", .obj [(k "path", .str [0x61]), (k "value", n 1)]), (k "id", n 10)]

def fetch1 : List (Bytes × Json) :=
  [(k "method", .str (k "fetch")), (k "params", .obj [(k "id", n 1)]), (k "id", n 11)]

def changeA : List (Bytes × Json) :=
  [(k "method", .str (k "change")), (k "params", .obj [(k "path", .str [0x61]), (k "value", n 2)]), (k "id", n 12)]

def unfetch1 : List (Bytes × Json) :=
  [(k "method", .str (k "unfetch")), (k "params", .obj [(k "id", n 1)]), (k "id", n 13)]

/-- two peers connect, peer 2 adds state "a" -/
def ops0 : List Op :=
  [.connect 1 false true [0x41], .connect 2 false true [0x42], .message 2 (some (.obj addA)) {}]

def opFetch : Op := .message 1 (some (.obj fetch1)) {}

/-- … and peer 1 fetches -/
def ops1 : List Op := ops0 ++ [opFetch]

def opChange : Op := .message 2 (some (.obj changeA)) {}

/-! ## Bool checks -/

/-- equality of two fetches with string/number ids and the empty rule -/
def fetchEqB (f g : Fetch) : Bool :=
  f.uid == g.uid && f.rule.isEmpty && g.rule.isEmpty &&
  (match f.fid, g.fid with
   | .num a, .num b => a == b
   | .str a, .str b => a == b
   | _, _ => false)

theorem fetchEqB_eq {f g : Fetch} (h : fetchEqB f g = true) : f = g := by
  cases f with
  | mk fu ff fr =>
    cases g with
    | mk gu gf gr =>
      unfold fetchEqB at h
      simp only [Bool.and_eq_true, beq_iff_eq, List.isEmpty_iff] at h
      obtain ⟨⟨⟨h1, h2⟩, h3⟩, h4⟩ := h
      subst h1 h2 h3
      cases ff <;> cases gf <;> simp_all

/-- some fetch of `s` is a fetch of the same connection in `s'` -/
def sameFetchB (s s' : State) : Bool :=
  s.peers.any (fun p => p.fetches.any (fun f =>
    s'.peers.any (fun p' => p'.conn == p.conn && p'.fetches.any (fetchEqB f))))

theorem sameFetch_exists {s s' : State} (h : sameFetchB s s' = true) :
    ∃ p f p', p ∈ s.peers ∧ f ∈ p.fetches ∧ p' ∈ s'.peers ∧ p'.conn = p.conn ∧ f ∈ p'.fetches := by
  unfold sameFetchB at h
  obtain ⟨p, hp, h⟩ := List.any_eq_true.1 h
  obtain ⟨f, hf, h⟩ := List.any_eq_true.1 h
  obtain ⟨p', hp', h⟩ := List.any_eq_true.1 h
  simp only [Bool.and_eq_true, beq_iff_eq] at h
  obtain ⟨g, hg, he⟩ := List.any_eq_true.1 h.2
  have := fetchEqB_eq he
  subst this
  exact ⟨p, f, p', hp, hf, hp', h.1, hg⟩

/-- connection `c` has no fetch in `s` -/
def noFetchesB (s : State) (c : Nat) : Bool :=
  s.peers.all (fun p => p.conn != c || p.fetches.isEmpty)

theorem noFetches {s : State} {c : Nat} (h : noFetchesB s c = true) (f : Fetch) : ¬ HasFetch s c f := by
  rintro ⟨p, hp, hc, hf⟩
  unfold noFetchesB at h
  have := List.all_eq_true.1 h p hp
  simp only [Bool.or_eq_true, bne_iff_ne, ne_eq, List.isEmpty_iff] at this
  rcases this with h1 | h1
  · exact h1 hc
  · rw [h1] at hf; cases hf

/-- some fetch of connection `c` in `s` is a fetch of connection `c` in `s'` -/
def sameFetchAtB (s s' : State) (c : Nat) : Bool :=
  s.peers.any (fun p => p.conn == c && p.fetches.any (fun f =>
    s'.peers.any (fun p' => p'.conn == c && p'.fetches.any (fetchEqB f))))

theorem install_exists {s1 s2 s3 : State} {c : Nat} (h1 : noFetchesB s1 c = true)
    (h2 : sameFetchAtB s2 s3 c = true) :
    ∃ f p3, ¬ HasFetch s1 c f ∧ HasFetch s2 c f ∧ p3 ∈ s3.peers ∧ p3.conn = c ∧ f ∈ p3.fetches := by
  unfold sameFetchAtB at h2
  obtain ⟨p, hp, h⟩ := List.any_eq_true.1 h2
  simp only [Bool.and_eq_true, beq_iff_eq] at h
  obtain ⟨f, hf, h'⟩ := List.any_eq_true.1 h.2
  obtain ⟨p', hp', h''⟩ := List.any_eq_true.1 h'
  simp only [Bool.and_eq_true, beq_iff_eq] at h''
  obtain ⟨g, hg, he⟩ := List.any_eq_true.1 h''.2
  have := fetchEqB_eq he
  subst this
  exact ⟨f, p', noFetches h1 f, ⟨p, hp, h.1, hf⟩, hp', h''.1, hg⟩

/-- connection `c` has some fetch in `s` -/
def hasAnyFetchB (s : State) (c : Nat) : Bool :=
  s.peers.any (fun p => p.conn == c && !p.fetches.isEmpty)

theorem alive_exists {s s' : State} {c : Nat} (h1 : noFetchesB s c = true) (h2 : hasAnyFetchB s' c = true) :
    ∃ pg f, ¬ HasFetch s c f ∧ Alive s' c pg f := by
  unfold hasAnyFetchB at h2
  obtain ⟨p, hp, h⟩ := List.any_eq_true.1 h2
  simp only [Bool.and_eq_true, beq_iff_eq, Bool.not_eq_true', List.isEmpty_eq_false_iff] at h
  cases hf : p.fetches with
  | nil => exact absurd hf h.2
  | cons f t => exact ⟨p.fetchGroups, f, noFetches h1 f, p, hp, h.1, rfl, by rw [hf]; exact List.mem_cons_self⟩

/-- the request is an unfetch-style request whose fetch id names a fetch of connection `c` -/
def unfetchOkB (s : State) (req : Json) (c : Nat) : Bool :=
  match getFetchId req false with
  | .ok _ fid => s.peers.any (fun p => p.conn == c && p.fetches.any (fun g => idsEqual g.fid fid))
  | .err _ => false

theorem hasFid_exists {s : State} {req : Json} {c : Nat} (h : unfetchOkB s req c = true) :
    ∃ p params fid, p ∈ s.peers ∧ getFetchId req false = .ok params fid ∧ HasFid s p.conn fid := by
  unfold unfetchOkB at h
  split at h
  · next params fid hid =>
    obtain ⟨p, hp, h'⟩ := List.any_eq_true.1 h
    simp only [Bool.and_eq_true, beq_iff_eq] at h'
    obtain ⟨g, hg, hi⟩ := List.any_eq_true.1 h'.2
    exact ⟨p, params, fid, hp, hid, p, hp, rfl, g, hg, hi⟩
  · cases h

/-- connection `c` has a fetch whose id equals `fid` -/
def hasFidB (s : State) (c : Nat) (fid : Json) : Bool :=
  s.peers.any (fun p => p.conn == c && p.fetches.any (fun g => idsEqual g.fid fid))

theorem hasFid_of_bool {s : State} {c : Nat} {fid : Json} (h : hasFidB s c fid = true) : HasFid s c fid := by
  unfold hasFidB at h
  obtain ⟨p, hp, h'⟩ := List.any_eq_true.1 h
  simp only [Bool.and_eq_true, beq_iff_eq] at h'
  obtain ⟨g, hg, hi⟩ := List.any_eq_true.1 h'.2
  exact ⟨p, hp, h'.1, g, hg, hi⟩

/-- peer 1 sends the batch [fetch 1, unfetch 1, fetch 1] -/
def opBatch : Op := .message 1 (some (.arr [.obj fetch1, .obj unfetch1, .obj fetch1])) {}

/-- some fetch of connection `c` in `s'` whose notifications in `obs` do NOT replay -/
def replayFailsB (s' : State) (c : Nat) (obs : List Obs) : Bool :=
  s'.peers.any (fun p => p.conn == c && p.fetches.any (fun f => (replay (notifsFor c f.fid obs)).isNone))

theorem coarse_exists {s s' : State} {c : Nat} {obs : List Obs} (h1 : noFetchesB s c = true)
    (h2 : replayFailsB s' c obs = true) :
    ∃ f, ¬ HasFetch s c f ∧ HasFetch s' c f ∧ replay (notifsFor c f.fid obs) = none := by
  unfold replayFailsB at h2
  obtain ⟨p, hp, h⟩ := List.any_eq_true.1 h2
  simp only [Bool.and_eq_true, beq_iff_eq] at h
  obtain ⟨f, hf, hn⟩ := List.any_eq_true.1 h.2
  refine ⟨f, noFetches h1 f, ⟨p, hp, h.1, hf⟩, ?_⟩
  cases hr : replay (notifsFor c f.fid obs) with
  | none => rfl
  | some r => simp [hr] at hn

end Cjet.Daemon.C01.Ex
