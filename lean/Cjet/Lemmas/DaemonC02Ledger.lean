/-
  C02 helper lemmas, part 10: the ledger.  Every response object the daemon sends is paid for
  either by an answerable request object received in the same operation or by a routing record
  that owes an answer and leaves the tables in the same operation.
-/
import Cjet.Lemmas.DaemonC02Final

namespace Cjet.Daemon.C02

open Cjet Cjet.Json Cjet.Daemon

/-- decidable form of `RequestLike` -/
def requestLikeB (m : Json) : Bool := has m "method" || (!has m "result" && !has m "error")

theorem requestLikeB_iff {m : Json} : requestLikeB m = true ↔ RequestLike m := by
  unfold requestLikeB RequestLike has
  cases h1 : m.getItem (k "method") <;> cases h2 : m.getItem (k "result") <;>
    cases h3 : m.getItem (k "error") <;> simp

/-- 1 for a request-like object with a string/number id, else 0 -/
def reqN (m : Json) : Nat := if requestLikeB m then ansN m else 0

/-- Ledger for one object. -/
theorem parseJsonRpc_ledger (cfg : Config) (x : Ctx) (c : Nat) (req : Json) (hn : (conns x.st.peers).Nodup) :
    ∃ new, (parseJsonRpc cfg x c req).1.out = new ++ x.out ∧
      respCount new + pendingA (parseJsonRpc cfg x c req).1.st.peers ≤ pendingA x.st.peers + reqN req := by
  cases hp : findPeer x.st.peers c with
  | none =>
    refine ⟨[], ?_, ?_⟩
    · simp [parseJsonRpc, hp]
    · simp only [parseJsonRpc, hp, respCount]; omega
  | some p =>
    rcases requestLike_or_response req with hreq | ⟨hm, hre⟩
    · obtain ⟨⟨pre, fin, hout, _, _, hcount⟩, _⟩ := parseJsonRpc_request cfg x c p req hp hreq
      refine ⟨fin ++ pre, hout, ?_⟩
      have := hcount hn
      simp only [reqN, requestLikeB_iff.2 hreq, if_true]
      exact this
    · obtain ⟨typ, payload, _, _, heq⟩ := parseJsonRpc_response cfg x c p req hp hm hre
      rw [heq]
      have hspec := routingResponse_spec x p req payload typ
      dsimp only at hspec
      rcases hspec with ⟨hres, _⟩ | ⟨_, rid, hid, ⟨hres, _⟩ | ⟨r, hf, hst, hcase⟩⟩
      · rw [hres]; exact ⟨[], rfl, by simp only [respCount]; omega⟩
      · rw [hres]; exact ⟨[], rfl, by simp only [respCount]; omega⟩
      · have hrid : r.rid = rid := by simpa using List.find?_some hf
        have hmem : r ∈ p.routes := List.mem_of_find?_eq_some hf
        have hpeers : (routingResponse x p req payload typ).1.st.peers = removeRoute x.st.peers p.conn rid := by
          rw [hst]
        rcases hcase with ⟨hout, _⟩ | ⟨oid, ho, hok, hout⟩
        · refine ⟨[.timerDestroy r.timer], hout, ?_⟩
          rw [hpeers]
          have := pendingA_removeRoute_le x.st.peers p.conn rid
          simp only [respCount]; omega
        · refine ⟨[.send r.requester (.obj [(k "id", oid), (k typ, payload)]) (x.sends.headD true),
            .timerDestroy r.timer], by simpa using hout, ?_⟩
          rw [hpeers]
          have ha : routeAnswerable r = true := by simp [routeAnswerable, ho, hok]
          have := pendingA_removeRoute_lt x.st.peers p.conn rid p r (findPeer_mem hp) rfl hmem hrid ha
          have h1 : respCount [Obs.send r.requester (.obj [(k "id", oid), (k typ, payload)]) (x.sends.headD true),
              Obs.timerDestroy r.timer] ≤ 1 := by
            simp only [respCount]; split <;> omega
          omega

theorem parseJsonArray_ledger (cfg : Config) (c : Nat) (l : List Json) (x : Ctx) (hn : (conns x.st.peers).Nodup) :
    ∃ new, (parseJsonArray cfg x c l).1.out = new ++ x.out ∧
      respCount new + pendingA (parseJsonArray cfg x c l).1.st.peers ≤ pendingA x.st.peers + (l.map reqN).sum := by
  induction l generalizing x with
  | nil => exact ⟨[], rfl, by simp [parseJsonArray, respCount]⟩
  | cons m rest ih =>
    cases m with
    | obj lm =>
      obtain ⟨n1, ho1, hl1⟩ := parseJsonRpc_ledger cfg x c (.obj lm) hn
      simp only [parseJsonArray, List.map_cons, List.sum_cons]
      split
      · have hn1 : (conns (parseJsonRpc cfg x c (.obj lm)).1.st.peers).Nodup := by
          rw [parseJsonRpc_conns]; exact hn
        obtain ⟨n2, ho2, hl2⟩ := ih _ hn1
        refine ⟨n2 ++ n1, by rw [ho2, ho1, List.append_assoc], ?_⟩
        rw [respCount_append]
        omega
      · exact ⟨n1, ho1, by dsimp only; omega⟩
    | null | bool _ | num _ | str _ | arr _ =>
      exact ⟨[], by simp [parseJsonArray], by simp [parseJsonArray, respCount]⟩

/-- the answerable request objects a message consists of -/
def msgReqN (msg : Option Json) : Nat := ((members msg).map reqN).sum

theorem parseMessage_ledger (cfg : Config) (c : Nat) (msg : Option Json) (x : Ctx) (hn : (conns x.st.peers).Nodup) :
    ∃ new, (parseMessage cfg x c msg).1.out = new ++ x.out ∧
      respCount new + pendingA (parseMessage cfg x c msg).1.st.peers ≤ pendingA x.st.peers + msgReqN msg := by
  unfold parseMessage msgReqN members
  split
  · exact parseJsonArray_ledger cfg c _ x hn
  · rename_i l
    obtain ⟨n1, ho1, hl1⟩ := parseJsonRpc_ledger cfg x c (.obj l) hn
    exact ⟨n1, ho1, by simpa using hl1⟩
  · exact ⟨[], rfl, by simp only [respCount]; omega⟩

theorem parseMessage_conns (cfg : Config) (c : Nat) (msg : Option Json) (x : Ctx) :
    conns (parseMessage cfg x c msg).1.st.peers = conns x.st.peers := by
  obtain ⟨_, _, hrt, _⟩ := parseMessage_class cfg x.st.peers c msg x (RouteStep.refl ..)
  exact hrt.conns

/-! ## closing a connection -/

theorem clearRoute_count (x : Ctx) (r : Route) (c : Nat) :
    ∃ new, (clearRoute x r c).out = new ++ x.out ∧ respCount new ≤ (if routeAnswerable r = true then 1 else 0) := by
  unfold clearRoute emit
  dsimp only
  split
  · exact ⟨[.timerDestroy r.timer], rfl, by simp [respCount]⟩
  · split
    · exact ⟨[.timerDestroy r.timer], rfl, by simp [respCount]⟩
    · rename_i oid ho
      split
      · rename_i resp hresp
        obtain ⟨rfl, hok⟩ := errorResponse_eq hresp
        refine ⟨[.send r.requester (.obj [(k "id", oid), (k "error", errorObject INTERNAL_ERROR "reason"
          (k "peer shuts down"))]) (x.sends.headD true), .timerDestroy r.timer], by simp [send', send_eq], ?_⟩
        have : routeAnswerable r = true := by simp [routeAnswerable, ho, hok]
        simp only [respCount, this, if_true]
        split <;> omega
      · exact ⟨[.timerDestroy r.timer], rfl, by simp [respCount]⟩

theorem fpr1_count (p : Peer) (c : Nat) (x : Ctx) :
    ∃ new, (fpr1 x p c).out = new ++ x.out ∧ respCount new ≤ p.routes.countP routeAnswerable := by
  unfold fpr1
  generalize p.routes = l
  induction l generalizing x with
  | nil => exact ⟨[], rfl, by simp [respCount]⟩
  | cons r t ih =>
    simp only [List.foldl_cons, List.countP_cons]
    obtain ⟨n1, ho1, hc1⟩ := clearRoute_count x r c
    obtain ⟨n2, ho2, hc2⟩ := ih (clearRoute x r c)
    refine ⟨n2 ++ n1, by rw [ho2, ho1, List.append_assoc], ?_⟩
    rw [respCount_append]
    omega

theorem frame_notif_count {x y : Ctx} (h : Frame IsNotif x y) : ∃ new, y.out = new ++ x.out ∧ respCount new = 0 := by
  obtain ⟨⟨new, ho, hp⟩, _⟩ := h
  exact ⟨new, ho, respCount_of_method (fun o hm => obsNotif_obsMethod (hp o hm))⟩

theorem pendingA_eq_routesMap (ps : List Peer) :
    pendingA ps = ((routesMap ps).map (fun e => e.2.countP routeAnswerable)).sum := by
  simp [pendingA, routesMap, List.map_map, Function.comp_def]

theorem pending_dropConn (c : Nat) (rm : List (Nat × List Route)) (rs : List Route) (h : (c, rs) ∈ rm) :
    ((dropConn c rm).map (fun e => e.2.countP routeAnswerable)).sum + rs.countP routeAnswerable ≤
      (rm.map (fun e => e.2.countP routeAnswerable)).sum := by
  have hle : ∀ l : List (Nat × List Route), ((dropConn c l).map (fun e => e.2.countP routeAnswerable)).sum ≤
      (l.map (fun e => e.2.countP routeAnswerable)).sum := by
    intro l
    induction l with
    | nil => exact Nat.le_refl _
    | cons e t ih =>
      unfold dropConn at *
      simp only [List.filter_cons, List.map_cons, List.sum_cons]
      split
      · simp only [List.map_cons, List.sum_cons]
        have := countP_filter_le routeAnswerable (fun r => r.requester != c) e.2
        omega
      · omega
  induction rm with
  | nil => cases h
  | cons e t ih =>
    rcases List.mem_cons.1 h with rfl | h
    · have := hle t
      unfold dropConn at *
      simp only [List.filter_cons, bne_self_eq_false, Bool.false_eq_true, if_false, List.map_cons, List.sum_cons]
      omega
    · have := ih h
      unfold dropConn at *
      simp only [List.filter_cons, List.map_cons, List.sum_cons]
      split
      · simp only [List.map_cons, List.sum_cons]
        have := countP_filter_le routeAnswerable (fun r => r.requester != c) e.2
        omega
      · omega

theorem freePeerResources_ledger (x : Ctx) (c : Nat) :
    ∃ new, (freePeerResources x c).out = new ++ x.out ∧
      respCount new + pendingA (freePeerResources x c).st.peers ≤ pendingA x.st.peers := by
  cases hp : findPeer x.st.peers c with
  | none => rw [freePeerResources_none hp]; exact ⟨[], rfl, by simp [respCount]⟩
  | some p =>
    have hrm := (freePeerResources_spec hp).2
    rw [freePeerResources_eq hp] at hrm ⊢
    obtain ⟨n1, ho1, hc1⟩ := fpr1_count p c x
    obtain ⟨n3, ho3, hc3⟩ := frame_notif_count (fpr3_frame (fpr2 (fpr1 x p c) c) c)
    obtain ⟨n6, ho6, hc6⟩ := frame_notif_count (fpr6_frame (fpr5 (fpr4 (fpr3 (fpr2 (fpr1 x p c) c) c) c) c) p c)
    refine ⟨n6 ++ n3 ++ n1, ?_, ?_⟩
    · show (fpr6 (fpr5 (fpr4 (fpr3 (fpr2 (fpr1 x p c) c) c) c) c) p c).out = _
      rw [ho6]
      show n6 ++ (fpr3 (fpr2 (fpr1 x p c) c) c).out = _
      rw [ho3]
      show n6 ++ (n3 ++ (fpr1 x p c).out) = _
      rw [ho1]
      simp [List.append_assoc]
    · rw [respCount_append, respCount_append, hc6, hc3, pendingA_eq_routesMap, hrm, pendingA_eq_routesMap]
      have hmem : (c, p.routes) ∈ routesMap x.st.peers := by
        unfold routesMap
        exact List.mem_map.2 ⟨p, findPeer_mem hp, by rw [findPeer_conn hp]⟩
      have := pending_dropConn c _ _ hmem
      omega

theorem conns_dropConn {c : Nat} {ps ps' : List Peer} (hd : routesMap ps' = dropConn c (routesMap ps)) :
    conns ps' = (conns ps).filter (· != c) := by
  have h1 : conns ps' = (routesMap ps').map Prod.fst := by
    simp [conns, routesMap, List.map_map, Function.comp_def]
  have h2 : conns ps = (routesMap ps).map Prod.fst := by
    simp [conns, routesMap, List.map_map, Function.comp_def]
  rw [h1, h2, hd]
  unfold dropConn
  generalize routesMap ps = rm
  induction rm with
  | nil => rfl
  | cons e t ih =>
    simp only [List.filter_cons, List.map_cons]
    split <;> simp [ih]

theorem closePeer_nodup (x : Ctx) (c : Nat) (hn : (conns x.st.peers).Nodup) :
    (conns (closePeer x c).st.peers).Nodup := by
  show (conns (freePeerResources x c).st.peers).Nodup
  cases hp : findPeer x.st.peers c with
  | none => rw [freePeerResources_none hp]; exact hn
  | some p =>
    rw [conns_dropConn (freePeerResources_spec hp).2]
    exact List.Nodup.sublist List.filter_sublist hn

/-! ## operations and runs -/

/-- the invariant the ledger needs: records sit in their owner's table, connection numbers are distinct -/
structure Inv (s : State) : Prop where
  owned : RoutesOwned s.peers
  nodup : (conns s.peers).Nodup

theorem inv_init (us : List User) : Inv { users := us } :=
  ⟨fun p hp => (by cases hp), List.nodup_nil⟩

theorem step_nodup (cfg : Config) (s : State) (op : Op) (h : (conns s.peers).Nodup) :
    (conns (step cfg s op).1.peers).Nodup := by
  cases op with
  | connect c ws isLocal addr =>
    unfold step
    dsimp only
    split
    · exact h
    · rename_i hnf
      simp only [conns, List.map_append, List.map_cons, List.map_nil]
      rw [List.nodup_append]
      refine ⟨h, by simp, ?_⟩
      intro a ha b hb
      simp only [List.mem_singleton] at hb
      subst hb
      intro hab
      subst hab
      have : (findPeer s.peers a).isSome = true := findPeer_isSome_iff.2 ha
      exact hnf this
  | message c msg o =>
    unfold step
    dsimp only
    split
    · exact h
    · have h1 : (conns (parseMessage cfg (mkCtx s o) c msg).1.st.peers).Nodup := by
        rw [parseMessage_conns]; exact h
      split
      · exact h1
      · exact closePeer_nodup _ _ h1
  | disconnect c o =>
    unfold step
    dsimp only
    split
    · exact h
    · exact closePeer_nodup _ _ h
  | timerFire t o =>
    unfold step
    dsimp only
    rcases timeoutFired_spec (mkCtx s o) t with ⟨heq, _⟩ | ⟨r, _, hst, _⟩
    · rw [heq]; exact h
    · rw [hst]
      have := (routeStep_removeRoute (c := 0) s.peers r.owner r.rid).conns
      show (conns (removeRoute s.peers r.owner r.rid)).Nodup
      rw [this]; exact h

theorem step_inv (cfg : Config) (s : State) (op : Op) (h : Inv s) : Inv (step cfg s op).1 :=
  ⟨step_routesOwned cfg s op h.owned, step_nodup cfg s op h.nodup⟩

theorem run_inv (cfg : Config) (ops : List Op) (s : State) (h : Inv s) : Inv (run cfg s ops).1 := by
  induction ops generalizing s with
  | nil => exact h
  | cons op rest ih =>
    simp only [run]
    exact ih _ (step_inv cfg s op h)

/-- the answerable request objects an operation delivers -/
def opReqN : Op → Nat
  | .message _ msg _ => msgReqN msg
  | _ => 0

/-- Ledger for one operation. -/
theorem step_ledger (cfg : Config) (s : State) (op : Op) (h : Inv s) :
    respCount (step cfg s op).2 + pendingA (step cfg s op).1.peers ≤ pendingA s.peers + opReqN op := by
  cases op with
  | connect c ws isLocal addr =>
    unfold step
    dsimp only
    split
    · simp [respCount, opReqN]
    · simp [respCount, opReqN, pendingA]
  | message c msg o =>
    unfold step
    dsimp only
    split
    · simp only [respCount, opReqN]; omega
    · obtain ⟨n1, ho1, hl1⟩ := parseMessage_ledger cfg c msg (mkCtx s o) h.nodup
      have ho1' : (parseMessage cfg (mkCtx s o) c msg).1.out = n1 := by rw [ho1]; exact List.append_nil _
      have hl1' : respCount n1 + pendingA (parseMessage cfg (mkCtx s o) c msg).1.st.peers ≤
          pendingA s.peers + msgReqN msg := hl1
      simp only [opReqN]
      split
      · rw [respCount_reverse, ho1']
        exact hl1'
      · obtain ⟨n2, ho2, hl2⟩ := freePeerResources_ledger (parseMessage cfg (mkCtx s o) c msg).1 c
        rw [respCount_reverse]
        show respCount (Obs.closed c :: (freePeerResources (parseMessage cfg (mkCtx s o) c msg).1 c).out) +
          pendingA (freePeerResources (parseMessage cfg (mkCtx s o) c msg).1 c).st.peers ≤ _
        rw [ho2, ho1']
        simp only [respCount, respCount_append]
        omega
  | disconnect c o =>
    unfold step
    dsimp only
    split
    · simp only [respCount, opReqN]; omega
    · obtain ⟨n2, ho2, hl2⟩ := freePeerResources_ledger (mkCtx s o) c
      rw [respCount_reverse]
      show respCount (Obs.closed c :: (freePeerResources (mkCtx s o) c).out) +
        pendingA (freePeerResources (mkCtx s o) c).st.peers ≤ _
      rw [ho2]
      have hl2' : respCount n2 + pendingA (freePeerResources (mkCtx s o) c).st.peers ≤ pendingA s.peers := hl2
      have : (mkCtx s o).out = [] := rfl
      simp only [this, List.append_nil, respCount, opReqN]
      omega
  | timerFire t o =>
    unfold step
    dsimp only
    simp only [opReqN, respCount_reverse]
    rcases timeoutFired_spec (mkCtx s o) t with ⟨heq, _⟩ | ⟨r, hf, hst, ⟨hout, _⟩ | ⟨oid, ho, hok, hout⟩⟩
    · rw [heq]; simp [mkCtx, respCount]
    · rw [hst, hout]
      have := pendingA_removeRoute_le s.peers r.owner r.rid
      simp only [mkCtx, respCount]
      omega
    · rw [hst, hout]
      have hmem := List.mem_of_find?_eq_some hf
      obtain ⟨p, hp, hrp⟩ := List.mem_flatMap.1 hmem
      have hown : p.conn = r.owner := (h.owned p hp r hrp).symm
      have ha : routeAnswerable r = true := by simp [routeAnswerable, ho, hok]
      have := pendingA_removeRoute_lt s.peers r.owner r.rid p r hp hown hrp rfl ha
      simp only [mkCtx, respCount]
      split <;> omega

/-- response objects sent over a whole run -/
def totalResp (os : List (List Obs)) : Nat := (os.map respCount).sum

/-- Ledger for a run. -/
theorem run_ledger (cfg : Config) (ops : List Op) (s : State) (h : Inv s) :
    totalResp (run cfg s ops).2 + pendingA (run cfg s ops).1.peers ≤ pendingA s.peers + (ops.map opReqN).sum := by
  induction ops generalizing s with
  | nil => simp [run, totalResp]
  | cons op rest ih =>
    have h1 := step_ledger cfg s op h
    have h2 := ih _ (step_inv cfg s op h)
    simp only [run, totalResp, List.map_cons, List.sum_cons] at h2 ⊢
    omega

end Cjet.Daemon.C02
