import Cjet.Hoptable.Spec

/-! Helper lemmas for C17: modular arithmetic with a symbolic table size, slot read/write,
single-bit updates of a hop bitmap, and the lookup loop. -/

namespace Cjet.Hoptable

/-! ### arithmetic modulo a symbolic `N` -/

theorem subWrap_lt {N a b : Nat} (hN : 0 < N) : subWrap N a b < N := Nat.mod_lt _ hN

theorem add_subWrap {N a p : Nat} (ha : a < N) (hp : p < N) : (a + subWrap N p a) % N = p := by
  unfold subWrap
  rw [Nat.add_mod_mod, Nat.mod_eq_of_lt ha]
  have : a + (p + (N - a)) = p + N := by omega
  rw [this, Nat.add_mod_right, Nat.mod_eq_of_lt hp]

theorem subWrap_add {N a b : Nat} (ha : a < N) (hb : b < N) : subWrap N ((a + b) % N) a = b := by
  unfold subWrap
  rw [Nat.mod_add_mod, Nat.mod_eq_of_lt ha]
  have : a + b + (N - a) = b + N := by omega
  rw [this, Nat.add_mod_right, Nat.mod_eq_of_lt hb]

theorem add_mod_inj {N h d d' : Nat} (hh : h < N) (hd : d < N) (hd' : d' < N)
    (e : (h + d) % N = (h + d') % N) : d = d' := by
  have h1 := subWrap_add hh hd
  have h2 := subWrap_add hh hd'
  rw [e] at h1
  omega

/-- `subWrap` undoes a step forward: `(h + fd) - cd = h + (fd - cd)` when `cd ≤ fd`. -/
theorem subWrap_add_le {N h fd cd : Nat} (hcd : cd ≤ fd) (hcdN : cd < N) :
    subWrap N ((h + fd) % N) cd = (h + (fd - cd)) % N := by
  unfold subWrap
  rw [Nat.mod_add_mod, Nat.mod_eq_of_lt hcdN]
  have : h + fd + (N - cd) = h + (fd - cd) + N := by omega
  rw [this, Nat.add_mod_right]

/-- the C computation `(uint32_t)(a - b) & (N - 1)` agrees with `subWrap` when `N` divides 2^32 -/
theorem subWrap_eq_uint32 {order a b : Nat} (ho : order ≤ 32) (_ha : a < 2 ^ order) (hb : b < 2 ^ 32) :
    ((a + 2 ^ 32 - b) % 2 ^ 32) % 2 ^ order = subWrap (2 ^ order) a b := by
  have hdvd : 2 ^ order ∣ 2 ^ 32 := Nat.pow_dvd_pow 2 ho
  rw [Nat.mod_mod_of_dvd _ hdvd]
  unfold subWrap
  obtain ⟨q, hq⟩ := hdvd
  have hpos : 0 < 2 ^ order := Nat.pos_of_ne_zero (by intro h; simp at h)
  have hbm : b % 2 ^ order < 2 ^ order := Nat.mod_lt _ hpos
  have hdiv := Nat.div_add_mod b (2 ^ order)
  -- a + 2^32 - b = a + (N - b % N) + N * (q - 1 - b / N)
  have hbq : b / 2 ^ order < q := by
    apply Nat.div_lt_of_lt_mul
    rw [← hq]; exact hb
  have hmul : 2 ^ order * (b / 2 ^ order) + 2 ^ order * (q - 1 - b / 2 ^ order) + 2 ^ order = 2 ^ order * q := by
    have : b / 2 ^ order + (q - 1 - b / 2 ^ order) + 1 = q := by omega
    calc 2 ^ order * (b / 2 ^ order) + 2 ^ order * (q - 1 - b / 2 ^ order) + 2 ^ order
        = 2 ^ order * (b / 2 ^ order + (q - 1 - b / 2 ^ order) + 1) := by
          rw [Nat.mul_add, Nat.mul_add, Nat.mul_one]
      _ = 2 ^ order * q := by rw [this]
  have e : a + 2 ^ 32 - b = a + (2 ^ order - b % 2 ^ order) + 2 ^ order * (q - 1 - b / 2 ^ order) := by
    omega
  rw [e, Nat.add_mul_mod_self_left]

/-! ### reading and writing slots -/

section
variable {K V : Type} [DecidableEq K] [Inhabited V]

theorem slot_upd (t : Table K V) (i j : Nat) (s : Slot K V) :
    slot (upd t i s) j = if i = j ∧ i < t.size then s else slot t j := by
  unfold slot upd
  rw [Array.getD_eq_getD_getElem?, Array.getD_eq_getD_getElem?, Array.getElem?_setIfInBounds]
  by_cases hij : i = j
  · subst hij
    by_cases hi : i < t.size
    · simp [hi]
    · have : t[i]? = none := by simp; omega
      simp [hi, this]
  · simp [hij]

omit [DecidableEq K] [Inhabited V] in
theorem size_upd (t : Table K V) (i : Nat) (s : Slot K V) : (upd t i s).size = t.size := by
  unfold upd; exact Array.size_setIfInBounds

theorem slot_upd_self {t : Table K V} {i : Nat} {s : Slot K V} (h : i < t.size) :
    slot (upd t i s) i = s := by
  rw [slot_upd]; simp [h]

theorem slot_upd_ne {t : Table K V} {i j : Nat} {s : Slot K V} (h : i ≠ j) :
    slot (upd t i s) j = slot t j := by
  rw [slot_upd]; simp [h]

omit [DecidableEq K] in
theorem slot_empty (N i : Nat) : slot (empty N : Table K V) i = pristine := by
  unfold slot empty
  rw [Array.getD_eq_getD_getElem?, Array.getElem?_replicate]
  by_cases h : i < N <;> simp [h]

omit [DecidableEq K] in
theorem size_empty (N : Nat) : (empty N : Table K V).size = N := by
  unfold empty; simp

end

/-! ### single-bit updates of a bitmap -/

theorem getLsbD_setBit (x : BitVec W) (b j : Nat) :
    (x ||| (1#W <<< b)).getLsbD j = (x.getLsbD j || (decide (j = b) && decide (j < W))) := by
  rw [BitVec.getLsbD_or, BitVec.getLsbD_shiftLeft, BitVec.getLsbD_one]
  by_cases hjb : j = b
  · subst hjb
    by_cases hw : j < W
    · have : 0 < W := by omega
      simp [hw, this]
    · simp [hw]
  · by_cases hlt : j < b
    · simp [hjb, hlt]
    · have : ¬ (j - b = 0) := by omega
      simp [hjb, this]

theorem getLsbD_clearBit (x : BitVec W) (b j : Nat) :
    (x &&& ~~~(1#W <<< b)).getLsbD j = (x.getLsbD j && !decide (j = b)) := by
  rw [BitVec.getLsbD_and, BitVec.getLsbD_not, BitVec.getLsbD_shiftLeft, BitVec.getLsbD_one]
  by_cases hw : j < W
  · have hW : 0 < W := by omega
    by_cases hjb : j = b
    · subst hjb; simp [hw, hW]
    · by_cases hlt : j < b
      · simp [hw, hjb, hlt]
      · have : ¬ (j - b = 0) := by omega
        simp [hw, hjb, this]
  · have : x.getLsbD j = false := BitVec.getLsbD_of_ge x j (by omega)
    simp [this]

theorem getLsbD_lt_W (x : BitVec W) (j : Nat) (h : x.getLsbD j = true) : j < W := by
  false_or_by_contra
  rename_i hn
  rw [BitVec.getLsbD_of_ge x j (by omega)] at h
  cases h

/-! ### the lookup loop -/

section
variable {K V : Type} [DecidableEq K] [Inhabited V]

theorem scan_some {N : Nat} (hN : 0 < N) (t : Table K V) (k : K) :
    ∀ (f : Nat) (hop : BitVec W) (pos p : Nat), pos < N → scan N t k f hop pos = some p →
      ∃ d, d < f ∧ hop.getLsbD d = true ∧ (pos + d) % N = p ∧ (slot t p).key = some k := by
  intro f
  induction f with
  | zero => intro hop pos p _ h; simp [scan] at h
  | succ f ih =>
    intro hop pos p hpos h
    unfold scan at h
    split at h
    · cases h
    · split at h
      · rename_i hc
        simp only [Bool.and_eq_true, decide_eq_true_eq] at hc
        injection h with h
        subst h
        exact ⟨0, by omega, hc.1, by simp [Nat.mod_eq_of_lt hpos], hc.2⟩
      · obtain ⟨d, hd, hb, hp, hk⟩ := ih (hop >>> 1) ((pos + 1) % N) p (Nat.mod_lt _ hN) h
        refine ⟨d + 1, by omega, ?_, ?_, hk⟩
        · rw [BitVec.getLsbD_ushiftRight] at hb
          rw [Nat.add_comm d 1]; exact hb
        · rw [Nat.mod_add_mod] at hp
          rw [← hp]; congr 1; omega

theorem scan_none {N : Nat} (hN : 0 < N) (t : Table K V) (k : K) :
    ∀ (f : Nat) (hop : BitVec W) (pos : Nat), pos < N → scan N t k f hop pos = none →
      (∀ d, f ≤ d → hop.getLsbD d = false) →
      ∀ d, hop.getLsbD d = true → (slot t ((pos + d) % N)).key ≠ some k := by
  intro f
  induction f with
  | zero =>
    intro hop pos _ _ hz d hd
    rw [hz d (by omega)] at hd; cases hd
  | succ f ih =>
    intro hop pos hpos h hz d hd
    unfold scan at h
    split at h
    · rename_i h0
      rw [h0] at hd; simp at hd
    · split at h
      · cases h
      · rename_i hc
        simp only [Bool.and_eq_true, decide_eq_true_eq, not_and] at hc
        cases d with
        | zero =>
          simp only [Nat.add_zero, Nat.mod_eq_of_lt hpos]
          exact hc hd
        | succ d' =>
          have hz' : ∀ d, f ≤ d → (hop >>> 1).getLsbD d = false := by
            intro d hfd
            rw [BitVec.getLsbD_ushiftRight]
            exact hz (1 + d) (by omega)
          have hb : (hop >>> 1).getLsbD d' = true := by
            rw [BitVec.getLsbD_ushiftRight, Nat.add_comm 1 d']; exact hd
          have := ih (hop >>> 1) ((pos + 1) % N) (Nat.mod_lt _ hN) h hz' d' hb
          rw [Nat.mod_add_mod] at this
          have e : pos + 1 + d' = pos + (d' + 1) := by omega
          rw [e] at this; exact this

end
end Cjet.Hoptable
