import Cjet.Deflate
/-!
Lemmas for C19 (c): the indices `fill_requested_extension` reads (`fillReads`) all lie below `length`
(repair of F38).  The work is the invariant of the splitting loop: a parameter with counted length `l ≥ 2`
that starts at `p` satisfies `p + l ≤ length` (the counted length only counts characters of the element),
and the parameter loop reads below `p + l` only.
-/
namespace Cjet.Deflate
open Cjet.Generated.Deflate

theorem getD_set (l : List Nat) (n m a : Nat) :
    (l.set n a).getD m 0 = if n = m ∧ n < l.length then a else l.getD m 0 := by
  simp only [List.getD_eq_getElem?_getD, List.getElem?_set]
  by_cases h : n = m
  · subst h
    by_cases h2 : n < l.length
    · simp [h2]
    · simp [h2]
  · simp [h]

theorem getD_bump (l : List Nat) (n m : Nat) :
    (bump l n).getD m 0 = if n = m ∧ n < l.length then l.getD m 0 + 1 else l.getD m 0 := by
  unfold bump
  rw [getD_set]
  by_cases h : n = m
  · subst h; rfl
  · simp [h]

theorem bump_length (l : List Nat) (n : Nat) : (bump l n).length = l.length := by
  simp [bump]

/-! ### blank skipping -/

theorem skipSpaces_ge (buf : Bytes) (length fuel i : Nat) : i ≤ skipSpaces buf length fuel i := by
  induction fuel generalizing i with
  | zero => simp [skipSpaces]
  | succ n ih =>
    simp only [skipSpaces]
    split
    · have := ih (i + 1); omega
    · exact Nat.le_refl _

theorem skipSpaces_le (buf : Bytes) (length fuel i : Nat) (h : i ≤ length) :
    skipSpaces buf length fuel i ≤ length := by
  induction fuel generalizing i with
  | zero => simpa [skipSpaces] using h
  | succ n ih =>
    simp only [skipSpaces]
    split
    · rename_i hc
      have : i < length := by
        simp only [Bool.and_eq_true, decide_eq_true_eq] at hc
        exact hc.1
      exact ih (i + 1) (by omega)
    · exact h

theorem skipReads_lt (buf : Bytes) (length fuel i : Nat) : ∀ k ∈ skipReads buf length fuel i, k < length := by
  induction fuel generalizing i with
  | zero => simp [skipReads]
  | succ n ih =>
    intro k hk
    simp only [skipReads] at hk
    split at hk
    · rename_i hi
      simp only [List.mem_cons] at hk
      rcases hk with rfl | hk
      · exact hi
      · split at hk
        · exact ih _ k hk
        · simp at hk
    · simp at hk

theorem splitReads_lt (buf : Bytes) (length fuel i cnt : Nat) :
    ∀ k ∈ splitReads buf length fuel i cnt, k < length := by
  induction fuel generalizing i cnt with
  | zero => simp [splitReads]
  | succ n ih =>
    intro k hk
    simp only [splitReads] at hk
    split at hk
    · rename_i hi
      split at hk
      · split at hk
        · simp only [List.mem_singleton] at hk
          subst hk; exact hi
        · simp only [List.mem_cons, List.mem_append] at hk
          rcases hk with rfl | hk | hk
          · exact hi
          · exact skipReads_lt _ _ _ _ k hk
          · exact ih _ _ k hk
      · simp only [List.mem_cons] at hk
        rcases hk with rfl | hk
        · exact hi
        · exact ih _ _ k hk
    · simp at hk

/-! ### the splitting loop -/

/-- invariant of the `for (i = 0; i < length; i++)` loop at index `i` -/
structure SInv (length i : Nat) (sp : Split) : Prop where
  cnt : sp.count < maxParams
  sl : sp.starts.length = maxParams
  ll : sp.lens.length = maxParams
  s0 : sp.starts.getD 0 0 = 0
  /-- slots not yet started still hold their initial length -/
  fut : ∀ k, sp.count < k → sp.lens.getD k 0 ≤ 1
  /-- finished parameters lie inside the element -/
  fin : ∀ k, k < sp.count → sp.starts.getD k 0 + sp.lens.getD k 0 ≤ length
  /-- the parameter being counted has not counted more than was scanned -/
  cur : sp.starts.getD sp.count 0 + sp.lens.getD sp.count 0 ≤ i
  curb : i ≤ length ∨ sp.lens.getD sp.count 0 ≤ 1

theorem sinv_init (length : Nat) : SInv length 0 Split.init := by
  refine ⟨by decide, by decide, by decide, by decide, ?_, ?_, by decide, Or.inl (Nat.zero_le _)⟩
  · intro k hk
    simp only [Split.init, paramLenInit]
    match k, hk with
    | 1, _ => decide
    | 2, _ => decide
    | 3, _ => decide
    | 4, _ => decide
    | k + 5, _ => simp [List.getD_eq_getElem?_getD]
  · intro k hk
    simp [Split.init] at hk

/-- what the parameter loop and the name check rely on -/
structure SOut (length : Nat) (sp : Split) : Prop where
  s0 : sp.starts.getD 0 0 = 0
  inside : ∀ k, k ≤ sp.count → 2 ≤ sp.lens.getD k 0 → sp.starts.getD k 0 + sp.lens.getD k 0 ≤ length

theorem splitLoop_out (buf : Bytes) (length fuel i : Nat) (sp sp' : Split) (hI : SInv length i sp)
    (h : splitLoop buf length fuel i sp = some sp') : SOut length sp' := by
  induction fuel generalizing i sp with
  | zero =>
    simp only [splitLoop, Option.some.injEq] at h
    subst h
    refine ⟨hI.s0, fun k hk h2 => ?_⟩
    rcases Nat.lt_or_ge k sp.count with hlt | hge
    · exact hI.fin k hlt
    · have hk' : k = sp.count := by omega
      subst hk'
      rcases hI.curb with hb | hb
      · have := hI.cur; omega
      · omega
  | succ n ih =>
    simp only [splitLoop] at h
    by_cases hi : i < length
    · rw [if_pos hi] at h
      by_cases hsc : (rd buf i == chSemicolon) = true
      · -- a `;`: the parameter is finished, the next one starts behind the blanks
        have hne : (rd buf i != chSemicolon) = false := by simp [bne, hsc]
        simp only [hsc, hne, Bool.and_false, Bool.false_eq_true, if_false, if_true] at h
        split at h
        · cases h
        · rename_i hmax
          have hcnt : sp.count + 1 < maxParams := by
            have h1 := hI.cnt
            have h2 : ¬ sp.count + 1 = maxParams := by simpa using hmax
            omega
          refine ih _ _ ?_ h
          have hj1 := skipSpaces_ge buf length (length + 1) (i + 1)
          have hj2 := skipSpaces_le buf length (length + 1) (i + 1) (by omega)
          have hsl : sp.count + 1 < sp.starts.length := by rw [hI.sl]; exact hcnt
          refine ⟨hcnt, by simp [hI.sl], hI.ll, ?_, ?_, ?_, ?_, ?_⟩
          · show (sp.starts.set (sp.count + 1) _).getD 0 0 = 0
            rw [getD_set, if_neg (by omega)]; exact hI.s0
          · intro k hk
            exact hI.fut k (by simp only at hk; omega)
          · intro k hk
            simp only at hk
            show (sp.starts.set (sp.count + 1) _).getD k 0 + sp.lens.getD k 0 ≤ length
            rw [getD_set]
            have hkne : ¬ (sp.count + 1 = k ∧ sp.count + 1 < sp.starts.length) := by omega
            rw [if_neg hkne]
            rcases Nat.lt_or_ge k sp.count with hlt | hge
            · exact hI.fin k hlt
            · have hk' : k = sp.count := by omega
              subst hk'
              have := hI.cur; omega
          · show (sp.starts.set (sp.count + 1) _).getD (sp.count + 1) 0 + sp.lens.getD (sp.count + 1) 0 ≤ _
            rw [getD_set, if_pos ⟨rfl, hsl⟩]
            have := hI.fut (sp.count + 1) (by omega)
            omega
          · exact Or.inr (hI.fut (sp.count + 1) (by omega))
      · -- any other character: counted unless it is a blank
        have hsc' : (rd buf i == chSemicolon) = false := by simpa using hsc
        simp only [hsc', Bool.false_eq_true, if_false] at h
        refine ih _ _ ?_ h
        split
        · -- counted
          have hll : sp.count < sp.lens.length := by rw [hI.ll]; exact hI.cnt
          refine ⟨hI.cnt, hI.sl, by simp [bump_length, hI.ll], hI.s0, ?_, ?_, ?_, Or.inl (by omega)⟩
          · intro k hk
            show (bump sp.lens sp.count).getD k 0 ≤ 1
            rw [getD_bump]
            have : ¬ (sp.count = k ∧ sp.count < sp.lens.length) := by simp only at hk; omega
            rw [if_neg this]
            exact hI.fut k hk
          · intro k hk
            show sp.starts.getD k 0 + (bump sp.lens sp.count).getD k 0 ≤ length
            rw [getD_bump]
            have : ¬ (sp.count = k ∧ sp.count < sp.lens.length) := by simp only at hk; omega
            rw [if_neg this]
            exact hI.fin k hk
          · show sp.starts.getD sp.count 0 + (bump sp.lens sp.count).getD sp.count 0 ≤ i + 1
            rw [getD_bump, if_pos ⟨rfl, hll⟩]
            have := hI.cur; omega
        · exact ⟨hI.cnt, hI.sl, hI.ll, hI.s0, hI.fut, hI.fin, by have := hI.cur; omega, Or.inl (by omega)⟩
    · rw [if_neg hi] at h
      simp only [Option.some.injEq] at h
      subst h
      refine ⟨hI.s0, fun k hk h2 => ?_⟩
      rcases Nat.lt_or_ge k sp.count with hlt | hge
      · exact hI.fin k hlt
      · have hk' : k = sp.count := by omega
        subst hk'
        rcases hI.curb with hb | hb
        · have := hI.cur; omega
        · omega

/-! ### the parameter loop -/

theorem memReads_lt (p n : Nat) : ∀ k ∈ memReads p n, k < p + n := by
  intro k hk
  simp only [memReads, List.mem_map, List.mem_range] at hk
  obtain ⟨a, ha, rfl⟩ := hk
  omega

theorem nameCmw_length : nameCmw.length = 22 := rfl
theorem nameSmw_length : nameSmw.length = 22 := rfl
theorem nameCnc_length : nameCnc.length = 26 := rfl
theorem nameSnc_length : nameSnc.length = 26 := rfl

theorem cmwValueReads_lt (p l : Nat) : ∀ k ∈ cmwValueReads p l, k < p + l := by
  intro k hk
  unfold cmwValueReads at hk
  rw [nameCmw_length] at hk
  split at hk
  · simp only [List.mem_cons] at hk
    rcases hk with rfl | hk
    · omega
    · split at hk
      · rename_i h2
        have : l = 24 := by simpa using h2
        simp only [List.mem_singleton] at hk
        omega
      · split at hk
        · rename_i h3
          have : l = 25 := by simpa using h3
          simp only [List.mem_cons, List.not_mem_nil, or_false] at hk
          omega
        · simp at hk
  · simp at hk

theorem smwValueReads_lt (p l : Nat) : ∀ k ∈ smwValueReads p l, k < p + l := by
  intro k hk
  unfold smwValueReads at hk
  rw [nameSmw_length] at hk
  split at hk
  · simp at hk
  · simp only [List.mem_cons] at hk
    rcases hk with rfl | hk
    · omega
    · split at hk
      · rename_i h2
        have : l = 24 := by simpa using h2
        simp only [List.mem_singleton] at hk
        omega
      · split at hk
        · rename_i h3
          have : l = 25 := by simpa using h3
          simp only [List.mem_cons, List.not_mem_nil, or_false] at hk
          omega
        · simp at hk

/-- everything read for one parameter lies inside its counted length; nothing is read for a parameter
    shorter than the shortest name -/
theorem classifyReads_lt (buf : Bytes) (fl : Flags) (p l : Nat) :
    ∀ k ∈ classifyReads buf fl p l, k < p + l ∧ 2 ≤ l := by
  intro k hk
  unfold classifyReads at hk
  rw [nameCmw_length, nameSmw_length, nameCnc_length, nameSnc_length] at hk
  split at hk
  · simp at hk
  · rename_i h22
    refine ⟨?_, by omega⟩
    simp only [List.mem_append] at hk
    rcases hk with hk | hk
    · have := memReads_lt _ _ k hk; omega
    · split at hk
      · split at hk
        · simp at hk
        · split at hk
          · simp at hk
          · exact cmwValueReads_lt _ _ k hk
      · simp only [List.mem_append] at hk
        rcases hk with hk | hk
        · have := memReads_lt _ _ k hk; omega
        · split at hk
          · split at hk
            · simp at hk
            · split at hk
              · simp at hk
              · exact smwValueReads_lt _ _ k hk
          · split at hk
            · simp at hk
            · rename_i h26
              simp only [List.mem_append] at hk
              rcases hk with hk | hk
              · have := memReads_lt _ _ k hk; omega
              · split at hk
                · simp at hk
                · have := memReads_lt _ _ k hk; omega

theorem paramLoopReads_lt (buf : Bytes) (length : Nat) (ps : List (Nat × Nat)) (e : Ext) (fl : Flags)
    (hps : ∀ q ∈ ps, 2 ≤ q.2 → q.1 + q.2 ≤ length) :
    ∀ k ∈ paramLoopReads buf e fl ps, k < length := by
  induction ps generalizing e fl with
  | nil => simp [paramLoopReads]
  | cons q rest ih =>
    obtain ⟨p, l⟩ := q
    intro k hk
    simp only [paramLoopReads, List.mem_append] at hk
    rcases hk with hk | hk
    · obtain ⟨h1, h2⟩ := classifyReads_lt buf fl p l k hk
      have := hps (p, l) (by simp) h2
      simp only at this
      omega
    · split at hk
      · simp at hk
      · exact ih _ _ (fun q hq => hps q (by simp [hq])) k hk

theorem params_inside (length : Nat) (sp : Split) (h : SOut length sp) :
    ∀ q ∈ sp.params, 2 ≤ q.2 → q.1 + q.2 ≤ length := by
  intro q hq h2
  simp only [Split.params, List.mem_map, List.mem_range] at hq
  obtain ⟨k, hk, rfl⟩ := hq
  exact h.inside (k + 1) (by omega) h2

/-- `fill_requested_extension(s, start, length)` reads `start[0 .. length)` only — for EVERY memory
    content, every length and every state of the negotiation. -/
theorem fillReads_lt (e : Ext) (buf : Bytes) (length : Nat) : ∀ k ∈ fillReads e buf length, k < length := by
  intro k hk
  unfold fillReads at hk
  split at hk
  · simp at hk
  · simp only [List.mem_append] at hk
    rcases hk with hk | hk
    · exact splitReads_lt _ _ _ _ _ k hk
    · split at hk
      · simp at hk
      · rename_i sp hsp
        have hout := splitLoop_out buf length (length + 1) 0 Split.init sp (sinv_init length) hsp
        split at hk
        · rename_i hname
          have h18 : sp.lens.getD 0 0 = extName.length := by simpa using hname
          have hin := hout.inside 0 (Nat.zero_le _) (by rw [h18]; decide)
          rw [hout.s0, h18, Nat.zero_add] at hin
          simp only [List.mem_append] at hk
          rcases hk with hk | hk
          · have := memReads_lt _ _ k hk; omega
          · split at hk
            · exact paramLoopReads_lt buf length sp.params _ _ (params_inside length sp hout) k hk
            · simp at hk
        · simp at hk

end Cjet.Deflate
