/-
  DaemonC03Frame — every handler other than set/call/routing-response leaves the routing view
  (connections, address tokens, routing tables, uuid counter, timer counter) and the timer
  observations alone.
-/
import Cjet.Lemmas.DaemonC03Basic

namespace Cjet.Daemon.C03

open Cjet Cjet.Json Cjet.Daemon

/-- only `send` observations were added; the state is untouched -/
structure SendsOnly (x y : Ctx) : Prop where
  st : y.st = x.st
  tobs : tobs y.out = tobs x.out
  routeFull : y.routeFull = x.routeFull

theorem SendsOnly.refl (x : Ctx) : SendsOnly x x := ⟨rfl, rfl, rfl⟩

theorem SendsOnly.trans {x y z : Ctx} (h1 : SendsOnly x y) (h2 : SendsOnly y z) : SendsOnly x z :=
  ⟨h2.st.trans h1.st, h2.tobs.trans h1.tobs, h2.routeFull.trans h1.routeFull⟩

theorem SendsOnly.frame {x y : Ctx} (h : SendsOnly x y) : Frame x y :=
  ⟨by rw [h.st], by rw [h.st], by rw [h.st], h.tobs, h.routeFull⟩

theorem sendsOnly_send (x : Ctx) (c : Nat) (j : Json) : SendsOnly x (send x c j).1 :=
  ⟨by simp, by simp, by simp⟩

theorem sendsOnly_send' (x : Ctx) (c : Nat) (j : Json) : SendsOnly x (send' x c j) := sendsOnly_send x c j

theorem sendsOnly_notifyOne (x : Ctx) (e : Element) (fk : FetchKey) (ev : String) :
    SendsOnly x (notifyOne x e fk ev) := by
  unfold notifyOne
  split
  · exact sendsOnly_send' ..
  · exact SendsOnly.refl x

theorem sendsOnly_notifyFetchers (x : Ctx) (e : Element) (ev : String) :
    SendsOnly x (notifyFetchers x e ev) := by
  unfold notifyFetchers
  apply foldl_inv (fun y => SendsOnly x y)
  · exact SendsOnly.refl x
  · intro y s _ hy
    cases s with
    | none => exact hy
    | some fk => exact hy.trans (sendsOnly_notifyOne ..)

theorem sendsOnly_offerElement (cfg : Config) (x : Ctx) (e : Element) (fp : Peer) (f : Fetch) :
    SendsOnly x (offerElement cfg x e fp f).1 := by
  unfold offerElement
  split
  · exact SendsOnly.refl x
  · split
    · exact sendsOnly_send' ..
    · exact SendsOnly.refl x

theorem sendsOnly_findFetchersForElement (cfg : Config) (x : Ctx) (e : Element) :
    SendsOnly x (findFetchersForElement cfg x e).1 := by
  unfold findFetchersForElement
  apply foldl_inv (fun (acc : Ctx × Element) => SendsOnly x acc.1)
  · exact SendsOnly.refl x
  · intro acc fp _ hacc
    apply foldl_inv (fun (acc : Ctx × Element) => SendsOnly x acc.1)
    · exact hacc
    · intro acc' f _ hacc'
      exact hacc'.trans (sendsOnly_offerElement ..)

@[simp] theorem notifyFetchers_st (x : Ctx) (e : Element) (ev : String) : (notifyFetchers x e ev).st = x.st :=
  (sendsOnly_notifyFetchers x e ev).st
@[simp] theorem tobs_notifyFetchers (x : Ctx) (e : Element) (ev : String) :
    tobs (notifyFetchers x e ev).out = tobs x.out := (sendsOnly_notifyFetchers x e ev).tobs
@[simp] theorem notifyFetchers_routeFull (x : Ctx) (e : Element) (ev : String) :
    (notifyFetchers x e ev).routeFull = x.routeFull := (sendsOnly_notifyFetchers x e ev).routeFull

@[simp] theorem offerElement_st (cfg : Config) (x : Ctx) (e : Element) (fp : Peer) (f : Fetch) :
    (offerElement cfg x e fp f).1.st = x.st := (sendsOnly_offerElement cfg x e fp f).st
@[simp] theorem tobs_offerElement (cfg : Config) (x : Ctx) (e : Element) (fp : Peer) (f : Fetch) :
    tobs (offerElement cfg x e fp f).1.out = tobs x.out := (sendsOnly_offerElement cfg x e fp f).tobs
@[simp] theorem offerElement_routeFull (cfg : Config) (x : Ctx) (e : Element) (fp : Peer) (f : Fetch) :
    (offerElement cfg x e fp f).1.routeFull = x.routeFull := (sendsOnly_offerElement cfg x e fp f).routeFull

@[simp] theorem findFetchersForElement_st (cfg : Config) (x : Ctx) (e : Element) :
    (findFetchersForElement cfg x e).1.st = x.st := (sendsOnly_findFetchersForElement cfg x e).st
@[simp] theorem tobs_findFetchersForElement (cfg : Config) (x : Ctx) (e : Element) :
    tobs (findFetchersForElement cfg x e).1.out = tobs x.out := (sendsOnly_findFetchersForElement cfg x e).tobs
@[simp] theorem findFetchersForElement_routeFull (cfg : Config) (x : Ctx) (e : Element) :
    (findFetchersForElement cfg x e).1.routeFull = x.routeFull := (sendsOnly_findFetchersForElement cfg x e).routeFull

theorem map_pview_updatePeer' (ps : List Peer) (c : Nat) (f : Peer → Peer) :
    (updatePeer ps c f).map pview = ps.map (fun p => if p.conn == c then pview (f p) else pview p) := by
  unfold updatePeer
  rw [List.map_map]
  apply List.map_congr_left
  intro p _
  simp only [Function.comp]
  split <;> rfl

/-- closes `Frame x y` goals where `y` is `x` after sends and updates outside the routing view -/
macro "frame_close" : tactic => `(tactic|
  (constructor <;> simp [map_pview_updatePeer', map_pview_mapElements, pview]))

/-- case split of a handler body, closing every branch that is a frame -/
macro "frame_handler" x:term : tactic => `(tactic|
  (repeat' (first | split | dsimp only)
   all_goals (first | exact Frame.refl $x | frame_close)))

/-! ## element.c handlers -/

theorem frame_changeState (x : Ctx) (p : Peer) (req : Json) : Frame x (changeState x p req).1 := by
  unfold changeState
  frame_handler x

theorem frame_addElement (cfg : Config) (x : Ctx) (p : Peer) (req : Json) :
    Frame x (addElement cfg x p req).1 := by
  unfold addElement
  frame_handler x

theorem frame_removeElement (x : Ctx) (e : Element) : Frame x (removeElement x e) := by
  unfold removeElement
  frame_close

theorem frame_removeElementReq (x : Ctx) (p : Peer) (req : Json) : Frame x (removeElementReq x p req).1 := by
  unfold removeElementReq
  split
  · exact Frame.refl x
  · split
    · exact frame_removeElement ..
    · exact Frame.refl x

/-! ## fetch.c handlers -/

theorem frame_offerAllElements (cfg : Config) (x : Ctx) (fp : Peer) (f : Fetch) :
    Frame x (offerAllElements cfg x fp f) := by
  unfold offerAllElements
  apply foldl_inv (fun y => Frame x y)
  · exact Frame.refl x
  · intro y owner _ hy
    apply foldl_inv (fun y => Frame x y)
    · exact hy
    · intro y' e0 _ hy'
      refine hy'.trans ?_
      frame_close

theorem frame_fetchReq (cfg : Config) (x : Ctx) (p : Peer) (req : Json) : Frame x (fetchReq cfg x p req).1 := by
  unfold fetchReq
  split
  · exact Frame.refl x
  · split
    · exact Frame.refl x
    · split
      · exact Frame.refl x
      · dsimp only
        refine Frame.trans ?_ (frame_offerAllElements ..)
        frame_close

theorem map_pview_dropFetch (ps : List Peer) (fk : FetchKey) : (dropFetch ps fk).map pview = ps.map pview := by
  unfold dropFetch
  have h : ∀ ps' : List Peer, (updatePeer ps' fk.peer
      (fun q => { q with fetches := q.fetches.filter (·.uid != fk.uid) })).map pview = ps'.map pview :=
    fun ps' => map_pview_updatePeer ps' _ _ (fun _ => rfl)
  rw [h, map_pview_mapElements]

theorem frame_unfetchReq (x : Ctx) (p : Peer) (req : Json) : Frame x (unfetchReq x p req).1 := by
  unfold unfetchReq
  split
  · exact Frame.refl x
  · split
    · exact Frame.refl x
    · exact frame_of_peers (map_pview_dropFetch ..) rfl rfl rfl rfl

theorem frame_getReq (cfg : Config) (x : Ctx) (p : Peer) (req : Json) : Frame x (getReq cfg x p req).1 := by
  unfold getReq
  frame_handler x

/-! ## config.c, info.c, authenticate.c -/

theorem frame_configReq (x : Ctx) (p : Peer) (req : Json) : Frame x (configReq x p req).1 := by
  unfold configReq
  frame_handler x

theorem frame_infoReq (cfg : Config) (x : Ctx) (req : Json) : Frame x (infoReq cfg x req).1 := Frame.refl x

theorem frame_authenticateReq (cfg : Config) (x : Ctx) (p : Peer) (req : Json) :
    Frame x (authenticateReq cfg x p req).1 := by
  unfold authenticateReq
  frame_handler x

theorem frame_passwdReq (x : Ctx) (p : Peer) (req : Json) : Frame x (passwdReq x p req).1 := by
  unfold passwdReq
  frame_handler x

theorem frame_sendResponse (x : Ctx) (c : Nat) (r : Option Json) : Frame x (sendResponse x c r).1 := by
  unfold sendResponse
  split
  · exact Frame.refl x
  · exact frame_send ..

end Cjet.Daemon.C03
