import Cjet.Deflate
import Cjet.Lemmas.DeflateReasm
import Cjet.Lemmas.DeflateBytes
/-! Helper lemmas for C19, part D: the frame dispatch (`handleFrame` / `runFrames`) — control frames between
the fragments of a compressed message leave the flags and the reassembly buffer alone. -/
namespace Cjet.Deflate
open Cjet.Generated.Deflate

/-! ### single frames through the code as committed (`clr = false`, `loops = guard = true`) -/

/-- a ping / pong of at most 125 bytes, in ANY state of the connection: answered, nothing else changes -/
theorem handleFrame_ctl (inflate : Bytes → Option Bytes) (cc : Bytes → Nat) (c : Conn) (k : Ctl)
    (hk : k.payload.length ≤ wsSmallFrame) :
    handleFrame false true true inflate cc c k.frame = (k.answer, some c) := by
  obtain ⟨fl, buf⟩ := c
  cases k with
  | ping p =>
    have hp : ¬ wsSmallFrame < p.length := by simpa [Ctl.payload] using hk
    simp [handleFrame, Ctl.frame, Ctl.answer, rsvBad, clearFlag, fragStart, dispatch, opPing, opClose,
      opContinuation, opBinary, opText, hp]
  | pong p =>
    have hp : ¬ wsSmallFrame < p.length := by simpa [Ctl.payload] using hk
    simp [handleFrame, Ctl.frame, Ctl.answer, rsvBad, clearFlag, fragStart, dispatch, opPing, opPong, opClose,
      opContinuation, opBinary, opText, hp]

theorem runFrames_cons_some (clr loops guard : Bool) (inflate : Bytes → Option Bytes) (cc : Bytes → Nat)
    (c c' : Conn) (f : Frame) (rest : List Frame) (evs : List Ev)
    (h : handleFrame clr loops guard inflate cc c f = (evs, some c')) :
    runFrames clr loops guard inflate cc c (f :: rest) =
      (evs ++ (runFrames clr loops guard inflate cc c' rest).1, (runFrames clr loops guard inflate cc c' rest).2) := by
  rw [runFrames, h]

/-- any number of them in front of further frames -/
theorem runFrames_ctls (inflate : Bytes → Option Bytes) (cc : Bytes → Nat) (c : Conn) (cs : List Ctl)
    (hcs : ∀ k ∈ cs, k.payload.length ≤ wsSmallFrame) (more : List Frame) :
    runFrames false true true inflate cc c (cs.map Ctl.frame ++ more) =
      (ctlAnswers cs ++ (runFrames false true true inflate cc c more).1,
        (runFrames false true true inflate cc c more).2) := by
  induction cs with
  | nil => simp [ctlAnswers]
  | cons k rest ih =>
    have hk := hcs k (by simp)
    have hr : ∀ k ∈ rest, k.payload.length ≤ wsSmallFrame := fun k' h' => hcs k' (by simp [h'])
    rw [List.map_cons, List.cons_append,
      runFrames_cons_some _ _ _ _ _ _ _ _ _ _ (handleFrame_ctl inflate cc c k hk), ih hr]
    simp [ctlAnswers, List.append_assoc]

/-- the first fragment of a compressed message on a connection in its initial state -/
theorem handleFrame_first (inflate : Bytes → Option Bytes) (cc : Bytes → Nat) (op : Nat)
    (hop : op = opText ∨ op = opBinary) (f0 : Bytes) :
    ∃ b, handleFrame false true true inflate cc Conn.init ⟨false, rsvCompressed, op, f0⟩ =
        ([], some ⟨⟨true, true, op⟩, b⟩) ∧ BufInv b f0.length f0 := by
  obtain ⟨b, hb, hI⟩ := reasmBytes_loop RBuf.init 0 [] f0 bufInv_init
  refine ⟨b, ?_, by simpa using hI⟩
  rcases hop with rfl | rfl <;>
    simp [handleFrame, rsvBad, clearFlag, fragStart, dispatch, frameComp, Conn.init, WsFlags.init, hb,
      rsvCompressed, opClose, opContinuation, opBinary, opText]

/-- a further, non-final fragment -/
theorem handleFrame_middle (inflate : Bytes → Option Bytes) (cc : Bytes → Nat) (op : Nat)
    (hop : op = opText ∨ op = opBinary) (b : RBuf) (T : Nat) (data f : Bytes) (hI : BufInv b T data) :
    ∃ b', handleFrame false true true inflate cc ⟨⟨true, true, op⟩, b⟩ ⟨false, 0, opContinuation, f⟩ =
        ([], some ⟨⟨true, true, op⟩, b'⟩) ∧ BufInv b' (T + f.length) (data ++ f) := by
  obtain ⟨b', hb, hI'⟩ := reasmBytes_loop b T data f hI
  refine ⟨b', ?_, hI'⟩
  rcases hop with rfl | rfl <;>
    simp [handleFrame, rsvBad, clearFlag, fragStart, dispatch, frameComp, hb,
      opClose, opContinuation, opBinary, opText]

/-- the final fragment: the whole body goes to the inflater once, the connection is as new -/
theorem handleFrame_final (inflate : Bytes → Option Bytes) (cc : Bytes → Nat) (op : Nat)
    (hop : op = opText ∨ op = opBinary) (b : RBuf) (T : Nat) (data f x : Bytes) (hI : BufInv b T data)
    (hne : data ++ f ≠ []) (hmsg : recvMessage inflate (data ++ f) = .ok x) :
    handleFrame false true true inflate cc ⟨⟨true, true, op⟩, b⟩ ⟨true, 0, opContinuation, f⟩ =
      ([.frame op x true], some Conn.init) := by
  have hr : recvFrames true true inflate b [f] = .ok x := by
    rw [recvFrames_eq inflate [f] (by simp) b T data hI]
    simp only [List.flatten_cons, List.flatten_nil, List.append_nil, if_neg hne, hmsg]
  rcases hop with rfl | rfl <;>
    simp [handleFrame, rsvBad, clearFlag, fragStart, dispatch, frameComp, hr, Conn.init,
      opClose, opContinuation, opBinary, opText]

/-- the unfragmented compressed message -/
theorem handleFrame_whole (inflate : Bytes → Option Bytes) (cc : Bytes → Nat) (op : Nat)
    (hop : op = opText ∨ op = opBinary) (body x : Bytes) (hmsg : recvMessage inflate body = .ok x) :
    handleFrame false true true inflate cc Conn.init ⟨true, rsvCompressed, op, body⟩ =
      ([.message op x], some Conn.init) := by
  rcases hop with rfl | rfl <;>
    simp [handleFrame, rsvBad, clearFlag, fragStart, dispatch, hmsg, Conn.init, WsFlags.init,
      rsvCompressed, opClose, opContinuation, opBinary, opText]

/-! ### a whole message -/

/-- the continuation frames with their control frames, from any point inside the message -/
theorem runFrames_cont (inflate : Bytes → Option Bytes) (cc : Bytes → Nat) (op : Nat)
    (hop : op = opText ∨ op = opBinary) (x : Bytes) (rest : List (List Ctl × Bytes)) (hne : rest ≠ [])
    (hctl : ∀ p ∈ rest, ∀ k ∈ p.1, k.payload.length ≤ wsSmallFrame)
    (b : RBuf) (T : Nat) (data : Bytes) (hI : BufInv b T data)
    (hbody : data ++ (rest.map (·.2)).flatten ≠ [])
    (hmsg : recvMessage inflate (data ++ (rest.map (·.2)).flatten) = .ok x) :
    runFrames false true true inflate cc ⟨⟨true, true, op⟩, b⟩ (contFrames rest) =
      (rest.flatMap (fun p => ctlAnswers p.1) ++ [.frame op x true], some Conn.init) := by
  induction rest generalizing b T data with
  | nil => exact absurd rfl hne
  | cons p r ih =>
    obtain ⟨cs, f⟩ := p
    have hcs : ∀ k ∈ cs, k.payload.length ≤ wsSmallFrame := fun k hk => hctl (cs, f) (by simp) k hk
    have hr : ∀ q ∈ r, ∀ k ∈ q.1, k.payload.length ≤ wsSmallFrame :=
      fun q hq k hk => hctl q (by simp [hq]) k hk
    simp only [contFrames]
    rw [runFrames_ctls inflate cc _ cs hcs]
    cases r with
    | nil =>
      simp only [List.map_cons, List.map_nil, List.flatten_cons, List.flatten_nil, List.append_nil] at hbody hmsg
      have h := handleFrame_final inflate cc op hop b T data f x hI hbody hmsg
      simp only [List.isEmpty_nil, contFrames]
      rw [runFrames_cons_some _ _ _ _ _ _ _ _ _ _ h]
      simp [runFrames, ctlAnswers]
    | cons q r' =>
      obtain ⟨b', h, hI'⟩ := handleFrame_middle inflate cc op hop b T data f hI
      have hfl : (data ++ f) ++ ((q :: r').map (·.2)).flatten = data ++ (((cs, f) :: q :: r').map (·.2)).flatten := by
        simp [List.append_assoc]
      have e : ((q :: r').isEmpty) = false := rfl
      simp only [e]
      rw [runFrames_cons_some _ _ _ _ _ _ _ _ _ _ h,
        ih (by simp) hr b' (T + f.length) (data ++ f) hI' (by rw [hfl]; exact hbody) (by rw [hfl]; exact hmsg)]
      simp [List.append_assoc]

/-- One compressed message in ANY legal presentation — unfragmented, or cut into any fragments (empty ones
    included) with any ping / pong frames in front of any continuation frame: every ping is answered with its
    payload, the application gets the inflated body exactly once, and the connection is back in its initial
    state (flags clear, no reassembly buffer). -/
theorem runFrames_present (inflate : Bytes → Option Bytes) (cc : Bytes → Nat) (op : Nat)
    (hop : op = opText ∨ op = opBinary) (body x f0 : Bytes) (rest : List (List Ctl × Bytes))
    (hcut : f0 ++ (rest.map (·.2)).flatten = body)
    (hctl : ∀ p ∈ rest, ∀ k ∈ p.1, k.payload.length ≤ wsSmallFrame)
    (hne : body ≠ []) (hmsg : recvMessage inflate body = .ok x) :
    runFrames false true true inflate cc Conn.init (present op f0 rest) =
      (presentEvents op x rest, some Conn.init) := by
  cases rest with
  | nil =>
    simp only [List.map_nil, List.flatten_nil, List.append_nil] at hcut
    subst hcut
    have h := handleFrame_whole inflate cc op hop f0 x hmsg
    simp only [present, presentEvents, List.isEmpty_nil, contFrames]
    rw [runFrames_cons_some _ _ _ _ _ _ _ _ _ _ h]
    simp [runFrames]
  | cons p r =>
    obtain ⟨b, h, hI⟩ := handleFrame_first inflate cc op hop f0
    have e : ((p :: r).isEmpty) = false := rfl
    simp only [present, presentEvents, e]
    rw [runFrames_cons_some _ _ _ _ _ _ _ _ _ _ h,
      runFrames_cont inflate cc op hop x (p :: r) (by simp) hctl b f0.length f0 hI
        (by rw [hcut]; exact hne) (by rw [hcut]; exact hmsg)]
    simp

/-! ### memory safety of the dispatch for ANY frame sequence -/

/-- the reassembly buffer is always in one of the states `reassemble` leaves behind -/
def Conn.Sane (c : Conn) : Prop := ∃ T data, BufInv c.buf T data

theorem recvMessage_ne_wild (inflate : Bytes → Option Bytes) (m : Bytes) : recvMessage inflate m ≠ .wild := by
  unfold recvMessage
  split <;> simp

theorem frameComp_safe (inflate : Bytes → Option Bytes) (isComp : Bool) (op : Nat) (b : RBuf) (data : Bytes)
    (last : Bool) (hI : ∃ T d, BufInv b T d) :
    frameComp true true inflate isComp op b data last = .error ∨
    ∃ evs b', frameComp true true inflate isComp op b data last = .ok evs b' ∧ Ev.wild ∉ evs ∧
      ∃ T d, BufInv b' T d := by
  obtain ⟨T, d, hI⟩ := hI
  unfold frameComp
  cases isComp with
  | false => exact Or.inr ⟨_, _, rfl, by simp, T, d, hI⟩
  | true =>
    cases last with
    | true =>
      have hw : recvFrames true true inflate b [data] ≠ .wild := by
        rw [recvFrames_eq inflate [data] (by simp) b T d hI]
        split
        · simp
        · exact recvMessage_ne_wild inflate _
      simp only [if_true]
      cases hr : recvFrames true true inflate b [data] with
      | ok p => exact Or.inr ⟨_, _, rfl, by simp, 0, [], bufInv_init⟩
      | wild => exact absurd hr hw
      | pending => exact Or.inl rfl
      | error => exact Or.inl rfl
    | false =>
      obtain ⟨b', hb, hI'⟩ := reasmBytes_loop b T d data hI
      simp only [if_true, Bool.false_eq_true, if_false, hb]
      exact Or.inr ⟨_, _, rfl, by simp, _, _, hI'⟩

theorem closeErr_safe (code : Nat) (P : Conn → Prop) :
    Ev.wild ∉ (closeErr code).1 ∧ ∀ c', (closeErr code).2 = some c' → P c' := by
  simp [closeErr]

theorem dispatch_safe (inflate : Bytes → Option Bytes) (cc : Bytes → Nat) (fl : WsFlags) (op : Nat) (buf : RBuf)
    (f : Frame) (hI : ∃ T d, BufInv buf T d) :
    Ev.wild ∉ (dispatch true true inflate cc fl op buf f).1 ∧
    ∀ c', (dispatch true true inflate cc fl op buf f).2 = some c' → c'.Sane := by
  unfold dispatch
  split
  · exact closeErr_safe _ _
  · split
    · split
      · rcases frameComp_safe inflate fl.isFragCompressed fl.fragOpcode buf f.payload f.fin hI with h | ⟨evs, b', h, hw, hI'⟩
        · rw [h]; exact closeErr_safe _ _
        · rw [h]
          exact ⟨hw, fun c' hc => by cases hc; exact hI'⟩
      · exact closeErr_safe _ _
    · split
      · split
        · have hw := recvMessage_ne_wild inflate f.payload
          cases hr : recvMessage inflate f.payload with
          | ok p => exact ⟨by simp, fun c' hc => by cases hc; exact ⟨0, [], bufInv_init⟩⟩
          | wild => exact absurd hr hw
          | pending => exact closeErr_safe _ _
          | error => exact closeErr_safe _ _
        · exact ⟨by simp, fun c' hc => by cases hc; exact hI⟩
      · split
        · split
          · exact closeErr_safe _ _
          · exact ⟨by simp, fun c' hc => by cases hc; exact hI⟩
        · split
          · split
            · exact closeErr_safe _ _
            · exact ⟨by simp, fun c' hc => by cases hc; exact hI⟩
          · split
            · exact ⟨by simp, fun c' hc => by cases hc⟩
            · exact closeErr_safe _ _

theorem handleFrame_safe (clr : Bool) (inflate : Bytes → Option Bytes) (cc : Bytes → Nat) (c : Conn) (f : Frame)
    (hI : c.Sane) :
    Ev.wild ∉ (handleFrame clr true true inflate cc c f).1 ∧
    ∀ c', (handleFrame clr true true inflate cc c f).2 = some c' → c'.Sane := by
  unfold handleFrame
  split
  · exact closeErr_safe _ _
  · split
    · exact closeErr_safe _ _
    · split
      · exact closeErr_safe _ _
      · exact dispatch_safe inflate cc _ _ c.buf f hI

/-- ANY sequence of ANY frames (any opcodes, RSV bits, FIN bits, lengths — legal or not) through the dispatch of
    the code now, with ANY inflater: never a copy outside the reassembly buffer, never the buffer pointer used
    without a buffer — also when the flag `is_frag_compressed` is (wrongly) cleared by control frames. -/
theorem runFrames_safe (clr : Bool) (inflate : Bytes → Option Bytes) (cc : Bytes → Nat) (frames : List Frame) (c : Conn)
    (hI : c.Sane) : Ev.wild ∉ (runFrames clr true true inflate cc c frames).1 := by
  induction frames generalizing c with
  | nil => simp [runFrames]
  | cons f rest ih =>
    have h := handleFrame_safe clr inflate cc c f hI
    rw [runFrames]
    cases hr : handleFrame clr true true inflate cc c f with
    | mk evs oc =>
      rw [hr] at h
      cases oc with
      | none => exact h.1
      | some c' =>
        simp only [List.mem_append, not_or]
        exact ⟨h.1, ih c' (h.2 c' rfl)⟩

theorem conn_init_sane : Conn.init.Sane := ⟨0, [], bufInv_init⟩

end Cjet.Deflate
