/-
  DaemonC03Lts — the router as a labelled transition system over the routing view.

  `RS` is what the router owns: per peer (connection, address token, routing table), the uuid
  counter, the timer counter and the timer observations emitted so far (newest first).  Every
  operation of the daemon model is a sequence of the six labelled steps below (`DaemonC03Sim`);
  the invariants are proved once per label (`DaemonC03Inv`).
-/
import Cjet.Lemmas.DaemonC03Basic
import Cjet.Lemmas.DaemonC03Rid

namespace Cjet.Daemon.C03

open Cjet Cjet.Json Cjet.Daemon

structure RS where
  V : List PV
  uuid : Nat
  nt : Nat
  tl : List Obs

/-- the router's share of a working context -/
def rs (x : Ctx) : RS := ⟨x.st.peers.map pview, x.st.uuid, x.st.nextTimer, tobs x.out⟩

theorem Frame.rs_eq {x y : Ctx} (h : Frame x y) : rs y = rs x := by
  simp [rs, h.peers, h.uuid, h.nextTimer, h.tobs]

/-! ## operations on views -/

def vRoutes (V : List PV) : List Route := V.flatMap (·.routes)

/-- the routing table of (the first peer with) connection `o` -/
def vTable (V : List PV) (o : Nat) : List Route :=
  match V.find? (·.conn == o) with
  | some v => v.routes
  | none => []

def vAdd (V : List PV) (o : Nat) (r : Route) : List PV :=
  V.map (fun v => if v.conn == o then { v with routes := v.routes ++ [r] } else v)

def vRemove (V : List PV) (o : Nat) (rid : Bytes) : List PV :=
  V.map (fun v => if v.conn == o then { v with routes := v.routes.filter (·.rid != rid) } else v)

def vClose (V : List PV) (c : Nat) : List PV :=
  (V.filter (·.conn != c)).map (fun v => { v with routes := v.routes.filter (·.requester != c) })

/-- the requests of `c` waiting in the tables of the other peers -/
def vMine (V : List PV) (c : Nat) : List Route :=
  (V.map (fun v => if v.conn == c then { v with routes := [] } else v)).flatMap
    (fun v => v.routes.filter (·.requester == c))

/-- routing entries released when `c` goes away, in the order of `free_peer_resources` -/
def vCloseRoutes (V : List PV) (c : Nat) : List Route := vTable V c ++ vMine V c

def tickU (u : Nat) : Nat := (u + 1) % 4294967296

/-! ## labels -/

inductive Lbl where
  | tick                                 -- an id was generated, the request refused before the timer
  | full                                 -- id + timer, the table refused the entry
  | issue (r : Route) (tns : Nat)        -- entry stored, timer armed, request forwarded
  | issueFail (r : Route) (tns : Nat)    -- the same, but the send to the owner failed: undone
  | drop (o : Nat) (r : Route)           -- entry `r` of `o`'s table resolved (reply or expiry)
  | close (c : Nat)                      -- peer `c` released
  | connect (c : Nat) (addr : Bytes)     -- a new peer

def Lbl.ticks : Lbl → Nat
  | .drop _ _ => 0
  | .close _ => 0
  | .connect _ _ => 0
  | _ => 1

def app : Lbl → RS → RS
  | .tick, a => { a with uuid := tickU a.uuid }
  | .full, a => { a with uuid := tickU a.uuid, nt := a.nt + 1, tl := .timerDestroy a.nt :: a.tl }
  | .issue r tns, a =>
    { V := vAdd a.V r.owner r, uuid := tickU a.uuid, nt := a.nt + 1, tl := .timerArm a.nt tns :: a.tl }
  | .issueFail r tns, a =>
    { V := vRemove (vAdd a.V r.owner r) r.owner r.rid, uuid := tickU a.uuid, nt := a.nt + 1,
      tl := .timerDestroy a.nt :: .timerArm a.nt tns :: a.tl }
  | .drop o r, a => { a with V := vRemove a.V o r.rid, tl := .timerDestroy r.timer :: a.tl }
  | .close c, a =>
    { a with V := vClose a.V c, tl := ((vCloseRoutes a.V c).map (fun r => Obs.timerDestroy r.timer)).reverse ++ a.tl }
  | .connect c addr, a => { a with V := a.V ++ [⟨c, addr, []⟩] }

/-- a new entry as `alloc_routing_request` + `setup_routing_information` build it -/
def Fresh (a : RS) (r : Route) : Prop :=
  ∃ q ∈ a.V, r.requester = q.conn ∧ r.rid = routedId r.originId a.uuid q.addr ∧ r.timer = a.nt

def Pre : Lbl → RS → Prop
  | .tick, _ => True
  | .full, _ => True
  | .issue r _, a => Fresh a r
  | .issueFail r _, a => Fresh a r
  | .drop o r, a => r ∈ vTable a.V o
  | .close c, a => ∃ v ∈ a.V, v.conn = c
  | .connect c _, a => ∀ v ∈ a.V, v.conn ≠ c

def Steps : List Lbl → RS → RS → Prop
  | [], a, b => b = a
  | l :: ls, a, b => Pre l a ∧ Steps ls (app l a) b

theorem Steps.nil (a : RS) : Steps [] a a := rfl

theorem Steps.single {l : Lbl} {a : RS} (h : Pre l a) : Steps [l] a (app l a) := ⟨h, rfl⟩

theorem Steps.append {l₁ l₂ : List Lbl} {a b c : RS} (h₁ : Steps l₁ a b) (h₂ : Steps l₂ b c) :
    Steps (l₁ ++ l₂) a c := by
  induction l₁ generalizing a with
  | nil => cases h₁; exact h₂
  | cons l ls ih => exact ⟨h₁.1, ih h₁.2⟩

theorem Steps.of_eq {a b : RS} (h : b = a) : Steps [] a b := h

def ticksOf (ls : List Lbl) : Nat := (ls.map Lbl.ticks).sum

@[simp] theorem ticksOf_nil : ticksOf [] = 0 := rfl
@[simp] theorem ticksOf_cons (l : Lbl) (ls : List Lbl) : ticksOf (l :: ls) = l.ticks + ticksOf ls := by
  simp [ticksOf]
@[simp] theorem ticksOf_append (l₁ l₂ : List Lbl) : ticksOf (l₁ ++ l₂) = ticksOf l₁ + ticksOf l₂ := by
  simp [ticksOf]

/-! ## view operations: elementary facts -/

@[simp] theorem vAdd_conns (V : List PV) (o : Nat) (r : Route) : (vAdd V o r).map (·.conn) = V.map (·.conn) := by
  unfold vAdd
  rw [List.map_map]
  apply List.map_congr_left
  intro v _
  simp only [Function.comp]
  split <;> rfl

@[simp] theorem vRemove_conns (V : List PV) (o : Nat) (rid : Bytes) :
    (vRemove V o rid).map (·.conn) = V.map (·.conn) := by
  unfold vRemove
  rw [List.map_map]
  apply List.map_congr_left
  intro v _
  simp only [Function.comp]
  split <;> rfl

theorem mem_vAdd {V : List PV} {o : Nat} {r : Route} {w : PV} :
    w ∈ vAdd V o r ↔ ∃ v ∈ V, w = if v.conn == o then { v with routes := v.routes ++ [r] } else v := by
  unfold vAdd
  rw [List.mem_map]
  constructor <;> rintro ⟨v, hv, h⟩ <;> exact ⟨v, hv, h.symm⟩

theorem mem_vRemove {V : List PV} {o : Nat} {rid : Bytes} {w : PV} :
    w ∈ vRemove V o rid ↔
      ∃ v ∈ V, w = if v.conn == o then { v with routes := v.routes.filter (·.rid != rid) } else v := by
  unfold vRemove
  rw [List.mem_map]
  constructor <;> rintro ⟨v, hv, h⟩ <;> exact ⟨v, hv, h.symm⟩

theorem mem_vClose {V : List PV} {c : Nat} {w : PV} :
    w ∈ vClose V c ↔
      ∃ v ∈ V, v.conn ≠ c ∧ w = { v with routes := v.routes.filter (·.requester != c) } := by
  unfold vClose
  rw [List.mem_map]
  constructor
  · rintro ⟨v, hv, h⟩
    rw [List.mem_filter] at hv
    exact ⟨v, hv.1, by simpa using hv.2, h.symm⟩
  · rintro ⟨v, hv, hc, h⟩
    exact ⟨v, List.mem_filter.mpr ⟨hv, by simpa using hc⟩, h.symm⟩

theorem mem_vRoutes {V : List PV} {r : Route} : r ∈ vRoutes V ↔ ∃ v ∈ V, r ∈ v.routes := by
  unfold vRoutes
  exact List.mem_flatMap

/-- with distinct connection numbers, the table of `o` is the table of THE peer `o` -/
theorem vTable_of_mem {V : List PV} (hn : (V.map (·.conn)).Nodup) {v : PV} (hv : v ∈ V) :
    vTable V v.conn = v.routes := by
  unfold vTable
  induction V with
  | nil => cases hv
  | cons w t ih =>
    simp only [List.map_cons, List.nodup_cons] at hn
    simp only [List.find?_cons]
    rcases List.mem_cons.mp hv with rfl | hvt
    · simp
    · have : (w.conn == v.conn) = false := by
        simp only [beq_eq_false_iff_ne, ne_eq]
        intro h
        exact hn.1 (h ▸ List.mem_map_of_mem hvt)
      rw [this]
      exact ih hn.2 hvt

theorem vTable_mem {V : List PV} {o : Nat} {r : Route} (h : r ∈ vTable V o) :
    ∃ v ∈ V, v.conn = o ∧ r ∈ v.routes := by
  unfold vTable at h
  split at h
  · next v hv =>
    refine ⟨v, List.mem_of_find?_eq_some hv, ?_, h⟩
    simpa using List.find?_some hv
  · cases h

theorem vTable_subset_vRoutes {V : List PV} {o : Nat} {r : Route} (h : r ∈ vTable V o) : r ∈ vRoutes V := by
  obtain ⟨v, hv, _, hr⟩ := vTable_mem h
  exact mem_vRoutes.mpr ⟨v, hv, hr⟩

theorem vAdd_of_not_mem {V : List PV} {o : Nat} {r : Route} (h : o ∉ V.map (·.conn)) : vAdd V o r = V := by
  unfold vAdd
  conv => rhs; rw [← List.map_id V]
  apply List.map_congr_left
  intro v hv
  have : (v.conn == o) = false := by
    simp only [beq_eq_false_iff_ne, ne_eq]
    intro e
    exact h (e ▸ List.mem_map_of_mem hv)
  simp [this]

theorem vRoutes_cons (v : PV) (V : List PV) : vRoutes (v :: V) = v.routes ++ vRoutes V := by
  simp [vRoutes]

theorem mem_vRoutes_vAdd {V : List PV} {o : Nat} {r r' : Route} (h : r' ∈ vRoutes (vAdd V o r)) :
    r' ∈ vRoutes V ∨ r' = r := by
  obtain ⟨w, hw, hr⟩ := mem_vRoutes.mp h
  obtain ⟨v, hv, rfl⟩ := mem_vAdd.mp hw
  split at hr
  · simp only [List.mem_append, List.mem_singleton] at hr
    rcases hr with hr | hr
    · exact Or.inl (mem_vRoutes.mpr ⟨v, hv, hr⟩)
    · exact Or.inr hr
  · exact Or.inl (mem_vRoutes.mpr ⟨v, hv, hr⟩)

theorem mem_vRoutes_vAdd_of_mem {V : List PV} {o : Nat} {r r' : Route} (h : r' ∈ vRoutes V) :
    r' ∈ vRoutes (vAdd V o r) := by
  obtain ⟨v, hv, hr⟩ := mem_vRoutes.mp h
  refine mem_vRoutes.mpr ⟨_, mem_vAdd.mpr ⟨v, hv, rfl⟩, ?_⟩
  split
  · simp [hr]
  · exact hr

/-- appending an entry whose key (timer, id, …) is new keeps the keys distinct -/
theorem nodup_vRoutes_vAdd {β : Type} (f : Route → β) {V : List PV} {o : Nat} {r : Route}
    (hc : (V.map (·.conn)).Nodup) (hn : ((vRoutes V).map f).Nodup) (hnew : ∀ a ∈ vRoutes V, f a ≠ f r) :
    ((vRoutes (vAdd V o r)).map f).Nodup := by
  induction V with
  | nil => simp [vAdd, vRoutes]
  | cons v t ih =>
    simp only [List.map_cons, List.nodup_cons] at hc
    rw [vRoutes_cons, List.map_append, List.nodup_append] at hn
    have hnew_t : ∀ a ∈ vRoutes t, f a ≠ f r := fun a ha => hnew a (by rw [vRoutes_cons]; simp [ha])
    have hnew_v : ∀ a ∈ v.routes, f a ≠ f r := fun a ha => hnew a (by rw [vRoutes_cons]; simp [ha])
    show ((vRoutes ((if v.conn == o then { v with routes := v.routes ++ [r] } else v) :: vAdd t o r)).map f).Nodup
    rw [vRoutes_cons, List.map_append, List.nodup_append]
    by_cases hvo : v.conn = o
    · have hnot : o ∉ t.map (·.conn) := hvo ▸ hc.1
      rw [vAdd_of_not_mem hnot]
      simp only [hvo, beq_self_eq_true, ↓reduceIte, List.map_append, List.map_cons, List.map_nil]
      refine ⟨?_, hn.2.1, ?_⟩
      · rw [List.nodup_append]
        refine ⟨hn.1, by simp, ?_⟩
        intro a ha b hb
        simp only [List.mem_singleton] at hb
        obtain ⟨a', ha', rfl⟩ := List.mem_map.mp ha
        rw [hb]; exact hnew_v a' ha'
      · intro a ha b hb
        simp only [List.mem_append, List.mem_singleton] at ha
        rcases ha with ha | ha
        · exact hn.2.2 a ha b hb
        · obtain ⟨b', hb', rfl⟩ := List.mem_map.mp hb
          rw [ha]; exact fun e => hnew_t b' hb' e.symm
    · have : (v.conn == o) = false := by simpa using hvo
      simp only [this, Bool.false_eq_true, ↓reduceIte]
      refine ⟨hn.1, ih hc.2 hn.2.1 hnew_t, ?_⟩
      intro a ha b hb
      obtain ⟨b', hb', rfl⟩ := List.mem_map.mp hb
      rcases mem_vRoutes_vAdd hb' with hb'' | rfl
      · exact hn.2.2 a ha _ (List.mem_map_of_mem hb'')
      · obtain ⟨a', ha', rfl⟩ := List.mem_map.mp ha
        exact hnew_v a' ha'

/-- shrinking tables gives a sublist of all entries -/
theorem vRoutes_map_sublist {V : List PV} (g : PV → PV) (hg : ∀ v, (g v).routes.Sublist v.routes) :
    (vRoutes (V.map g)).Sublist (vRoutes V) := by
  induction V with
  | nil => simp [vRoutes]
  | cons v t ih =>
    rw [List.map_cons, vRoutes_cons, vRoutes_cons]
    exact List.Sublist.append (hg v) ih

theorem vRoutes_filter_sublist {V : List PV} (p : PV → Bool) : (vRoutes (V.filter p)).Sublist (vRoutes V) := by
  induction V with
  | nil => simp [vRoutes]
  | cons v t ih =>
    rw [List.filter_cons, vRoutes_cons]
    split
    · rw [vRoutes_cons]; exact List.Sublist.append (List.Sublist.refl _) ih
    · exact List.Sublist.trans ih (List.sublist_append_right _ _)

theorem vRoutes_vRemove_sublist (V : List PV) (o : Nat) (rid : Bytes) :
    (vRoutes (vRemove V o rid)).Sublist (vRoutes V) := by
  apply vRoutes_map_sublist
  intro v
  split
  · exact List.filter_sublist
  · exact List.Sublist.refl _

theorem vRoutes_vClose_sublist (V : List PV) (c : Nat) : (vRoutes (vClose V c)).Sublist (vRoutes V) := by
  unfold vClose
  refine List.Sublist.trans (vRoutes_map_sublist _ (fun v => ?_)) (vRoutes_filter_sublist _)
  exact List.filter_sublist

/-- keys distinct ⇒ an entry is determined by its key -/
theorem eq_of_nodup_map {α β : Type} (f : α → β) {l : List α} (hn : (l.map f).Nodup) {a b : α}
    (ha : a ∈ l) (hb : b ∈ l) (h : f a = f b) : a = b := by
  induction l with
  | nil => cases ha
  | cons x t ih =>
    simp only [List.map_cons, List.nodup_cons] at hn
    rcases List.mem_cons.mp ha with rfl | ha' <;> rcases List.mem_cons.mp hb with rfl | hb'
    · rfl
    · exact absurd (h ▸ List.mem_map_of_mem hb') hn.1
    · exact absurd (h ▸ List.mem_map_of_mem ha') hn.1
    · exact ih hn.2 ha' hb'

/-! ## the structural invariant of the routing tables -/

/-- Well-formedness of the routing tables (unconditional invariant of the daemon):
    connection numbers are distinct; an entry stored in `o`'s table names `o` as its owner;
    its requester is a connected peer; its timer id is below the timer counter and no two entries
    share a timer. -/
structure WfV (V : List PV) (nt : Nat) : Prop where
  conns : (V.map (·.conn)).Nodup
  owner : ∀ v ∈ V, ∀ r ∈ v.routes, r.owner = v.conn
  requester : ∀ r ∈ vRoutes V, r.requester ∈ V.map (·.conn)
  timerLt : ∀ r ∈ vRoutes V, r.timer < nt
  timers : ((vRoutes V).map (·.timer)).Nodup

def RS.Wf (a : RS) : Prop := WfV a.V a.nt

/-- under `WfV`, an entry found anywhere sits in the table of the peer it names as owner -/
theorem WfV.mem_table {V : List PV} {nt : Nat} (h : WfV V nt) {r : Route} (hr : r ∈ vRoutes V) :
    r ∈ vTable V r.owner := by
  obtain ⟨v, hv, hrv⟩ := mem_vRoutes.mp hr
  rw [h.owner v hv r hrv, vTable_of_mem h.conns hv]
  exact hrv

theorem WfV.table_owner {V : List PV} {nt : Nat} (h : WfV V nt) {o : Nat} {r : Route} (hr : r ∈ vTable V o) :
    r.owner = o := by
  obtain ⟨v, hv, hc, hrv⟩ := vTable_mem hr
  rw [h.owner v hv r hrv, hc]

end Cjet.Daemon.C03
