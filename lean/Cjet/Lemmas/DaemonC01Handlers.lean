/-
  C01 — every request handler, the response, `parseJsonRpc`.
-/
import Cjet.Lemmas.DaemonC01Step

namespace Cjet.Daemon.C01

open Cjet Cjet.Json Cjet.Daemon

/-- what a handler (a function returning the new context and the response) guarantees -/
structure HOK (cfg : Config) (x : Ctx) (req : Json) (pc : Nat) (r : Ctx × Option Json) : Prop where
  step : ∃ ns, Emits x r.1 ns ∧ StepOK cfg x.st r.1.st ns
  resp : ∀ j, r.2 = some j → IsResp j
  /-- a fetch is installed only for the requesting connection `pc`, and then the response is the
      success response -/
  succ : ∀ c f, HasFetch r.1.st c f → ¬ HasFetch x.st c f → r.2 = successFromRequest req ∧ c = pc

theorem HOK.transN {cfg : Config} {pc : Nat} {x : Ctx} {req : Json} {r : Ctx × Option Json} {ns : List (Nat × Notif)}
    (he : Emits x r.1 ns) (ht : TransN cfg x.st r.1.st ns) (hr : ∀ j, r.2 = some j → IsResp j) :
    HOK cfg x req pc r :=
  ⟨⟨ns, he, ht.stepOK⟩, hr, fun c f h1 h2 => absurd (ht.noNew c f h1) h2⟩

theorem HOK.quiet {cfg : Config} {pc : Nat} {x : Ctx} {req : Json} {r : Ctx × Option Json} (inv : Inv cfg x.st)
    (hq : Quiet x r.1) (hr : ∀ j, r.2 = some j → IsResp j) : HOK cfg x req pc r :=
  HOK.transN hq.emits (hq.transN inv) hr

theorem HOK.err {cfg : Config} {pc : Nat} {x : Ctx} {req : Json} (inv : Inv cfg x.st) (req' : Json) (code : Int)
    (tag : String) (reason : Bytes) : HOK cfg x req pc (x, errorFromRequest req' code tag reason) :=
  HOK.quiet inv (Quiet.refl x) (fun _ h => isResp_errorFromRequest h)

theorem HOK.res {cfg : Config} {pc : Nat} {x : Ctx} {req : Json} (inv : Inv cfg x.st) (req' result : Json) :
    HOK cfg x req pc (x, resultFromRequest req' result) :=
  HOK.quiet inv (Quiet.refl x) (fun _ h => isResp_resultFromRequest h)

theorem getParamsAndPath_err {req : Json} {r : Option Json} (h : getParamsAndPath req = .err r) :
    ∀ j, r = some j → IsResp j := by
  unfold getParamsAndPath at h
  intro j hj
  subst hj
  split at h
  · simp only [PathResult.err.injEq] at h; exact isResp_errorFromRequest h
  · split at h
    · simp only [PathResult.err.injEq] at h; exact isResp_errorFromRequest h
    · cases h
    · simp only [PathResult.err.injEq] at h; exact isResp_errorFromRequest h

theorem getFetchId_err {req : Json} {b : Bool} {r : Option Json} (h : getFetchId req b = .err r) :
    ∀ j, r = some j → IsResp j := by
  unfold getFetchId at h
  intro j hj
  subst hj
  split at h
  · simp only [FetchIdResult.err.injEq] at h; exact isResp_errorFromRequest h
  · split at h
    · simp only [FetchIdResult.err.injEq] at h; exact isResp_errorFromRequest h
    · split at h
      · simp only [FetchIdResult.err.injEq] at h; exact isResp_errorFromRequest h
      · cases h
      · cases h
      · simp only [FetchIdResult.err.injEq] at h; exact isResp_errorFromRequest h

theorem getFetchId_ok {req : Json} {b : Bool} {params fid : Json} (h : getFetchId req b = .ok params fid) :
    idsEqual fid fid = true := by
  unfold getFetchId at h
  split at h
  · cases h
  · split at h
    · cases h
    · split at h
      · cases h
      · simp only [FetchIdResult.ok.injEq] at h; rw [← h.2]; simp [idsEqual]
      · simp only [FetchIdResult.ok.injEq] at h; rw [← h.2]; simp [idsEqual]
      · cases h

theorem getCredentials_err {req : Json} {r : Option Json} (h : getCredentials req = .err r) :
    ∀ j, r = some j → IsResp j := by
  unfold getCredentials at h
  intro j hj
  subst hj
  split at h
  · simp only [CredResult.err.injEq] at h; exact isResp_errorFromRequest h
  · split at h
    · simp only [CredResult.err.injEq] at h; exact isResp_errorFromRequest h
    · split at h
      · simp only [CredResult.err.injEq] at h; exact isResp_errorFromRequest h
      · cases h
      · simp only [CredResult.err.injEq] at h; exact isResp_errorFromRequest h
    · simp only [CredResult.err.injEq] at h; exact isResp_errorFromRequest h

/-! ## quiet handlers -/

/-- quiet work plus a response that is no notification -/
def QOK (x0 : Ctx) (r : Ctx × Option Json) : Prop := Quiet x0 r.1 ∧ ∀ j, r.2 = some j → IsResp j

theorem QOK.hok {cfg : Config} {pc : Nat} {x : Ctx} {req : Json} {r : Ctx × Option Json} (inv : Inv cfg x.st)
    (h : QOK x r) : HOK cfg x req pc r := HOK.quiet inv h.1 h.2

/-! `setOrCall` cut into pieces with one decision each -/

def routeSend (x : Ctx) (req : Json) (e : Element) (rid path : Bytes) (isState : Bool) (value : Option Json)
    (t : Nat) : Ctx × Option Json :=
  let (x, ok) := send x e.owner (routedMessage rid path isState value)
  if ok then (x, none)
  else
    let x := emit { x with st := { x.st with peers := removeRoute x.st.peers e.owner rid } } (.timerDestroy t)
    (x, errorFromRequest req INTERNAL_ERROR "reason" (k "could not send routing information"))

def routeStore (x : Ctx) (p : Peer) (req : Json) (e : Element) (rid path : Bytes) (isState : Bool)
    (value originId : Option Json) (tns : Nat) : Ctx × Option Json :=
  let t := x.st.nextTimer
  let x := { x with st := { x.st with nextTimer := t + 1 } }
  if x.routeFull then
    ({ emit x (.timerDestroy t) with routeFull := false },
     errorFromRequest req INTERNAL_ERROR "reason" (k "routing table full"))
  else
    let r : Route := { rid := rid, requester := p.conn, owner := e.owner, originId := originId, timer := t }
    let st := { x.st with peers := updatePeer x.st.peers e.owner (fun q => { q with routes := q.routes ++ [r] }) }
    let x := emit { x with st := st } (.timerArm t tns)
    routeSend x req e rid path isState value t

def routeTimeout (cfg : Config) (x : Ctx) (p : Peer) (req params : Json) (e : Element) (rid path : Bytes)
    (isState : Bool) (value originId : Option Json) : Ctx × Option Json :=
  if isState && value.isNone then
    (x, errorFromRequest req INVALID_PARAMS "reason" (k "no value found"))
  else
    match getTimeout cfg (params.getItem (k "timeout")) e.timeoutNs with
    | .err reason => (x, errorFromRequest req INVALID_PARAMS "reason" (k reason))
    | .ns tns => routeStore x p req e rid path isState value originId tns

def routeBody (cfg : Config) (x : Ctx) (p : Peer) (req params : Json) (path : Bytes) (e : Element)
    (isState : Bool) (originId : Option Json) : Ctx × Option Json :=
  routeTimeout cfg { x with st := { x.st with uuid := (x.st.uuid + 1) % 4294967296 } } p req params e
    (routedId originId x.st.uuid p.addrTok) path isState
    (if isState then params.getItem (k "value") else params.getItem (k "args")) originId

theorem setOrCall_eq (cfg : Config) (x : Ctx) (p : Peer) (req : Json) (isState : Bool) :
    setOrCall cfg x p req isState =
    match getParamsAndPath req with
    | .err r => (x, r)
    | .ok params path =>
      match findElement x.st path with
      | none => (x, errorFromRequest req INVALID_PARAMS "not exists" path)
      | some e =>
        if e.fetchOnly then (x, errorFromRequest req INVALID_PARAMS "fetchOnly" path)
        else if isState != e.value.isSome then
          (x, errorFromRequest req INVALID_PARAMS "set/call on element not possible" path)
        else if !(if isState then hasAccess cfg e.setGroups p.setGroups else hasAccess cfg e.callGroups p.callGroups) then
          (x, errorFromRequest req INVALID_PARAMS "request not authorized" path)
        else
          match req.getItem (k "id") with
          | some (.str _) | some (.num _) | none =>
            routeBody cfg x p req params path e isState (req.getItem (k "id"))
          | some _ => (x, errorFromRequest req INVALID_PARAMS "request id is neither string nor number" path) := by
  rfl

theorem routeSend_q {x0 x : Ctx} (hq : Quiet x0 x) (req : Json) (e : Element) (rid path : Bytes)
    (isState : Bool) (value : Option Json) (t : Nat) : QOK x0 (routeSend x req e rid path isState value t) := by
  unfold routeSend
  have q1 : Quiet x0 (send x e.owner (routedMessage rid path isState value)).1 :=
    hq.trans (quiet_send_resp _ e.owner (isResp_routedMessage rid path isState value))
  split
  next x' ok hsend =>
  have q2 : Quiet x0 x' := by rw [hsend] at q1; exact q1
  split
  · exact ⟨q2, fun _ h => by cases h⟩
  · refine ⟨?_, fun _ h => isResp_errorFromRequest h⟩
    refine q2.trans (Quiet.trans ?_ (quiet_emit_timerDestroy _ _))
    exact quiet_of_st _ _ rfl (coreEq_removeRoute _ _ _)

theorem routeStore_q {x0 x : Ctx} (hq : Quiet x0 x) (p : Peer) (req : Json) (e : Element) (rid path : Bytes)
    (isState : Bool) (value originId : Option Json) (tns : Nat) :
    QOK x0 (routeStore x p req e rid path isState value originId tns) := by
  unfold routeStore
  dsimp only
  have q1 : Quiet x0 { x with st := { x.st with nextTimer := x.st.nextTimer + 1 } } :=
    hq.trans (quiet_of_st _ _ rfl ⟨rfl, rfl, rfl, rfl⟩)
  split
  · refine ⟨?_, fun _ h => isResp_errorFromRequest h⟩
    exact q1.trans ((quiet_emit_timerDestroy _ _).trans (quiet_of_st _ _ rfl ⟨rfl, rfl, rfl, rfl⟩))
  · apply routeSend_q
    refine q1.trans (Quiet.trans ?_ (quiet_emit_timerArm _ _ _))
    refine quiet_of_st _ _ ?_ ?_
    · rfl
    · exact CoreEq.of_updatePeer _ _ e.owner _ rfl rfl rfl (fun _ => ⟨rfl, rfl⟩)

theorem routeTimeout_q {cfg : Config} {x0 x : Ctx} (hq : Quiet x0 x) (p : Peer) (req params : Json)
    (e : Element) (rid path : Bytes) (isState : Bool) (value originId : Option Json) :
    QOK x0 (routeTimeout cfg x p req params e rid path isState value originId) := by
  unfold routeTimeout
  split
  · exact ⟨hq, fun _ h => isResp_errorFromRequest h⟩
  · split
    · exact ⟨hq, fun _ h => isResp_errorFromRequest h⟩
    · exact routeStore_q hq ..

theorem routeBody_ok {cfg : Config} {pc : Nat} {x : Ctx} (inv : Inv cfg x.st) (p : Peer) (req params : Json)
    (path : Bytes) (e : Element) (isState : Bool) (originId : Option Json) :
    HOK cfg x req pc (routeBody cfg x p req params path e isState originId) := by
  unfold routeBody
  exact (routeTimeout_q (quiet_of_st x { x with st := { x.st with uuid := (x.st.uuid + 1) % 4294967296 } }
    rfl ⟨rfl, rfl, rfl, rfl⟩) ..).hok inv

theorem setOrCall_ok {cfg : Config} {pc : Nat} {x : Ctx} (inv : Inv cfg x.st) (p : Peer) (req : Json) (isState : Bool) :
    HOK cfg x req pc (setOrCall cfg x p req isState) := by
  rw [setOrCall_eq]
  split
  · next r hr => exact HOK.quiet inv (Quiet.refl x) (getParamsAndPath_err hr)
  · repeat' split
    all_goals first
      | exact HOK.err inv ..
      | exact routeBody_ok inv ..

theorem configReq_ok {cfg : Config} {pc : Nat} {x : Ctx} (inv : Inv cfg x.st) (p : Peer) (req : Json) :
    HOK cfg x req pc (configReq x p req) := by
  unfold configReq
  split
  · exact HOK.err inv ..
  · split
    · exact HOK.res inv ..
    · next n _ =>
      refine HOK.quiet inv ?_ (fun _ h => isResp_successFromRequest h)
      refine quiet_of_st _ _ ?_ ?_
      · rfl
      · exact CoreEq.of_updatePeer _ _ p.conn (fun q => { q with name := some n }) rfl rfl rfl (fun _ => ⟨rfl, rfl⟩)
    · exact HOK.err inv ..

theorem infoReq_ok {cfg : Config} {pc : Nat} {x : Ctx} (inv : Inv cfg x.st) (req : Json) :
    HOK cfg x req pc (infoReq cfg x req) := by
  unfold infoReq
  exact HOK.res inv ..

theorem getReq_ok {cfg : Config} {pc : Nat} {x : Ctx} (inv : Inv cfg x.st) (p : Peer) (req : Json) :
    HOK cfg x req pc (getReq cfg x p req) := by
  unfold getReq
  split
  · exact HOK.err inv ..
  · split
    · exact HOK.err inv ..
    · exact HOK.res inv ..

theorem passwdReq_ok {cfg : Config} {pc : Nat} {x : Ctx} (inv : Inv cfg x.st) (p : Peer) (req : Json) :
    HOK cfg x req pc (passwdReq x p req) := by
  unfold passwdReq
  split
  · next r hr => exact HOK.quiet inv (Quiet.refl x) (getCredentials_err hr)
  · repeat' first | split | (dsimp only; split)
    all_goals first
      | exact HOK.err inv ..
      | exact HOK.quiet inv (quiet_of_st _ _ rfl ⟨rfl, rfl, rfl, rfl⟩) (fun _ h => isResp_successFromRequest h)

end Cjet.Daemon.C01
