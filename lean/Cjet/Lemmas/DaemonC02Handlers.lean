/-
  C02 helper lemmas, part 2: every handler reached from `handleMethod` except set/call
  only sends fetch notifications, leaves the routing tables alone and returns a value built by
  one of the `…FromRequest` constructors from the request it was given (`HandlerOK`).
  set/call (`setOrCall`) is characterised separately (`SetOrCallSpec`).
-/
import Cjet.Lemmas.DaemonC02Basic

namespace Cjet.Daemon.C02

open Cjet Cjet.Json Cjet.Daemon

structure HandlerOK (req : Json) (x : Ctx) (r : Ctx × Option Json) : Prop where
  frame : Frame IsNotif x r.1
  resp : FromReq req r.2

/-- a record built from pieces of `y` with a new state that keeps the routing tables -/
theorem Frame.mk' {P : Obs → Prop} {x : Ctx} (y : Ctx) (st : State) (sends : List Bool) (idx rf : Bool)
    (h : Frame P x y) (hr : routesMap st.peers = routesMap y.st.peers) :
    Frame P x { st := st, out := y.out, sends := sends, indexFull := idx, routeFull := rf } :=
  ⟨h.out, hr.trans h.routes⟩

macro "hok" : tactic => `(tactic| first
  | exact ⟨Frame.refl _, FromReq.error ..⟩
  | exact ⟨Frame.refl _, FromReq.success _⟩
  | exact ⟨Frame.refl _, FromReq.result ..⟩)

theorem getParamsAndPath_err {req : Json} {r : Option Json} (h : getParamsAndPath req = .err r) :
    FromReq req r := by
  unfold getParamsAndPath at h
  split at h
  · injection h with h; subst h; exact FromReq.error ..
  · split at h
    · injection h with h; subst h; exact FromReq.error ..
    · cases h
    · injection h with h; subst h; exact FromReq.error ..

theorem getFetchId_err {req : Json} {b : Bool} {r : Option Json} (h : getFetchId req b = .err r) :
    FromReq req r := by
  unfold getFetchId at h
  split at h
  · injection h with h; subst h; exact FromReq.error ..
  · split at h
    · injection h with h; subst h; exact FromReq.error ..
    · split at h
      · injection h with h; subst h; exact FromReq.error ..
      · cases h
      · cases h
      · injection h with h; subst h; exact FromReq.error ..

theorem getCredentials_err {req : Json} {r : Option Json} (h : getCredentials req = .err r) :
    FromReq req r := by
  unfold getCredentials at h
  split at h
  · injection h with h; subst h; exact FromReq.error ..
  · split at h
    · injection h with h; subst h; exact FromReq.error ..
    · split at h
      · injection h with h; subst h; exact FromReq.error ..
      · cases h
      · injection h with h; subst h; exact FromReq.error ..
    · injection h with h; subst h; exact FromReq.error ..

/-! ## element.c -/

theorem removeElement_frame (x : Ctx) (e : Element) : Frame IsNotif x (removeElement x e) := by
  unfold removeElement
  exact (notifyFetchers_frame x e "remove").trans
    (Frame.setSt _ _ (routesMap_updatePeer _ _ _ (by intro q; exact ⟨rfl, rfl⟩)))

theorem changeState_ok (x : Ctx) (p : Peer) (req : Json) : HandlerOK req x (changeState x p req) := by
  unfold changeState
  split
  · rename_i h; exact ⟨Frame.refl _, getParamsAndPath_err h⟩
  · split
    · hok
    · split
      · hok
      · split
        · hok
        · split
          · hok
          · refine ⟨?_, FromReq.success _⟩
            exact (Frame.setSt x _ (routesMap_updatePeer _ _ _ (by intro q; exact ⟨rfl, rfl⟩))).trans
              (notifyFetchers_frame _ _ _)

theorem removeElementReq_ok (x : Ctx) (p : Peer) (req : Json) : HandlerOK req x (removeElementReq x p req) := by
  unfold removeElementReq
  split
  · rename_i h; exact ⟨Frame.refl _, getParamsAndPath_err h⟩
  · split
    · exact ⟨removeElement_frame _ _, FromReq.success _⟩
    · hok

theorem addElement_ok (cfg : Config) (x : Ctx) (p : Peer) (req : Json) :
    HandlerOK req x (addElement cfg x p req) := by
  unfold addElement
  repeat' (first | hok | split | dsimp only)
  all_goals first
    | exact ⟨Frame.mk' _ _ _ _ _ ((findFetchersForElement_frame ..).trans (notifyFetchers_frame ..)) rfl,
        FromReq.error ..⟩
    | exact ⟨Frame.mk' _ _ _ _ _ (findFetchersForElement_frame ..)
        (routesMap_updatePeer _ _ _ (by intro q; exact ⟨rfl, rfl⟩)), FromReq.success _⟩
    | exact ⟨Frame.refl _, getParamsAndPath_err (by assumption)⟩

/-! ## fetch.c -/

theorem offerAllElements_frame (cfg : Config) (x : Ctx) (fp : Peer) (f : Fetch) :
    Frame IsNotif x (offerAllElements cfg x fp f) := by
  unfold offerAllElements
  apply Frame.foldl; intro x owner _
  apply Frame.foldl; intro x e0 _
  dsimp only
  exact Frame.mk' _ _ _ _ _ (offerElement_frame ..) (routesMap_updatePeer _ _ _ (by intro q; exact ⟨rfl, rfl⟩))

theorem fetchReq_ok (cfg : Config) (x : Ctx) (p : Peer) (req : Json) :
    HandlerOK req x (fetchReq cfg x p req) := by
  unfold fetchReq
  repeat' (first | hok | split | dsimp only)
  all_goals first
    | exact ⟨Frame.refl _, getFetchId_err (by assumption)⟩
    | exact ⟨(Frame.mk' x _ _ _ _ (Frame.refl x) (routesMap_updatePeer _ _ _ (by intro q; exact ⟨rfl, rfl⟩))).trans
        (offerAllElements_frame ..), FromReq.success _⟩

theorem routesMap_dropFetch (ps : List Peer) (fk : FetchKey) : routesMap (dropFetch ps fk) = routesMap ps := by
  unfold dropFetch
  rw [routesMap_updatePeer _ _ _ (by intro q; exact ⟨rfl, rfl⟩), routesMap_mapElements]

theorem unfetchReq_ok (x : Ctx) (p : Peer) (req : Json) : HandlerOK req x (unfetchReq x p req) := by
  unfold unfetchReq
  repeat' (first | hok | split | dsimp only)
  all_goals first
    | exact ⟨Frame.refl _, getFetchId_err (by assumption)⟩
    | exact ⟨Frame.mk' x _ _ _ _ (Frame.refl x) (routesMap_dropFetch ..), FromReq.success _⟩

theorem getReq_ok (cfg : Config) (x : Ctx) (p : Peer) (req : Json) : HandlerOK req x (getReq cfg x p req) := by
  unfold getReq
  repeat' (first | hok | split | dsimp only)

theorem configReq_ok (x : Ctx) (p : Peer) (req : Json) : HandlerOK req x (configReq x p req) := by
  unfold configReq
  repeat' (first | hok | split | dsimp only)
  all_goals
    exact ⟨Frame.mk' x _ _ _ _ (Frame.refl x) (routesMap_updatePeer _ _ _ (by intro q; exact ⟨rfl, rfl⟩)),
      FromReq.success _⟩

theorem infoReq_ok (cfg : Config) (x : Ctx) (req : Json) : HandlerOK req x (infoReq cfg x req) := by
  unfold infoReq
  hok

theorem authenticateReq_ok (cfg : Config) (x : Ctx) (p : Peer) (req : Json) :
    HandlerOK req x (authenticateReq cfg x p req) := by
  unfold authenticateReq
  repeat' (first | hok | split | dsimp only)
  all_goals first
    | exact ⟨Frame.refl _, getCredentials_err (by assumption)⟩
    | exact ⟨Frame.mk' x _ _ _ _ (Frame.refl x) (routesMap_updatePeer _ _ _ (by intro q; exact ⟨rfl, rfl⟩)),
        FromReq.success _⟩

theorem passwdReq_ok (x : Ctx) (p : Peer) (req : Json) : HandlerOK req x (passwdReq x p req) := by
  unfold passwdReq
  repeat' (first | hok | split | dsimp only)
  all_goals first
    | exact ⟨Frame.refl _, getCredentials_err (by assumption)⟩
    | exact ⟨Frame.mk' x _ _ _ _ (Frame.refl x) rfl, FromReq.success _⟩

end Cjet.Daemon.C02
