/-
  C02 helper lemmas, part 8: a batch is processed as its members one by one.
-/
import Cjet.Lemmas.DaemonC02Step
import Cjet.Lemmas.DaemonC02Shift

namespace Cjet.Daemon.C02

open Cjet Cjet.Json Cjet.Daemon

/-! ## `freePeerResources` and `closePeer` do not read the recorded output -/

theorem fpr1_shift (pre : List Obs) (x : Ctx) (p : Peer) (c : Nat) :
    fpr1 (shift pre x) p c = shift pre (fpr1 x p c) := by
  unfold fpr1
  apply foldl_shift
  intro x r _
  exact clearRoute_shift ..

theorem fpr3_shift (pre : List Obs) (x : Ctx) (c : Nat) : fpr3 (shift pre x) c = shift pre (fpr3 x c) := by
  unfold fpr3
  simp only [shift_st]
  apply foldl_shift
  intro x r _
  exact clearRoute_shift ..

theorem fpr6_shift (pre : List Obs) (x : Ctx) (p : Peer) (c : Nat) :
    fpr6 (shift pre x) p c = shift pre (fpr6 x p c) := by
  unfold fpr6
  apply foldl_shift
  intro x e0 _
  simp only [shift_st]
  split
  · exact removeElement_shift ..
  · rfl

theorem freePeerResources_shift (pre : List Obs) (x : Ctx) (c : Nat) :
    freePeerResources (shift pre x) c = shift pre (freePeerResources x c) := by
  cases hp : findPeer x.st.peers c with
  | none =>
    rw [freePeerResources_none hp, freePeerResources_none (x := shift pre x) hp]
  | some p =>
    rw [freePeerResources_eq hp, freePeerResources_eq (x := shift pre x) hp, fpr1_shift]
    show fpr7 (fpr6 (fpr5 (fpr4 (fpr3 (shift pre (fpr2 (fpr1 x p c) c)) c) c) c) p c) c = _
    rw [fpr3_shift]
    show fpr7 (fpr6 (shift pre (fpr5 (fpr4 (fpr3 (fpr2 (fpr1 x p c) c) c) c) c)) p c) c = _
    rw [fpr6_shift]
    rfl

theorem closePeer_shift (pre : List Obs) (x : Ctx) (c : Nat) :
    closePeer (shift pre x) c = shift pre (closePeer x c) := by
  unfold closePeer
  rw [freePeerResources_shift]
  rfl

/-! ## the batch loop as a fold -/

/-- one step of the loop of `parse_json_array`: once a member has failed, nothing more is done -/
def batchStep (cfg : Config) (c : Nat) (acc : Ctx × Bool) (m : Json) : Ctx × Bool :=
  if acc.2 then
    match m with
    | .obj l => parseJsonRpc cfg acc.1 c (.obj l)
    | _ => (acc.1, false)
  else acc

theorem batchStep_false (cfg : Config) (c : Nat) (l : List Json) (x : Ctx) :
    l.foldl (batchStep cfg c) (x, false) = (x, false) := by
  induction l with
  | nil => rfl
  | cons m rest ih => simpa [List.foldl_cons, batchStep] using ih

theorem parseJsonArray_eq_foldl (cfg : Config) (c : Nat) (l : List Json) (x : Ctx) :
    parseJsonArray cfg x c l = l.foldl (batchStep cfg c) (x, true) := by
  induction l generalizing x with
  | nil => rfl
  | cons m rest ih =>
    cases m with
    | obj lm =>
      simp only [parseJsonArray, List.foldl_cons, batchStep, if_true]
      cases hr : parseJsonRpc cfg x c (.obj lm) with
      | mk x1 ok =>
        cases ok with
        | true => simpa using ih x1
        | false => simp [batchStep_false]
    | null | bool _ | num _ | str _ | arr _ =>
      simp [parseJsonArray, List.foldl_cons, batchStep, batchStep_false]

/-! ## a batch against separate messages, at the level of `step` -/

/-- the oracle values a context has not consumed yet -/
def restOracle (x : Ctx) : Oracle := { sends := x.sends, indexFull := x.indexFull, routeFull := x.routeFull }

theorem ctx_eq_shift (x : Ctx) : x = shift x.out (mkCtx x.st (restOracle x)) := rfl

theorem parseJsonRpc_conns (cfg : Config) (x : Ctx) (c : Nat) (req : Json) :
    conns (parseJsonRpc cfg x c req).1.st.peers = conns x.st.peers := by
  obtain ⟨_, _, hrt, _⟩ := parseJsonRpc_sends cfg x c req
  exact hrt.conns

theorem parseJsonArray_single (cfg : Config) (x : Ctx) (c : Nat) (lm : List (Bytes × Json)) :
    parseJsonArray cfg x c [.obj lm] = parseJsonRpc cfg x c (.obj lm) := by
  simp only [parseJsonArray]
  cases hr : parseJsonRpc cfg x c (.obj lm) with
  | mk x1 ok => cases ok <;> rfl

/-- the tail of `step` for a message operation, from an arbitrary context -/
def finish (c : Nat) (r : Ctx × Bool) : State × List Obs :=
  let x := if r.2 then r.1 else closePeer r.1 c
  (x.st, x.out.reverse)

theorem finish_shift (c : Nat) (pre : List Obs) (r : Ctx × Bool) :
    finish c (shift2 pre r) = ((finish c r).1, pre.reverse ++ (finish c r).2) := by
  unfold finish
  cases h : r.2 with
  | true => simp [shift2, h, List.reverse_append]
  | false => simp [shift2, h, closePeer_shift, List.reverse_append]

theorem step_message_eq (cfg : Config) (s : State) (c : Nat) (msg : Option Json) (o : Oracle)
    (hlive : (findPeer s.peers c).isSome = true) :
    step cfg s (.message c msg o) = finish c (parseMessage cfg (mkCtx s o) c msg) := by
  unfold step finish
  have : (findPeer s.peers c).isNone = false := by
    cases h : findPeer s.peers c <;> simp_all
  simp only [this, Bool.false_eq_true, if_false]

/-- First member processed successfully: the batch continues as the rest of the batch would be
    processed as a message of its own, in the state reached, with the oracle values left over. -/
theorem step_batch_cons_ok (cfg : Config) (s : State) (c : Nat) (la : List (Bytes × Json)) (rest : List Json)
    (o : Oracle) (hlive : (findPeer s.peers c).isSome = true)
    (hok : (parseJsonRpc cfg (mkCtx s o) c (.obj la)).2 = true) :
    step cfg s (.message c (some (.arr (.obj la :: rest))) o) =
      ((step cfg (step cfg s (.message c (some (.obj la)) o)).1
          (.message c (some (.arr rest)) (restOracle (parseJsonRpc cfg (mkCtx s o) c (.obj la)).1))).1,
       (step cfg s (.message c (some (.obj la)) o)).2 ++
        (step cfg (step cfg s (.message c (some (.obj la)) o)).1
          (.message c (some (.arr rest)) (restOracle (parseJsonRpc cfg (mkCtx s o) c (.obj la)).1))).2) := by
  have h1 : step cfg s (.message c (some (.obj la)) o) =
      ((parseJsonRpc cfg (mkCtx s o) c (.obj la)).1.st, (parseJsonRpc cfg (mkCtx s o) c (.obj la)).1.out.reverse) := by
    rw [step_message_eq cfg s c _ o hlive]
    simp [finish, parseMessage, hok]
  have hlive1 : (findPeer (parseJsonRpc cfg (mkCtx s o) c (.obj la)).1.st.peers c).isSome = true := by
    rw [findPeer_isSome_congr (parseJsonRpc_conns ..)]; exact hlive
  rw [h1]
  dsimp only
  rw [step_message_eq cfg s c _ o hlive, step_message_eq cfg _ c _ _ hlive1]
  have h2 : parseMessage cfg (mkCtx s o) c (some (.arr (.obj la :: rest))) =
      parseJsonArray cfg (parseJsonRpc cfg (mkCtx s o) c (.obj la)).1 c rest := by
    simp [parseMessage, parseJsonArray, hok]
  rw [h2]
  generalize parseJsonRpc cfg (mkCtx s o) c (.obj la) = r
  have h3 : parseJsonArray cfg r.1 c rest =
      shift2 r.1.out (parseJsonArray cfg (mkCtx r.1.st (restOracle r.1)) c rest) := by
    rw [← parseJsonArray_shift]; rfl
  rw [h3, finish_shift]
  rfl

/-- First member fails (or is not an object): the rest of the batch is not looked at. -/
theorem step_batch_cons_fail (cfg : Config) (s : State) (c : Nat) (la : List (Bytes × Json)) (rest : List Json)
    (o : Oracle) (hok : (parseJsonRpc cfg (mkCtx s o) c (.obj la)).2 = false) :
    step cfg s (.message c (some (.arr (.obj la :: rest))) o) = step cfg s (.message c (some (.obj la)) o) := by
  unfold step
  simp [parseMessage, parseJsonArray, hok]

theorem step_batch_single (cfg : Config) (s : State) (c : Nat) (la : List (Bytes × Json)) (o : Oracle) :
    step cfg s (.message c (some (.arr [.obj la])) o) = step cfg s (.message c (some (.obj la)) o) := by
  unfold step
  simp only [parseMessage, parseJsonArray_single]
  rfl

end Cjet.Daemon.C02
