import Cjet.Lemmas.Matcher

/-! Helper lemmas for C16: each of the twelve match functions against its `Spec`. -/

namespace Cjet.Matcher

open List
open Cjet.Generated.Matcher (CFn)

theorem b2i_ne_zero (b : Bool) : b2i b ≠ 0 ↔ b = true := by
  cases b <;> simp [b2i]

theorem containsAllLoop_ne_zero (find : Bytes → Bytes → Option Nat) (P : Bytes → Prop) (path : Bytes)
    (hfind : ∀ e, (find path e).isSome = true ↔ P e) :
    ∀ es : List Bytes, containsAllLoop find path es ≠ 0 ↔ ∀ e ∈ es, P e
  | [] => by simp [containsAllLoop]
  | e :: es => by
    have ih := containsAllLoop_ne_zero find P path hfind es
    unfold containsAllLoop
    by_cases h : (find path e).isNone = true
    · have hne : ¬ P e := by
        intro hp
        have := (hfind e).mpr hp
        simp [Option.isSome_iff_ne_none, Option.isNone_iff_eq_none] at this h
        exact this h
      simp [h, hne]
    · have hp : P e := by
        apply (hfind e).mp
        cases hh : find path e <;> simp [hh] at h ⊢
      simp [h, hp, ih]

theorem nulFree_first (pm : PathMatcher) (he : ∀ e ∈ pm.elems, NulFree e) : NulFree pm.first := by
  unfold PathMatcher.first
  cases h : pm.elems with
  | nil => simp
  | cons a t => simpa using he a (by simp [h])

theorem endswith_iff (p op : Bytes) (hp : NulFree p) (ho : NulFree op) :
    (decide (strlen p ≥ strlen op) && strcmp (p.drop (strlen p - strlen op)) op == 0) = true ↔ op <:+ p := by
  simp only [strlen, Bool.and_eq_true, beq_iff_eq]
  rw [strcmp_eq_zero _ _ (nulFree_drop hp _) ho, List.suffix_iff_eq_drop]
  constructor
  · rintro ⟨_, h⟩
    exact h.symm
  · intro h
    refine ⟨?_, h.symm⟩
    have := congrArg List.length h
    simp only [List.length_drop] at this
    apply decide_eq_true
    omega

/-- Each of the twelve match functions returns non-zero exactly when its `Spec` holds. -/
theorem evalFn_spec (fn : CFn) (pm : PathMatcher) (path : Bytes) (hp : NulFree path)
    (he : ∀ e ∈ pm.elems, NulFree e) :
    evalFn fn pm path ≠ 0 ↔ Spec (kindOfFn fn).1 (kindOfFn fn).2 pm.elems path := by
  have hf := nulFree_first pm he
  have hfl := nulFree_lower hf
  have hpl := nulFree_lower hp
  have first_eq : pm.elems.headD [] = pm.first := rfl
  cases fn
  case equals_match =>
    simp only [evalFn, kindOfFn, Spec, foldCase, b2i_ne_zero, beq_iff_eq, first_eq]
    simpa using strcmp_eq_zero _ _ hf hp
  case equals_match_ignore_case =>
    simp only [evalFn, kindOfFn, Spec, foldCase, b2i_ne_zero, beq_iff_eq, first_eq,
      strcasecmp_eq_strcmp_lower]
    simpa using strcmp_eq_zero _ _ hfl hpl
  case contains_match =>
    simp only [evalFn, kindOfFn, Spec, foldCase, b2i_ne_zero, first_eq]
    simpa using strstr_isSome path pm.first
  case contains_match_ignore_case =>
    simp only [evalFn, kindOfFn, Spec, foldCase, b2i_ne_zero, first_eq]
    simpa using strcasestr_isSome path pm.first
  case startswith_match =>
    simp only [evalFn, kindOfFn, Spec, foldCase, b2i_ne_zero, beq_iff_eq, first_eq, strlen]
    simpa using strncmp_len_eq_zero _ _ hf hp
  case startswith_match_ignore_case =>
    simp only [evalFn, kindOfFn, Spec, foldCase, b2i_ne_zero, beq_iff_eq, first_eq, strlen,
      strncasecmp_eq_strncmp_lower]
    have := strncmp_len_eq_zero _ _ hfl hpl
    simpa using this
  case endswith_match =>
    simp only [evalFn, kindOfFn, Spec, foldCase, b2i_ne_zero, first_eq]
    simpa using endswith_iff path pm.first hp hf
  case endswith_match_ignore_case =>
    simp only [evalFn, kindOfFn, Spec, foldCase, b2i_ne_zero, first_eq, strcasecmp_eq_strcmp_lower,
      lower_drop]
    have := endswith_iff (lower path) (lower pm.first) hpl hfl
    simpa [strlen] using this
  case equalsnot_match =>
    simp only [evalFn, kindOfFn, Spec, foldCase, first_eq]
    simpa using not_congr (strcmp_eq_zero _ _ hf hp)
  case equalsnot_match_ignore_case =>
    simp only [evalFn, kindOfFn, Spec, foldCase, first_eq, strcasecmp_eq_strcmp_lower]
    simpa using not_congr (strcmp_eq_zero _ _ hfl hpl)
  case containsallof_match =>
    simp only [evalFn, kindOfFn, Spec, foldCase]
    simpa using containsAllLoop_ne_zero strstr (fun e => e <:+: path) path
      (fun e => strstr_isSome path e) pm.elems
  case containsallof_match_ignore_case =>
    simp only [evalFn, kindOfFn, Spec, foldCase]
    simpa using containsAllLoop_ne_zero strcasestr (fun e => lower e <:+: lower path) path
      (fun e => strcasestr_isSome path e) pm.elems

end Cjet.Matcher
