/-
  DaemonC03Exact — exact results of the routing functions, case by case:
  `routeCore` (accepted / table full / send failed / no value / bad timeout),
  `routingResponse` (entry found / not found / id not a string),
  `timeoutFired` (entry found / not found).
-/
import Cjet.Lemmas.DaemonC03SetCall
import Cjet.Lemmas.DaemonC03Sim

namespace Cjet.Daemon.C03

open Cjet Cjet.Json Cjet.Daemon

/-! ## final answers -/

/-- send `a` to `c` if there is something to send -/
def answer (x : Ctx) (c : Nat) (a : Option Json) : Ctx :=
  match a with
  | some j => send' x c j
  | none => x

/-- the observation(s) of one final answer -/
def answerSends (c : Nat) (a : Option Json) (ok : Bool) : List Obs :=
  match a with
  | some j => [.send c j ok]
  | none => []

@[simp] theorem answer_st (x : Ctx) (c : Nat) (a : Option Json) : (answer x c a).st = x.st := by
  cases a <;> simp [answer]

theorem answer_out (x : Ctx) (c : Nat) (a : Option Json) :
    (answer x c a).out = answerSends c a (nextSend x) ++ x.out := by
  cases a <;> simp [answer, answerSends, send'_out]

@[simp] theorem answer_routeFull (x : Ctx) (c : Nat) (a : Option Json) : (answer x c a).routeFull = x.routeFull := by
  cases a <;> simp [answer]

/-- the owner's result or error under the caller's original id -/
def replyAnswer (r : Route) (payload : Json) (typ : String) : Option Json :=
  r.originId.bind (fun oid => resultResponse oid payload typ)

def timeoutAnswer (r : Route) : Option Json :=
  r.originId.bind (fun oid => errorResponse oid INTERNAL_ERROR "reason" (k "timeout for routed request"))

def shutdownAnswer (r : Route) : Option Json :=
  r.originId.bind (fun oid => errorResponse oid INTERNAL_ERROR "reason" (k "peer shuts down"))

/-- an origin id that can be answered: a string or a number -/
def Answerable : Option Json → Prop
  | some (.str _) => True
  | some (.num _) => True
  | _ => False

theorem resultResponse_of_answerable {oid : Json} (h : Answerable (some oid)) (payload : Json) (typ : String) :
    resultResponse oid payload typ = some (.obj [(k "id", oid), (k typ, payload)]) := by
  cases oid <;> first | rfl | exact absurd h (by simp [Answerable])

theorem errorResponse_of_answerable {oid : Json} (h : Answerable (some oid)) (code : Int) (tag : String)
    (reason : Bytes) :
    errorResponse oid code tag reason = some (.obj [(k "id", oid), (k "error", errorObject code tag reason)]) := by
  cases oid <;> first | rfl | exact absurd h (by simp [Answerable])

/-! ## the forwarded message -/

theorem routedMessage_eq (rid path : Bytes) (isState : Bool) (value : Option Json) :
    routedMessage rid path isState value =
      .obj [(k "id", .str rid), (k "method", .str path),
            (k "params", if isState then .obj [(k "value", value.getD (.obj []))] else value.getD (.obj []))] := by
  cases value <;> rfl

/-! ## routeCore -/

theorem nextSend_stored (x : Ctx) (r : Route) (tns : Nat) : nextSend (stored x r tns) = nextSend x := rfl

theorem routeCore_noValue {cfg : Config} {x : Ctx} {p : Peer} {req : Json} {isState : Bool}
    {params : Json} {path : Bytes} {e : Element}
    (hv : (isState && (reqValue isState params).isNone) = true) :
    routeCore cfg x p req isState params path e =
      (ticked x, errorFromRequest req INVALID_PARAMS "reason" (k "no value found")) := by
  unfold routeCore
  simp only [hv, ↓reduceIte]

theorem routeCore_badTimeout {cfg : Config} {x : Ctx} {p : Peer} {req : Json} {isState : Bool}
    {params : Json} {path : Bytes} {e : Element} {reason : String}
    (hv : (isState && (reqValue isState params).isNone) = false)
    (ht : getTimeout cfg (params.getItem (k "timeout")) e.timeoutNs = .err reason) :
    routeCore cfg x p req isState params path e =
      (ticked x, errorFromRequest req INVALID_PARAMS "reason" (k reason)) := by
  unfold routeCore
  simp only [hv, Bool.false_eq_true, ↓reduceIte, ht]

theorem routeCore_full {cfg : Config} {x : Ctx} {p : Peer} {req : Json} {isState : Bool}
    {params : Json} {path : Bytes} {e : Element} {tns : Nat}
    (hv : (isState && (reqValue isState params).isNone) = false)
    (ht : getTimeout cfg (params.getItem (k "timeout")) e.timeoutNs = .ns tns)
    (hf : x.routeFull = true) :
    routeCore cfg x p req isState params path e =
      ({ emit (timed x) (.timerDestroy x.st.nextTimer) with routeFull := false },
       errorFromRequest req INTERNAL_ERROR "reason" (k "routing table full")) := by
  unfold routeCore
  simp only [hv, Bool.false_eq_true, ↓reduceIte, ht, hf]

theorem routeCore_accept {cfg : Config} {x : Ctx} {p : Peer} {req : Json} {isState : Bool}
    {params : Json} {path : Bytes} {e : Element} {tns : Nat}
    (hv : (isState && (reqValue isState params).isNone) = false)
    (ht : getTimeout cfg (params.getItem (k "timeout")) e.timeoutNs = .ns tns)
    (hf : x.routeFull = false) (hs : nextSend x = true) :
    routeCore cfg x p req isState params path e =
      ((send (stored x (newRoute x p req e) tns) e.owner
          (routedMessage (newRoute x p req e).rid path isState (reqValue isState params))).1, none) := by
  unfold routeCore
  simp only [hv, Bool.false_eq_true, ↓reduceIte, ht, hf, send_snd, nextSend_stored, hs]

theorem routeCore_sendFail {cfg : Config} {x : Ctx} {p : Peer} {req : Json} {isState : Bool}
    {params : Json} {path : Bytes} {e : Element} {tns : Nat}
    (hv : (isState && (reqValue isState params).isNone) = false)
    (ht : getTimeout cfg (params.getItem (k "timeout")) e.timeoutNs = .ns tns)
    (hf : x.routeFull = false) (hs : nextSend x = false) :
    routeCore cfg x p req isState params path e =
      (let y := (send (stored x (newRoute x p req e) tns) e.owner
          (routedMessage (newRoute x p req e).rid path isState (reqValue isState params))).1
       emit { y with st := { y.st with peers := removeRoute y.st.peers e.owner (newRoute x p req e).rid } }
          (.timerDestroy x.st.nextTimer),
       errorFromRequest req INTERNAL_ERROR "reason" (k "could not send routing information")) := by
  unfold routeCore
  simp only [hv, Bool.false_eq_true, ↓reduceIte, ht, hf, send_snd, nextSend_stored, hs]

/-- undoing the insertion of an entry whose id is new restores the tables -/
theorem removeRoute_addRoute {ps : List Peer} {o : Nat} {r : Route}
    (h : ∀ q ∈ ps, q.conn = o → ∀ r' ∈ q.routes, r'.rid ≠ r.rid) :
    removeRoute (updatePeer ps o (fun q => { q with routes := q.routes ++ [r] })) o r.rid = ps := by
  unfold removeRoute updatePeer
  rw [List.map_map]
  conv => rhs; rw [← List.map_id ps]
  apply List.map_congr_left
  intro q hq
  simp only [Function.comp, id]
  by_cases hqo : (q.conn == o) = true
  · simp only [hqo, ↓reduceIte]
    have hall : q.routes.filter (fun x => x.rid != r.rid) = q.routes := by
      rw [List.filter_eq_self]
      intro r' hr'
      simpa using h q hq (by simpa using hqo) r' hr'
    simp [List.filter_append, hall]
  · simp [hqo]

/-! ## routingResponse -/

theorem routingResponse_hit {x : Ctx} {p : Peer} {msg payload : Json} {typ : String} {rid : Bytes} {r : Route}
    (hid : msg.getItem (k "id") = some (.str rid)) (hr : p.routes.find? (·.rid == rid) = some r) :
    routingResponse x p msg payload typ =
      (answer (emit { x with st := { x.st with peers := removeRoute x.st.peers p.conn rid } } (.timerDestroy r.timer))
        r.requester (replyAnswer r payload typ), true) := by
  unfold routingResponse
  simp only [hid, hr, replyAnswer]
  cases hoid : r.originId with
  | none => rfl
  | some oid =>
    simp only [Option.bind_some]
    cases resultResponse oid payload typ <;> rfl

theorem routingResponse_miss {x : Ctx} {p : Peer} {msg payload : Json} {typ : String} {rid : Bytes}
    (hid : msg.getItem (k "id") = some (.str rid)) (hr : p.routes.find? (·.rid == rid) = none) :
    routingResponse x p msg payload typ = (x, true) := by
  unfold routingResponse
  simp only [hid, hr]

theorem find?_rid_of_nodup {l : List Route} {r : Route} (hn : (l.map (·.rid)).Nodup) (hr : r ∈ l) :
    l.find? (·.rid == r.rid) = some r := by
  induction l with
  | nil => cases hr
  | cons a t ih =>
    simp only [List.map_cons, List.nodup_cons] at hn
    rw [List.find?_cons]
    rcases List.mem_cons.mp hr with rfl | hrt
    · simp
    · have : (a.rid == r.rid) = false := by
        simp only [beq_eq_false_iff_ne, ne_eq]
        intro e
        exact hn.1 (e ▸ List.mem_map_of_mem hrt)
      rw [this]
      exact ih hn.2 hrt

theorem find?_timer_of_nodup {l : List Route} {r : Route} (hn : (l.map (·.timer)).Nodup) (hr : r ∈ l) :
    l.find? (·.timer == r.timer) = some r := by
  induction l with
  | nil => cases hr
  | cons a t ih =>
    simp only [List.map_cons, List.nodup_cons] at hn
    rw [List.find?_cons]
    rcases List.mem_cons.mp hr with rfl | hrt
    · simp
    · have : (a.timer == r.timer) = false := by
        simp only [beq_eq_false_iff_ne, ne_eq]
        intro e
        exact hn.1 (e ▸ List.mem_map_of_mem hrt)
      rw [this]
      exact ih hn.2 hrt

/-! ## timeoutFired -/

theorem timeoutFired_hit {x : Ctx} {t : Nat} {r : Route}
    (hr : (x.st.peers.flatMap (·.routes)).find? (·.timer == t) = some r) :
    timeoutFired x t =
      emit (answer { x with st := { x.st with peers := removeRoute x.st.peers r.owner r.rid } }
        r.requester (timeoutAnswer r)) (.timerDestroy t) := by
  unfold timeoutFired
  simp only [hr, timeoutAnswer]
  cases hoid : r.originId with
  | none => rfl
  | some oid =>
    simp only [Option.bind_some]
    cases errorResponse oid INTERNAL_ERROR "reason" (k "timeout for routed request") <;> rfl

theorem timeoutFired_miss {x : Ctx} {t : Nat}
    (hr : (x.st.peers.flatMap (·.routes)).find? (·.timer == t) = none) : timeoutFired x t = x := by
  unfold timeoutFired
  simp only [hr]

/-! ## clearRoute -/

theorem clearRoute_eq (x : Ctx) (r : Route) (c : Nat) :
    clearRoute x r c =
      answer (emit x (.timerDestroy r.timer)) r.requester (if r.requester == c then none else shutdownAnswer r) := by
  unfold clearRoute shutdownAnswer
  dsimp only
  split
  · rfl
  · cases hoid : r.originId with
    | none => rfl
    | some oid =>
      simp only [Option.bind_some]
      cases errorResponse oid INTERNAL_ERROR "reason" (k "peer shuts down") <;> rfl

end Cjet.Daemon.C03
