import Cjet.Deflate
/-! Helper lemmas for C19, part A: arithmetic of the reassembly buffer. -/
namespace Cjet.Deflate
open Cjet.Generated.Deflate

theorem growStep_cap (s : RState) : (growStep s).cap = s.cap * 2 := by
  simp [growStep, reasmGrow]

theorem growStep_avail (s : RState) : (growStep s).avail = s.avail + s.cap := by
  simp [growStep, reasmGrow]

theorem needsGrow_iff (s : RState) (L : Nat) : needsGrow s L = true ↔ s.avail ≤ L + 4 := by
  unfold needsGrow
  exact decide_eq_true_iff

theorem alloc_cap (L : Nat) : (alloc L).cap = L * 3 + 4 := by simp [alloc, reasmFactor, reasmHeader]
theorem alloc_avail (L : Nat) : (alloc L).avail = L * 3 := by simp [alloc, reasmFactor, reasmHeader]

/-- The `while` loop: it ends with room for the fragment, keeps the fill level, and its result is either
    the state it started from or at most twice (fill level + fragment + slack). -/
theorem growLoop_spec (fuel : Nat) (s : RState) (L : Nat)
    (hc : 0 < s.cap) (ha : s.avail ≤ s.cap) (hf : L + 4 < fuel + s.avail) :
    (growLoop fuel s L).cap - (growLoop fuel s L).avail = s.cap - s.avail ∧
    (growLoop fuel s L).avail ≤ (growLoop fuel s L).cap ∧
    L + 4 < (growLoop fuel s L).avail ∧
    (growLoop fuel s L = s ∨ (growLoop fuel s L).cap ≤ 2 * (s.cap - s.avail + L + 4)) := by
  induction fuel generalizing s with
  | zero =>
    rw [show growLoop 0 s L = s from rfl]
    exact ⟨rfl, ha, by omega, Or.inl rfl⟩
  | succ n ih =>
    simp only [growLoop]
    by_cases hg : needsGrow s L = true
    · rw [if_pos hg]
      have hle := (needsGrow_iff s L).1 hg
      have h1 := ih (growStep s) (by rw [growStep_cap]; omega) (by rw [growStep_cap, growStep_avail]; omega)
        (by rw [growStep_avail]; omega)
      rw [growStep_cap, growStep_avail] at h1
      obtain ⟨e1, e2, e3, e4⟩ := h1
      refine ⟨by omega, e2, e3, Or.inr ?_⟩
      rcases e4 with e4 | e4
      · rw [e4, growStep_cap]; omega
      · omega
    · rw [if_neg hg]
      have : ¬ s.avail ≤ L + 4 := fun h => hg ((needsGrow_iff s L).2 h)
      exact ⟨rfl, ha, by omega, Or.inl rfl⟩

/-- fill level = header + bytes of the message so far; `avail = 0` exactly when nothing was stored yet;
    the capacity stays linear in the bytes stored -/
def Good (s : RState) (T : Nat) : Prop :=
  (T = 0 ∧ s.avail = 0) ∨ (0 < T ∧ 4 < s.avail ∧ s.avail + 4 + T = s.cap ∧ s.cap ≤ 6 * T + 16)

theorem good_init : Good RState.init 0 := Or.inl ⟨rfl, rfl⟩

/-- one call of the fixed `reassemble` on a non-empty fragment -/
theorem stepCopy_loop_good (s : RState) (T L : Nat) (hg : Good s T) (hL : 0 < L) :
    (stepCopy true s L).1.inBounds = true ∧
    (stepCopy true s L).1.off = 4 + T ∧
    (stepCopy true s L).1.len = L ∧
    ((stepCopy true s L).1.fresh = true ↔ T = 0) ∧
    (stepCopy true s L).1.cap = (stepCopy true s L).2.cap ∧
    Good (stepCopy true s L).2 (T + L) := by
  rcases hg with ⟨hT, ha⟩ | ⟨hT, ha, hcap, hb⟩
  · -- no buffer yet
    have hfresh : (s.avail == 0) = true := by simp [ha]
    have hs := growLoop_spec (L + reasmSlack + 1) (alloc L) L (by rw [alloc_cap]; omega)
      (by rw [alloc_cap, alloc_avail]; omega) (by rw [alloc_avail]; simp [reasmSlack]; omega)
    rw [alloc_cap, alloc_avail] at hs
    generalize hr : growLoop (L + reasmSlack + 1) (alloc L) L = r at hs
    have hS : stepCopy true s L = (⟨r.cap - r.avail, L, r.cap, r.avail - L, true⟩, ⟨r.cap, r.avail - L⟩) := by
      simp [stepCopy, hfresh, grow, hr]
    obtain ⟨e1, e2, e3, e4⟩ := hs
    rw [hS]
    refine ⟨?_, ?_, rfl, ?_, rfl, Or.inr ⟨?_, ?_, ?_, ?_⟩⟩
    · simp only [Copy.inBounds, decide_eq_true_eq]; omega
    · show r.cap - r.avail = 4 + T; omega
    · simp [hT]
    · omega
    · show 4 < r.avail - L; omega
    · show r.avail - L + 4 + (T + L) = r.cap; omega
    · show r.cap ≤ 6 * (T + L) + 16
      rcases e4 with e4 | e4
      · rw [e4, alloc_cap]; omega
      · omega
  · have hfresh : (s.avail == 0) = false := by
      simp; omega
    have hs := growLoop_spec (L + reasmSlack + 1) s L (by omega) (by omega) (by simp [reasmSlack]; omega)
    generalize hr : growLoop (L + reasmSlack + 1) s L = r at hs
    have hS : stepCopy true s L = (⟨r.cap - r.avail, L, r.cap, r.avail - L, false⟩, ⟨r.cap, r.avail - L⟩) := by
      simp [stepCopy, hfresh, grow, hr]
    obtain ⟨e1, e2, e3, e4⟩ := hs
    rw [hS]
    refine ⟨?_, ?_, rfl, ?_, rfl, Or.inr ⟨?_, ?_, ?_, ?_⟩⟩
    · simp only [Copy.inBounds, decide_eq_true_eq]; omega
    · show r.cap - r.avail = 4 + T; omega
    · simp; omega
    · omega
    · show 4 < r.avail - L; omega
    · show r.avail - L + 4 + (T + L) = r.cap; omega
    · show r.cap ≤ 6 * (T + L) + 16
      rcases e4 with e4 | e4
      · rw [e4]; omega
      · omega

theorem sum_cons (L : Nat) (rest : List Nat) : (L :: rest).sum = L + rest.sum := by simp

/-- the fixed code, any fragment list, from any good state -/
theorem run_loop_good (sizes : List Nat) (s : RState) (T : Nat) (hg : Good s T) :
    allInBounds (run true s sizes) = true ∧ contiguousFrom T (run true s sizes) = true ∧
    Good (stateAfter true s sizes) (T + sizes.sum) := by
  induction sizes generalizing s T with
  | nil => simp [run, allInBounds, contiguousFrom, stateAfter, hg]
  | cons L rest ih =>
    by_cases hL : L = 0
    · have h := ih s T hg
      simp only [run, hL, if_true, stateAfter, List.sum_cons, Nat.zero_add]
      simpa [allInBounds, contiguousFrom] using h
    · obtain ⟨h1, h2, h3, _, _, h6⟩ := stepCopy_loop_good s T L hg (by omega)
      have h := ih (stepCopy true s L).2 (T + L) h6
      simp only [run, hL, if_false, stateAfter, h1, if_true, List.sum_cons]
      obtain ⟨i1, i2, i3⟩ := h
      refine ⟨?_, ?_, by rw [← Nat.add_assoc]; exact i3⟩
      · simpa [allInBounds, h1] using i1
      · simp only [contiguousFrom, h2, h3, reasmHeader]
        simpa using i2

/-! ### the single-doubling code -/

theorem growOnce_avail_le (s : RState) (L : Nat) (h : s.avail ≤ s.cap) :
    (growOnce s L).avail ≤ (growOnce s L).cap := by
  unfold growOnce
  split
  · rw [growStep_cap, growStep_avail]; omega
  · exact h

/-- one call of the old `reassemble`: the copy is in bounds exactly when the fragment is at most
    free space + capacity (or there was no buffer) -/
theorem stepCopy_once_inBounds (s : RState) (L : Nat) (hw : s.avail ≤ s.cap) (hL : 0 < L) :
    ((stepCopy false s L).1.inBounds = true ↔ (s.avail = 0 ∨ L ≤ s.avail + s.cap)) ∧
    (stepCopy false s L).2.avail ≤ (stepCopy false s L).2.cap := by
  by_cases h0 : s.avail = 0
  · have hfresh : (s.avail == 0) = true := by simp [h0]
    simp only [stepCopy, hfresh, if_true, grow, Bool.false_eq_true, if_false, Copy.inBounds, decide_eq_true_eq]
    have hle := growOnce_avail_le (alloc L) L (by rw [alloc_cap, alloc_avail]; omega)
    have hav : L ≤ (growOnce (alloc L) L).avail := by
      unfold growOnce
      split
      · rw [growStep_avail, alloc_avail, alloc_cap]; omega
      · rw [alloc_avail]; omega
    refine ⟨⟨fun _ => Or.inl h0, fun _ => by omega⟩, by omega⟩
  · have hfresh : (s.avail == 0) = false := by simp [h0]
    simp only [stepCopy, hfresh, grow, Bool.false_eq_true, if_false, Copy.inBounds, decide_eq_true_eq]
    have hle := growOnce_avail_le s L hw
    refine ⟨?_, by omega⟩
    unfold growOnce at hle ⊢
    by_cases hg : needsGrow s L = true
    · rw [if_pos hg] at hle ⊢
      rw [growStep_cap, growStep_avail] at hle ⊢
      constructor
      · intro h; right; omega
      · intro h; rcases h with h | h
        · exact absurd h h0
        · omega
    · rw [if_neg hg] at hle ⊢
      have : ¬ s.avail ≤ L + 4 := fun h => hg ((needsGrow_iff s L).2 h)
      constructor
      · intro _; right; omega
      · intro _; omega

theorem run_once_iff (sizes : List Nat) (s : RState) (hw : s.avail ≤ s.cap) :
    allInBounds (run false s sizes) = true ↔ fitsOnce s sizes := by
  induction sizes generalizing s with
  | nil => simp [run, allInBounds, fitsOnce]
  | cons L rest ih =>
    by_cases hL : L = 0
    · simp only [run, hL, if_true, fitsOnce]
      simpa [allInBounds] using ih s hw
    · obtain ⟨h1, h2⟩ := stepCopy_once_inBounds s L hw (by omega)
      simp only [run, hL, if_false, fitsOnce]
      by_cases hb : (stepCopy false s L).1.inBounds = true
      · rw [if_pos hb]
        have := ih (stepCopy false s L).2 h2
        constructor
        · intro h
          have : allInBounds (run false (stepCopy false s L).2 rest) = true := by
            simpa [allInBounds, hb] using h
          exact ⟨h1.1 hb, (ih _ h2).1 this⟩
        · intro h
          have h' := (ih _ h2).2 h.2
          simpa [allInBounds, hb] using h'
      · rw [if_neg hb]
        constructor
        · intro h
          simp [allInBounds] at h
          exact absurd h hb
        · intro h
          exact absurd (h1.2 h.1) hb

end Cjet.Deflate
