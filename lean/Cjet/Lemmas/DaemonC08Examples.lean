/-
  DaemonC08Examples — one concrete reachable scenario and Boolean checkers used by the
  non-vacuity examples of `Cjet.Props.C08` (JSON values have no decidable equality, so the
  examples evaluate Boolean projections with `decide +kernel` and turn them into the
  existential statements through the `_sound` lemmas below).

  Scenario: credential file with groups "admin" (bit 0) and "ops" (bit 1); users alice
  (admin in all three roles, may administrate passwords) and bob (ops).  Connection 1 (raw,
  local) authenticates as alice and adds the state "a" (fetch/set groups: admin).  Connection 2
  (WebSocket, remote) authenticates as "Alice" (case-folded lookup) and fetches everything.
  Connection 3 (raw, remote) never authenticates.
-/
import Cjet.Lemmas.DaemonC08Noninterf

namespace Cjet.Daemon.C08

open Cjet Cjet.Json Cjet.Daemon

def exCfg : Config := { authLoaded := true, allGroups := [k "admin", k "ops"] }
def exCfgLocal : Config := { exCfg with localOnlyAdd := true }

def grp (names : List String) : Json := .arr (names.map mkStr)

def exUsers : List User :=
  [ { name := k "alice", password := k "pw1", readonly := false, admin := true,
      auth := some (.obj [(k "fetchGroups", grp ["admin"]), (k "setGroups", grp ["admin"]), (k "callGroups", grp ["admin"])]) },
    { name := k "bob", password := k "pw2", readonly := false, admin := false,
      auth := some (.obj [(k "fetchGroups", grp ["ops"]), (k "setGroups", grp ["ops"]), (k "callGroups", grp [])]) } ]

def rq (method : String) (id : Int) (params : List (Bytes × Json)) : Json :=
  .obj [(k "method", mkStr method), (k "id", .num ⟨0, id⟩), (k "params", .obj params)]

def authReq (id : Int) (user pw : String) : Json :=
  rq "authenticate" id [(k "user", mkStr user), (k "password", mkStr pw)]

def exAdd : Json :=
  rq "add" 2 [(k "path", mkStr "a"), (k "value", .num ⟨0, 1⟩),
    (k "access", .obj [(k "fetchGroups", grp ["admin"]), (k "setGroups", grp ["admin"])])]

def exOps : List Op :=
  [ .connect 1 false true (k "0x1"), .connect 2 true false (k "0x2"), .connect 3 false false (k "0x3"),
    .message 1 (some (authReq 1 "alice" "pw1")) {},
    .message 1 (some exAdd) {},
    .message 2 (some (authReq 1 "Alice" "pw1")) {},
    .message 2 (some (rq "fetch" 2 [(k "id", mkStr "f")])) {} ]

/-- the reachable state of the scenario -/
def exS : State := (run exCfg { users := exUsers } exOps).1

theorem exS_reach : Reach exCfg exUsers exS := ⟨exOps, rfl⟩

def exX : Ctx := mkCtx exS {}

def exChange : Op := .message 1 (some (rq "change" 3 [(k "path", mkStr "a"), (k "value", .num ⟨0, 2⟩)])) {}
def exSet : Json := rq "set" 5 [(k "path", mkStr "a"), (k "value", .num ⟨0, 7⟩)]
def exGet : Json := rq "get" 6 []
def exBadAuth : Json := authReq 7 "alice" "wrong"
def exGoodAuth : Json := authReq 8 "bob" "pw2"
def exAdd2 : Json := rq "add" 9 [(k "path", mkStr "b"), (k "value", .num ⟨0, 1⟩)]

/-! ## checkers -/

/-- some notification is sent to connection `c` -/
def notifTo (c : Nat) (obs : List Obs) : Bool :=
  obs.any (fun o => match o with | .send c' j _ => c' == c && isNotif j | _ => false)

theorem notifTo_sound {c : Nat} {obs : List Obs} (h : notifTo c obs = true) :
    ∃ j ok, Obs.send c j ok ∈ obs ∧ isNotif j = true := by
  unfold notifTo at h
  obtain ⟨o, ho, h⟩ := List.any_eq_true.mp h
  cases o with
  | send c' j ok =>
    simp only [Bool.and_eq_true, beq_iff_eq] at h
    obtain ⟨rfl, hn⟩ := h
    exact ⟨j, ok, ho, hn⟩
  | closed _ => cases h
  | timerArm _ _ => cases h
  | timerDestroy _ => cases h

/-- the hypotheses of the set/call theorems hold for request `req` of connection `c` in `x`, with the
    access test failing (`shared = false`) or passing (`shared = true`) -/
def routeCheck (x : Ctx) (c : Nat) (req : Json) (isState shared : Bool) : Bool :=
  match findPeer x.st.peers c, getParamsAndPath req with
  | some p, .ok _ path =>
    (match findElement x.st path with
     | some e => ((if isState then e.setGroups &&& p.setGroups else e.callGroups &&& p.callGroups) != 0) == shared
     | none => false)
  | _, _ => false

theorem routeCheck_sound {x : Ctx} {c : Nat} {req : Json} {isState shared : Bool} (h : routeCheck x c req isState shared = true) :
    ∃ p params path e, findPeer x.st.peers c = some p ∧ getParamsAndPath req = .ok params path ∧
      findElement x.st path = some e ∧
      (((if isState then e.setGroups &&& p.setGroups else e.callGroups &&& p.callGroups) != 0) = shared) := by
  unfold routeCheck at h
  split at h
  · rename_i p params path hp hg
    split at h
    · rename_i e he
      exact ⟨p, params, path, e, hp, hg, he, by simpa using h⟩
    · cases h
  · cases h

/-- the peer of connection `c` exists and is unauthenticated / authenticated -/
def userCheck (s : State) (c : Nat) (authenticated : Bool) : Bool :=
  match findPeer s.peers c with
  | some p => p.user.isSome == authenticated
  | none => false

theorem userCheck_sound {s : State} {c : Nat} {a : Bool} (h : userCheck s c a = true) :
    ∃ p, findPeer s.peers c = some p ∧ p.user.isSome = a := by
  unfold userCheck at h
  split at h
  · rename_i p hp; exact ⟨p, hp, by simpa using h⟩
  · cases h

def localCheck (s : State) (c : Nat) (loc : Bool) : Bool :=
  match findPeer s.peers c with
  | some p => p.isLocal == loc
  | none => false

theorem localCheck_sound {s : State} {c : Nat} {a : Bool} (h : localCheck s c a = true) :
    ∃ p, findPeer s.peers c = some p ∧ p.isLocal = a := by
  unfold localCheck at h
  split at h
  · rename_i p hp; exact ⟨p, hp, by simpa using h⟩
  · cases h

/-- the response of a handler carries an "error" member -/
def isErrorResp (r : Option Json) : Bool :=
  match r with
  | some j => (j.getItem (k "error")).isSome
  | none => false

theorem isErrorResp_sound {r : Option Json} (h : isErrorResp r = true) :
    ∃ j, r = some j ∧ (j.getItem (k "error")).isSome = true := by
  unfold isErrorResp at h
  split at h
  · exact ⟨_, rfl, h⟩
  · cases h

/-- the unit of a message that consists of one request object -/
theorem unitsOf_single (cfg : Config) (s : State) (c : Nat) (l : List (Bytes × Json)) (o : Oracle)
    (h : (findPeer s.peers c).isNone = false) :
    Unit.req (mkCtx s o) c (.obj l) ∈ unitsOf cfg s (.message c (some (.obj l)) o) := by
  simp [unitsOf, h, msgUnits]

/-! ## a pair of runs that differ in passwords only -/

/-- the same credential table with another password for bob -/
def exUsers' : List User := setPassword exUsers (k "bob") (k "other")

/-- the scenario state with that table -/
def exS' : State := { exS with users := exUsers' }

theorem authReq_id (id : Int) (u pw : String) : (authReq id u pw).getItem (k "id") = some (.num ⟨0, id⟩) := by
  have h1 : keyEq (k "method") (k "id") = false := by decide +kernel
  have h2 : keyEq (k "id") (k "id") = true := by decide +kernel
  simp [authReq, rq, Json.getItem, findItem, h1, h2]

theorem authReq_cred (id : Int) (u pw : String) : getCredentials (authReq id u pw) = .ok (k u) (k pw) := by
  have h1 : keyEq (k "method") (k "params") = false := by decide +kernel
  have h2 : keyEq (k "id") (k "params") = false := by decide +kernel
  have h3 : keyEq (k "params") (k "params") = true := by decide +kernel
  have h4 : keyEq (k "user") (k "user") = true := by decide +kernel
  have h5 : keyEq (k "user") (k "password") = false := by decide +kernel
  have h6 : keyEq (k "password") (k "password") = true := by decide +kernel
  simp [authReq, rq, getCredentials, Json.getItem, findItem, h1, h2, h3, h4, h5, h6, mkStr]
  exact ⟨rfl, rfl⟩

theorem exUsers_state : exS.users = exUsers := by
  have := run_users (cfg := exCfg) exOps { users := exUsers } (Inv.init exCfg exUsers)
  -- the scenario contains no passwd request: compare the password fields by evaluation
  have hp : exS.users.map (·.password) = exUsers.map (·.password) := by decide +kernel
  have hl : exS.users.map UProj = exUsers.map UProj := this
  clear this
  generalize exS.users = a at hp hl
  generalize exUsers = b at hp hl
  induction a generalizing b with
  | nil => cases b with
    | nil => rfl
    | cons _ _ => cases hl
  | cons x xs ih =>
    cases b with
    | nil => cases hl
    | cons y ys =>
      simp only [List.map_cons, List.cons.injEq] at hp hl
      obtain ⟨hp1, hp2⟩ := hp
      obtain ⟨hl1, hl2⟩ := hl
      rw [ih ys hp2 hl2]
      cases x; cases y
      simp only [UProj, Prod.mk.injEq] at hl1
      simp_all

theorem exS_rel : StRel exS exS' := by
  refine ⟨?_, rfl⟩
  show PwOnly exS.users exUsers'
  rw [exUsers_state]
  exact (PwOnly.refl exUsers).setPassword (k "bob") (k "bob") (k "pw2") (k "other") |> fun h => by
    have e : setPassword exUsers (k "bob") (k "pw2") = exUsers := by
      have hp : (setPassword exUsers (k "bob") (k "pw2")).map (·.password) = exUsers.map (·.password) := by decide +kernel
      have hl := setPassword_proj exUsers (k "bob") (k "pw2")
      generalize setPassword exUsers (k "bob") (k "pw2") = a at hp hl
      generalize exUsers = b at hp hl
      induction a generalizing b with
      | nil => cases b with
        | nil => rfl
        | cons _ _ => cases hl
      | cons x xs ih =>
        cases b with
        | nil => cases hl
        | cons y ys =>
          simp only [List.map_cons, List.cons.injEq] at hp hl
          obtain ⟨hp1, hp2⟩ := hp
          obtain ⟨hl1, hl2⟩ := hl
          rw [ih ys hp2 hl2]
          cases x; cases y
          simp only [UProj, Prod.mk.injEq] at hl1
          simp_all
    rw [e] at h
    exact h

/-- bob authenticates with the password stored for him: "pw2" in the first run, "other" in the second -/
def exAuthOp (pw : String) : Op := .message 3 (some (authReq 8 "bob" pw)) {}

theorem exOpRel : OpRel exCfg exS exS' (exAuthOp "pw2") (exAuthOp "other") := by
  refine Or.inr ⟨3, _, _, {}, rfl, rfl, Or.inr (Or.inl ⟨_, _, rfl, rfl, ?_, ?_⟩)⟩
  · refine Or.inr ⟨by decide +kernel, Or.inl (by decide +kernel), ?_, k "bob", k "pw2", k "other", authReq_cred 8 "bob" "pw2",
      authReq_cred 8 "bob" "other"⟩
    exact (authReq_id 8 "bob" "other").trans (authReq_id 8 "bob" "pw2").symm
  · intro u pw pw' hc hc' a a' ha ha'
    have e1 := (authReq_cred 8 "bob" "pw2").symm.trans hc
    have e2 := (authReq_cred 8 "bob" "other").symm.trans hc'
    injection e1 with hu hpw
    injection e2 with _ hpw'
    subst hu; subst hpw; subst hpw'
    have hus : (mkCtx exS {}).st.users = exUsers := exUsers_state
    rw [hus] at ha
    have h1 : (findUser exUsers (k "bob")).map (·.password) = some (k "pw2") := by decide +kernel
    have h2 : (findUser exS'.users (k "bob")).map (·.password) = some (k "other") := by decide +kernel
    rw [ha] at h1
    rw [ha'] at h2
    simp only [Option.map_some, Option.some.injEq] at h1 h2
    rw [h1, h2]
    simp

end Cjet.Daemon.C08
