/-
  DaemonC03Sim — every operation of the daemon model is a sequence of labelled router steps
  (`DaemonC03Lts`), and the labels it can produce are bounded by who sent what.
-/
import Cjet.Lemmas.DaemonC03Lts
import Cjet.Lemmas.DaemonC03Frame
import Cjet.Lemmas.DaemonC03SetCall

namespace Cjet.Daemon.C03

open Cjet Cjet.Json Cjet.Daemon

/-! ## model updates as view operations -/

theorem map_pview_addRoute (ps : List Peer) (o : Nat) (r : Route) :
    (updatePeer ps o (fun q => { q with routes := q.routes ++ [r] })).map pview = vAdd (ps.map pview) o r := by
  unfold updatePeer vAdd
  rw [List.map_map, List.map_map]
  apply List.map_congr_left
  intro p _
  simp only [Function.comp, pview_conn]
  by_cases h : (p.conn == o) = true <;> simp [h, pview]

theorem map_pview_removeRoute (ps : List Peer) (o : Nat) (rid : Bytes) :
    (removeRoute ps o rid).map pview = vRemove (ps.map pview) o rid := by
  unfold removeRoute updatePeer vRemove
  rw [List.map_map, List.map_map]
  apply List.map_congr_left
  intro p _
  simp only [Function.comp, pview_conn]
  by_cases h : (p.conn == o) = true <;> simp [h, pview]

theorem vTable_map_pview (ps : List Peer) (c : Nat) :
    vTable (ps.map pview) c = match findPeer ps c with | some p => p.routes | none => [] := by
  unfold vTable findPeer
  rw [List.find?_map]
  have : ((fun v : PV => v.conn == c) ∘ pview) = (fun p : Peer => p.conn == c) := rfl
  rw [this]
  cases List.find? (fun p : Peer => p.conn == c) ps <;> rfl

theorem vRoutes_map_pview (ps : List Peer) : vRoutes (ps.map pview) = ps.flatMap (·.routes) := by
  unfold vRoutes
  rw [List.flatMap_map]
  rfl

theorem mem_map_pview {ps : List Peer} {p : Peer} (h : p ∈ ps) : pview p ∈ ps.map pview :=
  List.mem_map_of_mem h

/-! ## set / call -/

/-- labels a set/call of peer `c` can produce -/
def IssueLbl (c : Nat) : Lbl → Prop
  | .tick => True
  | .full => True
  | .issue r _ => r.requester = c
  | .issueFail r _ => r.requester = c
  | _ => False

theorem newRoute_fresh (x : Ctx) (p : Peer) (req : Json) (e : Element) (hp : p ∈ x.st.peers) :
    Fresh (rs x) (newRoute x p req e) :=
  ⟨pview p, mem_map_pview hp, rfl, rfl, rfl⟩

theorem rs_stored_send (x : Ctx) (r : Route) (tns : Nat) (o : Nat) (m : Json) (ht : r.timer = x.st.nextTimer) :
    rs (send (stored x r tns) o m).1 = app (.issue r tns) (rs x) := by
  simp only [rs, send_st, tobs_send, app]
  simp only [stored, emit_st, emit_out, map_pview_addRoute, tickU, ht, tobs_cons_arm]

theorem sim_routeCore (cfg : Config) (x : Ctx) (p : Peer) (req : Json) (isState : Bool)
    (params : Json) (path : Bytes) (e : Element) (hp : p ∈ x.st.peers) :
    ∃ l, IssueLbl p.conn l ∧ Pre l (rs x) ∧
      rs (routeCore cfg x p req isState params path e).1 = app l (rs x) := by
  unfold routeCore
  simp only
  split
  · exact ⟨.tick, trivial, trivial, rfl⟩
  · split
    · exact ⟨.tick, trivial, trivial, rfl⟩
    · next tns _ =>
      split
      · exact ⟨.full, trivial, trivial, rfl⟩
      · split
        · exact ⟨.issue (newRoute x p req e) tns, rfl, newRoute_fresh x p req e hp, rs_stored_send _ _ _ _ _ rfl⟩
        · refine ⟨.issueFail (newRoute x p req e) tns, rfl, newRoute_fresh x p req e hp, ?_⟩
          have h := rs_stored_send x (newRoute x p req e) tns e.owner
            (routedMessage (newRoute x p req e).rid path isState (reqValue isState params)) rfl
          simp only [rs, app, RS.mk.injEq] at h ⊢
          simp only [emit_st, emit_out, map_pview_removeRoute, h.1, h.2.1, h.2.2.1]
          refine ⟨rfl, trivial, trivial, ?_⟩
          simp only [tobs_cons_destroy, h.2.2.2]

theorem sim_setOrCall (cfg : Config) (x : Ctx) (p : Peer) (req : Json) (isState : Bool) (hp : p ∈ x.st.peers) :
    ∃ ls, ls.length ≤ 1 ∧ (∀ l ∈ ls, IssueLbl p.conn l) ∧
      Steps ls (rs x) (rs (setOrCall cfg x p req isState).1) := by
  rcases setOrCall_cases cfg x p req isState with h | ⟨params, path, e, hc⟩
  · exact ⟨[], by simp, by simp, by rw [h]; rfl⟩
  · rw [setOrCall_of_checks hc]
    obtain ⟨l, hl, hpre, heq⟩ := sim_routeCore cfg x p req isState params path e hp
    refine ⟨[l], by simp, by simpa using hl, ?_⟩
    rw [heq]
    exact Steps.single hpre

/-! ## routing responses -/

theorem sim_routingResponse (x : Ctx) (p : Peer) (msg payload : Json) (typ : String)
    (hp : findPeer x.st.peers p.conn = some p) :
    ∃ ls, ls.length ≤ 1 ∧
      (∀ l ∈ ls, ∃ r, l = .drop p.conn r ∧ msg.getItem (k "id") = some (.str r.rid)) ∧
      Steps ls (rs x) (rs (routingResponse x p msg payload typ).1) := by
  unfold routingResponse
  split
  · next rid hid =>
    split
    · exact ⟨[], by simp, by simp, rfl⟩
    · next r hr =>
      have hrid : r.rid = rid := by simpa using List.find?_some hr
      have hmem : r ∈ p.routes := List.mem_of_find?_eq_some hr
      refine ⟨[.drop p.conn r], by simp, ?_, ?_⟩
      · intro l hl
        simp only [List.mem_singleton] at hl
        exact ⟨r, hl, by rw [hid, hrid]⟩
      · have hpre : Pre (.drop p.conn r) (rs x) := by
          show r ∈ vTable (x.st.peers.map pview) p.conn
          rw [vTable_map_pview, hp]
          exact hmem
        have hrs : ∀ y : Ctx, y.st = { x.st with peers := removeRoute x.st.peers p.conn rid } →
            tobs y.out = .timerDestroy r.timer :: tobs x.out → rs y = app (.drop p.conn r) (rs x) := by
          intro y hst hout
          simp only [rs, app, hst, hout, map_pview_removeRoute, hrid]
        refine ⟨hpre, ?_⟩
        show rs _ = _
        split
        · apply hrs
          · rfl
          · simp
        · split
          · apply hrs
            · simp
            · simp
          · apply hrs
            · rfl
            · simp
  · exact ⟨[], by simp, by simp, rfl⟩

/-! ## timer expiry -/

theorem sim_timeoutFired (x : Ctx) (t : Nat) (hwf : (rs x).Wf) :
    ∃ ls, ls.length ≤ 1 ∧ (∀ l ∈ ls, ∃ r, l = .drop r.owner r ∧ r.timer = t) ∧
      Steps ls (rs x) (rs (timeoutFired x t)) := by
  unfold timeoutFired
  split
  · exact ⟨[], by simp, by simp, rfl⟩
  · next r hr =>
    have ht : r.timer = t := by simpa using List.find?_some hr
    have hmem : r ∈ vRoutes (x.st.peers.map pview) := by
      rw [vRoutes_map_pview]; exact List.mem_of_find?_eq_some hr
    refine ⟨[.drop r.owner r], by simp, ?_, ?_⟩
    · intro l hl
      simp only [List.mem_singleton] at hl
      exact ⟨r, hl, ht⟩
    · refine ⟨hwf.mem_table hmem, ?_⟩
      show rs _ = _
      have hrs : ∀ y : Ctx, y.st = { x.st with peers := removeRoute x.st.peers r.owner r.rid } →
          tobs y.out = tobs x.out → rs (emit y (.timerDestroy t)) = app (.drop r.owner r) (rs x) := by
        intro y hst hout
        simp only [rs, app, emit_st, emit_out, hst, map_pview_removeRoute, ht, tobs_cons_destroy, hout]
      split
      · exact hrs _ rfl rfl
      · split
        · exact hrs _ (by simp) (by simp)
        · exact hrs _ rfl rfl

/-! ## free_peer_resources, staged -/

@[simp] theorem clearRoute_st (x : Ctx) (r : Route) (c : Nat) : (clearRoute x r c).st = x.st := by
  unfold clearRoute
  repeat' (first | split | dsimp only)
  all_goals simp

@[simp] theorem tobs_clearRoute (x : Ctx) (r : Route) (c : Nat) :
    tobs (clearRoute x r c).out = .timerDestroy r.timer :: tobs x.out := by
  unfold clearRoute
  repeat' (first | split | dsimp only)
  all_goals simp

/-- `clear_routing_entry` for every entry of a list -/
def clearAll (x : Ctx) (l : List Route) (c : Nat) : Ctx := l.foldl (fun x r => clearRoute x r c) x

@[simp] theorem clearAll_st (l : List Route) (x : Ctx) (c : Nat) : (clearAll x l c).st = x.st := by
  unfold clearAll
  induction l generalizing x with
  | nil => rfl
  | cons r t ih => simp [List.foldl_cons, ih]

theorem tobs_clearAll (l : List Route) (x : Ctx) (c : Nat) :
    tobs (clearAll x l c).out = (l.map (fun r => Obs.timerDestroy r.timer)).reverse ++ tobs x.out := by
  unfold clearAll
  induction l generalizing x with
  | nil => rfl
  | cons r t ih => simp [List.foldl_cons, ih]

/-- stage 1 of `free_peer_resources`: the leaving peer's own table is flushed -/
def fprA (x : Ctx) (c : Nat) (p : Peer) : Ctx :=
  let x := clearAll x p.routes c
  { x with st := { x.st with peers := updatePeer x.st.peers c (fun q => { q with routes := [] }) } }

def mineOf (x : Ctx) (c : Nat) : List Route := x.st.peers.flatMap (fun q => q.routes.filter (·.requester == c))

/-- stage 2: its own requests are purged from every table -/
def fprB (x : Ctx) (c : Nat) : Ctx :=
  let x := clearAll x (mineOf x c) c
  { x with st := { x.st with peers := x.st.peers.map (fun (q : Peer) => { q with routes := q.routes.filter (·.requester != c) }) } }

/-- stage 3: fetches and elements -/
def fprC (x : Ctx) (c : Nat) (p : Peer) : Ctx :=
  let unsub : Element → Element := fun e => { e with fetchers := e.fetchers.map (fun s =>
    match s with | some fk => if fk.peer == c then none else some fk | none => none) }
  let ps := updatePeer (mapElements x.st.peers unsub) c (fun q => { q with fetches := [] })
  let x := { x with st := { x.st with peers := ps } }
  p.elements.foldl (fun x e0 =>
    match (findPeer x.st.peers c).bind (·.elements.find? (·.path == e0.path)) with
    | some e => removeElement x e
    | none => x) x

/-- stage 4: `list_del` -/
def fprD (x : Ctx) (c : Nat) : Ctx := { x with st := { x.st with peers := x.st.peers.filter (·.conn != c) } }

theorem freePeerResources_eq (x : Ctx) (c : Nat) (p : Peer) (hp : findPeer x.st.peers c = some p) :
    freePeerResources x c = fprD (fprC (fprB (fprA x c p) c) c p) c := by
  unfold freePeerResources
  simp only [hp]
  rfl

theorem vClose_eq (V : List PV) (c : Nat) :
    (((V.map (fun v => if v.conn == c then { v with routes := [] } else v)).map
      (fun v => { v with routes := v.routes.filter (·.requester != c) })).filter (·.conn != c)) = vClose V c := by
  unfold vClose
  induction V with
  | nil => rfl
  | cons v t ih =>
    simp only [List.map_cons, List.filter_cons]
    by_cases h : (v.conn == c) = true
    · have h' : (v.conn != c) = false := by simpa using h
      simp only [h, ↓reduceIte, h', Bool.false_eq_true]
      exact ih
    · have h' : (v.conn != c) = true := by simpa using h
      simp only [h, ↓reduceIte, h', Bool.false_eq_true]
      rw [ih]
      rfl

theorem fprA_view (x : Ctx) (c : Nat) (p : Peer) :
    (fprA x c p).st.peers.map pview =
      (x.st.peers.map pview).map (fun v => if v.conn == c then { v with routes := [] } else v) := by
  simp only [fprA, clearAll_st]
  unfold updatePeer
  rw [List.map_map, List.map_map]
  apply List.map_congr_left
  intro q _
  simp only [Function.comp, pview_conn]
  by_cases h : (q.conn == c) = true <;> simp [h, pview]

theorem fprB_view (x : Ctx) (c : Nat) :
    (fprB x c).st.peers.map pview =
      (x.st.peers.map pview).map (fun v => { v with routes := v.routes.filter (·.requester != c) }) := by
  simp only [fprB, clearAll_st]
  rw [List.map_map, List.map_map]
  rfl

theorem mineOf_view (x : Ctx) (c : Nat) :
    mineOf x c = (x.st.peers.map pview).flatMap (fun v => v.routes.filter (·.requester == c)) := by
  unfold mineOf
  rw [List.flatMap_map]
  rfl

theorem frame_fprC (x : Ctx) (c : Nat) (p : Peer) : Frame x (fprC x c p) := by
  unfold fprC
  dsimp only
  apply foldl_inv (fun y => Frame x y)
  · refine frame_of_peers ?_ rfl rfl rfl rfl
    have h : ∀ ps' : List Peer, (updatePeer ps' c (fun q => { q with fetches := [] })).map pview
        = ps'.map pview := fun ps' => map_pview_updatePeer ps' _ _ (fun _ => rfl)
    show (updatePeer _ c _).map pview = _
    rw [h, map_pview_mapElements]
  · intro y e0 _ hy
    split
    · exact hy.trans (frame_removeElement ..)
    · exact hy

theorem fprD_view (x : Ctx) (c : Nat) :
    (fprD x c).st.peers.map pview = (x.st.peers.map pview).filter (·.conn != c) := by
  simp only [fprD]
  rw [List.filter_map]
  rfl

theorem rs_freePeerResources (x : Ctx) (c : Nat) (p : Peer) (hp : findPeer x.st.peers c = some p) :
    rs (freePeerResources x c) = app (.close c) (rs x) := by
  rw [freePeerResources_eq x c p hp]
  have hC := frame_fprC (fprB (fprA x c p) c) c p
  simp only [rs, app, RS.mk.injEq]
  refine ⟨?_, ?_, ?_, ?_⟩
  · rw [fprD_view, hC.peers, fprB_view, fprA_view, vClose_eq]
  · show (fprC _ c p).st.uuid = _
    rw [hC.uuid]; simp [fprB, fprA]
  · show (fprC _ c p).st.nextTimer = _
    rw [hC.nextTimer]; simp [fprB, fprA]
  · show tobs (fprC _ c p).out = _
    rw [hC.tobs]
    simp only [fprB, tobs_clearAll, mineOf_view, fprA_view]
    simp only [fprA, tobs_clearAll, vCloseRoutes, vMine, List.map_append, List.reverse_append, List.append_assoc]
    rw [vTable_map_pview, hp]

theorem rs_closePeer (x : Ctx) (c : Nat) (p : Peer) (hp : findPeer x.st.peers c = some p) :
    rs (closePeer x c) = app (.close c) (rs x) := by
  rw [← rs_freePeerResources x c p hp]
  simp [closePeer, rs]

theorem pre_close (x : Ctx) (c : Nat) (p : Peer) (hp : findPeer x.st.peers c = some p) :
    Pre (.close c) (rs x) :=
  ⟨pview p, mem_map_pview (findPeer_mem hp), findPeer_conn hp⟩

/-! ## parse.c -/

/-- `req` is a routing response (no method, a result or an error) carrying the id `rid` -/
def replyTo (rid : Bytes) (req : Json) : Bool :=
  (req.getItem (k "method")).isNone &&
  ((req.getItem (k "result")).isSome || (req.getItem (k "error")).isSome) &&
  (match req.getItem (k "id") with | some (.str s) => s == rid | _ => false)

/-- labels the processing of requests of peer `c` can produce; `isReply rid` tells whether one of
    them is a routing response with that id -/
def LblFrom (c : Nat) (isReply : Bytes → Bool) : Lbl → Prop
  | .tick => True
  | .full => True
  | .issue r _ => r.requester = c
  | .issueFail r _ => r.requester = c
  | .drop o r => o = c ∧ isReply r.rid = true
  | .close _ => False
  | .connect _ _ => False

theorem LblFrom.of_issue {c : Nat} {f : Bytes → Bool} {l : Lbl} (h : IssueLbl c l) : LblFrom c f l := by
  cases l <;> simp_all [IssueLbl, LblFrom]

theorem LblFrom.mono {c : Nat} {f g : Bytes → Bool} {l : Lbl} (hfg : ∀ rid, f rid = true → g rid = true)
    (h : LblFrom c f l) : LblFrom c g l := by
  cases l <;> simp_all [LblFrom]

theorem sim_handleMethod (cfg : Config) (x : Ctx) (p : Peer) (req : Json) (m : Bytes) (hp : p ∈ x.st.peers) :
    ∃ ls, ls.length ≤ 1 ∧ (∀ l ∈ ls, IssueLbl p.conn l) ∧
      Steps ls (rs x) (rs (handleMethod cfg x p req m).1) := by
  have fr : ∀ y : Ctx, Frame x y → ∃ ls : List Lbl, ls.length ≤ 1 ∧ (∀ l ∈ ls, IssueLbl p.conn l) ∧
      Steps ls (rs x) (rs y) := fun y h => ⟨[], by simp, by simp, h.rs_eq⟩
  unfold handleMethod
  by_cases h1 : (m == k "change") = true
  · rw [if_pos h1]; exact fr _ (frame_changeState ..)
  rw [if_neg h1]
  by_cases h2 : (m == k "set") = true
  · rw [if_pos h2]; exact sim_setOrCall cfg x p req true hp
  rw [if_neg h2]
  by_cases h3 : (m == k "call") = true
  · rw [if_pos h3]; exact sim_setOrCall cfg x p req false hp
  rw [if_neg h3]
  by_cases h4 : (m == k "add") = true
  · rw [if_pos h4]; exact fr _ (frame_addElement ..)
  rw [if_neg h4]
  by_cases h5 : (m == k "remove") = true
  · rw [if_pos h5]; exact fr _ (frame_removeElementReq ..)
  rw [if_neg h5]
  by_cases h6 : (m == k "fetch") = true
  · rw [if_pos h6]; exact fr _ (frame_fetchReq ..)
  rw [if_neg h6]
  by_cases h7 : (m == k "unfetch") = true
  · rw [if_pos h7]; exact fr _ (frame_unfetchReq ..)
  rw [if_neg h7]
  by_cases h8 : (m == k "get") = true
  · rw [if_pos h8]; exact fr _ (frame_getReq ..)
  rw [if_neg h8]
  by_cases h9 : (m == k "config") = true
  · rw [if_pos h9]; exact fr _ (frame_configReq ..)
  rw [if_neg h9]
  by_cases h10 : (m == k "info") = true
  · rw [if_pos h10]; exact fr _ (frame_infoReq ..)
  rw [if_neg h10]
  by_cases h11 : (m == k "authenticate") = true
  · rw [if_pos h11]; exact fr _ (frame_authenticateReq ..)
  rw [if_neg h11]
  by_cases h12 : (m == k "passwd") = true
  · rw [if_pos h12]; exact fr _ (frame_passwdReq ..)
  rw [if_neg h12]
  exact fr _ (Frame.refl x)

theorem sim_parseJsonRpc (cfg : Config) (x : Ctx) (c : Nat) (req : Json) :
    ∃ ls, ls.length ≤ 1 ∧ (∀ l ∈ ls, LblFrom c (fun rid => replyTo rid req) l) ∧
      Steps ls (rs x) (rs (parseJsonRpc cfg x c req).1) := by
  have fr : ∀ y : Ctx, Frame x y → ∃ ls : List Lbl, ls.length ≤ 1 ∧
      (∀ l ∈ ls, LblFrom c (fun rid => replyTo rid req) l) ∧ Steps ls (rs x) (rs y) :=
    fun y h => ⟨[], by simp, by simp, h.rs_eq⟩
  unfold parseJsonRpc
  split
  · exact fr _ (Frame.refl x)
  · next p hp =>
    have hpm := findPeer_mem hp
    have hpc := findPeer_conn hp
    split
    · next m hm =>
      obtain ⟨ls, h1, h2, h3⟩ := sim_handleMethod cfg x p req m hpm
      refine ⟨ls, h1, fun l hl => LblFrom.of_issue (hpc ▸ h2 l hl), ?_⟩
      dsimp only
      rw [(frame_sendResponse _ c _).rs_eq]
      exact h3
    · exact fr _ (frame_sendResponse ..)
    · next hmeth =>
      have key : ∀ (payload : Json) (typ : String),
          ((req.getItem (k "result")).isSome || (req.getItem (k "error")).isSome) = true →
          ∃ ls : List Lbl, ls.length ≤ 1 ∧ (∀ l ∈ ls, LblFrom c (fun rid => replyTo rid req) l) ∧
            Steps ls (rs x) (rs (routingResponse x p req payload typ).1) := by
        intro payload typ hre
        obtain ⟨ls, h1, h2, h3⟩ := sim_routingResponse x p req payload typ (hpc ▸ hp)
        refine ⟨ls, h1, ?_, h3⟩
        intro l hl
        obtain ⟨r, rfl, hid⟩ := h2 l hl
        refine ⟨hpc, ?_⟩
        simp only [replyTo, hmeth, hre, hid]
        simp
      split
      · next res hres => exact key res "result" (by simp [hres])
      · split
        · next err herr => exact key err "error" (by simp [herr])
        · exact fr _ (frame_sendResponse ..)

theorem sim_parseJsonArray (cfg : Config) (c : Nat) (l : List Json) (x : Ctx) :
    ∃ ls, ls.length ≤ l.length ∧ (∀ lb ∈ ls, LblFrom c (fun rid => l.any (replyTo rid)) lb) ∧
      Steps ls (rs x) (rs (parseJsonArray cfg x c l).1) := by
  induction l generalizing x with
  | nil => exact ⟨[], by simp, by simp, rfl⟩
  | cons j rest ih =>
    have stop : ∃ ls : List Lbl, ls.length ≤ (j :: rest).length ∧
        (∀ lb ∈ ls, LblFrom c (fun rid => (j :: rest).any (replyTo rid)) lb) ∧ Steps ls (rs x) (rs x) :=
      ⟨[], by simp, by simp, rfl⟩
    cases j with
    | obj m =>
      unfold parseJsonArray
      obtain ⟨ls1, a1, a2, a3⟩ := sim_parseJsonRpc cfg x c (.obj m)
      dsimp only
      split
      · obtain ⟨ls2, b1, b2, b3⟩ := ih (parseJsonRpc cfg x c (.obj m)).1
        refine ⟨ls1 ++ ls2, by simp; omega, ?_, Steps.append a3 b3⟩
        intro lb hlb
        rcases List.mem_append.mp hlb with h | h
        · exact (a2 lb h).mono (fun rid hr => by simp [hr])
        · exact (b2 lb h).mono (fun rid hr => by simp only [List.any_cons, hr, Bool.or_true])
      · refine ⟨ls1, by simp; omega, ?_, a3⟩
        intro lb h
        exact (a2 lb h).mono (fun rid hr => by simp [hr])
    | null => exact stop
    | bool _ => exact stop
    | num _ => exact stop
    | str _ => exact stop
    | arr _ => exact stop

/-- number of request objects of a message: an upper bound for the ids it can make the router generate -/
def msgWeight : Option Json → Nat
  | some (.arr l) => l.length
  | some (.obj _) => 1
  | _ => 0

/-- the message contains a routing response with id `rid` -/
def msgReplies (msg : Option Json) (rid : Bytes) : Bool :=
  match msg with
  | some (.arr l) => l.any (replyTo rid)
  | some (.obj m) => replyTo rid (.obj m)
  | _ => false

theorem sim_parseMessage (cfg : Config) (x : Ctx) (c : Nat) (msg : Option Json) :
    ∃ ls, ls.length ≤ msgWeight msg ∧ (∀ lb ∈ ls, LblFrom c (msgReplies msg) lb) ∧
      Steps ls (rs x) (rs (parseMessage cfg x c msg).1) := by
  unfold parseMessage
  split
  · exact sim_parseJsonArray cfg c _ x
  · exact sim_parseJsonRpc cfg x c _
  · exact ⟨[], by simp, by simp, rfl⟩

end Cjet.Daemon.C03
