import Cjet.Bufread
/-!
Helper lemmas for the reader model (`Cjet.Bufread`): buffer surgery (`slice`/`splice`), the `memmem`
transcription `findSub`, the bridge between what the reader sees in its buffer (`avail`) and what the
stream-only specification prescribes (`Spec.next`), the one-step simulation `step_spec` and its lifting to
`goReading` and `runEvents`.
-/
namespace Cjet.Bufread

/-! ## slice / splice -/

theorem slice_length {buf : Bytes} {r w : Nat} (hw : w ≤ buf.length) :
    (slice buf r w).length = w - r := by
  simp only [slice, List.length_take, List.length_drop]; omega

theorem slice_split {buf : Bytes} {r m w : Nat} (h1 : r ≤ m) (h2 : m ≤ w) :
    slice buf r w = slice buf r m ++ slice buf m w := by
  simp only [slice]
  have e : w - r = (m - r) + (w - m) := by omega
  rw [e, List.take_add, List.drop_drop]
  have : r + (m - r) = m := by omega
  rw [this]

theorem slice_append_left {a x : Bytes} {r w : Nat} (hw : w ≤ a.length) :
    slice (a ++ x) r w = slice a r w := by
  simp only [slice]
  by_cases hr : r ≤ a.length
  · rw [List.drop_append_of_le_length hr, List.take_append_of_le_length]
    simp only [List.length_drop]; omega
  · have : w - r = 0 := by omega
    simp [this]

theorem slice_take {buf : Bytes} {r w pos : Nat} (hw : w ≤ pos) :
    slice (buf.take pos) r w = slice buf r w := by
  simp only [slice]
  rw [List.drop_take, List.take_take]
  congr 1
  omega

theorem slice_zero_append {a x : Bytes} : slice (a ++ x) 0 a.length = a := by
  simp [slice]

theorem splice_length {buf b : Bytes} {pos : Nat} (h : pos + b.length ≤ buf.length) :
    (splice buf pos b).length = buf.length := by
  simp only [splice, List.length_append, List.length_take, List.length_drop]; omega

theorem slice_splice_before {buf b : Bytes} {r w pos : Nat} (hw : w ≤ pos) (hp : pos ≤ buf.length) :
    slice (splice buf pos b) r w = slice buf r w := by
  simp only [splice, List.append_assoc]
  rw [slice_append_left (by simp only [List.length_take]; omega), slice_take hw]

theorem slice_splice_at {buf b : Bytes} {pos : Nat} (hp : pos ≤ buf.length) :
    slice (splice buf pos b) pos (pos + b.length) = b := by
  simp only [splice, slice, List.append_assoc]
  have h1 : (List.take pos buf).length = pos := by simp only [List.length_take]; omega
  rw [List.drop_append_of_le_length (by omega)]
  have : List.drop pos (List.take pos buf) = [] := by
    apply List.drop_eq_nil_of_le; omega
  rw [this, List.nil_append]
  have : pos + b.length - pos = b.length := by omega
  rw [this]
  simp

/-! ## the reader's unread region under the three buffer operations -/

theorem unread_length {cap : Nat} {rd : Reader} (h : Inv cap rd) : rd.unread.length = rd.w - rd.r := by
  simp only [Reader.unread]
  exact slice_length (by have := h.wc; have := h.len; omega)

theorem unread_length_le {cap : Nat} {rd : Reader} (h : Inv cap rd) : rd.unread.length ≤ cap := by
  rw [unread_length h]; have := h.wc; omega

theorem Inv.init (cap : Nat) (fill : UInt8) : Inv cap (Reader.init cap fill) :=
  ⟨Nat.le_refl _, Nat.zero_le _, by simp [Reader.init]⟩

theorem unread_init (cap : Nat) (fill : UInt8) : (Reader.init cap fill).unread = [] := by
  simp [Reader.init, Reader.unread, slice]

theorem reorganize_inv {cap : Nat} {rd : Reader} (h : Inv cap rd) : Inv cap (reorganize rd) := by
  have hl := h.len; have hw := h.wc; have hr := h.rw
  refine ⟨Nat.zero_le _, ?_, ?_⟩
  · simp only [reorganize]; omega
  · simp only [reorganize, List.length_append, List.length_drop]
    rw [slice_length (by omega)]; omega

theorem reorganize_unread {cap : Nat} {rd : Reader} (h : Inv cap rd) : (reorganize rd).unread = rd.unread := by
  have hl := h.len; have hw := h.wc
  simp only [reorganize, Reader.unread]
  have : (slice rd.buf rd.r rd.w).length = rd.w - rd.r := slice_length (by omega)
  conv => lhs; rw [← this]
  exact slice_zero_append

theorem prep_inv {cap : Nat} {rd : Reader} (count : Nat) (h : Inv cap rd) : Inv cap (prep cap rd count) := by
  unfold prep; split
  · exact reorganize_inv h
  · exact h

theorem prep_unread {cap : Nat} {rd : Reader} (count : Nat) (h : Inv cap rd) :
    (prep cap rd count).unread = rd.unread := by
  unfold prep; split
  · exact reorganize_unread h
  · rfl

/-- after `prep`, "still too small" means the request can never fit: `cap - unread < count`. -/
theorem prep_small {cap : Nat} {rd : Reader} {count : Nat} (h : Inv cap rd) :
    (cap - (prep cap rd count).w < count) ↔ (cap - (rd.w - rd.r) < count) := by
  have hw := h.wc; have hr := h.rw
  unfold prep; split
  · simp only [reorganize]
  · constructor <;> intro <;> omega

theorem read_inv {cap : Nat} {rd : Reader} {b : Bytes} (h : Inv cap rd) (hb : b.length ≤ cap - rd.w) :
    Inv cap { rd with buf := splice rd.buf rd.w b, w := rd.w + b.length } := by
  have hl := h.len; have hw := h.wc; have hr := h.rw
  refine ⟨?_, ?_, ?_⟩
  · simp only; omega
  · simp only; omega
  · simp only; rw [splice_length (by omega)]; exact hl

theorem read_unread {cap : Nat} {rd : Reader} {b : Bytes} (h : Inv cap rd) :
    (Reader.unread { rd with buf := splice rd.buf rd.w b, w := rd.w + b.length }) = rd.unread ++ b := by
  have hl := h.len; have hw := h.wc; have hr := h.rw
  simp only [Reader.unread]
  rw [slice_split (m := rd.w) hr (by omega), slice_splice_before (Nat.le_refl _) (by omega),
    slice_splice_at (by omega)]

theorem advance_inv {cap : Nat} {rd : Reader} {len : Nat} (h : Inv cap rd) (hlen : len ≤ rd.w - rd.r) :
    Inv cap { rd with r := rd.r + len } := by
  have hw := h.wc; have hr := h.rw
  exact ⟨by simp only; omega, hw, h.len⟩

theorem advance_unread {cap : Nat} {rd : Reader} {len : Nat} (h : Inv cap rd) (hlen : len ≤ rd.w - rd.r) :
    rd.unread = slice rd.buf rd.r (rd.r + len) ++ Reader.unread { rd with r := rd.r + len } := by
  have hr := h.rw
  simp only [Reader.unread]
  exact slice_split (by omega) (by omega)

theorem advance_slice_length {cap : Nat} {rd : Reader} {len : Nat} (h : Inv cap rd) (hlen : len ≤ rd.w - rd.r) :
    (slice rd.buf rd.r (rd.r + len)).length = len := by
  have hl := h.len; have hw := h.wc; have hr := h.rw
  rw [slice_length (by omega)]; omega

/-! ## findSub (memmem) -/

theorem findSub_nil_left (h : Bytes) : findSub [] h = some 0 := by
  cases h <;> simp [findSub]

theorem findSub_append {d : Bytes} : ∀ {h : Bytes} {i : Nat} (x : Bytes), findSub d h = some i →
    findSub d (h ++ x) = some i
  | [], i, x, hh => by
    simp only [findSub] at hh
    split at hh
    · rename_i hd
      have : d = [] := by simpa using hd
      subst this
      cases hh
      simp only [findSub_nil_left]
    · cases hh
  | a :: t, i, x, hh => by
    simp only [findSub] at hh
    simp only [List.cons_append, findSub]
    split at hh
    · rename_i hp
      cases hh
      have hp' := List.isPrefixOf_iff_prefix.mp hp
      have : d <+: a :: (t ++ x) := by
        have := hp'.trans (List.prefix_append (a :: t) x)
        simpa using this
      simp [List.isPrefixOf_iff_prefix.mpr this]
    · rename_i hnp
      cases hfs : findSub d t with
      | none => simp [hfs] at hh
      | some j =>
        simp [hfs] at hh
        have hle := findSub_le d t j hfs
        have hnp' : ¬ d.isPrefixOf (a :: (t ++ x)) = true := by
          intro hp
          apply hnp
          have hp' := List.isPrefixOf_iff_prefix.mp hp
          apply List.isPrefixOf_iff_prefix.mpr
          have h2 : a :: t <+: a :: (t ++ x) := by
            have := List.prefix_append (a :: t) x
            simp at this
            simp
          exact List.prefix_of_prefix_length_le hp' h2 (by simp only [List.length_cons]; omega)
        simp only [hnp']
        rw [findSub_append x hfs]
        simp [hh]

/-- `findSub` finds an occurrence … -/
theorem findSub_some_prefix {d : Bytes} : ∀ {h : Bytes} {i : Nat}, findSub d h = some i → d <+: h.drop i
  | [], i, hh => by
    simp only [findSub] at hh
    split at hh
    · rename_i hd
      have : d = [] := by simpa using hd
      subst this; simp
    · cases hh
  | a :: t, i, hh => by
    simp only [findSub] at hh
    split at hh
    · rename_i hp; cases hh
      simpa using List.isPrefixOf_iff_prefix.mp hp
    · cases hfs : findSub d t with
      | none => simp [hfs] at hh
      | some j =>
        simp [hfs] at hh
        subst hh
        simpa using findSub_some_prefix hfs

/-- … and it is the first one. -/
theorem findSub_some_first {d : Bytes} : ∀ {h : Bytes} {i : Nat}, findSub d h = some i →
    ∀ j, j < i → ¬ d <+: h.drop j
  | [], i, hh => by
    simp only [findSub] at hh
    split at hh
    · cases hh; intro j hj; omega
    · cases hh
  | a :: t, i, hh => by
    simp only [findSub] at hh
    split at hh
    · cases hh; intro j hj; omega
    · rename_i hnp
      cases hfs : findSub d t with
      | none => simp [hfs] at hh
      | some k =>
        simp [hfs] at hh
        subst hh
        intro j hj
        cases j with
        | zero =>
          intro hp
          exact hnp (List.isPrefixOf_iff_prefix.mpr (by simpa using hp))
        | succ j =>
          have := findSub_some_first hfs j (by omega)
          simpa using this

/-- `none` means there is no occurrence at all. -/
theorem findSub_none {d : Bytes} : ∀ {h : Bytes}, findSub d h = none → ∀ j, j ≤ h.length → ¬ d <+: h.drop j
  | [], hh => by
    simp only [findSub] at hh
    split at hh
    · cases hh
    · rename_i hd
      intro j hj hp
      apply hd
      have : d = [] := by simpa using hp
      simp [this]
  | a :: t, hh => by
    simp only [findSub] at hh
    split at hh
    · cases hh
    · rename_i hnp
      cases hfs : findSub d t with
      | some k => simp [hfs] at hh
      | none =>
        intro j hj
        cases j with
        | zero =>
          intro hp
          exact hnp (List.isPrefixOf_iff_prefix.mpr (by simpa using hp))
        | succ j =>
          have := findSub_none hfs j (by simp only [List.length_cons] at hj; omega)
          simpa using this


/-! ## unfolding the stream-only specification -/

/-- put deliveries in front of a specified behaviour. -/
def prepend (ds : List (σ × Bytes)) (x : List (σ × Bytes) × Outcome) : List (σ × Bytes) × Outcome :=
  (ds ++ x.1, x.2)

@[simp] theorem prepend_nil (x : List (σ × Bytes) × Outcome) : prepend [] x = x := rfl

theorem prepend_append (a b : List (σ × Bytes)) (x : List (σ × Bytes) × Outcome) :
    prepend (a ++ b) x = prepend a (prepend b x) := by
  simp [prepend, List.append_assoc]

theorem Spec.run_tooMuch {c : Client σ} {cap : Nat} {s : σ} {str : Bytes} {t : Terminal}
    (h : Spec.next cap (c.want s) str = .tooMuch) : Spec.run c cap s str t = ([], .tooMuch) := by
  rw [Spec.run]; split <;> simp_all

theorem Spec.run_needMore {c : Client σ} {cap : Nat} {s : σ} {str : Bytes} {t : Terminal}
    (h : Spec.next cap (c.want s) str = .needMore) : Spec.run c cap s str t = ([], .ofTerminal t) := by
  rw [Spec.run]; split <;> simp_all

theorem Spec.run_take_zero {c : Client σ} {cap : Nat} {s : σ} {str : Bytes} {t : Terminal}
    (h : Spec.next cap (c.want s) str = .take 0) : Spec.run c cap s str t = ([], .peerClosed) := by
  rw [Spec.run]; split <;> simp_all

theorem Spec.run_take {c : Client σ} {cap : Nat} {s : σ} {str : Bytes} {t : Terminal} {len : Nat}
    (h : Spec.next cap (c.want s) str = .take len) (h0 : len ≠ 0) :
    Spec.run c cap s str t =
      if (c.deliver s (str.take len)).2 then ([(s, str.take len)], .clientClosed)
      else prepend [(s, str.take len)] (Spec.run c cap (c.deliver s (str.take len)).1 (str.drop len) t) := by
  rw [Spec.run]
  split
  · simp_all
  · simp_all
  · rename_i len' h'
    rw [h] at h'
    cases h'
    simp only [h0, dite_false, prepend]
    split <;> simp

/-! ## what the reader sees in its buffer vs. what the stream prescribes -/

theorem need_pos {req : Req} {rd : Reader} (h : avail req rd = none) : 0 < need req rd := by
  cases req with
  | exactly n =>
    simp only [avail] at h
    split at h
    · cases h
    · simp only [need]; omega
  | «until» d => simp [need]

theorem next_of_avail {cap : Nat} {req : Req} {rd : Reader} {len : Nat} (hi : Inv cap rd)
    (h : avail req rd = some len) (x : Bytes) : Spec.next cap req (rd.unread ++ x) = .take len := by
  have hl := unread_length hi
  have hc := unread_length_le hi
  cases req with
  | exactly n =>
    simp only [avail] at h
    split at h
    · cases h
      simp only [Spec.next, List.length_append]
      rw [if_neg (by omega), if_pos (by omega)]
    · cases h
  | «until» d =>
    simp only [avail] at h
    cases hf : findSub d rd.unread with
    | none => simp [hf] at h
    | some i =>
      simp [hf] at h
      subst h
      simp only [Spec.next]
      rw [List.take_append, List.take_of_length_le hc, findSub_append _ hf]

theorem next_tooMuch {cap : Nat} {req : Req} {rd : Reader} (hi : Inv cap rd)
    (h : avail req rd = none) (hs : cap - (rd.w - rd.r) < need req rd) (x : Bytes) :
    Spec.next cap req (rd.unread ++ x) = .tooMuch := by
  have hl := unread_length hi
  have hc := unread_length_le hi
  cases req with
  | exactly n =>
    simp only [avail] at h
    split at h
    · cases h
    · simp only [need] at hs
      simp only [Spec.next]
      rw [if_pos (by omega)]
  | «until» d =>
    simp only [need] at hs
    simp only [avail] at h
    cases hf : findSub d rd.unread with
    | some i => simp [hf] at h
    | none =>
      simp only [Spec.next]
      have : (rd.unread ++ x).take cap = rd.unread := by
        rw [List.take_append, List.take_of_length_le hc]
        have : cap - rd.unread.length = 0 := by omega
        simp [this]
      rw [this, hf]
      simp only [List.length_append]
      rw [if_pos (by omega)]

theorem next_needMore {cap : Nat} {req : Req} {rd : Reader} (hi : Inv cap rd)
    (h : avail req rd = none) (hs : ¬ cap - (rd.w - rd.r) < need req rd) :
    Spec.next cap req rd.unread = .needMore := by
  have hl := unread_length hi
  have hc := unread_length_le hi
  cases req with
  | exactly n =>
    simp only [avail] at h
    split at h
    · cases h
    · simp only [need] at hs
      simp only [Spec.next]
      rw [if_neg (by omega), if_neg (by omega)]
  | «until» d =>
    simp only [need] at hs
    simp only [avail] at h
    cases hf : findSub d rd.unread with
    | some i => simp [hf] at h
    | none =>
      simp only [Spec.next]
      rw [List.take_of_length_le hc, hf]
      simp only
      rw [if_neg (by omega)]

/-- nothing deliverable is left in the buffer and the armed request still fits. -/
def Drained (c : Client σ) (cap : Nat) (rd : Reader) (s : σ) : Prop :=
  Spec.next cap (c.want s) rd.unread = .needMore

/-! ## the scripted kernel -/

theorem kread_spec {asked : Nat} (ha : 0 < asked) : ∀ {ks ks' : List KRes} {g : Got}, kread asked ks = (g, ks') →
    match g with
    | .data b => b ≠ [] ∧ b.length ≤ asked ∧ evBytes ks = b ++ evBytes ks' ∧ evFin ks' = evFin ks
    | .wouldBlock => evBytes ks = [] ∧ evFin ks = .none
    | .eof => evBytes ks = [] ∧ evFin ks = .eof
    | .err => evBytes ks = [] ∧ evFin ks = .err
  | [], ks', g, h => by
    simp only [kread, Prod.mk.injEq] at h
    obtain ⟨rfl, rfl⟩ := h
    simp [evBytes, evFin]
  | .chunk b :: ks, ks', g, h => by
    simp only [kread] at h
    split at h
    · rename_i h0
      have hb : b.length = 0 := by omega
      simp only [Prod.mk.injEq] at h
      obtain ⟨rfl, rfl⟩ := h
      simp [evBytes, evFin, hb]
    · rename_i h0
      have hb : ¬ b.length = 0 := by omega
      split at h
      · rename_i h1
        simp only [Prod.mk.injEq] at h
        obtain ⟨rfl, rfl⟩ := h
        refine ⟨?_, h1, ?_, ?_⟩
        · intro hn; apply hb; simp [hn]
        · simp [evBytes, hb]
        · simp [evFin, hb]
      · rename_i h1
        simp only [Prod.mk.injEq] at h
        obtain ⟨rfl, rfl⟩ := h
        have hd : ¬ (b.drop asked).length = 0 := by simp only [List.length_drop]; omega
        refine ⟨?_, ?_, ?_, ?_⟩
        · intro hn
          have : (b.take asked).length = 0 := by simp [hn]
          simp only [List.length_take] at this; omega
        · simp only [List.length_take]; omega
        · simp only [evBytes, hb, hd, if_false]
          rw [← List.append_assoc, List.take_append_drop]
        · simp only [evFin, hb, hd, if_false]
  | .wouldBlock :: ks, ks', g, h => by
    simp only [kread, Prod.mk.injEq] at h
    obtain ⟨rfl, rfl⟩ := h
    simp [evBytes, evFin]
  | .eof :: ks, ks', g, h => by
    simp only [kread, Prod.mk.injEq] at h
    obtain ⟨rfl, rfl⟩ := h
    simp [evBytes, evFin]
  | .err :: ks, ks', g, h => by
    simp only [kread, Prod.mk.injEq] at h
    obtain ⟨rfl, rfl⟩ := h
    simp [evBytes, evFin]

theorem deliveries_append (a b : List (Obs σ)) : deliveries (a ++ b) = deliveries a ++ deliveries b := by
  induction a with
  | nil => rfl
  | cons o os ih => cases o <;> simp [deliveries, ih]


/-! ## one loop iteration against the specification -/

theorem step_spec {c : Client σ} {cap : Nat} {rd : Reader} {s : σ} {ks : List KRes} (hi : Inv cap rd) :
    match step c cap rd s ks with
    | .more obs rd' s' ks' =>
        Inv cap rd' ∧ evFin ks' = evFin ks ∧
        ∀ rest t, Spec.run c cap s (rd.unread ++ evBytes ks ++ rest) t =
          prepend (deliveries obs) (Spec.run c cap s' (rd'.unread ++ evBytes ks' ++ rest) t)
    | .done obs rd' s' out _ =>
        Inv cap rd' ∧
        (out = .wouldBlock → evFin ks = .none ∧ evBytes ks = [] ∧ deliveries obs = [] ∧ s' = s ∧
            rd'.unread = rd.unread ∧ Drained c cap rd' s') ∧
        (out ≠ .wouldBlock → ∀ rest t, (evFin ks ≠ .none → rest = [] ∧ t = evFin ks) →
            Spec.run c cap s (rd.unread ++ evBytes ks ++ rest) t = (deliveries obs, out)) := by
  cases hav : avail (c.want s) rd with
  | some len =>
    have hle := avail_le hav
    by_cases h0 : len = 0
    · subst h0
      simp only [step, hav, if_true]
      refine ⟨hi, (by intro h; cases h), ?_⟩
      intro _ rest t _
      rw [List.append_assoc, Spec.run_take_zero (next_of_avail hi hav _)]
      rfl
    · have hb := advance_slice_length hi hle
      have hu := advance_unread hi hle
      have hnext := next_of_avail hi hav
      have htake : ∀ x, (rd.unread ++ x).take len = slice rd.buf rd.r (rd.r + len) := by
        intro x
        rw [hu, List.append_assoc]
        conv => lhs; arg 1; rw [← hb]
        simp
      have hdrop : ∀ x, (rd.unread ++ x).drop len =
          Reader.unread { rd with r := rd.r + len } ++ x := by
        intro x
        rw [hu, List.append_assoc]
        conv => lhs; arg 1; rw [← hb]
        simp
      by_cases hcl : (c.deliver s (slice rd.buf rd.r (rd.r + len))).2 = true
      · simp only [step, hav, h0, if_false, hcl, if_true]
        refine ⟨advance_inv hi hle, (by intro h; cases h), ?_⟩
        intro _ rest t _
        rw [List.append_assoc, Spec.run_take (hnext _) h0, htake, if_pos hcl]
        rfl
      · simp only [step, hav, h0, if_false, hcl]
        refine ⟨advance_inv hi hle, rfl, ?_⟩
        intro rest t
        rw [List.append_assoc, Spec.run_take (hnext _) h0, htake, if_neg hcl, hdrop, List.append_assoc]
        rfl
  | none =>
    have hnp := need_pos hav
    have hi1 := prep_inv (need (c.want s) rd) hi
    have hu1 := prep_unread (need (c.want s) rd) hi
    by_cases hsm : cap - (prep cap rd (need (c.want s) rd)).w < need (c.want s) rd
    · simp only [step, hav, hsm, if_true]
      refine ⟨hi1, (by intro h; cases h), ?_⟩
      intro _ rest t _
      rw [List.append_assoc, Spec.run_tooMuch (next_tooMuch hi hav ((prep_small hi).mp hsm) _)]
      rfl
    · have hasked : 0 < cap - (prep cap rd (need (c.want s) rd)).w := by omega
      have hns : ¬ cap - (rd.w - rd.r) < need (c.want s) rd := fun h => hsm ((prep_small hi).mpr h)
      cases hk : kread (cap - (prep cap rd (need (c.want s) rd)).w) ks with
      | mk g ks' =>
        have hks := kread_spec hasked hk
        cases g with
        | data b =>
          simp only at hks
          obtain ⟨_, hbl, hby, hfin⟩ := hks
          simp only [step, hav, hsm, if_false, hk]
          refine ⟨read_inv hi1 hbl, hfin, ?_⟩
          intro rest t
          rw [read_unread hi1, hu1, hby]
          simp [deliveries, List.append_assoc]
        | wouldBlock =>
          simp only at hks
          simp only [step, hav, hsm, if_false, hk]
          refine ⟨hi1, ?_, (by intro h; exact absurd rfl h)⟩
          intro _
          refine ⟨hks.2, hks.1, rfl, trivial, hu1, ?_⟩
          simp only [Drained]
          rw [hu1]
          exact next_needMore hi hav hns
        | eof =>
          simp only at hks
          simp only [step, hav, hsm, if_false, hk]
          refine ⟨hi1, (by intro h; cases h), ?_⟩
          intro _ rest t ht
          obtain ⟨rfl, rfl⟩ := ht (by rw [hks.2]; intro h; cases h)
          rw [hks.1, hks.2, List.append_nil, List.append_nil, Spec.run_needMore (next_needMore hi hav hns)]
          rfl
        | err =>
          simp only at hks
          simp only [step, hav, hsm, if_false, hk]
          refine ⟨hi1, (by intro h; cases h), ?_⟩
          intro _ rest t ht
          obtain ⟨rfl, rfl⟩ := ht (by rw [hks.2]; intro h; cases h)
          rw [hks.1, hks.2, List.append_nil, List.append_nil, Spec.run_needMore (next_needMore hi hav hns)]
          rfl


/-! ## one `go_reading` against the specification -/

theorem goReading_spec {c : Client σ} {cap : Nat} {rd : Reader} {s : σ} {ks : List KRes} (hi : Inv cap rd) :
    Inv cap (goReading c cap rd s ks).rd ∧
    ((goReading c cap rd s ks).out = .wouldBlock →
        evFin ks = .none ∧ Drained c cap (goReading c cap rd s ks).rd (goReading c cap rd s ks).s ∧
        ∀ rest t, Spec.run c cap s (rd.unread ++ evBytes ks ++ rest) t =
          prepend (deliveries (goReading c cap rd s ks).obs)
            (Spec.run c cap (goReading c cap rd s ks).s ((goReading c cap rd s ks).rd.unread ++ rest) t)) ∧
    ((goReading c cap rd s ks).out ≠ .wouldBlock →
        ∀ rest t, (evFin ks ≠ .none → rest = [] ∧ t = evFin ks) →
          Spec.run c cap s (rd.unread ++ evBytes ks ++ rest) t =
            (deliveries (goReading c cap rd s ks).obs, (goReading c cap rd s ks).out)) := by
  fun_induction goReading c cap rd s ks with
  | case1 rd s ks obs rd' s' out ks' hst =>
    have hs := step_spec (c := c) (s := s) (ks := ks) hi
    rw [hst] at hs
    simp only at hs
    obtain ⟨h1, h2, h3⟩ := hs
    refine ⟨h1, ?_, h3⟩
    intro hw
    obtain ⟨a, b, d, e, f, g⟩ := h2 hw
    refine ⟨a, g, ?_⟩
    intro rest t
    rw [b, d, f, e]
    simp
  | case2 rd s ks obs rd' s' ks' hst res ih =>
    have hs := step_spec (c := c) (s := s) (ks := ks) hi
    rw [hst] at hs
    simp only at hs
    obtain ⟨h1, h2, h3⟩ := hs
    obtain ⟨i1, i2, i3⟩ := ih h1
    refine ⟨i1, ?_, ?_⟩
    · intro hw
      obtain ⟨a, g, e⟩ := i2 hw
      refine ⟨by rw [← h2]; exact a, g, ?_⟩
      intro rest t
      rw [h3, e, deliveries_append, prepend_append]
    · intro hw rest t ht
      rw [h3, i3 hw rest t (by rw [h2]; exact ht), deliveries_append]
      rfl


/-! ## a connection's run against the specification -/

theorem runEvents_spec {c : Client σ} {cap : Nat} : ∀ {evs : List (List KRes)} {rd : Reader} {s : σ},
    Inv cap rd → (evs = [] → Drained c cap rd s) →
    Spec.run c cap s (rd.unread ++ bytes evs) (terminal evs) = observable (runEvents c cap rd s evs)
  | [], rd, s, _, hd => by
    simp only [bytes, terminal, List.append_nil, runEvents, observable, deliveries]
    rw [Spec.run_needMore (hd rfl)]
    rfl
  | ev :: evs, rd, s, hi, _ => by
    obtain ⟨h1, h2, h3⟩ := goReading_spec (c := c) (s := s) (ks := ev) hi
    simp only [runEvents]
    split
    · rename_i hw
      obtain ⟨a, g, e⟩ := h2 hw
      have ih := runEvents_spec (c := c) (evs := evs) h1 (fun _ => g)
      simp only [bytes, terminal, a, if_true]
      rw [← List.append_assoc, e, ih]
      simp only [observable, prepend, deliveries_append]
    · rename_i hnw
      have hnw' : (goReading c cap rd s ev).out ≠ .wouldBlock := fun h => hnw h
      simp only [bytes, terminal]
      rw [← List.append_assoc, h3 hnw']
      · rfl
      · intro hf
        simp [hf]

theorem runEvents_inv {c : Client σ} {cap : Nat} : ∀ {evs : List (List KRes)} {rd : Reader} {s : σ},
    Inv cap rd → Inv cap (runEvents c cap rd s evs).rd
  | [], _, _, hi => by simpa [runEvents] using hi
  | ev :: evs, rd, s, hi => by
    obtain ⟨h1, _, _⟩ := goReading_spec (c := c) (s := s) (ks := ev) hi
    simp only [runEvents]
    split
    · exact runEvents_inv h1
    · exact h1

/-- `prompt`: whenever a run is still open, nothing deliverable is left in the buffer. -/
theorem runEvents_drained {c : Client σ} {cap : Nat} : ∀ {evs : List (List KRes)} {rd : Reader} {s : σ},
    Inv cap rd → (evs = [] → Drained c cap rd s) → (runEvents c cap rd s evs).out = .wouldBlock →
    Drained c cap (runEvents c cap rd s evs).rd (runEvents c cap rd s evs).s
  | [], _, _, _, hd, _ => by simpa [runEvents] using hd rfl
  | ev :: evs, rd, s, hi, _, ho => by
    obtain ⟨h1, h2, _⟩ := goReading_spec (c := c) (s := s) (ks := ev) hi
    simp only [runEvents] at ho ⊢
    split at ho
    · rename_i hw
      obtain ⟨_, g, _⟩ := h2 hw
      exact runEvents_drained h1 (fun _ => g) ho
    · rename_i hnw
      exact absurd ho hnw

/-! ## pointer discipline -/

theorem step_ok {c : Client σ} {cap : Nat} {rd : Reader} {s : σ} {ks : List KRes} (hi : Inv cap rd) :
    match step c cap rd s ks with
    | .more obs _ _ _ => ∀ o ∈ obs, Obs.ok cap o
    | .done obs _ _ _ _ => ∀ o ∈ obs, Obs.ok cap o := by
  have hw := hi.wc; have hr := hi.rw
  cases hav : avail (c.want s) rd with
  | some len =>
    have hle := avail_le hav
    by_cases h0 : len = 0
    · subst h0
      simp only [step, hav, if_true]
      intro o ho
      simp only [List.mem_singleton] at ho
      subst ho; trivial
    · have hb := advance_slice_length hi hle
      by_cases hcl : (c.deliver s (slice rd.buf rd.r (rd.r + len))).2 = true
      · simp only [step, hav, h0, if_false, hcl, if_true]
        intro o ho
        simp only [List.mem_cons, List.not_mem_nil, or_false] at ho
        rcases ho with rfl | rfl
        · simp only [Obs.ok, hb]; omega
        · trivial
      · simp only [step, hav, h0, if_false, hcl]
        intro o ho
        simp only [List.mem_singleton] at ho
        subst ho
        simp only [Obs.ok, hb]; omega
  | none =>
    have hnp := need_pos hav
    have hi1 := prep_inv (need (c.want s) rd) hi
    have hw1 := hi1.wc; have hr1 := hi1.rw
    by_cases hsm : cap - (prep cap rd (need (c.want s) rd)).w < need (c.want s) rd
    · simp only [step, hav, hsm, if_true]
      intro o ho
      simp only [List.mem_singleton] at ho
      subst ho; trivial
    · have hasked : 0 < cap - (prep cap rd (need (c.want s) rd)).w := by omega
      cases hk : kread (cap - (prep cap rd (need (c.want s) rd)).w) ks with
      | mk g ks' =>
        have hks := kread_spec hasked hk
        cases g with
        | data b =>
          simp only at hks
          obtain ⟨hne, hbl, _, _⟩ := hks
          have : 0 < b.length := by
            cases b with
            | nil => exact absurd rfl hne
            | cons _ _ => simp
          simp only [step, hav, hsm, if_false, hk]
          intro o ho
          simp only [List.mem_singleton] at ho
          subst ho
          simp only [Obs.ok, true_and]
          omega
        | wouldBlock =>
          simp only [step, hav, hsm, if_false, hk]
          intro o ho
          simp only [List.mem_singleton] at ho
          subst ho
          simp only [Obs.ok, and_true]
          omega
        | eof =>
          simp only [step, hav, hsm, if_false, hk]
          intro o ho
          simp only [List.mem_cons, List.not_mem_nil, or_false] at ho
          rcases ho with rfl | rfl
          · simp only [Obs.ok, and_true]; omega
          · trivial
        | err =>
          simp only [step, hav, hsm, if_false, hk]
          intro o ho
          simp only [List.mem_cons, List.not_mem_nil, or_false] at ho
          rcases ho with rfl | rfl
          · simp only [Obs.ok, and_true]; omega
          · trivial

theorem goReading_ok {c : Client σ} {cap : Nat} {rd : Reader} {s : σ} {ks : List KRes} (hi : Inv cap rd) :
    ∀ o ∈ (goReading c cap rd s ks).obs, Obs.ok cap o := by
  fun_induction goReading c cap rd s ks with
  | case1 rd s ks obs rd' s' out ks' hst =>
    have hs := step_ok (c := c) (s := s) (ks := ks) hi
    rw [hst] at hs
    exact hs
  | case2 rd s ks obs rd' s' ks' hst res ih =>
    have hs := step_ok (c := c) (s := s) (ks := ks) hi
    have hsp := step_spec (c := c) (s := s) (ks := ks) hi
    rw [hst] at hs hsp
    simp only at hs hsp
    intro o ho
    simp only [List.mem_append] at ho
    rcases ho with ho | ho
    · exact hs o ho
    · exact ih hsp.1 o ho

theorem runEvents_ok {c : Client σ} {cap : Nat} : ∀ {evs : List (List KRes)} {rd : Reader} {s : σ},
    Inv cap rd → ∀ o ∈ (runEvents c cap rd s evs).obs, Obs.ok cap o
  | [], _, _, _ => by simp [runEvents]
  | ev :: evs, rd, s, hi => by
    obtain ⟨h1, _, _⟩ := goReading_spec (c := c) (s := s) (ks := ev) hi
    have hok := goReading_ok (c := c) (s := s) (ks := ev) hi
    simp only [runEvents]
    split
    · intro o ho
      simp only [List.mem_append] at ho
      rcases ho with ho | ho
      · exact hok o ho
      · exact runEvents_ok h1 o ho
    · exact hok

end Cjet.Bufread
