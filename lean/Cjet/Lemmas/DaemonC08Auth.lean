/-
  DaemonC08Auth — the authentication fields of a peer change only in a unit that is a request of
  that very peer carrying a user name and the password stored for it.
-/
import Cjet.Lemmas.DaemonC08Dispatch

namespace Cjet.Daemon.C08

open Cjet Cjet.Json Cjet.Daemon

/-- unit `u` is a request of the connection of `p'` that names a user of the credential table
    (found by the case-folded lookup), presents exactly the password stored for it, that record
    has an "auth" object, and the authentication fields of `p'` are the name presented and the
    three words get_groups derives from that object -/
def VerifiedAuth (cfg : Config) (u : Unit) (p' : Peer) : Prop :=
  ∃ x req name pw usr auth, u = .req x p'.conn req ∧ getCredentials req = .ok name pw ∧
    findUser x.st.users name = some usr ∧ usr.password = pw ∧ usr.auth = some auth ∧
    p'.user = some name ∧
    p'.fetchGroups = getGroups cfg (auth.getItem (k "fetchGroups")) ∧
    p'.setGroups = getGroups cfg (auth.getItem (k "setGroups")) ∧
    p'.callGroups = getGroups cfg (auth.getItem (k "callGroups"))

theorem chain_auth {cfg : Config} {x x' : Ctx} {us : List Unit} (hc : Chain cfg x us x') (hI : FInv cfg x.st) :
    ∀ p' ∈ x'.st.peers, (∃ p ∈ x.st.peers, AV p' = AV p) ∨ ∃ u ∈ us, VerifiedAuth cfg u p' := by
  induction hc with
  | nil x => intro p' hp'; exact Or.inl ⟨p', hp', rfl⟩
  | cons hrest ih =>
    rename_i u us x'
    obtain ⟨hpost, _, heff⟩ := unit_good cfg u hI
    intro p' hp'
    rcases ih hpost p' hp' with ⟨p1, hp1, e1⟩ | ⟨v, hv, hver⟩
    · have hconn : p'.conn = p1.conn := by
        have := congrArg Prod.fst e1; exact this
      cases u with
      | req x c req =>
        rcases heff with hs | ⟨name, pw, usr, auth, h1, h2, h3, h4, _, hp⟩ | ⟨_, _, hp, _⟩
        · obtain ⟨p, hp, e2⟩ := hs.2 p1 hp1
          exact Or.inl ⟨p, hp, e1.trans e2⟩
        · change p1 ∈ (parseJsonRpc cfg x c req).1.st.peers at hp1
          rw [hp, updatePeer_eq_map] at hp1
          obtain ⟨q, hq, rfl⟩ := List.mem_map.mp hp1
          by_cases hqc : (q.conn == c) = true
          · simp only [hqc, if_true] at e1
            simp only [AV, authUpd, Prod.mk.injEq] at e1
            obtain ⟨a1, a2, a3, a4, a5⟩ := e1
            refine Or.inr ⟨_, List.mem_cons_self .., x, req, name, pw, usr, auth, ?_, h1, h2, h3, h4, a2, a3, a4, a5⟩
            have : p'.conn = c := by
              rw [a1]; simpa using hqc
            rw [this]
          · simp only [hqc] at e1
            exact Or.inl ⟨q, hq, e1⟩
        · change p1 ∈ (parseJsonRpc cfg x c req).1.st.peers at hp1
          rw [hp] at hp1
          exact Or.inl ⟨p1, hp1, e1⟩
      | close x c =>
        obtain ⟨p, hp, e2⟩ := heff.2 p1 hp1
        exact Or.inl ⟨p, hp, e1.trans e2⟩
      | timeout x t =>
        obtain ⟨p, hp, e2⟩ := heff.2 p1 hp1
        exact Or.inl ⟨p, hp, e1.trans e2⟩
    · exact Or.inr ⟨v, List.mem_cons_of_mem _ hv, hver⟩

theorem step_auth {cfg : Config} {s : State} (hI : Inv cfg s) (op : Op) :
    ∀ p' ∈ (step cfg s op).1.peers,
      (∃ p ∈ s.peers, AV p' = AV p) ∨
      (∃ ws il a, op = .connect p'.conn ws il a ∧ p'.user = none ∧ p'.fetchGroups = 0 ∧ p'.setGroups = 0 ∧ p'.callGroups = 0) ∨
      (∃ u ∈ unitsOf cfg s op, VerifiedAuth cfg u p') := by
  cases hx : opCtx s op with
  | none =>
    obtain ⟨_, _, h3⟩ := step_noctx cfg s op hx
    intro p' hp'
    rcases h3 with h3 | ⟨c, ws, il, a, hop, _, h3⟩
    · rw [h3] at hp'; exact Or.inl ⟨p', hp', rfl⟩
    · rw [h3] at hp'
      change p' ∈ s.peers ++ [_] at hp'
      rcases List.mem_append.mp hp' with h | h
      · exact Or.inl ⟨p', h, rfl⟩
      · rw [List.mem_singleton] at h
        subst h
        exact Or.inr (Or.inl ⟨ws, il, a, hop, rfl, rfl, rfl, rfl⟩)
  | some x =>
    obtain ⟨x', hch, hs⟩ := step_chain cfg s op x hx
    have hxs : x.st = s := by
      cases op with
      | connect c ws il a => cases hx
      | message c msg o =>
        simp only [opCtx] at hx
        split at hx
        · cases hx
        · cases hx; rfl
      | disconnect c o =>
        simp only [opCtx] at hx
        split at hx
        · cases hx
        · cases hx; rfl
      | timerFire t o => cases hx; rfl
    intro p' hp'
    rw [hs] at hp'
    rcases chain_auth hch (hxs ▸ hI.f) p' hp' with ⟨p, hp, e⟩ | h
    · exact Or.inl ⟨p, hxs ▸ hp, e⟩
    · exact Or.inr (Or.inr h)

/-! ## the credential table changes in its password fields only -/

/-- everything of a credential record but the password -/
def UProj (u : User) : Bytes × Option Json × Bool × Bool := (u.name, u.auth, u.readonly, u.admin)

theorem setPassword_proj (us : List User) (name pw : Bytes) : (setPassword us name pw).map UProj = us.map UProj := by
  unfold setPassword
  rw [List.map_map]
  apply List.map_congr_left
  intro u _
  simp only [Function.comp]
  split <;> rfl

theorem AuthEff.users_proj {cfg : Config} {s s' : State} {c : Nat} {req : Json} (h : AuthEff cfg s c req s') :
    s'.users.map UProj = s.users.map UProj := by
  rcases h with h | ⟨_, _, _, _, _, _, _, _, hu, _⟩ | ⟨name, pw, _, hu⟩
  · rw [h.1]
  · rw [hu]
  · rw [hu, setPassword_proj]

theorem Unit.users_proj {cfg : Config} {u : Unit} (h : u.authEff cfg) :
    (u.post cfg).st.users.map UProj = u.pre.st.users.map UProj := by
  cases u with
  | req x c j => exact AuthEff.users_proj h
  | close x c => have := h.1; exact congrArg _ this
  | timeout x t => have := h.1; exact congrArg _ this

theorem chain_users {cfg : Config} {x x' : Ctx} {us : List Unit} (hc : Chain cfg x us x') (hI : FInv cfg x.st) :
    x'.st.users.map UProj = x.st.users.map UProj := by
  induction hc with
  | nil x => rfl
  | cons hrest ih =>
    rename_i u us x'
    obtain ⟨hpost, _, heff⟩ := unit_good cfg u hI
    exact (ih hpost).trans (Unit.users_proj heff)

theorem step_users {cfg : Config} {s : State} (hI : Inv cfg s) (op : Op) :
    (step cfg s op).1.users.map UProj = s.users.map UProj := by
  cases hx : opCtx s op with
  | none =>
    obtain ⟨_, _, h3⟩ := step_noctx cfg s op hx
    rcases h3 with h3 | ⟨c, ws, il, a, _, _, h3⟩
    · rw [h3]
    · rw [h3]
  | some x =>
    obtain ⟨x', hch, hs⟩ := step_chain cfg s op x hx
    have hxs : x.st = s := by
      cases op with
      | connect c ws il a => cases hx
      | message c msg o =>
        simp only [opCtx] at hx
        split at hx
        · cases hx
        · cases hx; rfl
      | disconnect c o =>
        simp only [opCtx] at hx
        split at hx
        · cases hx
        · cases hx; rfl
      | timerFire t o => cases hx; rfl
    rw [hs]
    have := chain_users hch (hxs ▸ hI.f)
    rw [hxs] at this
    exact this

theorem run_users {cfg : Config} (ops : List Op) (s : State) (hI : Inv cfg s) :
    (run cfg s ops).1.users.map UProj = s.users.map UProj := by
  induction ops generalizing s with
  | nil => rfl
  | cons op rest ih =>
    unfold run
    exact (ih _ (step_inv cfg s op hI).1).trans (step_users hI op)

end Cjet.Daemon.C08
