/-
  C04 — frame lemmas: the handlers that never touch the element store (path index and the
  abstract element lists): set/call, unfetch, get, config, info, authenticate, passwd, routed
  responses, request timeouts.
-/
import Cjet.Lemmas.DaemonC04Ctx

namespace Cjet.Daemon.C04

open Cjet Cjet.Json Cjet.Daemon

theorem store_def (s : State) : store s = (image s.peers, s.index) := rfl

/-- an update of one peer that touches neither its connection nor its elements -/
theorem image_updatePeer_frame (ps : List Peer) (c : Nat) (f : Peer → Peer)
    (h : ∀ p, (f p).conn = p.conn ∧ (f p).elements = p.elements) : image (updatePeer ps c f) = image ps :=
  image_updatePeer_same (fun p _ _ => ⟨(h p).1, by simp only [peerAbs, (h p).2]⟩)

/-- the part of `set_or_call` after the id check (alloc_routing_request … send) -/
def routeTail (cfg : Config) (x : Ctx) (p : Peer) (req : Json) (isState : Bool) (params : Json)
    (path : Bytes) (e : Element) (originId : Option Json) : Ctx × Option Json :=
  let rid := routedId originId x.st.uuid p.addrTok
  let x := { x with st := { x.st with uuid := (x.st.uuid + 1) % 4294967296 } }
  let value := if isState then params.getItem (k "value") else params.getItem (k "args")
  if isState && value.isNone then
    (x, errorFromRequest req INVALID_PARAMS "reason" (k "no value found"))
  else
    match getTimeout cfg (params.getItem (k "timeout")) e.timeoutNs with
    | .err reason => (x, errorFromRequest req INVALID_PARAMS "reason" (k reason))
    | .ns tns =>
      let t := x.st.nextTimer
      let x := { x with st := { x.st with nextTimer := t + 1 } }
      if x.routeFull then
        ({ emit x (.timerDestroy t) with routeFull := false },
         errorFromRequest req INTERNAL_ERROR "reason" (k "routing table full"))
      else
        let r : Route := { rid := rid, requester := p.conn, owner := e.owner, originId := originId, timer := t }
        let st := { x.st with peers := updatePeer x.st.peers e.owner (fun q => { q with routes := q.routes ++ [r] }) }
        let x := emit { x with st := st } (.timerArm t tns)
        let s := send x e.owner (routedMessage rid path isState value)
        if s.2 then (s.1, none)
        else
          let x := emit { s.1 with st := { s.1.st with peers := removeRoute s.1.st.peers e.owner rid } } (.timerDestroy t)
          (x, errorFromRequest req INTERNAL_ERROR "reason" (k "could not send routing information"))

/-- ids `create_common_response` can answer (string, number) or absent -/
def routableId : Option Json → Bool
  | some (.str _) | some (.num _) | none => true
  | some _ => false

theorem setOrCall_eq (cfg : Config) (x : Ctx) (p : Peer) (req : Json) (isState : Bool) :
    setOrCall cfg x p req isState =
    match getParamsAndPath req with
    | .err r => (x, r)
    | .ok params path =>
      match findElement x.st path with
      | none => (x, errorFromRequest req INVALID_PARAMS "not exists" path)
      | some e =>
        if e.fetchOnly then (x, errorFromRequest req INVALID_PARAMS "fetchOnly" path)
        else if isState != e.value.isSome then
          (x, errorFromRequest req INVALID_PARAMS "set/call on element not possible" path)
        else if !(if isState then hasAccess cfg e.setGroups p.setGroups else hasAccess cfg e.callGroups p.callGroups) then
          (x, errorFromRequest req INVALID_PARAMS "request not authorized" path)
        else if routableId (req.getItem (k "id")) then
          routeTail cfg x p req isState params path e (req.getItem (k "id"))
        else (x, errorFromRequest req INVALID_PARAMS "request id is neither string nor number" path) := by
  unfold setOrCall
  cases hpp : getParamsAndPath req with
  | err r => rfl
  | ok params path =>
    dsimp only
    cases hfe : findElement x.st path with
    | none => rfl
    | some e =>
      dsimp only
      cases hid : req.getItem (k "id") with
      | none => rfl
      | some id => cases id <;> rfl

theorem ite_cases {α} {P : α → Prop} {c : Prop} [Decidable c] {a b : α} (ha : c → P a) (hb : ¬ c → P b) :
    P (if c then a else b) := by
  split
  · exact ha ‹_›
  · exact hb ‹_›

theorem routeTail_frame (cfg : Config) (x : Ctx) (p : Peer) (req : Json) (b : Bool) (params : Json)
    (path : Bytes) (e : Element) (oid : Option Json) :
    store (routeTail cfg x p req b params path e oid).1.st = store x.st := by
  unfold routeTail
  dsimp only
  refine ite_cases (P := fun (r : Ctx × Option Json) => store r.1.st = store x.st) (fun _ => rfl) (fun _ => ?_)
  cases getTimeout cfg (params.getItem (k "timeout")) e.timeoutNs with
  | err reason => rfl
  | ns tns =>
    dsimp only
    refine ite_cases (P := fun (r : Ctx × Option Json) => store r.1.st = store x.st) (fun _ => rfl) (fun _ => ?_)
    refine ite_cases (P := fun (r : Ctx × Option Json) => store r.1.st = store x.st) (fun _ => ?_) (fun _ => ?_)
    · simp only [store_def, send_st, emit_st, image_updatePeer_frame, and_self, implies_true]
    · simp only [store_def, send_st, emit_st, removeRoute, image_updatePeer_frame, and_self, implies_true]

theorem setOrCall_frame (cfg : Config) (x : Ctx) (p : Peer) (req : Json) (b : Bool) :
    store (setOrCall cfg x p req b).1.st = store x.st := by
  rw [setOrCall_eq]
  cases getParamsAndPath req with
  | err r => rfl
  | ok params path =>
    dsimp only
    cases findElement x.st path with
    | none => rfl
    | some e =>
      dsimp only
      refine ite_cases (P := fun (r : Ctx × Option Json) => store r.1.st = store x.st) (fun _ => rfl) (fun _ => ?_)
      refine ite_cases (P := fun (r : Ctx × Option Json) => store r.1.st = store x.st) (fun _ => rfl) (fun _ => ?_)
      refine ite_cases (P := fun (r : Ctx × Option Json) => store r.1.st = store x.st) (fun _ => rfl) (fun _ => ?_)
      refine ite_cases (P := fun (r : Ctx × Option Json) => store r.1.st = store x.st) (fun _ => ?_) (fun _ => rfl)
      exact routeTail_frame ..

theorem configReq_frame (x : Ctx) (p : Peer) (req : Json) : store (configReq x p req).1.st = store x.st := by
  unfold configReq
  repeat' split
  all_goals try rfl
  all_goals simp only [store_def, image_updatePeer_frame, and_self, implies_true]

theorem infoReq_frame (cfg : Config) (x : Ctx) (req : Json) : store (infoReq cfg x req).1.st = store x.st := rfl

theorem getReq_frame (cfg : Config) (x : Ctx) (p : Peer) (req : Json) :
    store (getReq cfg x p req).1.st = store x.st := by
  unfold getReq
  repeat' split
  all_goals rfl

theorem authenticateReq_frame (cfg : Config) (x : Ctx) (p : Peer) (req : Json) :
    store (authenticateReq cfg x p req).1.st = store x.st := by
  unfold authenticateReq
  repeat' split
  all_goals try rfl
  all_goals simp only [store_def, image_updatePeer_frame, and_self, implies_true]

theorem passwdReq_frame (x : Ctx) (p : Peer) (req : Json) : store (passwdReq x p req).1.st = store x.st := by
  unfold passwdReq
  repeat' split
  all_goals first | rfl | (dsimp only; split <;> rfl)

theorem image_dropFetch (ps : List Peer) (fk : FetchKey) : image (dropFetch ps fk) = image ps := by
  unfold dropFetch
  simp only [image_updatePeer_frame, and_self, implies_true]
  exact image_mapElements (fun _ => rfl)

theorem unfetchReq_frame (x : Ctx) (p : Peer) (req : Json) : store (unfetchReq x p req).1.st = store x.st := by
  unfold unfetchReq
  repeat' split
  all_goals try rfl
  all_goals simp only [store_def, image_dropFetch]

theorem routingResponse_frame (x : Ctx) (p : Peer) (msg payload : Json) (typ : String) :
    store (routingResponse x p msg payload typ).1.st = store x.st := by
  unfold routingResponse
  repeat' split
  all_goals try rfl
  all_goals simp only [store_def, emit_st, send'_st, removeRoute, image_updatePeer_frame, and_self, implies_true]

theorem timeoutFired_frame (x : Ctx) (t : Nat) : store (timeoutFired x t).st = store x.st := by
  unfold timeoutFired
  repeat' split
  all_goals try rfl
  all_goals simp only [store_def, emit_st, send'_st, removeRoute, image_updatePeer_frame, and_self, implies_true]

end Cjet.Daemon.C04
