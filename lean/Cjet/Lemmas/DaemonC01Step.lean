/-
  C01 — what one piece of work guarantees (`StepOK`), and the quiet pieces: everything that
  neither touches connections, groups, elements, fetches nor emits a notification
  (routing, timers, config, passwd, responses).
-/
import Cjet.Lemmas.DaemonC01Fetches

namespace Cjet.Daemon.C01

open Cjet Cjet.Json Cjet.Daemon

/-! ## the guarantee of one piece of work -/

structure StepOK (cfg : Config) (s s' : State) (ns : List (Nat × Notif)) : Prop where
  inv : Inv cfg s'
  uidMono : s.nextUid ≤ s'.nextUid
  /-- a fetch that appears was installed now: fresh uid, and its id was not in use -/
  fresh : ∀ c f, HasFetch s' c f → HasFetch s c f ∨ (s.nextUid ≤ f.uid ∧ ¬ HasFid s c f.fid)
  /-- groups_stable_while_fetching -/
  stable : ∀ c pg f, Alive s c pg f → HasFetch s' c f → Alive s' c pg f
  /-- a surviving fetch: its notifications turn image(pre) into image(post), never spuriously -/
  rstep : ∀ c pg f, Alive s c pg f → Alive s' c pg f → RStep cfg s s' ns c f.fid pg f.rule
  /-- a new fetch: its notifications build image(post) from the empty replica -/
  install : ∀ c pg f, ¬ HasFetch s c f → Alive s' c pg f →
    ∃ r, replayFrom [] (pick c f.fid ns) = some r ∧ SameMap r (imageOf cfg s' pg f.rule)
  /-- a notification goes to a peer that has (had, or now has) a fetch with that id -/
  origin : ∀ cn ∈ ns, HasFid s cn.1 cn.2.fid ∨ HasFid s' cn.1 cn.2.fid

theorem TransN.stepOK {cfg : Config} {s s' : State} {ns : List (Nat × Notif)} (h : TransN cfg s s' ns) :
    StepOK cfg s s' ns :=
  ⟨h.inv, Nat.le_of_eq h.uid.symm, fun c f hf => Or.inl (h.noNew c f hf), h.stable, h.rstep,
   fun c _ f hn ha => absurd (h.noNew c f ha.hasFetch) hn, fun cn hcn => Or.inl (h.origin cn hcn)⟩

theorem TransN.refl {cfg : Config} {s : State} (inv : Inv cfg s) : TransN cfg s s [] :=
  TransN.of_sameCore inv rfl rfl rfl rfl

theorem alive_unique {cfg : Config} {s : State} (inv : Inv cfg s) {c pg pg' : Nat} {f g : Fetch}
    (h1 : Alive s c pg f) (h2 : Alive s c pg' g) : pg = pg' := by
  obtain ⟨p, hp, hc, hg, _⟩ := h1
  obtain ⟨p', hp', hc', hg', _⟩ := h2
  have : p = p' := eq_of_conn_eq inv.fetches.connNodup hp hp' (hc.trans hc'.symm)
  subst this
  exact hg.symm.trans hg'

theorem FetchTrans.stepOK {cfg : Config} {s : State} {p : Peer} {f : Fetch} (inv : Inv cfg s)
    (hp : p ∈ s.peers) (huid : f.uid = s.nextUid)
    (hnew : ∀ g ∈ p.fetches, idsEqual g.fid f.fid = false) (h : FetchTrans cfg s p f) :
    StepOK cfg s (fetchState cfg s p f) (fetchNotifs cfg s p f) := by
  refine ⟨h.inv, Nat.le_succ _, ?_, ?_, ?_, ?_, ?_⟩
  · intro c g hg
    rcases h.fresh c g hg with h1 | ⟨rfl, rfl⟩
    · exact Or.inl h1
    · refine Or.inr ⟨Nat.le_of_eq huid.symm, ?_⟩
      rintro ⟨p', hp', hc', g', hg', hi⟩
      have : p' = p := eq_of_conn_eq inv.fetches.connNodup hp' hp hc'
      subst this
      rw [hnew g' hg'] at hi
      cases hi
  · intro c pg g ha _
    exact h.keep c pg g ha
  · intro c pg g ha _
    exact h.rstep c pg g ha
  · intro c pg g hn ha
    rcases h.fresh c g ha.hasFetch with h1 | ⟨rfl, rfl⟩
    · exact absurd h1 hn
    · have := alive_unique h.inv ha h.installed
      subst this
      exact ⟨_, h.install, SameMap.refl (image_paths_nodup h.inv _ _)⟩
  · intro cn hcn
    obtain ⟨h1, h2⟩ := h.origin cn hcn
    right
    obtain ⟨p', hp', hc', _, hf'⟩ := h.installed
    refine ⟨p', hp', hc'.trans h1.symm, f, hf', ?_⟩
    rw [h2]
    exact h.inv.fetches.fidOk p' hp' f hf'

/-! ## quiet pieces -/

/-- same connections, groups, elements, fetches, index and uid counter -/
structure CoreEq (s s' : State) : Prop where
  fc : s'.peers.map fcore = s.peers.map fcore
  el : s'.peers.map (·.elements) = s.peers.map (·.elements)
  idx : s'.index = s.index
  uid : s'.nextUid = s.nextUid

theorem CoreEq.refl (s : State) : CoreEq s s := ⟨rfl, rfl, rfl, rfl⟩

theorem CoreEq.trans {s s' s'' : State} (h1 : CoreEq s s') (h2 : CoreEq s' s'') : CoreEq s s'' :=
  ⟨h2.fc.trans h1.fc, h2.el.trans h1.el, h2.idx.trans h1.idx, h2.uid.trans h1.uid⟩

/-- a peer update that touches only name / user-independent fields / routes -/
theorem CoreEq.of_updatePeer (s s' : State) (c : Nat) (g : Peer → Peer)
    (h1 : s'.peers = updatePeer s.peers c g) (h2 : s'.index = s.index) (h3 : s'.nextUid = s.nextUid)
    (hg : ∀ q, fcore (g q) = fcore q ∧ (g q).elements = q.elements) :
    CoreEq s s' := by
  refine ⟨?_, ?_, h2, h3⟩
  · rw [h1]; exact map_updatePeer_congr fcore _ _ _ (fun q => (hg q).1)
  · rw [h1]; exact map_updatePeer_congr (·.elements) _ _ _ (fun q => (hg q).2)

theorem CoreEq.of_map (s : State) (g : Peer → Peer)
    (hg : ∀ q, fcore (g q) = fcore q ∧ (g q).elements = q.elements) (s' : State)
    (h1 : s'.peers = s.peers.map g) (h2 : s'.index = s.index) (h3 : s'.nextUid = s.nextUid) : CoreEq s s' := by
  refine ⟨?_, ?_, h2, h3⟩
  · rw [h1]; exact map_map_congr fcore _ _ (fun q => (hg q).1)
  · rw [h1]; exact map_map_congr (·.elements) _ _ (fun q => (hg q).2)

/-- `x'` came from `x` by quiet work -/
structure Quiet (x x' : Ctx) : Prop where
  core : CoreEq x.st x'.st
  emits : Emits x x' []

theorem Quiet.refl (x : Ctx) : Quiet x x := ⟨CoreEq.refl _, Emits.refl x⟩

theorem Quiet.trans {x y z : Ctx} (h1 : Quiet x y) (h2 : Quiet y z) : Quiet x z :=
  ⟨h1.core.trans h2.core, by simpa using h1.emits.trans h2.emits⟩

theorem Quiet.transN {cfg : Config} {x x' : Ctx} (inv : Inv cfg x.st) (h : Quiet x x') :
    TransN cfg x.st x'.st [] :=
  TransN.of_sameCore inv h.core.fc h.core.el h.core.idx h.core.uid

theorem quiet_send_resp (x : Ctx) (c : Nat) {j : Json} (h : IsResp j) : Quiet x (send x c j).1 :=
  ⟨by rw [send_st]; exact CoreEq.refl _, emits_send_resp x c h⟩

theorem quiet_send'_resp (x : Ctx) (c : Nat) {j : Json} (h : IsResp j) : Quiet x (send' x c j) :=
  quiet_send_resp x c h

theorem quiet_emit_timerDestroy (x : Ctx) (t : Nat) : Quiet x (emit x (.timerDestroy t)) :=
  ⟨CoreEq.refl _, emits_emit_timerDestroy x t⟩

theorem quiet_emit_timerArm (x : Ctx) (t n : Nat) : Quiet x (emit x (.timerArm t n)) :=
  ⟨CoreEq.refl _, emits_emit_timerArm x t n⟩

theorem quiet_emit_closed (x : Ctx) (c : Nat) : Quiet x (emit x (.closed c)) :=
  ⟨CoreEq.refl _, emits_emit_closed x c⟩

/-- a pure state change with the same core -/
theorem quiet_of_st (x : Ctx) (x' : Ctx) (ho : x'.out = x.out) (hc : CoreEq x.st x'.st) : Quiet x x' :=
  ⟨hc, (Emits.refl x).of_out_eq (by rw [ho])⟩

theorem coreEq_removeRoute (s : State) (owner : Nat) (rid : Bytes) :
    CoreEq s { s with peers := removeRoute s.peers owner rid } :=
  CoreEq.of_updatePeer s _ owner (fun q => { q with routes := q.routes.filter (·.rid != rid) })
    rfl rfl rfl (fun _ => ⟨rfl, rfl⟩)

theorem quiet_sendResponse (x : Ctx) (c : Nat) (resp : Option Json) (h : ∀ j, resp = some j → IsResp j) :
    Quiet x (sendResponse x c resp).1 := by
  unfold sendResponse
  cases resp with
  | none => exact Quiet.refl x
  | some j => exact quiet_send_resp x c (h j rfl)

theorem quiet_clearRoute (x : Ctx) (r : Route) (leaving : Nat) : Quiet x (clearRoute x r leaving) := by
  unfold clearRoute
  simp only
  split
  · exact quiet_emit_timerDestroy x _
  · split
    · exact quiet_emit_timerDestroy x _
    · split
      · next resp hresp =>
        exact (quiet_emit_timerDestroy x _).trans (quiet_send'_resp _ _ (isResp_errorResponse hresp))
      · exact quiet_emit_timerDestroy x _

theorem quiet_foldl_clearRoute (leaving : Nat) : ∀ (l : List Route) (x : Ctx),
    Quiet x (l.foldl (fun x r => clearRoute x r leaving) x)
  | [], x => Quiet.refl x
  | r :: t, x => (quiet_clearRoute x r leaving).trans (quiet_foldl_clearRoute leaving t _)

theorem quiet_timeoutFired (x : Ctx) (t : Nat) : Quiet x (timeoutFired x t) := by
  unfold timeoutFired
  split
  · exact Quiet.refl x
  · next r _ =>
    have h0 : Quiet x { x with st := { x.st with peers := removeRoute x.st.peers r.owner r.rid } } :=
      quiet_of_st x _ rfl (coreEq_removeRoute _ _ _)
    simp only
    split
    · exact h0.trans (quiet_emit_timerDestroy _ _)
    · split
      · next resp hresp =>
        exact (h0.trans (quiet_send'_resp _ _ (isResp_errorResponse hresp))).trans (quiet_emit_timerDestroy _ _)
      · exact h0.trans (quiet_emit_timerDestroy _ _)

theorem quiet_routingResponse (x : Ctx) (p : Peer) (msg payload : Json) (typ : String) :
    Quiet x (routingResponse x p msg payload typ).1 := by
  unfold routingResponse
  split
  · next rid _ =>
    split
    · exact Quiet.refl x
    · next r _ =>
      have h0 : Quiet x (emit { x with st := { x.st with peers := removeRoute x.st.peers p.conn rid } }
          (.timerDestroy r.timer)) :=
        (quiet_of_st x { x with st := { x.st with peers := removeRoute x.st.peers p.conn rid } } rfl
          (coreEq_removeRoute _ _ _)).trans (quiet_emit_timerDestroy _ _)
      simp only
      split
      · exact h0
      · split
        · next resp hresp => exact h0.trans (quiet_send'_resp _ _ (isResp_resultResponse hresp))
        · exact h0
  · exact Quiet.refl x

end Cjet.Daemon.C01
