/-
  DaemonC14Loop — two small models beside the daemon model:

  * `toItimerspec`: `convert_timeoutns_to_itimerspec` of `src/linux/timer_linux.c`;
  * the dispatch loop of `src/linux/eventloop_epoll.c` over one harvested batch, in its FIXED form
    (`eventloop_epoll_remove` also nulls the not yet dispatched entries of the current batch that
    refer to the removed registration) and in its ORIGINAL form (it only forgets `current_ev`).

  Registrations (`struct io_event *`) are numbers.  What callbacks do to the set of registrations
  is an arbitrary function (`Behaviour`) of the event being dispatched, the callback kind and
  everything removed so far in the batch — theorems quantify over all of them.
-/

namespace Cjet.Daemon.C14

/-! ## timer_linux.c -/

def NSECONDS_IN_SECONDS : Nat := 1000000000

/-- `convert_timeoutns_to_itimerspec`: (`it_value.tv_sec`, `it_value.tv_nsec`) -/
def toItimerspec (ns : Nat) : Nat × Nat :=
  let seconds := ns / NSECONDS_IN_SECONDS
  (seconds, ns - seconds * NSECONDS_IN_SECONDS)

/-! ## eventloop_epoll.c -/

/-- one harvested `struct epoll_event`: the registration it points to (`none` once nulled) and
    whether EPOLLIN / EPOLLOUT are set -/
structure Ev where
  reg : Option Nat
  rd : Bool
  wr : Bool
  deriving DecidableEq, Repr

inductive Kind | read | write
  deriving DecidableEq, Repr

/-- What the callback of registration `reg` (kind `kd`) removes from the event loop — any
    registrations, its own included — given everything removed earlier in this batch. -/
abbrev Behaviour := Nat → Kind → List Nat → List Nat

/-- a callback invocation: which registration, which callback, and the registrations that had been
    removed (and probably freed) in this batch before the call -/
structure Call where
  reg : Nat
  kind : Kind
  removedBefore : List Nat
  deriving DecidableEq, Repr

/-- `eventloop_epoll_remove`, fixed: entries of the pending batch that refer to a removed
    registration are nulled -/
def nullify (rm : List Nat) (pending : List Ev) : List Ev :=
  pending.map (fun e => match e.reg with
    | some x => if rm.contains x then { e with reg := none } else e
    | none => e)

/-- the callbacks of one event: read, then — unless the read callback removed this very
    registration (`current_ev == NULL`) — write.  Returns the calls and what they removed. -/
def dispatchOne (beh : Behaviour) (reg : Nat) (rd wr : Bool) (removed : List Nat) : List Call × List Nat :=
  let (calls1, rm1) := if rd then ([Call.mk reg .read removed], beh reg .read removed) else ([], [])
  if wr && !rm1.contains reg then
    (calls1 ++ [Call.mk reg .write (removed ++ rm1)], rm1 ++ beh reg .write (removed ++ rm1))
  else (calls1, rm1)

/-- `dispatch_events`, fixed loop -/
def dispatchFixed (beh : Behaviour) : List Ev → List Nat → List Call
  | [], _ => []
  | e :: rest, removed =>
    match e.reg with
    | none => dispatchFixed beh rest removed
    | some reg =>
      let r := dispatchOne beh reg e.rd e.wr removed
      r.1 ++ dispatchFixed beh (nullify r.2 rest) (removed ++ r.2)
termination_by l => l.length
decreasing_by all_goals simp [nullify]

/-- `dispatch_events`, original loop: removal does not touch the harvested batch -/
def dispatchOrig (beh : Behaviour) : List Ev → List Nat → List Call
  | [], _ => []
  | e :: rest, removed =>
    match e.reg with
    | none => dispatchOrig beh rest removed
    | some reg =>
      let r := dispatchOne beh reg e.rd e.wr removed
      r.1 ++ dispatchOrig beh rest (removed ++ r.2)

/-! ### lemmas -/

theorem toItimerspec_exact (ns : Nat) :
    (toItimerspec ns).1 * 1000000000 + (toItimerspec ns).2 = ns ∧ (toItimerspec ns).2 < 1000000000 ∧
    (ns > 0 → toItimerspec ns ≠ (0, 0)) := by
  unfold toItimerspec NSECONDS_IN_SECONDS
  dsimp only
  have h1 := Nat.div_mul_le_self ns 1000000000
  have h2 := Nat.div_add_mod ns 1000000000
  have h3 := Nat.mod_lt ns (show 1000000000 > 0 by decide)
  refine ⟨by omega, by omega, ?_⟩
  intro hpos h
  simp only [Prod.mk.injEq] at h
  omega

/-- the `uint64_t` computation does not wrap and `tv_sec` fits a signed 64-bit `time_t` -/
theorem toItimerspec_in_range (ns : Nat) (h : ns < 2 ^ 64) :
    (toItimerspec ns).1 < 2 ^ 63 ∧ (toItimerspec ns).1 * NSECONDS_IN_SECONDS ≤ ns := by
  unfold toItimerspec NSECONDS_IN_SECONDS
  dsimp only
  have h1 := Nat.div_mul_le_self ns 1000000000
  refine ⟨?_, h1⟩
  have : ns / 1000000000 ≤ ns := Nat.div_le_self _ _
  have h2 : ns / 1000000000 < 2 ^ 64 / 1000000000 + 1 := by
    have := Nat.div_le_div_right (c := 1000000000) (Nat.le_of_lt h)
    omega
  have : (2 : Nat) ^ 64 / 1000000000 + 1 < 2 ^ 63 := by decide
  omega

/-- pending entries never refer to a registration removed earlier in the batch -/
def Clean (pending : List Ev) (removed : List Nat) : Prop :=
  ∀ e ∈ pending, ∀ x, e.reg = some x → x ∉ removed

theorem clean_nullify {pending : List Ev} {removed rm : List Nat} (h : Clean pending removed) :
    Clean (nullify rm pending) (removed ++ rm) := by
  intro e he x hx
  unfold nullify at he
  obtain ⟨e0, he0, rfl⟩ := List.mem_map.mp he
  cases hreg : e0.reg with
  | none => simp [hreg] at hx
  | some y =>
    simp only [hreg] at hx
    by_cases hc : y ∈ rm
    · simp [hc] at hx
    · simp only [List.contains_eq_mem, hc, decide_false, Bool.false_eq_true, ↓reduceIte, hreg,
        Option.some.injEq] at hx
      subst hx
      simp only [List.mem_append, not_or]
      exact ⟨h e0 he0 y hreg, hc⟩

theorem dispatchOne_safe (beh : Behaviour) (reg : Nat) (rd wr : Bool) (removed : List Nat)
    (h : reg ∉ removed) : ∀ c ∈ (dispatchOne beh reg rd wr removed).1, c.reg ∉ c.removedBefore := by
  intro c hc
  unfold dispatchOne at hc
  cases rd with
  | false =>
    simp only [Bool.false_eq_true, ↓reduceIte, List.nil_append, List.append_nil] at hc
    split at hc
    · simp only [List.mem_singleton] at hc
      subst hc; exact h
    · cases hc
  | true =>
    simp only [↓reduceIte] at hc
    split at hc
    · next hw =>
      simp only [List.mem_append, List.mem_singleton] at hc
      rcases hc with rfl | rfl
      · exact h
      · simp only [List.mem_append, not_or]
        refine ⟨h, ?_⟩
        simp only [Bool.and_eq_true, Bool.not_eq_eq_eq_not, Bool.not_true] at hw
        simpa using hw.2
    · simp only [List.mem_singleton] at hc
      subst hc; exact h

theorem dispatchFixed_safe (beh : Behaviour) (pending : List Ev) (removed : List Nat) (h : Clean pending removed) :
    ∀ c ∈ dispatchFixed beh pending removed, c.reg ∉ c.removedBefore := by
  induction hn : pending.length using Nat.strongRecOn generalizing pending removed with
  | _ n ih =>
    cases pending with
    | nil => intro c hc; simp [dispatchFixed] at hc
    | cons e rest =>
      have hrest : Clean rest removed := fun e' he' => h e' (List.mem_cons_of_mem _ he')
      rw [dispatchFixed]
      cases hreg : e.reg with
      | none =>
        simp only
        exact ih rest.length (by rw [← hn]; simp) rest removed hrest rfl
      | some reg =>
        simp only
        intro c hc
        rcases List.mem_append.mp hc with hc | hc
        · exact dispatchOne_safe beh reg e.rd e.wr removed (h e (List.mem_cons_self ..) reg hreg) c hc
        · exact ih (nullify _ rest).length (by rw [← hn]; simp [nullify]) _ _ (clean_nullify hrest) rfl c hc

end Cjet.Daemon.C14
