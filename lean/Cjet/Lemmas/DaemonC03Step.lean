/-
  DaemonC03Step — the invariants and the stability of one routing entry, lifted from the router
  transition system to `step` and `run` of the daemon model.
-/
import Cjet.Lemmas.DaemonC03Sim
import Cjet.Lemmas.DaemonC03Stable

namespace Cjet.Daemon.C03

open Cjet Cjet.Json Cjet.Daemon

/-- the router's share of a state, with a given timer log -/
def rsS (s : State) (tl : List Obs) : RS := ⟨s.peers.map pview, s.uuid, s.nextTimer, tl⟩

@[simp] theorem mkCtx_st (s : State) (o : Oracle) : (mkCtx s o).st = s := rfl
@[simp] theorem mkCtx_out (s : State) (o : Oracle) : (mkCtx s o).out = [] := rfl
@[simp] theorem mkCtx_routeFull (s : State) (o : Oracle) : (mkCtx s o).routeFull = o.routeFull := rfl
@[simp] theorem mkCtx_sends (s : State) (o : Oracle) : (mkCtx s o).sends = o.sends := rfl

theorem isSome_of_not_isNone {α : Type} {o : Option α} (h : ¬ o.isNone = true) : o.isSome = true := by
  cases o <;> simp_all

theorem rs_eq_rsS (x : Ctx) : rs x = rsS x.st (tobs x.out) := rfl

/-! ## the log is only ever extended -/

def RS.addLog (a : RS) (L : List Obs) : RS := { a with tl := a.tl ++ L }

theorem app_addLog (l : Lbl) (a : RS) (L : List Obs) : app l (a.addLog L) = (app l a).addLog L := by
  cases l <;> simp [app, RS.addLog]

theorem pre_addLog {l : Lbl} {a : RS} (L : List Obs) (h : Pre l a) : Pre l (a.addLog L) := by
  cases l <;> exact h

theorem steps_addLog {ls : List Lbl} {a b : RS} (L : List Obs) (h : Steps ls a b) :
    Steps ls (a.addLog L) (b.addLog L) := by
  induction ls generalizing a with
  | nil => cases h; rfl
  | cons l t ih =>
    refine ⟨pre_addLog L h.1, ?_⟩
    rw [app_addLog]
    exact ih h.2

/-! ## connections along the steps of one message -/

theorem conns_steps_from {c : Nat} {f : Bytes → Bool} {ls : List Lbl} {a b : RS} (hs : Steps ls a b)
    (hl : ∀ l ∈ ls, LblFrom c f l) : b.V.map (·.conn) = a.V.map (·.conn) := by
  induction ls generalizing a with
  | nil => cases hs; rfl
  | cons l t ih =>
    rw [ih hs.2 (fun l' h' => hl l' (List.mem_cons_of_mem _ h'))]
    have := hl l (List.mem_cons_self ..)
    cases l with
    | tick => rfl
    | full => rfl
    | issue r tns => exact vAdd_conns ..
    | issueFail r tns => simp [app]
    | drop o r => exact vRemove_conns ..
    | close c' => exact absurd this (by simp [LblFrom])
    | connect c' addr => exact absurd this (by simp [LblFrom])

theorem findPeer_isSome_iff_conns {ps : List Peer} {c : Nat} :
    (findPeer ps c).isSome = true ↔ c ∈ (ps.map pview).map (·.conn) := by
  rw [findPeer_isSome, List.map_map]
  simp [List.mem_map]

/-! ## one operation -/

/-- the labels an operation can produce -/
def OpLbls (cfg : Config) (s : State) : Op → List Lbl → Prop
  | .connect c _ _ addr, ls => ls = [] ∨ ls = [.connect c addr]
  | .message c msg o, ls =>
    ls = [] ∨ ∃ ls1, ls1.length ≤ msgWeight msg ∧ (∀ lb ∈ ls1, LblFrom c (msgReplies msg) lb) ∧
      ls = ls1 ++ (if (parseMessage cfg (mkCtx s o) c msg).2 then [] else [.close c])
  | .disconnect c _, ls => ls = [] ∨ ls = [.close c]
  | .timerFire t _, ls => ls.length ≤ 1 ∧ ∀ l ∈ ls, ∃ r, l = .drop r.owner r ∧ r.timer = t

theorem sim_closePeer (x : Ctx) (c : Nat) (h : (findPeer x.st.peers c).isSome = true) :
    Steps [.close c] (rs x) (rs (closePeer x c)) := by
  obtain ⟨p, hp⟩ := Option.isSome_iff_exists.mp h
  rw [rs_closePeer x c p hp]
  exact Steps.single (pre_close x c p hp)

theorem step_connect (cfg : Config) (s : State) (c : Nat) (ws isLocal : Bool) (addr : Bytes) :
    step cfg s (.connect c ws isLocal addr) =
      if (findPeer s.peers c).isSome then (s, [])
      else ({ s with peers := s.peers ++ [{ conn := c, ws := ws, isLocal := isLocal, addrTok := addr }] }, []) := rfl

theorem step_message (cfg : Config) (s : State) (c : Nat) (msg : Option Json) (o : Oracle) :
    step cfg s (.message c msg o) =
      if (findPeer s.peers c).isNone then (s, [])
      else
        let y := parseMessage cfg (mkCtx s o) c msg
        let x := if y.2 then y.1 else closePeer y.1 c
        (x.st, x.out.reverse) := rfl

theorem step_disconnect (cfg : Config) (s : State) (c : Nat) (o : Oracle) :
    step cfg s (.disconnect c o) =
      if (findPeer s.peers c).isNone then (s, [])
      else ((closePeer (mkCtx s o) c).st, (closePeer (mkCtx s o) c).out.reverse) := rfl

theorem step_timerFire (cfg : Config) (s : State) (t : Nat) (o : Oracle) :
    step cfg s (.timerFire t o) =
      ((timeoutFired (mkCtx s o) t).st, (timeoutFired (mkCtx s o) t).out.reverse) := rfl

theorem sim_step (cfg : Config) (s : State) (op : Op) (hw : (rsS s []).Wf) :
    ∃ ls, OpLbls cfg s op ls ∧
      Steps ls (rsS s []) (rsS (step cfg s op).1 (tobs (step cfg s op).2.reverse)) := by
  cases op with
  | connect c ws isLocal addr =>
    rw [step_connect]
    split
    · exact ⟨[], Or.inl rfl, rfl⟩
    · next h =>
      refine ⟨[.connect c addr], Or.inr rfl, ?_, ?_⟩
      · intro v hv e
        apply h
        rw [findPeer_isSome_iff_conns]
        exact mem_conns_iff.mpr ⟨v, hv, e⟩
      · show _ = _
        simp [rsS, app, pview]
  | message c msg o =>
    rw [step_message]
    split
    · exact ⟨[], Or.inl rfl, rfl⟩
    · next hlive =>
      obtain ⟨ls1, h1, h2, h3⟩ := sim_parseMessage cfg (mkCtx s o) c msg
      refine ⟨ls1 ++ (if (parseMessage cfg (mkCtx s o) c msg).2 then [] else [.close c]),
        Or.inr ⟨ls1, h1, h2, rfl⟩, ?_⟩
      dsimp only
      cases hok : (parseMessage cfg (mkCtx s o) c msg).2 with
      | true =>
        simpa [rs_eq_rsS, List.reverse_reverse] using h3
      | false =>
        have hc : (findPeer (parseMessage cfg (mkCtx s o) c msg).1.st.peers c).isSome = true := by
          rw [findPeer_isSome_iff_conns]
          have := conns_steps_from h3 h2
          simp only [rs] at this
          rw [this, ← findPeer_isSome_iff_conns]
          exact isSome_of_not_isNone hlive
        have := Steps.append h3 (sim_closePeer _ c hc)
        simpa [rs_eq_rsS, List.reverse_reverse] using this
  | disconnect c o =>
    rw [step_disconnect]
    split
    · exact ⟨[], Or.inl rfl, rfl⟩
    · next h =>
      refine ⟨[.close c], Or.inr rfl, ?_⟩
      have := sim_closePeer (mkCtx s o) c (isSome_of_not_isNone h)
      simpa [rs_eq_rsS, List.reverse_reverse] using this
  | timerFire t o =>
    rw [step_timerFire]
    obtain ⟨ls, h1, h2, h3⟩ := sim_timeoutFired (mkCtx s o) t hw
    refine ⟨ls, ⟨h1, h2⟩, ?_⟩
    simpa [rs_eq_rsS, List.reverse_reverse] using h3

/-! ## the invariants on states -/

/-- structural well-formedness of the routing tables of a state (see `WfV`) -/
def RoutesWf (s : State) : Prop := WfV (s.peers.map pview) s.nextTimer

/-- distinctness of the generated ids of a state (see `RidsV`) -/
def RidsWf (s : State) : Prop := RidsV (s.peers.map pview) s.uuid

theorem routesWf_init (us : List User) : RoutesWf { users := us } :=
  ⟨List.nodup_nil, by simp, by simp [vRoutes], by simp [vRoutes], by simp [vRoutes]⟩

theorem ridsWf_init (us : List User) : RidsWf { users := us } :=
  ⟨by simp, by show (0 : Nat) < 4294967296; omega, by simp [vRoutes], by simp [vRoutes]⟩

theorem routesWf_step (cfg : Config) (s : State) (op : Op) (h : RoutesWf s) : RoutesWf (step cfg s op).1 := by
  obtain ⟨ls, _, hs⟩ := sim_step cfg s op h
  exact wf_steps hs h

theorem routesWf_run (cfg : Config) (ops : List Op) (s : State) (h : RoutesWf s) : RoutesWf (run cfg s ops).1 := by
  induction ops generalizing s with
  | nil => exact h
  | cons op rest ih => exact ih _ (routesWf_step cfg s op h)

/-- an upper bound for the number of ids an operation makes the router generate:
    the number of request objects it carries -/
def opWeight : Op → Nat
  | .message _ msg _ => msgWeight msg
  | _ => 0

/-- the address token of a connecting peer is well formed -/
def OpOk : Op → Prop
  | .connect _ _ _ addr => AddrOk addr
  | _ => True

instance (op : Op) : Decidable (OpOk op) := by
  cases op <;> unfold OpOk <;> infer_instance

theorem ticksOf_le_length (ls : List Lbl) : ticksOf ls ≤ ls.length := by
  induction ls with
  | nil => simp
  | cons l t ih =>
    rw [ticksOf_cons, List.length_cons]
    have : l.ticks ≤ 1 := by cases l <;> simp [Lbl.ticks]
    omega

theorem opLbls_ticks {cfg : Config} {s : State} {op : Op} {ls : List Lbl} (h : OpLbls cfg s op ls) :
    ticksOf ls ≤ opWeight op := by
  cases op with
  | connect c ws isLocal addr => rcases h with rfl | rfl <;> simp [Lbl.ticks]
  | message c msg o =>
    rcases h with rfl | ⟨ls1, h1, _, rfl⟩
    · simp
    · have := ticksOf_le_length ls1
      split <;> simp [Lbl.ticks, opWeight] <;> omega
  | disconnect c o => rcases h with rfl | rfl <;> simp [Lbl.ticks]
  | timerFire t o =>
    obtain ⟨h1, h2⟩ := h
    match ls, h1, h2 with
    | [], _, _ => simp
    | [l], _, h2 =>
      obtain ⟨r, rfl, _⟩ := h2 l (List.mem_singleton.mpr rfl)
      simp [Lbl.ticks]

theorem opLbls_connect {cfg : Config} {s : State} {op : Op} {ls : List Lbl} (h : OpLbls cfg s op ls)
    (hok : OpOk op) : ∀ c addr, Lbl.connect c addr ∈ ls → AddrOk addr := by
  intro c addr hm
  cases op with
  | connect c' ws isLocal addr' =>
    rcases h with rfl | rfl
    · cases hm
    · simp only [List.mem_singleton, Lbl.connect.injEq] at hm
      rw [hm.2]; exact hok
  | message c' msg o =>
    rcases h with rfl | ⟨ls1, _, h2, rfl⟩
    · cases hm
    · rcases List.mem_append.mp hm with hm | hm
      · exact absurd (h2 _ hm) (by simp [LblFrom])
      · split at hm <;> simp at hm
  | disconnect c' o => rcases h with rfl | rfl <;> simp at hm
  | timerFire t o =>
    obtain ⟨r, e, _⟩ := h.2 _ hm
    cases e

theorem ridsWf_step (cfg : Config) (s : State) (op : Op) (hw : RoutesWf s) (h : RidsWf s) (hok : OpOk op)
    (hb : s.uuid + opWeight op < 4294967296) :
    RidsWf (step cfg s op).1 ∧ (step cfg s op).1.uuid ≤ s.uuid + opWeight op := by
  obtain ⟨ls, hl, hs⟩ := sim_step cfg s op hw
  have ht := opLbls_ticks hl
  obtain ⟨h1, h2⟩ := rids_steps hs hw h (by show s.uuid + _ < _; omega) (opLbls_connect hl hok)
  refine ⟨h1, ?_⟩
  have : (step cfg s op).1.uuid = s.uuid + ticksOf ls := h2
  omega

def runWeight (ops : List Op) : Nat := (ops.map opWeight).sum

theorem ridsWf_run (cfg : Config) (ops : List Op) (s : State) (hw : RoutesWf s) (h : RidsWf s)
    (hok : ∀ op ∈ ops, OpOk op) (hb : s.uuid + runWeight ops < 4294967296) :
    RidsWf (run cfg s ops).1 ∧ (run cfg s ops).1.uuid ≤ s.uuid + runWeight ops := by
  induction ops generalizing s with
  | nil => exact ⟨h, by simp [run]⟩
  | cons op rest ih =>
    have hrw : runWeight (op :: rest) = opWeight op + runWeight rest := by simp [runWeight]
    rw [hrw] at hb ⊢
    obtain ⟨h1, h2⟩ := ridsWf_step cfg s op hw h (hok op (List.mem_cons_self ..)) (by omega)
    obtain ⟨h3, h4⟩ := ih _ (routesWf_step cfg s op hw) h1
      (fun o ho => hok o (List.mem_cons_of_mem _ ho)) (by omega)
    exact ⟨h3, by simp only [run] at h4 ⊢; omega⟩

/-! ## one entry across one operation -/

/-- `r` is stored in the routing table of the peer it names as owner -/
def Stored (s : State) (r : Route) : Prop := ∃ p, findPeer s.peers r.owner = some p ∧ r ∈ p.routes

theorem stored_iff (s : State) (r : Route) : Stored s r ↔ InTable (s.peers.map pview) r := by
  unfold Stored InTable
  rw [vTable_map_pview]
  cases findPeer s.peers r.owner <;> simp

/-- the operations that may end the life of the routing entry `r`: a message of its owner that
    contains a routing response with its id; a message of its owner or requester that gets that
    peer dropped; the disconnect of its owner or requester; the expiry of its timer -/
def Resolves (cfg : Config) (s : State) (r : Route) : Op → Prop
  | .connect _ _ _ _ => False
  | .message c msg o =>
    (c = r.owner ∧ msgReplies msg r.rid = true) ∨
    ((c = r.owner ∨ c = r.requester) ∧ (parseMessage cfg (mkCtx s o) c msg).2 = false)
  | .disconnect c _ => c = r.owner ∨ c = r.requester
  | .timerFire t _ => t = r.timer

theorem stable_steps {ls : List Lbl} {a b : RS} {r : Route} (hs : Steps ls a b) (hw : a.Wf) (hr : a.Rids)
    (hb : a.uuid + ticksOf ls < 4294967296) (hconn : ∀ c addr, Lbl.connect c addr ∈ ls → AddrOk addr)
    (hin : InTable a.V r) (hk : ∀ l ∈ ls, ¬ Kills r l) : InTable b.V r := by
  induction ls generalizing a with
  | nil => cases hs; exact hin
  | cons l t ih =>
    rw [ticksOf_cons] at hb
    have h1 := rids_app hs.1 hw hr (by omega) (fun c addr e => hconn c addr (e ▸ List.mem_cons_self ..))
    exact ih hs.2 (wf_app hs.1 hw) h1.1 (by rw [h1.2]; omega)
      (fun c addr hm => hconn c addr (List.mem_cons_of_mem _ hm))
      (stable_app hs.1 hw hr hin (hk l (List.mem_cons_self ..)))
      (fun l' hl' => hk l' (List.mem_cons_of_mem _ hl'))

/-- Third-party independence: a stored routing entry is still stored, unchanged, after every
    operation that is not one of its resolvers. -/
theorem stored_step (cfg : Config) (s : State) (op : Op) (r : Route) (hw : RoutesWf s) (hr : RidsWf s)
    (hok : OpOk op) (hb : s.uuid + opWeight op < 4294967296) (hin : Stored s r)
    (hres : ¬ Resolves cfg s r op) : Stored (step cfg s op).1 r := by
  rw [stored_iff] at hin ⊢
  obtain ⟨ls, hl, hs⟩ := sim_step cfg s op hw
  have ht := opLbls_ticks hl
  refine stable_steps hs hw hr (by show s.uuid + _ < _; omega) (opLbls_connect hl hok) hin ?_
  intro l hlm hkill
  cases op with
  | connect c ws isLocal addr =>
    rcases hl with rfl | rfl
    · cases hlm
    · simp only [List.mem_singleton] at hlm; subst hlm; exact hkill
  | message c msg o =>
    rcases hl with rfl | ⟨ls1, _, h2, rfl⟩
    · cases hlm
    · rcases List.mem_append.mp hlm with hlm | hlm
      · have hf := h2 l hlm
        cases l with
        | drop o' r' =>
          obtain ⟨rfl, hrep⟩ := hf
          obtain ⟨h3, h4⟩ := hkill
          exact hres (Or.inl ⟨h3, h4 ▸ hrep⟩)
        | close c' => exact hf
        | tick => exact hkill
        | full => exact hkill
        | issue _ _ => exact hkill
        | issueFail _ _ => exact hkill
        | connect _ _ => exact hkill
      · cases hok' : (parseMessage cfg (mkCtx s o) c msg).2 with
        | true => simp [hok'] at hlm
        | false =>
          simp only [hok', Bool.false_eq_true, ↓reduceIte, List.mem_singleton] at hlm
          subst hlm
          exact hres (Or.inr ⟨hkill, hok'⟩)
  | disconnect c o =>
    rcases hl with rfl | rfl
    · cases hlm
    · simp only [List.mem_singleton] at hlm; subst hlm; exact hres hkill
  | timerFire t o =>
    obtain ⟨h1, h2⟩ := hl
    obtain ⟨r', rfl, htm⟩ := h2 l hlm
    obtain ⟨hown, hrid⟩ := hkill
    -- the label is the only one, so its precondition holds in `s`
    have hpre : r' ∈ vTable (s.peers.map pview) r'.owner := by
      match ls, h1, hlm, hs with
      | [l'], _, hlm, hs =>
        simp only [List.mem_singleton] at hlm
        subst hlm
        exact hs.1
    have : r' = r := eq_of_nodup_map _ hr.rids (vTable_subset_vRoutes hpre) (vTable_subset_vRoutes hin) hrid
    subst this
    exact hres htm.symm

end Cjet.Daemon.C03
