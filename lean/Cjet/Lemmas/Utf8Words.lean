/-
  Helper lemmas for property C18, part 2: the word fast paths and the auto-aligned front end.
   5. bytes of a word as arithmetic on `toNat`; a masked comparison of a word is a conjunction of
      masked comparisons of its bytes; soundness of `fastSkip32` / `fastSkip64`; word loop = byte loop
   6. little-endian loads round-trip; splitting of the buffer by the auto-aligned front end
-/
import Cjet.Lemmas.Utf8

namespace Cjet.Utf8
open Cjet.Generated.Utf8

/-! ## 5. words -/

theorem and255 (x : Nat) : x &&& 255 = x % 256 := Nat.and_two_pow_sub_one_eq_mod x 8
theorem and31 (x : Nat) : x &&& 31 = x % 32 := Nat.and_two_pow_sub_one_eq_mod x 5

theorem nat_and_byte (a m j : Nat) :
    (a &&& m) / 2 ^ (8 * j) % 2 ^ 8 = (a / 2 ^ (8 * j) % 2 ^ 8) &&& (m / 2 ^ (8 * j) % 2 ^ 8) := by
  rw [Nat.and_div_two_pow, Nat.and_mod_two_pow]

/-- `(tmp & (0x1F << k)) > (1 << k)` says that the 5-bit field at bit `k` is larger than 1. -/
theorem field_gt (n k : Nat) (h : 2 ^ k < n &&& (31 * 2 ^ k)) : 1 < n / 2 ^ k % 32 := by
  have h1 : (n &&& 31 * 2 ^ k) / 2 ^ k = n / 2 ^ k % 32 := by
    rw [Nat.and_div_two_pow, Nat.mul_div_cancel _ (Nat.two_pow_pos k), and31]
  have h2 : (n &&& 31 * 2 ^ k) % 2 ^ k = 0 := by
    rw [Nat.and_mod_two_pow, Nat.mul_mod_left, Nat.and_zero]
  have h3 := Nat.div_add_mod (n &&& 31 * 2 ^ k) (2 ^ k)
  rw [h1, h2] at h3
  rw [← h3] at h
  by_cases hq : n / 2 ^ k % 32 ≤ 1
  · have : 2 ^ k * (n / 2 ^ k % 32) ≤ 2 ^ k * 1 := Nat.mul_le_mul_left _ hq
    omega
  · omega

theorem run_ascii (b : UInt8) (rest : List UInt8) (h : utf8_1 b = true) :
    runBytes init (b :: rest) = runBytes init rest := by
  simp [runBytes_cons, isByteValid_init, h]

theorem run_pair (b0 b1 : UInt8) (rest : List UInt8) (h0 : inRange 0xC2 0xDF b0 = true)
    (h1 : utf8Tail b1 = true) : runBytes init (b0 :: b1 :: rest) = runBytes init rest := by
  have := (lead_classes b0).1
  have hn : utf8_1 b0 = false := by
    cases h : utf8_1 b0
    · rfl
    · simp [this h] at h0
  simp [runBytes_cons, isByteValid_init, isByteValid_two, h0, hn, secondRange_lead2 b0 b1 h0, h1]

/-! ### 32 bit -/
theorem byteAt32_0 (w : UInt32) : (byteAt32 w 0).toNat = w.toNat % 256 := by
  simp [byteAt32, and255]

theorem byteAt32_1 (w : UInt32) : (byteAt32 w 1).toNat = w.toNat / 256 % 256 := by
  simp [byteAt32, Nat.shiftRight_eq_div_pow, and255]

theorem byteAt32_2 (w : UInt32) : (byteAt32 w 2).toNat = w.toNat / 65536 % 256 := by
  simp [byteAt32, Nat.shiftRight_eq_div_pow, and255]

theorem byteAt32_3 (w : UInt32) : (byteAt32 w 3).toNat = w.toNat / 16777216 % 256 := by
  simp [byteAt32, Nat.shiftRight_eq_div_pow, and255]

/-- A masked comparison of a word is a conjunction of masked comparisons of its bytes. -/
theorem mask32 (w m k : UInt32) (h : w &&& m = k) :
    (byteAt32 w 0).toNat &&& (m.toNat % 256) = k.toNat % 256 ∧
    (byteAt32 w 1).toNat &&& (m.toNat / 256 % 256) = k.toNat / 256 % 256 ∧
    (byteAt32 w 2).toNat &&& (m.toNat / 65536 % 256) = k.toNat / 65536 % 256 ∧
    (byteAt32 w 3).toNat &&& (m.toNat / 16777216 % 256) = k.toNat / 16777216 % 256 := by
  subst h
  have h0 := nat_and_byte w.toNat m.toNat 0
  have h1 := nat_and_byte w.toNat m.toNat 1
  have h2 := nat_and_byte w.toNat m.toNat 2
  have h3 := nat_and_byte w.toNat m.toNat 3
  simp at h0 h1 h2 h3
  simp [h0, h1, h2, h3, byteAt32_0, byteAt32_1, byteAt32_2, byteAt32_3]

theorem gt32 (w a b : UInt32) (h : (w &&& a) > b) : b.toNat < w.toNat &&& a.toNat := by
  simpa [UInt32.lt_iff_toNat_lt] using h

/-- Whenever the 32-bit fast path skips a word, feeding its four bytes to the byte checker from
    the initial state accepts them and ends in the initial state again. -/
theorem fastSkip32_sound (w : UInt32) (h : fastSkip32 w = true) :
    runBytes init (bytes32 w) = (true, init) := by
  simp only [fastSkip32, Bool.or_eq_true, Bool.and_eq_true, beq_iff_eq, decide_eq_true_eq] at h
  rcases h with (((h | ⟨h, g⟩) | ⟨h, g⟩) | ⟨h, g⟩) | ⟨⟨h, g⟩, g'⟩
  · obtain ⟨m0, m1, m2, m3⟩ := mask32 _ _ _ h
    simp [fastZone1] at m0 m1 m2 m3
    simp [bytes32, run_ascii, cls_ascii, m0, m1, m2, m3, runBytes_nil]
  · obtain ⟨m0, m1, m2, m3⟩ := mask32 _ _ _ h
    simp [fastZone21] at m0 m1 m2 m3
    have f := field_gt w.toNat 0 (by simpa using gt32 _ _ _ g)
    have l0 := cls_lead2 (byteAt32 w 0) m0 (by rw [byteAt32_0]; simp at f; omega)
    simp [bytes32, run_ascii, run_pair, l0, cls_ascii, cls_tail, m1, m2, m3, runBytes_nil]
  · obtain ⟨m0, m1, m2, m3⟩ := mask32 _ _ _ h
    simp [fastZone22] at m0 m1 m2 m3
    have f := field_gt w.toNat 8 (by simpa using gt32 _ _ _ g)
    have l1 := cls_lead2 (byteAt32 w 1) m1 (by rw [byteAt32_1]; simp at f; omega)
    simp [bytes32, run_ascii, run_pair, l1, cls_ascii, cls_tail, m0, m2, m3, runBytes_nil]
  · obtain ⟨m0, m1, m2, m3⟩ := mask32 _ _ _ h
    simp [fastZone23] at m0 m1 m2 m3
    have f := field_gt w.toNat 16 (by simpa using gt32 _ _ _ g)
    have l2 := cls_lead2 (byteAt32 w 2) m2 (by rw [byteAt32_2]; simp at f; omega)
    simp [bytes32, run_ascii, run_pair, l2, cls_ascii, cls_tail, m0, m1, m3, runBytes_nil]
  · obtain ⟨m0, m1, m2, m3⟩ := mask32 _ _ _ h
    simp [fastZone24] at m0 m1 m2 m3
    have f := field_gt w.toNat 0 (by simpa using gt32 _ _ _ g)
    have f' := field_gt w.toNat 16 (by simpa using gt32 _ _ _ g')
    have l0 := cls_lead2 (byteAt32 w 0) m0 (by rw [byteAt32_0]; simp at f; omega)
    have l2 := cls_lead2 (byteAt32 w 2) m2 (by rw [byteAt32_2]; simp at f'; omega)
    simp [bytes32, run_pair, l0, l2, cls_tail, m1, m3, runBytes_nil]

/-! ### 64 bit -/
theorem byteAt64_0 (w : UInt64) : (byteAt64 w 0).toNat = w.toNat % 256 := by
  simp [byteAt64, and255]

theorem byteAt64_1 (w : UInt64) : (byteAt64 w 1).toNat = w.toNat / 256 % 256 := by
  simp [byteAt64, Nat.shiftRight_eq_div_pow, and255]

theorem byteAt64_2 (w : UInt64) : (byteAt64 w 2).toNat = w.toNat / 65536 % 256 := by
  simp [byteAt64, Nat.shiftRight_eq_div_pow, and255]

theorem byteAt64_3 (w : UInt64) : (byteAt64 w 3).toNat = w.toNat / 16777216 % 256 := by
  simp [byteAt64, Nat.shiftRight_eq_div_pow, and255]

theorem byteAt64_4 (w : UInt64) : (byteAt64 w 4).toNat = w.toNat / 4294967296 % 256 := by
  simp [byteAt64, Nat.shiftRight_eq_div_pow, and255]

theorem byteAt64_5 (w : UInt64) : (byteAt64 w 5).toNat = w.toNat / 1099511627776 % 256 := by
  simp [byteAt64, Nat.shiftRight_eq_div_pow, and255]

theorem byteAt64_6 (w : UInt64) : (byteAt64 w 6).toNat = w.toNat / 281474976710656 % 256 := by
  simp [byteAt64, Nat.shiftRight_eq_div_pow, and255]

theorem byteAt64_7 (w : UInt64) : (byteAt64 w 7).toNat = w.toNat / 72057594037927936 % 256 := by
  simp [byteAt64, Nat.shiftRight_eq_div_pow, and255]

/-- A masked comparison of a word is a conjunction of masked comparisons of its bytes. -/
theorem mask64 (w m k : UInt64) (h : w &&& m = k) :
    (byteAt64 w 0).toNat &&& (m.toNat % 256) = k.toNat % 256 ∧
    (byteAt64 w 1).toNat &&& (m.toNat / 256 % 256) = k.toNat / 256 % 256 ∧
    (byteAt64 w 2).toNat &&& (m.toNat / 65536 % 256) = k.toNat / 65536 % 256 ∧
    (byteAt64 w 3).toNat &&& (m.toNat / 16777216 % 256) = k.toNat / 16777216 % 256 ∧
    (byteAt64 w 4).toNat &&& (m.toNat / 4294967296 % 256) = k.toNat / 4294967296 % 256 ∧
    (byteAt64 w 5).toNat &&& (m.toNat / 1099511627776 % 256) = k.toNat / 1099511627776 % 256 ∧
    (byteAt64 w 6).toNat &&& (m.toNat / 281474976710656 % 256) = k.toNat / 281474976710656 % 256 ∧
    (byteAt64 w 7).toNat &&& (m.toNat / 72057594037927936 % 256) = k.toNat / 72057594037927936 % 256 := by
  subst h
  have h0 := nat_and_byte w.toNat m.toNat 0
  have h1 := nat_and_byte w.toNat m.toNat 1
  have h2 := nat_and_byte w.toNat m.toNat 2
  have h3 := nat_and_byte w.toNat m.toNat 3
  have h4 := nat_and_byte w.toNat m.toNat 4
  have h5 := nat_and_byte w.toNat m.toNat 5
  have h6 := nat_and_byte w.toNat m.toNat 6
  have h7 := nat_and_byte w.toNat m.toNat 7
  simp at h0 h1 h2 h3 h4 h5 h6 h7
  simp [h0, h1, h2, h3, h4, h5, h6, h7, byteAt64_0, byteAt64_1, byteAt64_2, byteAt64_3, byteAt64_4, byteAt64_5, byteAt64_6, byteAt64_7]

theorem gt64 (w a b : UInt64) (h : (w &&& a) > b) : b.toNat < w.toNat &&& a.toNat := by
  simpa [UInt64.lt_iff_toNat_lt] using h

theorem fastSkip64_sound (w : UInt64) (h : fastSkip64 w = true) :
    runBytes init (bytes64 w) = (true, init) := by
  simp only [fastSkip64, Bool.or_eq_true, Bool.and_eq_true, beq_iff_eq, decide_eq_true_eq] at h
  rcases h with h | ⟨⟨⟨⟨h, g0⟩, g2⟩, g4⟩, g6⟩
  · obtain ⟨m0, m1, m2, m3, m4, m5, m6, m7⟩ := mask64 _ _ _ h
    simp [fastZone1_64] at m0 m1 m2 m3 m4 m5 m6 m7
    simp [bytes64, run_ascii, cls_ascii, m0, m1, m2, m3, m4, m5, m6, m7, runBytes_nil]
  · obtain ⟨m0, m1, m2, m3, m4, m5, m6, m7⟩ := mask64 _ _ _ h
    simp [fastZone2_64] at m0 m1 m2 m3 m4 m5 m6 m7
    have f0 := field_gt w.toNat 0 (by simpa using gt64 _ _ _ g0)
    have f2 := field_gt w.toNat 16 (by simpa using gt64 _ _ _ g2)
    have f4 := field_gt w.toNat 32 (by simpa using gt64 _ _ _ g4)
    have f6 := field_gt w.toNat 48 (by simpa using gt64 _ _ _ g6)
    have l0 := cls_lead2 (byteAt64 w 0) m0 (by rw [byteAt64_0]; simp at f0; omega)
    have l2 := cls_lead2 (byteAt64 w 2) m2 (by rw [byteAt64_2]; simp at f2; omega)
    have l4 := cls_lead2 (byteAt64 w 4) m4 (by rw [byteAt64_4]; simp at f4; omega)
    have l6 := cls_lead2 (byteAt64 w 6) m6 (by rw [byteAt64_6]; simp at f6; omega)
    simp [bytes64, run_pair, l0, l2, l4, l6, cls_tail, m1, m3, m5, m7, runBytes_nil]

/-! ### word loop = byte loop -/

theorem wordLoop_eq_runBytes {W : Type} (skip : W → Bool) (bytesOf : W → List UInt8)
    (hs : ∀ w, skip w = true → runBytes init (bytesOf w) = (true, init))
    (ws : List W) : ∀ (c : Checker), c.ok = true →
      wordLoop skip bytesOf c ws = runBytes c (ws.flatMap bytesOf) := by
  induction ws with
  | nil => intro c _; simp [wordLoop, runBytes_nil]
  | cons w ws ih =>
    intro c hc
    rw [wordLoop, List.flatMap_cons, runBytes_append]
    by_cases hsk : (c.next == 1 && skip w) = true
    · simp only [hsk, if_true]
      simp only [Bool.and_eq_true, beq_iff_eq] at hsk
      have hci := ok_next_one c hc hsk.1
      subst hci
      rw [hs w hsk.2]
      simpa using ih init ok_init
    · simp only [hsk]
      have hok := ok_runBytes c (bytesOf w) hc
      rcases hr : runBytes c (bytesOf w) with ⟨r, c'⟩
      rw [hr] at hok
      cases r
      · simp
      · simpa using ih c' hok

theorem finish_false (r : Bool × Checker) : finish r false = r := by
  rcases r with ⟨v, c⟩; cases v <;> simp [finish]

theorem word32Seq_eq_byteSeq (c : Checker) (hc : c.ok = true) (ws : List UInt32) (k : Bool) :
    word32Seq c ws k = byteSeq c (ws.flatMap bytes32) k := by
  rw [word32Seq, byteSeq_eq_finish, wordLoop_eq_runBytes _ _ fastSkip32_sound ws c hc]

theorem word64Seq_eq_byteSeq (c : Checker) (hc : c.ok = true) (ws : List UInt64) (k : Bool) :
    word64Seq c ws k = byteSeq c (ws.flatMap bytes64) k := by
  rw [word64Seq, byteSeq_eq_finish, wordLoop_eq_runBytes _ _ fastSkip64_sound ws c hc]

/-! ## 6. little-endian loads, the auto-aligned front end -/

theorem bytes32_le32 (b0 b1 b2 b3 : UInt8) : bytes32 (le32 b0 b1 b2 b3) = [b0, b1, b2, b3] := by
  have h0 := b0.toNat_lt; have h1 := b1.toNat_lt; have h2 := b2.toNat_lt; have h3 := b3.toNat_lt
  have hn : (le32 b0 b1 b2 b3).toNat =
      b0.toNat + 256 * b1.toNat + 65536 * b2.toNat + 16777216 * b3.toNat := by
    simp only [le32, UInt32.toNat_ofNat']
    omega
  simp only [bytes32, List.cons.injEq, and_true, ← UInt8.toNat_inj, byteAt32_0, byteAt32_1,
    byteAt32_2, byteAt32_3, hn]
  omega

theorem bytes64_le64 (b0 b1 b2 b3 b4 b5 b6 b7 : UInt8) :
    bytes64 (le64 b0 b1 b2 b3 b4 b5 b6 b7) = [b0, b1, b2, b3, b4, b5, b6, b7] := by
  have h0 := b0.toNat_lt; have h1 := b1.toNat_lt; have h2 := b2.toNat_lt; have h3 := b3.toNat_lt
  have h4 := b4.toNat_lt; have h5 := b5.toNat_lt; have h6 := b6.toNat_lt; have h7 := b7.toNat_lt
  have hn : (le64 b0 b1 b2 b3 b4 b5 b6 b7).toNat =
      b0.toNat + 256 * b1.toNat + 65536 * b2.toNat + 16777216 * b3.toNat
    + 4294967296 * b4.toNat + 1099511627776 * b5.toNat + 281474976710656 * b6.toNat
    + 72057594037927936 * b7.toNat := by
    simp only [le64, UInt64.toNat_ofNat']
    omega
  simp only [bytes64, List.cons.injEq, and_true, ← UInt8.toNat_inj, byteAt64_0, byteAt64_1,
    byteAt64_2, byteAt64_3, byteAt64_4, byteAt64_5, byteAt64_6, byteAt64_7, hn]
  omega

/-- Loading whole words from a byte array and feeding each word's bytes in the order of the inner
    loop reproduces the array (little-endian host). -/
theorem flatMap_bytes32_words32 : ∀ (m : Nat) (xs : List UInt8), xs.length = 4 * m →
    (words32 xs).flatMap bytes32 = xs := by
  intro m
  induction m with
  | zero => intro xs h; have : xs = [] := List.length_eq_zero_iff.mp (by omega); subst this; rfl
  | succ m ih =>
    intro xs h
    rcases xs with _ | ⟨b0, _ | ⟨b1, _ | ⟨b2, _ | ⟨b3, rest⟩⟩⟩⟩ <;>
      simp only [List.length_cons, List.length_nil] at h <;> try omega
    simp only [words32, List.flatMap_cons, bytes32_le32]
    rw [ih rest (by omega)]
    rfl

theorem flatMap_bytes64_words64 : ∀ (m : Nat) (xs : List UInt8), xs.length = 8 * m →
    (words64 xs).flatMap bytes64 = xs := by
  intro m
  induction m with
  | zero => intro xs h; have : xs = [] := List.length_eq_zero_iff.mp (by omega); subst this; rfl
  | succ m ih =>
    intro xs h
    rcases xs with _ | ⟨b0, _ | ⟨b1, _ | ⟨b2, _ | ⟨b3, _ | ⟨b4, _ | ⟨b5, _ | ⟨b6, _ | ⟨b7, rest⟩⟩⟩⟩⟩⟩⟩⟩ <;>
      simp only [List.length_cons, List.length_nil] at h <;> try omega
    simp only [words64, List.flatMap_cons, bytes64_le64]
    rw [ih rest (by omega)]
    rfl

/-- The shape of the word branches of the auto-aligned front end: three unconditional calls,
    results and-ed, then the `is_complete` epilogue. -/
def threePart (c : Checker) (pre mid post : List UInt8) (k : Bool) : Bool × Checker :=
  let r1 := runBytes c pre
  let r2 := runBytes r1.2 mid
  let r3 := runBytes r2.2 post
  autoEpilogue (r1.1 && r2.1 && r3.1, r3.2) k

theorem threePart_spec (c : Checker) (hc : c.ok = true) (pre mid post : List UInt8) (k : Bool) :
    (threePart c pre mid post k).1 = (byteSeq c (pre ++ mid ++ post) k).1 ∧
    ((k = true ∨ (threePart c pre mid post k).1 = true) →
      threePart c pre mid post k = byteSeq c (pre ++ mid ++ post) k) := by
  have ok1 := ok_runBytes c pre hc
  have ok2 := ok_runBytes (runBytes c pre).2 mid ok1
  have ok3 := ok_runBytes (runBytes (runBytes c pre).2 mid).2 post ok2
  have f1 := runBytes_false c pre
  have f2 := runBytes_false (runBytes c pre).2 mid
  have f3 := runBytes_false (runBytes (runBytes c pre).2 mid).2 post
  have hst := ok_start_finish _ ok3
  rw [byteSeq_eq_finish, List.append_assoc, runBytes_append, runBytes_append]
  simp only [threePart, autoEpilogue]
  rcases h1 : runBytes c pre with ⟨v1, c1⟩
  simp only [h1] at *
  rcases h2 : runBytes c1 mid with ⟨v2, c2⟩
  simp only [h2] at *
  rcases h3 : runBytes c2 post with ⟨v3, c3⟩
  simp only [h3] at *
  cases v1 <;> cases v2 <;> cases v3 <;> cases k <;> simp_all [finish] <;>
    (refine ⟨?_, hst⟩; split <;> rfl)

theorem split3 (bs : List UInt8) (p n : Nat) :
    bs.take p ++ (bs.drop p).take n ++ bs.drop (p + n) = bs := by
  rw [List.append_assoc, ← List.drop_drop, List.take_append_drop, List.take_append_drop]

theorem autoWords64_eq (addr : Nat) (c : Checker) (hc : c.ok = true) (bs : List UInt8)
    (hlen : 8 ≤ bs.length) (k : Bool) :
    autoEpilogue (autoWords64 addr c bs) k =
      threePart c (bs.take (8 - addr % 8))
        ((bs.drop (8 - addr % 8)).take (((bs.length - (8 - addr % 8)) >>> 3) <<< 3))
        (bs.drop (8 - addr % 8 + (((bs.length - (8 - addr % 8)) >>> 3) <<< 3))) k := by
  have ok1 := ok_byteSeq c (bs.take (8 - addr % 8)) false hc
  have hmid : ((bs.drop (8 - addr % 8)).take (((bs.length - (8 - addr % 8)) >>> 3) <<< 3)).length
      = 8 * ((bs.length - (8 - addr % 8)) >>> 3) := by
    rw [List.length_take, List.length_drop, Nat.shiftLeft_eq, Nat.shiftRight_eq_div_pow]
    omega
  simp only [autoWords64, threePart]
  rw [word64Seq_eq_byteSeq _ ok1, flatMap_bytes64_words64 _ _ hmid]
  simp only [byteSeq_false_eq]

theorem autoWords32_eq (addr : Nat) (c : Checker) (hc : c.ok = true) (bs : List UInt8)
    (hlen : 8 ≤ bs.length) (k : Bool) :
    autoEpilogue (autoWords32 addr c bs) k =
      threePart c (bs.take (4 - addr % 4))
        ((bs.drop (4 - addr % 4)).take (((bs.length - (4 - addr % 4)) >>> 2) <<< 2))
        (bs.drop (4 - addr % 4 + (((bs.length - (4 - addr % 4)) >>> 2) <<< 2))) k := by
  have ok1 := ok_byteSeq c (bs.take (4 - addr % 4)) false hc
  have hmid : ((bs.drop (4 - addr % 4)).take (((bs.length - (4 - addr % 4)) >>> 2) <<< 2)).length
      = 4 * ((bs.length - (4 - addr % 4)) >>> 2) := by
    rw [List.length_take, List.length_drop, Nat.shiftLeft_eq, Nat.shiftRight_eq_div_pow]
    omega
  simp only [autoWords32, threePart]
  rw [word32Seq_eq_byteSeq _ ok1, flatMap_bytes32_words32 _ _ hmid]
  simp only [byteSeq_false_eq]

/-- The default branch (`bytewidth` neither 8 nor 4, or fewer than 8 bytes): the epilogue of the
    front end never fires after `cjet_is_byte_sequence_valid` has run its own — in any state. -/
theorem auto_default (c : Checker) (bs : List UInt8) (k : Bool) :
    autoEpilogue (byteSeq c bs k) k = byteSeq c bs k := by
  have hf := runBytes_false c bs
  rw [byteSeq_eq_finish, autoEpilogue]
  rcases h : runBytes c bs with ⟨v, c'⟩
  rw [h] at hf
  cases v <;> cases k <;> simp_all [finish, init]
  split <;> simp_all

theorem autoAligned_spec (width addr : Nat) (c : Checker) (hc : c.ok = true) (bs : List UInt8)
    (k : Bool) :
    (autoAligned width addr c bs k).1 = (byteSeq c bs k).1 ∧
    ((k = true ∨ (autoAligned width addr c bs k).1 = true) →
      autoAligned width addr c bs k = byteSeq c bs k) := by
  unfold autoAligned autoSwitch
  simp only []
  by_cases hl : bs.length < 8
  · simp only [hl, if_true, show ((1 : Nat) == 8) = false from rfl, show ((1 : Nat) == 4) = false from rfl]
    simp [auto_default]
  · simp only [hl, if_false]
    have hlen : 8 ≤ bs.length := by omega
    by_cases h8 : width = 8
    · subst h8
      simp only [show ((8 : Nat) == 8) = true from rfl, if_true]
      rw [autoWords64_eq addr c hc bs hlen k]
      have := threePart_spec c hc (bs.take (8 - addr % 8))
        ((bs.drop (8 - addr % 8)).take (((bs.length - (8 - addr % 8)) >>> 3) <<< 3))
        (bs.drop (8 - addr % 8 + (((bs.length - (8 - addr % 8)) >>> 3) <<< 3))) k
      rw [split3] at this
      exact this
    · by_cases h4 : width = 4
      · subst h4
        simp only [show ((4 : Nat) == 8) = false from rfl, show ((4 : Nat) == 4) = true from rfl, if_true,
          Bool.false_eq_true, if_false]
        rw [autoWords32_eq addr c hc bs hlen k]
        have := threePart_spec c hc (bs.take (4 - addr % 4))
          ((bs.drop (4 - addr % 4)).take (((bs.length - (4 - addr % 4)) >>> 2) <<< 2))
          (bs.drop (4 - addr % 4 + (((bs.length - (4 - addr % 4)) >>> 2) <<< 2))) k
        rw [split3] at this
        exact this
      · have e8 : (width == 8) = false := by simp [h8]
        have e4 : (width == 4) = false := by simp [h4]
        simp [e8, e4, auto_default]

end Cjet.Utf8
